import WM.Proto
import WM.Spec.Codec
import WM.Spec.CodecIndex
import WM.Model.CodecBytes
import WM.Model.CodecMulti
namespace WM.Drv.C10
open WM.Proto WM.Codec

/-! Protocol handler of family `c10` (requests arrive without the family token).

`write KIND BL COMP INL FS (POSTING*)`            → `ok (blocks …) (ti …)` | `err NAME`
`run   KIND BL COMP INL FS (POSTING*) (OP*)`      → `(r1 r2 …)`, one result per op
`spec  KIND FS (POSTING*)`                        → expected entries and aggregates (Layer S)
KIND is `doc` (ids are integers) or `term` (ids are hex-encoded UTF-8 texts); FS is `none` or a size;
POSTING is `(id weight valuehex length|none)`. -/

/-- Wire format of ids for the two kinds. -/
structure Wire (ι μ : Type) where
  kind : IdKind ι μ
  parseId : SExp → Option ι
  showId : ι → String
  showMini : μ → String

def hexToString? (s : String) : Option String := do
  let bs ← hexBytes? s
  String.fromUTF8? (ByteArray.mk (bs.map (·.toUInt8)).toArray)

def stringToHex (s : String) : String := showHex (s.toUTF8.toList.map (·.toNat))

def docWire : Wire Int (List Int) :=
  { kind := docIds, parseId := SExp.int?, showId := toString, showMini := showIntList }

def termWire : Wire String (List String) :=
  { kind := termIds, parseId := fun e => e.atom? >>= hexToString?, showId := stringToHex
    showMini := showList stringToHex }

def parseMP : SExp → Option MP
  | .list [i, w, l] => do
    let i ← i.int?
    let w ← w.rat?
    let l ← l.nat?
    pure { id := i, weight := w, length := l }
  | _ => none

def parseTiOff : SExp → Option (TiStats × Int)
  | .list [w, df, mnl, mxl, mw, mnid, mxid, off] => do
    let w ← w.rat?
    let df ← df.nat?
    let mnl ← mnl.nat?
    let mxl ← mxl.nat?
    let mw ← mw.rat?
    let mnid ← mnid.int?
    let mxid ← mxid.int?
    let off ← off.int?
    pure ({ weight := w, df := df, minlength := mnl, maxlength := mxl, maxweight := mw, minid := mnid,
            maxid := mxid }, off)
  | _ => none

def showStats (t : TiStats) : String :=
  s!"({showRat t.weight} {t.df} {t.minlength} {t.maxlength} {showRat t.maxweight} {t.minid} {t.maxid})"

variable {ι μ : Type}

def parsePosting (w : Wire ι μ) : SExp → Option (Posting ι)
  | .list [i, wt, .atom v, l] => do
    let id ← w.parseId i
    let weight ← wt.rat?
    let value ← hexBytes? v
    let length ← SExp.opt? SExp.nat? l
    pure { id, weight, value, length }
  | _ => none

def parseCfg (w : Wire ι μ) (bl comp inl fs : SExp) : Option (Cfg ι μ) := do
  let blocklimit ← bl.nat?
  let compression ← comp.nat?
  let inlinelimit ← inl.nat?
  let fixedsize ← SExp.opt? SExp.nat? fs
  pure { ids := w.kind, f32 := id, blocklimit, compression, inlinelimit, fixedsize }

def showMiniW : MiniW → String
  | .allOnes => "ones"
  | .const x => s!"(const {showRat x})"
  | .each ws => "(each " ++ " ".intercalate (ws.map showRat) ++ ")"

def showMiniV : MiniV → String
  | .none => "none"
  | .tuple vs => "(tuple " ++ " ".intercalate (vs.map showHex) ++ ")"
  | .joined bs => s!"(joined {showHex bs})"

def showBlock (w : Wire ι μ) (b : DiskBlock ι μ) : String :=
  s!"({showBool b.last} {b.info.count} {w.showId b.info.lastId} {showRat b.info.maxWeight} " ++
  s!"{b.info.comp} {b.info.minLenByte} {b.info.maxLenByte} {w.showMini b.mids} {showMiniW b.mw} {showMiniV b.mv})"

def showTI (w : Wire ι μ) (t : TermInfo ι) : String :=
  let inl := match t.inlined with
    | none => "none"
    | some (ids, ws, vs) =>
      s!"({showList w.showId ids} {showList showRat ws} {showList showHex vs})"
  s!"(ti {showRat t.weight} {t.df} {showOpt toString t.minlength} {t.maxlength} {showRat t.maxweight} " ++
  s!"{showOpt w.showId t.minid} {showOpt w.showId t.maxid} {showOpt toString t.extent} {inl})"

def showEntry (w : Wire ι μ) (e : Entry ι) : String :=
  s!"({w.showId e.id} {showRat e.weight} {showOpt showHex e.value})"

def doWrite (w : Wire ι μ) (c : Cfg ι μ) (ps : List (Posting ι)) : String :=
  match writeTerm c ps with
  | .error e => s!"err {e.name}"
  | .ok (blocks, ti) => s!"ok (blocks {" ".intercalate (blocks.map (showBlock w))}) {showTI w ti}"

/-- Cursor programs. -/
inductive Op (ι : Type) where
  | next | id | weight | value | active | skipTo (t : ι) | skipQ (q : Rat) | maxId | info | copyNext

def parseOp (w : Wire ι μ) : SExp → Option (Op ι)
  | .atom "next" => some .next
  | .atom "id" => some .id
  | .atom "weight" => some .weight
  | .atom "value" => some .value
  | .atom "active" => some .active
  | .atom "maxid" => some .maxId
  | .atom "info" => some .info
  | .atom "copynext" => some .copyNext
  | .list [.atom "skip", t] => (w.parseId t).map .skipTo
  | .list [.atom "skipq", q] => q.rat?.map .skipQ
  | _ => none

def showExcept {α} (f : α → String) : Except Err α → String
  | .ok a => f a
  | .error e => s!"!{e.name}"

/-- Run a program on a block cursor; a raised exception leaves the cursor where it was. -/
def runOps (w : Wire ι μ) (fs : Option Nat) : Leaf ι μ → List (Op ι) → List String
  | _, [] => []
  | m, op :: ops =>
    match op with
    | .next => match m.next with
      | .ok (m', b) => showBool b :: runOps w fs m' ops
      | .error e => s!"!{e.name}" :: runOps w fs m.nextRaised ops
    | .id => showExcept w.showId (m.id w.kind) :: runOps w fs m ops
    | .weight => showExcept showRat m.weight :: runOps w fs m ops
    | .value => showExcept (showOpt showHex) (m.value fs) :: runOps w fs m ops
    | .active => showBool m.isActive :: runOps w fs m ops
    | .maxId => w.showId m.blockMaxId :: runOps w fs m ops
    | .info => s!"({m.cur.info.count} {showRat m.cur.info.maxWeight} {m.cur.info.minLenByte} {m.cur.info.maxLenByte})"
        :: runOps w fs m ops
    | .copyNext =>
      -- `c = m.copy(); c.next()`: the copy moves, the original does not
      let c := match m.next with
        | .ok (m', _) => m'
        | .error _ => m.nextRaised
      s!"({showExcept w.showId (m.id w.kind)} {showExcept w.showId (c.id w.kind)} {showBool c.isActive})"
        :: runOps w fs m ops
    | .skipTo t => match m.skipTo w.kind t with
      | .ok m' => "ok" :: runOps w fs m' ops
      | .error e => s!"!{e.name}" :: runOps w fs m ops
    | .skipQ q => match m.skipToQuality (fun i => i.maxWeight) q with
      | .ok (m', n) => toString n :: runOps w fs m' ops
      | .error e => s!"!{e.name}" :: runOps w fs m ops

/-- Programs on inlined postings run on `ListMatcher`, which the matcher family models; here only
    the read-out of the inlined tuple is mirrored. -/
def doRun (w : Wire ι μ) (c : Cfg ι μ) (ps : List (Posting ι)) (ops : List (Op ι)) : String :=
  match writeTerm c ps with
  | .error e => s!"err {e.name}"
  | .ok (blocks, ti) =>
    match ti.inlined with
    | some (ids, ws, vs) =>
      let vals := (List.range ids.length).map fun i => showExcept showHex (inlinedValue vs i)
      s!"inlined {showList w.showId ids} {showList showRat ws} {showList id vals}"
    | none =>
      match Leaf.open blocks with
      | .error e => s!"open-err {e.name}"
      | .ok m => showList id (runOps w c.fixedsize m ops)

def doSpec (w : Wire ι μ) (c : Cfg ι μ) (ps : List (Posting ι)) : String :=
  let (cs, rem) := split c.blocklimit ps
  s!"(entries {" ".intercalate ((ps.map (expected c)).map (showEntry w))}) " ++
  s!"(agg {ps.length} {showRat (sumW c.f32 ps)} {showOpt toString (minLen ps)} {maxLen ps} {showRat (maxW c.f32 ps)} " ++
  s!"{showOpt w.showId (ps.head?.map (·.id))} {showOpt w.showId (ps.getLast?.map (·.id))}) " ++
  s!"(chunks {showNatList ((cs ++ [rem]).map List.length)})"

def withKind (kind : SExp) (f : {ι μ : Type} → Wire ι μ → String) : String :=
  match kind with
  | .atom "doc" => f docWire
  | .atom "term" => f termWire
  | _ => "bad-op"

/-! ### formats and document-level spec

`wv FMT FB (TOKEN*)`                       → model `word_values` + all decoders per term
`index FMT VFMT FB SCORABLE (DOC*)`        → Layer S: posting list of every term, vector of every doc
FMT ∈ existence|frequency|positions|characters|positionboosts|characterboosts,
TOKEN = `(texthex pos startchar endchar boost)`, DOC = `(docnum boost (TOKEN*))`. -/

def parseFmt : SExp → Option Fmt
  | .atom "existence" => some .existence
  | .atom "frequency" => some .frequency
  | .atom "positions" => some .positions
  | .atom "characters" => some .characters
  | .atom "positionboosts" => some .positionBoosts
  | .atom "characterboosts" => some .characterBoosts
  | _ => none

def parseToken : SExp → Option Token
  | .list [.atom t, p, s, e, b] => do
    let text ← hexToString? t
    let pos ← p.int?
    let startchar ← s.int?
    let endchar ← e.int?
    let boost ← b.rat?
    pure { text, pos, startchar, endchar, boost }
  | _ => none

def parseDoc : SExp → Option DocIn
  | .list [n, b, .list toks] => do
    let docnum ← n.int?
    let boost ← b.rat?
    let toks ← toks.mapM parseToken
    pure { docnum, boost, toks }
  | _ => none

def showTriple (x : Int × Int × Int) : String := s!"({x.1} {x.2.1} {x.2.2})"
def showPB (x : Int × Rat) : String := s!"({x.1} {showRat x.2})"
def showCB (x : Int × Int × Int × Rat) : String := s!"({x.1} {x.2.1} {x.2.2.1} {showRat x.2.2.2})"

def showFValue : FValue → String
  | .empty => "empty"
  | .freq n => s!"(freq {n})"
  | .positions n ds => s!"(pos {n} {showIntList ds})"
  | .chars n cs => s!"(chars {n} {showList showTriple cs})"
  | .posBoosts n sm cs => s!"(pb {n} {showRat sm} {showList showPB cs})"
  | .charBoosts n sm cs => s!"(cb {n} {showRat sm} {showList showCB cs})"

def showDecoded (v : FValue) : String :=
  s!"({showOpt toString (decodeFrequency v)} {showOpt showIntList (decodePositions v)} " ++
  s!"{showOpt (showList showTriple) (decodeCharacters v)} {showOpt (showList showPB) (decodePositionBoosts v)} " ++
  s!"{showOpt (showList showCB) (decodeCharacterBoosts v)})"

def doWv (fmt : Fmt) (fb : Rat) (toks : List Token) : String :=
  let items := (wordValues id fmt fb toks).mergeSort (fun a b => decide (a.1 ≤ b.1))
  showList (fun x => s!"({stringToHex x.1} {x.2.1} {showRat x.2.2.1} {showFValue x.2.2.2} {showDecoded x.2.2.2})")
    items

def showPSpec (p : PostingSpec) : String :=
  s!"{p.freq} {showRat p.weight} {showIntList p.positions} {showList showTriple p.chars} {showList showRat p.boosts}"

def fieldLength (fmt : Fmt) (toks : List Token) : Nat :=
  ((distinctTexts toks).map fun w => (postingSpec fmt 1 (occ toks w)).freq).foldl (· + ·) 0

def doIndex (fmt vfmt : Fmt) (fb : Rat) (docs : List DocIn) : String :=
  let terms := ((docs.foldl (fun l d => (distinctTexts d.toks).foldl insertNew l) []).mergeSort
    (fun a b => decide (a ≤ b)))
  let posts := terms.map fun w =>
    s!"({stringToHex w} {showList (fun x => s!"({x.1} {showPSpec x.2})") (specPostings fmt fb docs w)})"
  let vecs := docs.map fun d =>
    s!"({d.docnum} {fieldLength fmt d.toks} {showList (fun x => s!"({stringToHex x.1} {showPSpec x.2})")
      (specVector vfmt fb d.toks)})"
  -- the executable model of the documents → pool → add_postings path and of the vector items
  -- must agree with Layer S on every term / document of this request (theorems
  -- `term_postings_spec`, `vector_items`, evaluated)
  let modelOk := terms.all (fun w =>
      (termPostings id fmt fb docs w).map (fun p => (p.docnum, p.weight))
        == (specPostings fmt fb docs w).map (fun x => (x.1, x.2.weight))) &&
    docs.all (fun d =>
      (vectorItems id vfmt fb d.toks).map (fun x => (x.1, x.2.1))
        == (specVector vfmt fb d.toks).map (fun x => (x.1, x.2.weight)))
  s!"(postings {" ".intercalate posts}) (docs {" ".intercalate vecs}) (model {showBool modelOk})"

def handleFmt : List SExp → Option String
  | [.atom "wv", fmt, fb, .list toks] => do
    let fmt ← parseFmt fmt
    let fb ← fb.rat?
    let toks ← toks.mapM parseToken
    pure (doWv fmt fb toks)
  | [.atom "index", fmt, vfmt, fb, .list docs] => do
    let fmt ← parseFmt fmt
    let vfmt ← parseFmt vfmt
    let fb ← fb.rat?
    let docs ← docs.mapM parseDoc
    pure (doIndex fmt vfmt fb docs)
  | _ => none

def handle : List SExp → String
  | [.atom "write", kind, bl, comp, inl, fs, .list ps] =>
    withKind kind fun w =>
      match parseCfg w bl comp inl fs, ps.mapM (parsePosting w) with
      | some c, some ps => doWrite w c ps
      | _, _ => "bad-op"
  | [.atom "run", kind, bl, comp, inl, fs, .list ps, .list ops] =>
    withKind kind fun w =>
      match parseCfg w bl comp inl fs, ps.mapM (parsePosting w), ops.mapM (parseOp w) with
      | some c, some ps, some ops => doRun w c ps ops
      | _, _, _ => "bad-op"
  | [.atom "spec", kind, bl, fs, .list ps] =>
    withKind kind fun w =>
      match parseCfg w bl (.atom "0") (.atom "0") fs, ps.mapM (parsePosting w) with
      | some c, some ps => doSpec w c ps
      | _, _ => "bad-op"
  | [.atom "tib", bl, comp, inl, fs, .list ps] =>
    -- what `W3TermInfo.from_bytes(ti.to_bytes())` shows for the term info of a written list
    match parseCfg docWire bl comp inl fs, ps.mapM (parsePosting docWire) with
    | some c, some ps =>
      match writeTerm c ps with
      | .error e => s!"err {e.name}"
      | .ok (_, ti) =>
        match ti.throughBytes c.f32 with
        | .error e => s!"err {e.name}"
        | .ok t => showTI docWire t
    | _, _ => "bad-op"
  | [.atom "tibytes", w1, w2, df, mnl, mxl, mnid, mxid, ref] =>
    -- `W3TermInfo.to_bytes()` then `from_bytes` and the fixed-position readers.  The float32 images of the
    -- two weights arrive as 4-byte hex (struct packing is a parameter of the model); floats are shown as the
    -- unsigned number of their 4 bytes.
    let ref? : Option PostRef := match ref with
      | .list [.atom "ext", o, l] => do
        let o ← o.int?
        let l ← l.int?
        pure (.extent o l)
      | .list [.atom "inl", h] => (h.atom? >>= hexBytes?).map .inlined
      | _ => none
    match w1.atom? >>= hexBytes?, w2.atom? >>= hexBytes?, df.nat?, SExp.opt? SExp.nat? mnl, mxl.nat?,
        SExp.opt? SExp.int? mnid, SExp.opt? SExp.int? mxid, ref? with
    | some b1, some b2, some df, some mnl, some mxl, some mnid, some mxid, some ref =>
      let t : TermInfo Int := { weight := 0, df := df, minlength := mnl, maxlength := mxl, maxweight := 1,
                                minid := mnid, maxid := mxid }
      let packF : Rat → Bytes := fun w => if w == 0 then b1 else b2
      let unpackF : Bytes → Rat := fun bs => (WM.Columns.unbe bs : Nat)
      match tiToBytes packF t ref with
      | none => "err StructError"
      | some bs =>
        match tiFromBytes unpackF bs with
        | none => s!"ok {showHex bs} parse-err"
        | some (p, r) =>
          let showRef := match r with
            | .extent o l => s!"(ext {o} {l})"
            | .inlined q => s!"(inl {showHex q})"
          let mm := tiReadMinMaxLength bs
          s!"ok {showHex bs} ({showRat p.weight} {p.df} {showOpt toString p.minlength} {p.maxlength} " ++
          s!"{showRat p.maxweight} {showOpt toString p.minid} {showOpt toString p.maxid} {showRef}) " ++
          s!"({showRat (tiReadWeight unpackF bs)} {tiReadDocFreq bs} {showOpt toString mm.1} {showOpt toString mm.2} " ++
          s!"{showRat (tiReadMaxWeight unpackF bs)})"
    | _, _, _, _, _, _, _, _ => "bad-op"
  | [.atom "agg", .list ps] =>
    -- Layer S: aggregates of a posting list `((id weight length) …)`
    match ps.mapM parseMP with
    | some ps => if ps.isEmpty then "none" else showStats (aggStats ps)
    | none => "bad-op"
  | [.atom "combine", .list tis] =>
    -- `reading.combine_terminfos([(terminfo, offset) …])`, each item `(w df mnl mxl mw mnid mxid offset)`
    match tis.mapM parseTiOff with
    | some tis => match combineTerminfos tis with
      | some t => showStats t
      | none => "none"
    | none => "bad-op"
  | [.atom "l2b", n] =>
    match SExp.opt? SExp.nat? n with
    | some l => toString (lengthToByte l)
    | none => "bad-op"
  | [.atom "b2l", n] =>
    match n.nat? with
    | some b => showOpt toString (byteToLength b)
    | none => "bad-op"
  | other => (handleFmt other).getD "bad-op"

end WM.Drv.C10
