import WM.Proto
import WM.Model.Analysis
namespace WM.Drv.C17
open WM.Proto WM.Analysis

/-! Protocol plumbing for family `c17` (nothing here is part of a theorem). -/

def cchar? : SExp → Option CChar
  | .list [c, w, s, l] => do some ⟨← c.nat?, ← w.bool?, ← s.bool?, ← l.natList?⟩
  | _ => none

def pat? : SExp → Option Pat
  | .atom "default" => some .default
  | .atom "space" => some .space
  | .atom "comma" => some .comma
  | .atom "nonspace" => some .nonspace
  | _ => none

def tokenizer? : SExp → Option Tokenizer
  | .atom "id" => some .id
  | .list [.atom "regex", p] => do some (.regex (← pat? p))
  | .list [.atom "ngram", a, b] => do some (.ngram (← a.nat?) (← b.nat?))
  | _ => none

def at? : SExp → Option At
  | .atom "start" => some .start
  | .atom "end" => some .end
  | .atom "all" => some .all
  | _ => none

def strPair? : SExp → Option (Str × Str)
  | .list [a, b] => do some (← a.natList?, ← b.natList?)
  | _ => none

def charPair? : SExp → Option (Nat × Str)
  | .list [a, b] => do some (← a.nat?, ← b.natList?)
  | _ => none

/-- a per-word table as a function; a word that is not in the table maps to a marker -/
def tableFn (tbl : List (Str × Str)) (w : Str) : Str :=
  match tbl.find? (·.1 == w) with
  | some (_, o) => o
  | none => [0, 63]

/-- `str.translate` with a table of the characters that occur -/
def translateFn (tbl : List (Nat × Str)) (w : Str) : Str :=
  w.flatMap fun c => match tbl.find? (·.1 == c) with
    | some (_, o) => o
    | none => [c]

partial def filter? : SExp → Option Filter
  | .atom "reverse" => some (.mapText List.reverse)
  | .list [.atom "mapchars", tbl] => do some (.mapText (translateFn (← SExp.listOf? charPair? tbl)))
  | .list [.atom "maptable", tbl] => do some (.mapText (tableFn (← SExp.listOf? strPair? tbl)))
  | .list [.atom "stem", tbl, ig] => do
    some (.stem (tableFn (← SExp.listOf? strPair? tbl)) (← SExp.listOf? SExp.natList? ig))
  | .list [.atom "multi", a, b] => do some (.multi (← filter? a) (← filter? b))
  | .atom "lowercase" => some .lowercase
  | .atom "strip" => some .strip
  | .atom "pass" => some .pass
  | .list [.atom "stop", stops, mn, mx, rn, rs] => do
    some (.stop ⟨← SExp.listOf? SExp.natList? stops, ← mn.nat?, ← SExp.opt? SExp.nat? mx, ← rn.bool?, ← rs.bool?⟩)
  | .list [.atom "ngram", a, b, at_] => do some (.ngram (← a.nat?) (← b.nat?) (← at? at_))
  | .list [.atom "biword", sep] => do some (.biword (← sep.natList?))
  | .list [.atom "delimited", d] => do some (.delimited (← d.natList?))
  | _ => none

def mode? : SExp → Option Mode
  | .atom "index" => some .index
  | .atom "query" => some .query
  | _ => none

def mkTables (cs : List CChar) : Tables :=
  { lower := fun c => match cs.find? (·.code == c) with
      | some ch => ch.lower
      | none => [c],
    space := fun c => match cs.find? (·.code == c) with
      | some ch => ch.space
      | none => false }

def showToken (t : Token) : String :=
  s!"({showNatList t.text} {t.pos} {t.startchar} {t.endchar} {showBool t.stopped})"

def span? : SExp → Option (Nat × Nat)
  | .list [a, b] => do some (← a.nat?, ← b.nat?)
  | _ => none

def showPiece : Piece → String
  | .plain s => s!"(p {showNatList s})"
  | .marked s => s!"(m {showNatList s})"

def handle : List SExp → String
  | [.atom "analyze", m, tk, .list fs, .list cs] =>
    match mode? m, tokenizer? tk, fs.mapM filter?, cs.mapM cchar? with
    | some m, some tk, some fs, some cs => showList showToken (analyze (mkTables cs) tk fs m cs)
    | _, _, _, _ => "bad-op"
  | [.atom "format", text, .list ms, a, b] =>
    match text.natList?, ms.mapM span?, a.nat?, b.nat? with
    | some text, some ms, some a, some b =>
      let ps := formatFragment text ms a b
      showList showPiece ps ++ " " ++ showNatList (stripMarkup ps)
    | _, _, _, _ => "bad-op"
  | _ => "bad-op"

end WM.Drv.C17
