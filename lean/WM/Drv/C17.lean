import WM.Proto
namespace WM.Drv.C17
open WM.Proto

/-- Protocol handler of family `c17` (requests arrive without the family token). -/
def handle : List SExp → String
  | _ => "bad-op"

end WM.Drv.C17
