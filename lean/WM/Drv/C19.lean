import WM.Proto
import WM.Spec.EditDistance
import WM.Model.Lev
namespace WM.Drv.C19
open WM.Proto WM.Lev

/-- A word is a list of code points `(97 98)`; `()` is the empty word. -/
def word? (e : SExp) : Option (List Nat) := e.natList?

def words? (e : SExp) : Option (List (List Nat)) := SExp.listOf? word? e

def showWord (w : List Nat) : String := showNatList w
def showWords (ws : List (List Nat)) : String := showList showWord ws

def showErr : Err → String
  | .fuel => "err:fuel"
  | .indexError => "err:IndexError"
  | .dpError => "err:dp"
  | .encodeError => "err:UnicodeEncodeError"

def showExcept {α} (f : α → String) : Except Err α → String
  | .ok a => f a
  | .error e => showErr e

def showSt (s : St) : String := s!"({s.1} {s.2})"
def showSSet (s : SSet) : String := showList showSt s

def dist? : SExp → Option (List Nat → List Nat → Nat)
  | .atom "lev" => some WM.Edit.lev
  | .atom "osa" => some WM.Edit.osa
  | _ => none

def tr? : SExp → Option Bool
  | .atom "lev" => some false
  | .atom "osa" => some true
  | _ => none

/-- `within` for every `(d, p)` of a grid; the distances are computed once per term (the result
    is `WM.Edit.within dist lex w d p` by definition of `within`). -/
def withinGrid (dist : List Nat → List Nat → Nat) (lex : List (List Nat)) (w : List Nat)
    (ds ps : List Nat) : List (List (List Nat)) :=
  let dl := lex.map fun t => (t, dist t w)
  ds.flatMap fun d => ps.map fun p =>
    (dl.filter fun (t, k) => WM.Edit.sharePrefix p t w && decide (k ≤ d)).map (·.1)

def showDfa (d : DFA) : String :=
  let tr := showList (fun (x : SSet × Nat × SSet) => s!"({showSSet x.1} {x.2.1} {showSSet x.2.2})") d.trans
  let df := showList (fun (x : SSet × SSet) => s!"({showSSet x.1} {showSSet x.2})") d.defaults
  let fi := showList showSSet d.finals
  s!"({showSSet d.initial} {tr} {df} {fi})"

def handle : List SExp → String
  | [.atom "spec", dn, a, b] =>
    match dist? dn, word? a, word? b with
    | some dist, some a, some b => toString (dist a b)
    | _, _, _ => "bad-op"
  | [.atom "dp", dn, a, b, lim] =>
    match tr? dn, word? a, word? b, SExp.opt? SExp.nat? lim with
    | some tr, some a, some b, some lim => showOpt toString (dp tr a b lim)
    | _, _, _, _ => "bad-op"
  | [.atom "within", dn, lex, w, d, p] =>
    match dist? dn, words? lex, word? w, d.nat?, p.nat? with
    | some dist, some lex, some w, some d, some p => showWords (WM.Edit.within dist lex w d p)
    | _, _, _, _, _ => "bad-op"
  | [.atom "within-grid", dn, lex, w, ds, ps] =>
    match dist? dn, words? lex, word? w, ds.natList?, ps.natList? with
    | some dist, some lex, some w, some ds, some ps => showList showWords (withinGrid dist lex w ds ps)
    | _, _, _, _, _ => "bad-op"
  | [.atom "dists", dn, lex, w] =>
    match dist? dn, words? lex, word? w with
    | some dist, some lex, some w => showNatList (lex.map fun t => dist t w)
    | _, _, _ => "bad-op"
  | [.atom "fuzzy-of", docs, terms] =>
    -- documents (lists of terms) of one segment matched by the expansion `terms`
    match SExp.listOf? words? docs, words? terms with
    | some docs, some terms => showNatList (fuzzyDocsOf docs terms)
    | _, _ => "bad-op"
  | [.atom "fuzzy-of-grid", docs, termss] =>
    match SExp.listOf? words? docs, SExp.listOf? words? termss with
    | some docs, some termss => showList showNatList (termss.map (fuzzyDocsOf docs))
    | _, _ => "bad-op"
  | [.atom "list-sug-grid", wl, w, limits, ds, ps] =>
    -- ListCorrector(wl).suggest(w, limit, maxdist=d, prefix=p) for every (d, p, limit) of the grid
    match words? wl, word? w, limits.natList?, ds.natList?, ps.natList? with
    | some wl, some w, some limits, some ds, some ps =>
      -- (the items are computed once per (d, p); `listSuggest` is `suggestItems` of them by definition)
      showList id (ds.flatMap fun d => ps.flatMap fun p =>
        match listSuggestionsLoop wl w p ((List.range d).map (· + 1)) [] with
        | .error e => limits.map fun _ => showErr e
        | .ok items => limits.map fun lim => showExcept showWords (suggestItems items lim))
    | _, _, _, _, _ => "bad-op"
  | [.atom "suggest-of", terms, lex, freqs, limit, d] =>
    -- `Corrector.suggest` on a given `terms_within` result; `freqs` is aligned with `lex`
    match words? terms, words? lex, freqs.natList?, limit.nat?, d.nat? with
    | some terms, some lex, some freqs, some limit, some d =>
      let table := lex.zip freqs
      let freq := fun (t : List Nat) => ((table.find? fun x => x.1 == t).map (·.2)).getD 0
      showExcept showWords (suggest terms freq limit d)
    | _, _, _, _, _ => "bad-op"
  | [.atom "nfa-accept", w, k, p, us] =>
    match word? w, k.nat?, p.nat?, words? us with
    | some w, some k, some p, some us =>
      let n := levenshteinAutomaton w k p
      showList (fun u => showBool (n.accept u)) us
    | _, _, _, _ => "bad-op"
  | [.atom "dfa-accept", w, k, p, us] =>
    match word? w, k.nat?, p.nat?, words? us with
    | some w, some k, some p, some us =>
      match (levenshteinAutomaton w k p).toDfa with
      | none => "err:fuel"
      | some d => showList (fun u => showBool (d.accept (some d.initial) u)) us
    | _, _, _, _ => "bad-op"
  | [.atom "dfa-dump", w, k, p] =>
    match word? w, k.nat?, p.nat? with
    | some w, some k, some p =>
      match (levenshteinAutomaton w k p).toDfa with
      | none => "err:fuel"
      | some d => showDfa d
    | _, _, _ => "bad-op"
  | [.atom "nvs", w, k, p, us] =>
    match word? w, k.nat?, p.nat?, words? us with
    | some w, some k, some p, some us =>
      match (levenshteinAutomaton w k p).toDfa with
      | none => "err:fuel"
      | some d => showList (fun u => showExcept (showOpt showWord) (d.nextValidString (levChain w k) u)) us
    | _, _, _, _ => "bad-op"
  | [.atom "utf8", us] =>
    -- `u.encode("utf-8")` for every word of `us`
    match words? us with
    | some us => showList (fun u => showExcept showNatList (utf8Encode u)) us
    | none => "bad-op"
  | [.atom "cursor-bytes", lex, terms] =>
    -- `cur.find(term); cur.text()` over the byte-ordered dictionary, for every term of `terms`
    match words? lex, words? terms with
    | some lex, some terms =>
      showList (fun t => showExcept (showOpt showWord) (cursorFindBytes lex t)) terms
    | _, _ => "bad-op"
  | [.atom "fne", w, k, p, us, labels] =>
    -- `dfa.find_next_edge(state, label)` in the state reached on each probe `u` (following
    -- `next_state` from the start; `None` stays `None`), for `label = None` and every given label
    match word? w, k.nat?, p.nat?, words? us, labels.natList? with
    | some w, some k, some p, some us, some labels =>
      match (levenshteinAutomaton w k p).toDfa with
      | none => "err:fuel"
      | some d =>
        showList (fun u =>
          let st := u.foldl (fun s c => d.nextState s c) (some d.initial)
          showList (fun l => showOpt toString (d.findNextEdge st l)) (none :: labels.map some)) us
    | _, _, _, _, _ => "bad-op"
  | [.atom "tw-seg-bytes-grid", lexs, w, ds, ps] =>
    -- as tw-seg-grid with the byte-level cursor
    match SExp.listOf? words? lexs, word? w, ds.natList?, ps.natList? with
    | some lexs, some w, some ds, some ps =>
      showList id (ds.flatMap fun d => ps.map fun p =>
        match (levenshteinAutomaton w d p).toDfa with
        | none => "err:fuel"
        | some dfa => showList (fun lex => showExcept showWords (findMatchesBytes (dfa.nextValidString (levChain w d)) lex)) lexs)
    | _, _, _, _ => "bad-op"
  | [.atom "tw-seg", lex, w, d, p] =>
    match words? lex, word? w, d.nat?, p.nat? with
    | some lex, some w, some d, some p => showExcept showWords (termsWithinSeg lex w d p)
    | _, _, _, _ => "bad-op"
  | [.atom "tw-seg-grid", lexs, w, ds, ps] =>
    -- one automaton per (d, p), walked over every lexicon of `lexs`
    match SExp.listOf? words? lexs, word? w, ds.natList?, ps.natList? with
    | some lexs, some w, some ds, some ps =>
      showList id (ds.flatMap fun d => ps.map fun p =>
        match (levenshteinAutomaton w d p).toDfa with
        | none => "err:fuel"
        | some dfa => showList (fun lex => showExcept showWords (findMatches (dfa.nextValidString (levChain w d)) lex)) lexs)
    | _, _, _, _ => "bad-op"
  | [.atom "tw-base", lex, w, d, p] =>
    match words? lex, word? w, d.nat?, p.nat? with
    | some lex, some w, some d, some p => showExcept showWords (termsWithinBase lex w d p)
    | _, _, _, _ => "bad-op"
  | [.atom "tw-base-grid", lex, w, ds, ps] =>
    match words? lex, word? w, ds.natList?, ps.natList? with
    | some lex, some w, some ds, some ps =>
      showList id (ds.flatMap fun d => ps.map fun p => showExcept showWords (termsWithinBase lex w d p))
    | _, _, _, _ => "bad-op"
  | [.atom "multi-sug-grid", path, lex, freqs, wl, w, opn, limits, ds, ps] =>
    -- MultiCorrector([reader.corrector(f), ListCorrector(wl)], op).suggest(w, limit, maxdist=d, prefix=p)
    -- for every (d, p, limit) of the grid; path = seg | base, op = min | max
    match words? lex, freqs.natList?, words? wl, word? w, limits.natList?, ds.natList?, ps.natList? with
    | some lex, some freqs, some wl, some w, some limits, some ds, some ps =>
      let table := lex.zip freqs
      let freq := fun (t : List Nat) => ((table.find? fun x => x.1 == t).map (·.2)).getD 0
      let op : Rat → Rat → Rat := match opn with
        | .atom "min" => fun a b => if b < a then b else a
        | _ => fun a b => if a < b then b else a
      showList id (ds.flatMap fun d => ps.flatMap fun p =>
        let tw := match path with
          | .atom "seg" => termsWithinSeg lex w d p
          | _ => termsWithinBase lex w d p
        let subs := [readerItems tw freq d, listItems wl w d p]
        limits.map fun lim => showExcept showWords (multiSuggest op subs lim))
    | _, _, _, _, _, _, _ => "bad-op"
  | [.atom "fuzzy-paths-grid", lexs, docss, w, ds, ps] =>
    -- FuzzyTerm through the two access paths, for every (d, p): `(Query.docs(top-level searcher)
    -- search()/docs_for_query (per segment))`; lexs/docss: per segment the term list and the documents
    match SExp.listOf? words? lexs, SExp.listOf? (SExp.listOf? words?) docss, word? w, ds.natList?, ps.natList? with
    | some lexs, some docss, some w, some ds, some ps =>
      let segs := lexs.zip docss
      showList id (ds.flatMap fun d => ps.map fun p =>
        "(" ++ showExcept showNatList (fuzzyDocsTop w d p segs) ++ " " ++
          showExcept showNatList (fuzzyDocsIndex w d p segs 0) ++ ")")
    | _, _, _, _, _ => "bad-op"
  | [.atom "merge", segs] =>
    -- `MultiReader._merge_terms` over the segment term lists (`lexicon`)
    match SExp.listOf? words? segs with
    | some segs => showExcept showWords (mergeTerms segs)
    | none => "bad-op"
  | [.atom "tfrom-multi", segs, pres] =>
    -- `MultiReader.terms_from(field, prefix)` for every prefix of `pres`
    match SExp.listOf? words? segs, words? pres with
    | some segs, some pres => showList (fun pre => showExcept showWords (termsFromMulti segs pre)) pres
    | _, _ => "bad-op"
  | [.atom "expand-multi", segs, pres] =>
    -- `MultiReader.expand_prefix(field, prefix)` for every prefix of `pres`
    match SExp.listOf? words? segs, words? pres with
    | some segs, some pres => showList (fun pre => showExcept showWords (expandPrefixMulti segs pre)) pres
    | _, _ => "bad-op"
  | [.atom "tw-multi-grid", segs, w, ds, ps] =>
    -- `MultiReader.terms_within` from the segment term lists
    match SExp.listOf? words? segs, word? w, ds.natList?, ps.natList? with
    | some segs, some w, some ds, some ps =>
      showList id (ds.flatMap fun d => ps.map fun p => showExcept showWords (termsWithinMulti segs w d p))
    | _, _, _, _ => "bad-op"
  | [.atom "suggest", path, lex, freqs, w, limit, d, p] =>
    -- `freqs` is aligned with `lex`; path = seg | base
    match words? lex, freqs.natList?, word? w, limit.nat?, d.nat?, p.nat? with
    | some lex, some freqs, some w, some limit, some d, some p =>
      let table := lex.zip freqs
      let freq := fun (t : List Nat) => ((table.find? fun x => x.1 == t).map (·.2)).getD 0
      let tw := match path with
        | .atom "seg" => termsWithinSeg lex w d p
        | _ => termsWithinBase lex w d p
      match tw with
      | .error e => showErr e
      | .ok terms => showExcept showWords (suggest terms freq limit d)
    | _, _, _, _, _, _ => "bad-op"
  | _ => "bad-op"

end WM.Drv.C19
