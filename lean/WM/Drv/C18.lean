import WM.Proto
import WM.Drv.C07
/-!
Protocol of family `c18`.

`c18 serialmp <procs> <schema> <docs> <sessions>`: every session is written by a
`SerialMpWriter(ix, procs=<procs>)`; ops as for `c07 run` plus `(gstart)` / `(gend)`
(`start_group` / `end_group`).  Documents are dealt to the sub-writers round-robin, a group stays on
one sub-writer; deletions and the deleting half of `update_document` act on the parent writer; the
commit is `SerialMpWriter._commit` (`Writer.mpCommit`) when documents were added, the plain commit
otherwise.  Answer: per session `(results toc model spec)` as for `c07 run 0`.

`c18 buffered <limit> <kind> <schema> <docs> (<call> ...)`: the calls (`c07` ops, or `(commit)` for an
explicit `BufferedWriter.commit()`) on the `Buffered` model (limit, commit policy `<kind>`), then
`close()`.  Answer `(((result) (key ...)) ...) toc content`: after every call the keys the writer's
own reader shows, finally the committed segment list and content.
-/
namespace WM.Drv.C18
open WM.Proto WM.Proto.SExp WM.Dict WM.Index WM.Drv.C07

inductive MOp where
  | op (o : WM.Drv.C07.Op)
  | gstart
  | gend
deriving Inhabited

def mop? : SExp → Option MOp
  | .list [.atom "gstart"] => some .gstart
  | .list [.atom "gend"] => some .gend
  | e => .op <$> op? e

structure MpSt where
  w : Writer
  ss : Sess
  subs : Array (List DocRec)
  pointer : Nat
  grouping : Nat
  addedSub : Bool

def subAdd (st : MpSt) (d : DocRec) : MpSt × String :=
  if !d.fits st.w.schema then (st, showErr .unknownField) else
  let subs := st.subs.modify st.pointer (fun l => l ++ [d])
  let p := if st.grouping == 0 then (st.pointer + 1) % st.subs.size else st.pointer
  ({ st with subs := subs, pointer := p, addedSub := true, ss := st.ss.add d }, "ok")

def stepM (docs : Array DocRec) (st : MpSt) : MOp → MpSt × String
  | .gstart => ({ st with grouping := st.grouping + 1 }, "-")
  | .gend => ({ st with grouping := st.grouping - 1 }, "-")
  | .op (.add i) =>
    match docs[i]? with
    | none => (st, "(err nodoc)")
    | some d => subAdd st d
  | .op (.upd i) =>
    match docs[i]? with
    | none => (st, "(err nodoc)")
    | some d =>
      -- IndexWriter.update_document: delete on the parent, then MpWriter.add_document
      match st.w.deleteMany (findUnique st.w.schema st.w.segs (uniqTerms st.w.schema d)) with
      | .error e => (st, showErr e)
      | .ok w1 =>
        subAdd { st with w := w1, ss := st.ss.deleteWhere (sharesUnique (uniqTerms st.ss.schema d)) } d
  | .op o =>
    match toOp docs o with
    | none => (st, "(err nodoc)")
    | some mo =>
      let (w', out) := st.w.step mo
      ({ st with w := w', ss := st.ss.step (st.w.specOp mo) }, showOutcome st.ss o out)

def runM (docs : Array DocRec) : MpSt → List MOp → List String → MpSt × List String
  | st, [], acc => (st, acc.reverse)
  | st, o :: r, acc =>
    let (st', s) := stepM docs st o
    runM docs st' r (if s == "-" then acc else s :: acc)

def runSessions (procs : Nat) (docs : Array DocRec) :
    Toc → State → List (List MOp × End) → List String → List String
  | _, _, [], acc => acc.reverse
  | t, sp, (ops, e) :: rest, acc =>
    let st0 : MpSt := { w := t.writer, ss := sp.open_, subs := Array.replicate procs [], pointer := 0,
                        grouping := 0, addedSub := false }
    let (st, res) := runM docs st0 ops []
    match e with
    | .cancel => runSessions procs docs t sp rest (showState 0 t sp res :: acc)
    | .commit k =>
      let r := if st.addedSub then
          (st.subs.toList.mapM (subWriter st.w.schema)).bind fun subs => st.w.mpCommit subs k.plan
        else st.w.commit k
      match r with
      | .error er => runSessions procs docs t sp rest (s!"({showList id res} {showErr er})" :: acc)
      | .ok t' =>
        let sp' := if k == .clear then st.ss.commitClear else st.ss.commit
        runSessions procs docs t' sp' rest (showState 0 t' sp' res :: acc)

def msession? : SExp → Option (List MOp × End)
  | .list [ops, e] => do pure (← listOf? mop? ops, ← end? e)
  | _ => none

def handleSerial : List SExp → String
  | [.atom "serialmp", procs, sc, docs, sess] =>
    match procs.nat?, schema? sc, listOf? docRec? docs, listOf? msession? sess with
    | some procs, some sc, some docs, some sess =>
      if procs == 0 then "bad-op" else
      let t : Toc := { schema := sc, segs := [], gen := 0 }
      let sp : State := { schema := sc, docs := [] }
      showList id (runSessions procs docs.toArray t sp sess [])
    | _, _, _, _ => "bad-op"
  | _ => "bad-op"

/-- one call on the BufferedWriter model; `(commit)` is an explicit `BufferedWriter.commit()` -/
def stepB (docs : Array DocRec) (b : Buffered) : SExp → Buffered × String
  | .list [.atom "commit"] =>
    match b.commit with
    | .ok b' => (b', "ok")
    | .error e => (b, showErr e)
  | e =>
    match op? e with
    | none => (b, "bad")
    | some (.add i) =>
      match docs[i]? with
      | none => (b, "(err nodoc)")
      | some d => match b.addDocument d with
        | .ok b' => (b', "ok")
        | .error er => (b, showErr er)
    | some (.upd i) =>
      match docs[i]? with
      | none => (b, "(err nodoc)")
      | some d => match b.updateDocument d with
        | (b', none) => (b', "ok")
        | (b', some er) => (b', showErr er)
    | some (.deld n) =>
      match b.deleteDocument n with
      | .ok b' => (b', "ok")
      | .error er => (b, showErr er)
    | some (.delq q) =>
      match b.deleteByQuery (toQuery q) with
      | .ok (b', c) => (b', s!"(count {c})")
      | .error er => (b, showErr er)
    | some _ => (b, "skip")

def runB (docs : Array DocRec) : Buffered → List SExp → List String → Buffered × List String
  | b, [], acc => (b, acc.reverse)
  | b, o :: r, acc =>
    let (b', s) := stepB docs b o
    runB docs b' r (s!"({s} {showNatList (b'.content.map (·.key))})" :: acc)

def handleB : List SExp → String
  | [.atom "buffered", limit, kind, sc, docs, .list ops] =>
    match limit.nat?, kind? kind, schema? sc, listOf? docRec? docs with
    | some limit, some kind, some sc, some docs =>
      let t : Toc := { schema := sc, segs := [], gen := 0 }
      let b0 : Buffered := { writer := t.writer, ram := emptySeg, count := 0, limit := limit, plan := kind.plan }
      let (b, res) := runB docs.toArray b0 ops []
      match b.close with
      | .error e => s!"({showList id res} {showErr e})"
      | .ok t' => s!"({showList id res} {showList showSeg t'.segs} {showDocs t'.content})"
    | _, _, _, _ => "bad-op"
  | _ => "bad-op"


def handle (args : List SExp) : String :=
  match args with
  | .atom "serialmp" :: _ => handleSerial args
  | .atom "buffered" :: _ => handleB args
  | _ => "bad-op"

end WM.Drv.C18
