import WM.Proto
import WM.Drv.C11
import WM.Model.MatcherWalk
namespace WM.Drv.C12
open WM.Proto WM.Matcher

def parseQOp : SExp → Option QOp
  | .atom "next" => some .next
  | .list [.atom "skipq", q] => q.rat?.map .skipq
  | _ => none

/-- Protocol handler of family `c12`: the matcher protocol of `c11` (same trees, same programs) and

      c12 walk TREE (WOP ...)  -> ((id score)..visited) ((id score)..remaining)   |  !Error
      WOP ::= next | (skipq q)

    the quality walk `runW` (theorem `WM.C12.walk_keeps`): the calls are issued while the matcher is active. -/
def handle (args : List SExp) : String :=
  match args with
  | [.atom "walk", tree, .list prog] =>
    match WM.Drv.C11.parseTree tree, prog.mapM parseQOp with
    | some (.ok m), some prog =>
      match runW m.1 m.2 prog with
      | .ok (m', v) => s!"{WM.Drv.C11.showDen v} {WM.Drv.C11.showDen (den m.1 m')}"
      | .error e => s!"!{WM.Drv.C11.errName e}"
    | some (.error e), some _ => s!"!{WM.Drv.C11.errName e}"
    | _, _ => "bad-op"
  | _ => WM.Drv.C11.handle args

end WM.Drv.C12
