import WM.Proto
import WM.Drv.C11
namespace WM.Drv.C12
open WM.Proto

/-- Protocol handler of family `c12`: the matcher protocol of `c11` (same trees, same programs). -/
def handle (args : List SExp) : String := WM.Drv.C11.handle args

end WM.Drv.C12
