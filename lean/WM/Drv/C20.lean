import WM.Proto
import Std.Data.HashMap
import WM.Model.Varint
import WM.Model.IdSets
import WM.Spec.IdSet
import WM.Spec.IdSetPool
import WM.Model.NumLists
import WM.Model.NumPack
import WM.Model.HashFile
import WM.Model.HashBytes
import WM.Model.Sort
import WM.Model.Compound
import WM.Model.CompoundBytes
import WM.Model.Base85
namespace WM.Drv.C20
open WM.Proto WM.IdSets

/-! ## id sets: op programs over the model and over the spec -/

def showErr : Err → String
  | .index => "err-index"
  | .value => "err-value"
  | .type => "err-type"
  | .notImpl => "err-notimpl"
  | .struct => "err-struct"
  | .overflow => "err-overflow"

def showE {α} (f : α → String) : Except Err α → String
  | .ok a => f a
  | .error e => showErr e

def showOptNat : Option Nat → String := showOpt toString

def other? : SExp → Option Other
  | .list [.atom "B", l] => (l.natList?).map fun xs => Other.bits (ofSource xs true 0)
  | .list [.atom "L", l] => (l.natList?).map fun xs => Other.list xs true
  | .list [.atom "G", l] => (l.natList?).map fun xs => Other.list xs false
  | _ => none

/-- One op on a `BitSet`; returns the new state and the observation. -/
def bitsOp (bits : Bits) : SExp → Option (Bits × String)
  | .list [.atom "add", i] => i.nat? >>= fun i => let b := add bits i; some (b, showNatList b)
  | .list [.atom "discard", i] => i.nat? >>= fun i => let b := discard bits i; some (b, showNatList b)
  | .list [.atom "update", o] => other? o >>= fun o => let b := update bits o; some (b, showNatList b)
  | .list [.atom "iupd", o] => other? o >>= fun o => let b := intersectionUpdate bits o; some (b, showNatList b)
  | .list [.atom "dupd", o] => other? o >>= fun o => let b := differenceUpdate bits o; some (b, showNatList b)
  | .list [.atom "invupd", n] => n.nat? >>= fun n =>
      match invertUpdate bits n with
      | .ok b => some (b, showNatList b)
      | .error e => some (bits, showErr e)
  | .list [.atom "clear"] => let b := clear bits; some (b, showNatList b)
  | .list [.atom "union", o] => other? o >>= fun o => some (bits, showNatList (union bits o))
  | .list [.atom "inter", o] => other? o >>= fun o => some (bits, showNatList (intersection bits o))
  | .list [.atom "diff", o] => other? o >>= fun o => some (bits, showNatList (difference bits o))
  | .list [.atom "invert", n] => n.nat? >>= fun n => some (bits, showE showNatList (invertUpdate bits n))
  | .list [.atom "copy"] => some (bits, showNatList bits)
  | .list [.atom "contains", i] => i.nat? >>= fun i => some (bits, showBool (contains bits i))
  | .list [.atom "iter"] => some (bits, showNatList (iter bits))
  | .list [.atom "len"] => some (bits, showE toString (len bits))
  | .list [.atom "bool"] => some (bits, showBool (nonzero bits))
  | .list [.atom "first"] => some (bits, showE showOptNat (first bits))
  | .list [.atom "last"] => some (bits, showE showOptNat (last bits))
  | .list [.atom "before", i] => i.int? >>= fun i => some (bits, showE showOptNat (before bits i))
  | .list [.atom "after", i] => i.int? >>= fun i => some (bits, showE showOptNat (after bits i))
  | _ => none

/-- One op on a `SortedIntSet` (state = `data`). -/
def sisOp (data : List Nat) : SExp → Option (List Nat × String)
  | .list [.atom "add", i] => i.nat? >>= fun i =>
      match sisAdd data i with
      | .ok d => some (d, showNatList d)
      | .error e => some (data, showErr e)
  | .list [.atom "discard", i] => i.nat? >>= fun i =>
      match sisDiscard data i with
      | .ok d => some (d, showNatList d)
      | .error e => some (data, showErr e)
  | .list [.atom "update", o] => other? o >>= fun o =>
      match sisUpdate data o with
      | .ok d => some (d, showNatList d)
      | .error e => some (data, showErr e)
  | .list [.atom "iupd", o] => other? o >>= fun o => let d := sisIntersection data o; some (d, showNatList d)
  | .list [.atom "dupd", o] => other? o >>= fun o => let d := sisDifference data o; some (d, showNatList d)
  | .list [.atom "invupd", n] => n.nat? >>= fun n =>
      match sisInvertUpdate data n with
      | .ok d => some (d, showNatList d)
      | .error e => some (data, showErr e)
  | .list [.atom "clear"] => some ([], "()")
  | .list [.atom "union", o] => other? o >>= fun o => some (data, showE showNatList (sisUpdate data o))
  | .list [.atom "inter", o] => other? o >>= fun o => some (data, showNatList (sisIntersection data o))
  | .list [.atom "diff", o] => other? o >>= fun o => some (data, showNatList (sisDifference data o))
  | .list [.atom "invert", n] => n.nat? >>= fun n => some (data, showE showNatList (sisInvertUpdate data n))
  | .list [.atom "copy"] => some (data, showNatList data)
  | .list [.atom "contains", i] => i.nat? >>= fun i => some (data, showE showBool (sisContains data i))
  | .list [.atom "iter"] => some (data, showNatList data)
  | .list [.atom "len"] => some (data, toString data.length)
  | .list [.atom "bool"] => some (data, showBool (!data.isEmpty))
  | .list [.atom "first"] => some (data, showOptNat (sisFirst data))
  | .list [.atom "last"] => some (data, showOptNat (sisLast data))
  | .list [.atom "before", i] => i.int? >>= fun i => some (data, showE showOptNat (sisBefore data i))
  | .list [.atom "after", i] => i.int? >>= fun i => some (data, showE showOptNat (sisAfter data i))
  | _ => none

def showInner : Inner → String
  | .bits b => showNatList b
  | .sorted d => showNatList d

/-- One op on a `ReverseIdSet`. -/
def revOp (r : Rev) : SExp → Option (Rev × String)
  | .list [.atom "add", i] => i.nat? >>= fun i =>
      match r.add i with
      | .ok r' => some (r', showInner r'.inner)
      | .error e => some (r, showErr e)
  | .list [.atom "discard", i] => i.nat? >>= fun i =>
      match r.discard i with
      | .ok r' => some (r', showInner r'.inner)
      | .error e => some (r, showErr e)
  | .list [.atom "contains", i] => i.nat? >>= fun i => some (r, showE showBool (r.contains i))
  | .list [.atom "iter"] => some (r, showNatList r.iter)
  -- the builtin `len()` raises ValueError when `__len__` returns a negative number
  | .list [.atom "len"] => some (r, match r.len with
      | .ok n => if n < 0 then "err-value" else toString n
      | .error e => showErr e)
  | .list [.atom "first"] => some (r, showOptNat r.first)
  | .list [.atom "last"] => some (r, showE showOptNat r.last)
  | .list [.atom "before", i] => i.int? >>= fun i => some (r, showE showOptNat (r.before i))
  | .list [.atom "after", i] => i.int? >>= fun i => some (r, showE showOptNat (r.after i))
  | .list [.atom "copy"] => some (r, showE (fun r' => showInner r'.inner) r.copy)
  | .list [.atom "union", o] => other? o >>= fun o => some (r, showE (fun r' => showInner r'.inner) (r.union o))
  | .list [.atom "inter", o] => other? o >>= fun o => some (r, showE (fun r' => showInner r'.inner) (r.intersection o))
  | .list [.atom "diff", o] => other? o >>= fun o => some (r, showE (fun r' => showInner r'.inner) (r.difference o))
  | .list [.atom "invert", n] => n.nat? >>= fun n => some (r, showE (fun r' => showInner r'.inner) (r.invert n))
  | .list [.atom "update", o] => other? o >>= fun o =>
      match r.update o with
      | .ok r' => some (r', showInner r'.inner)
      | .error e => some (r, showErr e)
  | .list [.atom "dupd", o] => other? o >>= fun o =>
      match r.differenceUpdate o with
      | .ok r' => some (r', showInner r'.inner)
      | .error e => some (r, showErr e)
  | .list [.atom "iupd", o] => other? o >>= fun o =>
      match r.intersectionUpdate o with
      | .ok r' => some (r', showInner r'.inner)
      | .error e => some (r, showErr e)
  | _ => none

def multiOp (m : Multi) : SExp → Option (Multi × String)
  | .list [.atom "contains", i] => i.nat? >>= fun i => some (m, showE showBool (m.contains i))
  | .list [.atom "iter"] => some (m, showNatList m.iter)
  | .list [.atom "len"] => some (m, showE toString m.len)
  | .list [.atom "first"] => some (m, showE showOptNat m.first)
  | .list [.atom "last"] => some (m, showE showOptNat m.last)
  | .list [.atom "before", i] => i.int? >>= fun i => some (m, showE showOptNat (m.before i))
  | .list [.atom "after", i] => i.int? >>= fun i => some (m, showE showOptNat (m.after i))
  | .list [.atom "copy"] => some (m, showE (fun _ => "copied") m.copy)
  | .list [.atom "union", o] => other? o >>= fun o => some (m, showE (fun _ => "set") (m.union o))
  | .list [.atom "inter", o] => other? o >>= fun o => some (m, showE (fun _ => "set") (m.intersection o))
  | .list [.atom "diff", o] => other? o >>= fun o => some (m, showE (fun _ => "set") (m.difference o))
  | .list [.atom "invert", n] => n.nat? >>= fun n => some (m, showE (fun _ => "set") (m.invert n))
  | _ => none

/-- Run a program, collecting the observations. -/
def runOps {σ} (step : σ → SExp → Option (σ × String)) : σ → List SExp → List String → Option (List String)
  | _, [], acc => some acc.reverse
  | s, op :: ops, acc =>
    match step s op with
    | none => none
    | some (s', obs) => runOps step s' ops (obs :: acc)

def reply : Option (List String) → String
  | none => "bad-op"
  | some obs => "(" ++ " ".intercalate obs ++ ")"

def inner? : SExp → Option Inner
  | .list [.atom "bits", l] => l.natList? >>= fun xs => some (Inner.bits (ofSource xs true 0))
  | .list [.atom "sorted", l] => l.natList? >>= fun xs => some (Inner.sorted (sisOfSource xs))
  | _ => none

/-! The same programs over the specification (`WM.Spec.IdSet`): the set is a strictly ascending
list; an op's observation is the set after the op (mutators, constructors) or the answer. -/
open WM.Spec.IdSet in
def specOp (s : List Nat) : SExp → Option (List Nat × String)
  | .list [.atom "add", i] => i.nat? >>= fun i => let t := insert i s; some (t, showNatList t)
  | .list [.atom "discard", i] => i.nat? >>= fun i => let t := erase i s; some (t, showNatList t)
  | .list [.atom "update", .list [_, l]] => l.natList? >>= fun l => let t := union s l; some (t, showNatList t)
  | .list [.atom "iupd", .list [_, l]] => l.natList? >>= fun l => let t := inter s l; some (t, showNatList t)
  | .list [.atom "dupd", .list [_, l]] => l.natList? >>= fun l => let t := diff s l; some (t, showNatList t)
  | .list [.atom "invupd", n] => n.nat? >>= fun n => let t := invert n s; some (t, showNatList t)
  | .list [.atom "clear"] => some ([], "()")
  | .list [.atom "union", .list [_, l]] => l.natList? >>= fun l => some (s, showNatList (union s l))
  | .list [.atom "inter", .list [_, l]] => l.natList? >>= fun l => some (s, showNatList (inter s l))
  | .list [.atom "diff", .list [_, l]] => l.natList? >>= fun l => some (s, showNatList (diff s l))
  | .list [.atom "invert", n] => n.nat? >>= fun n => some (s, showNatList (invert n s))
  | .list [.atom "copy"] => some (s, showNatList s)
  | .list [.atom "contains", i] => i.nat? >>= fun i => some (s, showBool (mem s i))
  | .list [.atom "iter"] => some (s, showNatList s)
  | .list [.atom "len"] => some (s, toString s.length)
  | .list [.atom "bool"] => some (s, showBool (!s.isEmpty))
  | .list [.atom "first"] => some (s, showOptNat (first s))
  | .list [.atom "last"] => some (s, showOptNat (last s))
  | .list [.atom "before", i] => i.int? >>= fun i => some (s, showOptNat (before s i))
  | .list [.atom "after", i] => i.int? >>= fun i => some (s, showOptNat (after s i))
  | _ => none

/-! ### programs over a pool of registers (`WM.IdSets.Pool`, spec `WM.Spec.IdSet.SPool`) -/

def binop? : SExp → Option BinOp
  | .atom "union" => some .union
  | .atom "inter" => some .inter
  | .atom "diff" => some .diff
  | _ => none

/-- a register literal: `(bits hex)` = `BitSet.from_bytes`, `(src (l) sized size)` = `BitSet(l, size)`,
    `(sorted (l))` = `SortedIntSet(l)` -/
def reg? : SExp → Option Inner
  | .list [.atom "bits", .atom hex] => (hexBytes? hex).map Inner.bits
  | .list [.atom "src", l, sized, size] =>
    match l.natList?, sized.bool?, size.nat? with
    | some l, some sized, some size => some (Inner.bits (ofSource l sized size))
    | _, _, _ => none
  | .list [.atom "sorted", l] => l.natList? >>= fun xs => some (Inner.sorted (sisOfSource xs))
  | _ => none

/-- the state-changing pool ops, as `PoolOp` plus the register whose value is the observation -/
def poolOp? : SExp → Option (PoolOp × Nat)
  | .list [.atom "bin", op, dst, a, b] => do
    some (.bin (← binop? op) (← dst.nat?) (← a.nat?) (← b.nat?), ← dst.nat?)
  | .list [.atom "upd", op, a, b] => do some (.upd (← binop? op) (← a.nat?) (← b.nat?), ← a.nat?)
  | .list [.atom "inv", dst, a, n] => do some (.invert (← dst.nat?) (← a.nat?) (← n.nat?), ← dst.nat?)
  | .list [.atom "cp", dst, a] => do some (.copy (← dst.nat?) (← a.nat?), ← dst.nat?)
  | .list [.atom "load", dst, r] => do some (.load (← dst.nat?) (← reg? r), ← dst.nat?)
  | _ => none

/-- one op of a pool program: a `PoolOp` through `Pool.step`, or `(on a <single-set op>)` through
    the single-set models. -/
def poolStep (p : Pool) (e : SExp) : Option (Pool × String) :=
  match e with
  | .list [.atom "on", a, op] => do
    let a ← a.nat?
    match p[a]? with
    | some (.bits b) => (bitsOp b op).map fun (b', obs) => (p.set a (.bits b'), obs)
    | some (.sorted d) => (sisOp d op).map fun (d', obs) => (p.set a (.sorted d'), obs)
    | none => some (p, "err-index")
  | .list [.atom "disk", a, npre] => do
    -- `to_disk` after `npre` foreign bytes, then `OnDiskBitSet(file, npre, bytecount)` / `from_disk`
    let a ← a.nat?
    let npre ← npre.nat?
    match p[a]? with
    | some (.bits b) => some (p, showNatList (onDisk (List.replicate npre 7 ++ b ++ [1, 2]) npre b.length))
    | _ => some (p, "err-index")
  | e => do
    let (op, r) ← poolOp? e
    match p.step op with
    | .ok p' => some (p', match p'[r]? with | some x => showInner x | none => "err-index")
    | .error err => some (p, showErr err)

open WM.Spec.IdSet in
def spoolStep (p : SPool) (e : SExp) : Option (SPool × String) :=
  match e with
  | .list [.atom "on", a, op] => do
    let a ← a.nat?
    match p[a]? with
    | some s => (specOp s op).map fun (s', obs) => (p.set a s', obs)
    | none => some (p, "err-index")
  | .list [.atom "disk", a, _] => do
    let a ← a.nat?
    match p[a]? with
    | some s => some (p, showNatList s)
    | none => some (p, "err-index")
  | .list [.atom "load", dst, l] => do
    let dst ← dst.nat?
    let l ← l.natList?
    match p.step (.load dst (.sorted (ofList l))) with
    | some p' => some (p', match p'[dst]? with | some x => showNatList x | none => "err-index")
    | none => some (p, "err-index")
  | e => do
    let (op, r) ← poolOp? e
    match p.step op with
    | some p' => some (p', match p'[r]? with | some x => showNatList x | none => "err-index")
    | none => some (p, "err-index")

def idset : List SExp → String
  -- BitSet(source, size): `(src (list) sized size)`; BitSet.from_bytes: `(bytes hex)`
  | .atom "bitset" :: .list [.atom "src", l, sized, size] :: ops =>
    match l.natList?, sized.bool?, size.nat? with
    | some l, some sized, some size => reply (runOps bitsOp (ofSource l sized size) ops [])
    | _, _, _ => "bad-op"
  | .atom "bitset" :: .list [.atom "bytes", .atom hex] :: ops =>
    match hexBytes? hex with
    | some bs => reply (runOps bitsOp bs ops [])
    | none => "bad-op"
  | .atom "ondisk" :: .atom hex :: basepos :: count :: ops =>
    match hexBytes? hex, basepos.nat?, count.nat? with
    | some bs, some bp, some c => reply (runOps bitsOp (onDisk bs bp c) ops [])
    | _, _, _ => "bad-op"
  | .atom "sorted" :: l :: ops =>
    match l.natList? with
    | some l => reply (runOps sisOp (sisOfSource l) ops [])
    | none => "bad-op"
  | .atom "rev" :: inner :: limit :: ops =>
    match inner? inner, limit.nat? with
    | some i, some lim => reply (runOps revOp ⟨i, lim⟩ ops [])
    | _, _ => "bad-op"
  | .atom "multi" :: .list parts :: ops =>
    let ps := parts.mapM fun p => match p with
      | .list [i, off] => (inner? i) >>= fun i => off.nat? >>= fun o => some (i, o)
      | _ => none
    match ps with
    | some ps => reply (runOps multiOp ⟨ps.map (·.1), ps.map (·.2)⟩ ops [])
    | none => "bad-op"
  | .atom "pool" :: .list regs :: ops =>
    match regs.mapM reg? with
    | some p => reply (runOps poolStep p ops [])
    | none => "bad-op"
  | .atom "spool" :: .list regs :: ops =>
    match regs.mapM (·.natList?) with
    | some p => reply (runOps spoolStep (p.map WM.Spec.IdSet.ofList) ops [])
    | none => "bad-op"
  | .atom "spec" :: l :: ops =>
    match l.natList? with
    | some l => reply (runOps specOp (WM.Spec.IdSet.ofList l) ops [])
    | none => "bad-op"
  | _ => "bad-op"

/-! ## number lists -/
open WM.NumLists in
def tc? : SExp → Option TC
  | .atom "b" => some .b | .atom "B" => some .B | .atom "h" => some .h | .atom "H" => some .H
  | .atom "i" => some .i | .atom "I" => some .I | .atom "q" => some .q | .atom "Q" => some .Q
  | _ => none

open WM.NumLists in
def showTC : TC → String
  | .b => "b" | .B => "B" | .h => "h" | .H => "H" | .i => "i" | .I => "I" | .q => "q" | .Q => "Q"

open WM.NumLists in
/-- `ga <inittype> <allow_longs> (n ...)`: typecode and error flag after every append, the final
    contents and the bytes `to_file` writes. -/
def gaRun (g : GA) : List Int → List String → GA × List String
  | [], acc => (g, acc.reverse)
  | n :: ns, acc =>
    let (g', e) := g.append n
    gaRun g' ns ((showTC g'.tc ++ (if e then "!" else "")) :: acc)

open WM.NumLists WM.NumPack in
def numlists : List SExp → Option String
  | [.atom "gints-write", l] => l.natList? >>= fun l =>
    some (match gWrite l with | some bs => showHex bs | none => "err")
  | [.atom "gints-read", n, .atom hex] => do
    let n ← n.nat?
    let bs ← hexBytes? hex
    some (match gRead n bs with
      | some (xs, r) => s!"{showNatList xs} {showHex r}"
      | none => "err")
  | [.atom "deltas-write", .atom codec, l] => do
    let l ← l.natList?
    let w : Option (List Nat → Option (List Nat)) := match codec with
      | "gints" => some gWrite | "s16" => some s16write
      | "varints" => some (fun l => some (writeVarints l))
      | "fixed1" => some (writeFixed 1) | "fixed2" => some (writeFixed 2) | "fixed4" => some (writeFixed 4)
      | _ => none
    let w ← w
    some (match writeDeltasWith w l with | some bs => showHex bs | none => "err")
  | [.atom "deltas-read", .atom codec, n, .atom hex] => do
    let n ← n.nat?
    let bs ← hexBytes? hex
    let r : Option (Nat → List Nat → Option (List Nat × List Nat)) := match codec with
      | "gints" => some gRead | "s16" => some s16read | "varints" => some readVarints
      | "fixed1" => some (readFixed 1) | "fixed2" => some (readFixed 2) | "fixed4" => some (readFixed 4)
      | _ => none
    let r ← r
    some (match readDeltasWith r n bs with
      | some (xs, rest) => s!"{showNatList xs} {showHex rest}"
      | none => "err")
  | [.atom "s16-compress", l] => l.natList? >>= fun l =>
    some (match s16compress l with | some (v, k) => s!"{v} {k}" | none => "err")
  | [.atom "s16-decompress", v, n] => do
    let v ← v.nat?
    let n ← n.nat?
    some (showNatList (s16decompress v n))
  | [.atom "s16-get", .atom hex, pos, i] => do
    let bs ← hexBytes? hex
    let pos ← pos.nat?
    let i ← i.nat?
    some (showOpt toString (s16get (bs.drop pos) i))
  | [.atom "s16-write", l] => l.natList? >>= fun l =>
    some (match s16write l with | some bs => showHex bs | none => "err")
  | [.atom "s16-read", n, .atom hex] => do
    let n ← n.nat?
    let bs ← hexBytes? hex
    some (match s16read n bs with
      | some (xs, r) => s!"{showNatList xs} {showHex r}"
      | none => "err")
  | [.atom "delta-enc", l] => l.intList? >>= fun l => some (showIntList (deltaEncode l))
  | [.atom "delta-dec", l] => l.intList? >>= fun l => some (showIntList (deltaDecode l))
  | [.atom "ga", tc, al, l] => do
    let tc ← tc? tc
    let al ← al.bool?
    let l ← l.intList?
    let (g, obs) := gaRun ⟨tc, [], al⟩ l []
    some s!"({" ".intercalate obs}) {showIntList g.items} {showHex g.toBytes} {showList (fun k => showOpt toString (readItem g.tc g.toBytes k)) (List.range (g.items.length + 1))}"
  | [.atom "fixed-write", size, l] => do
    let size ← size.nat?
    let l ← l.natList?
    some (match writeFixed size l with | some bs => showHex bs | none => "err")
  | [.atom "fixed-read", size, n, .atom hex] => do
    let size ← size.nat?
    let n ← n.nat?
    let bs ← hexBytes? hex
    some (match readFixed size n bs with
      | some (xs, r) => s!"{showNatList xs} {showHex r}"
      | none => "err")
  | [.atom "fixed-get", size, .atom hex, pos, i] => do
    let size ← size.nat?
    let bs ← hexBytes? hex
    let pos ← pos.nat?
    let i ← i.nat?
    some (showOpt toString (getFixed size bs pos i))
  | [.atom "varints-write", l] => l.natList? >>= fun l => some (showHex (writeVarints l))
  | [.atom "varints-read", n, .atom hex] => do
    let n ← n.nat?
    let bs ← hexBytes? hex
    some (match readVarints n bs with
      | some (xs, r) => s!"{showNatList xs} {showHex r}"
      | none => "err")
  | _ => none

/-! ## hash files -/
open WM.HashFile in
/-- `hash <ordered> <startoffset> ((keyhex hash vallen valtag) ...) ((lookupkeyhex hash) ...) (closestkeyhex ...)`
    Values are `(tag, length)` pairs; the hash function is the finite map given by the request.
    The writers are the format-checked `buildE` / `buildOrderedE`. -/
def hashfile : List SExp → Option String
  | [ordered, so, .list kvs, .list lookups, .list closest] => do
    let ordered ← ordered.bool?
    let so ← so.nat?
    let kvs ← kvs.mapM fun e => match e with
      | .list [.atom k, h, vl, vt] => do
        let k ← hexBytes? k
        some (k, ← h.nat?, ← vl.nat?, ← vt.nat?)
      | _ => none
    let lookups ← lookups.mapM fun e => match e with
      | .list [.atom k, h] => do some (← hexBytes? k, ← h.nat?)
      | _ => none
    let closest ← closest.mapM fun e => match e with
      | .atom k => hexBytes? k
      | _ => none
    let table : List (Key × Nat) := kvs.map (fun (k, h, _, _) => (k, h)) ++ lookups
    let hm : Std.HashMap Key Nat := table.foldl (fun m (k, h) => if m.contains k then m else m.insert k h) {}
    let hash : Key → Nat := fun k => (hm.get? k).getD 0
    let vlen : Nat × Nat → Nat := fun v => v.2
    let pairs := kvs.map fun (k, _, vl, vt) => (k, (vt, vl))
    match (if ordered then buildOrderedE hash vlen so pairs else buildE hash vlen so pairs) with
    | .error e => some (showErr e)
    | .ok f =>
      let poss := showNatList (f.recs.map (·.pos))
      let tabs := (List.range 256).filterMap fun b =>
        match f.tables[b]? with
        | some t => if t.isEmpty then none else
            some s!"({b} {tablePos f b} {" ".intercalate (t.map fun s => s!"({s.1} {s.2})")})"
        | none => some s!"({b} missing)"
      let looks := lookups.map fun (k, _) => showNatList ((all hash f k).map (·.1))
      let cl := closest.map fun k =>
        match closestKey f k, itemsFrom vlen f k with
        | .ok ck, .ok items => s!"({showOpt showHex ck} {items.length})"
        | _, _ => "err"
      let its := showList (fun (kv : Key × (Nat × Nat)) => s!"({showHex kv.1} {kv.2.1})") (items vlen f)
      some s!"{poss} {f.endofdata} ({" ".intercalate tabs}) ({" ".intercalate looks}) {showTC f.indexTC} {showHex f.indexBytes} ({" ".intercalate cl}) {its}"
  | _ => none

/-! ## byte level: `StructFile` numbers/strings and the hash file as bytes -/
open WM.StructFile in
def structOps : List SExp → Option String
  | [.atom "pack", tc, n] => do
    let tc ← tc? tc
    let n ← n.int?
    some (showE showHex (pack tc n))
  | [.atom "unpack", tc, .atom hex] => do
    let tc ← tc? tc
    let bs ← hexBytes? hex
    some (showE toString (unpack tc bs))
  | [.atom "read", tc, .atom hex] => do
    let tc ← tc? tc
    let bs ← hexBytes? hex
    some (showE (fun (p : Int × Bytes) => s!"{p.1} {showHex p.2}") (readNum tc bs))
  | [.atom "get", tc, .atom hex, pos] => do
    let tc ← tc? tc
    let bs ← hexBytes? hex
    let pos ← pos.nat?
    some (showE toString (getNum tc bs pos))
  | [.atom "string", .atom hex, .atom rest] => do
    let s ← hexBytes? hex
    let rest ← hexBytes? rest
    let w := writeString s
    some s!"{showHex w} {match readString (w ++ rest) with
      | some (a, b) => s!"{showHex a} {showHex b}"
      | none => "err"}"
  | [.atom "readstring", .atom hex] => do
    let bs ← hexBytes? hex
    some (match readString bs with
      | some (a, b) => s!"{showHex a} {showHex b}"
      | none => "err")
  | _ => none

open WM.HashFile WM.HashBytes in
/-- `hashbytes <ordered> <hashtype> <prehex> <extrashex> <realfilehex> ((keyhex hash valhex) ...) ((lookupkeyhex hash) ...)`:
    the bytes the model writes, and the model reader (`openReader`, `allBytes`, `items`) run on the
    bytes of the *real* file. -/
def hashbytes : List SExp → Option String
  | [ordered, hashtype, .atom pre, .atom extras, .atom real, .list kvs, .list lookups] => do
    let ordered ← ordered.bool?
    let hashtype ← hashtype.nat?
    let pre ← hexBytes? pre
    let extras ← hexBytes? extras
    let real ← hexBytes? real
    let kvs ← kvs.mapM fun e => match e with
      | .list [.atom k, h, .atom v] => do some (← hexBytes? k, ← h.nat?, ← hexBytes? v)
      | _ => none
    let lookups ← lookups.mapM fun e => match e with
      | .list [.atom k, h] => do some (← hexBytes? k, ← h.nat?)
      | _ => none
    let table : List (Key × Nat) := kvs.map (fun (k, h, _) => (k, h)) ++ lookups
    let hm : Std.HashMap Key Nat := table.foldl (fun m (k, h) => if m.contains k then m else m.insert k h) {}
    let hash : Key → Nat := fun k => (hm.get? k).getD 0
    let pairs : List (Key × WM.StructFile.Bytes) := kvs.map fun (k, _, v) => (k, v)
    let so := pre.length
    let magic := [72, 83, 72, 51]
    let written := match (if ordered then buildOrderedE hash List.length so pairs else buildE hash List.length so pairs) with
      | .error e => showErr e
      | .ok f => showHex (fileBytes magic hashtype extras pre f)
    let rd := match openReader magic real so (real.length - so) with
      | .error e => showErr e
      | .ok r =>
        let dir := (List.range 256).filterMap fun b => match r.tables[b]? with
          | some (pn : Nat × Nat) => if pn.2 = 0 then none else some s!"({b} {pn.1} {pn.2})"
          | none => some s!"({b} missing)"
        let looks := lookups.map fun (kh : Key × Nat) => showE (showList showHex) (allBytes hash r kh.1)
        let its := showE (showList fun (kv : WM.StructFile.Bytes × WM.StructFile.Bytes) => s!"({showHex kv.1} {showHex kv.2})") (items r)
        s!"({r.hashtype} {r.startofdata} {r.endofdata} {r.expos} {r.exlen}) ({" ".intercalate dir}) ({" ".intercalate looks}) {its}"
    some s!"{written} {rd}"
  | _ => none

/-! ## external sort, compound files, base 85 -/
/-- `subfile <parenthex> <offset> <length> ((read n) | (readall) | (seek where whence) | (tell) | (chunks n)) ...` -/
def subfileRun (parent : List Nat) : WM.Compound.SubFile → List SExp → List String → Option (List String)
  | _, [], acc => some acc.reverse
  | s, op :: ops, acc =>
    match op with
    | .list [.atom "read", n] => n.int? >>= fun n =>
      match s.read parent (some n) with
      | some (d, s') => subfileRun parent s' ops (showHex d :: acc)
      | none => subfileRun parent s ops ("err" :: acc)
    | .list [.atom "readall"] =>
      match s.read parent none with
      | some (d, s') => subfileRun parent s' ops (showHex d :: acc)
      | none => subfileRun parent s ops ("err" :: acc)
    | .list [.atom "seek", w, wh] => w.int? >>= fun w => wh.nat? >>= fun wh =>
      match s.seek w wh with
      | some s' => subfileRun parent s' ops ("ok" :: acc)
      | none => subfileRun parent s ops ("err" :: acc)
    | .list [.atom "tell"] => subfileRun parent s ops (toString s.tell :: acc)
    | .list [.atom "chunks", n] => n.int? >>= fun n =>
      -- fuel: one iteration per byte left (also after a seek to before the member) plus the empty read
      match WM.Compound.SubFile.readChunks parent n s (((s.length : Int) - s.pos).toNat + 2) with
      | some (d, s') => subfileRun parent s' ops (showHex d :: acc)
      | none => subfileRun parent s ops ("err" :: acc)
    | _ => none

def misc : List SExp → Option String
  | [.atom "sort", ms, mf, l] => do
    let ms ← ms.nat?
    let mf ← mf.nat?
    let l ← l.intList?
    some (match WM.Sort.sortAll (fun (a b : Int) => decide (a ≤ b)) ms mf l with
      | .ok out => showIntList out
      | .error e => showErr e)
  | [.atom "compound-assemble", .atom before, .list files] => do
    let before ← hexBytes? before
    let files ← files.mapM fun e => match e with
      | .list [.atom n, .atom d] => (hexBytes? d).map fun d => (n, d)
      | _ => none
    let (blob, dir, dirpos) := WM.Compound.assemble before files
    let reads := files.map fun (n, _) => showOpt showHex (WM.Compound.openFile blob dir n)
    some s!"{showList (fun (e : WM.Compound.Entry) => s!"({e.name} {e.offset} {e.length})") dir} {dirpos} ({" ".intercalate reads})"
  | [.atom "compound-file", .atom before, .list files, .atom pickled] => do
    let before ← hexBytes? before
    let pickled ← hexBytes? pickled
    let files ← files.mapM fun e => match e with
      | .list [.atom n, .atom d] => (hexBytes? d).map fun d => (n, d)
      | _ => none
    some (match WM.Compound.assembleFile before files pickled with
      | .ok file => showHex file
      | .error _ => "err")
  | [.atom "compound-opendir", .atom file, basepos] => do
    let file ← hexBytes? file
    let basepos ← basepos.nat?
    some (match WM.Compound.openDir file basepos with
      | .ok (o, l, rest) => s!"{o} {l} {showHex rest}"
      | .error _ => "err")
  | [.atom "compound-writer", bs, .list ops] => do
    let bs ← bs.int?
    let w ← ops.foldlM (fun (w : WM.Compound.Writer) e => match e with
      | .list [.atom "c", .atom n] => some (w.createFile n)
      | .list [.atom "w", .atom n, .atom d] => (hexBytes? d).map fun d => w.write n d
      | _ => none) ⟨bs, [], []⟩
    let blocks := w.streams.map fun (n, ss) =>
      let bl := ss.close.blocks.map fun b => match b with
        | .temp o l => s!"(t {o} {l})"
        | .buf l => s!"(b {l})"
      s!"({n} {" ".intercalate bl})"
    let rb := w.readback.map fun (n, d) => s!"({n} {showHex d})"
    some s!"({" ".intercalate blocks}) ({" ".intercalate rb}) {w.temp.length}"
  | [.atom "subfile", .atom hex, off, len, .list ops] => do
    let parent ← hexBytes? hex
    let off ← off.nat?
    let len ← len.nat?
    (subfileRun parent ⟨off, len, 0⟩ ops []).map fun obs => "(" ++ " ".intercalate obs ++ ")"
  | [.atom "b85", x, islong] => do
    let x ← x.nat?
    let il ← islong.bool?
    some (match WM.Base85.toBase85 x il with | some cs => showHex cs | none => "err")
  | [.atom "b85-dec", .atom hex] => do
    let cs ← hexBytes? hex
    some (showOpt toString (WM.Base85.fromBase85 cs))
  | _ => none

def handle : List SExp → String
  | [.atom "varint-enc", n] =>
    match n.nat? with
    | some k => showHex (WM.Varint.encode k)
    | none => "bad-op"
  | [.atom "varint-dec", .atom hex] =>
    match hexBytes? hex with
    | some bs => match WM.Varint.decode bs with
      | some (n, rest) => s!"{n} {showHex rest}"
      | none => "err"
    | none => "bad-op"
  | [.atom "svarint-enc", n] =>
    match n.int? with
    | some k => showHex (WM.Varint.encodeSigned k)
    | none => "bad-op"
  | [.atom "unzigzag", n] =>
    match n.nat? with
    | some k => toString (WM.Varint.unzigzag k)
    | none => "bad-op"
  | .atom "idset" :: rest => idset rest
  | .atom "num" :: rest => (numlists rest).getD "bad-op"
  | .atom "hash" :: rest => (hashfile rest).getD "bad-op"
  | .atom "struct" :: rest => (structOps rest).getD "bad-op"
  | .atom "hashbytes" :: rest => (hashbytes rest).getD "bad-op"
  | .atom "misc" :: rest => (misc rest).getD "bad-op"
  | _ => "bad-op"

end WM.Drv.C20
