import WM.Proto
import WM.Model.Varint
namespace WM.Drv.C20
open WM.Proto

def handle : List SExp → String
  | [.atom "varint-enc", n] =>
    match n.nat? with
    | some k => showHex (WM.Varint.encode k)
    | none => "bad-op"
  | [.atom "varint-dec", .atom hex] =>
    match hexBytes? hex with
    | some bs => match WM.Varint.decode bs with
      | some (n, rest) => s!"{n} {showHex rest}"
      | none => "err"
    | none => "bad-op"
  | [.atom "svarint-enc", n] =>
    match n.int? with
    | some k => showHex (WM.Varint.encodeSigned k)
    | none => "bad-op"
  | [.atom "unzigzag", n] =>
    match n.nat? with
    | some k => toString (WM.Varint.unzigzag k)
    | none => "bad-op"
  | _ => "bad-op"

end WM.Drv.C20
