import WM.Proto
import WM.Model.FS
import WM.Model.FSCodec
/-!
Protocol handler of family `c02` (commit protocol, recovery, clean-up, name patterns).

Names travel as lists of code points.  Inside one request a *name table* is sent once and the
directory / TOCs / events refer to names by index:

  toc    ::= ( gen schema ( (sidIdx (fileIdx*) (deleted*))* ) )
  fs     ::= ( (nameIdx c|t|w len toc|-)* )
  event  ::= (c n) | (w n k) | (t n toc) | (x n) | (r a b) | (d n) | (o)

  c02 segfiles ix segid 0|1 (column*) 0|1      -> (name*)   files of a W3 segment, from the codec model
  c02 listfiles sid (name*)                    -> (name*)   Segment.list_files
  c02 delmatched ix tab trace                  -> 1 | 0     hypothesis of C02.toc_tmp_leaks on a real trace
-/
namespace WM.Drv.C02
open WM.Proto WM.FS

def name? (e : SExp) : Option Name := (e.natList?).map fun cs => cs.map Char.ofNat

def showName (n : Name) : String := showNatList (n.map Char.toNat)

abbrev Tab := Array Name

def tab? (e : SExp) : Option Tab := (e.listOf? name?).map List.toArray

def idx? (tab : Tab) (e : SExp) : Option Name := do
  let i ← e.nat?
  tab[i]?

def seg? (tab : Tab) : SExp → Option SegRef
  | .list [s, fs, ds] => do
    let sid ← idx? tab s
    let files ← fs.listOf? (idx? tab)
    let del ← ds.natList?
    some ⟨sid, files, del⟩
  | _ => none

def toc? (tab : Tab) : SExp → Option Toc
  | .list [g, sc, segs] => do
    let gen ← g.nat?
    let schema ← sc.nat?
    let ss ← segs.listOf? (seg? tab)
    some ⟨gen, schema, ss⟩
  | _ => none

def emptyFS : FS := ⟨[], fun _ => none, fun _ => ⟨0, .torn, none⟩, 0⟩

def addFile (fs : FS) (n : Name) (d : FileData) : FS :=
  { names := n :: fs.names
    dir := fun m => if m = n then some fs.next else fs.dir m
    data := fun j => if j = fs.next then d else fs.data j
    next := fs.next + 1 }

def fsEntry? (tab : Tab) : SExp → Option (Name × FileData)
  | .list [n, .atom st, len, t] => do
    let nm ← idx? tab n
    let l ← len.nat?
    let stt ← match st with
      | "c" => some FStat.complete
      | "t" => some FStat.torn
      | "w" => some FStat.writing
      | _ => none
    let tc ← t.opt? (toc? tab)
    some (nm, ⟨l, stt, tc⟩)
  | _ => none

def fs? (tab : Tab) (e : SExp) : Option FS := do
  let es ← e.listOf? (fsEntry? tab)
  some (es.foldl (fun fs (p : Name × FileData) => addFile fs p.1 p.2) emptyFS)

def event? (tab : Tab) : SExp → Option Event
  | .list [.atom "c", n] => (idx? tab n).map .create
  | .list [.atom "w", n, k] => do some (.write (← idx? tab n) (← k.nat?))
  | .list [.atom "t", n, t] => do some (.setToc (← idx? tab n) (← toc? tab t))
  | .list [.atom "x", n] => (idx? tab n).map .close
  | .list [.atom "r", a, b] => do some (.rename (← idx? tab a) (← idx? tab b))
  | .list [.atom "d", n] => (idx? tab n).map .delete
  | .list [.atom "o"] => some .other
  | _ => none

def trace? (tab : Tab) (e : SExp) : Option (List Event) := e.listOf? (event? tab)

def showPhase : Phase → String
  | .pre => "pre" | .tmpOpen => "tmpOpen" | .tmpClosed => "tmpClosed" | .post => "post"

def showRec (ix : Name) (fs : FS) : String :=
  match readToc ix fs with
  | .ok t => s!"ok {t.gen} {showBool (readable fs t)}"
  | .error .emptyIndex => "err empty"
  | .error .ioError => "err io"
  | .error .badToc => "err bad"

def handle : List SExp → String
  | [.atom "tocgen", ix, n] =>
    match name? ix, name? n with
    | some i, some m => showOpt toString (tocGen i m)
    | _, _ => "bad-op"
  | [.atom "segof", ix, n] =>
    match name? ix, name? n with
    | some i, some m => showOpt showName (segOf i m)
    | _, _ => "bad-op"
  | [.atom "tocname", ix, g] =>
    match name? ix, g.nat? with
    | some i, some k => showName (tocName i k)
    | _, _ => "bad-op"
  | [.atom "segfiles", ix, sg, c, cols, v] =>
    match name? ix, name? sg, c.nat?, cols.listOf? name?, v.nat? with
    | some i, some g, some cb, some cl, some vb =>
      showList showName (segFiles (segmentId i g) ⟨cb != 0, cl, vb != 0⟩)
    | _, _, _, _, _ => "bad-op"
  | [.atom "listfiles", sid, ns] =>
    match name? sid, ns.listOf? name? with
    | some sd, some l => showList showName (listFiles sd l)
    | _, _ => "bad-op"
  | [.atom "delmatched", ix, tb, tr] =>
    match name? ix, tab? tb with
    | some i, some tab =>
      match trace? tab tr with
      | some es => showBool (es.all fun e => match e with
          | .delete m => (tocGen i m).isSome || (segOf i m).isSome ||
              (stripPrefix (i ++ ['.', 't', 'm', 'p']) m).isSome
          | _ => true)
      | none => "bad-op"
    | _, _ => "bad-op"
  | [.atom "latest", ix, ns] =>
    match name? ix, ns.listOf? name? with
    | some i, some l => showOpt toString (latestGenOf i l)
    | _, _ => "bad-op"
  | [.atom "clean", ix, g, sids, ns] =>
    match name? ix, g.nat?, sids.listOf? name?, ns.listOf? name? with
    | some i, some k, some ss, some l => showList showName (cleanFiles i k ss l)
    | _, _, _, _ => "bad-op"
  -- commit protocol on a logged trace
  | [.atom "commit", ix, tb, old, new, tmp, fs0, tr] =>
    match name? ix, tab? tb with
    | some i, some tab =>
      match toc? tab old, toc? tab new, idx? tab tmp, fs? tab fs0, trace? tab tr with
      | some o, some nw, some t, some fs, some es =>
        match chkFail i o nw (some t) ⟨fs, .pre⟩ es 0 with
        | some k => s!"fail {k}"
        | none =>
          match chkRun i o nw (some t) ⟨fs, .pre⟩ es with
          | some c => s!"ok {showPhase c.phase} {showBool (CleansOrphans i nw fs es)}"
          | none => "fail ?"
      | _, _, _, _, _ => "bad-op"
    | _, _ => "bad-op"
  | [.atom "cancel", ix, tb, old, fs0, tr] =>
    match name? ix, tab? tb with
    | some i, some tab =>
      match toc? tab old, fs? tab fs0, trace? tab tr with
      | some o, some fs, some es =>
        match chkFail i o o none ⟨fs, .pre⟩ es 0 with
        | some k => s!"fail {k}"
        | none => "ok"
      | _, _, _ => "bad-op"
    | _, _ => "bad-op"
  -- model prediction of what a re-opened index sees after the first k events and a crash
  | [.atom "recover", ix, tb, fs0, tr, ks] =>
    match name? ix, tab? tb with
    | some i, some tab =>
      match fs? tab fs0, trace? tab tr, ks.natList? with
      | some fs, some es, some kl =>
        showList (fun k => "(" ++ showRec i (crash (run fs (es.take k)) fun _ => 0) ++ ")") kl
      | _, _, _ => "bad-op"
    | _, _ => "bad-op"
  -- names left in the directory after the whole trace (for the orphan check)
  | [.atom "final", ix, tb, fs0, tr] =>
    match name? ix, tab? tb with
    | some _, some tab =>
      match fs? tab fs0, trace? tab tr with
      | some fs, some es => showList showName (run fs es).listing.eraseDups
      | _, _ => "bad-op"
    | _, _ => "bad-op"
  | _ => "bad-op"

end WM.Drv.C02
