import WM.Proto
namespace WM.Drv.C02
open WM.Proto

/-- Protocol handler of family `c02` (requests arrive without the family token). -/
def handle : List SExp → String
  | _ => "bad-op"

end WM.Drv.C02
