import WM.Proto
import WM.Spec.Columns
import WM.Model.ColumnsField
import WM.Model.ColumnsBlock
namespace WM.Drv.C08
open WM.Proto WM.Columns

/-! Protocol handler of family `c08`.

`var ALLOW CUTOFF DOCCOUNT ((d hex)*)`            → `ok FILE STORED (row*)` | `err NAME`
`fixed FIXEDLEN DEFAULT DOCCOUNT ((d hex)*)`      → `ok FILE (row*)`
`num CODE DEFAULT DOCCOUNT ((d int)*)`            → `ok FILE (int*)`
`ref FIXEDLEN DEFAULT DOCCOUNT ((d hex)*)`        → `ok FILE (row*)`
`bit COMPRESSAT DOCCOUNT ((d 0|1)*)`              → `ok FILE (0|1*)`
`varlist (hex*)` / `fixlist FIXEDLEN (hex*)`      → `ROW (decoded*)`
`multi (offset*) (docnum*)`                       → `((reader local)*)`
`rows DEFAULT DOCCOUNT ((d hex)*)`                → Layer S rows.
`sdict ((name VALUE|- OVERRIDE|-|None 0|1)*)`     → `{name=value,…} (model 0|1)`: `storedDict`, and whether
                                                     every lookup agrees with `specStored`
`segs DEFAULT ((HASCOL N ((d v)*) (live*))*)`     → `(multi-rows) (merged-rows) (model 0|1)`: `multiGet` over the
                                                     segments, then the `write_per_doc` copy of all segments
                                                     into one (`mergeColumnAdds`), both compared with Layer S.
Field level (`WM/Model/ColumnsField.lean`; rows are what `TranslatingColumnReader(reader, from_column_value)` shows):
`utf8 (cp*)`                                       → `ok HEX` | `err NAME`            (`utf8encode`)
`utf8dec HEX`                                      → `ok (cp*)` | `err NAME`          (`utf8decode`, strict)
`fint BITS SIGNED DEFAULT|- DOCCOUNT ((d int)*)`   → `ok FILE (int|!Err*)` | `err NAME`
`ffloat SIGNED DFLT DOCCOUNT ((d pattern)*)`       → `ok FILE (pattern|!Err*)` | `err NAME`
`fdt DOCCOUNT ((d (days secs us))*)`               → `ok FILE ((days secs us)|!Err*)` | `err NAME`
`ftext DOCCOUNT ((d (cp*))*)`                      → `ok FILE ((cp*)|!Err*)` | `err NAME`
Iteration: `variter ALLOW CUTOFF DOCCOUNT adds` → `(row*)` (`list(reader)`);
`numiter CODE DEFAULT DOCCOUNT adds` → `(iter*) (sort_key*) (sort_key after set_reverse*)`;
`segs` also prints `multiIter` (third list). -/

def parseAdds {α} (f : SExp → Option α) : SExp → Option (List (Nat × α))
  | .list xs => xs.mapM fun
    | .list [d, v] => do
      let d ← d.nat?
      let v ← f v
      pure (d, v)
    | _ => none
  | _ => none

def hex? (e : SExp) : Option Bytes := e.atom? >>= hexBytes?

def showErr (e : Err) : String := s!"err {e.name}"

def showRows (rs : List (Except Err Bytes)) : String :=
  showList (fun r => match r with | .ok b => showHex b | .error e => "!" ++ e.name) rs

def doVar (allow : Bool) (cutoff doccount : Nat) (adds : List (Nat × Bytes)) : String :=
  match varWrite allow cutoff adds doccount with
  | .error e => showErr e
  | .ok file => match VarR.open file doccount with
    | .error e => s!"ok {showHex file} open-err {e.name}"
    | .ok r =>
      s!"ok {showHex file} {showBool r.hadStoredOffsets} {showRows ((List.range doccount).map r.get)}"

def doFixed (fixedlen : Nat) (db : Bytes) (doccount : Nat) (adds : List (Nat × Bytes)) : String :=
  match fixedWrite fixedlen db adds with
  | .error e => showErr e
  | .ok file =>
    s!"ok {showHex file} {showList (fun d => showHex (fixGet fixedlen db file d)) (List.range doccount)}"

def parseNumCode : SExp → Option NumCode
  | .atom "b" => some .b | .atom "B" => some .B | .atom "h" => some .h | .atom "H" => some .H
  | .atom "i" => some .i | .atom "I" => some .I | .atom "q" => some .q | .atom "Q" => some .Q
  | _ => none

def doNum (c : NumCode) (default : Int) (doccount : Nat) (adds : List (Nat × Int)) : String :=
  match numWrite c default {} adds with
  | .error e => showErr e
  | .ok file =>
    let rows := (List.range doccount).map fun d => match numGet c default file d with
      | .ok v => toString v
      | .error e => "!" ++ e.name
    s!"ok {showHex file} {showList id rows}"

def doRef (fixedlen : Nat) (db : Bytes) (doccount : Nat) (adds : List (Nat × Bytes)) : String :=
  let file := refWrite fixedlen db adds doccount
  match refOpen fixedlen file doccount with
  | .error e => s!"ok {showHex file} open-err {e.name}"
  | .ok (sz, us) => s!"ok {showHex file} {showRows ((List.range doccount).map (refGet file sz us))}"

def doBit (compressAt doccount : Nat) (adds : List (Nat × Bool)) : String :=
  let file := bitWrite compressAt adds
  s!"ok {showHex file} {showList (fun d => showBool (bitGet file d)) (List.range doccount)}"

def parseField : SExp → Option (FieldIn String)
  | .list [.atom name, .atom v, .atom o, st] => do
    let st ← st.bool?
    pure { name := name, value := if v == "-" then none else some v,
           override := if o == "-" then none else if o == "None" then some none else some (some o),
           stored := st }
  | _ => none

def doSdict (fs : List (FieldIn String)) : String :=
  let d := storedDict fs
  let ok := fs.all fun f => ((d.find? fun kv => kv.1 == f.name).map (·.2)) == specStored fs f.name
  let body := ",".intercalate (d.map fun kv => kv.1 ++ "=" ++ kv.2)
  s!"\{{body}} (model {showBool ok})"

structure SegIn where
  hasCol : Bool
  n : Nat
  adds : List (Nat × String)
  live : List Nat

def parseSeg : SExp → Option SegIn
  | .list [h, n, adds, live] => do
    let h ← h.bool?
    let n ← n.nat?
    let adds ← parseAdds SExp.atom? adds
    let live ← live.natList?
    pure ⟨h, n, adds, live⟩
  | _ => none

def SegIn.col (db : String) (s : SegIn) : SegCol String :=
  if s.hasCol then .rows (rowsOf db s.adds s.n) else .empty s.n

/-- `add_reader` segment after segment: the new document numbers continue where the previous
    segment stopped. -/
def mergeAll (db : String) : Nat → List SegIn → Except Err (List (Nat × String))
  | _, [] => .ok []
  | base, s :: rest => do
    let a ← mergeColumnAdds s.hasCol (SegCol.get db (s.col db)) base s.live
    let b ← mergeAll db (base + s.live.length) rest
    pure (a ++ b)

def doSegs (db : String) (segs : List SegIn) : String :=
  let cols := segs.map (SegIn.col db)
  let total := (cols.map SegCol.len).sum
  let multi := (List.range total).map fun d => match multiGet db cols d with
    | .ok v => v
    | .error e => "!" ++ e.name
  let specMulti := (segs.map fun s => rowsOf db (if s.hasCol then s.adds else []) s.n).flatten
  let nlive := (segs.map (·.live.length)).sum
  let specMerged := (segs.map fun s => s.live.map (cell db (if s.hasCol then s.adds else []))).flatten
  match mergeAll db 0 segs with
  | .error e => s!"{showList id multi} merge-err {e.name}"
  | .ok madds =>
    let merged := rowsOf db madds nlive
    let iter := multiIter db cols
    s!"{showList id multi} {showList id merged} {showList id iter} (model {showBool (multi == specMulti && merged == specMerged && iter == specMulti)})"

def showFRows {α} (f : α → String) (rs : List (Except FErr α)) : String :=
  showList (fun r => match r with | .ok v => f v | .error e => "!" ++ e.name) rs

def doFint (bits : Nat) (signed : Bool) (default : Option Int) (doccount : Nat) (adds : List (Nat × Int)) : String :=
  match intFieldWrite bits signed default adds with
  | .error e => s!"err {e.name}"
  | .ok file =>
    s!"ok {showHex file} {showFRows toString ((List.range doccount).map (intFieldRead bits signed default file))}"

def doFfloat (signed : Bool) (dflt : Nat) (doccount : Nat) (adds : List (Nat × Nat)) : String :=
  match floatFieldWrite signed dflt adds with
  | .error e => s!"err {e.name}"
  | .ok file =>
    s!"ok {showHex file} {showFRows toString ((List.range doccount).map (floatFieldRead signed dflt file))}"

def td? : SExp → Option WM.Numeric.TD
  | .list [a, b, c] => do
    let a ← a.int?
    let b ← b.int?
    let c ← c.int?
    pure ⟨a, b, c⟩
  | _ => none

def showTD (t : WM.Numeric.TD) : String := s!"({t.days} {t.seconds} {t.micros})"

def doFdt (doccount : Nat) (adds : List (Nat × WM.Numeric.TD)) : String :=
  match datetimeFieldWrite adds with
  | .error e => s!"err {e.name}"
  | .ok file => s!"ok {showHex file} {showFRows showTD ((List.range doccount).map (datetimeFieldRead file))}"

def doFtext (doccount : Nat) (adds : List (Nat × List Nat)) : String :=
  match textFieldAdds adds with
  | .error e => s!"err {e.name}"
  | .ok cadds =>
    match varWrite true 32768 cadds doccount with
    | .error e => showErr e
    | .ok file =>
      s!"ok {showHex file} {showFRows showNatList ((List.range doccount).map (textFieldRead file doccount))}"

def doVarIter (allow : Bool) (cutoff doccount : Nat) (adds : List (Nat × Bytes)) : String :=
  match varWrite allow cutoff adds doccount with
  | .error e => showErr e
  | .ok file => match varIter file doccount with
    | .error e => "!" ++ e.name
    | .ok rows => showList showHex rows

def doNumIter (c : NumCode) (default : Int) (doccount : Nat) (adds : List (Nat × Int)) : String :=
  match numWrite c default {} adds with
  | .error e => showErr e
  | .ok file =>
    let sh := fun (r : Except Err Int) => match r with
      | .ok v => toString v
      | .error e => "!" ++ e.name
    let it := fixIter c.size (.ok default) (numGet c default file) file doccount
    let ks := (List.range doccount).map (numSortKey c default false file)
    let rs := (List.range doccount).map (numSortKey c default true file)
    s!"{showList sh it} {showList sh ks} {showList sh rs}"

def handle : List SExp → String
  | [.atom "cblock", blockbytes, doccount, adds] =>
    -- `CompressedBlockColumn(blocksize = blockbytes / 1024)`: number of blocks written, then `reader[d]` for every d
    match blockbytes.nat?, doccount.nat?, parseAdds hex? adds with
    | some bs, some n, some xs =>
      let blocks := cbWrite bs xs
      let rows := (List.range n).map fun d => match cbGet blocks d with
        | .value v => showHex v
        | .keyError => "!KeyError"
      s!"{blocks.length} {showList id rows}"
    | _, _, _ => "bad-op"
  | [.atom "variter", allow, cutoff, doccount, adds] =>
    match allow.bool?, cutoff.nat?, doccount.nat?, parseAdds hex? adds with
    | some a, some c, some n, some xs => doVarIter a c n xs
    | _, _, _, _ => "bad-op"
  | [.atom "numiter", code, default, doccount, adds] =>
    match parseNumCode code, default.int?, doccount.nat?, parseAdds SExp.int? adds with
    | some c, some d, some n, some xs => doNumIter c d n xs
    | _, _, _, _ => "bad-op"
  | [.atom "utf8", cps] =>
    match cps.natList? with
    | some cs => match utf8Encode cs with
      | .ok bs => s!"ok {showHex bs}"
      | .error e => s!"err {e.name}"
    | none => "bad-op"
  | [.atom "utf8dec", bs] =>
    match hex? bs with
    | some bs => match utf8Decode bs with
      | .ok cs => s!"ok {showNatList cs}"
      | .error e => s!"err {e.name}"
    | none => "bad-op"
  | [.atom "fint", bits, signed, default, doccount, adds] =>
    match bits.nat?, signed.bool?, SExp.opt? SExp.int? default, doccount.nat?, parseAdds SExp.int? adds with
    | some b, some sg, some df, some n, some xs => doFint b sg df n xs
    | _, _, _, _, _ => "bad-op"
  | [.atom "ffloat", signed, dflt, doccount, adds] =>
    match signed.bool?, dflt.nat?, doccount.nat?, parseAdds SExp.nat? adds with
    | some sg, some df, some n, some xs => doFfloat sg df n xs
    | _, _, _, _ => "bad-op"
  | [.atom "fdt", doccount, adds] =>
    match doccount.nat?, parseAdds td? adds with
    | some n, some xs => doFdt n xs
    | _, _ => "bad-op"
  | [.atom "ftext", doccount, adds] =>
    match doccount.nat?, parseAdds SExp.natList? adds with
    | some n, some xs => doFtext n xs
    | _, _ => "bad-op"
  | [.atom "sdict", .list fs] =>
    match fs.mapM parseField with
    | some fs => doSdict fs
    | none => "bad-op"
  | [.atom "segs", .atom db, .list segs] =>
    match segs.mapM parseSeg with
    | some segs => doSegs db segs
    | none => "bad-op"
  | [.atom "var", allow, cutoff, doccount, adds] =>
    match allow.bool?, cutoff.nat?, doccount.nat?, parseAdds hex? adds with
    | some a, some c, some n, some xs => doVar a c n xs
    | _, _, _, _ => "bad-op"
  | [.atom "fixed", fl, db, doccount, adds] =>
    match fl.nat?, hex? db, doccount.nat?, parseAdds hex? adds with
    | some f, some d, some n, some xs => doFixed f d n xs
    | _, _, _, _ => "bad-op"
  | [.atom "num", code, default, doccount, adds] =>
    match parseNumCode code, default.int?, doccount.nat?, parseAdds SExp.int? adds with
    | some c, some d, some n, some xs => doNum c d n xs
    | _, _, _, _ => "bad-op"
  | [.atom "ref", fl, db, doccount, adds] =>
    match fl.nat?, hex? db, doccount.nat?, parseAdds hex? adds with
    | some f, some d, some n, some xs => doRef f d n xs
    | _, _, _, _ => "bad-op"
  | [.atom "bit", ca, doccount, adds] =>
    match ca.nat?, doccount.nat?, parseAdds SExp.bool? adds with
    | some c, some n, some xs => doBit c n xs
    | _, _, _ => "bad-op"
  | [.atom "varlist", ls] =>
    match SExp.listOf? hex? ls with
    | some xs =>
      let row := encodeVarList xs
      s!"{showHex row} {showOpt (showList showHex) (decodeVarList row)}"
    | none => "bad-op"
  | [.atom "fixlist", fl, ls] =>
    match fl.nat?, SExp.listOf? hex? ls with
    | some f, some xs => match encodeFixList f xs with
      | .error e => showErr e
      | .ok row => s!"{showHex row} {showList showHex (decodeFixList f row)}"
    | _, _ => "bad-op"
  | [.atom "multi", offs, ds] =>
    match offs.natList?, ds.natList? with
    | some os, some ds =>
      showList (fun d => match multiLocate os d with
        | some (r, l) => s!"({r} {l})"
        | none => "none") ds
    | _, _ => "bad-op"
  | [.atom "rows", .atom db, doccount, adds] =>
    -- values are opaque atoms here: Layer S does not look inside them
    match doccount.nat?, parseAdds SExp.atom? adds with
    | some n, some xs => showList id (rowsOf db xs n)
    | _, _ => "bad-op"
  | [.atom "refrows", .atom db, doccount, adds] =>
    match doccount.nat?, parseAdds SExp.atom? adds with
    | some n, some xs => showList id (refRowsOf db xs n)
    | _, _ => "bad-op"
  | _ => "bad-op"

end WM.Drv.C08
