import WM.Proto
import WM.Model.FSReader
import WM.Drv.C02
/-!
Protocol handler of family `c03` (readers).  Name tables, TOCs and directories as in `c02`.

  leaf   ::= ( sidIdx (fileIdx*) (deleted*) gen|- schema ((fileIdx inode)*) )
  reader ::= - | (e schema) | (s leaf) | (m gen|- leaf*)
  c03 eager (name*) (name*)                          -> 1 | 0
  c03 mkreader tab fs schema gen (seg*) reader       -> reader' closed(sid-list) | err
  c03 refresh ix tab fs reader                       -> reader' | err
  c03 uptodate ix (name*) gen|-                      -> 1 | 0
  c03 mrun ix tab fs retries (r | event)*            -> done gen (name*) | start n | opening .. | failed ..
  c03 xmrun ix tab fs toc0 retries (r | event)*      -> done gen (sid*) (opened-name*) | ...   (reader(reuse=fresh reader of toc0))
-/
namespace WM.Drv.C03
open WM.Proto WM.FS WM.Drv.C02

def handle? (tab : Tab) : SExp → Option (Name × Nat)
  | .list [f, i] => do some (← idx? tab f, ← i.nat?)
  | _ => none

def leaf? (tab : Tab) : SExp → Option SegReader
  | .list [s, fs, ds, g, sc, hs] => do
    let sid ← idx? tab s
    let files ← fs.listOf? (idx? tab)
    let del ← ds.natList?
    let gen ← g.opt? SExp.nat?
    let schema ← sc.nat?
    let handles ← hs.listOf? (handle? tab)
    some ⟨⟨sid, files, del⟩, gen, schema, handles⟩
  | _ => none

def reader? (tab : Tab) : SExp → Option (Option Reader)
  | .atom "-" => some none
  | .list [.atom "e", sc] => sc.nat?.map fun s => some (.empty s)
  | .list [.atom "s", l] => (leaf? tab l).map fun r => some (.single r)
  | .list (.atom "m" :: g :: ls) => do
    let gen ← g.opt? SExp.nat?
    let rs ← ls.mapM (leaf? tab)
    some (some (.multi rs gen))
  | _ => none

def showLeaf (r : SegReader) : String :=
  "(" ++ showName r.seg.sid ++ " " ++ showNatList r.seg.deleted ++ " " ++ showOpt toString r.gen ++ " " ++
    toString r.schema ++ " " ++ showNatList (r.handles.map (·.2)) ++ ")"

def showReader : Reader → String
  | .empty s => s!"(e {s})"
  | .single r => "(s " ++ showLeaf r ++ ")"
  | .multi rs g => "(m " ++ showOpt toString g ++ " " ++ " ".intercalate (rs.map showLeaf) ++ ")"

def showRErr : RErr → String
  | .io => "err io"
  | .toc .emptyIndex => "err empty"
  | .toc .ioError => "err tocio"
  | .toc .badToc => "err badtoc"

/-- which of a segment's files the `SegmentReader` constructor opens: all the files the request
    lists for the segment.  The harness observes, on the running code, which files a constructor
    opens and in which order, and sends exactly those as the segment's files (so nothing about the
    codec's laziness is hard-coded here). -/
def eagerExt (_ : Name) : Bool := true

def mstep? (tab : Tab) : SExp → Option MStep
  | .atom "r" => some .r
  | e => (event? tab e).map .w

def showROpen : ROpen → String
  | .start n => s!"start {n}"
  | .opening n t todo _ => s!"opening {n} {t.gen} {todo.length}"
  | .done t got => s!"done {t.gen} " ++ showList (fun (p : Name × Nat) => showName p.1) got
  | .failed e => "failed " ++ showRErr e

/-- steps of the recycling open that touch no storage (dictionary look-ups, finishing a segment)
    are taken at once, so that one logged storage call of the real reader is one `r` step -/
def settle (ix : Name) (old : Reader) (fs : FS) : Nat → RRefresh → RRefresh
  | 0, st => st
  | fuel + 1, st =>
    match st with
    | .segs .. => settle ix old fs fuel (xstep eagerExt ix old fs st)
    | .files _ _ _ _ _ [] _ _ => settle ix old fs fuel (xstep eagerExt ix old fs st)
    | _ => st

/-- run the recycling open and remember which files the last attempt opened -/
def xtrace (ix : Name) (old : Reader) (s : FS × RRefresh) (ms : List MStep) : (FS × RRefresh) × List Name :=
  ms.foldl (fun (acc : (FS × RRefresh) × List Name) m =>
    let (st, opened) := acc
    let opened' := match m, st.2 with
      | .r, .start _ => []
      | .r, .files _ _ _ _ _ (f :: _) _ _ => if (st.1.dir f).isSome then opened ++ [f] else opened
      | _, _ => opened
    let st' := xmstep eagerExt ix old st m
    ((st'.1, settle ix old st'.1 100000 st'.2), opened')) (s, [])

def showRRefresh (opened : List Name) : RRefresh → String
  | .start n => s!"start {n}"
  | .segs n t _ _ rest => s!"segs {n} {t.gen} {rest.length}"
  | .files n t _ _ _ todo _ _ => s!"files {n} {t.gen} {todo.length}"
  | .done t r => s!"done {t.gen} " ++ showList (fun (x : SegReader) => showName x.seg.sid) r.leaves ++ " " ++
      showList showName opened
  | .failed e => "failed " ++ showRErr e

def handle : List SExp → String
  | [.atom "xmrun", ix, tb, fs0, t0, n, steps] =>
    match name? ix, tab? tb with
    | some i, some tab =>
      match fs? tab fs0, toc? tab t0, n.nat?, steps.listOf? (mstep? tab) with
      | some fs, some toc0, some k, some ms =>
        let old := freshReader eagerExt fs toc0
        let (st, opened) := xtrace i old (fs, .start k) ms
        showRRefresh opened st.2
      | _, _, _, _ => "bad-op"
    | _, _ => "bad-op"
  | [.atom "mrun", ix, tb, fs0, n, steps] =>
    match name? ix, tab? tb with
    | some i, some tab =>
      match fs? tab fs0, n.nat?, steps.listOf? (mstep? tab) with
      | some fs, some k, some ms => showROpen (mrun eagerExt i (fs, .start k) ms).2
      | _, _, _ => "bad-op"
    | _, _ => "bad-op"
  | [.atom "eager", c, l] =>
    match c.listOf? name?, l.listOf? name? with
    | some cs, some ls => showBool (EagerTrace cs ls)
    | _, _ => "bad-op"
  | [.atom "mkreader", tb, fs0, sc, g, segs, rd] =>
    match tab? tb with
    | some tab =>
      match fs? tab fs0, sc.nat?, g.nat?, segs.listOf? (seg? tab), reader? tab rd with
      | some fs, some schema, some gen, some ss, some reuse =>
        match mkReader (fun _ => true) fs schema ss gen reuse with
        | .ok (r, closed) => showReader r ++ " " ++ showList (fun (x : SegReader) => showName x.seg.sid) closed
        | .error e => showRErr e
      | _, _, _, _, _ => "bad-op"
    | none => "bad-op"
  | [.atom "refresh", ix, tb, fs0, rd] =>
    match name? ix, tab? tb with
    | some i, some tab =>
      match fs? tab fs0, reader? tab rd with
      | some fs, some (some r) =>
        match refresh (fun _ => true) i fs r with
        | .ok r' => showReader r' ++ " " ++ showBool (upToDate i fs r')
        | .error e => showRErr e
      | _, _ => "bad-op"
    | _, _ => "bad-op"
  | [.atom "uptodate", ix, ns, g] =>
    match name? ix, ns.listOf? name?, g.opt? SExp.nat? with
    | some i, some l, some gen => showBool (genEq (latestGenOf i l) gen)
    | _, _, _ => "bad-op"
  | _ => "bad-op"

end WM.Drv.C03
