import WM.Lemmas.CodecWF
import WM.Lemmas.CodecAggSpec
import WM.Lemmas.CodecInline
/-!
# C10 — postings, term statistics and vectors read back exactly what was indexed
(block layer: `W3PostingsWriter`, `W3LeafMatcher`, `W3TermInfo`; the value codecs of `formats.py`
and vectors are in `C10Formats.lean`.)

All theorems are generic in the id kind `c.ids`; `docIds_lawful`/`termIds_lawful` instantiate them
for document numbers (delta coded) and for vector term texts.  `c.f32` (float32 storage) is an
arbitrary function.
-/
namespace WM.C10
open WM.Codec

variable {ι μ : Type}

/-- `delta_decode ∘ delta_encode = id` on every integer list (ascending or not). -/
theorem delta_roundtrip (ns : List Int) : deltaDecode (deltaEncode ns) = ns :=
  deltaDecode_encode ns

example : deltaEncode [3, 7, 7, 20] = [3, 4, 0, 13] ∧ deltaDecode [3, 4, 0, 13] = [3, 7, 7, 20] := by
  decide

theorem ids_lawful : docIds.Lawful ∧ termIds.Lawful := ⟨docIds_lawful, termIds_lawful⟩

/-- **Blocks round-trip.**  For every block limit ≥ 1 and every non-empty posting list that is not
    inlined (ids need not even ascend): the writer succeeds; decoding the written blocks yields the
    list (weights as stored, values as the format's fixed size dictates); every block but the last
    holds exactly `blocklimit` postings and is unflagged, the last one is flagged and holds between
    1 and `blocklimit`; a cursor opened on the blocks is well-formed and denotes the list. -/
theorem blocks_roundtrip (c : Cfg ι μ) (hk : c.ids.Lawful) (ps : List (Posting ι))
    (hbl : 1 ≤ c.blocklimit) (hne : ps ≠ [])
    (hni : c.inlinelimit ≤ ps.length ∨ c.blocklimit < ps.length)
    (hvalid : ∀ p ∈ ps, c.ids.valid p.id = true) (hval : ValuesOk c.fixedsize ps)
    (hu : LengthsUniform ps) :
    ∃ bs b ti, writeTerm c ps = .ok (bs ++ [b], ti) ∧
      decodeBlocks c.ids c.fixedsize (bs ++ [b]) = .ok (ps.map (expected c)) ∧
      (∀ x ∈ bs, x.info.count = c.blocklimit ∧ x.last = false) ∧
      (b.last = true ∧ 1 ≤ b.info.count ∧ b.info.count ≤ c.blocklimit) ∧
      ∃ m, Leaf.open (bs ++ [b]) = .ok m ∧ m.WF c.ids c.fixedsize ∧
        den c.ids c.fixedsize m = .ok (ps.map (expected c)) := by
  obtain ⟨bs, b, hw, hbs, hb⟩ := writeTerm_spec c hbl ps hne hni hvalid hu
  obtain ⟨hfull, hremle, hremne⟩ := split_shape c.blocklimit hbl ps
  obtain ⟨hmem1, hmem2⟩ := split_mem c.blocklimit ps
  have hv1 : ∀ ch ∈ (split c.blocklimit ps).1, ValuesOk c.fixedsize ch :=
    fun ch hch => hval.sub (hmem1 ch hch)
  have hv2 : ValuesOk c.fixedsize (split c.blocklimit ps).2 := hval.sub hmem2
  have hdec : decodeBlocks c.ids c.fixedsize (bs ++ [b]) = .ok (ps.map (expected c)) := by
    have h1 := decodeBlocks_of c hk _ _ hbs hv1
    obtain ⟨lp, _, rfl⟩ := hb
    have h2 : decodeBlocks c.ids c.fixedsize [encodeBlock c true (split c.blocklimit ps).2 lp.id]
        = .ok ((split c.blocklimit ps).2.map (expected c)) := by
      simp [decodeBlocks, blockEntries_encode c hk _ _ _ hv2]
    rw [decodeBlocks_append _ _ _ _ _ _ h1 h2, ← List.map_append, split_flatten]
  have hwf := wfBlocks_of hk hbs hb hv1 hv2
  obtain ⟨m, hopen, hmwf, hden⟩ := Leaf.open_wf (bs ++ [b]) hwf (by simp)
  refine ⟨bs, b, _, hw, hdec, ?_, ?_, m, hopen, hmwf, by rw [hden, hdec]⟩
  · -- closed blocks are full
    have : ∀ (chs : List (List (Posting ι))) (xs : List (DiskBlock ι μ)), BlocksOf c chs xs →
        (∀ ch ∈ chs, ch.length = c.blocklimit) →
        ∀ x ∈ xs, x.info.count = c.blocklimit ∧ x.last = false := by
      intro chs xs h
      induction h with
      | nil => intro _ x hx; simp at hx
      | cons hb' _ ih =>
        intro hl x hx
        simp only [List.mem_cons] at hx
        rcases hx with rfl | hx
        · obtain ⟨_, _, rfl⟩ := hb'
          exact ⟨by simpa [encodeBlock] using hl _ (by simp), rfl⟩
        · exact ih (fun ch hch => hl ch (by simp [hch])) x hx
    exact this _ _ hbs hfull
  · have hne' := hb.ne_nil
    obtain ⟨lp, _, rfl⟩ := hb
    refine ⟨rfl, ?_, by simpa [encodeBlock] using hremle⟩
    simp only [encodeBlock]
    cases hh : (split c.blocklimit ps).2 with
    | nil => exact absurd hh hne'
    | cons a l => simp

/-- The hypotheses of `blocks_roundtrip` are satisfiable: three postings, block limit 2 (two
    blocks), variable-size values. -/
example :
    let c : Cfg Int (List Int) :=
      { ids := docIds, f32 := id, blocklimit := 2, compression := 3, inlinelimit := 1, fixedsize := none }
    let ps : List (Posting Int) := [⟨1, 1, [7], some 3⟩, ⟨4, 2, [8, 8], some 5⟩, ⟨9, 1, [9], some 2⟩]
    1 ≤ c.blocklimit ∧ ps ≠ [] ∧ c.inlinelimit ≤ ps.length ∧ (∀ p ∈ ps, c.ids.valid p.id = true) ∧
      ValuesOk c.fixedsize ps ∧ LengthsUniform ps ∧
      (split c.blocklimit ps).1.map List.length = [2] ∧ (split c.blocklimit ps).2.length = 1 := by
  refine ⟨by decide, by simp, by decide, by decide, ?_, Or.inl (by decide), by decide, by decide⟩
  intro p hp
  simp only [List.mem_cons, List.not_mem_nil, or_false] at hp
  rcases hp with rfl | rfl | rfl <;> simp

/-- **Block info.**  Each written block records the true aggregates of its chunk of the list:
    the chunks are those of `split` (consecutive runs of `blocklimit` postings), and a block's
    count, last id, max weight and min/max length bytes are those of its chunk. -/
theorem block_info (c : Cfg ι μ) (ps : List (Posting ι))
    (hbl : 1 ≤ c.blocklimit) (hne : ps ≠ [])
    (hni : c.inlinelimit ≤ ps.length ∨ c.blocklimit < ps.length)
    (hvalid : ∀ p ∈ ps, c.ids.valid p.id = true) (hu : LengthsUniform ps) :
    ∃ bs b ti, writeTerm c ps = .ok (bs ++ [b], ti) ∧
      BlocksOf c (split c.blocklimit ps).1 bs ∧ BlockOf c true (split c.blocklimit ps).2 b ∧
      (split c.blocklimit ps).1.flatten ++ (split c.blocklimit ps).2 = ps := by
  obtain ⟨bs, b, hw, hbs, hb⟩ := writeTerm_spec c hbl ps hne hni hvalid hu
  exact ⟨bs, b, _, hw, hbs, hb, split_flatten _ _⟩

/-- What `BlockOf` records, spelled out: count, last id, max weight, length bytes. -/
theorem block_info_fields (c : Cfg ι μ) (last : Bool) (ch : List (Posting ι)) (b : DiskBlock ι μ)
    (h : BlockOf c last ch b) :
    b.last = last ∧ b.info.count = ch.length ∧ ch.getLast?.map (·.id) = some b.info.lastId ∧
      b.info.maxWeight = maxW c.f32 ch ∧ b.info.comp = c.compression ∧
      b.info.minLenByte = lengthToByte (minLen ch) ∧
      b.info.maxLenByte = lengthToByte (some (maxLen ch)) := by
  obtain ⟨lp, hl, rfl⟩ := h
  simp [encodeBlock, hl]

/-- The aggregates mean what their names say. -/
theorem aggregates_meaning (f32 : Rat → Rat) (ch : List (Posting ι)) :
    ((∀ p ∈ ch, f32 p.weight ≤ maxW f32 ch) ∧ (maxW f32 ch = 0 ∨ ∃ p ∈ ch, f32 p.weight = maxW f32 ch)) ∧
    ((∀ p ∈ ch, ∀ l, p.length = some l → l ≤ maxLen ch) ∧
      (maxLen ch = 0 ∨ ∃ p ∈ ch, p.length = some (maxLen ch))) ∧
    (match minLen ch with
      | none => ∀ p ∈ ch, truthy p.length = false
      | some m => 0 < m ∧ (∃ p ∈ ch, p.length = some m) ∧
          ∀ p ∈ ch, ∀ l, p.length = some l → 0 < l → m ≤ l) ∧
    (∀ a b, a ≤ b → lengthToByte (some a) ≤ lengthToByte (some b)) :=
  ⟨maxW_spec f32 ch, maxLen_spec ch, minLen_spec ch, lengthToByte_mono⟩

/-- **Term info.**  The statistics returned by `finish_postings` are the aggregates of the whole
    list: df, Σ stored weights, min/max length, max weight, first and last id (`tiOf`). -/
theorem terminfo (c : Cfg ι μ) (ps : List (Posting ι))
    (hbl : 1 ≤ c.blocklimit) (hne : ps ≠ [])
    (hni : c.inlinelimit ≤ ps.length ∨ c.blocklimit < ps.length)
    (hvalid : ∀ p ∈ ps, c.ids.valid p.id = true) (hu : LengthsUniform ps) :
    ∃ blocks, writeTerm c ps = .ok (blocks, { tiOf c ps with extent := some blocks.length }) := by
  obtain ⟨bs, b, hw, _, _⟩ := writeTerm_spec c hbl ps hne hni hvalid hu
  exact ⟨bs ++ [b], by simpa using hw⟩

example : (tiOf (ι := Int) (μ := List Int)
    { ids := docIds, f32 := id, blocklimit := 2, compression := 3, inlinelimit := 1, fixedsize := none }
    [⟨1, 1, [7], some 3⟩, ⟨4, 2, [8, 8], some 5⟩, ⟨9, 1, [9], some 2⟩]).df = 3 := by decide

/-- **Inlining rule** (with `set_inlined`): a list shorter than `inlinelimit` that fits one block
    is stored in the term info: nothing goes to the posting file, statistics are the aggregates. -/
theorem inline_roundtrip (c : Cfg ι μ) (ps : List (Posting ι)) (hne : ps ≠ [])
    (hin : ps.length < c.inlinelimit) (hle : ps.length ≤ c.blocklimit)
    (hvalid : ∀ p ∈ ps, c.ids.valid p.id = true) :
    writeTerm c ps = .ok ([], { tiOf c ps with
      inlined := some (ps.map (·.id), ps.map (fun p => c.f32 p.weight), storedValues ps) }) :=
  writeTerm_inline c ps hne hin hle hvalid

/-- **Inlined read path.**  Reading the inlined tuple back through `ListMatcher` (what
    `W3Codec.postings_reader` builds for an inlined term info) shows the posting list: ids, stored
    weights and values — the empty byte string for a value-less format, where the block reader
    shows `None`.  Together with `blocks_roundtrip`: the list read back does not depend on whether
    it was inlined. -/
theorem inline_read (c : Cfg ι μ) (ps : List (Posting ι)) (hne : ps ≠ [])
    (hin : ps.length < c.inlinelimit) (hle : ps.length ≤ c.blocklimit)
    (hvalid : ∀ p ∈ ps, c.ids.valid p.id = true) (hv : InlineValuesOk c.fixedsize ps) :
    ∃ ti ids ws vs, writeTerm c ps = .ok ([], ti) ∧ ti.inlined = some (ids, ws, vs) ∧
      inlinedRead ids ws vs = .ok (ps.map fun p => (p.id, c.f32 p.weight, p.value)) ∧
      ∀ p ∈ ps, (expected c p).id = p.id ∧ (expected c p).weight = c.f32 p.weight ∧
        ((expected c p).value = some p.value ∨ (c.fixedsize = some 0 ∧ p.value = [])) := by
  refine ⟨_, _, _, _, writeTerm_inline c ps hne hin hle hvalid, rfl, inlinedRead_spec c ps hne hv, ?_⟩
  intro p hp
  refine ⟨rfl, rfl, ?_⟩
  unfold expected
  cases hfs : c.fixedsize with
  | none => left; rfl
  | some n =>
    cases n with
    | zero =>
      right
      simp only [InlineValuesOk, hfs] at hv
      exact ⟨rfl, hv p hp⟩
    | succ m => left; rfl

example :
    let c : Cfg Int (List Int) :=
      { ids := docIds, f32 := id, blocklimit := 4, compression := 3, inlinelimit := 3, fixedsize := some 0 }
    let ps : List (Posting Int) := [⟨7, 1, [], none⟩, ⟨9, 2, [], none⟩]
    ps ≠ [] ∧ ps.length < c.inlinelimit ∧ ps.length ≤ c.blocklimit ∧ InlineValuesOk c.fixedsize ps ∧
      storedValues ps = [] ∧ inlinedValue (storedValues ps) 1 = .ok [] := by
  refine ⟨by simp, by decide, by decide, ?_, by decide, rfl⟩
  intro p hp
  simp only [List.mem_cons, List.not_mem_nil, or_false] at hp
  rcases hp with rfl | rfl <;> rfl

/-- **Term info as `reader.term_info` observes it** (`W3TermInfo.from_bytes(to_bytes())`): for a
    posting list of document numbers none of which is the `0xffffffff` NO_ID sentinel, the
    statistics that come back are df, first and last id unchanged, total and max weight through
    `struct "f"` (`f32`), and the min/max length through the length byte
    (`byte_to_length (length_to_byte ·)`, `None → 0`). -/
theorem terminfo_through_bytes (c : Cfg Int (List Int)) (ps : List (Posting Int)) (n : Nat)
    (hids : ∀ p ∈ ps, p.id ≠ 4294967295) :
    ∃ t', TermInfo.throughBytes c.f32 { tiOf c ps with extent := some n } = .ok t' ∧
      t'.df = ps.length ∧ t'.weight = c.f32 (sumW c.f32 ps) ∧ t'.maxweight = c.f32 (maxW c.f32 ps) ∧
      t'.minid = ps.head?.map (·.id) ∧ t'.maxid = ps.getLast?.map (·.id) ∧ t'.extent = some n ∧
      some t'.maxlength = byteToLength (lengthToByte (some (maxLen ps))) ∧
      t'.minlength = byteToLength (minLenByte (minLen ps)) := by
  obtain ⟨mx, hmx⟩ := byteToLength_lengthToByte (some (maxLen ps))
  obtain ⟨mn, hmn⟩ : ∃ mn, byteToLength (minLenByte (minLen ps)) = some mn := by
    unfold minLenByte
    cases minLen ps with
    | none => exact byteToLength_lengthToByte none
    | some l => exact byteToLength_lengthToByte (some l)
  have hsent : ∀ o : Option Int, (∀ x, o = some x → x ≠ 4294967295) → unNoId o = o := by
    intro o ho
    cases o with
    | none => rfl
    | some x =>
      by_cases hx : x = 4294967295
      · exact absurd hx (ho x rfl)
      · unfold unNoId
        split
        · next heq => exact absurd (Option.some.inj heq) hx
        · rfl
  have hfirst : ∀ x, ps.head?.map (·.id) = some x → x ≠ 4294967295 := by
    intro x hx
    cases ps with
    | nil => simp at hx
    | cons a l => simp at hx; subst hx; exact hids a (by simp)
  have hlast : ∀ x, ps.getLast?.map (·.id) = some x → x ≠ 4294967295 := by
    intro x hx
    cases hl : ps.getLast? with
    | none => rw [hl] at hx; simp at hx
    | some a => rw [hl] at hx; simp at hx; subst hx; exact hids a (List.mem_of_getLast? hl)
  refine ⟨{ weight := c.f32 (sumW c.f32 ps), df := ps.length, minlength := some mn, maxlength := mx
            maxweight := c.f32 (maxW c.f32 ps), minid := ps.head?.map (·.id)
            maxid := ps.getLast?.map (·.id), extent := some n, inlined := none },
    ?_, rfl, rfl, rfl, rfl, rfl, rfl, ?_, ?_⟩
  · simp only [TermInfo.throughBytes, tiOf, hmn, hmx, hsent _ hfirst, hsent _ hlast]
  · simp only [hmx]
  · simp only [hmn]

/-- **The block cursor refines the list cursor** (1): reads show the head of `den`, `is_active`
    is "`den` is not empty". -/
theorem leaf_refines_read (k : IdKind ι μ) (fs : Option Nat) (m : Leaf ι μ) (h : m.WF k fs) :
    (m.isActive = true → ∃ e rest, den k fs m = .ok (e :: rest) ∧ m.id k = .ok e.id ∧
        m.weight = .ok e.weight ∧ m.value fs = .ok e.value) ∧
    (m.isActive = false → den k fs m = .ok []) :=
  ⟨fun ha => h.den_active ha, fun ha => h.den_inactive ha⟩

/-- (2) `next()` is `tail`. -/
theorem leaf_refines_next (k : IdKind ι μ) (fs : Option Nat) (m : Leaf ι μ) (h : m.WF k fs)
    (ha : m.isActive = true) :
    ∃ m' b, m.next = .ok (m', b) ∧ m'.WF k fs ∧
      ∃ e rest, den k fs m = .ok (e :: rest) ∧ den k fs m' = .ok rest :=
  h.next ha

/-- (3) `skip_to(t)` is `dropWhile (id < t)`, provided no id of a block exceeds the block's
    recorded last id (true for what the writer produces from a non-descending list, below). -/
theorem leaf_refines_skip_to (k : IdKind ι μ) (fs : Option Nat) (m : Leaf ι μ) (h : m.WF k fs)
    (ha : m.isActive = true) (hb : BoundedByLastId k fs m.blocks) (htr : k.LeLtTrans) (t : ι)
    (L : List (Entry ι)) (hden : den k fs m = .ok L) :
    ∃ m', m.skipTo k t = .ok m' ∧ m'.WF k fs ∧
      den k fs m' = .ok (L.dropWhile (fun e => k.lt e.id t)) :=
  h.skipTo ha hb htr t L hden

/-- (4) `skip_to_quality(q)` only passes over entries of blocks whose quality is `≤ q`. -/
theorem leaf_refines_skip_to_quality (k : IdKind ι μ) (fs : Option Nat) (m : Leaf ι μ)
    (h : m.WF k fs) (quality : BlockInfo ι → Rat) (minq : Rat) (L : List (Entry ι))
    (hden : den k fs m = .ok L) :
    ∃ m' cnt pre L', m.skipToQuality quality minq = .ok (m', cnt) ∧ m'.WF k fs ∧
      den k fs m' = .ok L' ∧ L = pre ++ L' ∧
      (∀ e ∈ pre, ∃ b es, b ∈ m.blocks ∧ quality b.info ≤ minq ∧ blockEntries k fs b = .ok es ∧ e ∈ es) ∧
      (m'.isActive = true → minq < quality m'.cur.info) :=
  h.skipToQuality quality minq L hden

/-- (5) The blocks written for a non-descending list satisfy the side condition of (3). -/
theorem leaf_refines (c : Cfg ι μ) (hk : c.ids.Lawful) (hirr : ∀ x, c.ids.lt x x = false)
    (ps : List (Posting ι)) (hbl : 1 ≤ c.blocklimit) (hne : ps ≠ [])
    (hni : c.inlinelimit ≤ ps.length ∨ c.blocklimit < ps.length)
    (hvalid : ∀ p ∈ ps, c.ids.valid p.id = true) (hval : ValuesOk c.fixedsize ps)
    (hu : LengthsUniform ps) (hs : NonDescending c.ids ps) :
    ∃ blocks ti m, writeTerm c ps = .ok (blocks, ti) ∧ Leaf.open blocks = .ok m ∧
      m.WF c.ids c.fixedsize ∧ den c.ids c.fixedsize m = .ok (ps.map (expected c)) ∧
      BoundedByLastId c.ids c.fixedsize m.blocks := by
  obtain ⟨bs, b, hw, hbs, hb⟩ := writeTerm_spec c hbl ps hne hni hvalid hu
  obtain ⟨bs', b', ti, hw', hdec, _, _, m, hopen, hmwf, hden⟩ :=
    blocks_roundtrip c hk ps hbl hne hni hvalid hval hu
  rw [hw] at hw'
  simp only [Except.ok.injEq, Prod.mk.injEq] at hw'
  obtain ⟨hbb, _⟩ := hw'
  rw [← hbb] at hopen
  refine ⟨bs ++ [b], _, m, hw, hopen, hmwf, hden, ?_⟩
  obtain ⟨hmem1, hmem2⟩ := split_mem c.blocklimit ps
  obtain ⟨hs1, hs2⟩ := split_nonDescending c.ids c.blocklimit ps hs
  have hblocks : m.blocks = bs ++ [b] := by
    cases hbs' : bs ++ [b] with
    | nil => simp at hbs'
    | cons x xs => rw [hbs'] at hopen; simp only [Leaf.open] at hopen; cases hopen; rfl
  rw [hblocks]
  intro x hx
  simp only [List.mem_append, List.mem_singleton] at hx
  rcases hx with hx | rfl
  · exact hbs.bounded hk hirr (fun ch hch => hval.sub (hmem1 ch hch)) hs1 x hx
  · exact hb.bounded hk hirr (hval.sub hmem2) hs2

theorem ids_orders : docIds.LeLtTrans ∧ (∀ x, docIds.lt x x = false) ∧
    termIds.LeLtTrans ∧ (∀ x, termIds.lt x x = false) := by
  refine ⟨docIds_leLtTrans, fun x => by simp [docIds], ?_, fun x => by simp [termIds, String.lt_irrefl]⟩
  intro a b c h1 h2
  simp only [termIds, decide_eq_false_iff_not, decide_eq_true_eq] at *
  have hab : a ≤ b := String.not_lt.mp h1
  apply Classical.byContradiction
  intro hn
  have hca : c ≤ a := String.not_lt.mp hn
  exact (String.not_lt.mpr (String.le_trans hca hab)) h2

end WM.C10
