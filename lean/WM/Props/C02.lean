import WM.Model.FS
import WM.Lemmas.FSRun
/-!
C02 — a commit is atomic with respect to process crashes.

All theorems quantify over *every* storage trace accepted by the decidable protocol predicates of
`WM/Model/FS.lean` (`SafeCommitTrace`, `SafeCancelTrace`, `CleansOrphans`); the check evaluates the
same definitions, through the compiled driver, on traces logged from the real writer.
-/
namespace WM.C02
open WM.FS

/-- the committed state after the first `k` events of a commit trace. -/
def stateAt (old new : Toc) (tr : List Event) (k : Nat) : Toc :=
  if renamed (tr.take k) then new else old

theorem consistent_at {ix : Name} {old new : Toc} {tmp : Name} {fs0 : FS} {tr : List Event}
    (hc : Consistent ix old fs0) (hs : SafeCommitTrace ix old new tmp fs0 tr = true)
    (k : Nat) (τ : Nat → Nat) :
    Consistent ix (stateAt old new tr k) (crash (run fs0 (tr.take k)) τ) := by
  unfold SafeCommitTrace at hs
  cases hr : chkRun ix old new (some tmp) ⟨fs0, .pre⟩ tr with
  | none => rw [hr] at hs; cases hs
  | some c' =>
    obtain ⟨ck, h1, h2, h3⟩ := chkRun_take (inv_init hc) hr k
    have hph := chkRun_phase h1
    simp only at h2
    have hholds : Holds ix ck.fs (stateAt old new tr k) := by
      unfold stateAt
      by_cases hren : renamed (tr.take k) = true
      · rw [if_pos hren]; exact h3.post (hph.2 (Or.inr hren))
      · rw [if_neg hren]
        apply h3.pre
        intro hp
        rcases hph.1 hp with h | h
        · cases h
        · exact hren h
    rw [← h2]
    have hcr := holds_crash hholds τ
    have hwf := crash_wf h3.wf τ
    obtain ⟨r1, r2⟩ := holds_readToc hwf hcr
    exact ⟨r1, r2, crash_noWriting _ τ, hwf.support, hwf.range, hwf.inj⟩

/-- **C02.crash_atomic.**  From a consistent directory, for every trace that follows the commit
    protocol, every crash point `k` and every truncation `τ` of the files still open: re-opening
    yields exactly the old TOC (before the rename) or exactly the new one (after it), and every
    file that TOC references is present and complete. -/
theorem crash_atomic (ix : Name) (old new : Toc) (tmp : Name) (fs0 : FS) (tr : List Event)
    (hc : Consistent ix old fs0) (hs : SafeCommitTrace ix old new tmp fs0 tr = true)
    (k : Nat) (τ : Nat → Nat) :
    let fs' := crash (run fs0 (tr.take k)) τ
    (readToc ix fs' = .ok old ∨ readToc ix fs' = .ok new) ∧
    readToc ix fs' = .ok (stateAt old new tr k) ∧
    readable fs' (stateAt old new tr k) = true := by
  have h := consistent_at hc hs k τ
  refine ⟨?_, h.toc, h.readable⟩
  rw [h.toc]
  unfold stateAt
  split <;> simp

/-- **C02.cancel.**  A writer that never publishes a TOC (cancel, failing with-block, death before
    the TOC) leaves the old state at every point. -/
theorem cancel (ix : Name) (old : Toc) (fs0 : FS) (tr : List Event)
    (hc : Consistent ix old fs0) (hs : SafeCancelTrace ix old fs0 tr = true)
    (k : Nat) (τ : Nat → Nat) :
    Consistent ix old (crash (run fs0 (tr.take k)) τ) := by
  unfold SafeCancelTrace at hs
  cases hr : chkRun ix old old none ⟨fs0, .pre⟩ tr with
  | none => rw [hr] at hs; cases hs
  | some c' =>
    obtain ⟨ck, h1, h2, h3⟩ := chkRun_take (inv_init hc) hr k
    have hph := chkRun_cancel_phase h1 rfl
    simp only at h2
    rw [← h2]
    have hcr := holds_crash (h3.pre (by rw [hph]; decide)) τ
    have hwf := crash_wf h3.wf τ
    obtain ⟨r1, r2⟩ := holds_readToc hwf hcr
    exact ⟨r1, r2, crash_noWriting _ τ, hwf.support, hwf.range, hwf.inj⟩

/-- **C02.commit.**  A whole commit that follows the protocol publishes exactly `new`, readable,
    one generation after `old` (no crash involved). -/
theorem commit (ix : Name) (old new : Toc) (tmp : Name) (fs0 : FS) (tr : List Event)
    (hc : Consistent ix old fs0) (hs : CompleteCommit ix old new tmp fs0 tr = true) :
    readToc ix (run fs0 tr) = .ok new ∧ readable (run fs0 tr) new = true ∧
    new.gen = old.gen + 1 := by
  unfold CompleteCommit at hs
  cases hr : chkRun ix old new (some tmp) ⟨fs0, .pre⟩ tr with
  | none => rw [hr] at hs; cases hs
  | some c' =>
    rw [hr] at hs
    have hp : c'.phase = .post := by simpa using hs
    obtain ⟨ck, h1, h2, h3⟩ := chkRun_take (inv_init hc) hr tr.length
    rw [List.take_length] at h1 h2
    rw [hr] at h1; cases h1
    simp only at h2
    rw [← h2]
    obtain ⟨r1, r2⟩ := holds_readToc h3.wf (h3.post hp)
    exact ⟨r1, r2, h3.gen hp⟩

/-- What "no orphan is left" means: every listed name that does not start with a dot is the
    current TOC or is not a TOC, and if the segment pattern matches it, its segment is referenced. -/
def Clean (ix : Name) (t : Toc) (fs : FS) : Prop :=
  ∀ n ∈ fs.listing, startsWithDot n = false →
    (∀ g, tocGen ix n = some g → g = t.gen) ∧
    (tocGen ix n = none → ∀ s, segOf ix n = some s → s ∈ t.sids)

/-- **C02.orphans_removed.**  Whatever a crashed commit left behind (any prefix, any truncation),
    the directory is a consistent starting point for the next writer, and when that writer's
    whole commit follows the protocol and performs the `clean_files` pass, no TOC of another
    generation and no file of an unreferenced segment is left. -/
theorem orphans_removed (ix : Name) (old new : Toc) (tmp : Name) (fs0 : FS) (tr : List Event)
    (hc : Consistent ix old fs0) (hs : SafeCommitTrace ix old new tmp fs0 tr = true)
    (k : Nat) (τ : Nat → Nat) :
    let fs1 := crash (run fs0 (tr.take k)) τ
    Consistent ix (stateAt old new tr k) fs1 ∧
    ∀ (new2 : Toc) (tr2 : List Event),
      CleansOrphans ix new2 fs1 tr2 = true → Clean ix new2 (run fs1 tr2) := by
  refine ⟨consistent_at hc hs k τ, ?_⟩
  intro new2 tr2 hcl n hn hdot
  unfold CleansOrphans at hcl
  simp only [Bool.and_eq_true, Bool.not_eq_true', List.all_eq_true, List.any_eq_false] at hcl
  obtain ⟨⟨⟨hren, hdel⟩, hnc⟩, hnr⟩ := hcl
  have hsplit := split_at_rename tr2 hren
  rw [hsplit, run_append] at hn
  obtain ⟨h1, h2⟩ := listed_after_quiet _ (afterRename tr2)
    (fun e he => ⟨by simpa using hnc e he, by simpa using hnr e he⟩) n hn
  have hnot : n ∉ cleanFiles ix new2.gen new2.sids
      (run (crash (run fs0 (tr.take k)) τ) (uptoRename tr2)).listing := by
    intro hmem
    have := hdel n hmem
    simp only [List.contains_iff_mem] at this
    exact h2 (by simpa using this)
  simp only [cleanFiles, List.mem_filter, not_and] at hnot
  have hf := hnot h1
  rw [hdot] at hf
  simp only [Bool.false_eq_true, if_false] at hf
  constructor
  · intro g hg
    rw [hg] at hf
    simpa using hf
  · intro hg s hs
    rw [hg, hs] at hf
    simpa using hf

/-- **C02.next_commit.**  `orphans_removed` and `commit` in one statement: after any crashed prefix
    (any truncation), a later writer whose whole commit follows the protocol from the surviving
    directory and performs the clean-up pass publishes exactly its new TOC, readable, one
    generation on — and leaves no stale TOC and no file of an unreferenced segment.
    (A leaked TOC temp file `_<ix>_<n>.toc.<time>` matches neither pattern: `clean_files` never
    removes it and `Clean` does not speak about it; the property only names segment files.) -/
theorem next_commit (ix : Name) (old new : Toc) (tmp : Name) (fs0 : FS) (tr : List Event)
    (hc : Consistent ix old fs0) (hs : SafeCommitTrace ix old new tmp fs0 tr = true)
    (k : Nat) (τ : Nat → Nat) (new2 : Toc) (tmp2 : Name) (tr2 : List Event) :
    let fs1 := crash (run fs0 (tr.take k)) τ
    CompleteCommit ix (stateAt old new tr k) new2 tmp2 fs1 tr2 = true →
    CleansOrphans ix new2 fs1 tr2 = true →
    readToc ix (run fs1 tr2) = .ok new2 ∧ readable (run fs1 tr2) new2 = true ∧
    new2.gen = (stateAt old new tr k).gen + 1 ∧ Clean ix new2 (run fs1 tr2) := by
  intro fs1 hcc hcl
  obtain ⟨hcons, hclean⟩ := orphans_removed ix old new tmp fs0 tr hc hs k τ
  obtain ⟨r1, r2, r3⟩ := commit ix _ new2 tmp2 fs1 tr2 hcons hcc
  exact ⟨r1, r2, r3, hclean new2 tr2 hcl⟩

/-- **C02.pattern.**  The temp name `"%s.%s" % (tocfilename, time())` is never matched by the TOC
    pattern (whatever follows the dot), while the final name is, with its own generation; the lock
    file and the temp-storage directory are never matched by the segment pattern. -/
theorem pattern (ix : Name) (g : Nat) (t : List Char) :
    tocGen ix (tocName ix g ++ '.' :: t) = none ∧
    tocGen ix (tocName ix g) = some g ∧
    segOf ix (ix ++ ['_', 'W', 'R', 'I', 'T', 'E', 'L', 'O', 'C', 'K']) = none ∧
    segOf ix (ix ++ ['.', 't', 'm', 'p']) = none := by
  refine ⟨tocGen_tmp ix g t, tocGen_tocName ix g, ?_, ?_⟩
  · unfold segOf
    have : ix ++ ['_', 'W', 'R', 'I', 'T', 'E', 'L', 'O', 'C', 'K']
        = (ix ++ ['_']) ++ ['W', 'R', 'I', 'T', 'E', 'L', 'O', 'C', 'K'] := by simp
    rw [this, stripPrefix_append]
    have h1 : List.takeWhile isSegIdChar ['W', 'R', 'I', 'T', 'E', 'L', 'O', 'C', 'K'] = [] := by decide
    simp [h1]
  · unfold segOf
    rw [stripPrefix_mismatch ix ['t', 'm', 'p'] [] '_' '.' (by decide)]

/-! ### A concrete instance (non-vacuity of the hypotheses) -/
namespace Example

def ix : Name := ['M']
def segFile : Name := ['M', '_', 'a', '.', 's', 'e', 'g']
def toc0 : Name := ['_', 'M', '_', '0', '.', 't', 'o', 'c']
def toc1 : Name := ['_', 'M', '_', '1', '.', 't', 'o', 'c']
def tmpN : Name := ['_', 'M', '_', '1', '.', 't', 'o', 'c', '.', '9']
def tocOld : Toc := ⟨0, 0, []⟩
def tocNew : Toc := ⟨1, 0, [⟨['M', '_', 'a'], [segFile], []⟩]⟩
def fs0 : FS :=
  { names := [toc0]
    dir := fun n => if n = toc0 then some 0 else none
    data := fun _ => ⟨10, .complete, some tocOld⟩
    next := 1 }
/-- the storage events of a one-segment commit, in the order the real writer issues them -/
def tr : List Event :=
  [.create segFile, .write segFile 100, .close segFile,
   .create tmpN, .setToc tmpN tocNew, .write tmpN 50, .close tmpN,
   .rename tmpN toc1, .delete toc0]
/-- the same events with the segment file closed only after the TOC is in place -/
def trBad : List Event :=
  [.create segFile, .write segFile 100,
   .create tmpN, .setToc tmpN tocNew, .write tmpN 50, .close tmpN,
   .rename tmpN toc1, .close segFile, .delete toc0]

theorem consistent0 : Consistent ix tocOld fs0 where
  toc := by rfl
  readable := by decide
  noWriting := by intro i; simp [fs0]
  support := by
    intro n h
    simp only [fs0] at h ⊢
    split at h
    · next hn => simp [hn]
    · cases h
  range := by
    intro n i h
    simp only [fs0] at h ⊢
    split at h
    · cases h; omega
    · cases h
  inj := by
    intro a b i ha hb
    simp only [fs0] at ha hb
    split at ha
    · split at hb
      · next h1 h2 => rw [h1, h2]
      · cases hb
    · cases ha

example : SafeCommitTrace ix tocOld tocNew tmpN fs0 tr = true := by decide
example : CompleteCommit ix tocOld tocNew tmpN fs0 tr = true := by decide
example : CleansOrphans ix tocNew fs0 tr = true := by decide
example : SafeCancelTrace ix tocOld fs0 (tr.take 3) = true := by decide
/-- the protocol predicate rejects the mis-ordered trace, and there the conclusion indeed fails:
    a crash right after the rename leaves a TOC whose segment file is torn. -/
example : SafeCommitTrace ix tocOld tocNew tmpN fs0 trBad = false := by decide
example : readable (crash (run fs0 (trBad.take 7)) fun _ => 0) tocNew = false := by decide
/-- instantiation of the theorem at a crash inside the TOC temp file and right after the rename -/
example : readToc ix (crash (run fs0 (tr.take 6)) fun _ => 3) = .ok tocOld :=
  (crash_atomic ix tocOld tocNew tmpN fs0 tr consistent0 (by decide) 6 _).2.1
example : readToc ix (crash (run fs0 (tr.take 8)) fun _ => 0) = .ok tocNew :=
  (crash_atomic ix tocOld tocNew tmpN fs0 tr consistent0 (by decide) 8 _).2.1

/-! junk left by a crash is really deleted by the next commit: the writer of `tr` dies after
writing (and not closing) its segment file; the next writer commits another segment and its
clean-up pass removes the torn orphan -/
def fsCrashed : FS := crash (run fs0 (tr.take 2)) fun _ => 40
def segFile2 : Name := ['M', '_', 'b', '.', 's', 'e', 'g']
def tocNew2 : Toc := ⟨1, 0, [⟨['M', '_', 'b'], [segFile2], []⟩]⟩
def tmpN2 : Name := ['_', 'M', '_', '1', '.', 't', 'o', 'c', '.', '8']
def tr2 : List Event :=
  [.create segFile2, .write segFile2 70, .close segFile2,
   .create tmpN2, .setToc tmpN2 tocNew2, .write tmpN2 50, .close tmpN2,
   .rename tmpN2 toc1, .delete toc0, .delete segFile]

/-- the orphan is there after the crash (torn, 40 of its 100 bytes) … -/
example : (fsCrashed.file? segFile).map (fun d => (d.len, d.st)) = some (40, .torn) := by decide
example : CompleteCommit ix tocOld tocNew2 tmpN2 fsCrashed tr2 = true := by decide
example : CleansOrphans ix tocNew2 fsCrashed tr2 = true := by decide
/-- … and gone after the next commit, which `next_commit` says for every such trace -/
example : (run fsCrashed tr2).listing.contains segFile = false := by decide
example : Clean ix tocNew2 (run fsCrashed tr2) :=
  (next_commit ix tocOld tocNew tmpN fs0 tr consistent0 (by decide) 2 (fun _ => 40) tocNew2 tmpN2 tr2
    (by decide) (by decide)).2.2.2
/-- without the clean-up pass the predicate says no (and the orphan would stay) -/
example : CleansOrphans ix tocNew2 fsCrashed (tr2.take 9) = false := by decide

end Example

end WM.C02
