import WM.Model.FS
import WM.Lemmas.FSRun
import WM.Model.FSCodec
import WM.Lemmas.FSCodec
/-!
C02 — a commit is atomic with respect to process crashes.

All theorems quantify over *every* storage trace accepted by the decidable protocol predicates of
`WM/Model/FS.lean` (`SafeCommitTrace`, `SafeCancelTrace`, `CleansOrphans`); the check evaluates the
same definitions, through the compiled driver, on traces logged from the real writer.
-/
namespace WM.C02
open WM.FS

/-- the committed state after the first `k` events of a commit trace. -/
def stateAt (old new : Toc) (tr : List Event) (k : Nat) : Toc :=
  if renamed (tr.take k) then new else old

theorem consistent_at {ix : Name} {old new : Toc} {tmp : Name} {fs0 : FS} {tr : List Event}
    (hc : Consistent ix old fs0) (hs : SafeCommitTrace ix old new tmp fs0 tr = true)
    (k : Nat) (τ : Nat → Nat) :
    Consistent ix (stateAt old new tr k) (crash (run fs0 (tr.take k)) τ) := by
  unfold SafeCommitTrace at hs
  cases hr : chkRun ix old new (some tmp) ⟨fs0, .pre⟩ tr with
  | none => rw [hr] at hs; cases hs
  | some c' =>
    obtain ⟨ck, h1, h2, h3⟩ := chkRun_take (inv_init hc) hr k
    have hph := chkRun_phase h1
    simp only at h2
    have hholds : Holds ix ck.fs (stateAt old new tr k) := by
      unfold stateAt
      by_cases hren : renamed (tr.take k) = true
      · rw [if_pos hren]; exact h3.post (hph.2 (Or.inr hren))
      · rw [if_neg hren]
        apply h3.pre
        intro hp
        rcases hph.1 hp with h | h
        · cases h
        · exact hren h
    rw [← h2]
    have hcr := holds_crash hholds τ
    have hwf := crash_wf h3.wf τ
    obtain ⟨r1, r2⟩ := holds_readToc hwf hcr
    exact ⟨r1, r2, crash_noWriting _ τ, hwf.support, hwf.range, hwf.inj⟩

/-- **C02.crash_atomic.**  From a consistent directory, for every trace that follows the commit
    protocol, every crash point `k` and every truncation `τ` of the files still open: re-opening
    yields exactly the old TOC (before the rename) or exactly the new one (after it), and every
    file that TOC references is present and complete. -/
theorem crash_atomic (ix : Name) (old new : Toc) (tmp : Name) (fs0 : FS) (tr : List Event)
    (hc : Consistent ix old fs0) (hs : SafeCommitTrace ix old new tmp fs0 tr = true)
    (k : Nat) (τ : Nat → Nat) :
    let fs' := crash (run fs0 (tr.take k)) τ
    (readToc ix fs' = .ok old ∨ readToc ix fs' = .ok new) ∧
    readToc ix fs' = .ok (stateAt old new tr k) ∧
    readable fs' (stateAt old new tr k) = true := by
  have h := consistent_at hc hs k τ
  refine ⟨?_, h.toc, h.readable⟩
  rw [h.toc]
  unfold stateAt
  split <;> simp

/-- **C02.cancel.**  A writer that never publishes a TOC (cancel, failing with-block, death before
    the TOC) leaves the old state at every point. -/
theorem cancel (ix : Name) (old : Toc) (fs0 : FS) (tr : List Event)
    (hc : Consistent ix old fs0) (hs : SafeCancelTrace ix old fs0 tr = true)
    (k : Nat) (τ : Nat → Nat) :
    Consistent ix old (crash (run fs0 (tr.take k)) τ) := by
  unfold SafeCancelTrace at hs
  cases hr : chkRun ix old old none ⟨fs0, .pre⟩ tr with
  | none => rw [hr] at hs; cases hs
  | some c' =>
    obtain ⟨ck, h1, h2, h3⟩ := chkRun_take (inv_init hc) hr k
    have hph := chkRun_cancel_phase h1 rfl
    simp only at h2
    rw [← h2]
    have hcr := holds_crash (h3.pre (by rw [hph]; decide)) τ
    have hwf := crash_wf h3.wf τ
    obtain ⟨r1, r2⟩ := holds_readToc hwf hcr
    exact ⟨r1, r2, crash_noWriting _ τ, hwf.support, hwf.range, hwf.inj⟩

/-- **C02.commit.**  A whole commit that follows the protocol publishes exactly `new`, readable,
    one generation after `old` (no crash involved). -/
theorem commit (ix : Name) (old new : Toc) (tmp : Name) (fs0 : FS) (tr : List Event)
    (hc : Consistent ix old fs0) (hs : CompleteCommit ix old new tmp fs0 tr = true) :
    readToc ix (run fs0 tr) = .ok new ∧ readable (run fs0 tr) new = true ∧
    new.gen = old.gen + 1 := by
  unfold CompleteCommit at hs
  cases hr : chkRun ix old new (some tmp) ⟨fs0, .pre⟩ tr with
  | none => rw [hr] at hs; cases hs
  | some c' =>
    rw [hr] at hs
    have hp : c'.phase = .post := by simpa using hs
    obtain ⟨ck, h1, h2, h3⟩ := chkRun_take (inv_init hc) hr tr.length
    rw [List.take_length] at h1 h2
    rw [hr] at h1; cases h1
    simp only at h2
    rw [← h2]
    obtain ⟨r1, r2⟩ := holds_readToc h3.wf (h3.post hp)
    exact ⟨r1, r2, h3.gen hp⟩

/-- What "no orphan is left" means: every listed name that does not start with a dot is the
    current TOC or is not a TOC, and if the segment pattern matches it, its segment is referenced. -/
def Clean (ix : Name) (t : Toc) (fs : FS) : Prop :=
  ∀ n ∈ fs.listing, startsWithDot n = false →
    (∀ g, tocGen ix n = some g → g = t.gen) ∧
    (tocGen ix n = none → ∀ s, segOf ix n = some s → s ∈ t.sids)

/-- **C02.orphans_removed.**  Whatever a crashed commit left behind (any prefix, any truncation),
    the directory is a consistent starting point for the next writer, and when that writer's
    whole commit follows the protocol and performs the `clean_files` pass, no TOC of another
    generation and no file of an unreferenced segment is left. -/
theorem orphans_removed (ix : Name) (old new : Toc) (tmp : Name) (fs0 : FS) (tr : List Event)
    (hc : Consistent ix old fs0) (hs : SafeCommitTrace ix old new tmp fs0 tr = true)
    (k : Nat) (τ : Nat → Nat) :
    let fs1 := crash (run fs0 (tr.take k)) τ
    Consistent ix (stateAt old new tr k) fs1 ∧
    ∀ (new2 : Toc) (tr2 : List Event),
      CleansOrphans ix new2 fs1 tr2 = true → Clean ix new2 (run fs1 tr2) := by
  refine ⟨consistent_at hc hs k τ, ?_⟩
  intro new2 tr2 hcl n hn hdot
  unfold CleansOrphans at hcl
  simp only [Bool.and_eq_true, Bool.not_eq_true', List.all_eq_true, List.any_eq_false] at hcl
  obtain ⟨⟨⟨hren, hdel⟩, hnc⟩, hnr⟩ := hcl
  have hsplit := split_at_rename tr2 hren
  rw [hsplit, run_append] at hn
  obtain ⟨h1, h2⟩ := listed_after_quiet _ (afterRename tr2)
    (fun e he => ⟨by simpa using hnc e he, by simpa using hnr e he⟩) n hn
  have hnot : n ∉ cleanFiles ix new2.gen new2.sids
      (run (crash (run fs0 (tr.take k)) τ) (uptoRename tr2)).listing := by
    intro hmem
    have := hdel n hmem
    simp only [List.contains_iff_mem] at this
    exact h2 (by simpa using this)
  simp only [cleanFiles, List.mem_filter, not_and] at hnot
  have hf := hnot h1
  rw [hdot] at hf
  simp only [Bool.false_eq_true, if_false] at hf
  constructor
  · intro g hg
    rw [hg] at hf
    simpa using hf
  · intro hg s hs
    rw [hg, hs] at hf
    simpa using hf

/-- **C02.next_commit.**  `orphans_removed` and `commit` in one statement: after any crashed prefix
    (any truncation), a later writer whose whole commit follows the protocol from the surviving
    directory and performs the clean-up pass publishes exactly its new TOC, readable, one
    generation on — and leaves no stale TOC and no file of an unreferenced segment.
    (A leaked TOC temp file `_<ix>_<n>.toc.<time>` matches neither pattern: `clean_files` never
    removes it and `Clean` does not speak about it; the property only names segment files.) -/
theorem next_commit (ix : Name) (old new : Toc) (tmp : Name) (fs0 : FS) (tr : List Event)
    (hc : Consistent ix old fs0) (hs : SafeCommitTrace ix old new tmp fs0 tr = true)
    (k : Nat) (τ : Nat → Nat) (new2 : Toc) (tmp2 : Name) (tr2 : List Event) :
    let fs1 := crash (run fs0 (tr.take k)) τ
    CompleteCommit ix (stateAt old new tr k) new2 tmp2 fs1 tr2 = true →
    CleansOrphans ix new2 fs1 tr2 = true →
    readToc ix (run fs1 tr2) = .ok new2 ∧ readable (run fs1 tr2) new2 = true ∧
    new2.gen = (stateAt old new tr k).gen + 1 ∧ Clean ix new2 (run fs1 tr2) := by
  intro fs1 hcc hcl
  obtain ⟨hcons, hclean⟩ := orphans_removed ix old new tmp fs0 tr hc hs k τ
  obtain ⟨r1, r2, r3⟩ := commit ix _ new2 tmp2 fs1 tr2 hcons hcc
  exact ⟨r1, r2, r3, hclean new2 tr2 hcl⟩

/-- **C02.committed_files_untouched.**  What the protocol predicates demand of in-place changes: a
    trace that deletes the committed TOC or any file of a segment it references *before* the TOC
    rename (e.g. a schema change that drops a removed field's column file of the existing loose segments
    at once) is rejected, whatever comes before and after — by `SafeCommitTrace` and by
    `SafeCancelTrace`.  (Such a delete is exactly what would make a crash, or a cancel, leave a mixture:
    the old TOC with a segment whose file is gone, see the `example` below.) -/
theorem committed_files_untouched (ix : Name) (old new : Toc) (tmp : Option Name) (c : Chk)
    (hc : c.phase ≠ .post) (pre post : List Event) (n : Name)
    (hn : n = tocName ix old.gen ∨ n ∈ old.files) (hnr : renamed pre = false) :
    chkRun ix old new tmp c (pre ++ .delete n :: post) = none := by
  induction pre generalizing c with
  | nil =>
    have : okEvent ix old new tmp c (.delete n) = none := by
      simp only [okEvent]
      cases hp : c.phase with
      | post => exact absurd hp hc
      | pre => rcases hn with h | h <;> simp [h]
      | tmpOpen => rcases hn with h | h <;> simp [h]
      | tmpClosed => rcases hn with h | h <;> simp [h]
    simp [chkRun, chkStep, this]
  | cons e es ih =>
    simp only [List.cons_append, chkRun]
    cases hs : chkStep ix old new tmp c e with
    | none => rfl
    | some c1 =>
      simp only
      have hes : renamed es = false ∧ ¬ ∃ a b, e = Event.rename a b := by
        cases e <;> simp_all [renamed]
      apply ih c1 _ hes.1
      intro h1
      rcases (chkStep_phase hs).1 h1 with h | h
      · exact hc h
      · exact hes.2 h

theorem committed_files_untouched_commit (ix : Name) (old new : Toc) (tmp : Name) (fs0 : FS)
    (pre post : List Event) (n : Name) (hn : n = tocName ix old.gen ∨ n ∈ old.files)
    (hnr : renamed pre = false) :
    SafeCommitTrace ix old new tmp fs0 (pre ++ .delete n :: post) = false ∧
    SafeCancelTrace ix old fs0 (pre ++ .delete n :: post) = false := by
  simp [SafeCommitTrace, SafeCancelTrace,
    committed_files_untouched ix old new (some tmp) ⟨fs0, .pre⟩ (by simp) pre post n hn hnr,
    committed_files_untouched ix old old none ⟨fs0, .pre⟩ (by simp) pre post n hn hnr]

/-- **C02.pattern.**  The temp name `"%s.%s" % (tocfilename, time())` is never matched by the TOC
    pattern (whatever follows the dot), while the final name is, with its own generation; the lock
    file and the temp-storage directory are never matched by the segment pattern. -/
theorem pattern (ix : Name) (g : Nat) (t : List Char) :
    tocGen ix (tocName ix g ++ '.' :: t) = none ∧
    tocGen ix (tocName ix g) = some g ∧
    segOf ix (ix ++ ['_', 'W', 'R', 'I', 'T', 'E', 'L', 'O', 'C', 'K']) = none ∧
    segOf ix (ix ++ ['.', 't', 'm', 'p']) = none := by
  refine ⟨tocGen_tmp ix g t, tocGen_tocName ix g, ?_, ?_⟩
  · unfold segOf
    have : ix ++ ['_', 'W', 'R', 'I', 'T', 'E', 'L', 'O', 'C', 'K']
        = (ix ++ ['_']) ++ ['W', 'R', 'I', 'T', 'E', 'L', 'O', 'C', 'K'] := by simp
    rw [this, stripPrefix_append]
    have h1 : List.takeWhile isSegIdChar ['W', 'R', 'I', 'T', 'E', 'L', 'O', 'C', 'K'] = [] := by decide
    simp [h1]
  · unfold segOf
    rw [stripPrefix_mismatch ix ['t', 'm', 'p'] [] '_' '.' (by decide)]

/-! ### The codec's file list and the leaked TOC temp file -/

/-- **C02.segFiles_segOf.**  Every file of a W3 segment — as named by the codec itself
    (`segFiles`: `<id>.seg`, or `.trm`, `.pst`, one `.<field>.col` per column, `.vps`), for *any*
    column names — is recognised by the segment pattern `clean_files` uses, with its own segment id. -/
theorem segFiles_segOf (ix segid : Name) (sh : SegShape) (hg : goodSegid segid = true) :
    ∀ f ∈ segFiles (segmentId ix segid) sh, segOf ix f = some (segmentId ix segid) := by
  intro f hf
  obtain ⟨rest, rfl⟩ := mem_segFiles_form _ sh f hf
  exact segOf_segmentId_dot ix segid rest hg

/-- with the pattern as it was before the round-3 repair this is false: the column file of a field
    named `é…` (or `-x`, `名前`, …) of a loose segment was never recognised, hence never cleaned -/
example : segOfOld ['M'] (columnFilename (segmentId ['M'] ['a']) ['é', 't']) = none := by decide
example : segOf ['M'] (columnFilename (segmentId ['M'] ['a']) ['é', 't']) = some ['M', '_', 'a'] :=
  segFiles_segOf ['M'] ['a'] ⟨false, [['é', 't']], false⟩ (by decide) _ (by decide)

/-- **C02.clean_codec.**  `clean_files` against the codec's file list: a file of a segment is deleted
    exactly when it is in the listing and its segment is not referenced by the new TOC — so the
    clean-up pass never removes a file of a referenced segment (which `SafeCommitTrace` demands of the
    deletes after the rename) and removes every file of an unreferenced one (`Clean`). -/
theorem clean_codec (ix segid : Name) (sh : SegShape) (gen : Nat) (sids listing : List Name)
    (hix : GoodIx ix) (hg : goodSegid segid = true) :
    ∀ f ∈ segFiles (segmentId ix segid) sh,
      (f ∈ cleanFiles ix gen sids listing ↔ f ∈ listing ∧ segmentId ix segid ∉ sids) := by
  intro f hf
  have hseg := segFiles_segOf ix segid sh hg f hf
  obtain ⟨rest, rfl⟩ := mem_segFiles_form _ sh f hf
  have hname : segmentId ix segid ++ '.' :: rest = ix ++ ('_' :: segid ++ '.' :: rest) := by
    simp [segmentId]
  have htoc : tocGen ix (segmentId ix segid ++ '.' :: rest) = none := by
    rw [hname]; exact tocGen_of_goodIx hix _
  have hdot : startsWithDot (segmentId ix segid ++ '.' :: rest) = false := by
    rw [hname]; exact startsWithDot_of_goodIx hix _
  simp [cleanFiles, List.mem_filter, hdot, htoc, hseg]

/-- **C02.toc_tmp_leaks.**  What happens to a TOC temp file `_<ix>_<g>.toc.<time>` that a writer which
    died between creating it and renaming it left behind: (1) readers never take it for a TOC
    (`pattern`), (2) no `clean_files` pass — whatever generation, segments and listing — selects it, and
    (3) it is still in the directory after any later writer activity whose deletes only hit names one of
    the two patterns matches or files of the temp storage `<ix>.tmp/…` (what `clean_files`,
    `create_compound_file` and the per-document writer's temp storage delete; checked on every later
    writer's real trace) and which renames only other names (its own fresh temp file).  So it leaks for
    ever; it is harmless to every reader and writer, and the property text only promises the removal of
    orphaned *segment* files (`next_commit`). -/
theorem toc_tmp_leaks (ix : Name) (hix : GoodIx ix) (g : Nat) (t : List Char) :
    let n := tocName ix g ++ '.' :: t
    tocGen ix n = none ∧
    (∀ gen sids listing, n ∉ cleanFiles ix gen sids listing) ∧
    (∀ (fs : FS) (tr2 : List Event), n ∈ fs.listing →
      (∀ m, Event.delete m ∈ tr2 → (tocGen ix m).isSome ∨ (segOf ix m).isSome ∨
        (stripPrefix (ix ++ ['.', 't', 'm', 'p']) m).isSome) →
      (∀ a b, Event.rename a b ∈ tr2 → a ≠ n) →
      n ∈ (run fs tr2).listing) := by
  intro n
  have h1 : tocGen ix n = none := tocGen_tmp ix g t
  have h2 : segOf ix n = none := by
    show segOf ix (tocName ix g ++ '.' :: t) = none
    unfold tocName
    exact segOf_underscore hix _
  have h3 : stripPrefix (ix ++ ['.', 't', 'm', 'p']) n = none := by
    obtain ⟨c, cs, rfl, hc, _⟩ := hix
    show stripPrefix _ (tocName (c :: cs) g ++ '.' :: t) = none
    unfold tocName
    simp only [List.cons_append, stripPrefix]
    rw [if_neg hc]
  refine ⟨h1, ?_, ?_⟩
  · intro gen sids listing hmem
    simp only [cleanFiles, List.mem_filter] at hmem
    obtain ⟨_, hsel⟩ := hmem
    rw [h1, h2] at hsel
    split at hsel <;> simp at hsel
  · intro fs tr2 hl hdel hren
    apply run_keeps_bound fs tr2 n _ hl
    intro e he
    cases e with
    | delete m =>
      simp only [touchesName, beq_eq_false_iff_ne, ne_eq]
      intro hmn
      subst hmn
      rcases hdel _ he with h | h | h
      · rw [h1] at h; cases h
      · rw [h2] at h; cases h
      · rw [h3] at h; cases h
    | rename a b =>
      simp only [touchesName, beq_eq_false_iff_ne, ne_eq]
      exact hren a b he
    | _ => rfl

/-! ### A concrete instance (non-vacuity of the hypotheses) -/
namespace Example

def ix : Name := ['M']
def segFile : Name := ['M', '_', 'a', '.', 's', 'e', 'g']
def toc0 : Name := ['_', 'M', '_', '0', '.', 't', 'o', 'c']
def toc1 : Name := ['_', 'M', '_', '1', '.', 't', 'o', 'c']
def tmpN : Name := ['_', 'M', '_', '1', '.', 't', 'o', 'c', '.', '9']
def tocOld : Toc := ⟨0, 0, []⟩
def tocNew : Toc := ⟨1, 0, [⟨['M', '_', 'a'], [segFile], []⟩]⟩
def fs0 : FS :=
  { names := [toc0]
    dir := fun n => if n = toc0 then some 0 else none
    data := fun _ => ⟨10, .complete, some tocOld⟩
    next := 1 }
/-- the storage events of a one-segment commit, in the order the real writer issues them -/
def tr : List Event :=
  [.create segFile, .write segFile 100, .close segFile,
   .create tmpN, .setToc tmpN tocNew, .write tmpN 50, .close tmpN,
   .rename tmpN toc1, .delete toc0]
/-- the same events with the segment file closed only after the TOC is in place -/
def trBad : List Event :=
  [.create segFile, .write segFile 100,
   .create tmpN, .setToc tmpN tocNew, .write tmpN 50, .close tmpN,
   .rename tmpN toc1, .close segFile, .delete toc0]

theorem consistent0 : Consistent ix tocOld fs0 where
  toc := by rfl
  readable := by decide
  noWriting := by intro i; simp [fs0]
  support := by
    intro n h
    simp only [fs0] at h ⊢
    split at h
    · next hn => simp [hn]
    · cases h
  range := by
    intro n i h
    simp only [fs0] at h ⊢
    split at h
    · cases h; omega
    · cases h
  inj := by
    intro a b i ha hb
    simp only [fs0] at ha hb
    split at ha
    · split at hb
      · next h1 h2 => rw [h1, h2]
      · cases hb
    · cases ha

example : SafeCommitTrace ix tocOld tocNew tmpN fs0 tr = true := by decide
example : CompleteCommit ix tocOld tocNew tmpN fs0 tr = true := by decide
example : CleansOrphans ix tocNew fs0 tr = true := by decide
example : SafeCancelTrace ix tocOld fs0 (tr.take 3) = true := by decide
/-- the protocol predicate rejects the mis-ordered trace, and there the conclusion indeed fails:
    a crash right after the rename leaves a TOC whose segment file is torn. -/
example : SafeCommitTrace ix tocOld tocNew tmpN fs0 trBad = false := by decide
example : readable (crash (run fs0 (trBad.take 7)) fun _ => 0) tocNew = false := by decide
/-- instantiation of the theorem at a crash inside the TOC temp file and right after the rename -/
example : readToc ix (crash (run fs0 (tr.take 6)) fun _ => 3) = .ok tocOld :=
  (crash_atomic ix tocOld tocNew tmpN fs0 tr consistent0 (by decide) 6 _).2.1
example : readToc ix (crash (run fs0 (tr.take 8)) fun _ => 0) = .ok tocNew :=
  (crash_atomic ix tocOld tocNew tmpN fs0 tr consistent0 (by decide) 8 _).2.1

/-! junk left by a crash is really deleted by the next commit: the writer of `tr` dies after
writing (and not closing) its segment file; the next writer commits another segment and its
clean-up pass removes the torn orphan -/
def fsCrashed : FS := crash (run fs0 (tr.take 2)) fun _ => 40
def segFile2 : Name := ['M', '_', 'b', '.', 's', 'e', 'g']
def tocNew2 : Toc := ⟨1, 0, [⟨['M', '_', 'b'], [segFile2], []⟩]⟩
def tmpN2 : Name := ['_', 'M', '_', '1', '.', 't', 'o', 'c', '.', '8']
def tr2 : List Event :=
  [.create segFile2, .write segFile2 70, .close segFile2,
   .create tmpN2, .setToc tmpN2 tocNew2, .write tmpN2 50, .close tmpN2,
   .rename tmpN2 toc1, .delete toc0, .delete segFile]

/-- the orphan is there after the crash (torn, 40 of its 100 bytes) … -/
example : (fsCrashed.file? segFile).map (fun d => (d.len, d.st)) = some (40, .torn) := by decide
example : CompleteCommit ix tocOld tocNew2 tmpN2 fsCrashed tr2 = true := by decide
example : CleansOrphans ix tocNew2 fsCrashed tr2 = true := by decide
/-- … and gone after the next commit, which `next_commit` says for every such trace -/
example : (run fsCrashed tr2).listing.contains segFile = false := by decide
example : Clean ix tocNew2 (run fsCrashed tr2) :=
  (next_commit ix tocOld tocNew tmpN fs0 tr consistent0 (by decide) 2 (fun _ => 40) tocNew2 tmpN2 tr2
    (by decide) (by decide)).2.2.2
/-- a writer that dies with its TOC temp file open leaves it behind, the next commit (which does
    clean up the orphaned segment file) does not remove it: `toc_tmp_leaks` instantiated -/
def fsCrashedTmp : FS := crash (run fs0 (tr.take 6)) fun _ => 3
def tmpN3 : Name := ['_', 'M', '_', '1', '.', 't', 'o', 'c', '.', '7']
def tr3 : List Event :=
  [.create segFile2, .write segFile2 70, .close segFile2,
   .create tmpN3, .setToc tmpN3 tocNew2, .write tmpN3 50, .close tmpN3,
   .rename tmpN3 toc1, .delete toc0, .delete segFile]
example : CompleteCommit ix tocOld tocNew2 tmpN3 fsCrashedTmp tr3 = true := by decide
example : CleansOrphans ix tocNew2 fsCrashedTmp tr3 = true := by decide
example : (run fsCrashedTmp tr3).listing.contains tmpN = true := by decide
example : tmpN ∈ (run fsCrashedTmp tr3).listing :=
  (toc_tmp_leaks ix ⟨'M', [], rfl, by decide, by decide⟩ 1 ['9']).2.2 fsCrashedTmp tr3 (by decide)
    (by intro m hm
        simp only [tr3, List.mem_cons, List.not_mem_nil, or_false, reduceCtorEq, false_or,
          Event.delete.injEq] at hm
        rcases hm with rfl | rfl <;> decide)
    (by intro a b hm
        simp only [tr3, List.mem_cons, List.not_mem_nil, or_false, reduceCtorEq, false_or,
          Event.rename.injEq] at hm
        rw [hm.1]; decide)
/-- `clean_codec` on the orphan of the example above: selected because its segment is unreferenced -/
example : segFile ∈ cleanFiles ix 1 tocNew2.sids fsCrashed.listing :=
  (clean_codec ix ['a'] ⟨true, [], false⟩ 1 tocNew2.sids fsCrashed.listing
    ⟨'M', [], rfl, by decide, by decide⟩ (by decide) segFile (by decide)).2 ⟨by decide, by decide⟩

/-- without the clean-up pass the predicate says no (and the orphan would stay) -/
example : CleansOrphans ix tocNew2 fsCrashed (tr2.take 9) = false := by decide

/-! `committed_files_untouched` on a concrete instance: after the commit above, a writer that deletes the
    committed segment file before publishing anything is rejected (as a commit prefix and as a cancel),
    and a crash right after that delete really leaves a mixture — the TOC read back is the committed
    one, but it is not readable any more. -/
def fs1 : FS := run fs0 tr
example : SafeCancelTrace ix tocNew fs1 [.other, .delete segFile] = false :=
  (committed_files_untouched_commit ix tocNew tocNew tmpN fs1 [.other] [] segFile
    (Or.inr (by decide)) (by decide)).2
example : SafeCancelTrace ix tocNew fs1 [.other, .delete segFile] = false := by decide
example : readToc ix (crash (run fs1 [.other, .delete segFile]) fun _ => 0) = .ok tocNew ∧
    readable (crash (run fs1 [.other, .delete segFile]) fun _ => 0) tocNew = false ∧
    readable (crash (run fs1 [.other]) fun _ => 0) tocNew = true := ⟨by rfl, by decide, by decide⟩

end Example

end WM.C02
