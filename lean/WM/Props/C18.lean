import WM.Lemmas.IndexMp
import WM.Lemmas.IndexBuffered
/-!
# C18 — writer front-ends are interchangeable

`mp`: MpWriter / SerialMpWriter (any assignment of documents to sub-writers, merged or
multi-segment), `buffered`: BufferedWriter, `async`: AsyncWriter.  Storage back-ends do not appear
in the model (files are abstracted); they are compared end to end by the check.
-/
namespace WM.C18
open WM.Dict WM.Index

/-- `subOf` is what running the sub-writer gives (documents of the schema are never rejected). -/
theorem subWriter_eq (sc : Schema) (ds : List DocRec) (h : ∀ d ∈ ds, d.fits sc = true) :
    ∃ w, subWriter sc ds = .ok w ∧ w.schema = sc ∧ w.ndocs = (subOf sc ds).ndocs ∧ w.pool = (subOf sc ds).pool :=
  let ⟨w, h1, h2, h3, h4, _⟩ := subWriter_ok sc ds h
  ⟨w, h1, h2, h3, h4⟩

/-- **mp (merged).** For *every* assignment of the added documents to sub-writers (`assign`, one
list per sub-writer in arrival order — i.e. every outcome of the scheduling and batching, empty
sub-writers included) the commit succeeds, writes a well-formed TOC and the index holds the old
content plus exactly the added documents. -/
theorem mp (w : Writer) (hwf : w.WF) (hfits : ∀ d ∈ w.ndocs, d.fits w.schema = true)
    (hna : w.added = false → w.ndocs = []) (plan : Plan) (hplan : PlanOK plan)
    (assign : List (List DocRec)) (hfit : ∀ ds ∈ assign, ∀ d ∈ ds, d.fits w.schema = true) :
    ∃ t', w.mpCommit (assign.map (subOf w.schema)) plan = .ok t' ∧ t'.WF ∧ t'.schema = w.schema ∧
      t'.content.Perm (contentOf w.schema w.segs ++ w.ndocs ++ assign.flatten) := by
  obtain ⟨w1, h1, wf1⟩ := Writer.addReaders_ok w (plan w.segs).1 hwf
    (fun s hs => hwf.segs s (hplan.sub _ s (Or.inl hs)))
  obtain ⟨b1, b2, b3, b4, b5⟩ := Writer.addReaders_fields w _ w1 h1
  have hna1 : w1.added = false → w1.ndocs = [] := by
    intro h
    rw [b4] at h
    simp only [Bool.or_eq_false_iff, Bool.not_eq_false', List.isEmpty_iff] at h
    rw [b5, hna h.1, h.2]; simp [contentOf]
  have hsub : ∀ s ∈ assign.map (subOf w.schema), s.pool = allPostings s.ndocs := by
    intro s hs
    simp only [List.mem_map] at hs
    obtain ⟨ds, _, rfl⟩ := hs
    rfl
  obtain ⟨fwf, fdocs, fdel⟩ := Writer.mpFinal_spec w1 (assign.map (subOf w.schema)) wf1 hna1 hsub
  refine ⟨_, by unfold Writer.mpCommit; simp only [h1, Except.map]; rfl, ?_, b1, ?_⟩
  · intro s hs
    simp only [List.mem_append, List.mem_singleton] at hs
    rcases hs with hs | rfl
    · exact hwf.segs s (hplan.sub _ s (Or.inr hs))
    · exact fwf
  · simp only [Toc.content, contentOf_append, b1]
    have hfin : contentOf w.schema [w1.mpFinal (assign.map (subOf w.schema))]
        = w.ndocs ++ contentOf w.schema (plan w.segs).1 ++ assign.flatten := by
      rw [contentOf_singleton, Seg.liveDocs_of_no_deletions _ fdel, fdocs, flatten_subOf, b5, List.map_append,
        List.map_append]
      rw [map_restrict_of_fits _ _ hfits, map_restrict_of_fits _ assign.flatten (by
        intro d hd; obtain ⟨ds, hds, hd'⟩ := List.mem_flatten.mp hd; exact hfit ds hds d hd'),
        contentOf_restrict]
    rw [hfin]
    have h2 := contentOf_perm w.schema (hplan w.segs)
    rw [contentOf_append] at h2
    -- u ++ (n ++ m ++ a)  ~  (m ++ u) ++ n ++ a
    refine List.Perm.trans ?_ ((h2.append_right w.ndocs).append_right assign.flatten)
    simp only [List.append_assoc]
    exact (List.Perm.append_left _ (List.perm_append_comm_assoc _ _ _)).trans (List.perm_append_comm_assoc _ _ _)

/-- **mp (multi-segment).** Adopting the sub-writers' segments instead of merging them gives the
same content, for every assignment. -/
theorem mp_multisegment (w : Writer) (hwf : w.WF) (hfits : ∀ d ∈ w.ndocs, d.fits w.schema = true)
    (hna : w.added = false → w.ndocs = []) (plan : Plan) (hplan : PlanOK plan)
    (assign : List (List DocRec)) (hfit : ∀ ds ∈ assign, ∀ d ∈ ds, d.fits w.schema = true) :
    ∃ t', w.mpCommitMulti (assign.map (subOf w.schema)) plan = .ok t' ∧ t'.WF ∧ t'.schema = w.schema ∧
      t'.content.Perm (contentOf w.schema w.segs ++ w.ndocs ++ assign.flatten) := by
  obtain ⟨w1, h1, wf1⟩ := Writer.addReaders_ok w (plan w.segs).1 hwf
    (fun s hs => hwf.segs s (hplan.sub _ s (Or.inl hs)))
  obtain ⟨b1, b2, b3, b4, b5⟩ := Writer.addReaders_fields w _ w1 h1
  have hsubwf : ∀ ds, (subOf w.schema ds).finalizeSegment.WF := by
    intro ds
    exact Writer.finalizeSegment_wf _ ⟨by intro s hs; simp [subOf] at hs, List.Perm.refl _⟩
  have hsubc : contentOf w.schema ((assign.map (subOf w.schema)).map Writer.finalizeSegment) = assign.flatten := by
    simp only [contentOf, List.map_map, List.flatMap_map]
    induction assign with
    | nil => rfl
    | cons ds r ih =>
      simp only [List.flatMap_cons, List.flatten_cons, Function.comp_def]
      rw [Seg.liveDocs_of_no_deletions _ rfl]
      simp only [Function.comp_def] at ih
      rw [ih (fun x hx => hfit x (by simp [hx]))]
      congr 1
      exact map_restrict_of_fits _ _ (hfit ds (by simp))
  have hown : contentOf w.schema (if w1.added then [w1.finalizeSegment] else [])
      = w.ndocs ++ contentOf w.schema (plan w.segs).1 := by
    by_cases ha : w1.added = true
    · simp only [ha, if_true]
      rw [contentOf_singleton, Seg.liveDocs_of_no_deletions _ rfl]
      simp only [Writer.finalizeSegment, b5, List.map_append]
      rw [map_restrict_of_fits _ _ hfits, contentOf_restrict]
    · have ha' : w1.added = false := by simpa using ha
      have h := ha'
      rw [b4] at h
      simp only [Bool.or_eq_false_iff, Bool.not_eq_false', List.isEmpty_iff] at h
      simp [ha', hna h.1, h.2, contentOf]
  refine ⟨_, by unfold Writer.mpCommitMulti; simp only [h1, Except.map]; rfl, ?_, b1, ?_⟩
  · intro s hs
    simp only [List.mem_append, List.mem_map] at hs
    rcases hs with (hs | ⟨x, hx, rfl⟩) | hs
    · exact hwf.segs s (hplan.sub _ s (Or.inr hs))
    · obtain ⟨ds, _, rfl⟩ := hx
      exact hsubwf ds
    · split at hs
      · simp only [List.mem_singleton] at hs; subst hs; exact Writer.finalizeSegment_wf w1 wf1
      · simp at hs
  · simp only [Toc.content, contentOf_append, b1, hsubc, hown]
    have h2 := contentOf_perm w.schema (hplan w.segs)
    rw [contentOf_append] at h2
    -- u ++ a ++ (n ++ m)  ~  (m ++ u) ++ n ++ a
    refine List.Perm.trans ?_ ((h2.append_right w.ndocs).append_right assign.flatten)
    simp only [List.append_assoc]
    have h3 : (assign.flatten ++ (w.ndocs ++ contentOf w.schema (plan w.segs).1)).Perm
        (contentOf w.schema (plan w.segs).1 ++ (w.ndocs ++ assign.flatten)) := by
      refine List.perm_append_comm.trans ?_
      simp only [List.append_assoc]
      exact List.perm_append_comm_assoc _ _ _
    exact (List.Perm.append_left _ h3).trans (List.perm_append_comm_assoc _ _ _)

/-- Hence the assignment is invisible: two schedules that hand out the same documents (in any
    grouping, any order) give the same content, merged or multi-segment, and the same as the
    plain writer adding them one after the other. -/
theorem mp_assignment_invisible (w : Writer) (hwf : w.WF) (hfits : ∀ d ∈ w.ndocs, d.fits w.schema = true)
    (hna : w.added = false → w.ndocs = []) (plan1 plan2 : Plan) (h1 : PlanOK plan1) (h2 : PlanOK plan2)
    (a1 a2 : List (List DocRec)) (hf1 : ∀ ds ∈ a1, ∀ d ∈ ds, d.fits w.schema = true)
    (hf2 : ∀ ds ∈ a2, ∀ d ∈ ds, d.fits w.schema = true) (hperm : a1.flatten.Perm a2.flatten) :
    ∃ t1 t2, w.mpCommit (a1.map (subOf w.schema)) plan1 = .ok t1 ∧
      w.mpCommitMulti (a2.map (subOf w.schema)) plan2 = .ok t2 ∧ t1.content.Perm t2.content := by
  obtain ⟨t1, e1, _, _, c1⟩ := mp w hwf hfits hna plan1 h1 a1 hf1
  obtain ⟨t2, e2, _, _, c2⟩ := mp_multisegment w hwf hfits hna plan2 h2 a2 hf2
  exact ⟨t1, t2, e1, e2, c1.trans ((List.Perm.append_left _ hperm).trans c2.symm)⟩

/-- **async.** Replaying the recorded calls on the writer obtained later is, by construction, the
    session those calls make on the index as committed at that moment. -/
theorem async (tAtLock : Toc) (events : List Op) (plan : Plan) :
    asyncReplay tAtLock events plan = tAtLock.session events (.commit plan) := rfl

/-- **buffered (adds, flushes, close).** A buffered writer in a consistent state (`BInv`: the
underlying writer has nothing pending, the RAM segment is well-formed, `bufferedcount = 0` only when
the RAM segment is empty) receives any number of `add_document` calls: every call succeeds —
flushing through `add_reader` + `commit` + a new writer whenever the limit is reached —, after
every call the writer's own reader holds exactly what it held before plus the new document
(committed + buffered), and `close()` commits a well-formed index holding all of them. -/
theorem buffered_adds_partial (b : Buffered) (hi : BInv b) (docs : List DocRec)
    (hf : ∀ d ∈ docs, d.fits b.writer.schema = true) :
    (∀ d, d.fits b.writer.schema = true →
      ∃ b1, b.addDocument d = .ok b1 ∧ BInv b1 ∧ b1.content.Perm (b.content ++ [d])) ∧
    ∃ b', docs.foldlM (fun b d => b.addDocument d) b = .ok b' ∧ BInv b' ∧ b'.content.Perm (b.content ++ docs) ∧
      ∃ t, b'.close = .ok t ∧ t.WF ∧ t.content.Perm (b.content ++ docs) := by
  refine ⟨?_, Buffered.adds_close docs b hi hf⟩
  intro d hd
  obtain ⟨b1, h1, hi1, _, _, hc1⟩ := Buffered.addDocument_spec b hi d hd
  exact ⟨b1, h1, hi1, hc1⟩

/-! ### BufferedWriter: the full statement (not proved yet, see the module's PARTIAL entry) -/

/-- what a call on a `BufferedWriter` means on the dictionary: every call sees committed + buffered -/
def flatStep (sp : State) : Op → State
  | .add d => if d.fits sp.schema then { sp with docs := sp.docs ++ [d] } else sp
  | .update d =>
    if d.fits sp.schema then
      { sp with docs := sp.docs.filter (fun c => !sharesUnique (uniqTerms sp.schema d) c) ++ [d] }
    else { sp with docs := sp.docs.filter (fun c => !sharesUnique (uniqTerms sp.schema d) c) }
  | .delBy (.pred p) => { sp with docs := sp.docs.filter (fun c => !p c) }
  | .delBy (.term f t) => { sp with docs := sp.docs.filter (fun c => !c.hasTerm f t) }
  | _ => sp

def Buffered.step (b : Buffered) : Op → Except Err Buffered
  | .add d => b.addDocument d
  | .update d => match b.updateDocument d with
    | (b', none) => .ok b'
    | (_, some e) => .error e
  | .delBy q => (b.deleteByQuery q).map (·.1)
  | .delDoc n => b.deleteDocument n
  | _ => .ok b

/-- `buffered`: at every point of any sequence of add/update/delete-by-query calls (flushes
    happening wherever the limit says) the buffered writer's own reader holds committed + buffered
    = the dictionary, and after `close()` the committed index holds the same. -/
def buffered_full : Prop :=
  ∀ (b : Buffered) (sp : State) (ops : List Op),
    b.writer.WF → b.ram.WF → PlanOK b.plan → b.writer.ndocs = [] → b.writer.added = false →
    (b.count = 0 → b.ram.docs = []) → sp.schema = b.writer.schema → b.content.Perm sp.docs →
    (∀ op ∈ ops, match op with | .add _ | .delBy (.pred _) => True | _ => False) →
    ∃ b', ops.foldlM Buffered.step b = .ok b' ∧ b'.content.Perm (ops.foldl flatStep sp).docs ∧
      ∃ t, b'.close = .ok t ∧ t.content.Perm (ops.foldl flatStep sp).docs

/-! ### non-vacuity -/

namespace Ex
def sc : Schema := { fields := [0], uniques := [] }
def doc (key t : Nat) : DocRec :=
  { key := key, fields := [{ fld := 0, stored := some key, toks := [⟨t, 1, 0⟩, ⟨t + 1, 2, 0⟩], len := 3, col := none,
                             vec := none, ukey := none }] }
def seg : Seg := { docs := [doc 0 3, doc 1 3], posts := [⟨0, 3, 0, 1, 0⟩, ⟨0, 3, 1, 1, 0⟩, ⟨0, 4, 0, 2, 0⟩, ⟨0, 4, 1, 2, 0⟩],
                   deleted := [1] }
def w : Writer := { schema := sc, segs := [seg], gen := 1, ndocs := [], pool := [], added := false }
theorem w_wf : w.WF :=
  ⟨by intro s hs; simp only [w, List.mem_singleton] at hs; subst hs; exact ⟨by decide, by decide, by decide, by decide⟩,
   by decide⟩
end Ex

/-- the hypotheses of `mp` hold for a writer over a segment with a deletion and three documents
    dealt to three sub-writers, one of which gets nothing; the merged segment numbers them 1, 2, 3
    after the copied live document -/
example : Ex.w.WF ∧ (∀ ds ∈ [[Ex.doc 5 7], [], [Ex.doc 6 7, Ex.doc 7 9]], ∀ d ∈ ds, d.fits Ex.w.schema = true) ∧
    ((Ex.w.mpCommit ([[Ex.doc 5 7], [], [Ex.doc 6 7, Ex.doc 7 9]].map (subOf Ex.sc)) planOptimize).toOption.map
        (fun t => t.segs.map (fun s => s.docs.map (·.key)))) = some [[0, 5, 6, 7]] :=
  ⟨Ex.w_wf, by decide, by decide⟩

/-- `BInv` is inhabited: a buffered writer opened on the index of `Ex.w`, limit 2, one document
    already buffered -/
example : BInv { writer := Ex.w, ram := { docs := [Ex.doc 9 5], posts := [⟨0, 5, 0, 1, 0⟩, ⟨0, 6, 0, 2, 0⟩], deleted := [] },
                 count := 1, limit := 2, plan := planMergeSmall } :=
  ⟨Ex.w_wf, ⟨by decide, by decide, by decide, by decide⟩, rfl, by decide, rfl, rfl, by decide, planMergeSmall_ok⟩

end WM.C18
