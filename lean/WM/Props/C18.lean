import WM.Lemmas.IndexMp
import WM.Lemmas.IndexBuffered
import WM.Lemmas.IndexStorage
/-!
# C18 — writer front-ends are interchangeable

`mp`: MpWriter / SerialMpWriter (any assignment of documents to sub-writers, merged or
multi-segment), `buffered`: BufferedWriter, `async`: AsyncWriter.  Storage back-ends do not appear
in the model (files are abstracted); they are compared end to end by the check.
-/
namespace WM.C18
open WM.Dict WM.Index

/-- **The sub-writers.** Running a sub-writer (`subWriter`: `add_document` one by one on an empty
segment writer) on documents of the schema never raises; its per-document data are the documents in
arrival order and its posting pool their postings.  Hence for every assignment the list of
sub-writer results `SubsOf sc assign subs` exists. -/
theorem subWriter_eq (sc : Schema) :
    (∀ ds : List DocRec, (∀ d ∈ ds, d.fits sc = true) →
      ∃ w, subWriter sc ds = .ok w ∧ w.schema = sc ∧ w.ndocs = ds ∧ w.pool = allPostings ds ∧ w.segs = []) ∧
    (∀ assign : List (List DocRec), (∀ ds ∈ assign, ∀ d ∈ ds, d.fits sc = true) → ∃ subs, SubsOf sc assign subs) :=
  ⟨fun ds h => subWriter_ok sc ds h, fun assign h => SubsOf.exist sc assign h⟩

/-- **mp (merged).** For *every* assignment of the added documents to sub-writers (`assign`, one
list per sub-writer in arrival order — i.e. every outcome of the scheduling and batching, empty
sub-writers included) and the writers `subs` the sub-processes produce for it (`SubsOf`: the `i`-th
is the result of running `subWriter` on the `i`-th list), the commit succeeds, writes a well-formed
TOC and the index holds the old content plus exactly the added documents. -/
theorem mp (w : Writer) (hwf : w.WF) (hfits : ∀ d ∈ w.ndocs, d.fits w.schema = true)
    (hna : w.added = false → w.ndocs = []) (plan : Plan) (hplan : PlanOK plan)
    (assign : List (List DocRec)) (hfit : ∀ ds ∈ assign, ∀ d ∈ ds, d.fits w.schema = true)
    (subs : List Writer) (hsubs : SubsOf w.schema assign subs) :
    ∃ t', w.mpCommit subs plan = .ok t' ∧ t'.WF ∧ t'.schema = w.schema ∧
      t'.content.Perm (contentOf w.schema w.segs ++ w.ndocs ++ assign.flatten) := by
  rw [Writer.mpCommit_congr w subs _ (SubsOf.view w.schema assign subs hsubs hfit) plan]
  exact mpCommit_closed w hwf hfits hna plan hplan assign hfit

/-- **mp (multi-segment).** Adopting the sub-writers' segments instead of merging them gives the
same content, for every assignment and the sub-writers produced for it. -/
theorem mp_multisegment (w : Writer) (hwf : w.WF) (hfits : ∀ d ∈ w.ndocs, d.fits w.schema = true)
    (hna : w.added = false → w.ndocs = []) (plan : Plan) (hplan : PlanOK plan)
    (assign : List (List DocRec)) (hfit : ∀ ds ∈ assign, ∀ d ∈ ds, d.fits w.schema = true)
    (subs : List Writer) (hsubs : SubsOf w.schema assign subs) :
    ∃ t', w.mpCommitMulti subs plan = .ok t' ∧ t'.WF ∧ t'.schema = w.schema ∧
      t'.content.Perm (contentOf w.schema w.segs ++ w.ndocs ++ assign.flatten) := by
  rw [Writer.mpCommitMulti_congr w subs _ (SubsOf.view w.schema assign subs hsubs hfit) plan]
  exact mpCommitMulti_closed w hwf hfits hna plan hplan assign hfit

/-- Hence the assignment is invisible: two schedules that hand out the same documents (in any
    grouping, any order) give the same content, merged or multi-segment, and the same as the
    plain writer adding them one after the other. -/
theorem mp_assignment_invisible (w : Writer) (hwf : w.WF) (hfits : ∀ d ∈ w.ndocs, d.fits w.schema = true)
    (hna : w.added = false → w.ndocs = []) (plan1 plan2 : Plan) (h1 : PlanOK plan1) (h2 : PlanOK plan2)
    (a1 a2 : List (List DocRec)) (hf1 : ∀ ds ∈ a1, ∀ d ∈ ds, d.fits w.schema = true)
    (hf2 : ∀ ds ∈ a2, ∀ d ∈ ds, d.fits w.schema = true) (hperm : a1.flatten.Perm a2.flatten)
    (s1 s2 : List Writer) (hs1 : SubsOf w.schema a1 s1) (hs2 : SubsOf w.schema a2 s2) :
    ∃ t1 t2, w.mpCommit s1 plan1 = .ok t1 ∧ w.mpCommitMulti s2 plan2 = .ok t2 ∧ t1.content.Perm t2.content := by
  obtain ⟨t1, e1, _, _, c1⟩ := mp w hwf hfits hna plan1 h1 a1 hf1 s1 hs1
  obtain ⟨t2, e2, _, _, c2⟩ := mp_multisegment w hwf hfits hna plan2 h2 a2 hf2 s2 hs2
  exact ⟨t1, t2, e1, e2, c1.trans ((List.Perm.append_left _ hperm).trans c2.symm)⟩

/-- **async.** Replaying the recorded calls on the writer obtained later is, by construction, the
    session those calls make on the index as committed at that moment. -/
theorem async (tAtLock : Toc) (events : List Op) (plan : Plan) :
    asyncReplay tAtLock events plan = tAtLock.session events (.commit plan) := rfl

/-- **buffered (adds, flushes, close).** A buffered writer in a consistent state (`BInv`: the
underlying writer has nothing pending, the RAM segment is well-formed, `bufferedcount = 0` only when
the RAM segment is empty) receives any number of `add_document` calls: every call succeeds —
flushing through `add_reader` + `commit` + a new writer whenever the limit is reached —, after
every call the writer's own reader holds exactly what it held before plus the new document
(committed + buffered), and `close()` commits a well-formed index holding all of them. -/
theorem buffered_adds_partial (b : Buffered) (hi : BInv b) (docs : List DocRec)
    (hf : ∀ d ∈ docs, d.fits b.writer.schema = true) :
    (∀ d, d.fits b.writer.schema = true →
      ∃ b1, b.addDocument d = .ok b1 ∧ BInv b1 ∧ b1.content.Perm (b.content ++ [d])) ∧
    ∃ b', docs.foldlM (fun b d => b.addDocument d) b = .ok b' ∧ BInv b' ∧ b'.content.Perm (b.content ++ docs) ∧
      ∃ t, b'.close = .ok t ∧ t.WF ∧ t.content.Perm (b.content ++ docs) := by
  refine ⟨?_, Buffered.adds_close docs b hi hf⟩
  intro d hd
  obtain ⟨b1, h1, hi1, _, _, _, hc1⟩ := Buffered.addDocument_spec b hi d hd
  exact ⟨b1, h1, hi1, hc1⟩

/-- **buffered.** Start from a buffered writer that agrees with a dictionary state (`BRel`: the
invariant `BInv`, same schema, its own reader shows the dictionary's documents) and make any
sequence of `add_document` / `update_document` / `delete_by_term` / `delete_by_query` calls on it
(`Buffered.step`; failing calls included; flushes through `add_reader` + `commit` + a new writer
wherever the limit says).  After every call the writer's own reader holds exactly the dictionary
after the same calls (`flatStep`: every call sees committed *and* buffered documents, so buffered
documents can be deleted and replaced), and `close()` commits a well-formed index holding the same.
Side conditions (`BRunOK`): `update_document` is unambiguous, a document has at most one posting
per term (for the count of `delete_by_term`); deletion by number is left to the check. -/
theorem buffered (b : Buffered) (sp : State) (h : BRel b sp) (ops : List Op) (hok : BRunOK sp ops) :
    BRel (ops.foldl Buffered.step b) (ops.foldl flatStep sp) ∧
    ∃ t, (ops.foldl Buffered.step b).close = .ok t ∧ t.WF ∧ t.content.Perm (ops.foldl flatStep sp).docs :=
  buffered_run ops b sp h hok

/-- the same, one call at a time (so "at every point of any interleaving") -/
theorem buffered_step_sim (b : Buffered) (sp : State) (h : BRel b sp) (op : Op) (hok : BOpOK sp op) :
    BRel (b.step op) (flatStep sp op) := buffered_step b sp h op hok

/-- **storage.** The index is parametric in its storage: over any back-end satisfying the map laws
(`Store.Lawful`: reading a name returns what was last written under it, writing one name does not
disturb another) what `commit` writes (segments under fresh names, then the TOC) is what the next
`open` reads — schema, generation and segments, hence content, counts, postings and every later
writer session.  `RamStorage` (a dictionary) and a directory (names to files) are instances. -/
theorem storage {σ : Type} (st : Store σ) (hl : st.Lawful) (s : σ) (tocName : Nat) (names : List Nat) (t : Toc)
    (hn : names.Nodup) (hlen : names.length = t.segs.length) (htoc : tocName ∉ names) :
    loadToc st (saveToc st s tocName names t) tocName = some t ∧
    (loadToc st (saveToc st s tocName names t) tocName).map Toc.content = some t.content :=
  ⟨storage_roundtrip st hl s tocName names t hn hlen htoc, by rw [storage_roundtrip st hl s tocName names t hn hlen htoc]; rfl⟩

theorem storage_instances : ramStore.Lawful ∧ dirStore.Lawful := ⟨ramStore_lawful, dirStore_lawful⟩

/-! ### non-vacuity -/

namespace Ex
def sc : Schema := { fields := [0], uniques := [] }
def doc (key t : Nat) : DocRec :=
  { key := key, fields := [{ fld := 0, stored := some key, toks := [⟨t, 1, 0⟩, ⟨t + 1, 2, 0⟩], len := 3, col := none,
                             vec := none, ukey := none }] }
def seg : Seg := { docs := [doc 0 3, doc 1 3], posts := [⟨0, 3, 0, 1, 0⟩, ⟨0, 3, 1, 1, 0⟩, ⟨0, 4, 0, 2, 0⟩, ⟨0, 4, 1, 2, 0⟩],
                   deleted := [1] }
def w : Writer := { schema := sc, segs := [seg], gen := 1, ndocs := [], pool := [], added := false }
theorem w_wf : w.WF :=
  ⟨by intro s hs; simp only [w, List.mem_singleton] at hs; subst hs; exact ⟨by decide, by decide, by decide, by decide⟩,
   by decide⟩
end Ex

/-- the hypotheses of `mp` hold for a writer over a segment with a deletion and three documents
    dealt to three sub-writers, one of which gets nothing: the sub-writers run (`SubsOf`), and the
    merged segment numbers the documents 1, 2, 3 after the copied live document -/
example : Ex.w.WF ∧ (∀ ds ∈ [[Ex.doc 5 7], [], [Ex.doc 6 7, Ex.doc 7 9]], ∀ d ∈ ds, d.fits Ex.w.schema = true) ∧
    (∃ subs, SubsOf Ex.w.schema [[Ex.doc 5 7], [], [Ex.doc 6 7, Ex.doc 7 9]] subs ∧
      ((Ex.w.mpCommit subs planOptimize).toOption.map (fun t => t.segs.map (fun s => s.docs.map (·.key)))) = some [[0, 5, 6, 7]]) :=
  ⟨Ex.w_wf, by decide,
   [[Ex.doc 5 7], [], [Ex.doc 6 7, Ex.doc 7 9]].map (subOf Ex.sc),
   .cons rfl (.cons rfl (.cons rfl .nil)), by decide⟩

/-- `BRel` / `BRunOK` are inhabited: a buffered writer opened on the index of `Ex.w` (one live, one
    deleted document), limit 2, one document already buffered; then add, delete by term, add -/
example : BRel { writer := Ex.w, ram := { docs := [Ex.doc 9 5], posts := [⟨0, 5, 0, 1, 0⟩, ⟨0, 6, 0, 2, 0⟩], deleted := [] },
                 count := 1, limit := 2, plan := planMergeSmall }
               { schema := Ex.sc, docs := [Ex.doc 0 3, Ex.doc 9 5] } ∧
    BRunOK { schema := Ex.sc, docs := [Ex.doc 0 3, Ex.doc 9 5] } [.add (Ex.doc 4 3), .delBy (.term 0 4), .add (Ex.doc 5 8)] :=
  ⟨⟨⟨Ex.w_wf, ⟨by decide, by decide, by decide, by decide⟩, by decide, rfl, rfl, by decide, planMergeSmall_ok⟩, rfl, by decide⟩,
   ⟨trivial, (by show ∀ c ∈ _, termCount _ 0 4 c ≤ 1; decide), trivial, trivial⟩⟩

/-- `storage` on the dictionary back-end: a TOC with the two-document segment survives the round trip -/
example : (loadToc ramStore (saveToc ramStore [] 0 [7] { schema := Ex.sc, segs := [Ex.seg], gen := 3 }) 0).map
    (fun t => (t.schema, t.gen, t.segs)) = some (Ex.sc, 3, [Ex.seg]) := by decide

end WM.C18
