import WM.Lemmas.CodecGroup
/-!
# C10 — value codecs of `formats.py` and term vectors

`values_X`: what `X.word_values` yields for a token stream is, for every distinct token text in
order of first occurrence, the frequency / weight / encoded value whose decoding is exactly the
projection of the occurrences of that text (`postingSpec`), gaps and repeats in positions included.
-/
namespace WM.C10
open WM.Codec

/-- Terms listed by `word_values`: the distinct token texts, each once. -/
theorem word_values_terms (f32 : Rat → Rat) (fmt : Fmt) (fb : Rat) (toks : List Token) :
    (wordValues f32 fmt fb toks).map (·.1) = distinctTexts toks ∧ (distinctTexts toks).Nodup ∧
      ∀ w, w ∈ distinctTexts toks ↔ ∃ t ∈ toks, t.text = w := by
  refine ⟨?_, nodup_distinctTexts toks, mem_distinctTexts toks⟩
  cases fmt <;> simp [wordValues, groupTokens_eq, Function.comp_def]

theorem values_existence (f32 : Rat → Rat) (fb : Rat) (toks : List Token) :
    ∀ x ∈ wordValues f32 .existence fb toks,
      x.2.1 = (postingSpec .existence fb (occ toks x.1)).freq ∧
      x.2.2.1 = (postingSpec .existence fb (occ toks x.1)).weight ∧
      valueAgrees .existence x.2.2.2 (postingSpec .existence fb (occ toks x.1)) := by
  intro x hx
  simp only [wordValues, groupTokens_eq, List.map_map, List.mem_map, Function.comp_def] at hx
  obtain ⟨w, _, rfl⟩ := hx
  simp [postingSpec, valueAgrees, decodeFrequency]

theorem values_frequency (f32 : Rat → Rat) (fb : Rat) (toks : List Token) :
    ∀ x ∈ wordValues f32 .frequency fb toks,
      x.2.1 = (postingSpec .frequency fb (occ toks x.1)).freq ∧
      x.2.2.1 = (postingSpec .frequency fb (occ toks x.1)).weight ∧
      valueAgrees .frequency x.2.2.2 (postingSpec .frequency fb (occ toks x.1)) := by
  intro x hx
  simp only [wordValues, groupTokens_eq, List.map_map, List.mem_map, Function.comp_def] at hx
  obtain ⟨w, _, rfl⟩ := hx
  simp [postingSpec, valueAgrees, decodeFrequency]

theorem values_positions (f32 : Rat → Rat) (fb : Rat) (toks : List Token) :
    ∀ x ∈ wordValues f32 .positions fb toks,
      x.2.1 = (postingSpec .positions fb (occ toks x.1)).freq ∧
      x.2.2.1 = (postingSpec .positions fb (occ toks x.1)).weight ∧
      valueAgrees .positions x.2.2.2 (postingSpec .positions fb (occ toks x.1)) := by
  intro x hx
  simp only [wordValues, groupTokens_eq, List.map_map, List.mem_map, Function.comp_def] at hx
  obtain ⟨w, _, rfl⟩ := hx
  simp [postingSpec, valueAgrees, decodeFrequency, encodePositions]
  simp [decodePositions, deltaDecode_encode]

theorem values_characters (f32 : Rat → Rat) (fb : Rat) (toks : List Token) :
    ∀ x ∈ wordValues f32 .characters fb toks,
      x.2.1 = (postingSpec .characters fb (occ toks x.1)).freq ∧
      x.2.2.1 = (postingSpec .characters fb (occ toks x.1)).weight ∧
      valueAgrees .characters x.2.2.2 (postingSpec .characters fb (occ toks x.1)) := by
  intro x hx
  simp only [wordValues, groupTokens_eq, List.map_map, List.mem_map, Function.comp_def] at hx
  obtain ⟨w, _, rfl⟩ := hx
  have h := characters_roundtrip ((occ toks w).map fun t => (t.pos, t.startchar, t.endchar))
  simp only [List.map_map, Function.comp_def] at h
  simp [postingSpec, valueAgrees, decodeFrequency, encodeChars]
  exact ⟨by simpa [encodeChars] using h.2, by simpa [encodeChars] using h.1⟩

theorem zip_map_map {α β γ : Type} (l : List α) (f : α → β) (g : α → γ) :
    (l.map f).zip (l.map g) = l.map fun a => (f a, g a) := by
  induction l with
  | nil => rfl
  | cons a l ih => simp [ih]

theorem values_positionBoosts (f32 : Rat → Rat) (fb : Rat) (toks : List Token) :
    ∀ x ∈ wordValues f32 .positionBoosts fb toks,
      x.2.1 = (postingSpec .positionBoosts fb (occ toks x.1)).freq ∧
      x.2.2.1 = (postingSpec .positionBoosts fb (occ toks x.1)).weight ∧
      valueAgrees .positionBoosts x.2.2.2 (postingSpec .positionBoosts fb (occ toks x.1)) := by
  intro x hx
  simp only [wordValues, groupTokens_eq, List.map_map, List.mem_map, Function.comp_def] at hx
  obtain ⟨w, _, rfl⟩ := hx
  have h := positionBoosts_roundtrip f32 ((occ toks w).map fun t => (t.pos, t.boost))
  simp only [List.map_map, Function.comp_def] at h
  simp [postingSpec, valueAgrees, decodeFrequency, encodePosBoosts, Function.comp_def, zip_map_map]
  exact ⟨by simpa [encodePosBoosts, Function.comp_def] using h.2, by simpa [encodePosBoosts, Function.comp_def] using h.1⟩

/-- `CharacterBoosts` (with the repaired weight `summedboost * field_boost`). -/
theorem values_characterBoosts (f32 : Rat → Rat) (fb : Rat) (toks : List Token) :
    ∀ x ∈ wordValues f32 .characterBoosts fb toks,
      x.2.1 = (postingSpec .characterBoosts fb (occ toks x.1)).freq ∧
      x.2.2.1 = (postingSpec .characterBoosts fb (occ toks x.1)).weight ∧
      valueAgrees .characterBoosts x.2.2.2 (postingSpec .characterBoosts fb (occ toks x.1)) := by
  intro x hx
  simp only [wordValues, groupTokens_eq, List.map_map, List.mem_map, Function.comp_def] at hx
  obtain ⟨w, _, rfl⟩ := hx
  have h := characterBoosts_roundtrip f32 fb
    ((occ toks w).map fun t => (t.pos, t.startchar, t.endchar, t.boost))
  simp only [List.map_map, Function.comp_def] at h
  simp [postingSpec, valueAgrees, decodeFrequency, encodeCharBoosts, Function.comp_def, zip_map_map]
  refine ⟨by simpa [encodeCharBoosts, Function.comp_def] using h.2.1, by simpa [encodeCharBoosts, Function.comp_def] using h.2.2.1,
    by simpa [encodeCharBoosts, Function.comp_def] using h.2.2.2, by simpa [encodeCharBoosts, Function.comp_def] using h.1⟩

/-- Non-vacuity: a stream with a repeated term, a gap in positions and a boost. -/
example :
    let toks : List Token := [⟨"b", 0, 0, 1, 1⟩, ⟨"a", 1, 2, 3, 2⟩, ⟨"b", 5, 9, 10, 1/2⟩]
    distinctTexts toks = ["b", "a"] ∧
    (wordValues id .positions 2 toks).map (fun x => (x.1, x.2.1, x.2.2.1)) = [("b", 2, 3), ("a", 1, 4)] ∧
    (postingSpec .positions 2 (occ toks "b")).positions = [0, 5] := by
  decide +kernel

end WM.C10

namespace WM.C10
open WM.Codec

theorem values_all (f32 : Rat → Rat) (fmt : Fmt) (fb : Rat) (toks : List Token) :
    ∀ x ∈ wordValues f32 fmt fb toks,
      x.2.1 = (postingSpec fmt fb (occ toks x.1)).freq ∧
      x.2.2.1 = (postingSpec fmt fb (occ toks x.1)).weight ∧
      valueAgrees fmt x.2.2.2 (postingSpec fmt fb (occ toks x.1)) := by
  cases fmt
  · exact values_existence f32 fb toks
  · exact values_frequency f32 fb toks
  · exact values_positions f32 fb toks
  · exact values_characters f32 fb toks
  · exact values_positionBoosts f32 fb toks
  · exact values_characterBoosts f32 fb toks

/-- **Vector of a document** as written by `add_document`: one item per distinct term, ordered by
    term, each carrying the weight and the value of that term's posting for this document. -/
theorem vector_items (f32 : Rat → Rat) (vfmt : Fmt) (fb : Rat) (toks : List Token) :
    (vectorItems f32 vfmt fb toks).map (·.1) = (specVector vfmt fb toks).map (·.1) ∧
    ((vectorItems f32 vfmt fb toks).map (·.1)).Pairwise (· ≤ ·) ∧
    ((vectorItems f32 vfmt fb toks).map (·.1)).Nodup ∧
    ∀ x ∈ vectorItems f32 vfmt fb toks,
      x.2.1 = (postingSpec vfmt fb (occ toks x.1)).weight ∧
      valueAgrees vfmt x.2.2 (postingSpec vfmt fb (occ toks x.1)) := by
  have hmap : (vectorItems f32 vfmt fb toks).map (·.1)
      = (distinctTexts toks).mergeSort (fun a b => decide (a ≤ b)) := by
    unfold vectorItems
    rw [List.map_mergeSort (s := fun a b => decide (a ≤ b)) (fun a _ b _ => rfl)]
    congr 1
    rw [List.map_map]
    exact (word_values_terms f32 vfmt fb toks).1
  refine ⟨?_, ?_, ?_, ?_⟩
  · rw [hmap]; simp [specVector, Function.comp_def]
  · rw [hmap]
    have := List.pairwise_mergeSort (le := fun (a b : String) => decide (a ≤ b))
      (fun a b c h1 h2 => by simp only [decide_eq_true_eq] at *; exact String.le_trans h1 h2)
      (fun a b => by simp only [Bool.or_eq_true, decide_eq_true_eq]; exact String.le_total a b)
      (distinctTexts toks)
    exact this.imp (fun h => by simpa using h)
  · rw [hmap]
    exact (List.mergeSort_perm _ _).nodup_iff.mpr (nodup_distinctTexts toks)
  · intro x hx
    unfold vectorItems at hx
    rw [List.mem_mergeSort, List.mem_map] at hx
    obtain ⟨y, hy, rfl⟩ := hx
    have := values_all f32 vfmt fb toks y hy
    exact ⟨this.2.1, this.2.2⟩

/-- **Vector = transposed postings.**  For a document `d` of the collection and a term `t`:
    `d`'s vector lists `t` iff `t`'s posting list lists `d`, and then both carry the posting
    computed from the same occurrences (the posting list additionally scaled by the document's
    boost). -/
theorem vector_transpose (fmt : Fmt) (fb : Rat) (docs : List DocIn) (d : DocIn) (hd : d ∈ docs)
    (hdistinct : docs.Pairwise (fun a b => a.docnum ≠ b.docnum)) (t : String) :
    ((∃ p, (t, p) ∈ specVector fmt fb d.toks) ↔ (∃ q, (d.docnum, q) ∈ specPostings fmt fb docs t)) ∧
    (∀ p, (t, p) ∈ specVector fmt fb d.toks →
      p = postingSpec fmt fb (occ d.toks t) ∧
      (d.docnum, { p with weight := p.weight * d.boost }) ∈ specPostings fmt fb docs t) ∧
    (∀ q, (d.docnum, q) ∈ specPostings fmt fb docs t →
      (t, { q with weight := (postingSpec fmt fb (occ d.toks t)).weight }) ∈ specVector fmt fb d.toks) := by
  have hvec : ∀ p, (t, p) ∈ specVector fmt fb d.toks ↔
      (occ d.toks t ≠ [] ∧ p = postingSpec fmt fb (occ d.toks t)) := by
    intro p
    simp only [specVector, List.mem_map, List.mem_mergeSort, Prod.mk.injEq]
    constructor
    · rintro ⟨w, hw, rfl, rfl⟩
      refine ⟨?_, rfl⟩
      obtain ⟨tok, htok, hte⟩ := (mem_distinctTexts d.toks w).mp hw
      intro he
      have : tok ∈ occ d.toks w := by simp [occ, htok, hte]
      rw [he] at this; simp at this
    · rintro ⟨hne, rfl⟩
      refine ⟨t, ?_, rfl, rfl⟩
      by_cases hin : t ∈ distinctTexts d.toks
      · exact hin
      · exact absurd (occ_eq_nil_of_not_mem _ _ hin) hne
  have hpost : ∀ q, (d.docnum, q) ∈ specPostings fmt fb docs t ↔
      (occ d.toks t ≠ [] ∧ q = { postingSpec fmt fb (occ d.toks t) with
          weight := (postingSpec fmt fb (occ d.toks t)).weight * d.boost }) := by
    intro q
    simp only [specPostings, List.mem_filterMap]
    constructor
    · rintro ⟨d', hd', hq⟩
      split at hq
      · cases hq
      · next hne =>
        simp only [Option.some.injEq, Prod.mk.injEq] at hq
        obtain ⟨hnum, rfl⟩ := hq
        have hdd : d' = d := by
          by_cases he : d' = d
          · exact he
          · exfalso
            rcases List.mem_iff_getElem.mp hd' with ⟨i, hi, rfl⟩
            rcases List.mem_iff_getElem.mp hd with ⟨j, hj, rfl⟩
            have hij : i ≠ j := fun e => he (by subst e; rfl)
            rcases Nat.lt_or_gt_of_ne hij with hlt | hlt
            · exact (List.pairwise_iff_getElem.mp hdistinct i j hi hj hlt) hnum
            · exact (List.pairwise_iff_getElem.mp hdistinct j i hj hi hlt) hnum.symm
        subst hdd
        refine ⟨?_, rfl⟩
        intro he; rw [he] at hne; simp at hne
    · rintro ⟨hne, rfl⟩
      refine ⟨d, hd, ?_⟩
      have : (occ d.toks t).isEmpty = false := by
        cases h : occ d.toks t with
        | nil => exact absurd h hne
        | cons a l => rfl
      simp [this]
  refine ⟨?_, ?_, ?_⟩
  · constructor
    · rintro ⟨p, hp⟩
      exact ⟨_, (hpost _).mpr ⟨((hvec p).mp hp).1, rfl⟩⟩
    · rintro ⟨q, hq⟩
      exact ⟨_, (hvec _).mpr ⟨((hpost q).mp hq).1, rfl⟩⟩
  · intro p hp
    obtain ⟨hne, rfl⟩ := (hvec p).mp hp
    exact ⟨rfl, (hpost _).mpr ⟨hne, rfl⟩⟩
  · intro q hq
    obtain ⟨hne, rfl⟩ := (hpost q).mp hq
    exact (hvec _).mpr ⟨hne, rfl⟩

example :
    let d0 : DocIn := ⟨0, 1, [⟨"b", 0, 0, 1, 1⟩, ⟨"a", 1, 2, 3, 1⟩]⟩
    let d1 : DocIn := ⟨1, 2, [⟨"b", 0, 0, 1, 1⟩, ⟨"b", 3, 4, 5, 1⟩]⟩
    d0 ∈ [d0, d1] ∧ [d0, d1].Pairwise (fun a b => a.docnum ≠ b.docnum) ∧
    distinctTexts d0.toks = ["b", "a"] ∧
    (specPostings .positions 1 [d0, d1] "b").map (fun x => (x.1, x.2.positions))
      = [(0, [0]), (1, [0, 3])] := by
  intro d0 d1
  refine ⟨by simp, by simp [d0, d1], by decide +kernel, by decide +kernel⟩

end WM.C10
