import WM.Lemmas.CodecGroup
import WM.Lemmas.CodecPool
import WM.Lemmas.CodecWF
import WM.Props.C10
/-!
# C10 — value codecs of `formats.py` and term vectors

`values_X`: what `X.word_values` yields for a token stream is, for every distinct token text in
order of first occurrence, the frequency / weight / encoded value whose decoding is exactly the
projection of the occurrences of that text (`postingSpec`), gaps and repeats in positions included.
-/
namespace WM.C10
open WM.Codec

/-- Terms listed by `word_values`: the distinct token texts, each once. -/
theorem word_values_terms (f32 : Rat → Rat) (fmt : Fmt) (fb : Rat) (toks : List Token) :
    (wordValues f32 fmt fb toks).map (·.1) = distinctTexts toks ∧ (distinctTexts toks).Nodup ∧
      ∀ w, w ∈ distinctTexts toks ↔ ∃ t ∈ toks, t.text = w := by
  refine ⟨?_, nodup_distinctTexts toks, mem_distinctTexts toks⟩
  cases fmt <;> simp [wordValues, groupTokens_eq, Function.comp_def]

theorem values_existence (f32 : Rat → Rat) (fb : Rat) (toks : List Token) :
    ∀ x ∈ wordValues f32 .existence fb toks,
      x.2.1 = (postingSpec .existence fb (occ toks x.1)).freq ∧
      x.2.2.1 = (postingSpec .existence fb (occ toks x.1)).weight ∧
      valueAgrees .existence x.2.2.2 (postingSpec .existence fb (occ toks x.1)) := by
  intro x hx
  simp only [wordValues, groupTokens_eq, List.map_map, List.mem_map, Function.comp_def] at hx
  obtain ⟨w, _, rfl⟩ := hx
  simp [postingSpec, valueAgrees, decodeFrequency]

theorem values_frequency (f32 : Rat → Rat) (fb : Rat) (toks : List Token) :
    ∀ x ∈ wordValues f32 .frequency fb toks,
      x.2.1 = (postingSpec .frequency fb (occ toks x.1)).freq ∧
      x.2.2.1 = (postingSpec .frequency fb (occ toks x.1)).weight ∧
      valueAgrees .frequency x.2.2.2 (postingSpec .frequency fb (occ toks x.1)) := by
  intro x hx
  simp only [wordValues, groupTokens_eq, List.map_map, List.mem_map, Function.comp_def] at hx
  obtain ⟨w, _, rfl⟩ := hx
  simp [postingSpec, valueAgrees, decodeFrequency]

theorem values_positions (f32 : Rat → Rat) (fb : Rat) (toks : List Token) :
    ∀ x ∈ wordValues f32 .positions fb toks,
      x.2.1 = (postingSpec .positions fb (occ toks x.1)).freq ∧
      x.2.2.1 = (postingSpec .positions fb (occ toks x.1)).weight ∧
      valueAgrees .positions x.2.2.2 (postingSpec .positions fb (occ toks x.1)) := by
  intro x hx
  simp only [wordValues, groupTokens_eq, List.map_map, List.mem_map, Function.comp_def] at hx
  obtain ⟨w, _, rfl⟩ := hx
  simp [postingSpec, valueAgrees, decodeFrequency, encodePositions]
  simp [decodePositions, deltaDecode_encode]

theorem values_characters (f32 : Rat → Rat) (fb : Rat) (toks : List Token) :
    ∀ x ∈ wordValues f32 .characters fb toks,
      x.2.1 = (postingSpec .characters fb (occ toks x.1)).freq ∧
      x.2.2.1 = (postingSpec .characters fb (occ toks x.1)).weight ∧
      valueAgrees .characters x.2.2.2 (postingSpec .characters fb (occ toks x.1)) := by
  intro x hx
  simp only [wordValues, groupTokens_eq, List.map_map, List.mem_map, Function.comp_def] at hx
  obtain ⟨w, _, rfl⟩ := hx
  have h := characters_roundtrip ((occ toks w).map fun t => (t.pos, t.startchar, t.endchar))
  simp only [List.map_map, Function.comp_def] at h
  simp [postingSpec, valueAgrees, decodeFrequency, encodeChars]
  exact ⟨by simpa [encodeChars] using h.2, by simpa [encodeChars] using h.1⟩

theorem values_positionBoosts (f32 : Rat → Rat) (fb : Rat) (toks : List Token) :
    ∀ x ∈ wordValues f32 .positionBoosts fb toks,
      x.2.1 = (postingSpec .positionBoosts fb (occ toks x.1)).freq ∧
      x.2.2.1 = (postingSpec .positionBoosts fb (occ toks x.1)).weight ∧
      valueAgrees .positionBoosts x.2.2.2 (postingSpec .positionBoosts fb (occ toks x.1)) := by
  intro x hx
  simp only [wordValues, groupTokens_eq, List.map_map, List.mem_map, Function.comp_def] at hx
  obtain ⟨w, _, rfl⟩ := hx
  have h := positionBoosts_roundtrip f32 ((occ toks w).map fun t => (t.pos, t.boost))
  simp only [List.map_map, Function.comp_def] at h
  simp [postingSpec, valueAgrees, decodeFrequency, encodePosBoosts, Function.comp_def, zip_map_map]
  exact ⟨by simpa [encodePosBoosts, Function.comp_def] using h.2, by simpa [encodePosBoosts, Function.comp_def] using h.1⟩

/-- `CharacterBoosts` (with the repaired weight `summedboost * field_boost`). -/
theorem values_characterBoosts (f32 : Rat → Rat) (fb : Rat) (toks : List Token) :
    ∀ x ∈ wordValues f32 .characterBoosts fb toks,
      x.2.1 = (postingSpec .characterBoosts fb (occ toks x.1)).freq ∧
      x.2.2.1 = (postingSpec .characterBoosts fb (occ toks x.1)).weight ∧
      valueAgrees .characterBoosts x.2.2.2 (postingSpec .characterBoosts fb (occ toks x.1)) := by
  intro x hx
  simp only [wordValues, groupTokens_eq, List.map_map, List.mem_map, Function.comp_def] at hx
  obtain ⟨w, _, rfl⟩ := hx
  have h := characterBoosts_roundtrip f32 fb
    ((occ toks w).map fun t => (t.pos, t.startchar, t.endchar, t.boost))
  simp only [List.map_map, Function.comp_def] at h
  simp [postingSpec, valueAgrees, decodeFrequency, encodeCharBoosts, Function.comp_def, zip_map_map]
  refine ⟨by simpa [encodeCharBoosts, Function.comp_def] using h.2.1, by simpa [encodeCharBoosts, Function.comp_def] using h.2.2.1,
    by simpa [encodeCharBoosts, Function.comp_def] using h.2.2.2, by simpa [encodeCharBoosts, Function.comp_def] using h.1⟩

/-- Non-vacuity: a stream with a repeated term, a gap in positions and a boost. -/
example :
    let toks : List Token := [⟨"b", 0, 0, 1, 1⟩, ⟨"a", 1, 2, 3, 2⟩, ⟨"b", 5, 9, 10, 1/2⟩]
    distinctTexts toks = ["b", "a"] ∧
    (wordValues id .positions 2 toks).map (fun x => (x.1, x.2.1, x.2.2.1)) = [("b", 2, 3), ("a", 1, 4)] ∧
    (postingSpec .positions 2 (occ toks "b")).positions = [0, 5] := by
  decide +kernel

end WM.C10

namespace WM.C10
open WM.Codec

theorem values_all (f32 : Rat → Rat) (fmt : Fmt) (fb : Rat) (toks : List Token) :
    ∀ x ∈ wordValues f32 fmt fb toks,
      x.2.1 = (postingSpec fmt fb (occ toks x.1)).freq ∧
      x.2.2.1 = (postingSpec fmt fb (occ toks x.1)).weight ∧
      valueAgrees fmt x.2.2.2 (postingSpec fmt fb (occ toks x.1)) := by
  cases fmt
  · exact values_existence f32 fb toks
  · exact values_frequency f32 fb toks
  · exact values_positions f32 fb toks
  · exact values_characters f32 fb toks
  · exact values_positionBoosts f32 fb toks
  · exact values_characterBoosts f32 fb toks

/-- **Vector of a document** as written by `add_document`: one item per distinct term, ordered by
    term, each carrying the weight and the value of that term's posting for this document. -/
theorem vector_items (f32 : Rat → Rat) (vfmt : Fmt) (fb : Rat) (toks : List Token) :
    (vectorItems f32 vfmt fb toks).map (·.1) = (specVector vfmt fb toks).map (·.1) ∧
    ((vectorItems f32 vfmt fb toks).map (·.1)).Pairwise (· ≤ ·) ∧
    ((vectorItems f32 vfmt fb toks).map (·.1)).Nodup ∧
    ∀ x ∈ vectorItems f32 vfmt fb toks,
      x.2.1 = (postingSpec vfmt fb (occ toks x.1)).weight ∧
      valueAgrees vfmt x.2.2 (postingSpec vfmt fb (occ toks x.1)) := by
  have hmap : (vectorItems f32 vfmt fb toks).map (·.1)
      = (distinctTexts toks).mergeSort (fun a b => decide (a ≤ b)) := by
    unfold vectorItems
    rw [List.map_mergeSort (s := fun a b => decide (a ≤ b)) (fun a _ b _ => rfl)]
    congr 1
    rw [List.map_map]
    exact (word_values_terms f32 vfmt fb toks).1
  refine ⟨?_, ?_, ?_, ?_⟩
  · rw [hmap]; simp [specVector, Function.comp_def]
  · rw [hmap]
    have := List.pairwise_mergeSort (le := fun (a b : String) => decide (a ≤ b))
      (fun a b c h1 h2 => by simp only [decide_eq_true_eq] at *; exact String.le_trans h1 h2)
      (fun a b => by simp only [Bool.or_eq_true, decide_eq_true_eq]; exact String.le_total a b)
      (distinctTexts toks)
    exact this.imp (fun h => by simpa using h)
  · rw [hmap]
    exact (List.mergeSort_perm _ _).nodup_iff.mpr (nodup_distinctTexts toks)
  · intro x hx
    unfold vectorItems at hx
    rw [List.mem_mergeSort, List.mem_map] at hx
    obtain ⟨y, hy, rfl⟩ := hx
    have := values_all f32 vfmt fb toks y hy
    exact ⟨this.2.1, this.2.2⟩

/-- **Vector = transposed postings.**  For a document `d` of the collection and a term `t`:
    `d`'s vector lists `t` iff `t`'s posting list lists `d`, and then both carry the posting
    computed from the same occurrences (the posting list additionally scaled by the document's
    boost). -/
theorem vector_transpose (fmt : Fmt) (fb : Rat) (docs : List DocIn) (d : DocIn) (hd : d ∈ docs)
    (hdistinct : docs.Pairwise (fun a b => a.docnum ≠ b.docnum)) (t : String) :
    ((∃ p, (t, p) ∈ specVector fmt fb d.toks) ↔ (∃ q, (d.docnum, q) ∈ specPostings fmt fb docs t)) ∧
    (∀ p, (t, p) ∈ specVector fmt fb d.toks →
      p = postingSpec fmt fb (occ d.toks t) ∧
      (d.docnum, { p with weight := p.weight * d.boost }) ∈ specPostings fmt fb docs t) ∧
    (∀ q, (d.docnum, q) ∈ specPostings fmt fb docs t →
      (t, { q with weight := (postingSpec fmt fb (occ d.toks t)).weight }) ∈ specVector fmt fb d.toks) := by
  have hvec : ∀ p, (t, p) ∈ specVector fmt fb d.toks ↔
      (occ d.toks t ≠ [] ∧ p = postingSpec fmt fb (occ d.toks t)) := by
    intro p
    simp only [specVector, List.mem_map, List.mem_mergeSort, Prod.mk.injEq]
    constructor
    · rintro ⟨w, hw, rfl, rfl⟩
      refine ⟨?_, rfl⟩
      obtain ⟨tok, htok, hte⟩ := (mem_distinctTexts d.toks w).mp hw
      intro he
      have : tok ∈ occ d.toks w := by simp [occ, htok, hte]
      rw [he] at this; simp at this
    · rintro ⟨hne, rfl⟩
      refine ⟨t, ?_, rfl, rfl⟩
      by_cases hin : t ∈ distinctTexts d.toks
      · exact hin
      · exact absurd (occ_eq_nil_of_not_mem _ _ hin) hne
  have hpost : ∀ q, (d.docnum, q) ∈ specPostings fmt fb docs t ↔
      (occ d.toks t ≠ [] ∧ q = { postingSpec fmt fb (occ d.toks t) with
          weight := (postingSpec fmt fb (occ d.toks t)).weight * d.boost }) := by
    intro q
    simp only [specPostings, List.mem_filterMap]
    constructor
    · rintro ⟨d', hd', hq⟩
      split at hq
      · cases hq
      · next hne =>
        simp only [Option.some.injEq, Prod.mk.injEq] at hq
        obtain ⟨hnum, rfl⟩ := hq
        have hdd : d' = d := by
          by_cases he : d' = d
          · exact he
          · exfalso
            rcases List.mem_iff_getElem.mp hd' with ⟨i, hi, rfl⟩
            rcases List.mem_iff_getElem.mp hd with ⟨j, hj, rfl⟩
            have hij : i ≠ j := fun e => he (by subst e; rfl)
            rcases Nat.lt_or_gt_of_ne hij with hlt | hlt
            · exact (List.pairwise_iff_getElem.mp hdistinct i j hi hj hlt) hnum
            · exact (List.pairwise_iff_getElem.mp hdistinct j i hj hi hlt) hnum.symm
        subst hdd
        refine ⟨?_, rfl⟩
        intro he; rw [he] at hne; simp at hne
    · rintro ⟨hne, rfl⟩
      refine ⟨d, hd, ?_⟩
      have : (occ d.toks t).isEmpty = false := by
        cases h : occ d.toks t with
        | nil => exact absurd h hne
        | cons a l => rfl
      simp [this]
  refine ⟨?_, ?_, ?_⟩
  · constructor
    · rintro ⟨p, hp⟩
      exact ⟨_, (hpost _).mpr ⟨((hvec p).mp hp).1, rfl⟩⟩
    · rintro ⟨q, hq⟩
      exact ⟨_, (hvec _).mpr ⟨((hpost q).mp hq).1, rfl⟩⟩
  · intro p hp
    obtain ⟨hne, rfl⟩ := (hvec p).mp hp
    exact ⟨rfl, (hpost _).mpr ⟨hne, rfl⟩⟩
  · intro q hq
    obtain ⟨hne, rfl⟩ := (hpost q).mp hq
    exact (hvec _).mpr ⟨hne, rfl⟩

example :
    let d0 : DocIn := ⟨0, 1, [⟨"b", 0, 0, 1, 1⟩, ⟨"a", 1, 2, 3, 1⟩]⟩
    let d1 : DocIn := ⟨1, 2, [⟨"b", 0, 0, 1, 1⟩, ⟨"b", 3, 4, 5, 1⟩]⟩
    d0 ∈ [d0, d1] ∧ [d0, d1].Pairwise (fun a b => a.docnum ≠ b.docnum) ∧
    distinctTexts d0.toks = ["b", "a"] ∧
    (specPostings .positions 1 [d0, d1] "b").map (fun x => (x.1, x.2.positions))
      = [(0, [0]), (1, [0, 3])] := by
  intro d0 d1
  refine ⟨by simp, by simp [d0, d1], by decide +kernel, by decide +kernel⟩


/-- What one document contributes to the posting list of term `w` (model: its `word_values` item,
    weight times the document's boost) against the spec: nothing iff the term does not occur in
    the document, otherwise a post that matches `postingSpec` of the occurrences. -/
theorem doc_post_spec (f32 : Rat → Rat) (fmt : Fmt) (fb : Rat) (w : String) (d : DocIn) :
    ((occ d.toks w).isEmpty = true → docPost f32 fmt fb w d = none) ∧
    ((occ d.toks w).isEmpty = false → ∃ p, docPost f32 fmt fb w d = some p ∧ p.term = w ∧
      PostMatches fmt p (d.docnum, { postingSpec fmt fb (occ d.toks w) with
        weight := (postingSpec fmt fb (occ d.toks w)).weight * d.boost })) := by
  constructor
  · intro he
    have hnil : occ d.toks w = [] := by
      cases h : occ d.toks w with
      | nil => rfl
      | cons a l => rw [h] at he; simp at he
    have hnot : w ∉ distinctTexts d.toks := fun hm => occ_ne_nil_of_mem d.toks w hm hnil
    unfold docPost
    rw [find?_eq_none_of_forall]
    · rfl
    · intro x hx
      simp only [beq_eq_false_iff_ne, ne_eq]
      intro e
      exact hnot ((mem_wordValues_fst f32 fmt fb d.toks w).mp ⟨x, hx, e⟩)
  · intro he
    have hmem : w ∈ distinctTexts d.toks := by
      by_cases hm : w ∈ distinctTexts d.toks
      · exact hm
      · rw [occ_eq_nil_of_not_mem d.toks w hm] at he; simp at he
    obtain ⟨x, hx, hxw⟩ := (mem_wordValues_fst f32 fmt fb d.toks w).mpr hmem
    cases hf : (wordValues f32 fmt fb d.toks).find? (fun y => y.1 == w) with
    | none =>
      have := List.find?_eq_none.mp hf x hx
      simp [hxw] at this
    | some y =>
      have hy : y ∈ wordValues f32 fmt fb d.toks := List.mem_of_find?_eq_some hf
      have hyw : y.1 = w := by simpa using List.find?_some hf
      have hv := values_all f32 fmt fb d.toks y hy
      rw [hyw] at hv
      refine ⟨{ term := y.1, docnum := d.docnum, weight := y.2.2.1 * d.boost, value := y.2.2.2 },
        by simp [docPost, hf], hyw, rfl, ?_, ?_⟩
      · simp only; rw [hv.2.1]
      · simp only [valueAgrees] at hv ⊢
        exact hv.2.2

/-- **Term postings, model = spec.**  The posting list of a term as it reaches the postings writer
    (`add_document` posts → sorted pool → `add_postings` grouping; documents in ascending number
    order) lists exactly the documents `specPostings` lists, in the same order, each post matching
    the spec posting (document number, weight including the document boost, decoded value). -/
theorem term_postings_spec (f32 : Rat → Rat) (fmt : Fmt) (fb : Rat) (docs : List DocIn) (w : String)
    (hs : docs.Pairwise (fun a b => a.docnum < b.docnum)) :
    termPostings f32 fmt fb docs w = docs.filterMap (docPost f32 fmt fb w) ∧
    Forall2 (PostMatches fmt) (termPostings f32 fmt fb docs w) (specPostings fmt fb docs w) := by
  have heq := termPostings_eq f32 fmt fb docs w hs
  refine ⟨heq, ?_⟩
  rw [heq]
  unfold specPostings
  clear heq hs
  induction docs with
  | nil => exact Forall2.nil
  | cons d docs ih =>
    simp only [List.filterMap_cons]
    obtain ⟨h1, h2⟩ := doc_post_spec f32 fmt fb w d
    cases he : (occ d.toks w).isEmpty with
    | true => simp only [h1 he, if_true]; exact ih
    | false =>
      obtain ⟨p, hp, _, hm⟩ := h2 he
      simp only [hp, Bool.false_eq_true, if_false]
      exact Forall2.cons hm ih

/-- **Vector = transposed postings, on the model.**  For a document `d` of a collection given in
    ascending document-number order, with the vector stored in the posting format: an item
    `(t, weight, value)` of `d`'s vector (`vectorItems`, what `add_vector_items` receives) occurs
    in the posting list of `t` (`termPostings`, what `add_postings` receives) at `d.docnum` with
    the same value and the weight times `d`'s boost — and every post of `t` for `d.docnum` comes
    from such a vector item.  (`add_document` applies the document boost to postings only; this is
    the one difference between a vector and the transposed postings.) -/
theorem vector_transpose_model (f32 : Rat → Rat) (fmt : Fmt) (fb : Rat) (docs : List DocIn) (d : DocIn)
    (hd : d ∈ docs) (hs : docs.Pairwise (fun a b => a.docnum < b.docnum)) (t : String) :
    (∀ wt v, (t, wt, v) ∈ vectorItems f32 fmt fb d.toks →
      ({ term := t, docnum := d.docnum, weight := wt * d.boost, value := v } : Post)
        ∈ termPostings f32 fmt fb docs t) ∧
    (∀ p ∈ termPostings f32 fmt fb docs t, p.docnum = d.docnum →
      ∃ wt, (t, wt, p.value) ∈ vectorItems f32 fmt fb d.toks ∧ p.weight = wt * d.boost) := by
  rw [termPostings_eq f32 fmt fb docs t hs]
  have hvi : ∀ item, item ∈ vectorItems f32 fmt fb d.toks ↔
      ∃ x ∈ wordValues f32 fmt fb d.toks, (x.1, x.2.2.1, x.2.2.2) = item := by
    intro item
    unfold vectorItems
    rw [List.mem_mergeSort, List.mem_map]
  have hfind : ∀ x ∈ wordValues f32 fmt fb d.toks,
      (wordValues f32 fmt fb d.toks).find? (fun y => y.1 == x.1) = some x := by
    intro x hx
    have hnd := wordValues_nodup f32 fmt fb d.toks
    have hfl := filter_eq_find_toList (wordValues f32 fmt fb d.toks) (·.1) x.1 hnd
    cases hf : (wordValues f32 fmt fb d.toks).find? (fun y => y.1 == x.1) with
    | none =>
      have := List.find?_eq_none.mp hf x hx
      simp at this
    | some y =>
      rw [hf] at hfl
      have hxm : x ∈ (wordValues f32 fmt fb d.toks).filter (fun y => y.1 == x.1) := by
        simp [List.mem_filter, hx]
      rw [hfl] at hxm
      simp at hxm
      rw [hxm]
  constructor
  · intro wt v hitem
    obtain ⟨x, hx, hxe⟩ := (hvi _).mp hitem
    simp only [Prod.mk.injEq] at hxe
    obtain ⟨h1, h2, h3⟩ := hxe
    rw [List.mem_filterMap]
    refine ⟨d, hd, ?_⟩
    unfold docPost
    rw [← h1, hfind x hx]
    simp [h2, h3]
  · intro p hp hdn
    rw [List.mem_filterMap] at hp
    obtain ⟨d', hd', hp'⟩ := hp
    have hdd : d' = d := by
      by_cases he : d' = d
      · exact he
      · exfalso
        have hnum : d'.docnum = d.docnum := by rw [← (docPost_docnum hp').1, hdn]
        rcases List.mem_iff_getElem.mp hd' with ⟨i, hi, rfl⟩
        rcases List.mem_iff_getElem.mp hd with ⟨j, hj, rfl⟩
        have hij : i ≠ j := fun e => he (by subst e; rfl)
        rcases Nat.lt_or_gt_of_ne hij with hlt | hlt
        · have := List.pairwise_iff_getElem.mp hs i j hi hj hlt; omega
        · have := List.pairwise_iff_getElem.mp hs j i hj hi hlt; omega
    subst hdd
    unfold docPost at hp'
    cases hf : (wordValues f32 fmt fb d'.toks).find? (fun y => y.1 == t) with
    | none => rw [hf] at hp'; cases hp'
    | some x =>
      rw [hf] at hp'
      simp only [Option.map_some, Option.some.injEq] at hp'
      subst hp'
      have hxw : x.1 = t := by simpa using List.find?_some hf
      refine ⟨x.2.2.1, ?_, rfl⟩
      exact (hvi _).mpr ⟨x, List.mem_of_find?_eq_some hf, by simp [hxw]⟩

/-- Value shapes: what `word_values` of each format puts into the posting value. -/
theorem word_values_shape (f32 : Rat → Rat) (fmt : Fmt) (fb : Rat) (toks : List Token) :
    ∀ x ∈ wordValues f32 fmt fb toks,
      match fmt with
      | .existence => x.2.2.2 = .empty
      | .frequency => ∃ n, x.2.2.2 = .freq n
      | _ => x.2.2.2 ≠ .empty ∧ ∀ n, x.2.2.2 ≠ .freq n := by
  intro x hx
  cases fmt <;>
    simp only [wordValues, groupTokens_eq, List.map_map, List.mem_map, Function.comp_def] at hx <;>
    obtain ⟨w, _, rfl⟩ := hx
  · rfl
  · exact ⟨_, rfl⟩
  · simp [encodePositions]
  · simp [encodeChars]
  · simp [encodePosBoosts]
  · simp [encodeCharBoosts]

/-- **Formats ↔ block codec: `ValuesOk` holds for every shipped format.**  The value bytes of the
    posts of a term (`pack_uint` header + pickled rest) are admissible for a block writer whose
    `fixedsize` is the format's `fixed_value_size()`: none for `Existence`, exactly 4 bytes for
    `Frequency`, never empty for the variable-size formats. -/
theorem values_ok (f32 : Rat → Rat) (fmt : Fmt) (fb : Rat) (docs : List DocIn) (w : String)
    (tail : FValue → Bytes) (lenOf : Int → Option Nat)
    (hs : docs.Pairwise (fun a b => a.docnum < b.docnum)) :
    ValuesOk fmt.fixedSize (toPostings tail lenOf (termPostings f32 fmt fb docs w)) ∧
    InlineValuesOk fmt.fixedSize (toPostings tail lenOf (termPostings f32 fmt fb docs w)) := by
  have hshape : ∀ p ∈ termPostings f32 fmt fb docs w, ∃ d : DocIn, ∃ x ∈ wordValues f32 fmt fb d.toks,
      p.value = x.2.2.2 := by
    intro p hp
    rw [termPostings_eq f32 fmt fb docs w hs, List.mem_filterMap] at hp
    obtain ⟨d, _, hp'⟩ := hp
    unfold docPost at hp'
    cases hf : (wordValues f32 fmt fb d.toks).find? (fun y => y.1 == w) with
    | none => rw [hf] at hp'; cases hp'
    | some x =>
      rw [hf] at hp'
      simp only [Option.map_some, Option.some.injEq] at hp'
      exact ⟨d, x, List.mem_of_find?_eq_some hf, by rw [← hp']⟩
  have hmem : ∀ q ∈ toPostings tail lenOf (termPostings f32 fmt fb docs w),
      ∃ p ∈ termPostings f32 fmt fb docs w, q.value = p.value.toBytes tail := by
    intro q hq
    simp only [toPostings, List.mem_map] at hq
    obtain ⟨p, hp, rfl⟩ := hq
    exact ⟨p, hp, rfl⟩
  cases fmt with
  | existence =>
    refine ⟨trivial, ?_⟩
    intro q hq
    obtain ⟨p, hp, hqv⟩ := hmem q hq
    obtain ⟨d, x, hx, hpv⟩ := hshape p hp
    have := word_values_shape f32 .existence fb d.toks x hx
    simp only at this
    rw [hqv, hpv, this]; rfl
  | frequency =>
    have : ∀ q ∈ toPostings tail lenOf (termPostings f32 .frequency fb docs w), q.value.length = 3 + 1 := by
      intro q hq
      obtain ⟨p, hp, hqv⟩ := hmem q hq
      obtain ⟨d, x, hx, hpv⟩ := hshape p hp
      obtain ⟨n, hn⟩ := word_values_shape f32 .frequency fb d.toks x hx
      rw [hqv, hpv, hn]; rfl
    exact ⟨this, this⟩
  | positions =>
    have hne := toBytes_ne_nil_of_shape tail _ (fun q hq => by
      obtain ⟨p, hp, hqv⟩ := hmem q hq
      obtain ⟨d, x, hx, hpv⟩ := hshape p hp
      exact ⟨p.value, hqv, by rw [hpv]; exact word_values_shape f32 .positions fb d.toks x hx⟩)
    exact ⟨hne, hne⟩
  | characters =>
    have hne := toBytes_ne_nil_of_shape tail _ (fun q hq => by
      obtain ⟨p, hp, hqv⟩ := hmem q hq
      obtain ⟨d, x, hx, hpv⟩ := hshape p hp
      exact ⟨p.value, hqv, by rw [hpv]; exact word_values_shape f32 .characters fb d.toks x hx⟩)
    exact ⟨hne, hne⟩
  | positionBoosts =>
    have hne := toBytes_ne_nil_of_shape tail _ (fun q hq => by
      obtain ⟨p, hp, hqv⟩ := hmem q hq
      obtain ⟨d, x, hx, hpv⟩ := hshape p hp
      exact ⟨p.value, hqv, by rw [hpv]; exact word_values_shape f32 .positionBoosts fb d.toks x hx⟩)
    exact ⟨hne, hne⟩
  | characterBoosts =>
    have hne := toBytes_ne_nil_of_shape tail _ (fun q hq => by
      obtain ⟨p, hp, hqv⟩ := hmem q hq
      obtain ⟨d, x, hx, hpv⟩ := hshape p hp
      exact ⟨p.value, hqv, by rw [hpv]; exact word_values_shape f32 .characterBoosts fb d.toks x hx⟩)
    exact ⟨hne, hne⟩

/-- **End to end for one term: documents → postings → blocks → entries.**  Writing the posts of
    term `w` (from the documents' `word_values`, through the pool and `add_postings`) with a block
    writer configured for the format, and decoding the blocks, gives back exactly those posts
    (ids, stored weights, value bytes) — and the posts match `specPostings`.  `ValuesOk` is
    discharged by `values_ok`, not assumed. -/
theorem postings_end_to_end (c : Cfg Int (List Int)) (fmt : Fmt) (fb : Rat) (docs : List DocIn) (w : String)
    (tail : FValue → Bytes) (lenOf : Int → Option Nat)
    (hids : c.ids = docIds) (hfs : c.fixedsize = fmt.fixedSize) (hbl : 1 ≤ c.blocklimit)
    (hs : docs.Pairwise (fun a b => a.docnum < b.docnum))
    (hne : termPostings c.f32 fmt fb docs w ≠ [])
    (hni : c.inlinelimit ≤ (termPostings c.f32 fmt fb docs w).length ∨
      c.blocklimit < (termPostings c.f32 fmt fb docs w).length)
    (hvalid : ∀ d ∈ docs, 0 ≤ d.docnum ∧ d.docnum < 4294967296)
    (hu : LengthsUniform (toPostings tail lenOf (termPostings c.f32 fmt fb docs w))) :
    ∃ bs b ti, writeTerm c (toPostings tail lenOf (termPostings c.f32 fmt fb docs w)) = .ok (bs ++ [b], ti) ∧
      decodeBlocks c.ids c.fixedsize (bs ++ [b])
        = .ok ((toPostings tail lenOf (termPostings c.f32 fmt fb docs w)).map (expected c)) ∧
      Forall2 (PostMatches fmt) (termPostings c.f32 fmt fb docs w) (specPostings fmt fb docs w) := by
  have hspec := (term_postings_spec c.f32 fmt fb docs w hs).2
  have hvok := (values_ok c.f32 fmt fb docs w tail lenOf hs).1
  rw [← hfs] at hvok
  have hlaw : c.ids.Lawful := by rw [hids]; exact docIds_lawful
  have hne' : toPostings tail lenOf (termPostings c.f32 fmt fb docs w) ≠ [] := by
    intro e; apply hne; simpa [toPostings] using e
  have hlen : (toPostings tail lenOf (termPostings c.f32 fmt fb docs w)).length
      = (termPostings c.f32 fmt fb docs w).length := by simp [toPostings]
  have hval : ∀ p ∈ toPostings tail lenOf (termPostings c.f32 fmt fb docs w), c.ids.valid p.id = true := by
    intro q hq
    simp only [toPostings, List.mem_map] at hq
    obtain ⟨p, hp, rfl⟩ := hq
    rw [termPostings_eq c.f32 fmt fb docs w hs, List.mem_filterMap] at hp
    obtain ⟨d, hd, hp'⟩ := hp
    have := hvalid d hd
    rw [hids]
    simp only [docIds, (docPost_docnum hp').1, Bool.and_eq_true, decide_eq_true_eq]
    exact this
  obtain ⟨bs, b, ti, h1, h2, _⟩ := blocks_roundtrip c hlaw _ hbl hne' (by rw [hlen]; exact hni) hval hvok hu
  exact ⟨bs, b, ti, h1, h2, hspec⟩

example :
    let d0 : DocIn := ⟨0, 1, [⟨"b", 0, 0, 1, 1⟩, ⟨"a", 1, 2, 3, 1⟩]⟩
    let d1 : DocIn := ⟨1, 2, [⟨"b", 0, 0, 1, 1⟩, ⟨"b", 3, 4, 5, 1⟩]⟩
    [d0, d1].Pairwise (fun a b => a.docnum < b.docnum) ∧
    ([d0, d1].filterMap (docPost id .frequency 1 "b")).map (fun p => (p.docnum, p.weight, p.value))
      = [(0, 1, .freq 1), (1, 4, .freq 2)] ∧
    (FValue.freq 2).toBytes (fun _ => []) = [0, 0, 0, 2] := by
  intro d0 d1
  refine ⟨by simp [d0, d1], by decide +kernel, by decide⟩

end WM.C10
