import WM.Model.FSLock
import WM.Lemmas.FSLock
/-!
C04 — one writer at a time; no committed update is ever lost.

`scripts w` is the step script of writer `w` (any number of writers: all but finitely many scripts
may be empty), `sched` the order in which the scheduler lets writers move.  The theorems hold for
every schedule, provided every script satisfies the decidable `LockDiscipline`, which the check
evaluates on the storage traces of real `SegmentWriter` / `AsyncWriter` / `BufferedWriter` lives.
-/
namespace WM.C04
open WM.Lock

abbrev Disciplined (scripts : Nat → List Step) : Prop :=
  ∀ w, LockDiscipline (scripts w) = true ∨ scripts w = []

/-- **C04.mutex.**  In every reachable state at most one writer is between its successful
    acquire and its release, and it is the one the lock records. -/
theorem mutex (t0 : Toc) (scripts : Nat → List Step) (hd : Disciplined scripts) (sched : List Nat) :
    let s := exec (init t0 scripts) sched
    (∀ w1 w2, (s.ws w1).holds = true → (s.ws w2).holds = true → w1 = w2) ∧
    (∀ w, (s.ws w).holds = true ↔ s.holder = some w) := by
  intro s
  have hinv := inv_exec (inv_init t0 scripts hd) sched
  refine ⟨?_, hinv.mutex⟩
  intro w1 w2 h1 h2
  have e1 := (hinv.mutex w1).1 h1
  have e2 := (hinv.mutex w2).1 h2
  rw [e1] at e2; cases e2; rfl

/-- **C04.generation.**  After `m` successful commits the generation is `g0 + m`: every commit
    advances it by exactly one, no gaps, no repeats. -/
theorem generation (t0 : Toc) (scripts : Nat → List Step) (hd : Disciplined scripts)
    (sched : List Nat) (w : Nat) :
    let s := exec (init t0 scripts) sched
    s.toc.gen = t0.gen + s.commits.length ∧
    ((stepW s w).toc.gen = s.toc.gen ∧ (stepW s w).commits = s.commits ∨
     (stepW s w).toc.gen = s.toc.gen + 1 ∧ (stepW s w).commits = s.commits ++ [w]) := by
  intro s
  have hinv := inv_exec (inv_init t0 scripts hd) sched
  refine ⟨hinv.gen, ?_⟩
  rcases toc_step hinv w with ⟨e, e'⟩ | ⟨e, e'⟩
  · exact Or.inl ⟨by rw [e], e'⟩
  · exact Or.inr ⟨by rw [e], e'⟩

/-- **C04.no_lost_update.**  The TOC always reflects the initial state followed by the changes
    of every writer that committed, in commit order, each exactly once; and whatever a TOC
    reflects is reflected (as a prefix) by every later TOC. -/
theorem no_lost_update (t0 : Toc) (scripts : Nat → List Step) (hd : Disciplined scripts)
    (sched later : List Nat) :
    let s := exec (init t0 scripts) sched
    let s' := exec (init t0 scripts) (sched ++ later)
    s.toc.ops = t0.ops ++ s.commits.flatMap (fun w => (s.ws w).pending) ∧
    s.toc.ops <+: s'.toc.ops ∧ s.commits <+: s'.commits := by
  intro s s'
  have hinv := inv_exec (inv_init t0 scripts hd) sched
  refine ⟨hinv.ops, ?_⟩
  have := ops_prefix_exec hinv later
  have e : s' = exec s later := by simp [s, s', exec, List.foldl_append]
  rw [e]
  exact ⟨this.1, this.2.2⟩

/-- **C04.lock_released.**  A writer whose script has run to its end (commit, cancel, exception
    exit, or `LockError`) does not hold the lock; when all have, the lock is free, and a writer
    that then tries acquires it. -/
theorem lock_released (t0 : Toc) (scripts : Nat → List Step) (hd : Disciplined scripts)
    (sched : List Nat) :
    let s := exec (init t0 scripts) sched
    (∀ w, (s.ws w).script = [] → (s.ws w).holds = false) ∧
    ((∀ w, (s.ws w).script = []) → s.holder = none) ∧
    (s.holder = none → ∀ v x r, x.script = .tryLock :: r →
      ((stepW (setW s v x) v).ws v).holds = true ∧ (stepW (setW s v x) v).holder = some v) := by
  intro s
  have hinv := inv_exec (inv_init t0 scripts hd) sched
  have h1 : ∀ w, (s.ws w).script = [] → (s.ws w).holds = false := by
    intro w hw
    cases hinv.phase w with
    | idle a b c d e => exact a
    | done a b => exact a
    | locked r' a b c d e f => rw [hw] at e; cases e
    | ready a b c d => rw [hw] at d; simp [tailOK] at d
    | written a b c => rw [hw] at c; simp [postOK] at c
  refine ⟨h1, ?_, ?_⟩
  · intro hall
    cases hh : s.holder with
    | none => rfl
    | some u =>
      have := (hinv.mutex u).2 hh
      rw [h1 u (hall u)] at this; cases this
  · intro hfree v x r hx
    simp [stepW, setW, hx, hfree]

/-! ### A concrete instance -/
namespace Example

/-- two committing writers, one cancelling writer -/
def scripts : Nat → List Step
  | 0 => [.tryLock, .readToc, .work 10, .io, .writeToc, .io, .release]
  | 1 => [.tryLock, .readToc, .work 20, .work 21, .io, .writeToc, .release]
  | 2 => [.tryLock, .readToc, .work 30, .io, .release]
  | _ => []

theorem disciplined : Disciplined scripts := by
  intro w
  match w with
  | 0 => left; decide
  | 1 => left; decide
  | 2 => left; decide
  | _ + 3 => right; rfl

/-- writer 1 is locked out while writer 0 is active (LockError), writer 2 cancels, writer 0 commits -/
example : let s := exec (init ⟨5, [1]⟩ scripts) [0, 1, 0, 0, 0, 0, 0, 2, 0, 2, 2, 2, 2, 2]
    s.toc = ⟨6, [1, 10]⟩ ∧ (s.ws 1).failed = true ∧ s.holder = none ∧ s.commits = [0] := by decide

/-- the script that reads the TOC *before* taking the lock is rejected by the predicate, and does
    lose an update: both writers publish generation 6 and writer 0's change is gone -/
def badScripts : Nat → List Step
  | 0 => [.tryLock, .readToc, .work 10, .writeToc, .release]
  | 1 => [.readToc, .tryLock, .work 20, .writeToc, .release]
  | _ => []

example : LockDiscipline (badScripts 1) = false := by decide
example : (exec (init ⟨5, [1]⟩ badScripts) [1, 0, 0, 0, 0, 0, 1, 1, 1, 1]).toc = ⟨6, [1, 20]⟩ := by decide

end Example

end WM.C04
