import WM.Model.FSLock
import WM.Lemmas.FSLock
/-!
C04 — one writer at a time; no committed update is ever lost.

`scripts w` is the step script of writer `w` (any number of writers: all but finitely many scripts
may be empty), `sched` the order in which the scheduler lets writers move.  The theorems hold for
every schedule, provided every script satisfies the decidable `LockDiscipline`, which the check
evaluates on the storage traces of real `SegmentWriter` / `AsyncWriter` / `BufferedWriter` lives.
-/
namespace WM.C04
open WM.Lock

abbrev Disciplined (scripts : Nat → List Step) : Prop :=
  ∀ w, LockDiscipline (scripts w) = true ∨ scripts w = []

/-- **C04.mutex.**  In every reachable state at most one writer is between its successful
    acquire and its release, and it is the one the lock records. -/
theorem mutex (t0 : Toc) (scripts : Nat → List Step) (hd : Disciplined scripts) (sched : List Nat) :
    let s := exec (init t0 scripts) sched
    (∀ w1 w2, (s.ws w1).holds = true → (s.ws w2).holds = true → w1 = w2) ∧
    (∀ w, (s.ws w).holds = true ↔ s.holder = some w) := by
  intro s
  have hinv := inv_exec (inv_init t0 scripts hd) sched
  refine ⟨?_, hinv.mutex⟩
  intro w1 w2 h1 h2
  have e1 := (hinv.mutex w1).1 h1
  have e2 := (hinv.mutex w2).1 h2
  rw [e1] at e2; cases e2; rfl

/-- **C04.generation.**  After `m` successful commits the generation is `g0 + m`: every commit
    advances it by exactly one, no gaps, no repeats. -/
theorem generation (t0 : Toc) (scripts : Nat → List Step) (hd : Disciplined scripts)
    (sched : List Nat) (w : Nat) :
    let s := exec (init t0 scripts) sched
    s.toc.gen = t0.gen + s.commits.length ∧
    ((stepW s w).toc.gen = s.toc.gen ∧ (stepW s w).commits = s.commits ∨
     (stepW s w).toc.gen = s.toc.gen + 1 ∧ (stepW s w).commits = s.commits ++ [w]) := by
  intro s
  have hinv := inv_exec (inv_init t0 scripts hd) sched
  refine ⟨hinv.gen, ?_⟩
  rcases toc_step hinv w with ⟨e, e'⟩ | ⟨e, e'⟩
  · exact Or.inl ⟨by rw [e], e'⟩
  · exact Or.inr ⟨by rw [e], e'⟩

/-- **C04.no_lost_update.**  The TOC always reflects the initial state followed by the changes
    of every writer that committed, in commit order, each exactly once; and whatever a TOC
    reflects is reflected (as a prefix) by every later TOC. -/
theorem no_lost_update (t0 : Toc) (scripts : Nat → List Step) (hd : Disciplined scripts)
    (sched later : List Nat) :
    let s := exec (init t0 scripts) sched
    let s' := exec (init t0 scripts) (sched ++ later)
    s.toc.ops = t0.ops ++ s.commits.flatMap (fun w => (s.ws w).pending) ∧
    s.toc.ops <+: s'.toc.ops ∧ s.commits <+: s'.commits := by
  intro s s'
  have hinv := inv_exec (inv_init t0 scripts hd) sched
  refine ⟨hinv.ops, ?_⟩
  have := ops_prefix_exec hinv later
  have e : s' = exec s later := by simp [s, s', exec, List.foldl_append]
  rw [e]
  exact ⟨this.1, this.2.2⟩

/-- **C04.lock_released.**  A writer whose script has run to its end (commit, cancel, exception
    exit, or `LockError`) does not hold the lock; when all have, the lock is free, and a writer
    that then tries acquires it. -/
theorem lock_released (t0 : Toc) (scripts : Nat → List Step) (hd : Disciplined scripts)
    (sched : List Nat) :
    let s := exec (init t0 scripts) sched
    (∀ w, (s.ws w).script = [] → (s.ws w).holds = false) ∧
    ((∀ w, (s.ws w).script = []) → s.holder = none) ∧
    (s.holder = none → ∀ v x r, x.script = .tryLock :: r →
      ((stepW (setW s v x) v).ws v).holds = true ∧ (stepW (setW s v x) v).holder = some v) := by
  intro s
  have hinv := inv_exec (inv_init t0 scripts hd) sched
  have h1 : ∀ w, (s.ws w).script = [] → (s.ws w).holds = false := by
    intro w hw
    cases hinv.phase w with
    | idle a b c d e => exact a
    | done a b => exact a
    | locked r' a b c d e f => rw [hw] at e; cases e
    | ready a b c d => rw [hw] at d; simp [tailOK] at d
    | written a b c => rw [hw] at c; simp [postOK] at c
  refine ⟨h1, ?_, ?_⟩
  · intro hall
    cases hh : s.holder with
    | none => rfl
    | some u =>
      have := (hinv.mutex u).2 hh
      rw [h1 u (hall u)] at this; cases this
  · intro hfree v x r hx
    simp [stepW, setW, hx, hfree]

/-- **C04.trace_is_script.**  What the predicate evaluated on logged writer lifetimes says in terms
    of the machine: a lifetime accepted by `TraceDiscipline` is either a lone failed acquire, or
    the complete sequence of steps of a script satisfying `LockDiscipline` (the script the
    theorems above quantify over). -/
theorem trace_is_script (tr : List TEv) (h : TraceDiscipline tr = true) :
    tr = [.acquire false] ∨
    (∃ r, tr = .acquire true :: r) ∧ LockDiscipline (tr.map TEv.toStep) = true := by
  match tr, h with
  | [.acquire false], _ => exact Or.inl rfl
  | .acquire true :: r, h => exact Or.inr ⟨⟨r, rfl⟩, by simpa [TraceDiscipline, TEv.toStep] using h⟩

/-- **C04.failed_acquire_inert.**  "Fails with LockError instead of proceeding": a writer whose
    `tryLock` meets a held lock does nothing then or ever after — whatever the rest of its script
    was and however often it is scheduled, lock holder, TOC and commit list stay as they are.
    (This is the machine-side meaning of the logged lifetime `[acquire false]`.) -/
theorem failed_acquire_inert (s : State) (w u : Nat) (r : List Step)
    (hheld : s.holder = some u) (hs : (s.ws w).script = .tryLock :: r) (n : Nat) :
    let s' := exec s (List.replicate (n + 1) w)
    (s'.ws w).failed = true ∧ (s'.ws w).script = [] ∧ (s'.ws w).holds = (s.ws w).holds ∧
    s'.holder = s.holder ∧ s'.toc = s.toc ∧ s'.commits = s.commits ∧
    ∀ v, v ≠ w → s'.ws v = s.ws v := by
  have h1 : stepW s w = setW s w { s.ws w with script := [], failed := true } := by
    simp [stepW, hs, hheld]
  have hidle : ∀ (t : State), (t.ws w).script = [] → ∀ m, exec t (List.replicate m w) = t := by
    intro t ht m
    induction m with
    | zero => rfl
    | succ m ih =>
      show exec (stepW t w) (List.replicate m w) = t
      have : stepW t w = t := by simp [stepW, ht]
      rw [this]; exact ih
  intro s'
  have hs' : s' = setW s w { s.ws w with script := [], failed := true } := by
    show exec (stepW s w) (List.replicate n w) = _
    rw [h1]
    exact hidle _ (by simp [setW]) n
  rw [hs']
  refine ⟨by simp [setW], by simp [setW], by simp [setW], rfl, rfl, rfl, ?_⟩
  intro v hv
  simp [setW, hv]

/-- one step of writer `w` consumes the head of its script, or (failed `tryLock`) all of it -/
theorem stepW_script (t : State) (w : Nat) :
    ((stepW t w).ws w).script = (t.ws w).script.tail ∨ ((stepW t w).ws w).script = [] := by
  unfold stepW
  simp only
  cases hsc : (t.ws w).script with
  | nil => right; simp [hsc]
  | cons st r =>
    cases st with
    | tryLock => simp only; cases t.holder <;> simp [setW]
    | readToc => left; simp [setW]
    | work op => left; simp [setW]
    | io => left; simp [setW]
    | writeToc => simp only; cases (t.ws w).base <;> simp [setW]
    | release => simp only; split <;> simp [setW]

theorem exec_idle (x : State) (w : Nat) (hx : (x.ws w).script = []) (k : Nat) :
    exec x (List.replicate k w) = x := by
  induction k with
  | zero => rfl
  | succ k ihk =>
    show exec (stepW x w) (List.replicate k w) = x
    have : stepW x w = x := by simp [stepW, hx]
    rw [this]; exact ihk

/-- **C04.script_runs_to_release.**  A disciplined script runs, left alone, to its end and hands
    the lock back (or gives up at once with `LockError`): the executed steps of a successful
    lifetime are exactly the script. -/
theorem script_runs_to_release (t0 : Toc) (scripts : Nat → List Step) (hd : Disciplined scripts)
    (sched : List Nat) (w : Nat) :
    let s := exec (init t0 scripts) sched
    let s' := exec s (List.replicate (s.ws w).script.length w)
    (s'.ws w).script = [] ∧ (s'.ws w).holds = false := by
  intro s s'
  have key : ∀ (m : Nat) (t : State), (t.ws w).script.length = m →
      ((exec t (List.replicate m w)).ws w).script = [] := by
    intro m
    induction m with
    | zero =>
      intro t ht
      exact List.eq_nil_of_length_eq_zero ht
    | succ m ih =>
      intro t ht
      show ((exec (stepW t w) (List.replicate m w)).ws w).script = []
      rcases stepW_script t w with h | h
      · apply ih
        rw [h, List.length_tail, ht]; rfl
      · rw [exec_idle _ w h m]; exact h
  have h1 := key _ s rfl
  refine ⟨h1, ?_⟩
  have hinv : Inv t0 s' := by
    show Inv t0 (exec (exec (init t0 scripts) sched) _)
    exact inv_exec (inv_exec (inv_init t0 scripts hd) sched) _
  cases hinv.phase w with
  | idle a b c d e => exact a
  | done a b => exact a
  | locked r' a b c d e f => rw [h1] at e; cases e
  | ready a b c d => rw [h1] at d; simp [tailOK] at d
  | written a b c => rw [h1] at c; simp [postOK] at c

/-! ### The constructor that fails after it took the lock

`SegmentWriter.__init__` acquires the lock first; reading the TOC, creating the temp storage, the
codec's `new_segment` / `per_document_writer` / `field_writer` can raise afterwards.  As repaired in
round 3 (`fix: SegmentWriter releases the write lock when its constructor fails after acquiring it`)
the lifetime then is: acquire, TOC read (attempted), some storage operations, release. -/

/-- the script of a writer whose constructor fails after `n` storage operations -/
def failedInit (n : Nat) : List Step := .tryLock :: .readToc :: (List.replicate n .io ++ [.release])

/-- the same lifetime before the repair: nobody ever releases -/
def failedInitLeak (n : Nat) : List Step := .tryLock :: .readToc :: List.replicate n .io

theorem tailOK_ios (n : Nat) : tailOK (List.replicate n .io ++ [.release]) = true := by
  induction n with
  | zero => rfl
  | succ n ih => simpa [List.replicate_succ, tailOK] using ih

/-- **C04.failed_init_disciplined.**  The failed-constructor lifetime is a `LockDiscipline` script, so
    `mutex`, `generation`, `no_lost_update`, `lock_released` and `script_runs_to_release` cover it:
    it publishes nothing and hands the lock back. -/
theorem failed_init_disciplined (n : Nat) : LockDiscipline (failedInit n) = true := by
  simp only [failedInit, LockDiscipline]
  exact tailOK_ios n

/-- **C04.finished_writer_not_holder.**  Any disciplined writer — in particular one whose constructor
    failed (`failed_init_disciplined`) — left alone until its script has run out, has released: it
    does not hold the lock and is not the recorded holder, whatever the others did before. -/
theorem finished_writer_not_holder (t0 : Toc) (scripts : Nat → List Step) (hd : Disciplined scripts)
    (w : Nat) (sched : List Nat) :
    let s := exec (init t0 scripts) sched
    let s' := exec s (List.replicate (s.ws w).script.length w)
    (s'.ws w).script = [] ∧ (s'.ws w).holds = false ∧ s'.holder ≠ some w := by
  intro s s'
  obtain ⟨h1, h2⟩ := script_runs_to_release t0 scripts hd sched w
  refine ⟨h1, h2, ?_⟩
  intro hh
  have hinv : Inv t0 s' := by
    show Inv t0 (exec (exec (init t0 scripts) sched) _)
    exact inv_exec (inv_exec (inv_init t0 scripts hd) sched) _
  have := (hinv.mutex w).2 hh
  rw [h2] at this
  cases this

/-- before the repair the lifetime was not a disciplined script, and the index was dead-locked: the
    failed writer keeps the lock, every later writer gets `LockError` -/
example : LockDiscipline (failedInitLeak 1) = false := by decide
example : let s := exec (init ⟨5, [1]⟩ fun w => if w = 0 then failedInitLeak 1 else
      if w = 1 then [.tryLock, .readToc, .work 7, .writeToc, .release] else []) [0, 0, 0, 1, 1, 1]
    s.holder = some 0 ∧ (s.ws 1).failed = true ∧ s.toc = ⟨5, [1]⟩ := by decide
/-- after it: the second writer commits -/
example : let s := exec (init ⟨5, [1]⟩ fun w => if w = 0 then failedInit 1 else
      if w = 1 then [.tryLock, .readToc, .work 7, .writeToc, .release] else []) [0, 0, 0, 0, 1, 1, 1, 1, 1]
    s.holder = none ∧ (s.ws 1).failed = false ∧ s.toc = ⟨6, [1, 7]⟩ := by decide

/-! ### A concrete instance -/
namespace Example

/-- two committing writers, one cancelling writer -/
def scripts : Nat → List Step
  | 0 => [.tryLock, .readToc, .work 10, .io, .writeToc, .io, .release]
  | 1 => [.tryLock, .readToc, .work 20, .work 21, .io, .writeToc, .release]
  | 2 => [.tryLock, .readToc, .work 30, .io, .release]
  | _ => []

theorem disciplined : Disciplined scripts := by
  intro w
  match w with
  | 0 => left; decide
  | 1 => left; decide
  | 2 => left; decide
  | _ + 3 => right; rfl

/-- writer 1 is locked out while writer 0 is active (LockError), writer 2 cancels, writer 0 commits -/
example : let s := exec (init ⟨5, [1]⟩ scripts) [0, 1, 0, 0, 0, 0, 0, 2, 0, 2, 2, 2, 2, 2]
    s.toc = ⟨6, [1, 10]⟩ ∧ (s.ws 1).failed = true ∧ s.holder = none ∧ s.commits = [0] := by decide

/-- the script that reads the TOC *before* taking the lock is rejected by the predicate, and does
    lose an update: both writers publish generation 6 and writer 0's change is gone -/
def badScripts : Nat → List Step
  | 0 => [.tryLock, .readToc, .work 10, .writeToc, .release]
  | 1 => [.readToc, .tryLock, .work 20, .writeToc, .release]
  | _ => []

example : LockDiscipline (badScripts 1) = false := by decide
example : (exec (init ⟨5, [1]⟩ badScripts) [1, 0, 0, 0, 0, 0, 1, 1, 1, 1]).toc = ⟨6, [1, 20]⟩ := by decide

end Example

end WM.C04
