import WM.Model.FSLock
import WM.Lemmas.FSLock
/-!
C04 — one writer at a time; no committed update is ever lost.

`scripts w` is the step script of writer `w` (any number of writers: all but finitely many scripts
may be empty), `sched` the order in which the scheduler lets writers move.  The theorems hold for
every schedule, provided every script satisfies the decidable `LockDiscipline`, which the check
evaluates on the storage traces of real `SegmentWriter` / `AsyncWriter` / `BufferedWriter` lives.
-/
namespace WM.C04
open WM.Lock

abbrev Disciplined (scripts : Nat → List Step) : Prop :=
  ∀ w, LockDiscipline (scripts w) = true ∨ scripts w = []

/-- **C04.mutex.**  In every reachable state at most one writer is between its successful
    acquire and its release, and it is the one the lock records. -/
theorem mutex (t0 : Toc) (scripts : Nat → List Step) (hd : Disciplined scripts) (sched : List Nat) :
    let s := exec (init t0 scripts) sched
    (∀ w1 w2, (s.ws w1).holds = true → (s.ws w2).holds = true → w1 = w2) ∧
    (∀ w, (s.ws w).holds = true ↔ s.holder = some w) := by
  intro s
  have hinv := inv_exec (inv_init t0 scripts hd) sched
  refine ⟨?_, hinv.mutex⟩
  intro w1 w2 h1 h2
  have e1 := (hinv.mutex w1).1 h1
  have e2 := (hinv.mutex w2).1 h2
  rw [e1] at e2; cases e2; rfl

/-- **C04.generation.**  After `m` successful commits the generation is `g0 + m`: every commit
    advances it by exactly one, no gaps, no repeats. -/
theorem generation (t0 : Toc) (scripts : Nat → List Step) (hd : Disciplined scripts)
    (sched : List Nat) (w : Nat) :
    let s := exec (init t0 scripts) sched
    s.toc.gen = t0.gen + s.commits.length ∧
    ((stepW s w).toc.gen = s.toc.gen ∧ (stepW s w).commits = s.commits ∨
     (stepW s w).toc.gen = s.toc.gen + 1 ∧ (stepW s w).commits = s.commits ++ [w]) := by
  intro s
  have hinv := inv_exec (inv_init t0 scripts hd) sched
  refine ⟨hinv.gen, ?_⟩
  rcases toc_step hinv w with ⟨e, e'⟩ | ⟨e, e'⟩
  · exact Or.inl ⟨by rw [e], e'⟩
  · exact Or.inr ⟨by rw [e], e'⟩

/-- **C04.no_lost_update.**  The TOC always reflects the initial state followed by the changes
    of every writer that committed, in commit order, each exactly once; and whatever a TOC
    reflects is reflected (as a prefix) by every later TOC. -/
theorem no_lost_update (t0 : Toc) (scripts : Nat → List Step) (hd : Disciplined scripts)
    (sched later : List Nat) :
    let s := exec (init t0 scripts) sched
    let s' := exec (init t0 scripts) (sched ++ later)
    s.toc.ops = t0.ops ++ s.commits.flatMap (fun w => (s.ws w).pending) ∧
    s.toc.ops <+: s'.toc.ops ∧ s.commits <+: s'.commits := by
  intro s s'
  have hinv := inv_exec (inv_init t0 scripts hd) sched
  refine ⟨hinv.ops, ?_⟩
  have := ops_prefix_exec hinv later
  have e : s' = exec s later := by simp [s, s', exec, List.foldl_append]
  rw [e]
  exact ⟨this.1, this.2.2⟩

/-- **C04.lock_released.**  A writer whose script has run to its end (commit, cancel, exception
    exit, or `LockError`) does not hold the lock; when all have, the lock is free, and a writer
    that then tries acquires it. -/
theorem lock_released (t0 : Toc) (scripts : Nat → List Step) (hd : Disciplined scripts)
    (sched : List Nat) :
    let s := exec (init t0 scripts) sched
    (∀ w, (s.ws w).script = [] → (s.ws w).holds = false) ∧
    ((∀ w, (s.ws w).script = []) → s.holder = none) ∧
    (s.holder = none → ∀ v x r, x.script = .tryLock :: r →
      ((stepW (setW s v x) v).ws v).holds = true ∧ (stepW (setW s v x) v).holder = some v) := by
  intro s
  have hinv := inv_exec (inv_init t0 scripts hd) sched
  have h1 : ∀ w, (s.ws w).script = [] → (s.ws w).holds = false := by
    intro w hw
    cases hinv.phase w with
    | idle a b c d e => exact a
    | done a b => exact a
    | locked r' a b c d e f => rw [hw] at e; cases e
    | ready a b c d => rw [hw] at d; simp [tailOK] at d
    | written a b c => rw [hw] at c; simp [postOK] at c
  refine ⟨h1, ?_, ?_⟩
  · intro hall
    cases hh : s.holder with
    | none => rfl
    | some u =>
      have := (hinv.mutex u).2 hh
      rw [h1 u (hall u)] at this; cases this
  · intro hfree v x r hx
    simp [stepW, setW, hx, hfree]

/-- **C04.trace_is_script.**  What the predicate evaluated on logged writer lifetimes says in terms
    of the machine: a lifetime accepted by `TraceDiscipline` is either a lone failed acquire, or
    the complete sequence of steps of a script satisfying `LockDiscipline` (the script the
    theorems above quantify over). -/
theorem trace_is_script (tr : List TEv) (h : TraceDiscipline tr = true) :
    tr = [.acquire false] ∨
    (∃ r, tr = .acquire true :: r) ∧ LockDiscipline (tr.map TEv.toStep) = true := by
  match tr, h with
  | [.acquire false], _ => exact Or.inl rfl
  | .acquire true :: r, h => exact Or.inr ⟨⟨r, rfl⟩, by simpa [TraceDiscipline, TEv.toStep] using h⟩

/-- **C04.failed_acquire_inert.**  "Fails with LockError instead of proceeding": a writer whose
    `tryLock` meets a held lock does nothing then or ever after — whatever the rest of its script
    was and however often it is scheduled, lock holder, TOC and commit list stay as they are.
    (This is the machine-side meaning of the logged lifetime `[acquire false]`.) -/
theorem failed_acquire_inert (s : State) (w u : Nat) (r : List Step)
    (hheld : s.holder = some u) (hs : (s.ws w).script = .tryLock :: r) (n : Nat) :
    let s' := exec s (List.replicate (n + 1) w)
    (s'.ws w).failed = true ∧ (s'.ws w).script = [] ∧ (s'.ws w).holds = (s.ws w).holds ∧
    s'.holder = s.holder ∧ s'.toc = s.toc ∧ s'.commits = s.commits ∧
    ∀ v, v ≠ w → s'.ws v = s.ws v := by
  have h1 : stepW s w = setW s w { s.ws w with script := [], failed := true } := by
    simp [stepW, hs, hheld]
  have hidle : ∀ (t : State), (t.ws w).script = [] → ∀ m, exec t (List.replicate m w) = t := by
    intro t ht m
    induction m with
    | zero => rfl
    | succ m ih =>
      show exec (stepW t w) (List.replicate m w) = t
      have : stepW t w = t := by simp [stepW, ht]
      rw [this]; exact ih
  intro s'
  have hs' : s' = setW s w { s.ws w with script := [], failed := true } := by
    show exec (stepW s w) (List.replicate n w) = _
    rw [h1]
    exact hidle _ (by simp [setW]) n
  rw [hs']
  refine ⟨by simp [setW], by simp [setW], by simp [setW], rfl, rfl, rfl, ?_⟩
  intro v hv
  simp [setW, hv]

/-- one step of writer `w` consumes the head of its script, or (failed `tryLock`) all of it -/
theorem stepW_script (t : State) (w : Nat) :
    ((stepW t w).ws w).script = (t.ws w).script.tail ∨ ((stepW t w).ws w).script = [] := by
  unfold stepW
  simp only
  cases hsc : (t.ws w).script with
  | nil => right; simp [hsc]
  | cons st r =>
    cases st with
    | tryLock => simp only; cases t.holder <;> simp [setW]
    | readToc => left; simp [setW]
    | work op => left; simp [setW]
    | io => left; simp [setW]
    | writeToc => simp only; cases (t.ws w).base <;> simp [setW]
    | release => simp only; split <;> simp [setW]

theorem exec_idle (x : State) (w : Nat) (hx : (x.ws w).script = []) (k : Nat) :
    exec x (List.replicate k w) = x := by
  induction k with
  | zero => rfl
  | succ k ihk =>
    show exec (stepW x w) (List.replicate k w) = x
    have : stepW x w = x := by simp [stepW, hx]
    rw [this]; exact ihk

/-- **C04.script_runs_to_release.**  A disciplined script runs, left alone, to its end and hands
    the lock back (or gives up at once with `LockError`): the executed steps of a successful
    lifetime are exactly the script. -/
theorem script_runs_to_release (t0 : Toc) (scripts : Nat → List Step) (hd : Disciplined scripts)
    (sched : List Nat) (w : Nat) :
    let s := exec (init t0 scripts) sched
    let s' := exec s (List.replicate (s.ws w).script.length w)
    (s'.ws w).script = [] ∧ (s'.ws w).holds = false := by
  intro s s'
  have key : ∀ (m : Nat) (t : State), (t.ws w).script.length = m →
      ((exec t (List.replicate m w)).ws w).script = [] := by
    intro m
    induction m with
    | zero =>
      intro t ht
      exact List.eq_nil_of_length_eq_zero ht
    | succ m ih =>
      intro t ht
      show ((exec (stepW t w) (List.replicate m w)).ws w).script = []
      rcases stepW_script t w with h | h
      · apply ih
        rw [h, List.length_tail, ht]; rfl
      · rw [exec_idle _ w h m]; exact h
  have h1 := key _ s rfl
  refine ⟨h1, ?_⟩
  have hinv : Inv t0 s' := by
    show Inv t0 (exec (exec (init t0 scripts) sched) _)
    exact inv_exec (inv_exec (inv_init t0 scripts hd) sched) _
  cases hinv.phase w with
  | idle a b c d e => exact a
  | done a b => exact a
  | locked r' a b c d e f => rw [h1] at e; cases e
  | ready a b c d => rw [h1] at d; simp [tailOK] at d
  | written a b c => rw [h1] at c; simp [postOK] at c

/-! ### The constructor that fails after it took the lock

`SegmentWriter.__init__` acquires the lock first; reading the TOC, creating the temp storage, the
codec's `new_segment` / `per_document_writer` / `field_writer` can raise afterwards.  As repaired in
round 3 (`fix: SegmentWriter releases the write lock when its constructor fails after acquiring it`)
the lifetime then is: acquire, TOC read (attempted), some storage operations, release. -/

/-- the script of a writer whose constructor fails after `n` storage operations -/
def failedInit (n : Nat) : List Step := .tryLock :: .readToc :: (List.replicate n .io ++ [.release])

/-- the same lifetime before the repair: nobody ever releases -/
def failedInitLeak (n : Nat) : List Step := .tryLock :: .readToc :: List.replicate n .io

theorem tailOK_ios (n : Nat) : tailOK (List.replicate n .io ++ [.release]) = true := by
  induction n with
  | zero => rfl
  | succ n ih => simpa [List.replicate_succ, tailOK] using ih

/-- **C04.failed_init_disciplined.**  The failed-constructor lifetime is a `LockDiscipline` script, so
    `mutex`, `generation`, `no_lost_update`, `lock_released` and `script_runs_to_release` cover it:
    it publishes nothing and hands the lock back. -/
theorem failed_init_disciplined (n : Nat) : LockDiscipline (failedInit n) = true := by
  simp only [failedInit, LockDiscipline]
  exact tailOK_ios n

/-- **C04.finished_writer_not_holder.**  Any disciplined writer — in particular one whose constructor
    failed (`failed_init_disciplined`) — left alone until its script has run out, has released: it
    does not hold the lock and is not the recorded holder, whatever the others did before. -/
theorem finished_writer_not_holder (t0 : Toc) (scripts : Nat → List Step) (hd : Disciplined scripts)
    (w : Nat) (sched : List Nat) :
    let s := exec (init t0 scripts) sched
    let s' := exec s (List.replicate (s.ws w).script.length w)
    (s'.ws w).script = [] ∧ (s'.ws w).holds = false ∧ s'.holder ≠ some w := by
  intro s s'
  obtain ⟨h1, h2⟩ := script_runs_to_release t0 scripts hd sched w
  refine ⟨h1, h2, ?_⟩
  intro hh
  have hinv : Inv t0 s' := by
    show Inv t0 (exec (exec (init t0 scripts) sched) _)
    exact inv_exec (inv_exec (inv_init t0 scripts hd) sched) _
  have := (hinv.mutex w).2 hh
  rw [h2] at this
  cases this

/-- before the repair the lifetime was not a disciplined script, and the index was dead-locked: the
    failed writer keeps the lock, every later writer gets `LockError` -/
example : LockDiscipline (failedInitLeak 1) = false := by decide
example : let s := exec (init ⟨5, [1]⟩ fun w => if w = 0 then failedInitLeak 1 else
      if w = 1 then [.tryLock, .readToc, .work 7, .writeToc, .release] else []) [0, 0, 0, 1, 1, 1]
    s.holder = some 0 ∧ (s.ws 1).failed = true ∧ s.toc = ⟨5, [1]⟩ := by decide
/-- after it: the second writer commits -/
example : let s := exec (init ⟨5, [1]⟩ fun w => if w = 0 then failedInit 1 else
      if w = 1 then [.tryLock, .readToc, .work 7, .writeToc, .release] else []) [0, 0, 0, 0, 1, 1, 1, 1, 1]
    s.holder = none ∧ (s.ws 1).failed = false ∧ s.toc = ⟨6, [1, 7]⟩ := by decide

/-! ### Lifetimes by the way they end: commit, cancel, failing with-block, failing commit

`commitLife` / `cancelLife` / `withBlock` (`WM/Model/FSLock.lean`) are the scripts of
`SegmentWriter.commit`, `SegmentWriter.cancel`, and `IndexWriter.__exit__` around them, including the
commit of the multi-process writer that finds a dead sub-writer (`MpWriter._subtasks_failed`). -/

theorem tailOK_body (ops : List Op) (n : Nat) (r : List Step) (h : tailOK r = true) :
    tailOK (lifeBody ops n ++ r) = true := by
  unfold lifeBody
  induction ops with
  | cons o os ih => simpa [tailOK] using ih
  | nil =>
    induction n with
    | zero => simpa using h
    | succ n ih => simpa [List.replicate_succ, tailOK] using ih

theorem postOK_ios (m : Nat) : postOK (List.replicate m .io ++ [.release]) = true := by
  induction m with
  | zero => rfl
  | succ m ih => simpa [List.replicate_succ, postOK] using ih

/-- **C04.commit_life_disciplined / cancel_life_disciplined.**  "The lock is released by commit() and
    cancel()": both lifetimes, with any buffered work and any number of storage operations before and
    after, are `LockDiscipline` scripts (so every theorem above covers them). -/
theorem commit_life_disciplined (ops : List Op) (n m : Nat) :
    LockDiscipline (commitLife ops n m) = true := by
  simp only [commitLife, LockDiscipline]
  apply tailOK_body
  simp only [tailOK]
  exact postOK_ios m

theorem cancel_life_disciplined (ops : List Op) (n m : Nat) :
    LockDiscipline (cancelLife ops n m) = true := by
  simp only [cancelLife, LockDiscipline]
  exact tailOK_body ops n _ (tailOK_ios m)

example : commitLife [7, 8] 1 2 =
    [.tryLock, .readToc, .work 7, .work 8, .io, .writeToc, .io, .io, .release] := by decide
example : cancelLife [7] 2 0 = [.tryLock, .readToc, .work 7, .io, .io, .release] := by decide

/-- **C04.with_block_disciplined.**  "… and a failing with-block, so writers never dead-lock the
    index": whatever the block does, whether it raises, and whether the commit run by `__exit__` fails
    on a dead sub-writer process, the lifetime of `with ix.writer() as w:` — as the code is, i.e. with
    `_subtasks_failed` cancelling — is a `LockDiscipline` script. -/
theorem with_block_disciplined (ops : List Op) (n m : Nat) (bodyRaises commitFails : Bool) :
    LockDiscipline (withBlock ops n m bodyRaises commitFails true) = true := by
  unfold withBlock
  cases bodyRaises <;> cases commitFails <;>
    simp [commit_life_disciplined, cancel_life_disciplined]

example : withBlock [7] 1 1 false true true = [.tryLock, .readToc, .work 7, .io, .io, .release] := by decide

/-- **C04.with_block_releases.**  The composition with the machine: among any disciplined writers and
    after any schedule, a writer living in a with-block (any body, any of the three endings) that is
    let run until its script is used up does not hold the lock and is not the recorded holder; and
    once every script has run out, the next writer that tries gets the lock. -/
theorem with_block_releases (t0 : Toc) (scripts : Nat → List Step) (w : Nat)
    (ops : List Op) (n m : Nat) (bodyRaises commitFails : Bool)
    (hw : scripts w = withBlock ops n m bodyRaises commitFails true)
    (hd : ∀ v, v ≠ w → LockDiscipline (scripts v) = true ∨ scripts v = []) (sched : List Nat) :
    let s := exec (init t0 scripts) sched
    let s' := exec s (List.replicate (s.ws w).script.length w)
    (s'.ws w).script = [] ∧ (s'.ws w).holds = false ∧ s'.holder ≠ some w ∧
    ((∀ v, (s'.ws v).script = []) → s'.holder = none) := by
  intro s s'
  have hd' : Disciplined scripts := by
    intro v
    by_cases hv : v = w
    · left; rw [hv, hw]; exact with_block_disciplined ops n m bodyRaises commitFails
    · exact hd v hv
  obtain ⟨h1, h2, h3⟩ := finished_writer_not_holder t0 scripts hd' w sched
  refine ⟨h1, h2, h3, ?_⟩
  have e : s' = exec (init t0 scripts) (sched ++ List.replicate (s.ws w).script.length w) := by
    simp [s, s', exec, List.foldl_append]
  rw [e]
  exact (lock_released t0 scripts hd' _).2.1

/-- one step: the commit list stays, or the stepping writer's next step was `writeToc` and it is appended;
    the records of the other writers are untouched -/
theorem stepW_commits (t : State) (u : Nat) :
    ((stepW t u).commits = t.commits ∨
      (∃ r, (t.ws u).script = .writeToc :: r) ∧ (stepW t u).commits = t.commits ++ [u]) ∧
    ∀ v, v ≠ u → (stepW t u).ws v = t.ws v := by
  cases hsc : (t.ws u).script with
  | nil => simp [stepW, hsc]
  | cons st r =>
    cases st with
    | tryLock => cases hh : t.holder <;> simp [stepW, hsc, hh, setW] <;> intro v hv <;> simp [hv]
    | readToc => simp [stepW, hsc, setW]; intro v hv; simp [hv]
    | work op => simp [stepW, hsc, setW]; intro v hv; simp [hv]
    | io => simp [stepW, hsc, setW]; intro v hv; simp [hv]
    | writeToc => cases hb : (t.ws u).base <;> simp [stepW, hsc, hb, setW] <;> intro v hv <;> simp [hv]
    | release => cases hh : (t.ws u).holds <;> simp [stepW, hsc, hh, setW] <;> intro v hv <;> simp [hv]

/-- **C04.never_commits.**  "Nothing is committed by a writer that cancels": a writer whose (remaining)
    script contains no `writeToc` — `cancelLife`: cancel(), the failing with-block, the multi-process
    commit that found a dead sub-writer — is never added to the commit list, under any schedule of
    all writers; with `no_lost_update` / `generation`: its buffered changes are in no TOC and it does not
    advance the generation. -/
theorem never_commits (s : State) (w : Nat) (hw : Step.writeToc ∉ (s.ws w).script) (sched : List Nat) :
    let s' := exec s sched
    Step.writeToc ∉ (s'.ws w).script ∧ (w ∈ s'.commits → w ∈ s.commits) := by
  have key : ∀ (sched : List Nat) (t : State), Step.writeToc ∉ (t.ws w).script →
      (w ∈ t.commits → w ∈ s.commits) →
      Step.writeToc ∉ ((exec t sched).ws w).script ∧ (w ∈ (exec t sched).commits → w ∈ s.commits) := by
    intro sched
    induction sched with
    | nil => intro t h1 h2; exact ⟨h1, h2⟩
    | cons u us ih =>
      intro t h1 h2
      show Step.writeToc ∉ ((exec (stepW t u) us).ws w).script ∧ _
      obtain ⟨hc, ho⟩ := stepW_commits t u
      apply ih
      · by_cases hu : w = u
        · subst hu
          rcases stepW_script t w with h | h
          · rw [h]; intro hm; exact h1 (List.mem_of_mem_tail hm)
          · rw [h]; simp
        · rw [ho w hu]; exact h1
      · intro hm
        rcases hc with e | ⟨⟨r, hr⟩, e⟩
        · rw [e] at hm; exact h2 hm
        · rw [e] at hm
          rcases List.mem_append.1 hm with h | h
          · exact h2 h
          · have hu : w = u := by simpa using h
            subst hu
            rw [hr] at h1
            exact absurd (List.mem_cons_self) h1
  exact key sched s hw id

theorem cancelLife_no_writeToc (ops : List Op) (n m : Nat) : Step.writeToc ∉ cancelLife ops n m := by
  simp [cancelLife, lifeBody]

/-- a failing with-block (either way) among any writers, any schedule: never in the commit list -/
theorem failing_with_block_never_commits (t0 : Toc) (scripts : Nat → List Step) (w : Nat)
    (ops : List Op) (n m : Nat) (bodyRaises commitFails : Bool) (hf : bodyRaises = true ∨ commitFails = true)
    (hw : scripts w = withBlock ops n m bodyRaises commitFails true) (sched : List Nat) :
    w ∉ (exec (init t0 scripts) sched).commits := by
  have h0 : Step.writeToc ∉ ((init t0 scripts).ws w).script := by
    show Step.writeToc ∉ scripts w
    rw [hw]
    unfold withBlock
    rcases hf with h | h <;> cases bodyRaises <;> cases commitFails <;>
      simp_all [cancelLife_no_writeToc]
  intro hm
  have := (never_commits (init t0 scripts) w h0 sched).2 hm
  simp [init] at this

example : (exec (init ⟨5, [1]⟩ fun w => if w = 0 then withBlock [7] 1 1 false true true else
      if w = 1 then commitLife [8] 1 0 else []) [0, 0, 0, 0, 0, 0, 1, 1, 1, 1, 1, 1]).commits = [1] := by decide

/-- **C04.leak_deadlocks.**  Why the cancel inside `_subtasks_failed` is needed: a writer that holds the
    lock and whose remaining script contains no release (a `commit()` that raised out of `__exit__`
    with nobody cancelling) keeps the lock for ever — after *every* schedule of *all* writers it is
    still the holder, and every other writer that then tries gets `LockError` (`failed`). -/
theorem leak_deadlocks (s : State) (w : Nat) (hheld : s.holder = some w)
    (hnorel : Step.release ∉ (s.ws w).script)
    (hothers : ∀ v, v ≠ w → (s.ws v).holds = false) (sched : List Nat) :
    let s' := exec s sched
    s'.holder = some w ∧
    ∀ v r, v ≠ w → (s'.ws v).script = .tryLock :: r →
      ((stepW s' v).ws v).failed = true ∧ (stepW s' v).holder = some w := by
  have key : ∀ (sched : List Nat) (t : State), t.holder = some w → Step.release ∉ (t.ws w).script →
      (∀ v, v ≠ w → (t.ws v).holds = false) →
      (exec t sched).holder = some w := by
    intro sched
    induction sched with
    | nil => intro t h _ _; exact h
    | cons u us ih =>
      intro t h1 h2 h3
      show (exec (stepW t u) us).holder = some w
      have step : (stepW t u).holder = some w ∧ Step.release ∉ ((stepW t u).ws w).script ∧
          (∀ v, v ≠ w → ((stepW t u).ws v).holds = false) := by
        cases hsc : (t.ws u).script with
        | nil =>
          have e : stepW t u = t := by simp [stepW, hsc]
          rw [e]; exact ⟨h1, h2, h3⟩
        | cons st r =>
          have hr : u = w → Step.release ∉ r ∧ st ≠ Step.release := by
            intro e; rw [e] at hsc; rw [hsc] at h2
            simp only [List.mem_cons, not_or] at h2
            exact ⟨h2.2, fun e' => h2.1 e'.symm⟩
          have hset : ∀ (x : WState), (u = w → Step.release ∉ x.script) →
              (u ≠ w → x.holds = false) →
              (setW t u x).holder = some w ∧ Step.release ∉ ((setW t u x).ws w).script ∧
              (∀ v, v ≠ w → ((setW t u x).ws v).holds = false) := by
            intro x hx1 hx2
            refine ⟨h1, ?_, ?_⟩
            · simp only [setW]
              by_cases e : w = u
              · simp [e]; exact hx1 e.symm
              · simp [e]; exact h2
            · intro v hv
              simp only [setW]
              by_cases e : v = u
              · simp [e]; exact hx2 (by rw [← e]; exact hv)
              · simp [e]; exact h3 v hv
          cases st with
          | tryLock =>
            have e : stepW t u = setW t u { t.ws u with script := [], failed := true } := by
              simp [stepW, hsc, h1]
            rw [e]; exact hset _ (fun _ => by simp) (fun e => h3 u e)
          | readToc =>
            have e : stepW t u = setW t u { t.ws u with script := r, base := some t.toc } := by
              simp [stepW, hsc]
            rw [e]; exact hset _ (fun e => (hr e).1) (fun e => h3 u e)
          | work op =>
            have e : stepW t u = setW t u { t.ws u with script := r, pending := (t.ws u).pending ++ [op] } := by
              simp [stepW, hsc]
            rw [e]; exact hset _ (fun e => (hr e).1) (fun e => h3 u e)
          | io =>
            have e : stepW t u = setW t u { t.ws u with script := r } := by simp [stepW, hsc]
            rw [e]; exact hset _ (fun e => (hr e).1) (fun e => h3 u e)
          | writeToc =>
            cases hb : (t.ws u).base with
            | none =>
              have e : stepW t u = setW t u { t.ws u with script := r } := by simp [stepW, hsc, hb]
              rw [e]; exact hset _ (fun e => (hr e).1) (fun e => h3 u e)
            | some b =>
              have e : stepW t u = { setW t u { t.ws u with script := r, committed := true } with
                  toc := ⟨b.gen + 1, b.ops ++ (t.ws u).pending⟩, commits := t.commits ++ [u] } := by
                simp [stepW, hsc, hb]
              have := hset { t.ws u with script := r, committed := true } (fun e => (hr e).1) (fun e => h3 u e)
              rw [e]; exact ⟨this.1, this.2.1, this.2.2⟩
          | release =>
            have hu : u ≠ w := fun e => (hr e).2 rfl
            have e : stepW t u = setW t u { t.ws u with script := r } := by
              simp [stepW, hsc, h3 u hu]
            rw [e]; exact hset _ (fun e => absurd e hu) (fun _ => h3 u hu)
      exact ih _ step.1 step.2.1 step.2.2
  intro s'
  have hh := key sched s hheld hnorel hothers
  refine ⟨hh, ?_⟩
  intro v r hv hs
  have hh' : s'.holder = some w := hh
  simp [stepW, hs, hh', setW]

/-- the with-block of a multi-process writer whose `_subtasks_failed` does *not* cancel: not a
    disciplined script, and the index is dead-locked (writer 1 gets `LockError`, nothing published) -/
example : LockDiscipline (withBlock [7] 1 1 false true false) = false := by decide
example : let s := exec (init ⟨5, [1]⟩ fun w => if w = 0 then withBlock [7] 1 1 false true false else
      if w = 1 then commitLife [8] 1 0 else []) [0, 0, 0, 0, 1, 1, 1]
    s.holder = some 0 ∧ (s.ws 0).script = [] ∧ (s.ws 1).failed = true ∧ s.toc = ⟨5, [1]⟩ := by decide
/-- as the code is: writer 0's failed commit publishes nothing, writer 1 commits on top -/
example : let s := exec (init ⟨5, [1]⟩ fun w => if w = 0 then withBlock [7] 1 1 false true true else
      if w = 1 then commitLife [8] 1 0 else []) [0, 0, 0, 0, 0, 0, 1, 1, 1, 1, 1, 1]
    s.holder = none ∧ (s.ws 1).failed = false ∧ s.toc = ⟨6, [1, 8]⟩ := by decide

/-! ### A concrete instance -/
namespace Example

/-- two committing writers, one cancelling writer -/
def scripts : Nat → List Step
  | 0 => [.tryLock, .readToc, .work 10, .io, .writeToc, .io, .release]
  | 1 => [.tryLock, .readToc, .work 20, .work 21, .io, .writeToc, .release]
  | 2 => [.tryLock, .readToc, .work 30, .io, .release]
  | _ => []

theorem disciplined : Disciplined scripts := by
  intro w
  match w with
  | 0 => left; decide
  | 1 => left; decide
  | 2 => left; decide
  | _ + 3 => right; rfl

/-- writer 1 is locked out while writer 0 is active (LockError), writer 2 cancels, writer 0 commits -/
example : let s := exec (init ⟨5, [1]⟩ scripts) [0, 1, 0, 0, 0, 0, 0, 2, 0, 2, 2, 2, 2, 2]
    s.toc = ⟨6, [1, 10]⟩ ∧ (s.ws 1).failed = true ∧ s.holder = none ∧ s.commits = [0] := by decide

/-- the script that reads the TOC *before* taking the lock is rejected by the predicate, and does
    lose an update: both writers publish generation 6 and writer 0's change is gone -/
def badScripts : Nat → List Step
  | 0 => [.tryLock, .readToc, .work 10, .writeToc, .release]
  | 1 => [.readToc, .tryLock, .work 20, .writeToc, .release]
  | _ => []

example : LockDiscipline (badScripts 1) = false := by decide
example : (exec (init ⟨5, [1]⟩ badScripts) [1, 0, 0, 0, 0, 0, 1, 1, 1, 1]).toc = ⟨6, [1, 20]⟩ := by decide

end Example

end WM.C04
