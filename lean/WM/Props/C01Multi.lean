import WM.Lemmas.SearchTopTerm
import WM.Props.C01
/-!
C01 (top searcher) — `Query.docs(searcher)` / `Query.matcher(searcher)` evaluate a query against the TOP
searcher; on a multi-segment index the postings of a term are then one `MultiMatcher` over the segments'
posting readers (`MultiReader.postings`), not one matcher per segment.  `WM.Compile.topTerm` mirrors
`Term.matcher` there in the matcher family's cursor vocabulary (`mkMulti` over `ListMatcher` leaves).
-/
namespace WM.C01
open WM.Search WM.Compile

/-- The cursor `Term.matcher(top searcher)` builds over any index (any number of segments, deletions,
    segments without the term) is well formed in the matcher family's sense — so C11's `refine_next`,
    `refine_skipTo` (`skip_to(t)` lands on the first remaining id `>= t`, across segment boundaries) and
    `program` apply to it —, its result list is exactly what the segment-by-segment run enumerates
    (`Collector.run`, `docs_for_query`), and its ids are `answer`: the live documents of the whole index
    that contain the term, in ascending global document numbers. -/
theorem term_top (ls : LeafScore) (so : ShapeOracle) (hso : ValidOracle so) (idx : Index) (hok : IndexOK ls idx)
    (f : String) (t : Term) (b : Rat) (hq : PosQ (.term f t b)) (ctx : Ctx) :
    WM.Matcher.WF (topTerm ls idx f t b).1 (topTerm ls idx f t b).2 ∧
    toPL (topTerm ls idx f t b).den = run ls so ctx (.term f t b) idx ∧
    (topTerm ls idx f t b).den.map (·.1) = answer (.term f t b) idx := by
  obtain ⟨h1, h2⟩ := topTerm_denotes ls so ctx idx f t b
  refine ⟨h1, h2, ?_⟩
  have h3 := segments ls so hso idx hok (.term f t b) hq ctx
  rw [← h2] at h3
  simpa [toPL, List.map_map, Function.comp_def] using h3

/-- non-trivial instance: the two-segment index of `C01.lean` (segment 1: `b c`, `a b`, `a` deleted; segment
    2: `a c`, `b`), term `a` with boost 2: a `MultiMatcher` under a boost wrapper over both segments; term `c`
    with boost 1 likewise; a term no segment has is the `NullMatcher`. -/
example : ((topTerm freqLeaf exIdx "t" [97] 2).1, (topTerm freqLeaf exIdx "t" [97] 2).den) =
      (.boost (.multi .list), [(1, 4), (3, 2)]) ∧
    (topTerm freqLeaf exIdx "t" [99] 1).den.map (·.1) = [0, 3] ∧
    (topTerm freqLeaf exIdx "t" [120] 1).1 = .null ∧
    answer (.term "t" [97] 2) exIdx = [1, 3] := by decide +kernel

end WM.C01
