import WM.Lemmas.Sort
/-! C20 (external merge sort): `SortingPool.items()` is a sorted permutation of what was added,
for every run size (`maxsize ≥ 1`), every `maxfiles ≥ 2` and every total, transitive order. -/
set_option linter.unusedSimpArgs false
namespace WM.C20
open WM.Sort

section
variable {α : Type} (le : α → α → Bool)
  (htrans : ∀ a b c, le a b = true → le b c = true → le a c = true)
  (htotal : ∀ a b, (le a b || le b a) = true)

include htrans htotal in
/-- **The external sort returns its input sorted**: for every run size `maxsize ≥ 1`, every
    `maxfiles ≥ 2` and every input, `sort(items)` is sorted by `le` and a permutation of the input. -/
theorem extsort_sorted_perm (maxsize maxfiles : Nat) (hs : 1 ≤ maxsize) (hm : 2 ≤ maxfiles) (xs : List α) :
    ∃ out, sortAll le maxsize maxfiles xs = .ok out ∧ SortedBy le out ∧ out.Perm xs := by
  unfold sortAll
  have h1 : ¬ maxsize < 1 := by omega
  rw [if_neg h1]
  have hinv := foldl_add_inv le htrans htotal xs ⟨maxsize, [], []⟩ []
    ⟨by intro r hr; simp at hr, by simp⟩
  simp only [List.nil_append] at hinv
  exact items_spec le htrans htotal _ xs hinv maxfiles hm

include htrans htotal in
/-- `reduce_to(target, k)` really gets down to `target` runs (so at most `maxfiles` files are open). -/
theorem extsort_reduce_bound (target k : Nat) (ht : 1 ≤ target) (hk : 2 ≤ k) (runs : List (List α))
    (hs : ∀ r ∈ runs, SortedBy le r) :
    ∃ out, reduceTo le target k runs = .ok out ∧ out.length ≤ max runs.length target
      ∧ (runs.length > target → out.length ≤ target) := by
  unfold reduceTo
  have h1 : ¬ k < 2 := by omega
  have h2 : ¬ target < 1 := by omega
  rw [if_neg h1, if_neg h2]
  rcases reduceLoop_spec le htrans htotal (target - 1) (k - 2) _ runs rfl hs with ⟨_, _, r3, r4⟩
  have : target - 1 + 1 = target := by omega
  rw [this] at r3 r4
  exact ⟨_, rfl, r3, r4⟩

end

/-- Invalid parameters are rejected the way the code rejects them. -/
theorem extsort_rejects {α} (le : α → α → Bool) (xs : List α) (maxsize maxfiles : Nat)
    (h : maxsize < 1 ∨ maxfiles < 2) : sortAll le maxsize maxfiles xs = .error .value := by
  unfold sortAll
  by_cases h1 : maxsize < 1
  · rw [if_pos h1]
  · rw [if_neg h1]
    have h2 : maxfiles < 2 := by omega
    unfold Pool.items
    rw [if_pos h2]

/-- Non-vacuity: run size 2 and two files force three saved runs and one reduction. -/
example : ∃ out, sortAll (fun (a b : Nat) => decide (a ≤ b)) 2 2 [5, 3, 1, 4, 1, 5, 9, 2, 6] = .ok out
    ∧ out.Perm [5, 3, 1, 4, 1, 5, 9, 2, 6] ∧ SortedBy (fun (a b : Nat) => decide (a ≤ b)) out := by
  rcases extsort_sorted_perm (fun (a b : Nat) => decide (a ≤ b))
    (by intro a b c h1 h2; simp only [decide_eq_true_eq] at *; omega)
    (by intro a b; simp only [Bool.or_eq_true, decide_eq_true_eq]; omega) 2 2 (by omega) (by omega)
    [5, 3, 1, 4, 1, 5, 9, 2, 6] with ⟨out, h1, h2, h3⟩
  exact ⟨out, h1, h3, h2⟩

end WM.C20
