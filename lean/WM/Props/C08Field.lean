import WM.Props.C08
import WM.Props.C13
import WM.Lemmas.ColumnsField
/-!
# C08, field level — the value supplied for a sortable field comes back through its column

`add_document(f=v)` hands `field.to_column_value(v)` to the field's column writer;
`reader.column_reader(f)[d]` applies `field.from_column_value` to what the column reader returns.
The theorems below compose the column round-trips of `WM.Props.C08` with the conversions
(UTF-8 here, the sortable encodings of C13) so that the statement is about field values.
-/
namespace WM.C08
open WM.Columns WM.Numeric

/-- **UTF-8**: every Python string without lone surrogates (code points that are Unicode scalar
    values, including non-BMP ones and NUL) encodes, and strict decoding gives it back. -/
theorem utf8_roundtrip (s : List Nat) (hs : ∀ c ∈ s, isScalar c = true) :
    ∃ bs, utf8Encode s = .ok bs ∧ utf8Decode bs = .ok s :=
  WM.Columns.utf8_roundtrip s hs

/-- U+1F600 (non-BMP), U+00E9, NUL and U+FFFF in one string; a lone surrogate is rejected by the
    encoder, an overlong form and an encoded surrogate by the decoder. -/
example : utf8Encode [0x1F600, 0xE9, 0, 0xFFFF] = .ok [0xF0, 0x9F, 0x98, 0x80, 0xC3, 0xA9, 0, 0xEF, 0xBF, 0xBF] ∧
    utf8Decode [0xF0, 0x9F, 0x98, 0x80, 0xC3, 0xA9, 0, 0xEF, 0xBF, 0xBF] = .ok [0x1F600, 0xE9, 0, 0xFFFF] ∧
    utf8Encode [0xD800] = .error .unicodeEncode ∧ utf8Decode [0xC0, 0x80] = .error .unicodeDecode ∧
    utf8Decode [0xED, 0xA0, 0x80] = .error .unicodeDecode := by
  refine ⟨?_, ?_, ?_, ?_, ?_⟩ <;> simp [utf8Encode, utf8EncodeChar, utf8Decode, consOk, isCont]

/-- **TEXT / ID / KEYWORD with the default column** (`VarBytesColumn()`): the unicode value
    supplied for a document is what `column_reader(f)[d]` returns; a document without a value
    reads as `u''`.  (Size: the column holds less than 2^32 bytes; a code point takes at most 4.) -/
theorem text_field_roundtrip (adds : List (Nat × List Nat)) (doccount : Nat)
    (hinc : Increasing adds) (hwithin : Within adds doccount)
    (hs : ∀ p ∈ adds, ∀ c ∈ p.2, isScalar c = true)
    (hsize : 4 * (adds.map fun p => p.2.length).sum < 4294967296) :
    ∃ cadds file, textFieldAdds adds = .ok cadds ∧ varWrite true 32768 cadds doccount = .ok file ∧
      ∀ d, d < doccount → textFieldRead file doccount d = .ok (cell [] adds d) := by
  -- a total encoder that agrees with `utf8Encode` on the supplied strings
  have henc : ∀ p ∈ adds, ∃ bs, utf8Encode p.2 = .ok bs ∧ utf8Decode bs = .ok p.2 :=
    fun p hp => WM.Columns.utf8_roundtrip p.2 (hs p hp)
  let g : List Nat → Bytes := fun s => match utf8Encode s with | .ok bs => bs | .error _ => []
  have hg : ∀ p ∈ adds, utf8Encode p.2 = .ok (g p.2) := by
    intro p hp
    obtain ⟨bs, h1, _⟩ := henc p hp
    simp only [g, h1]
  have hconv := convAdds_ok utf8Encode g adds hg
  let cadds := adds.map fun p => (p.1, g p.2)
  have hinc' : Increasing cadds := increasing_map g adds hinc
  have hwithin' : Within cadds doccount := by
    intro p hp
    simp only [cadds, List.mem_map] at hp
    obtain ⟨q, hq, rfl⟩ := hp
    exact hwithin q hq
  have hsz : totalBytes cadds ≤ 4 * (adds.map fun p => p.2.length).sum := by
    clear hconv hinc' hwithin' hinc hwithin hsize henc hs
    induction adds with
    | nil => simp [cadds, totalBytes]
    | cons p rest ih =>
      have h1 := utf8Encode_length p.2 (g p.2) (hg p List.mem_cons_self)
      have h2 := ih (fun q hq => hg q (List.mem_cons_of_mem _ hq))
      simp only [cadds, totalBytes, List.map_cons, List.sum_cons, List.map_map] at h2 ⊢
      omega
  obtain ⟨file, hw, hr⟩ := varbytes_roundtrip true 32768 cadds doccount hinc' hwithin' (by omega)
  refine ⟨cadds, file, hconv, hw, fun d hd => ?_⟩
  simp only [textFieldRead, hr d hd, cell]
  rw [show lookup cadds d = (lookup adds d).map g from lookup_map g adds d]
  cases hl : lookup adds d with
  | none => simp [utf8Decode]
  | some v =>
    have hmem : ∃ p ∈ adds, p.2 = v := by
      unfold lookup at hl
      cases hf : adds.find? (fun p => p.1 == d) with
      | none => simp [hf] at hl
      | some p => simp [hf] at hl; exact ⟨p, List.mem_of_find?_eq_some hf, hl⟩
    obtain ⟨p, hp, rfl⟩ := hmem
    obtain ⟨bs, h1, h2⟩ := henc p hp
    have : g p.2 = bs := by simp only [g, h1]
    simp only [Option.map_some, Option.getD_some, this, h2]

/-- The hypotheses are satisfiable: a non-BMP string, a gap, an empty string. -/
example : Increasing ([(0, [0x1F600, 0x41]), (2, [])] : List (Nat × List Nat)) ∧
    Within ([(0, [0x1F600, 0x41]), (2, [])] : List (Nat × List Nat)) 4 ∧
    (∀ p ∈ ([(0, [0x1F600, 0x41]), (2, [])] : List (Nat × List Nat)), ∀ c ∈ p.2, isScalar c = true) ∧
    textFieldAdds [(0, [0x1F600, 0x41]), (2, [])] = .ok [(0, [0xF0, 0x9F, 0x98, 0x80, 0x41]), (2, [])] := by
  refine ⟨by simp [Increasing], ?_, ?_, by simp [textFieldAdds, convAdds, utf8Encode, utf8EncodeChar]⟩
  · intro p hp
    simp only [List.mem_cons, List.not_mem_nil, or_false] at hp
    rcases hp with rfl | rfl <;> simp
  · intro p hp c hc
    simp only [List.mem_cons, List.not_mem_nil, or_false] at hp
    rcases hp with rfl | rfl
    · simp only [List.mem_cons, List.not_mem_nil, or_false] at hc
      rcases hc with rfl | rfl <;> decide
    · simp at hc


/-- Converting the adds of a column preserves what a document looks up. -/
theorem cell_map_inv {α β : Type} (f : α → β) (g : β → α) (dc : β) (adds : List (Nat × α)) (d : Nat)
    (hgf : ∀ p ∈ adds, g (f p.2) = p.2) :
    g (cell dc (adds.map fun p => (p.1, f p.2)) d) = cell (g dc) adds d := by
  simp only [cell]
  rw [show lookup (adds.map fun p => (p.1, f p.2)) d = (lookup adds d).map f from lookup_map f adds d]
  cases hl : lookup adds d with
  | none => rfl
  | some v =>
    have hmem : ∃ p ∈ adds, p.2 = v := by
      unfold lookup at hl
      cases hf : adds.find? (fun p => p.1 == d) with
      | none => simp [hf] at hl
      | some p => simp [hf] at hl; exact ⟨p, List.mem_of_find?_eq_some hf, hl⟩
    obtain ⟨p, hp, rfl⟩ := hmem
    simp [hgf p hp]

theorem sortableCode_spec (bits : Nat) (code : NumCode) (h : sortableCode bits = some code) :
    0 < bits ∧ code.lo = 0 ∧ code.hi = (2 : Int) ^ bits - 1 := by
  unfold sortableCode at h
  split at h <;> first | (injection h with h; subst h; decide) | cases h

/-- **NUMERIC(int)** for every configuration `NUMERIC.__init__` accepts (`bits` 8/16/32/64, signed
    or not, `default=None` or a number of the field's range): the integer supplied for a document
    is what `column_reader(f)[d]` returns — through `prepare_number`, `to_sortable`, the
    `NumericColumn` of the sortable type code with default elision, and `from_sortable` — and a
    document without a value reads as the field's default (`max_value` when none was given). -/
theorem int_field_roundtrip (bits : Nat) (signed : Bool) (default : Option Int) (code : NumCode)
    (hbits : sortableCode bits = some code)
    (hdef : ∀ d, default = some d → inDomain bits signed d)
    (adds : List (Nat × Int)) (hinc : Increasing adds) (hv : ∀ p ∈ adds, inDomain bits signed p.2) :
    ∃ file, intFieldWrite bits signed default adds = .ok file ∧
      ∀ d, intFieldRead bits signed default file d = .ok (cell (intFieldDefault bits signed default) adds d) := by
  obtain ⟨hn, hlo, hhi⟩ := sortableCode_spec bits code hbits
  have hpos : (0 : Int) < 2 ^ bits := Int.pow_pos (by decide)
  obtain ⟨_, hto, hfrom, _⟩ := WM.C13.int_sortable bits hn signed
  have hconv1 : ∀ x, inDomain bits signed x →
      intToColumn bits signed x = .ok (toSortableInt bits signed x) := by
    intro x hx
    simp only [intToColumn, prepareInt_eq, if_pos hx]
  -- the column and its stored default
  obtain ⟨cd, hcol, hcd0, hcd1, hcdv⟩ : ∃ cd, intFieldColumn bits signed default = .ok (code, cd) ∧
      0 ≤ cd ∧ cd < 2 ^ bits ∧ fromSortableInt bits signed cd = intFieldDefault bits signed default := by
    cases hd : default with
    | none =>
      refine ⟨code.hi, by simp only [intFieldColumn, hbits], by omega, by omega, ?_⟩
      simp only [intFieldDefault, intFromColumn, hhi]
    | some dv =>
      have hdv := hdef dv hd
      obtain ⟨h0, h1, h2⟩ := hto dv hdv
      refine ⟨toSortableInt bits signed dv, ?_, h0, h1, by simp only [intFieldDefault, h2]⟩
      simp only [intFieldColumn, hbits, hconv1 dv hdv]
      by_cases he : dv = code.hi
      · -- only an unsigned field has `typecode_max` in its range, and there `to_sortable` is the identity
        rw [if_pos he]
        cases signed with
        | false => simp [toSortableInt]
        | true =>
          exfalso
          unfold inDomain at hdv
          rw [minMaxInt_eq bits hn] at hdv
          simp only [if_true] at hdv
          have := two_pow_pred bits hn
          have hp : (0 : Int) < 2 ^ (bits - 1) := Int.pow_pos (by decide)
          omega
      · rw [if_neg he]
  have hconv := convAdds_ok (intToColumn bits signed) (toSortableInt bits signed) adds
    (fun p hp => hconv1 p.2 (hv p hp))
  let cadds := adds.map fun p => (p.1, toSortableInt bits signed p.2)
  have hinc' : Increasing cadds := increasing_map _ adds hinc
  obtain ⟨file, hw, hr⟩ := numeric_roundtrip code cd cadds hinc' (by omega)
    (fun p hp => by
      simp only [cadds, List.mem_map] at hp
      obtain ⟨q, hq, rfl⟩ := hp
      obtain ⟨h0, h1, _⟩ := hto q.2 (hv q hq)
      simp only; omega)
  refine ⟨file, by simp only [intFieldWrite, hcol, hconv]; rw [show (adds.map fun p => (p.1, toSortableInt bits signed p.2)) = cadds from rfl, hw], fun d => ?_⟩
  simp only [intFieldRead, hcol, hr d, intFromColumn]
  rw [← hcdv]
  congr 1
  exact cell_map_inv (toSortableInt bits signed) (fromSortableInt bits signed) cd adds d
    (fun p hp => (hto p.2 (hv p hp)).2.2)

/-- The hypotheses are satisfiable at the limits of a signed 8-bit field, and the missing row of
    a field without an explicit default reads as `max_value`. -/
example : sortableCode 8 = some .B ∧ inDomain 8 true (-128) ∧ inDomain 8 true 127 ∧
    intFieldDefault 8 true none = 127 ∧ intFieldColumn 8 true (some (-128)) = .ok (.B, 0) ∧
    intFieldColumn 16 false (some 65535) = .ok (.H, 65535) ∧
    intFieldColumn 8 true (some 255) = .error .configError ∧ intFieldColumn 24 true none = .error .configError := by
  refine ⟨rfl, by decide, by decide, by decide, rfl, rfl, rfl, rfl⟩

/-- **NUMERIC(float)**, signed or unsigned: the double supplied for a document comes back with the
    same 64-bit pattern (so `-0.0`, infinities and NaN payloads survive; the column compares
    *sortable integers* with its default, not floats); a document without a value reads as the
    field default.  An unsigned field only accepts patterns with the sign bit clear (the others
    are rejected by `to_sortable` with `ValueError`, C13 `float_sortable_unsigned`). -/
theorem float_field_roundtrip (signed : Bool) (dflt : Nat)
    (hdflt : dflt < 2 ^ 64 ∧ (signed = false → dflt < 2 ^ 63) ∧ prepareFloat signed dflt = .ok dflt)
    (adds : List (Nat × Nat)) (hinc : Increasing adds)
    (hv : ∀ p ∈ adds, p.2 < 2 ^ 64 ∧ (signed = false → p.2 < 2 ^ 63) ∧ prepareFloat signed p.2 = .ok p.2) :
    ∃ file, floatFieldWrite signed dflt adds = .ok file ∧
      ∀ d, floatFieldRead signed dflt file d = .ok (cell dflt adds d) := by
  obtain ⟨hto, _, _⟩ := WM.C13.float_sortable
  obtain ⟨htou, _⟩ := WM.C13.float_sortable_unsigned
  let g : Nat → Int := fun b => match floatToSortable b signed with | .ok s => s | .error _ => 0
  have hg : ∀ b, b < 2 ^ 64 → (signed = false → b < 2 ^ 63) →
      ∃ s : Nat, g b = (s : Int) ∧ s < 2 ^ 64 ∧ floatToSortable b signed = .ok (g b) ∧
      sortableToFloat (g b) signed = .ok b := by
    intro b hb hu
    cases hs : signed with
    | true =>
      obtain ⟨s, h1, h2, h3⟩ := hto b hb
      refine ⟨s, by simp only [g, hs, h1], h2, by simp only [g, hs, h1], by simp only [g, hs, h1]; exact h3⟩
    | false =>
      obtain ⟨h1, h3⟩ := htou b (hu hs)
      refine ⟨b, by simp only [g, hs, h1], hb, by simp only [g, hs, h1], by simp only [g, hs, h1]; exact h3⟩
  have hconv1 : ∀ b, b < 2 ^ 64 → (signed = false → b < 2 ^ 63) → prepareFloat signed b = .ok b →
      floatToColumn signed b = .ok (g b) := by
    intro b hb hu hp
    obtain ⟨s, _, _, h3, _⟩ := hg b hb hu
    simp only [floatToColumn, hp, h3]
  have hcd := hconv1 dflt hdflt.1 hdflt.2.1 hdflt.2.2
  have hconv := convAdds_ok (floatToColumn signed) g adds
    (fun p hp => hconv1 p.2 (hv p hp).1 (hv p hp).2.1 (hv p hp).2.2)
  let cadds := adds.map fun p => (p.1, g p.2)
  have hinc' : Increasing cadds := increasing_map _ adds hinc
  have hrange : ∀ b, b < 2 ^ 64 → (signed = false → b < 2 ^ 63) → NumCode.Q.lo ≤ g b ∧ g b ≤ NumCode.Q.hi := by
    intro b hb hu
    obtain ⟨s, h1, h2, _, _⟩ := hg b hb hu
    rw [h1]; simp only [NumCode.lo, NumCode.hi]; omega
  obtain ⟨file, hw, hr⟩ := numeric_roundtrip .Q (g dflt) cadds hinc' (hrange dflt hdflt.1 hdflt.2.1)
    (fun p hp => by
      simp only [cadds, List.mem_map] at hp
      obtain ⟨q, hq, rfl⟩ := hp
      exact hrange q.2 (hv q hq).1 (hv q hq).2.1)
  refine ⟨file, by simp only [floatFieldWrite, hcd, hconv]; rw [show (adds.map fun p => (p.1, g p.2)) = cadds from rfl, hw], fun d => ?_⟩
  simp only [floatFieldRead, hcd, hr d, floatFromColumn]
  -- the cell is the image of a supplied pattern or of the default
  have : ∃ b, b < 2 ^ 64 ∧ (signed = false → b < 2 ^ 63) ∧ cell (g dflt) cadds d = g b ∧ cell dflt adds d = b := by
    simp only [cell, cadds]
    rw [show lookup (adds.map fun p => (p.1, g p.2)) d = (lookup adds d).map g from lookup_map g adds d]
    cases hl : lookup adds d with
    | none => exact ⟨dflt, hdflt.1, hdflt.2.1, rfl, rfl⟩
    | some v =>
      have hmem : ∃ p ∈ adds, p.2 = v := by
        unfold lookup at hl
        cases hf : adds.find? (fun p => p.1 == d) with
        | none => simp [hf] at hl
        | some p => simp [hf] at hl; exact ⟨p, List.mem_of_find?_eq_some hf, hl⟩
      obtain ⟨p, hp, rfl⟩ := hmem
      exact ⟨p.2, (hv p hp).1, (hv p hp).2.1, rfl, rfl⟩
  obtain ⟨b, hb, hu, h1, h2⟩ := this
  obtain ⟨_, _, _, _, h4⟩ := hg b hb hu
  rw [h1, h2, h4]

/-- `-0.0`, the default `NaN` of a signed field and `+inf` are accepted and keep distinct sortable
    numbers (`-0.0` is not the same column value as `0.0`); the unsigned field takes `abs(NaN)`. -/
example : prepareFloat true 0x8000000000000000 = .ok 0x8000000000000000 ∧
    prepareFloat true 0xffffffffffffffff = .ok 0xffffffffffffffff ∧
    floatToColumn true 0x8000000000000000 = .ok 9223372036854775807 ∧
    floatToColumn true 0 = .ok 9223372036854775808 ∧
    prepareFloat false 0x7fffffffffffffff = .ok 0x7fffffffffffffff ∧
    floatToColumn false 0x8000000000000000 = .error .valueError := ⟨rfl, rfl, rfl, rfl, rfl, rfl⟩

/-- **DATETIME**: a datetime (as the normalised `timedelta` since `datetime.min`, at most
    `datetime.max`) supplied for a document is what `column_reader(f)[d]` returns.  The column
    stores `datetime_to_long` in a `NumericColumn("Q")` whose default is the largest 64-bit number;
    a document *without* a value therefore does not read as any datetime: `from_column_value`
    raises `OverflowError` (recorded finding `DATETIME.from_column_value:default-out-of-datetime-range`). -/
theorem datetime_field_roundtrip (adds : List (Nat × TD)) (hinc : Increasing adds)
    (hv : ∀ p ∈ adds, p.2.normal ∧ 0 ≤ p.2.days ∧ p.2.days ≤ maxDays) :
    ∃ file, datetimeFieldWrite adds = .ok file ∧
      ∀ d, datetimeFieldRead file d = (match lookup adds d with
        | some t => .ok t
        | none => .error .overflowError) := by
  obtain ⟨hinv, _, _⟩ := WM.C13.datetime
  let cadds := adds.map fun p => (p.1, datetimeToColumn p.2)
  have hinc' : Increasing cadds := increasing_map _ adds hinc
  have hrange : ∀ p ∈ adds, 0 ≤ datetimeToColumn p.2 ∧ datetimeToColumn p.2 < 9223372036854775807 := by
    intro p hp
    obtain ⟨⟨h1, h2, h3, h4⟩, h5, h6⟩ := hv p hp
    simp only [datetimeToColumn, tdToUsecs, maxDays] at *
    omega
  obtain ⟨file, hw, hr⟩ := numeric_roundtrip .Q NumCode.Q.hi cadds hinc' (by decide)
    (fun p hp => by
      simp only [cadds, List.mem_map] at hp
      obtain ⟨q, hq, rfl⟩ := hp
      have := hrange q hq
      simp only [NumCode.lo, NumCode.hi]; omega)
  refine ⟨file, by simp only [datetimeFieldWrite, datetimeColumn]; rw [show (adds.map fun p => (p.1, datetimeToColumn p.2)) = cadds from rfl, hw], fun d => ?_⟩
  simp only [datetimeFieldRead, datetimeColumn, hr d, cell, cadds]
  rw [show lookup (adds.map fun p => (p.1, datetimeToColumn p.2)) d = (lookup adds d).map datetimeToColumn
    from lookup_map datetimeToColumn adds d]
  cases hl : lookup adds d with
  | none =>
    simp only [Option.map_none, Option.getD_none]
    rfl
  | some t =>
    have hmem : ∃ p ∈ adds, p.2 = t := by
      unfold lookup at hl
      cases hf : adds.find? (fun p => p.1 == d) with
      | none => simp [hf] at hl
      | some p => simp [hf] at hl; exact ⟨p, List.mem_of_find?_eq_some hf, hl⟩
    obtain ⟨p, hp, rfl⟩ := hmem
    obtain ⟨hn, h5, h6⟩ := hv p hp
    simp only [Option.map_some, Option.getD_some, datetimeFromColumn, datetimeToColumn, hinv p.2 hn]
    rw [if_pos ⟨h5, h6⟩]

/-- `datetime.max` itself is admissible; the default row really raises. -/
example : (⟨3652058, 86399, 999999⟩ : TD).normal ∧ datetimeToColumn ⟨3652058, 86399, 999999⟩ = 315537897599999999 ∧
    datetimeFromColumn 315537897599999999 = .ok ⟨3652058, 86399, 999999⟩ ∧
    datetimeFromColumn NumCode.Q.hi = .error .overflowError := by
  refine ⟨by simp [TD.normal], by decide, rfl, rfl⟩

end WM.C08
