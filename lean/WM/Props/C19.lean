import WM.Lemmas.Edit
import WM.Lemmas.LevDP
import WM.Lemmas.LevNFA
import WM.Lemmas.Walk
import WM.Lemmas.Suggest
import WM.Lemmas.DFA
import WM.Lemmas.DFAFuel
import WM.Lemmas.LevSucc
import WM.Lemmas.ListCorrector
import WM.Lemmas.FuzzyIndex
import WM.Lemmas.LevUtf8
import WM.Lemmas.FuzzyMerge
import WM.Lemmas.FuzzyMulti
/-!
C19 - fuzzy matching and spelling suggestions are exact with respect to edit distance.

Specification: `WM.Edit.lev`, `WM.Edit.osa` (the documented distance), `WM.Edit.within`.
Model: `WM/Model/Lev.lean` (mirrors the whoosh code after the three `fix:` commits of this family).
Strings of real characters are `Valid` (every code point is a Unicode scalar value: ≤ U+10FFFF
and not a surrogate); lexicons are `SortedLex` (code point order) resp. `SortedBytes` (the order of
the stored UTF-8 keys - the same order: `utf8_order`).

What is proved here, for all words / lexicons / limits / `d` / `p`:
* the specification recursions compute the minimum edit-script cost, are symmetric, `osa ≤ lev`;
* `dp_lev`, `dp_osa`, `dp_*_limit`: the two row-wise DP routines never raise and return the
  specification distance, resp. `limit + 1` only when the distance exceeds the limit;
* `nfa_reach_sound`, `nfa_reach_complete`, `nfa`: the Levenshtein NFA reaches `(i, e)` only if
  `e ≥ lev (term.take i) u`, reaches `(i, lev (term.take i) u)`, and accepts exactly the strings
  that share the required prefix and are within *plain Levenshtein* distance `k`;
* `dfa`: the subset construction with ANY/default arcs terminates (within the model's fuel) and
  accepts the same language;
* `next_valid`: `DFA.next_valid_string` of a Levenshtein DFA terminates and returns the least
  accepted string at or after its argument (the lexicographic-successor lemma);
* `walk`: with such a successor function the term-cursor walk returns exactly the accepted terms
  of a sorted lexicon (and terminates);
* `utf8_order`, `utf8_injective`, `cursor_bytes`, `terms_within_single_bytes`: the automaton walks
  code points, the term cursor compares UTF-8 bytes - the encoding is strictly monotone, so the
  walk over the byte-ordered dictionary returns exactly `within lev` too, and never asks the
  cursor for a string that cannot be encoded (`next_valid` returns real characters only);
* `terms_within_single`: the automaton path returns exactly `within lev`;
  `terms_within_multi`: the generic (multi-segment) path returns exactly `within osa`;
* the property itself ("same for one segment or many, w.r.t. the documented distance") is FALSE of
  the code: `single_segment_misses_transposition` is the witness; `multi_eq_single_partial` holds
  under the hypothesis that excludes the recorded defect;
* suggestions: `suggest_partial` (membership and count), witnesses `suggest_returns_word`,
  `suggest_ignores_distance` for the two recorded defects.
-/
namespace WM.C19
open WM.Edit WM.Lev

/-! ### Specification sanity -/

/-- The specification recursion `lev` computes the minimum cost of an edit script of insertions,
    deletions and substitutions. -/
theorem lev_min_script (a b : List Nat) (n : Nat) :
    lev a b ≤ n ↔ ∃ m, m ≤ n ∧ Script false a b m := ed_le_iff false a b n

/-- `osa` computes the minimum cost of a script that may also swap adjacent characters. -/
theorem osa_min_script (a b : List Nat) (n : Nat) :
    osa a b ≤ n ↔ ∃ m, m ≤ n ∧ Script true a b m := ed_le_iff true a b n

example : lev [1, 2, 3] [2, 1, 3] = 2 ∧ osa [1, 2, 3] [2, 1, 3] = 1 := by
  constructor <;> simp [lev, osa, ed, neq]

/-- Transpositions only help. -/
theorem osa_le_lev (a b : List Nat) : osa a b ≤ lev a b := WM.Edit.osa_le_lev a b

/-- Both distances are symmetric (the code measures `distance(term, word)`, the automaton is built
    from the word and reads the term). -/
theorem dist_symm (a b : List Nat) : lev a b = lev b a ∧ osa a b = osa b a :=
  ⟨ed_symm false a b, ed_symm true a b⟩

/-- A common prefix can be stripped (why "share a prefix, then compare" is well defined). -/
theorem dist_strip_prefix (p a b : List Nat) :
    lev (p ++ a) (p ++ b) = lev a b ∧ osa (p ++ a) (p ++ b) = osa a b :=
  ⟨ed_append_left_same false p a b, ed_append_left_same true p a b⟩

/-! ### `support/levenshtein.py` -/

/-- `levenshtein(seq1, seq2)` returns the Levenshtein distance (and raises nothing). -/
theorem dp_lev (s1 s2 : List Nat) : levenshtein s1 s2 none = some (lev s1 s2) := by
  obtain ⟨r, hr, h⟩ := dp_spec false s1 s2 none
  rcases h with rfl | ⟨l, hl, _⟩
  · exact hr
  · cases hl

/-- `damerau_levenshtein(seq1, seq2)` (= `distance`) returns the optimal-string-alignment
    distance. -/
theorem dp_osa (s1 s2 : List Nat) : damerauLevenshtein s1 s2 none = some (osa s1 s2) := by
  obtain ⟨r, hr, h⟩ := dp_spec true s1 s2 none
  rcases h with rfl | ⟨l, hl, _⟩
  · exact hr
  · cases hl

/-- With a limit the result is the distance cut at `limit + 1`: the early exit returns
    `limit + 1` only when the true distance exceeds the limit, so `result ≤ limit` decides
    `distance ≤ limit` and a result within the limit is the exact distance. -/
theorem dp_lev_limit (s1 s2 : List Nat) (l : Nat) :
    ∃ r, levenshtein s1 s2 (some l) = some r ∧ min r (l + 1) = min (lev s1 s2) (l + 1) ∧
      (r ≤ l ↔ lev s1 s2 ≤ l) ∧ (r ≤ l → r = lev s1 s2) := dp_limit_aux false s1 s2 l

theorem dp_osa_limit (s1 s2 : List Nat) (l : Nat) :
    ∃ r, damerauLevenshtein s1 s2 (some l) = some r ∧ min r (l + 1) = min (osa s1 s2) (l + 1) ∧
      (r ≤ l ↔ osa s1 s2 ≤ l) ∧ (r ≤ l → r = osa s1 s2) := dp_limit_aux true s1 s2 l

/-- The early exit really engages: six deletions against limit 1 are reported as 2. -/
example : levenshtein [1, 2, 3, 4, 5, 6] [] (some 1) = some 2 ∧ lev [1, 2, 3, 4, 5, 6] [] = 6 := by
  constructor
  · decide
  · simp [lev]

/-! ### `automata/lev.py`, `automata/fsa.py`: the NFA -/

/-- A state `(i, e)` reachable on input `u` has `e ≤ k`, and - behind the required prefix -
    `e` is at least the Levenshtein distance between the first `i` characters of the term and `u`,
    which starts with the required prefix; inside the required prefix `u` is the term's prefix. -/
theorem nfa_reach_sound (term : List Nat) (k p : Nat) (u : List Nat) (i e : Nat)
    (h : (i, e) ∈ (levenshteinAutomaton term k p).run u) :
    e ≤ k ∧ i ≤ term.length ∧
      ((i < min p term.length ∧ e = 0 ∧ u = term.take i) ∨
       (min p term.length ≤ i ∧ term.take (min p term.length) <+: u ∧ lev (term.take i) u ≤ e)) :=
  sound_run term k p u (i, e) h

/-- Conversely the state `(i, lev (term.take i) u)` *is* reached whenever that distance is within
    `k` and `u` starts with the required prefix. -/
theorem nfa_reach_complete (term : List Nat) (k p : Nat) (u : List Nat) (i : Nat)
    (hp : min p term.length ≤ i) (hi : i ≤ term.length)
    (hpre : term.take (min p term.length) <+: u) (hd : lev (term.take i) u ≤ k) :
    (i, lev (term.take i) u) ∈ (levenshteinAutomaton term k p).run u :=
  (complete_run term k p u).2 i hp hi hpre hd

/-- **Acceptance**: the Levenshtein NFA built for `word` accepts `t` iff `t` passes the filter of
    `within lev`: shares the prefix of length `p` and `lev t word ≤ k`. -/
theorem nfa (word : List Nat) (k p : Nat) (t : List Nat) :
    (levenshteinAutomaton word k p).accept t = (sharePrefix p t word && decide (lev t word ≤ k)) := by
  rw [Bool.eq_iff_iff, nfa_accept_iff, Bool.and_eq_true, decide_eq_true_eq, sharePrefix,
    List.isPrefixOf_iff_prefix, (dist_symm t word).1]

example : (levenshteinAutomaton [97, 98, 99] 1 1).accept [97, 99] = true := by
  rw [nfa]; simp [sharePrefix, lev, ed, neq]

/-- **Subset construction** (`NFA.to_dfa` with ANY/default arcs): the construction ends within
    the model's fuel (the states it meets are pairwise different subsets of the NFA states) and the
    DFA accepts exactly the strings the NFA accepts (both proved for every NFA:
    `WM.Lev.NFA.toDfa_terminates`, `WM.Lev.NFA.toDfa_accept`); for the Levenshtein automaton that
    is the `within lev` filter. -/
theorem dfa (word : List Nat) (k p : Nat) :
    ∃ d, (levenshteinAutomaton word k p).toDfa = some d ∧
      ∀ t, d.accept (some d.initial) t = (sharePrefix p t word && decide (lev t word ≤ k)) := by
  obtain ⟨d, hd⟩ := NFA.toDfa_terminates (levenshteinAutomaton word k p)
  exact ⟨d, hd, fun t => by rw [NFA.toDfa_accept _ d hd, nfa]⟩

/-- **Lexicographic successor**: `next_valid_string` of the DFA of a Levenshtein automaton (for a
    word of real characters) always returns, and returns the least accepted string of real
    characters at or after its argument (`None` when there is none). -/
theorem next_valid (word : List Nat) (k p : Nat) (hv : Valid word) (d : DFA)
    (h : (levenshteinAutomaton word k p).toDfa = some d) :
    NextValidSpec (fun t => d.accept (some d.initial) t) (d.nextValidString (levChain word k)) :=
  lev_nextValidSpec word k p hv d h

/-! ### `codec/base.py`: the walk -/

/-- **The walk is exact given a correct successor function** (`NextValidSpec`: it returns the
    least accepted string at or after its argument; `next_valid` discharges this for the DFA of a
    Levenshtein automaton). -/
theorem walk (acc : List Nat → Bool) (nv : List Nat → Except Err (Option (List Nat)))
    (hnv : NextValidSpec acc nv) (lex : List (List Nat)) (hv : ∀ t, t ∈ lex → Valid t)
    (hs : SortedLex lex) :
    findMatches nv lex = .ok (lex.filter acc) := findMatches_spec acc nv hnv lex hv hs

/-- The hypothesis is satisfiable (and the walk then really skips): the successor function of the
    language `{[2]}`. -/
example :
    let acc : List Nat → Bool := fun t => t == [2]
    let nv : List Nat → Except Err (Option (List Nat)) :=
      fun s => .ok (if lexLe s [2] then some [2] else none)
    NextValidSpec acc nv ∧ findMatches nv [[1], [2], [3]] = .ok [[2]] := by
  intro acc nv
  constructor
  · intro s _
    by_cases h : s ≤ [2]
    · right
      refine ⟨[2], ?_, rfl, h, ?_, by simp [Valid, Scalar, maxCodePoint]⟩
      · show Except.ok _ = _; rw [if_pos ((lexLe_iff _ _).mpr h)]
      · intro t _ _ ht
        have : t = [2] := by simpa [acc] using ht
        subst this; exact List.le_refl _
    · left
      refine ⟨?_, ?_⟩
      · show Except.ok _ = _
        rw [if_neg (fun hc => h ((lexLe_iff _ _).mp hc))]
      · intro t _ hst
        cases hat : acc t with
        | false => rfl
        | true =>
          have : t = [2] := by simpa [acc] using hat
          subst this; exact absurd hst h
  · rfl

/-! ### `reading.py`: the two `terms_within` paths -/

/-- **Multi-segment path** (`IndexReader.terms_within`): exactly the lexicon terms that share the
    prefix and are within the documented (optimal string alignment) distance. -/
theorem terms_within_multi (lex : List (List Nat)) (w : List Nat) (d p : Nat) :
    termsWithinBase lex w d p = .ok (within osa lex w d p) := by
  unfold termsWithinBase within sharePrefix
  rw [baseLoop_eq, List.filter_filter]
  congr 1
  apply List.filter_congr
  intro t _
  rw [Bool.and_comm]

/-- **Single-segment path** (`SegmentReader.terms_within`): exactly the lexicon terms that share
    the prefix and are within *plain Levenshtein* distance of the word - for every word and
    sorted lexicon of real characters, every `d` and `p`; in particular the automaton is built,
    the walk terminates and nothing raises. -/
theorem terms_within_single (lex : List (List Nat)) (w : List Nat) (d p : Nat) (hw : Valid w)
    (hv : ∀ t, t ∈ lex → Valid t) (hs : SortedLex lex) :
    termsWithinSeg lex w d p = .ok (within lev lex w d p) := by
  obtain ⟨dfa, hdfa, hacc⟩ := dfa w d p
  unfold termsWithinSeg
  rw [hdfa]
  simp only
  rw [findMatches_spec _ _ (next_valid w d p hw dfa hdfa) lex hv hs]
  congr 1
  unfold within
  apply List.filter_congr
  intro t _
  exact hacc t

/-! ### Code points vs bytes -/

/-- **UTF-8 byte order is code point order** (for every pair of strings; no range restriction is
    needed for the order), so a term dictionary sorted by key bytes is sorted by code points. -/
theorem utf8_order (s t : List Nat) : (utf8 s < utf8 t ↔ s < t) ∧ (utf8 s ≤ utf8 t ↔ s ≤ t) :=
  ⟨utf8_lt_iff s t, utf8_le_iff s t⟩

/-- ... in particular for non-BMP and surrogate-adjacent characters, where UTF-16 code unit order
    would differ: U+FFFF < U+10000 and U+D7FF < U+E000 as bytes. -/
example : utf8 [0xFFFF] = [0xEF, 0xBF, 0xBF] ∧ utf8 [0x10000] = [0xF0, 0x90, 0x80, 0x80] ∧
    utf8 [0xD7FF] = [0xED, 0x9F, 0xBF] ∧ utf8 [0xE000] = [0xEE, 0x80, 0x80] ∧
    utf8 [0x10FFFF] = [0xF4, 0x8F, 0xBF, 0xBF] ∧ utf8 [0x7F, 0x80, 0x7FF, 0x800] =
      [0x7F, 0xC2, 0x80, 0xDF, 0xBF, 0xE0, 0xA0, 0x80] := by
  simp [utf8, utf8Char]

/-- The encoding is injective (the stored key determines the term). -/
theorem utf8_injective (s t : List Nat) (h : utf8 s = utf8 t) : s = t := WM.Lev.utf8_injective h

/-- **The byte-level cursor**: `cur.find(term)` - encode, first key `≥` in byte order, decode -
    raises nothing for a term of real characters and lands on the first term `≥ term` in code
    point order; stated for any strictly monotone encoding and for UTF-8.  A string with a
    surrogate cannot be looked up (`UnicodeEncodeError`). -/
theorem cursor_bytes (lex : List (List Nat)) (term : List Nat) :
    (∀ enc : List Nat → List Nat, (∀ s t, enc s < enc t ↔ s < t) →
      (lex.find? fun t => lexLe (enc term) (enc t)) = cursorFind lex term) ∧
    (Valid term → cursorFindBytes lex term = .ok (cursorFind lex term)) ∧
    cursorFindBytes lex [97, 0xD800] = .error .encodeError :=
  ⟨fun enc henc => cursor_enc enc henc lex term, cursorFindBytes_eq lex, cursorFindBytes_surrogate lex⟩

/-- **Single-segment path over the byte-ordered term dictionary**: walking the Levenshtein DFA in
    code point order against a cursor that compares UTF-8 bytes returns exactly the lexicon terms
    that share the prefix and are within plain Levenshtein distance - no `UnicodeEncodeError`
    (after "fix: DFA.find_next_edge steps over the surrogate block"), no term skipped. -/
theorem terms_within_single_bytes (lex : List (List Nat)) (w : List Nat) (d p : Nat) (hw : Valid w)
    (hv : ∀ t, t ∈ lex → Valid t) (hs : SortedBytes lex) :
    termsWithinSegBytes lex w d p = .ok (within lev lex w d p) := by
  obtain ⟨dfa, hdfa, _⟩ := dfa w d p
  have h := terms_within_single lex w d p hw hv ((sortedBytes_iff lex).mp hs)
  unfold termsWithinSeg at h
  unfold termsWithinSegBytes
  rw [hdfa] at h ⊢
  simp only at h ⊢
  rw [findMatchesBytes_eq _ _ (next_valid w d p hw dfa hdfa) lex hv]
  exact h

/-- A lexicon in byte order with 2-, 3- and 4-byte characters on both sides of the surrogate
    block; the walk for `a` within distance 1 steps over `a\ud7ff` ... `a\U00010000`. -/
example : termsWithinSegBytes [[97, 0xD7FF], [97, 0xE000, 0xE9], [97, 0x10000], [98]] [97] 1 0 =
    .ok [[97, 0xD7FF], [97, 0x10000], [98]] := by
  rw [terms_within_single_bytes _ _ _ _ (by simp [Valid, Scalar, maxCodePoint])
    (by simp [Valid, Scalar, maxCodePoint])
    (by rw [sortedBytes_iff]; simp [SortedLex]; decide)]
  simp [within, sharePrefix, lev, ed, neq]

/-! ### `reading.py`: the multi-segment reader's merged term list, `expand_prefix` -/

/-- **`MultiReader._merge_terms`** (behind `MultiReader.terms_from/lexicon/expand_prefix`): over
    the strictly sorted term lists of the segments the heap merge ends (the model's fuel is never
    used up), raises nothing and yields the strictly sorted union - every term of every segment,
    once. -/
theorem merge_terms (segs : List (List (List Nat))) (hs : ∀ lex, lex ∈ segs → SortedLex lex) :
    ∃ m, mergeTerms segs = .ok m ∧ SortedLex m ∧ ∀ t, t ∈ m ↔ ∃ lex, lex ∈ segs ∧ t ∈ lex :=
  mergeTerms_spec segs hs

/-- Three segments with overlapping terms (and an empty one): each term comes out once, in order. -/
example : mergeTerms [[[97], [98, 97]], [], [[97], [97, 98]], [[98, 97], [99]]] =
    .ok [[97], [97, 98], [98, 97], [99]] := by rfl

/-- **`MultiReader.expand_prefix`**: merging the segments' `terms_from(prefix)` and stopping at the
    first term that does not start with the prefix yields exactly the terms of the merged list that
    start with it (they are contiguous: `WM.Lev.prefix_convex`). -/
theorem expand_prefix_multi (segs : List (List (List Nat))) (pre : List Nat)
    (hs : ∀ lex, lex ∈ segs → SortedLex lex) :
    ∃ m, mergeTerms segs = .ok m ∧
      expandPrefixMulti segs pre = .ok (m.filter fun t => pre.isPrefixOf t) := by
  obtain ⟨m, hm, _, _⟩ := mergeTerms_spec segs hs
  exact ⟨m, hm, expandPrefixMulti_spec segs pre hs m hm⟩

/-- The early exit really cuts: `c` follows the `b…` terms and is never looked at. -/
example : expandPrefixMulti [[[97], [98, 97]], [[98], [99]]] [98] = .ok [[98], [98, 97]] := by rfl

/-- **Multi-segment path from the segments** (`MultiReader.terms_within`: merge of the segments'
    `terms_from`, `expand_prefix`, distance filter): the result is `within osa` of the merged term
    list, which is the strictly sorted union of the segment term lists.  Composes `merge_terms`,
    `expand_prefix_multi` and `terms_within_multi`. -/
theorem terms_within_multi_index (segs : List (List (List Nat))) (w : List Nat) (d p : Nat)
    (hs : ∀ lex, lex ∈ segs → SortedLex lex) :
    ∃ m, mergeTerms segs = .ok m ∧ SortedLex m ∧ (∀ t, t ∈ m ↔ ∃ lex, lex ∈ segs ∧ t ∈ lex) ∧
      termsWithinMulti segs w d p = .ok (within osa m w d p) ∧
      ∀ t, t ∈ within osa m w d p ↔
        (∃ lex, lex ∈ segs ∧ t ∈ lex) ∧ sharePrefix p t w = true ∧ osa t w ≤ d := by
  obtain ⟨m, hm, hsm, hmem⟩ := mergeTerms_spec segs hs
  refine ⟨m, hm, hsm, hmem, ?_, ?_⟩
  · unfold termsWithinMulti
    rw [expandPrefixMulti_spec segs (w.take p) hs m hm]
    exact terms_within_multi m w d p
  · intro t
    unfold within
    rw [List.mem_filter, hmem, Bool.and_eq_true, decide_eq_true_eq]

/-- Two segments, the transposition neighbour `ba` lives in the second one: the multi-segment path
    returns it (documented distance 1), and `c` of the first segment is cut by the bound. -/
example : termsWithinMulti [[[97, 98], [99]], [[98, 97]]] [97, 98] 1 0 = .ok [[97, 98], [98, 97]] := by
  obtain ⟨m, hm, _, _, h, _⟩ := terms_within_multi_index [[[97, 98], [99]], [[98, 97]]] [97, 98] 1 0
    (by intro lex hl; simp only [List.mem_cons, List.not_mem_nil, or_false] at hl
        rcases hl with rfl | rfl <;> simp [SortedLex] <;> decide)
  have hm' : mergeTerms [[[97, 98], [99]], [[98, 97]]] = .ok [[97, 98], [98, 97], [99]] := by rfl
  rw [hm'] at hm
  cases hm
  rw [h]
  simp [within, sharePrefix, osa, ed, neq]

/-- **The same for every segment layout** (multi-segment path): two layouts of the same set of
    terms give the same `terms_within` result - as lists, in the same order. -/
theorem terms_within_multi_layout (segs segs' : List (List (List Nat))) (w : List Nat) (d p : Nat)
    (hs : ∀ lex, lex ∈ segs → SortedLex lex) (hs' : ∀ lex, lex ∈ segs' → SortedLex lex)
    (hsame : ∀ t, (∃ lex, lex ∈ segs ∧ t ∈ lex) ↔ (∃ lex, lex ∈ segs' ∧ t ∈ lex)) :
    termsWithinMulti segs w d p = termsWithinMulti segs' w d p := by
  obtain ⟨m, _, hsm, hmem, h, _⟩ := terms_within_multi_index segs w d p hs
  obtain ⟨m', _, hsm', hmem', h', _⟩ := terms_within_multi_index segs' w d p hs'
  have : m = m' := sorted_ext m m' hsm hsm' (fun t => by rw [hmem, hmem', hsame])
  rw [h, h', this]

/-- One segment `{a, ab, b}` against the three segments `{ab}`, `{a, b}`, `{b}`. -/
example : termsWithinMulti [[[97], [97, 98], [98]]] [97] 1 0 =
    termsWithinMulti [[[97, 98]], [[97], [98]], [[98]]] [97] 1 0 := by
  apply terms_within_multi_layout
  · intro lex hl; simp only [List.mem_cons, List.not_mem_nil, or_false] at hl
    subst hl; simp [SortedLex]; decide
  · intro lex hl; simp only [List.mem_cons, List.not_mem_nil, or_false] at hl
    rcases hl with rfl | rfl | rfl <;> simp [SortedLex] <;> decide
  · intro t; simp; constructor <;> (rintro (h | h | h) <;> simp [h])

/-- Full statement of "the same for one segment or many". -/
def multi_eq_single_full : Prop :=
  ∀ (lex : List (List Nat)) (w : List Nat) (d p : Nat), Valid w → (∀ t, t ∈ lex → Valid t) → SortedLex lex →
    termsWithinSeg lex w d p = termsWithinBase lex w d p

/-- `_partial`: the two paths agree when no term of the lexicon is closer to the word by
    transpositions than without them - the hypothesis that excludes the recorded defect.  The
    full statement `multi_eq_single_full` is false: `single_segment_misses_transposition`. -/
theorem multi_eq_single_partial (lex : List (List Nat)) (w : List Nat) (d p : Nat) (hw : Valid w)
    (hv : ∀ t, t ∈ lex → Valid t) (hs : SortedLex lex)
    (hsame : ∀ t, t ∈ lex → sharePrefix p t w = true → (osa t w ≤ d ↔ lev t w ≤ d)) :
    termsWithinSeg lex w d p = termsWithinBase lex w d p := by
  rw [terms_within_single lex w d p hw hv hs, terms_within_multi]
  congr 1
  unfold within
  apply List.filter_congr
  intro t ht
  cases hsp : sharePrefix p t w with
  | false => simp
  | true => simp [hsame t ht hsp]

/-- The hypothesis of `multi_eq_single_partial` is satisfiable on a lexicon where the bound
    really cuts. -/
example : termsWithinSeg [[97], [97, 98, 99], [98, 98, 98]] [97, 98] 1 1 =
    termsWithinBase [[97], [97, 98, 99], [98, 98, 98]] [97, 98] 1 1 ∧
    termsWithinBase [[97], [97, 98, 99], [98, 98, 98]] [97, 98] 1 1 = .ok [[97], [97, 98, 99]] := by
  constructor
  · apply multi_eq_single_partial _ _ _ _ (by simp [Valid, Scalar, maxCodePoint]) (by simp [Valid, Scalar, maxCodePoint])
      (by simp [SortedLex]; decide)
    intro t ht _
    simp only [List.mem_cons, List.not_mem_nil, or_false] at ht
    rcases ht with rfl | rfl | rfl <;> simp [osa, lev, ed, neq]
  · rw [terms_within_multi]; simp [within, sharePrefix, osa, ed, neq]

/-- **One optimized segment vs. the same terms in any segment layout** (`_partial`, the property's
    "the same for one segment or many" over real layouts): the automaton path on the single segment
    that holds the merged term list agrees with the multi-segment path over the layout, when no
    term is closer to the word by transpositions than without them (the hypothesis that excludes the
    recorded defect; without it `single_segment_misses_transposition`).  Composes
    `terms_within_multi_index`, `multi_eq_single_partial` and `terms_within_multi`. -/
theorem layout_eq_optimized_partial (segs : List (List (List Nat))) (w : List Nat) (d p : Nat) (hw : Valid w)
    (hv : ∀ lex, lex ∈ segs → ∀ t, t ∈ lex → Valid t) (hs : ∀ lex, lex ∈ segs → SortedLex lex)
    (hsame : ∀ lex, lex ∈ segs → ∀ t, t ∈ lex → sharePrefix p t w = true → (osa t w ≤ d ↔ lev t w ≤ d)) :
    ∃ m, mergeTerms segs = .ok m ∧ termsWithinSeg m w d p = termsWithinMulti segs w d p := by
  obtain ⟨m, hm, hsm, hmem, htw, _⟩ := terms_within_multi_index segs w d p hs
  refine ⟨m, hm, ?_⟩
  rw [htw, ← terms_within_multi m w d p]
  apply multi_eq_single_partial m w d p hw _ hsm
  · intro t ht hsp
    obtain ⟨lex, hl, htl⟩ := (hmem t).mp ht
    exact hsame lex hl t htl hsp
  · intro t ht
    obtain ⟨lex, hl, htl⟩ := (hmem t).mp ht
    exact hv lex hl t htl

/-- The hypotheses are satisfiable on a layout where the bound really cuts: `{a, bbb}`, `{abc, bbb}`. -/
example : ∃ m, mergeTerms [[[97], [98, 98, 98]], [[97, 98, 99], [98, 98, 98]]] = .ok m ∧
    termsWithinSeg m [97, 98] 1 1 = termsWithinMulti [[[97], [98, 98, 98]], [[97, 98, 99], [98, 98, 98]]] [97, 98] 1 1 := by
  apply layout_eq_optimized_partial _ _ _ _ (by simp [Valid, Scalar, maxCodePoint])
  · intro lex hl t ht
    simp only [List.mem_cons, List.not_mem_nil, or_false] at hl
    rcases hl with rfl | rfl <;> simp only [List.mem_cons, List.not_mem_nil, or_false] at ht <;>
      rcases ht with rfl | rfl <;> simp [Valid, Scalar, maxCodePoint]
  · intro lex hl
    simp only [List.mem_cons, List.not_mem_nil, or_false] at hl
    rcases hl with rfl | rfl <;> simp [SortedLex] <;> decide
  · intro lex hl t ht _
    simp only [List.mem_cons, List.not_mem_nil, or_false] at hl
    rcases hl with rfl | rfl <;> simp only [List.mem_cons, List.not_mem_nil, or_false] at ht <;>
      rcases ht with rfl | rfl <;> simp [osa, lev, ed, neq]

/-- The single-segment path never returns a term outside the documented ball (it can only miss
    terms): `within lev ⊆ within osa`. -/
theorem single_subset_documented (lex : List (List Nat)) (w : List Nat) (d p : Nat) (t : List Nat)
    (h : t ∈ within lev lex w d p) : t ∈ within osa lex w d p := by
  unfold within at h ⊢
  rw [List.mem_filter] at h ⊢
  refine ⟨h.1, ?_⟩
  simp only [Bool.and_eq_true, decide_eq_true_eq] at h ⊢
  exact ⟨h.2.1, Nat.le_trans (osa_le_lev t w) h.2.2⟩

/-- **The property is false of the single-segment path**: `ba` is one transposition away from `ab`
    (documented distance 1) but the automaton built for `ab`, `k = 1` rejects it; the
    multi-segment path returns it. -/
theorem single_segment_misses_transposition :
    osa [98, 97] [97, 98] = 1 ∧ (levenshteinAutomaton [97, 98] 1 0).accept [98, 97] = false ∧
      termsWithinSeg [[98, 97]] [97, 98] 1 0 = .ok [] ∧
      termsWithinBase [[98, 97]] [97, 98] 1 0 = .ok [[98, 97]] := by
  refine ⟨by simp [osa, ed, neq], ?_, ?_, ?_⟩
  · rw [nfa]; simp [sharePrefix, lev, ed, neq]
  · rw [terms_within_single _ _ _ _ (by simp [Valid, Scalar, maxCodePoint]) (by simp [Valid, Scalar, maxCodePoint])
      (by simp [SortedLex])]
    simp [within, sharePrefix, lev, ed, neq]
  · rw [terms_within_multi]; simp [within, sharePrefix, osa, ed, neq]

/-- Hence "the same for one segment or many" is false of the code. -/
theorem not_multi_eq_single : ¬ multi_eq_single_full := by
  intro h
  have h1 := h [[98, 97]] [97, 98] 1 0 (by simp [Valid, Scalar, maxCodePoint]) (by simp [Valid, Scalar, maxCodePoint])
    (by simp [SortedLex])
  obtain ⟨_, _, h2, h3⟩ := single_segment_misses_transposition
  rw [h2, h3] at h1
  simp at h1

/-! ### `query/terms.py`: fuzzy term queries -/

/-- **Fuzzy term query on one segment**: the hits are exactly the documents that contain a
    term sharing the prefix and within *plain Levenshtein* distance of the word (the
    documented distance is `osa`: same recorded defect as `terms_within_single`).  `lex` is the sorted term list
    of the documents. -/
theorem fuzzy_query (lex : List (List Nat)) (docs : List (List (List Nat))) (w : List Nat) (d p : Nat)
    (hw : Valid w) (hv : ∀ t, t ∈ lex → Valid t) (hs : SortedLex lex)
    (hlex : ∀ t, t ∈ lex ↔ ∃ doc, doc ∈ docs ∧ t ∈ doc) :
    fuzzyDocsSeg lex docs w d p = .ok ((docs.zipIdx.filter fun x => x.1.any fun t =>
      (sharePrefix p t w && decide (lev t w ≤ d))).map (·.2)) := by
  unfold fuzzyDocsSeg
  rw [terms_within_single lex w d p hw hv hs]
  simp only [Except.map, fuzzyDocsOf]
  congr 2
  apply List.filter_congr
  intro x hx
  have hdoc : x.1 ∈ docs := by
    obtain ⟨doc, i⟩ := x
    exact (List.mem_zipIdx_iff_getElem?.mp hx |> List.mem_of_getElem?)
  rw [Bool.eq_iff_iff, List.any_eq_true, List.any_eq_true]
  constructor
  · rintro ⟨t, ht, hc⟩
    refine ⟨t, ht, ?_⟩
    simp only [List.contains_iff_mem, List.mem_filter, within] at hc
    simpa using hc.2
  · rintro ⟨t, ht, hc⟩
    refine ⟨t, ht, ?_⟩
    simp only [List.contains_iff_mem, List.mem_filter, within]
    exact ⟨(hlex t).mpr ⟨x.1, hdoc, ht⟩, by simpa using hc⟩

/-- The hypotheses of `fuzzy_query` are satisfiable, and the result is not trivial: of the
    documents `[ab]`, `[ba, b]`, `[]` only the first two contain a term within distance 1 of
    `ab` - `b` (one deletion); `ba` alone would not have matched. -/
example : fuzzyDocsSeg [[97, 98], [98], [98, 97]] [[[97, 98]], [[98, 97], [98]], []] [97, 98] 1 0 = .ok [0, 1] := by
  rw [fuzzy_query _ _ _ _ _ (by simp [Valid, Scalar, maxCodePoint]) (by simp [Valid, Scalar, maxCodePoint])
    (by simp [SortedLex]; decide)]
  · simp [sharePrefix, lev, ed, neq, List.zipIdx]
  · intro t; simp; constructor <;> (rintro (h | h | h) <;> simp [h])

/-- A segment: its sorted term list (of real characters) is the set of terms of its documents. -/
def SegOK (s : List (List Nat) × List (List (List Nat))) : Prop :=
  (∀ t, t ∈ s.1 → Valid t) ∧ SortedLex s.1 ∧ ∀ t, t ∈ s.1 ↔ ∃ doc, doc ∈ s.2 ∧ t ∈ doc

/-- **Fuzzy term query on a multi-segment index** (what `Searcher.search(FuzzyTerm)` observes):
    the union over the segments - the hits are exactly the documents, in global numbering, that
    contain a term sharing the prefix and within plain Levenshtein distance.  Same
    deviation from the documented `osa` as `fuzzy_query` (the expansion is done per segment with
    the automaton, also on multi-segment indexes). -/
theorem fuzzy_query_index (w : List Nat) (d p : Nat) (hw : Valid w) :
    ∀ (segs : List (List (List Nat) × List (List (List Nat)))) (off : Nat), (∀ s, s ∈ segs → SegOK s) →
      fuzzyDocsIndex w d p segs off =
        .ok ((((segs.flatMap (·.2)).zipIdx off).filter fun x => x.1.any fun t =>
          (sharePrefix p t w && decide (lev t w ≤ d))).map (·.2)) := by
  intro segs
  induction segs with
  | nil => intro off _; rfl
  | cons s rest ih =>
    intro off hok
    obtain ⟨lex, docs⟩ := s
    obtain ⟨hv, hs, hlex⟩ := hok (lex, docs) (by simp)
    rw [fuzzyDocsIndex, fuzzy_query lex docs w d p hw hv hs hlex]
    simp only
    rw [ih (off + docs.length) (fun s hs => hok s (List.mem_cons_of_mem _ hs))]
    simp only [Except.map, List.flatMap_cons, List.zipIdx_append, List.filter_append, List.map_append,
      List.map_map]
    congr 2
    exact filter_zipIdx_shift docs off (fun doc => doc.any fun t =>
      sharePrefix p t w && decide (lev t w ≤ d))

/-- Two segments: the document `[ab]` of the second segment is hit as number 2; `[ba]` (one
    transposition away) is not. -/
example : fuzzyDocsIndex [97, 98] 1 0
    [([[98], [98, 97]], [[[98, 97]], [[98]]]), ([[97, 98]], [[[97, 98]]])] 0 = .ok [1, 2] := by
  rw [fuzzy_query_index _ _ _ (by simp [Valid, Scalar, maxCodePoint])]
  · simp [sharePrefix, lev, ed, neq, List.zipIdx]
  · intro s hs
    simp only [List.mem_cons, List.not_mem_nil, or_false] at hs
    rcases hs with rfl | rfl
    · refine ⟨by simp [Valid, Scalar, maxCodePoint], by simp [SortedLex], ?_⟩
      intro t; simp; constructor <;> (rintro (h | h) <;> simp [h])
    · refine ⟨by simp [Valid, Scalar, maxCodePoint], by simp [SortedLex], ?_⟩
      intro t; simp

/-- **`Query.docs` of a fuzzy term query on a multi-segment index** (the query evaluated against
    the top-level searcher: one expansion through the `MultiReader`): the documents, in global
    numbering, that contain a term sharing the prefix and within the *documented* distance `osa` -
    exactly what the property demands.  Composes `terms_within_multi_index` with the union matcher. -/
theorem fuzzy_query_docs_top (w : List Nat) (d p : Nat)
    (segs : List (List (List Nat) × List (List (List Nat)))) (h2 : 2 ≤ segs.length)
    (hok : ∀ s, s ∈ segs → SegOK s) :
    fuzzyDocsTop w d p segs =
      .ok (((segs.flatMap (·.2)).zipIdx.filter fun x => x.1.any fun t =>
        (sharePrefix p t w && decide (osa t w ≤ d))).map (·.2)) := by
  have hdef : fuzzyDocsTop w d p segs =
      (termsWithinMulti (segs.map (·.1)) w d p).map (fuzzyDocsOf (segs.flatMap (·.2))) := by
    unfold fuzzyDocsTop
    split
    · simp at h2
    · rfl
  obtain ⟨m, _, _, hmem, htw, _⟩ := terms_within_multi_index (segs.map (·.1)) w d p (by
    intro lex hl
    obtain ⟨s, hs, rfl⟩ := List.mem_map.mp hl
    exact (hok s hs).2.1)
  rw [hdef, htw]
  simp only [Except.map, fuzzyDocsOf]
  congr 2
  apply List.filter_congr
  intro x hx
  have hdoc : x.1 ∈ segs.flatMap (·.2) := by
    obtain ⟨doc, i⟩ := x
    exact (List.mem_zipIdx_iff_getElem?.mp hx |> List.mem_of_getElem?)
  obtain ⟨s, hs, hds⟩ := List.mem_flatMap.mp hdoc
  rw [Bool.eq_iff_iff, List.any_eq_true, List.any_eq_true]
  constructor
  · rintro ⟨t, ht, hc⟩
    refine ⟨t, ht, ?_⟩
    simp only [List.contains_iff_mem, List.mem_filter, within] at hc
    simpa using hc.2
  · rintro ⟨t, ht, hc⟩
    refine ⟨t, ht, ?_⟩
    simp only [List.contains_iff_mem, List.mem_filter, within]
    refine ⟨(hmem t).mpr ⟨s.1, List.mem_map.mpr ⟨s, hs, rfl⟩, ((hok s hs).2.2 t).mpr ⟨x.1, hds, ht⟩⟩, ?_⟩
    simpa using hc

/-- **The access paths disagree** on a multi-segment index: for the documents `[ba]`, `[b]` (first
    segment) and `[ab]` (second), `FuzzyTerm("ab", maxdist=1).docs(searcher)` is `[0, 1, 2]` (the
    documented ball: `ba` is one transposition away) while `searcher.search(...)` returns the
    documents `[1, 2]` (`fuzzy_query_index`: every segment is expanded with the plain Levenshtein
    automaton).  Same root cause as `single_segment_misses_transposition`. -/
theorem fuzzy_access_paths_disagree :
    fuzzyDocsTop [97, 98] 1 0 [([[98], [98, 97]], [[[98, 97]], [[98]]]), ([[97, 98]], [[[97, 98]]])] = .ok [0, 1, 2] ∧
    fuzzyDocsIndex [97, 98] 1 0 [([[98], [98, 97]], [[[98, 97]], [[98]]]), ([[97, 98]], [[[97, 98]]])] 0 = .ok [1, 2] := by
  have hok : ∀ s, s ∈ [(([[98], [98, 97]] : List (List Nat)), ([[[98, 97]], [[98]]] : List (List (List Nat)))),
      ([[97, 98]], [[[97, 98]]])] → SegOK s := by
    intro s hs
    simp only [List.mem_cons, List.not_mem_nil, or_false] at hs
    rcases hs with rfl | rfl
    · refine ⟨by simp [Valid, Scalar, maxCodePoint], by simp [SortedLex], ?_⟩
      intro t; simp; constructor <;> (rintro (h | h) <;> simp [h])
    · refine ⟨by simp [Valid, Scalar, maxCodePoint], by simp [SortedLex], ?_⟩
      intro t; simp
  constructor
  · rw [fuzzy_query_docs_top _ _ _ _ (by simp) hok]
    simp [sharePrefix, osa, ed, neq, List.zipIdx]
  · rw [fuzzy_query_index _ _ _ (by simp [Valid, Scalar, maxCodePoint]) _ _ hok]
    simp [sharePrefix, lev, ed, neq, List.zipIdx]

/-! ### `spelling.py`: suggestions -/

/-- Full statement for suggestions (multi-segment path): existing terms within the documented
    distance that share the prefix, never the word itself, ordered by closeness then frequency,
    and the `limit` cut keeps the best ones.  FALSE of the code (witnesses below). -/
def suggest_full : Prop :=
  ∀ (lex : List (List Nat)) (freq : List Nat → Nat) (w : List Nat) (limit d p : Nat) (terms r : List (List Nat)),
    0 < limit → termsWithinBase lex w d p = .ok terms → suggest terms freq limit d = .ok r →
      (∀ t, t ∈ r → t ∈ within osa lex w d p ∧ t ≠ w) ∧
      r.Pairwise (fun s t => osa s w < osa t w ∨ (osa s w = osa t w ∧ freq t ≤ freq s)) ∧
      (∀ t, t ∈ within osa lex w d p → t ≠ w → t ∉ r → ∀ s, s ∈ r →
        osa s w < osa t w ∨ (osa s w = osa t w ∧ freq t ≤ freq s))

/-- `_partial`: what does hold - every suggestion is a term of the lexicon within the documented
    distance that shares the prefix, and exactly `min limit (number of such terms)` are returned.
    Missing for `suggest_full`: the word itself is not removed and the score ignores the distance
    (both recorded as findings; the code is wrong, witnesses below). -/
theorem suggest_partial (lex : List (List Nat)) (freq : List Nat → Nat) (w : List Nat)
    (limit d p : Nat) (hl : 0 < limit) :
    ∃ r, (termsWithinBase lex w d p >>= fun terms => suggest terms freq limit d) = .ok r ∧
      (∀ t, t ∈ r → t ∈ within osa lex w d p) ∧
      r.length = min limit (within osa lex w d p).length := by
  obtain ⟨r, hr, hlen⟩ := suggest_length (within osa lex w d p) freq limit d hl
  refine ⟨r, ?_, suggest_mem _ freq limit d r hr, hlen⟩
  rw [terms_within_multi]
  exact hr

/-- `limit = 1` of two candidates: one suggestion. -/
example : ∃ r, (termsWithinBase [[97], [98]] [97] 1 0 >>= fun terms => suggest terms (fun _ => 2) 1 1) = .ok r ∧
    r.length = 1 := by
  obtain ⟨r, h1, _, h3⟩ := suggest_partial [[97], [98]] (fun _ => 2) [97] 1 1 0 (by omega)
  refine ⟨r, h1, ?_⟩
  rw [h3]; simp [within, sharePrefix, osa, ed, neq]
/-- Same through the single-segment path: the suggestions are terms within plain Levenshtein
    distance (hence within the documented one). -/
theorem suggest_single_partial (lex : List (List Nat)) (freq : List Nat → Nat) (w : List Nat)
    (limit d p : Nat) (hl : 0 < limit) (hw : Valid w) (hv : ∀ t, t ∈ lex → Valid t)
    (hs : SortedLex lex) :
    ∃ r, (termsWithinSeg lex w d p >>= fun terms => suggest terms freq limit d) = .ok r ∧
      (∀ t, t ∈ r → t ∈ within osa lex w d p) ∧
      r.length = min limit (within lev lex w d p).length := by
  obtain ⟨r, hr, hlen⟩ := suggest_length (within lev lex w d p) freq limit d hl
  refine ⟨r, ?_, ?_, hlen⟩
  · rw [terms_within_single lex w d p hw hv hs]
    exact hr
  · intro t ht
    exact single_subset_documented lex w d p t (suggest_mem _ freq limit d r hr t ht)

/-- **Suggestions return the queried word** when it is a term: `suggest("a")` on the lexicon
    `{a}` is `["a"]`. -/
theorem suggest_returns_word :
    (termsWithinBase [[97]] [97] 1 0 >>= fun terms => suggest terms (fun _ => 1) 5 1) = .ok [[97]] := by
  rw [terms_within_multi]
  have : within osa [[97]] [97] 1 0 = [[97]] := by simp [within, sharePrefix, osa, ed, neq]
  rw [this]
  simp [bind, Except.bind, suggest, suggestItems, suggestions, suggestLoop, heapInsert, Except.map, sortBy, insertBy]

/-- Hence the full statement about suggestions is false of the code. -/
theorem not_suggest_full : ¬ suggest_full := by
  intro h
  have ht : termsWithinBase [[97]] [97] 1 0 = .ok [[97]] := by
    rw [terms_within_multi]; simp [within, sharePrefix, osa, ed, neq]
  have hs : suggest [[97]] (fun _ => 1) 5 1 = .ok [[97]] := by
    simp [suggest, suggestItems, suggestions, suggestLoop, heapInsert, Except.map, sortBy, insertBy]
  have := (h [[97]] (fun _ => 1) [97] 5 1 0 [[97]] [[97]] (by omega) ht hs).1 [97] (by simp)
  exact this.2 rfl

/-- **Suggestions are ranked by frequency, not by closeness**: for the word `a`, `aab` (distance
    2, frequency 3) is listed before `b` (distance 1, frequency 1). -/
theorem suggest_ignores_distance :
    (suggest [[97, 97, 98], [98]] (fun t => if t = [98] then 1 else 3) 5 2).toOption =
        some [[97, 97, 98], [98]] ∧
      osa [98] [97] < osa [97, 97, 98] [97] := by
  constructor
  · decide +kernel
  · simp [osa, ed, neq]

/-! ### `spelling.py`: `ListCorrector`, `SimpleQueryCorrector` (`Searcher.correct_query`) -/

/-- **`ListCorrector.suggest`** on a sorted word list: the call succeeds, returns at most `limit`
    words, and every one of them is a non-empty word of the list that shares the prefix and is
    within plain Levenshtein - hence within the documented - distance.  (`_partial` with respect to
    the property: like the index path it measures `lev`, so transposition neighbours are missed -
    `list_corrector_misses_transposition` - and the word itself is not excluded.) -/
theorem list_corrector_partial (wl : List (List Nat)) (w : List Nat) (limit maxdist p : Nat)
    (hl : 0 < limit) (hw : Valid w) (hv : ∀ t, t ∈ wl → Valid t) (hs : SortedLex wl) :
    ∃ r, listSuggest wl w limit maxdist p = .ok r ∧ r.length ≤ limit ∧
      ∀ t, t ∈ r → t ≠ [] ∧ t ∈ within lev wl w maxdist p ∧ t ∈ within osa wl w maxdist p := by
  obtain ⟨r, hr, hlen, hmem⟩ := listSuggest_spec wl w limit maxdist p hl hw hv hs
  refine ⟨r, hr, hlen, ?_⟩
  intro t ht
  obtain ⟨h1, h2, h3, h4⟩ := hmem t ht
  have hlev : t ∈ within lev wl w maxdist p := by
    unfold within
    rw [List.mem_filter]
    refine ⟨h1, ?_⟩
    simp only [Bool.and_eq_true, decide_eq_true_eq, sharePrefix, List.isPrefixOf_iff_prefix]
    exact ⟨h3, by rw [(dist_symm t w).1]; exact h4⟩
  exact ⟨h2, hlev, single_subset_documented wl w maxdist p t hlev⟩

/-- `ListCorrector(["ba"]).suggest("ab", maxdist=1)` is empty although `ba` is one (documented)
    edit away. -/
theorem list_corrector_misses_transposition :
    listSuggest [[98, 97]] [97, 98] 5 1 0 = .ok [] ∧ osa [98, 97] [97, 98] = 1 := by
  obtain ⟨r, hr, _, hmem⟩ := listSuggest_spec [[98, 97]] [97, 98] 5 1 0 (by omega)
    (by simp [Valid, Scalar, maxCodePoint]) (by simp [Valid, Scalar, maxCodePoint]) (by simp [SortedLex])
  refine ⟨?_, by simp [osa, ed, neq]⟩
  cases r with
  | nil => exact hr
  | cons t r =>
    obtain ⟨h1, _, _, h4⟩ := hmem t (by simp)
    have : t = [98, 97] := by simpa using h1
    subst this
    simp [lev, ed, neq] at h4

/-- **`MultiCorrector`** over any sub-correctors and any merge operator `op` (given the items the
    sub-correctors' `_suggestions` yield): the call succeeds, no word is suggested twice (a word
    several correctors propose is merged into one item), exactly `min limit (number of distinct
    proposed words)` suggestions come back, and each was proposed by one of the sub-correctors. -/
theorem multi_corrector (op : Rat → Rat → Rat) (itemss : List (List (Rat × List Nat))) (limit : Nat)
    (hl : 0 < limit) :
    ∃ r, suggestItems (multiSuggestions op itemss) limit = .ok r ∧ r.Nodup ∧
      r.length = min limit (multiSuggestions op itemss).length ∧
      ((multiSuggestions op itemss).map (·.2)).Nodup ∧
      ∀ t, t ∈ r → ∃ items, items ∈ itemss ∧ ∃ a, a ∈ items ∧ a.2 = t := by
  obtain ⟨hnd, hmem⟩ := multiSuggestions_spec op itemss
  obtain ⟨r, hr, hlen⟩ := suggestItems_length (multiSuggestions op itemss) limit hl
  refine ⟨r, hr, suggestItems_nodup _ limit r hr hnd, hlen, hnd, ?_⟩
  intro t ht
  obtain ⟨a, ha, rfl⟩ := suggestItems_mem _ limit r hr t ht
  exact (hmem a.2).mp (List.mem_map.mpr ⟨a, ha, rfl⟩)

/-- `b` is proposed by both sub-correctors (scores -2 and -1): it comes back once, with `max` in
    front of `a`. -/
example : suggestItems (multiSuggestions max [[(-2, [98])], [(-3/2, [97]), (-1, [98])]]) 5 = .ok [[98], [97]] := by
  decide +kernel

/-- **`MultiCorrector([reader.corrector(field), ListCorrector(wl)], op)`** on a multi-segment
    reader, any `op`: succeeds, at most `limit` suggestions, none twice, and every one is a term of
    the field or a word of the list that shares the prefix and is within the documented distance.
    `_partial` like the sub-correctors: ranking and self-exclusion are the recorded defects. -/
theorem multi_corrector_partial (op : Rat → Rat → Rat) (lex wl : List (List Nat)) (freq : List Nat → Nat)
    (w : List Nat) (limit d p : Nat) (hl : 0 < limit) (hw : Valid w) (hv : ∀ t, t ∈ wl → Valid t)
    (hs : SortedLex wl) :
    ∃ r, multiSuggest op [readerItems (termsWithinBase lex w d p) freq d, listItems wl w d p] limit = .ok r ∧
      r.length ≤ limit ∧ r.Nodup ∧
      ∀ t, t ∈ r → t ∈ within osa lex w d p ∨ t ∈ within osa wl w d p := by
  obtain ⟨items, hitems, hok⟩ := listSuggestionsLoop_spec wl w p d hw hv hs
    ((List.range d).map (· + 1)) [] (by
      intro m hm
      simp only [List.mem_map, List.mem_range] at hm
      obtain ⟨a, ha, rfl⟩ := hm; omega)
  obtain ⟨r, hr, hnd, hlen, _, hmem⟩ :=
    multi_corrector op [suggestions (within osa lex w d p) freq d, items] limit hl
  refine ⟨r, ?_, by rw [hlen]; exact Nat.min_le_left _ _, hnd, ?_⟩
  · unfold multiSuggest readerItems listItems
    rw [terms_within_multi, hitems]
    exact hr
  · intro t ht
    obtain ⟨its, hits, a, ha, rfl⟩ := hmem t ht
    simp only [List.mem_cons, List.not_mem_nil, or_false] at hits
    rcases hits with rfl | rfl
    · exact Or.inl (mem_suggestions _ freq d a ha)
    · right
      obtain ⟨h1, _, h3, h4⟩ := hok a ha
      have hlev : a.2 ∈ within lev wl w d p := by
        unfold within
        rw [List.mem_filter]
        refine ⟨h1, ?_⟩
        simp only [Bool.and_eq_true, decide_eq_true_eq, sharePrefix, List.isPrefixOf_iff_prefix]
        exact ⟨h3, by rw [(dist_symm a.2 w).1]; exact h4⟩
      exact single_subset_documented wl w d p a.2 hlev

/-- The hypotheses are satisfiable: the field has `ab` and `b`, the list `ab` and `ac`; the word is
    `aa`, distance 1, prefix 1 (`ab` is proposed by both sub-correctors). -/
example : ∃ r, multiSuggest max [readerItems (termsWithinBase [[97, 98], [98]] [97, 97] 1 1) (fun _ => 2) 1,
    listItems [[97, 98], [97, 99]] [97, 97] 1 1] 5 = .ok r ∧ r.length ≤ 5 ∧ r.Nodup := by
  obtain ⟨r, h1, h2, h3, _⟩ := multi_corrector_partial max [[97, 98], [98]] [[97, 98], [97, 99]] (fun _ => 2)
    [97, 97] 5 1 1 (by omega) (by simp [Valid, Scalar, maxCodePoint]) (by simp [Valid, Scalar, maxCodePoint])
    (by simp [SortedLex]; decide)
  exact ⟨r, h1, h2, h3⟩

/-- **`Searcher.correct_query` / `SimpleQueryCorrector`** for one query word, multi-segment
    reader: the word is either left alone or replaced by a term of the field that shares the
    first `p` characters and is within the documented distance `d` (never by anything else -
    whatever the frequencies).  `_partial`: that the replacement is the *closest* such term is
    false (`suggest_ignores_distance`), and it can be the word itself (`suggest_returns_word`). -/
theorem correct_query_partial (lex : List (List Nat)) (freq : List Nat → Nat) (w : List Nat) (d p : Nat) :
    ∃ r, correctToken (termsWithinBase lex w d p >>= fun terms => suggest terms freq 5 d) w = .ok r ∧
      (r = w ∨ r ∈ within osa lex w d p) := by
  obtain ⟨sugs, hs, hmem, _⟩ := suggest_partial lex freq w 5 d p (by omega)
  rw [hs]
  cases sugs with
  | nil => exact ⟨w, rfl, Or.inl rfl⟩
  | cons s rest => exact ⟨s, rfl, Or.inr (hmem s (by simp))⟩

/-- The same through a single-segment reader and through a `ListCorrector`. -/
theorem correct_query_single_partial (lex : List (List Nat)) (freq : List Nat → Nat) (w : List Nat)
    (d p : Nat) (hw : Valid w) (hv : ∀ t, t ∈ lex → Valid t) (hs : SortedLex lex) :
    (∃ r, correctToken (termsWithinSeg lex w d p >>= fun terms => suggest terms freq 5 d) w = .ok r ∧
      (r = w ∨ r ∈ within osa lex w d p)) ∧
    (∃ r, correctToken (listSuggest lex w 5 d p) w = .ok r ∧ (r = w ∨ r ∈ within osa lex w d p)) := by
  constructor
  · obtain ⟨sugs, h1, hmem, _⟩ := suggest_single_partial lex freq w 5 d p (by omega) hw hv hs
    rw [h1]
    cases sugs with
    | nil => exact ⟨w, rfl, Or.inl rfl⟩
    | cons s rest => exact ⟨s, rfl, Or.inr (hmem s (by simp))⟩
  · obtain ⟨sugs, h1, _, hmem⟩ := list_corrector_partial lex w 5 d p (by omega) hw hv hs
    rw [h1]
    cases sugs with
    | nil => exact ⟨w, rfl, Or.inl rfl⟩
    | cons s rest => exact ⟨s, rfl, Or.inr (hmem s (by simp)).2.2⟩

/-- The hypotheses are satisfiable and the correction is a real one: `ac` is corrected to `ab`
    (distance 1) with the required prefix `a`, not to the more frequent `bc`. -/
example : correctToken (termsWithinBase [[97, 98], [98, 99]] [97, 99] 1 1 >>= fun terms =>
    suggest terms (fun t => if t = [98, 99] then 9 else 1) 5 1) [97, 99] = .ok [97, 98] := by
  rw [terms_within_multi]
  have : within osa [[97, 98], [98, 99]] [97, 99] 1 1 = [[97, 98]] := by
    simp [within, sharePrefix, osa, ed, neq]
  rw [this]
  simp [bind, Except.bind, correctToken, suggest, suggestItems, suggestions, suggestLoop, heapInsert,
    Except.map, sortBy, insertBy]

end WM.C19
