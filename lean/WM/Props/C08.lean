import WM.Lemmas.ColumnsVar
import WM.Lemmas.ColumnsFixed
import WM.Lemmas.ColumnsRef
import WM.Lemmas.ColumnsMisc
import WM.Lemmas.ColumnsSeg
/-!
# C08 — stored values and column values come back unchanged for the right document

For every column type: for strictly increasing `(docnum, value)` adds and any `doccount` beyond
the last one, reading document `d` gives the supplied value where there is one and the column
default elsewhere (`cell`).
-/
namespace WM.C08
open WM.Columns

theorem rowsOf_length {α : Type} (dflt : α) (adds : List (Nat × α)) (n : Nat) :
    (rowsOf dflt adds n).length = n := by simp [rowsOf]

theorem rowsOf_get {α : Type} (dflt : α) (adds : List (Nat × α)) (n d : Nat) (h : d < n) :
    (rowsOf dflt adds n)[d]? = some (cell dflt adds d) := by
  simp [rowsOf, List.getElem?_range h]

/-- **VarBytesColumn** (every `write_offsets_cutoff`, offsets allowed or not; with the repaired
    `finish`): values whose total size stays below 2^32 (the column's documented limit; beyond it
    `GrowableArray(allow_longs=False)` raises `OverflowError`) come back unchanged, documents
    without a value read as `b''`. -/
theorem varbytes_roundtrip (allow : Bool) (cutoff : Nat) (adds : List (Nat × Bytes)) (doccount : Nat)
    (hinc : Increasing adds) (hwithin : Within adds doccount) (hsize : totalBytes adds < 4294967296) :
    ∃ file, varWrite allow cutoff adds doccount = .ok file ∧
      ∀ d, d < doccount → varRead file doccount d = .ok (cell [] adds d) := by
  obtain ⟨w1, ha, hi1, hc1⟩ := VarW.addAll_inv adds {} [] VarW.inv_init rfl hinc
    (fun p _ => Nat.zero_le _) (by simpa using hsize)
  obtain ⟨hrows, hle⟩ := extendRows_final ([] : Bytes) adds doccount hinc hwithin
  have hflat := extendRows_flatten_length [] adds
  obtain ⟨w2, hf, hi2, _⟩ := w1.fill_inv _ doccount hi1 hc1 (by rw [hc1]; exact hle)
    (by rw [hflat]; simpa using hsize)
  rw [hrows] at hi2
  -- the file
  let rows := rowsOf ([] : Bytes) adds doccount
  let wo := allow && decide (doccount > cutoff)
  have hfile : varWrite allow cutoff adds doccount = .ok
      (rows.flatten ++ packArr w2.lengths.tc.size (rows.map List.length)
        ++ (if wo then packArr w2.offsets.tc.size (deriveOffsets 0 (rows.map List.length)) else [])
        ++ [w2.lengths.tc.code] ++ (if wo then [w2.offsets.tc.code, 88] else [])) := by
    simp only [varWrite, ha, VarW.finish, hf, hi2.out, hi2.lens, hi2.offs]
    rfl
  refine ⟨_, hfile, fun d hd => ?_⟩
  have hlenL : (rows.map List.length).length = doccount := by simp [rows, rowsOf_length]
  obtain ⟨r, hopen, hdata, hlens, hoffs, _⟩ := VarR.open_layout rows.flatten w2.lengths.tc w2.offsets.tc
    (rows.map List.length) (deriveOffsets 0 (rows.map List.length)) wo doccount hlenL
    (by rw [deriveOffsets_length]; exact hlenL)
    (by rw [← hi2.lens]; exact hi2.wfl) (by rw [← hi2.offs]; exact hi2.wfo) rfl
  have hrow : rows[d]? = some (cell [] adds d) := rowsOf_get [] adds doccount d hd
  simp only [varRead, hopen, VarR.get, hlens, List.getElem?_map, hrow, Option.map_some]
  cases hc : (cell [] adds d).length with
  | zero => simp [List.eq_nil_of_length_eq_zero hc]
  | succ k =>
    simp only
    rw [hoffs, deriveOffsets_getElem? 0 _ d (by rw [hlenL]; exact hd)]
    simp only [Nat.zero_add, hdata]
    rw [← hc, ← List.map_take]
    have := slice_flatten rows
      (packArr w2.lengths.tc.size (rows.map List.length)
        ++ (if wo then packArr w2.offsets.tc.size (deriveOffsets 0 (rows.map List.length)) else [])
        ++ [w2.lengths.tc.code] ++ (if wo then [w2.offsets.tc.code, 88] else []))
      d (cell [] adds d) hrow
    simp only [List.append_assoc] at this ⊢
    rw [this]

/-- The hypotheses are satisfiable: a gap, a value of 300 bytes (type code `H` for the lengths),
    trailing documents without a value (offsets stored because `doccount > cutoff`). -/
example (big : Bytes) (hbig : big.length = 300) :
    let adds : List (Nat × Bytes) := [(0, [1, 2]), (2, big)]
    Increasing adds ∧ Within adds 5 ∧ totalBytes adds < 4294967296 ∧ totalBytes adds = 302 := by
  intro adds
  refine ⟨?_, ?_, ?_, ?_⟩
  · simp [adds, Increasing]
  · intro p hp
    simp only [adds, List.mem_cons, List.not_mem_nil, or_false] at hp
    rcases hp with rfl | rfl <;> simp
  · simp [adds, totalBytes, hbig]
  · simp [adds, totalBytes, hbig]

end WM.C08

namespace WM.C08
open WM.Columns

/-- **FixedBytesColumn**: values of the fixed length come back unchanged for every document
    number (also beyond the rows stored); documents without a value — and values equal to the
    default, which are not written — read as the default. -/
theorem fixedbytes_roundtrip (k : Nat) (hk : 0 < k) (default : Bytes) (hdb : default.length = k)
    (adds : List (Nat × Bytes)) (hinc : Increasing adds) (hw : ∀ p ∈ adds, p.2.length = k) :
    ∃ file, fixedWrite k default adds = .ok file ∧
      ∀ d, fixGet k default file d = cell default adds d := by
  let adds' := adds.map fun p => (p.1, (p.2 == default, p.2))
  have hinc' : Increasing adds' := increasing_map (fun v => (v == default, v)) adds hinc
  obtain ⟨w', h1, h2⟩ := FixW.addAll_inv k default true hdb adds' {} [] ⟨rfl, rfl, by simp⟩ hinc'
    (fun p _ => Nat.zero_le _)
    (fun p hp => by
      simp only [adds', List.mem_map] at hp
      obtain ⟨q, hq, rfl⟩ := hp
      exact hw q hq)
  refine ⟨w'.out, by simp only [fixedWrite]; rw [show (adds.map fun p => (p.1, p.2 == default, p.2)) = adds' from rfl, h1], ?_⟩
  intro d
  rw [h2.out, fixGet_rows k hk default _ h2.width d,
    extendRows_getD default _ (written_increasing adds' hinc') d, cell_written default adds' hinc' d,
    show lookup adds' d = (lookup adds d).map (fun v => (v == default, v)) from
      lookup_map (fun v => (v == default, v)) adds d]
  cases hl : lookup adds d with
  | none => simp [cell, hl]
  | some v =>
    simp only [Option.map_some, cell, hl, Option.getD_some]
    by_cases hv : v = default
    · simp [hv]
    · simp [hv]

/-- **NumericColumn** (integer type codes b/B/h/H/i/I/q/Q): every in-range value comes back
    unchanged, the default is elided on disk and synthesised on reading. -/
theorem numeric_roundtrip (c : NumCode) (default : Int) (adds : List (Nat × Int))
    (hinc : Increasing adds) (hdr : c.lo ≤ default ∧ default ≤ c.hi)
    (hr : ∀ p ∈ adds, c.lo ≤ p.2 ∧ p.2 ≤ c.hi) :
    ∃ file, numWrite c default {} adds = .ok file ∧
      ∀ d, numGet c default file d = .ok (cell default adds d) := by
  obtain ⟨db, hdb⟩ : ∃ db, c.pack default = .ok db := ⟨_, if_pos hdr⟩
  have hpack : ∀ p ∈ adds, ∃ bs, c.pack p.2 = .ok bs :=
    fun p hp => ⟨_, if_pos (hr p hp)⟩
  let adds' := adds.map fun p => (p.1, (decide (p.2 = default), packD c p.2))
  have hinc' : Increasing adds' :=
    increasing_map (fun v => (decide (v = default), packD c v)) adds hinc
  have hdbl : db.length = c.size := c.pack_length default db hdb
  obtain ⟨w', h1, h2⟩ := FixW.addAll_inv c.size db false hdbl adds' {} [] ⟨rfl, rfl, by simp⟩ hinc'
    (fun p _ => Nat.zero_le _)
    (fun p hp => by
      simp only [adds', List.mem_map] at hp
      obtain ⟨q, hq, rfl⟩ := hp
      obtain ⟨bs, hbs⟩ := hpack q hq
      simp only [packD, hbs]
      exact c.pack_length q.2 bs hbs)
  refine ⟨w'.out, ?_, ?_⟩
  · rw [numWrite_eq c default db hdb adds {} hpack,
      show (adds.map fun p => (p.1, decide (p.2 = default), packD c p.2)) = adds' from rfl, h1]
  · intro d
    simp only [numGet, hdb]
    rw [h2.out, fixGet_rows c.size c.size_pos db _ h2.width d,
      extendRows_getD db _ (written_increasing adds' hinc') d, cell_written db adds' hinc' d,
      show lookup adds' d = (lookup adds d).map (fun v => (decide (v = default), packD c v))
        from lookup_map (fun v => (decide (v = default), packD c v)) adds d]
    cases hl : lookup adds d with
    | none => simp [cell, hl, c.unpack_pack default db hdb]
    | some v =>
      simp only [Option.map_some, cell, hl, Option.getD_some]
      by_cases hv : v = default
      · simp [hv, c.unpack_pack default db hdb]
      · obtain ⟨bs, hbs⟩ : ∃ bs, c.pack v = .ok bs := by
          have : ∃ p ∈ adds, p.2 = v := by
            unfold lookup at hl
            cases hf : adds.find? (fun p => p.1 == d) with
            | none => simp [hf] at hl
            | some p => simp [hf] at hl; exact ⟨p, List.mem_of_find?_eq_some hf, hl⟩
          obtain ⟨p, hp, rfl⟩ := this
          exact hpack p hp
        simp [hv, packD, hbs, c.unpack_pack v bs hbs]

example : (NumCode.pack .h (-2)).toOption = some [255, 254] ∧ NumCode.unpack .h [255, 254] = -2 := by
  decide

end WM.C08

namespace WM.C08
open WM.Columns

/-- **RefBytesColumn**: values come back unchanged, documents without a value read as the
    default — through the buffered byte references, the switch to ushorts when the 256th distinct
    value arrives, and with the documented saturation: a value whose position in the table of
    uniques exceeds 65 535 reads as the default (`refCell`). -/
theorem refbytes_roundtrip (fixedlen : Nat) (default : Bytes) (adds : List (Nat × Bytes))
    (doccount : Nat) (hinc : Increasing adds) (hwithin : Within adds doccount)
    (hfl : fixedlen = 0 ∨ (default.length = fixedlen ∧ ∀ p ∈ adds, p.2.length = fixedlen)) :
    ∀ d, d < doccount →
      refRead fixedlen (refWrite fixedlen default adds doccount) doccount d
        = .ok (refCell default adds d) := by
  intro d hd
  -- the writer in abstract form
  have hinit : (RefW.init default).Abs [] [default] :=
    ⟨rfl, ⟨rfl, rfl, by simp⟩, by simp, by simp⟩
  obtain ⟨habs, hcount⟩ := RefW.foldl_abs adds (RefW.init default) [] [default] hinit rfl hinc
    (fun p _ => Nat.zero_le _)
  rw [absAdds_eq] at habs hcount
  simp only at habs hcount
  let U := tableOf [default] adds
  let adds' : List (Nat × Nat) := adds.map fun p => (p.1, U.idxOf p.2)
  have hinc' : Increasing adds' := increasing_map (fun v => U.idxOf v) adds hinc
  have hwithin' : Within adds' doccount := by
    intro p hp
    simp only [adds', List.mem_map] at hp
    obtain ⟨q, hq, rfl⟩ := hp
    exact hwithin q hq
  obtain ⟨hrows, hle⟩ := extendRows_final (0 : Nat) adds' doccount hinc' hwithin'
  obtain ⟨w1, hw1⟩ : ∃ w1, w1 = adds.foldl (fun w p => w.add p.1 p.2) (RefW.init default) := ⟨_, rfl⟩
  rw [← hw1] at habs hcount
  obtain ⟨hfill, _⟩ := w1.fill_abs _ U doccount habs hcount hle
  rw [hrows] at hfill
  -- facts about the table
  obtain ⟨X, hX⟩ := tableOf_prefix [default] adds
  have hU0 : U[0]? = some default := by show (tableOf [default] adds)[0]? = _; rw [hX]; rfl
  have hUfl : fixedlen = 0 ∨ ∀ u ∈ U, u.length = fixedlen := by
    rcases hfl with h | ⟨h1, h2⟩
    · exact Or.inl h
    · refine Or.inr (fun u hu => ?_)
      rcases mem_tableOf_inv [default] adds u hu with h | ⟨p, hp, rfl⟩
      · simp only [List.mem_singleton] at h; rw [h]; exact h1
      · exact h2 p hp
  -- the reference stored for document d, and what it selects
  have hrow : (rowsOf 0 adds' doccount)[d]? = some (cell 0 adds' d) := rowsOf_get 0 adds' doccount d hd
  have hcell : cell 0 adds' d = ((lookup adds d).map (fun v => U.idxOf v)).getD 0 := by
    simp only [cell, adds']
    rw [lookup_map (fun v => U.idxOf v) adds d]
  have hspec : ∀ r, r = cell 0 adds' d → U[satRef r]? = some (refCell default adds d) := by
    intro r hr
    rw [hr, hcell]
    unfold refCell refCellWith
    rw [← tableOf_eq_uniquesOf]
    cases hl : lookup adds d with
    | none => simp [satRef, hU0]
    | some v =>
      simp only [Option.map_some, Option.getD_some]
      have hvU : v ∈ U := by
        have : ∃ p ∈ adds, p.2 = v := by
          unfold lookup at hl
          cases hf : adds.find? (fun p => p.1 == d) with
          | none => simp [hf] at hl
          | some p => simp [hf] at hl; exact ⟨p, List.mem_of_find?_eq_some hf, hl⟩
        obtain ⟨p, hp, rfl⟩ := this
        exact (mem_tableOf [default] adds).2 p hp
      by_cases hbig : List.idxOf v (tableOf [default] adds) > 65535
      · rw [if_pos hbig]
        have : satRef (List.idxOf v U) = 0 := by unfold satRef; exact if_pos hbig
        rw [this]; exact hU0
      · rw [if_neg hbig]
        have : satRef (List.idxOf v U) = List.idxOf v U := by unfold satRef; exact if_neg hbig
        rw [this]
        have hlt : List.idxOf v U < U.length := List.idxOf_lt_length_iff.mpr hvU
        rw [List.getElem?_eq_getElem hlt, List.getElem_idxOf hlt]
  -- the file
  unfold refWrite RefW.finish
  rw [← hw1]
  have hR : ∀ r ∈ rowsOf 0 adds' doccount, r < U.length := hfill.bound
  cases hrefs : (w1.fill doccount).refs with
  | some rs =>
    have h2 := hfill.refs; rw [hrefs] at h2
    obtain ⟨hrs, hout, hU256⟩ := h2
    simp only [hrefs, hout, List.nil_append, hfill.uniq]
    rw [hrs]
    have hsmall : cell 0 adds' d ≤ 65535 := by
      have := hR _ (List.mem_of_getElem? hrow); omega
    have hsel := hspec _ rfl
    rw [satRef_small _ hsmall] at hsel
    exact refRead_layout fixedlen .B (rowsOf 0 adds' doccount) U doccount (rowsOf_length 0 adds' doccount)
      (fun r hr => by have := hR r hr; show r < 256 ^ 1; omega) hUfl d _ _ hrow hsel
  | none =>
    have h2 := hfill.refs; rw [hrefs] at h2
    obtain ⟨hout, _⟩ := h2
    simp only [hrefs, hout, hfill.uniq]
    have hrow' : ((rowsOf 0 adds' doccount).map satRef)[d]? = some (satRef (cell 0 adds' d)) := by
      simp [hrow]
    exact refRead_layout fixedlen .H ((rowsOf 0 adds' doccount).map satRef) U doccount
      (by simp [rowsOf_length])
      (fun r hr => by
        simp only [List.mem_map] at hr
        obtain ⟨x, _, rfl⟩ := hr
        show satRef x < 256 ^ 2
        unfold satRef; split <;> omega) hUfl d _ _ hrow' (hspec _ rfl)

/-- The hypotheses are satisfiable (variable-length values with a repeated one). -/
example : Increasing ([(0, [1]), (3, [2, 2]), (4, [1])] : List (Nat × Bytes)) ∧
    Within ([(0, [1]), (3, [2, 2]), (4, [1])] : List (Nat × Bytes)) 6 ∧
    refCell ([] : Bytes) [(0, [1]), (3, [2, 2]), (4, [1])] 4 = [1] ∧
    refCell ([] : Bytes) [(0, [1]), (3, [2, 2]), (4, [1])] 2 = [] := by
  refine ⟨by simp [Increasing], ?_, by decide, by decide⟩
  intro p hp
  simp only [List.mem_cons, List.not_mem_nil, or_false] at hp
  rcases hp with rfl | rfl | rfl <;> simp

end WM.C08

namespace WM.C08
open WM.Columns

/-- **BitColumn**: document `d` reads `True` iff some add set it (adds in any order; the flag
    byte — compressed or not, with zlib an identity — does not matter). -/
theorem bit_roundtrip (compressAt : Nat) (adds : List (Nat × Bool)) (d : Nat) :
    bitGet (bitWrite compressAt adds) d = adds.any (fun p => p.1 == d && p.2) := by
  unfold bitWrite
  simp only
  rw [bitGet_eq, bitAt_foldl, bitAt_init]
  simp

/-- For one add per document this is the spec's `cell` with default `False`. -/
theorem bit_roundtrip_cell (compressAt : Nat) (adds : List (Nat × Bool)) (hinc : Increasing adds) (d : Nat) :
    bitGet (bitWrite compressAt adds) d = cell false adds d := by
  rw [bit_roundtrip]
  induction adds with
  | nil => rfl
  | cons p rest ih =>
    obtain ⟨d0, v⟩ := p
    have hinc' : Increasing rest := (List.pairwise_cons.mp hinc).2
    have hgt : ∀ q ∈ rest, d0 < q.1 := fun q hq => (List.pairwise_cons.mp hinc).1 q hq
    simp only [List.any_cons]
    by_cases hd : d0 = d
    · subst hd
      have hnone : rest.any (fun p => p.1 == d0 && p.2) = false := by
        rw [List.any_eq_false]
        intro q hq
        have := hgt q hq
        have : ¬ q.1 = d0 := by omega
        simp [this]
      simp [cell, lookup_cons_eq, hnone]
    · have : (d0 == d) = false := by simpa using hd
      simp only [this, Bool.false_and, Bool.false_or]
      rw [ih hinc']
      simp [cell, lookup_cons_ne d0 d v rest hd]

/-- **PickleColumn over a bytes column** (the `_stored` column is
    `PickleColumn(CompressedBytesColumn())`): with `ser`/`de` any serialiser that round-trips and
    never yields the empty string, a document reads back the object supplied for it, `None`
    when nothing (or `None`) was supplied. -/
theorem pickled_roundtrip {α : Type} (ser : α → Bytes) (de : Bytes → α)
    (hrt : ∀ x, de (ser x) = x) (hne : ∀ x, ser x ≠ [])
    (allow : Bool) (cutoff : Nat) (adds : List (Nat × Option α)) (doccount : Nat)
    (hinc : Increasing adds) (hwithin : Within adds doccount)
    (hsize : totalBytes (pickleAdds ser adds) < 4294967296) :
    ∃ file, varWrite allow cutoff (pickleAdds ser adds) doccount = .ok file ∧
      ∀ d, d < doccount →
        (varRead file doccount d).map (pickleGet de) = .ok ((lookup adds d).join) := by
  have hinc' : Increasing (pickleAdds ser adds) := increasing_map (pickleEnc ser) adds hinc
  have hwithin' : Within (pickleAdds ser adds) doccount := by
    intro p hp
    simp only [pickleAdds, List.mem_map] at hp
    obtain ⟨q, hq, rfl⟩ := hp
    exact hwithin q hq
  obtain ⟨file, hw, hr⟩ := varbytes_roundtrip allow cutoff (pickleAdds ser adds) doccount hinc' hwithin' hsize
  refine ⟨file, hw, fun d hd => ?_⟩
  rw [hr d hd]
  simp only [Except.map, cell, pickleAdds]
  rw [lookup_map (pickleEnc ser) adds d]
  cases hl : lookup adds d with
  | none => simp [pickleGet]
  | some o =>
    cases o with
    | none => simp [pickleGet, pickleEnc]
    | some x =>
      have : (ser x).isEmpty = false := by
        cases h : ser x with
        | nil => exact absurd h (hne x)
        | cons a l => rfl
      simp [pickleGet, pickleEnc, this, hrt]

/-- **Stored fields** through `W3PerDocWriter`: when documents `0, 1, 2, …` are written in order
    and document `i` supplies the non-empty stored dict `vals[i]` (or none), `stored_fields(d)` —
    `None → {}` — is the dict of document `d` and `{}` for every other document. -/
theorem stored {α : Type} (ser : α → Bytes) (de : Bytes → α) (empty : α)
    (hrt : ∀ x, de (ser x) = x) (hne : ∀ x, ser x ≠ [])
    (vals : List (Option α))
    (hsize : totalBytes (pickleAdds ser ((perDocAdds vals).map fun p => (p.1, some p.2))) < 4294967296) :
    ∃ file, varWrite true 32768 (pickleAdds ser ((perDocAdds vals).map fun p => (p.1, some p.2)))
        vals.length = .ok file ∧
      ∀ d, (hd : d < vals.length) →
        (varRead file vals.length d).map (fun v => (pickleGet de v).getD empty)
          = .ok ((vals[d]).getD empty) := by
  obtain ⟨h1, h2, h3⟩ := perDocAdds_spec vals 0
  have hinc : Increasing ((perDocAdds vals).map fun p => (p.1, some p.2)) :=
    increasing_map (fun v => some v) _ h1
  have hwithin : Within ((perDocAdds vals).map fun p => (p.1, some p.2)) vals.length := by
    intro p hp
    simp only [List.mem_map] at hp
    obtain ⟨q, hq, rfl⟩ := hp
    have := h2 q hq
    simp only; omega
  obtain ⟨file, hw, hr⟩ := pickled_roundtrip ser de hrt hne true 32768 _ vals.length hinc hwithin hsize
  refine ⟨file, hw, fun d hd => ?_⟩
  have := hr d hd
  have hl : lookup ((perDocAdds vals).map fun p => (p.1, some p.2)) d = (vals[d]?).join.map some := by
    rw [lookup_map (fun v => some v) (perDocAdds vals) d]
    have := h3 d
    simp only [Nat.zero_add] at this
    unfold perDocAdds
    rw [this]
  rw [hl] at this
  cases hv : varRead file vals.length d with
  | error e => rw [hv] at this; simp [Except.map] at this
  | ok v =>
    rw [hv] at this
    simp only [Except.map, Except.ok.injEq] at this ⊢
    rw [this, List.getElem?_eq_getElem hd]
    cases vals[d] <;> rfl

/-- **List columns**: a list of byte strings survives `VarBytesListColumn`'s row encoding, a list
    of fixed-length strings `FixedBytesListColumn`'s; an empty row decodes to the empty list. -/
theorem list_encodings (ls : List Bytes) (k : Nat) (hk : 0 < k) :
    decodeVarList (encodeVarList ls) = some ls ∧ decodeVarList [] = some [] ∧
    ((∀ v ∈ ls, v.length = k) → encodeFixList k ls = .ok ls.flatten ∧ decodeFixList k ls.flatten = ls) ∧
    decodeFixList k [] = [] :=
  ⟨decodeVarList_encode ls, rfl, decodeFixList_encode k hk ls, rfl⟩

/-- `VarBytesListColumn` end to end (through the wrapped `VarBytesColumn`). -/
theorem varbyteslist_roundtrip (adds : List (Nat × List Bytes)) (doccount : Nat)
    (hinc : Increasing adds) (hwithin : Within adds doccount)
    (hsize : totalBytes (adds.map fun p => (p.1, encodeVarList p.2)) < 4294967296) :
    ∃ file, varWrite true 32768 (adds.map fun p => (p.1, encodeVarList p.2)) doccount = .ok file ∧
      ∀ d, d < doccount →
        (varRead file doccount d).map decodeVarList = .ok (some (cell [] adds d)) := by
  have hinc' : Increasing (adds.map fun p => (p.1, encodeVarList p.2)) := increasing_map _ adds hinc
  have hwithin' : Within (adds.map fun p => (p.1, encodeVarList p.2)) doccount := by
    intro p hp
    simp only [List.mem_map] at hp
    obtain ⟨q, hq, rfl⟩ := hp
    exact hwithin q hq
  obtain ⟨file, hw, hr⟩ := varbytes_roundtrip true 32768 _ doccount hinc' hwithin' hsize
  refine ⟨file, hw, fun d hd => ?_⟩
  rw [hr d hd]
  simp only [Except.map, cell]
  rw [lookup_map encodeVarList adds d]
  cases hl : lookup adds d with
  | none => rfl
  | some ls => simp [decodeVarList_encode]

/-- **MultiColumnReader** (with every segment taking part — the repaired
    `MultiReader.column_reader`): global document `d` is served by the segment whose offset range
    contains it, at `d − offset`; `EmptyColumnReader` rows of segments without the column are that
    segment's default rows. -/
theorem multi (counts : List Nat) (d : Nat) (hd : d < counts.sum) :
    ∃ i c o, multiLocate (deriveOffsets 0 counts) d = some (i, d - o) ∧ counts[i]? = some c ∧
      (deriveOffsets 0 counts)[i]? = some o ∧ o ≤ d ∧ d - o < c := by
  obtain ⟨i, c, o, h1, h2, h3, h4, h5⟩ := multiLocate_spec counts 0 d (Nat.zero_le _) (by simpa using hd)
  refine ⟨i, c, o, ?_, h2, h3, h4, by omega⟩
  unfold multiLocate
  simp only [h1, Nat.add_sub_cancel, h3]

/-- **Merge**: the column of the merged segment holds, for its `j`-th document, the value the old
    segment had for its `j`-th live document; the merged adds are again increasing, so the column
    round-trip theorems apply to the new segment. -/
theorem merge {α : Type} (default : α) (adds : List (Nat × α)) (live : List Nat) :
    Increasing (mergedAdds default adds live) ∧ Within (mergedAdds default adds live) live.length ∧
    ∀ j, (h : j < live.length) → cell default (mergedAdds default adds live) j = cell default adds live[j] := by
  obtain ⟨h1, h2, h3⟩ := mergedAdds_spec default adds live 0
  refine ⟨h1, fun q hq => by have := h2 q hq; omega, fun j hj => ?_⟩
  have := h3 j hj
  simp only [Nat.zero_add] at this
  show (lookup (mergedAdds default adds live) j).getD default = cell default adds live[j]
  unfold mergedAdds
  rw [this]
  rfl

example : multiLocate (deriveOffsets 0 [3, 0, 4]) 5 = some (2, 2) ∧
    mergedAdds (0 : Nat) [(0, 7), (2, 9)] [0, 2] = [(0, 7), (1, 9)] := by decide

end WM.C08

namespace WM.C08
open WM.Columns

/-- **Any fixed-width column** (`StructColumn`, `NumericColumn` with float type codes, …): each add
    carries whether the writer takes it for the default (`v == self._default` — always `False` for
    `StructColumn`, Python `==` for floats) and the bytes `pack(v)` of width `k`.  Reading a
    document gives the packed bytes of its value, or the packed default when there is none *or when
    the value compared equal to the default* (this is where `-0.0` turns into `0.0`). -/
theorem fixedwidth_roundtrip (k : Nat) (hk : 0 < k) (db : Bytes) (hdb : db.length = k) (chk : Bool)
    (adds : List (Nat × Bool × Bytes)) (hinc : Increasing adds) (hw : ∀ p ∈ adds, p.2.2.length = k) :
    ∃ w, FixW.addAll k db chk {} adds = .ok w ∧
      ∀ d, fixGet k db w.out d = (match lookup adds d with
        | some (isd, vb) => if isd then db else vb
        | none => db) := by
  obtain ⟨w, h1, h2⟩ := FixW.addAll_inv k db chk hdb adds {} [] ⟨rfl, rfl, by simp⟩ hinc
    (fun p _ => Nat.zero_le _) hw
  refine ⟨w, h1, fun d => ?_⟩
  rw [h2.out, fixGet_rows k hk db _ h2.width d, extendRows_getD db _ (written_increasing adds hinc) d,
    cell_written db adds hinc d]
  cases lookup adds d with
  | none => rfl
  | some x => rfl

end WM.C08

namespace WM.C08
open WM.Columns

/-- **Merge, on the model of `write_per_doc`.**  The column copy of a segment merge reads the old
    segment's column at every live document (`cols[f][docnum]`, here any reader `read` that shows
    `cell default adds`, e.g. one of the column readers above) and adds the value for the next new
    document number.  The adds it produces are `mergedAdds` (increasing, within the new document
    count), so the new column round-trips by the theorems above and shows, for its `j`-th
    document, the old value of the `j`-th live document.  A segment without the column file
    (`has_column` false) contributes no adds: every row of the new column is the default. -/
theorem merge_model {α : Type} (default : α) (adds : List (Nat × α)) (live : List Nat)
    (read : Nat → Except Err α) (hread : ∀ d ∈ live, read d = .ok (cell default adds d)) :
    mergeColumnAdds true read 0 live = .ok (mergedAdds default adds live) ∧
    mergeColumnAdds false read 0 live = .ok [] ∧
    Increasing (mergedAdds default adds live) ∧ Within (mergedAdds default adds live) live.length ∧
    (∀ j, (h : j < live.length) → cell default (mergedAdds default adds live) j = cell default adds live[j]) ∧
    (∀ j, cell default ([] : List (Nat × α)) j = default) :=
  ⟨mergeColumnAdds_ok read (cell default adds) live 0 hread, mergeColumnAdds_none read live 0,
    (merge default adds live).1, (merge default adds live).2.1, (merge default adds live).2.2, fun _ => rfl⟩

/-- The same, composed for `VarBytesColumn` end to end: write the old column, merge-copy it
    through its reader, write the new column, read it. -/
theorem merge_varbytes (allow : Bool) (cutoff : Nat) (adds : List (Nat × Bytes)) (doccount : Nat)
    (live : List Nat) (hinc : Increasing adds) (hwithin : Within adds doccount)
    (hsize : totalBytes adds < 4294967296) (hlive : ∀ d ∈ live, d < doccount)
    (hsize2 : totalBytes (mergedAdds [] adds live) < 4294967296) :
    ∃ old madds new, varWrite allow cutoff adds doccount = .ok old ∧
      mergeColumnAdds true (varRead old doccount) 0 live = .ok madds ∧
      varWrite allow cutoff madds live.length = .ok new ∧
      ∀ j, (h : j < live.length) → varRead new live.length j = .ok (cell [] adds live[j]) := by
  obtain ⟨old, hw, hr⟩ := varbytes_roundtrip allow cutoff adds doccount hinc hwithin hsize
  obtain ⟨h1, _, h3, h4, h5, _⟩ := merge_model ([] : Bytes) adds live (varRead old doccount)
    (fun d hd => hr d (hlive d hd))
  obtain ⟨new, hw2, hr2⟩ := varbytes_roundtrip allow cutoff (mergedAdds [] adds live) live.length h3 h4 hsize2
  exact ⟨old, _, new, hw, h1, hw2, fun j hj => by rw [hr2 j hj, h5 j hj]⟩

/-- **MultiColumnReader, value read.**  With one reader per segment (the segment's rows, or an
    `EmptyColumnReader` for a segment without the column file — the repaired
    `MultiReader.column_reader`), global document `d` reads the `d`-th row of the concatenation of
    the segments' rows, a segment without the column counting as `doc_count_all` default rows. -/
theorem multi_value {α : Type} (default : α) (segs : List (SegCol α)) (d : Nat)
    (hd : d < (segs.map SegCol.len).sum) :
    ∃ v, multiGet default segs d = .ok v ∧ ((segs.map (SegCol.expand default)).flatten)[d]? = some v := by
  obtain ⟨i, c, o, hloc, hc, ho, hle, hlt⟩ := multi (segs.map SegCol.len) d hd
  have hi : i < segs.length := by
    have := (List.getElem?_eq_some_iff.mp hc).1; simpa using this
  have hseg : segs[i]? = some segs[i] := List.getElem?_eq_getElem hi
  have hclen : c = segs[i].len := by
    simp only [List.getElem?_map, hseg, Option.map_some, Option.some.injEq] at hc; exact hc.symm
  obtain ⟨v, hget, hexp⟩ := SegCol.get_expand default segs[i] (d - o) (by rw [← hclen]; exact hlt)
  refine ⟨v, by simp only [multiGet, hloc, hseg, hget], ?_⟩
  have hoff : o = (((segs.map (SegCol.expand default)).take i).map List.length).sum := by
    rw [deriveOffsets_getElem? 0 _ i (by simpa using hi)] at ho
    simp only [Nat.zero_add, Option.some.injEq] at ho
    rw [← ho, ← List.map_take, ← List.map_take]
    simp only [List.map_map]
    congr 1
    apply List.map_congr_left
    intro s _
    simp [expand_length]
  have := flatten_getElem?_offset (segs.map (SegCol.expand default)) i (d - o) (segs[i].expand default)
    (by simp [hseg]) (by rw [expand_length, ← hclen]; exact hlt)
  rw [← hoff, show o + (d - o) = d by omega] at this
  rw [this, hexp]

/-- **Stored fields, field by field.**  Documents `0, 1, 2, …`, each a set of keyword arguments
    with distinct field names: `stored_fields(d)` (through the `_stored` pickle column, `None → {}`)
    is the dict `add_document`/`add_field` build for document `d`, and looking a name up in it
    gives the supplied value of a *stored* field — the `_stored_<name>` override when one was
    passed — and nothing for fields that are not stored, not supplied, or overridden with `None`
    (`specStored`).  A document whose dict is empty reads `{}`. -/
theorem stored_fields {α : Type} (ser : List (String × α) → Bytes) (de : Bytes → List (String × α))
    (hrt : ∀ x, de (ser x) = x) (hne : ∀ x, ser x ≠ [])
    (docs : List (List (FieldIn α))) (hnames : ∀ fs ∈ docs, (fs.map (·.name)).Nodup)
    (hsize : totalBytes (pickleAdds ser ((perDocAdds (docs.map storedValue)).map fun p => (p.1, some p.2)))
      < 4294967296) :
    ∃ file, varWrite true 32768
        (pickleAdds ser ((perDocAdds (docs.map storedValue)).map fun p => (p.1, some p.2))) docs.length
        = .ok file ∧
      ∀ d, (hd : d < docs.length) →
        (varRead file docs.length d).map (fun v => (pickleGet de v).getD [])
          = .ok (storedDict docs[d]) ∧
        ∀ name, ((storedDict docs[d]).find? (fun kv => kv.1 == name)).map (·.2) = specStored docs[d] name := by
  obtain ⟨file, hw, hr⟩ := stored ser de [] hrt hne (docs.map storedValue) hsize
  rw [List.length_map] at hw
  refine ⟨file, hw, fun d hd => ⟨?_, fun name => storedDict_lookup docs[d] (hnames _ (List.getElem_mem hd)) name⟩⟩
  have := hr d (by rw [List.length_map]; exact hd)
  simp only [List.length_map, List.getElem_map] at this
  rw [this]
  simp only [storedValue]
  by_cases he : (storedDict docs[d]).isEmpty = true
  · simp only [he, if_true, Option.getD_none]
    cases hsd : storedDict docs[d] with
    | nil => rfl
    | cons a l => rw [hsd] at he; simp at he
  · simp [he]

/-- `fixedwidth_roundtrip` without the elision caveat: when every add the writer takes for the
    default really has the default's bytes (true for `StructColumn`, whose test never fires, and
    for numbers whose `==` coincides with equality of the packed bytes — not for `-0.0 == 0.0`),
    the bytes read are the bytes supplied. -/
theorem fixedwidth_roundtrip_exact (k : Nat) (hk : 0 < k) (db : Bytes) (hdb : db.length = k) (chk : Bool)
    (adds : List (Nat × Bool × Bytes)) (hinc : Increasing adds) (hw : ∀ p ∈ adds, p.2.2.length = k)
    (hexact : ∀ p ∈ adds, p.2.1 = true → p.2.2 = db) :
    ∃ w, FixW.addAll k db chk {} adds = .ok w ∧
      ∀ d, fixGet k db w.out d = cell db (adds.map fun p => (p.1, p.2.2)) d := by
  obtain ⟨w, h1, h2⟩ := fixedwidth_roundtrip k hk db hdb chk adds hinc hw
  refine ⟨w, h1, fun d => ?_⟩
  rw [h2 d]
  simp only [cell]
  rw [lookup_map (fun x : Bool × Bytes => x.2) adds d]
  cases hl : lookup adds d with
  | none => rfl
  | some x =>
    obtain ⟨isd, vb⟩ := x
    simp only [Option.map_some, Option.getD_some]
    cases isd with
    | false => rfl
    | true =>
      have hmem : ∃ p ∈ adds, p.2 = (true, vb) := by
        unfold lookup at hl
        cases hf : adds.find? (fun p => p.1 == d) with
        | none => simp [hf] at hl
        | some p => simp [hf] at hl; exact ⟨p, List.mem_of_find?_eq_some hf, hl⟩
      obtain ⟨p, hp, hpe⟩ := hmem
      have := hexact p hp (by rw [hpe])
      rw [hpe] at this
      simp only at this
      simp [this]

/-- `FixedBytesListColumn` end to end (through the wrapped `VarBytesColumn`). -/
theorem fixedbyteslist_roundtrip (k : Nat) (hk : 0 < k) (adds : List (Nat × List Bytes)) (doccount : Nat)
    (hinc : Increasing adds) (hwithin : Within adds doccount)
    (hlen : ∀ p ∈ adds, ∀ v ∈ p.2, v.length = k)
    (hsize : totalBytes (adds.map fun p => (p.1, p.2.flatten)) < 4294967296) :
    (∀ p ∈ adds, encodeFixList k p.2 = .ok p.2.flatten) ∧
    ∃ file, varWrite true 32768 (adds.map fun p => (p.1, p.2.flatten)) doccount = .ok file ∧
      ∀ d, d < doccount →
        (varRead file doccount d).map (decodeFixList k) = .ok (cell [] adds d) := by
  refine ⟨fun p hp => (decodeFixList_encode k hk p.2 (hlen p hp)).1, ?_⟩
  have hinc' : Increasing (adds.map fun p => (p.1, p.2.flatten)) := increasing_map List.flatten adds hinc
  have hwithin' : Within (adds.map fun p => (p.1, p.2.flatten)) doccount := by
    intro p hp
    simp only [List.mem_map] at hp
    obtain ⟨q, hq, rfl⟩ := hp
    exact hwithin q hq
  obtain ⟨file, hw, hr⟩ := varbytes_roundtrip true 32768 _ doccount hinc' hwithin' hsize
  refine ⟨file, hw, fun d hd => ?_⟩
  rw [hr d hd]
  simp only [Except.map, cell]
  rw [lookup_map List.flatten adds d]
  cases hl : lookup adds d with
  | none => rfl
  | some ls =>
    have hmem : ∃ p ∈ adds, p.2 = ls := by
      unfold lookup at hl
      cases hf : adds.find? (fun p => p.1 == d) with
      | none => simp [hf] at hl
      | some p => simp [hf] at hl; exact ⟨p, List.mem_of_find?_eq_some hf, hl⟩
    obtain ⟨p, hp, rfl⟩ := hmem
    simp [(decodeFixList_encode k hk p.2 (hlen p hp)).2]

/-! Non-vacuity of the hypotheses of the theorems above. -/

example : Increasing ([(1, [7, 7]), (4, [0, 0])] : List (Nat × Bytes)) ∧
    (∀ p ∈ ([(1, [7, 7]), (4, [0, 0])] : List (Nat × Bytes)), p.2.length = 2) ∧
    cell [0, 0] ([(1, [7, 7]), (4, [0, 0])] : List (Nat × Bytes)) 4 = [0, 0] := by
  refine ⟨by simp [Increasing], ?_, by decide⟩
  intro p hp
  simp only [List.mem_cons, List.not_mem_nil, or_false] at hp
  rcases hp with rfl | rfl <;> rfl

example : Increasing ([(0, -128), (3, 127)] : List (Nat × Int)) ∧
    (NumCode.b.lo ≤ (0 : Int) ∧ (0 : Int) ≤ NumCode.b.hi) ∧
    (∀ p ∈ ([(0, -128), (3, 127)] : List (Nat × Int)), NumCode.b.lo ≤ p.2 ∧ p.2 ≤ NumCode.b.hi) := by
  refine ⟨by simp [Increasing], by decide, ?_⟩
  intro p hp
  simp only [List.mem_cons, List.not_mem_nil, or_false] at hp
  rcases hp with rfl | rfl <;> decide

example : bitGet (bitWrite 2048 [(9, true), (3, false)]) 9 = true ∧
    bitGet (bitWrite 2048 [(9, true), (3, false)]) 3 = false ∧ Increasing [(3, false), (9, true)] := by
  refine ⟨by decide, by decide, by simp [Increasing]⟩

example : Increasing ([(0, some 5), (2, none)] : List (Nat × Option Nat)) ∧
    Within ([(0, some 5), (2, none)] : List (Nat × Option Nat)) 3 ∧
    pickleAdds (fun n : Nat => [n + 1]) [(0, some 5), (2, none)] = [(0, [6]), (2, [])] := by
  refine ⟨by simp [Increasing], ?_, by decide⟩
  intro p hp
  simp only [List.mem_cons, List.not_mem_nil, or_false] at hp
  rcases hp with rfl | rfl <;> simp

example :
    let doc : List (FieldIn Nat) :=
      [⟨"a", some 1, none, true⟩, ⟨"b", some 2, some (some 9), true⟩, ⟨"c", some 3, none, false⟩,
       ⟨"d", none, none, true⟩, ⟨"e", some 5, some none, true⟩]
    (doc.map (·.name)).Nodup ∧ storedDict doc = [("a", 1), ("b", 9)] ∧
      specStored doc "b" = some 9 ∧ specStored doc "c" = none ∧ specStored doc "e" = none ∧
      perDocAdds [storedValue doc, storedValue ([] : List (FieldIn Nat))] = [(0, [("a", 1), ("b", 9)])] := by
  intro doc
  refine ⟨by decide, by decide, by decide, by decide, by decide, by decide⟩

example : Increasing ([(0, [[1], [2, 3]]), (2, [])] : List (Nat × List Bytes)) ∧
    decodeVarList (encodeVarList [[1], [2, 3]]) = some [[1], [2, 3]] := by
  refine ⟨by simp [Increasing], decodeVarList_encode _⟩

example : multiGet (0 : Nat) [.rows [5, 6], .empty 2, .rows [7]] 3 = .ok 0 ∧
    multiGet (0 : Nat) [.rows [5, 6], .empty 2, .rows [7]] 4 = .ok 7 := ⟨rfl, rfl⟩

end WM.C08

