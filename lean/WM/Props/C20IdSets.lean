import WM.Lemmas.IdSetsMulti
import WM.Lemmas.IdSetsPool
/-!
C20 (doc-id sets): every id-set class behaves as a finite set of naturals.

The abstraction of a `BitSet`/`OnDiskBitSet` is `iter bits` (what `__iter__` yields), of a
`SortedIntSet` its `data` array, of a `ReverseIdSet`/`MultiIdSet` their `iter`.  Every theorem has
the shape `toSet (operation of the model) = operation of WM.Spec.IdSet on toSet`, for all inputs.
`WM.Spec.IdSet.Sorted` (= strictly ascending) is the canonical-form invariant.
-/
namespace WM.C20
open WM.IdSets
open WM.Spec.IdSet (Sorted)
namespace S
export WM.Spec.IdSet (insert erase union inter diff invert ofList first last before after)
end S

/-! ## BaseBitSet / BitSet / OnDiskBitSet -/

/-- Ordered iteration: strictly ascending, no duplicates. -/
theorem bitset_iter_sorted (bits : Bits) : Sorted (iter bits) := sorted_iter bits

/-- Membership agrees with iteration. -/
theorem bitset_mem (bits : Bits) (i : Nat) : i ∈ iter bits ↔ contains bits i = true := mem_iter

/-- An `OnDiskBitSet` over `file[basepos : basepos+count]` has exactly the members whose bit is set
    in the file. -/
theorem ondisk_mem (file : List Nat) (basepos count i : Nat) :
    i ∈ iter (onDisk file basepos count) ↔
      i / 8 < count ∧ ∃ b, file[basepos + i / 8]? = some b ∧ b.testBit (i % 8) = true := by
  rw [mem_iter, contains_eq]
  unfold onDisk
  rw [List.getElem?_take, List.getElem?_drop]
  by_cases h : i / 8 < count
  · simp only [h, ↓reduceIte, true_and]
    cases file[basepos + i / 8]? <;> simp
  · simp [h]

/-- `BitSet.to_disk` writes the byte array verbatim; an `OnDiskBitSet` (or `BitSet.from_disk`) over
    that range of the file — whatever precedes and follows it — is the same byte array, hence the
    same set under every `BaseBitSet` query. -/
theorem bitset_to_disk_ondisk (pre bits post : Bits) :
    onDisk (pre ++ bits ++ post) pre.length bits.length = bits ∧
      iter (onDisk (pre ++ bits ++ post) pre.length bits.length) = iter bits := by
  have h : onDisk (pre ++ bits ++ post) pre.length bits.length = bits := by
    unfold onDisk
    rw [List.append_assoc, List.drop_left, List.take_left]
  exact ⟨h, by rw [h]⟩

theorem bitset_add (bits : Bits) (i : Nat) : iter (add bits i) = S.insert i (iter bits) := by
  apply iter_eq_of_mem (WM.Spec.IdSet.sorted_insert (sorted_iter bits))
  intro x; rw [WM.Spec.IdSet.mem_insert, contains_add, mem_iter]; simp

theorem bitset_discard (bits : Bits) (i : Nat) : iter (discard bits i) = S.erase i (iter bits) := by
  apply iter_eq_of_mem (WM.Spec.IdSet.sorted_erase (sorted_iter bits))
  intro x; rw [WM.Spec.IdSet.mem_erase, contains_discard, mem_iter]; simp

/-- `BitSet(source, size)` holds exactly the members of `source`, whatever `size` was given. -/
theorem bitset_ofSource (source : List Nat) (sized : Bool) (size : Nat) :
    iter (ofSource source sized size) = S.ofList source := by
  apply iter_eq_of_mem WM.Spec.IdSet.sorted_ofList
  intro x; rw [WM.Spec.IdSet.mem_ofList, contains_ofSource]; simp

theorem other_mem (o : Other) (x : Nat) : x ∈ o.items ↔ o.contains x = true := by
  rw [← other_items_contains]; simp

theorem bitset_update (bits : Bits) (o : Other) : iter (update bits o) = S.union (iter bits) o.items := by
  apply iter_eq_of_mem (WM.Spec.IdSet.sorted_union (sorted_iter bits))
  intro x; rw [WM.Spec.IdSet.mem_union, contains_update, mem_iter, other_mem]; simp

theorem bitset_intersection_update (bits : Bits) (o : Other) :
    iter (intersectionUpdate bits o) = S.inter (iter bits) o.items := by
  apply iter_eq_of_mem (WM.Spec.IdSet.sorted_inter (sorted_iter bits))
  intro x; rw [WM.Spec.IdSet.mem_inter, contains_intersectionUpdate, mem_iter, other_mem]; simp

theorem bitset_difference_update (bits : Bits) (o : Other) :
    iter (differenceUpdate bits o) = S.diff (iter bits) o.items := by
  apply iter_eq_of_mem (WM.Spec.IdSet.sorted_diff (sorted_iter bits))
  intro x; rw [WM.Spec.IdSet.mem_diff, contains_differenceUpdate, mem_iter, other_mem]; simp

theorem bitset_union (bits : Bits) (o : Other) : iter (union bits o) = S.union (iter bits) o.items := by
  apply iter_eq_of_mem (WM.Spec.IdSet.sorted_union (sorted_iter bits))
  intro x; rw [WM.Spec.IdSet.mem_union, contains_union, mem_iter, other_mem]; simp

theorem bitset_intersection (bits : Bits) (o : Other) :
    iter (intersection bits o) = S.inter (iter bits) o.items := by
  apply iter_eq_of_mem (WM.Spec.IdSet.sorted_inter (sorted_iter bits))
  intro x; rw [WM.Spec.IdSet.mem_inter, contains_intersection, mem_iter, other_mem]; simp

theorem bitset_difference (bits : Bits) (o : Other) :
    iter (difference bits o) = S.diff (iter bits) o.items := by
  apply iter_eq_of_mem (WM.Spec.IdSet.sorted_diff (sorted_iter bits))
  intro x; rw [WM.Spec.IdSet.mem_diff, contains_difference, mem_iter, other_mem]; simp

/-- `invert_update(size)` / `invert(size)` (fixed code): never raises, and the result is the
    complement inside `[0, size)` — for every `size`, also beyond or below the current array. -/
theorem bitset_invert (bits : Bits) (size : Nat) :
    ∃ r, invertUpdate bits size = .ok r ∧ iter r = S.invert size (iter bits) := by
  rcases invertUpdate_spec bits size with ⟨r, hr, hc⟩
  refine ⟨r, hr, ?_⟩
  apply iter_eq_of_mem WM.Spec.IdSet.sorted_invert
  intro x; rw [WM.Spec.IdSet.mem_invert, hc, mem_iter]; simp

theorem bitset_clear (bits : Bits) : iter (clear bits) = [] := by
  apply iter_eq_of_mem WM.Spec.IdSet.sorted_nil
  intro x; rw [contains_clear]; simp

/-- Trimming trailing zero bytes does not change the set. -/
theorem bitset_trim (bits : Bits) : iter (trim bits) = iter bits := by
  apply iter_eq_of_mem (sorted_iter bits)
  intro x; rw [contains_trim, mem_iter]

/-- Resizing keeps exactly the members that still fit. -/
theorem bitset_resize (bits : Bits) (n : Nat) :
    iter (resize bits n) = (iter bits).filter (fun x => decide (x / 8 < bytesForBits n)) := by
  apply iter_eq_of_mem (List.Pairwise.filter _ (sorted_iter bits))
  intro x; rw [contains_resize, List.mem_filter, mem_iter]; simp

theorem bitset_len (bits : Bits) (h : ∀ b ∈ bits, b < 256) : len bits = .ok (iter bits).length :=
  len_spec bits h

theorem bitset_bool (bits : Bits) (h : ∀ b ∈ bits, b < 256) : nonzero bits = true ↔ iter bits ≠ [] :=
  nonzero_spec bits h

theorem bitset_first (bits : Bits) : first bits = .ok (S.first (iter bits)) := first_spec bits
theorem bitset_last (bits : Bits) : IdSets.last bits = .ok (S.last (iter bits)) := last_spec bits
/-- `before(i)`: greatest member `< i`, for every integer `i` (negative, past the end). -/
theorem bitset_before (bits : Bits) (i : Int) : IdSets.before bits i = .ok (S.before (iter bits) i) :=
  before_spec bits i
/-- `after(i)`: least member `> i`. -/
theorem bitset_after (bits : Bits) (i : Int) : IdSets.after bits i = .ok (S.after (iter bits) i) :=
  after_spec bits i

/-- Non-vacuity: a resize (bit 9 does not fit one byte), a trim, a cross-byte search. -/
example : add [5] 9 = [5, 2] ∧ iter (add [5] 9) = [0, 2, 9]
    ∧ iter (ofSource [30, 1, 1] true 0) = [1, 30] := by decide
example : logic (· &&& ·) [5, 2, 0] [1] = [1] := by simp [logic, zipLongest, trim]
example : IdSets.after [5, 0, 0, 64] 2 = .ok (some 30) := by rw [bitset_after]; exact congrArg _ (by decide)
example : IdSets.before [5, 0, 0, 64] 30 = .ok (some 2) := by rw [bitset_before]; exact congrArg _ (by decide)
example : ∃ r, invertUpdate [5, 255] 4 = .ok r ∧ iter r = [1, 3] := by
  rcases bitset_invert [5, 255] 4 with ⟨r, h1, h2⟩
  exact ⟨r, h1, by rw [h2]; decide⟩

/-! ## `BitSet._logic` over byte arrays of any length, and programs over a pool of sets

`_logic(obj, op, other)` is the engine behind `BitSet ∘ BitSet` union / intersection / difference,
the operator forms and `intersection_update` / `difference_update`.  The two byte arrays may have
any lengths — in particular zero, which a `BitSet` has exactly when it is the trimmed result of an
earlier `_logic` call or comes from `from_bytes(b"")`. -/

theorem bitset_logic_or (a b : Bits) : iter (logic (· ||| ·) a b) = S.union (iter a) (iter b) :=
  iter_logic_or a b
theorem bitset_logic_and (a b : Bits) : iter (logic (· &&& ·) a b) = S.inter (iter a) (iter b) :=
  iter_logic_and a b
theorem bitset_logic_andnot (a b : Bits) : iter (logic andNot a b) = S.diff (iter a) (iter b) :=
  iter_logic_andNot a b
/-- the result of `_logic` is trimmed (no trailing zero byte), whatever the operands. -/
theorem bitset_logic_trimmed (op : Nat → Nat → Nat) (a b : Bits) : (logic op a b).getLast? ≠ some 0 :=
  trim_getLast _
/-- AND with a zero-length right operand empties the left one (it is *not* returned unchanged). -/
theorem bitset_logic_and_empty (a : Bits) : logic (· &&& ·) a [] = [] := logic_and_nil a

example : logic andNot [5, 2] [5, 2] = [] ∧ logic (· &&& ·) [5, 2, 0] [] = []
    ∧ logic (· ||| ·) [] [0, 4, 0] = [0, 4] ∧ logic andNot [7] [] = [7] := by
  simp [logic, zipLongest, trim, andNot]

/-- One step of a program over a pool of `BitSet` / `SortedIntSet` registers — binary methods and
    operator forms between any two registers (results fed back on either side), the in-place
    variants, `add/discard/clear/invert/copy`, fresh sets — is the set operation on the abstractions
    of the registers; a program naming a missing register is rejected by both. -/
theorem idset_pool_step (p : Pool) (hok : p.Ok) (op : PoolOp) (hd : op.InDomain p) :
    Refines (p.step op) (WM.Spec.IdSet.SPool.step (p.map Inner.iter) op) :=
  pool_step_refines p hok op hd

/-- … and so is every program. -/
theorem idset_pool_run (p : Pool) (ops : List PoolOp) (hok : p.Ok) (hd : p.DomAll ops) :
    Refines (p.run ops) (WM.Spec.IdSet.SPool.run (p.map Inner.iter) ops) :=
  pool_run_refines ops p hok hd

/-- Non-vacuity: `r2 = r0 - r1` trims to a zero-length array, `r0 &= r2` then empties `r0`. -/
example : Pool.run [.bits [5, 2], .bits [5, 2, 0], .bits [9]] [.bin .diff 2 0 1, .upd .inter 0 2]
    = .ok [.bits [], .bits [5, 2, 0], .bits []] := by
  simp [Pool.run, Pool.step, Pool.reg, Pool.assign, Inner.bin, Inner.upd, Inner.asOther, difference,
    intersectionUpdate, logic, zipLongest, trim, andNot, bind, Except.bind]
example : Pool.Ok [.bits [5, 2], .bits [5, 2, 0], .sorted [1, 4]] := by
  intro s hs
  simp only [List.mem_cons, List.not_mem_nil, or_false] at hs
  rcases hs with rfl | rfl | rfl
  · trivial
  · trivial
  · show Sorted [1, 4]; unfold Sorted; decide

/-! ## SortedIntSet (`data` strictly ascending is the class invariant) -/

theorem sis_ofSource (source : List Nat) :
    sisOfSource source = S.ofList source ∧ Sorted (sisOfSource source) :=
  ⟨rfl, WM.Spec.IdSet.sorted_ofList⟩

theorem sis_contains {data : List Nat} (h : Sorted data) (i : Nat) :
    sisContains data i = .ok (decide (i ∈ data)) := sisContains_spec h i
theorem sis_add {data : List Nat} (h : Sorted data) (i : Nat) :
    sisAdd data i = .ok (S.insert i data) := sisAdd_spec h i
theorem sis_discard {data : List Nat} (h : Sorted data) (i : Nat) :
    sisDiscard data i = .ok (S.erase i data) := sisDiscard_spec h i
theorem sis_before {data : List Nat} (h : Sorted data) (i : Int) :
    sisBefore data i = .ok (S.before data i) := sisBefore_spec h i
theorem sis_after {data : List Nat} (h : Sorted data) (i : Int) :
    sisAfter data i = .ok (S.after data i) := sisAfter_spec h i
theorem sis_first_last (data : List Nat) :
    sisFirst data = S.first data ∧ sisLast data = S.last data := ⟨rfl, rfl⟩
theorem sis_update {data : List Nat} (h : Sorted data) (o : Other) :
    sisUpdate data o = .ok (S.union data o.items) := sisUpdate_spec h o
theorem sis_intersection (data : List Nat) (o : Other) :
    sisIntersection data o = S.inter data o.items := sisIntersection_spec data o
theorem sis_difference (data : List Nat) (o : Other) :
    sisDifference data o = S.diff data o.items := sisDifference_spec data o

/-- The invariant is kept by every mutator (so the hypotheses above are always available). -/
theorem sis_invariant {data : List Nat} (h : Sorted data) (i : Nat) (o : Other) :
    Sorted (S.insert i data) ∧ Sorted (S.erase i data) ∧ Sorted (S.union data o.items)
      ∧ Sorted (S.inter data o.items) ∧ Sorted (S.diff data o.items) :=
  ⟨WM.Spec.IdSet.sorted_insert h, WM.Spec.IdSet.sorted_erase h, WM.Spec.IdSet.sorted_union h,
   WM.Spec.IdSet.sorted_inter h, WM.Spec.IdSet.sorted_diff h⟩

/-- Full statement for `invert(size)` on a `SortedIntSet` (the generic `DocIdSet.invert_update`):
    false for the code as it is — recorded finding. -/
def sis_invert_full : Prop :=
  ∀ (data : List Nat) (size : Nat), Sorted data → sisInvertUpdate data size = .ok (S.invert size data)

/-- What the generic loop does: toggles `[0,size)`, keeps members `≥ size`. -/
theorem sis_invert_exact {data : List Nat} (h : Sorted data) (size : Nat) :
    ∃ r, sisInvertUpdate data size = .ok r ∧ Sorted r ∧
      ∀ x, x ∈ r ↔ (x < size ∧ x ∉ data) ∨ (size ≤ x ∧ x ∈ data) := sisInvertUpdate_exact h size

/-- Proved part: when every member is below `size` the result is the complement in `[0,size)`. -/
theorem sis_invert_partial {data : List Nat} (h : Sorted data) (size : Nat)
    (hlt : ∀ x ∈ data, x < size) : sisInvertUpdate data size = .ok (S.invert size data) := by
  rcases sisInvertUpdate_exact h size with ⟨r, hr, hs, hm⟩
  rw [hr]; congr 1
  apply WM.Spec.IdSet.sorted_ext hs WM.Spec.IdSet.sorted_invert
  intro x; rw [hm, WM.Spec.IdSet.mem_invert]
  constructor
  · rintro (h1 | ⟨h1, h2⟩)
    · exact h1
    · have := hlt x h2; omega
  · intro h1; exact Or.inl h1

/-- The concrete witness of the finding: `SortedIntSet([1,2,9]).invert(5)` keeps 9. -/
example : ¬ sis_invert_full := by
  intro hfull
  have hs : Sorted [1, 2, 9] := by unfold Sorted; decide
  rcases sisInvertUpdate_exact hs 5 with ⟨r, hr, _, hm⟩
  rw [hfull [1, 2, 9] 5 hs] at hr
  injection hr with hr
  have h9 : 9 ∈ r := (hm 9).mpr (Or.inr ⟨by omega, by simp⟩)
  rw [← hr, WM.Spec.IdSet.mem_invert] at h9
  omega

example : sisAdd [1, 5, 9] 7 = .ok [1, 5, 7, 9] := by
  rw [sis_add (by unfold Sorted; decide)]; exact congrArg _ (by decide)
example : sisAfter [1, 5, 9] 5 = .ok (some 9) := by
  rw [sis_after (by unfold Sorted; decide)]; exact congrArg _ (by decide)

/-! ## ReverseIdSet (wrapped set well-formed; ids below `limit`, as its docstring requires) -/

theorem rev_iter (r : Rev) (h : r.inner.WF) : r.iter = S.invert r.limit r.inner.iter ∧ Sorted r.iter := by
  rw [Rev.iter_spec r h]; exact ⟨rfl, WM.Spec.IdSet.sorted_invert⟩
theorem rev_contains (r : Rev) (h : r.inner.WF) (i : Nat) (hi : i < r.limit) :
    r.contains i = .ok (decide (i ∈ r.iter)) := Rev.contains_spec r h i hi
theorem rev_first (r : Rev) : r.first = S.first r.iter := rfl
theorem rev_last (r : Rev) (h : r.inner.WF) : r.last = .ok (S.last r.iter) := Rev.last_spec r h
theorem rev_len (r : Rev) (h : r.inner.WF) (hlim : ∀ x ∈ r.inner.iter, x < r.limit) :
    r.len = .ok (r.iter.length : Int) := Rev.len_spec r h hlim
theorem rev_add (r : Rev) (h : r.inner.WF) (n : Nat) (hn : n < r.limit) :
    ∃ r', r.add n = .ok r' ∧ r'.inner.WF ∧ r'.limit = r.limit ∧ r'.iter = S.insert n r.iter :=
  Rev.add_spec r h n hn
theorem rev_discard (r : Rev) (h : r.inner.WF) (n : Nat) :
    ∃ r', r.discard n = .ok r' ∧ r'.inner.WF ∧ r'.limit = r.limit ∧ r'.iter = S.erase n r.iter :=
  Rev.discard_spec r h n

/-- Without the precondition: `i in r` is "not in the wrapped set" for **every** `i`, so every id
    `≥ limit` outside the wrapped set is reported as a member although iteration never yields it. -/
theorem rev_contains_exact (r : Rev) (h : r.inner.WF) (i : Nat) :
    r.contains i = .ok (!decide (i ∈ r.inner.iter)) := Rev.contains_exact r h i
theorem rev_contains_out_of_range (r : Rev) (h : r.inner.WF) (i : Nat) (hi : r.limit ≤ i)
    (hni : i ∉ r.inner.iter) : r.contains i = .ok true ∧ i ∉ r.iter := by
  refine ⟨by rw [Rev.contains_exact r h i]; simp [hni], ?_⟩
  rw [Rev.iter_spec r h, WM.Spec.IdSet.mem_invert]
  omega
/-- Without the precondition: `len(r)` is `limit - len(idset)` (wrong, possibly negative, as soon
    as the wrapped set has a member `≥ limit`). -/
theorem rev_len_exact (r : Rev) (h : r.inner.WF) :
    r.len = .ok ((r.limit : Int) - (r.inner.iter.length : Int)) := Rev.len_exact r h
/-- `add(n)` with `n ≥ limit`: only the wrapped set loses `n`; iteration is unchanged (but
    `n in r` becomes true by `rev_contains_out_of_range`). -/
theorem rev_add_out_of_range (r : Rev) (h : r.inner.WF) (n : Nat) (hn : r.limit ≤ n) :
    ∃ r', r.add n = .ok r' ∧ r'.inner.WF ∧ r'.limit = r.limit ∧ r'.iter = r.iter ∧
      r'.inner.iter = S.erase n r.inner.iter := Rev.add_out_of_range r h n hn

/-- inherited `update` (ids below `limit`) and `difference_update`: union and difference -/
theorem rev_update (r : Rev) (h : r.inner.WF) (o : Other) (ho : ∀ x ∈ o.items, x < r.limit) :
    ∃ r', r.update o = .ok r' ∧ r'.inner.WF ∧ r'.limit = r.limit ∧ r'.iter = S.union r.iter o.items := by
  rcases Rev.update_items o.items r h ho with ⟨r', h1, h2, h3, h4⟩
  refine ⟨r', h1, h2, h3, ?_⟩
  apply WM.Spec.IdSet.sorted_ext (rev_iter r' h2).2 (WM.Spec.IdSet.sorted_union (rev_iter r h).2)
  intro x; rw [h4, WM.Spec.IdSet.mem_union]
theorem rev_difference_update (r : Rev) (h : r.inner.WF) (o : Other) :
    ∃ r', r.differenceUpdate o = .ok r' ∧ r'.inner.WF ∧ r'.limit = r.limit ∧ r'.iter = S.diff r.iter o.items := by
  rcases Rev.differenceUpdate_items o.items r h with ⟨r', h1, h2, h3, h4⟩
  refine ⟨r', h1, h2, h3, ?_⟩
  apply WM.Spec.IdSet.sorted_ext (rev_iter r' h2).2 (WM.Spec.IdSet.sorted_diff (rev_iter r h).2)
  intro x; rw [h4, WM.Spec.IdSet.mem_diff]

/-- inherited `intersection_update` (`for n in self: if n not in other: self.discard(n)`): intersection -/
theorem rev_intersection_update (r : Rev) (h : r.inner.WF) (o : Other) :
    ∃ r', r.intersectionUpdate o = .ok r' ∧ r'.inner.WF ∧ r'.limit = r.limit ∧ r'.iter = S.inter r.iter o.items :=
  Rev.intersectionUpdate_spec r h o
example : ∃ r', (Rev.mk (.sorted [2, 5]) 8).intersectionUpdate (.list [7, 3, 5, 0] true) = .ok r' ∧
    r'.iter = [0, 3, 7] := by
  rcases rev_intersection_update (Rev.mk (.sorted [2, 5]) 8) (by unfold Inner.WF Sorted; decide)
    (.list [7, 3, 5, 0] true) with ⟨r', h1, _, _, h4⟩
  exact ⟨r', h1, by rw [h4]; decide⟩

/-- Full statement for the rest of the set API of `ReverseIdSet` — false: recorded findings. -/
def rev_api_full : Prop := ∀ (r : Rev) (i : Int), r.inner.WF →
  r.before i = .ok (S.before r.iter i) ∧ r.after i = .ok (S.after r.iter i) ∧
    ∃ c, r.copy = .ok c ∧ c.iter = r.iter
/-- What the code does instead: `before/after/copy` — and `union/intersection/difference/invert`,
    which begin with `self.copy()` — raise `NotImplementedError` (inherited `DocIdSet` defaults). -/
theorem rev_unsupported (r : Rev) (i : Int) (o : Other) (n : Nat) :
    r.before i = .error .notImpl ∧ r.after i = .error .notImpl ∧ r.copy = .error .notImpl ∧
      r.union o = .error .notImpl ∧ r.intersection o = .error .notImpl ∧
      r.difference o = .error .notImpl ∧ r.invert n = .error .notImpl :=
  ⟨rfl, rfl, rfl, rfl, rfl, rfl, rfl⟩
example : ¬ rev_api_full := by
  intro h
  have := (h (Rev.mk (.sorted []) 3) 1 (by unfold Inner.WF Sorted; decide)).1
  cases this

/-- concrete witnesses of the out-of-range behaviour: `9 in ReverseIdSet({2}, 8)` although 9 is not
    iterated; `len` of a set wrapping `{2, 11}` with limit 3 is 1 while two ids are iterated. -/
example : (Rev.mk (.bits [4]) 8).contains 9 = .ok true ∧ 9 ∉ (Rev.mk (.bits [4]) 8).iter :=
  rev_contains_out_of_range (Rev.mk (.bits [4]) 8) (by unfold Inner.WF; decide) 9 (by decide) (by decide)
example : (Rev.mk (.sorted [2, 11]) 3).len = .ok 1 ∧ (Rev.mk (.sorted [2, 11]) 3).iter = [0, 1] :=
  ⟨by rw [rev_len_exact _ (by unfold Inner.WF Sorted; decide)]; rfl, by decide⟩

example : (Rev.mk (.sorted [2, 5]) 8).iter = [0, 1, 3, 4, 6, 7] := by decide
example : Inner.WF (.sorted [2, 5]) := by unfold Inner.WF Sorted; decide

/-! ## MultiIdSet (serial sub-sets, `Multi.WF`) -/

theorem multi_iter_sorted (m : Multi) (h : m.WF) : Sorted m.iter := Multi.sorted_iter m h
theorem multi_contains (m : Multi) (h : m.WF) (item : Nat) :
    m.contains item = .ok (decide (item ∈ m.iter)) := Multi.contains_spec m h item
theorem multi_len (m : Multi) (h : m.WF) : m.len = .ok m.iter.length := Multi.len_spec m h

/-- Full statement for `first/last/before/after/copy` of `MultiIdSet` — false: recorded findings. -/
def multi_api_full : Prop := ∀ (m : Multi) (i : Int), m.WF →
  m.first = .ok (S.first m.iter) ∧ m.last = .ok (S.last m.iter) ∧
    m.before i = .ok (S.before m.iter i) ∧ m.after i = .ok (S.after m.iter i) ∧
    ∃ c, m.copy = .ok c ∧ c.iter = m.iter
/-- What the code does: they raise `NotImplementedError`, and so do `union/intersection/difference/
    invert` (through `copy()`); `MultiIdSet` is documented read-only, so there are no mutators. -/
theorem multi_unsupported (m : Multi) (i : Int) (o : Other) (n : Nat) :
    m.first = .error .notImpl ∧ m.last = .error .notImpl ∧ m.before i = .error .notImpl ∧
      m.after i = .error .notImpl ∧ m.copy = .error .notImpl ∧ m.union o = .error .notImpl ∧
      m.intersection o = .error .notImpl ∧ m.difference o = .error .notImpl ∧
      m.invert n = .error .notImpl :=
  ⟨rfl, rfl, rfl, rfl, rfl, rfl, rfl, rfl, rfl⟩

example : (Multi.mk [.sorted [1, 2], .sorted [0, 3]] [0, 10]).iter = [1, 2, 10, 13] := by decide
example : (Multi.mk [.sorted [1, 2], .sorted [0, 3]] [0, 10]).WF where
  len_eq := rfl
  nonempty := by decide
  first := rfl
  mono := by
    intro i j hij hj
    simp only [List.length_cons, List.length_nil] at hj
    have : j = 0 ∨ j = 1 := by omega
    rcases this with rfl | rfl
    · have : i = 0 := by omega
      subst this; simp
    · have : i = 0 ∨ i = 1 := by omega
      rcases this with rfl | rfl <;> simp
  fits := by
    intro k hk hs x hx
    simp only [List.length_cons, List.length_nil] at hk
    have : k = 0 := by omega
    subst this
    simp only [List.getElem_cons_zero, Inner.iter, List.mem_cons, List.not_mem_nil, or_false] at hx
    rcases hx with rfl | rfl <;> simp
  wf := by
    intro s hs
    simp only [List.mem_cons, List.not_mem_nil, or_false] at hs
    rcases hs with rfl | rfl <;> (unfold Inner.WF Sorted; decide)

example : ¬ multi_api_full := by
  intro h
  have hwf : (Multi.mk [.sorted []] [0]).WF :=
    { len_eq := rfl, nonempty := by decide, first := rfl,
      mono := by
        intro i j hij hj
        simp only [List.length_cons, List.length_nil] at hj
        have : j = 0 := by omega
        subst this
        have : i = 0 := by omega
        subst this; simp,
      fits := by intro k hk; simp at hk,
      wf := by
        intro s hs
        simp only [List.mem_cons, List.not_mem_nil, or_false] at hs
        subst hs; unfold Inner.WF Sorted; decide }
  have := (h _ 0 hwf).1
  cases this

end WM.C20
