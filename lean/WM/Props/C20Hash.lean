import WM.Lemmas.HashFormats
/-!
C20 (hash files): a hash file read back is the map that was written — for **any** hash function,
any key/value sequence (duplicate keys, empty keys/values, colliding hashes, equal low bytes),
any start offset; ordered files answer "closest key at or after k" and iterate from it.

The writers are `buildE` / `buildOrderedE`: `HashWriter` / `OrderedHashWriter` **with the limits of
the struct formats** (`!ii` lengths < 2^31, `!Iq` hash < 2^32 and position < 2^63, `!qi` table
position < 2^63 and slot count < 2^31, position index < 2^63).  Inside the limits the theorems hold
for every input (`hf : … = .ok f`); outside them the writer raises (`hash_writer_rejects`,
`ordered_writer_rejects`).  The ordered reader reads its positions from the bytes the retyped
`GrowableArray` wrote (`getPos` = `readItem` on `GA.toBytes`), for whichever typecode H/i/I/q the
offsets forced.  The statements over the unchecked writer (no bounds needed, Nat positions) are
`lookup_raw` … in `WM/Lemmas/HashLookup.lean`.
-/
set_option linter.unusedSimpArgs false
namespace WM.C20
open WM.HashFile

/-- `HashWriter.close()` always completes: the open-addressing insertion loop finds a free slot
    within `numslots` probes for every bucket (the `2n` slots are never full). -/
theorem hash_build_total {α} (hash : Key → Nat) (vlen : α → Nat) (so : Nat) (kvs : List (Key × α)) :
    ∃ f, build hash vlen so kvs = some f := build_total_raw hash vlen so kvs

/-- A file is written exactly when every number fits its struct format, and then all of them do:
    key/value lengths below 2^31, hash values below 2^32, record positions below 2^63, slot counts
    below 2^31. -/
theorem hash_writer_formats {α} (hash : Key → Nat) (vlen : α → Nat) (so : Nat) (kvs : List (Key × α))
    (f : File α) (hf : buildE hash vlen so kvs = .ok f) :
    (∀ kv ∈ kvs, kv.1.length < 2 ^ 31 ∧ vlen kv.2 < 2 ^ 31 ∧ hash kv.1 < 2 ^ 32) ∧
      (∀ r ∈ f.recs, r.pos < 2 ^ 63) ∧ (∀ t ∈ f.tables, t.length < 2 ^ 31) := by
  rcases buildE_ok hf with ⟨hb, hfo⟩
  have hbuilt := built_of_build hb
  rcases formatsOk_facts hbuilt hfo with ⟨h1, h2⟩
  refine ⟨?_, fun r hr => (h1 r hr).2.2.2, h2⟩
  intro kv hkv
  rcases recs_of_kvs hbuilt kv hkv with ⟨r, hr, hk, hv⟩
  have := h1 r hr
  rw [hk, hv] at this
  exact ⟨this.1, this.2.1, this.2.2.1⟩

/-- Beyond the formats the writer raises `struct.error`: a key or value of 2^31 bytes or more, or a
    hash function returning 2^32 or more. -/
theorem hash_writer_rejects {α} (hash : Key → Nat) (vlen : α → Nat) (so : Nat) (kvs : List (Key × α))
    (h : ∃ kv ∈ kvs, 2 ^ 31 ≤ kv.1.length ∨ 2 ^ 31 ≤ vlen kv.2 ∨ 2 ^ 32 ≤ hash kv.1) :
    buildE hash vlen so kvs = .error .struct := by
  rcases build_spec hash vlen so kvs with ⟨f, hf, hbuilt⟩
  unfold buildE
  rw [hf]
  simp only
  have hno : ¬ formatsOk hash vlen f = true := by
    intro hfo
    rcases h with ⟨kv, hkv, hbad⟩
    rcases recs_of_kvs hbuilt kv hkv with ⟨r, hr, hk, hv⟩
    have := (formatsOk_facts hbuilt hfo).1 r hr
    rw [hk, hv] at this
    omega
  rw [if_neg hno]

/-- `list(reader.all(k))` are the values written under `k`, in insertion order; absent keys give `[]`. -/
theorem hash_lookup {α} (hash : Key → Nat) (vlen : α → Nat) (so : Nat) (kvs : List (Key × α))
    (f : File α) (hf : buildE hash vlen so kvs = .ok f) (key : Key) :
    all hash f key = kvs.filterMap (fun kv => if kv.1 = key then some kv.2 else none) :=
  lookup_raw hash vlen so kvs f (buildE_ok hf).1 key

/-- `reader.get(k)` / `reader[k]` is the first value written under `k`; `k in reader` iff written. -/
theorem hash_get_contains {α} (hash : Key → Nat) (vlen : α → Nat) (so : Nat) (kvs : List (Key × α))
    (f : File α) (hf : buildE hash vlen so kvs = .ok f) (key : Key) :
    WM.HashFile.get hash f key = (kvs.find? (fun kv => kv.1 == key)).map (·.2)
      ∧ (containsKey hash f key = true ↔ key ∈ kvs.map (·.1)) :=
  get_contains_raw hash vlen so kvs f (buildE_ok hf).1 key

/-- Iterating the file (`items()`, `keys()`, `__iter__`) yields the pairs in insertion order. -/
theorem hash_items {α} (hash : Key → Nat) (vlen : α → Nat) (so : Nat) (kvs : List (Key × α))
    (f : File α) (hf : buildE hash vlen so kvs = .ok f) : items vlen f = kvs :=
  items_raw hash vlen so kvs f (buildE_ok hf).1

/-! ### ordered files -/

/-- `OrderedHashWriter.add` raises `ValueError` unless the keys strictly ascend from above `b""`;
    in particular an empty first key is rejected. -/
theorem ordered_writer_rejects {α} (hash : Key → Nat) (vlen : α → Nat) (so : Nat) (kvs : List (Key × α))
    (h : ¬ (([] : Key) :: kvs.map (·.1)).Pairwise (· < ·)) :
    buildOrderedE hash vlen so kvs = .error .value := by
  unfold buildOrderedE
  have : ¬ orderedKeysOk [] (kvs.map (·.1)) = true := fun ho => h ((orderedKeysOk_iff _ _).mp ho)
  rw [if_neg this]

/-- What an accepted ordered file satisfies: ascending non-empty keys, everything within the
    formats, and the position index read back from its stored bytes is the list of key positions
    (whatever typecode it was retyped to). -/
theorem ordered_writer_formats {α} (hash : Key → Nat) (vlen : α → Nat) (so : Nat) (kvs : List (Key × α))
    (f : File α) (hf : buildOrderedE hash vlen so kvs = .ok f) :
    (kvs.map (·.1)).Pairwise (· < ·) ∧ (∀ kv ∈ kvs, kv.1 ≠ []) ∧ buildE hash vlen so kvs = .ok f ∧
      f.indexLen = kvs.length ∧ ∀ k (hk : k < f.recs.length), getPos f k = some (f.recs[k]).pos := by
  rcases buildOrderedE_ok hf with ⟨ho, hb, _, hfo⟩
  have hbuilt := built_of_build hb
  have hp := (orderedKeysOk_iff _ _).mp ho
  have hp' := List.pairwise_cons.mp hp
  rcases index_readback hbuilt (fun r hr => ((formatsOk_facts hbuilt hfo).1 r hr).2.2.2) with ⟨_, hl, hg⟩
  refine ⟨hp'.2, ?_, ?_, ?_, hg⟩
  · intro kv hkv hnil
    have := hp'.1 kv.1 (List.mem_map.mpr ⟨kv, hkv, rfl⟩)
    rw [hnil] at this
    exact List.lt_irrefl _ this
  · unfold buildE; rw [hb]; simp only; rw [if_pos hfo]
  · rw [hl, hbuilt.recs, length_layout]

/-- `closest_key(k)`: the first key at or after `k`. -/
theorem ordered_closest_key {α} (hash : Key → Nat) (vlen : α → Nat) (so : Nat) (kvs : List (Key × α))
    (f : File α) (hf : buildOrderedE hash vlen so kvs = .ok f) (key : Key) :
    closestKey f key = .ok ((kvs.map (·.1)).find? (fun k => !decide (k < key))) := by
  rcases buildOrderedE_ok hf with ⟨ho, hb, _, hfo⟩
  have hbuilt := built_of_build hb
  exact closest_key_raw hash vlen so kvs f hb
    (fun r hr => ((formatsOk_facts hbuilt hfo).1 r hr).2.2.2)
    (List.pairwise_cons.mp ((orderedKeysOk_iff _ _).mp ho)).2 key

/-- `items_from(k)` / `keys_from(k)`: the pairs from the first key at or after `k` to the end. -/
theorem ordered_items_from {α} (hash : Key → Nat) (vlen : α → Nat) (so : Nat) (kvs : List (Key × α))
    (f : File α) (hf : buildOrderedE hash vlen so kvs = .ok f) (key : Key) :
    itemsFrom vlen f key = .ok (kvs.dropWhile (fun kv => decide (kv.1 < key))) := by
  rcases buildOrderedE_ok hf with ⟨ho, hb, _, hfo⟩
  have hbuilt := built_of_build hb
  exact items_from_raw hash vlen so kvs f hb
    (fun r hr => ((formatsOk_facts hbuilt hfo).1 r hr).2.2.2)
    (List.pairwise_cons.mp ((orderedKeysOk_iff _ _).mp ho)).2 key

/-- Non-vacuity: colliding keys under a constant hash (one bucket, every probe collides),
    duplicates and an empty key; the checked writer accepts and the reader answers in insertion
    order. -/
example : ∃ f, buildE (fun _ => 7) (fun (v : Nat) => v) 0 [([1], 10), ([2], 20), ([1], 30), ([], 0)] = .ok f
    ∧ all (fun _ => 7) f [1] = [10, 30] ∧ all (fun _ => 7) f [] = [0] ∧ all (fun _ => 7) f [9] = [] := by
  have hd : (buildE (fun _ => 7) (fun (v : Nat) => v) 0 [([1], 10), ([2], 20), ([1], 30), ([], 0)]).toBool = true := by
    decide +kernel
  cases hf : buildE (fun _ => 7) (fun (v : Nat) => v) 0 [([1], 10), ([2], 20), ([1], 30), ([], 0)] with
  | error e => rw [hf] at hd; cases hd
  | ok f =>
    refine ⟨f, rfl, ?_, ?_, ?_⟩ <;> rw [hash_lookup _ _ _ _ f hf] <;> decide

/-- an ordered file whose offsets start beyond 2^16 (index retyped to `i`) is accepted … -/
example : (buildOrderedE (fun k => k.length) (fun (v : Nat) => v) 70000 [([1], 3), ([1, 0], 0), ([2], 1)]).toBool = true
    ∧ ((buildOrderedE (fun k => k.length) (fun (v : Nat) => v) 70000 [([1], 3), ([1, 0], 0), ([2], 1)]).toOption.map
        (·.indexTC)) = some .i := by decide +kernel
/-- … an empty first key, a repeated key and a 2^32 hash value are rejected. -/
example : buildOrderedE (fun _ => 1) (fun (v : Nat) => v) 0 [([], 3)] = .error .value
    ∧ buildOrderedE (fun _ => 1) (fun (v : Nat) => v) 0 [([1], 3), ([1], 4)] = .error .value
    ∧ buildE (fun _ => 2 ^ 32) (fun (v : Nat) => v) 0 [([1], 3)] = .error .struct := by
  refine ⟨ordered_writer_rejects _ _ _ _ (by decide), ordered_writer_rejects _ _ _ _ (by decide),
    hash_writer_rejects _ _ _ _ ⟨([1], 3), by simp, by decide⟩⟩

end WM.C20
