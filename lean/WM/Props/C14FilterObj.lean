import WM.Props.C14Compose
/-!
C14 — "forall filter/mask given as query, Results or id set": what `Searcher._filter_to_comb` makes of the
object handed to `filter=` / `mask=`, and the composition with `search_filter_mask_scored`: a `Results`
object stands for **every document its query matched**, whatever limit the search that produced it had.
-/
namespace WM.C14
open WM.Rank WM.Collect

theorem allHits_docs (cfg : Cfg) (final : Nat → Rat → Rat) (segs : List Seg) :
    (allHits cfg final segs).map (·.doc) = globalDocs segs := by
  induction segs with
  | nil => rfl
  | cons s segs ih =>
    simp only [allHits, globalDocs, List.flatMap_cons, List.map_append, List.map_map] at ih ⊢
    rw [ih]
    congr 1

/-- **C14.results_docs_top** — `Results.docs()` of the object a limited *scored* search returns
    (`TopCollector`, any `limit`, any replace period, any schedule of matcher drops) is the set of **all**
    documents the query matched — not the `limit` best ones in `top_n` —, and asking again gives the same
    set (it is remembered in `docset`). -/
theorem results_docs_top (cfg : Cfg) (final : Nat → Rat → Rat) (segs : List Seg) (sched : List Step)
    (r : ResultsObj) (h : searchTopObj cfg final segs sched = .ok r) :
    r.docs.1 = globalDocs segs ∧ r.docs.2.docs = (globalDocs segs, r.docs.2) ∧ r.docs.2.topN = r.topN := by
  unfold searchTopObj at h
  split at h
  · cases h
  · cases h
    exact ⟨rfl, rfl, rfl⟩

/-- **C14.results_docs_unlimited** — `Results.docs()` of `search(fq, limit=None)` (either direction): the
    same set of documents. -/
theorem results_docs_unlimited (replace : Nat) (useFinal : Bool) (final : Nat → Rat → Rat) (reverse : Bool)
    (segs : List Seg) (sched : List Step) :
    ∃ r, searchUnlimitedObj replace useFinal final reverse segs sched = .ok r ∧
      ∀ d, d ∈ r.docs.1 ↔ d ∈ globalDocs segs := by
  have hu := WM.C05.unlimited replace useFinal final reverse segs sched
  unfold searchUnlimitedObj
  rw [hu]
  refine ⟨_, rfl, ?_⟩
  intro d
  simp only [ResultsObj.docs]
  rw [← allHits_docs { limit := 0, replace := replace, usequality := false, useFinal := useFinal } final segs]
  have hp : ∀ l : List Hit, (rankAll l).Perm l := fun l => List.mergeSort_perm l rankLe
  cases reverse
  · simp only [Bool.false_eq_true, if_false]
    exact ((hp _).map _).mem_iff
  · simp only [if_true]
    exact (((List.reverse_perm _).trans (hp _)).map _).mem_iff

/-- **C14.filter_object_forms** — the three ways of naming the same documents agree: a query `fq` whose
    matched documents are `globalDocs fsegs`, the id set of those documents, the `Results` object of
    `search(fq, limit=j)` for any `j` (and a `ResultsPage` over it) all become the same allow/mask set. -/
theorem filter_object_forms (cfgF : Cfg) (finalF : Nat → Rat → Rat) (fsegs : List Seg) (schedF : List Step)
    (fr : ResultsObj) (h : searchTopObj cfgF finalF fsegs schedF = .ok fr) :
    filterToComb (.results fr) = .ok (some (globalDocs fsegs)) ∧
    filterToComb (.page fr) = .ok (some (globalDocs fsegs)) ∧
    filterToComb (.query (globalDocs fsegs)) = .ok (some (globalDocs fsegs)) ∧
    filterToComb (.ids (globalDocs fsegs)) = .ok (some (globalDocs fsegs)) ∧
    filterToComb (.results fr.docs.2) = .ok (some (globalDocs fsegs)) := by
  obtain ⟨h1, h2, _⟩ := results_docs_top cfgF finalF fsegs schedF fr h
  refine ⟨?_, ?_, rfl, rfl, ?_⟩
  · simp only [filterToComb, h1]
  · simp only [filterToComb, h1]
  · simp only [filterToComb, h2]

/-- **C14.search_filter_given_as_results** — `search(q, limit=k, filter=F, mask=M)` where `F` and `M` are
    the `Results` objects of two *limited* scored searches `search(fq, limit=j)`, `search(mq, limit=j')`
    (any limits, weightings' `final()` hooks and matcher schedules): the hits are the first `k` entries of
    the unfiltered exhaustive ranking of `q` restricted to the documents **matched by** `fq` and not
    matched by `mq` — the limits `j`, `j'` of the filter objects do not show. Composition of
    `results_docs_top`, `Searcher._filter_to_comb`, `FilterCollector.prepare` and
    `search_filter_mask_scored`. -/
theorem search_filter_given_as_results (cfg : Cfg) (final : Nat → Rat → Rat) (segs : List Seg)
    (sched sched' : List Step) (hk : 1 ≤ cfg.limit) (hwf : (globalDocs segs).Pairwise (· < ·)) (hfresh : Fresh segs)
    (cfgF cfgM : Cfg) (finalF finalM : Nat → Rat → Rat) (fsegs msegs : List Seg) (schedF schedM : List Step)
    (fr mr : ResultsObj) (hf : searchTopObj cfgF finalF fsegs schedF = .ok fr)
    (hm : searchTopObj cfgM finalM msegs schedM = .ok mr) :
    ∃ all st tr, collectUnlimited cfg.replace cfg.useFinal final false segs sched' = .ok all ∧
      searchFilterObjs cfg final (.results fr) (.results mr) segs sched =
        .ok (.ok ((all.filter (fun h => decide (h.doc ∈ globalDocs fsegs) && !decide (h.doc ∈ globalDocs msegs))).take
          cfg.limit, st, tr)) := by
  obtain ⟨all, st, tr, hall, hstack⟩ := search_filter_mask_scored cfg final (some (globalDocs fsegs))
    (some (globalDocs msegs)) segs sched sched' hk hwf hfresh
  refine ⟨all, st, tr, hall, ?_⟩
  have h1 := (filter_object_forms cfgF finalF fsegs schedF fr hf).1
  have h2 := (filter_object_forms cfgM finalM msegs schedM mr hm).1
  have hfun : (fun h : Hit => passesSets (some (globalDocs fsegs)) (some (globalDocs msegs)) h.doc) =
      (fun h : Hit => decide (h.doc ∈ globalDocs fsegs) && !decide (h.doc ∈ globalDocs msegs)) := by
    funext h
    simp only [passesSets, refuses, List.contains_eq_mem]
    cases decide (h.doc ∈ globalDocs fsegs) <;> cases decide (h.doc ∈ globalDocs msegs) <;> rfl
  rw [hfun] at hstack
  simp only [searchFilterObjs, h1, h2, hstack]

/-- **C14.results_object_of_limited_search** — the `Results` object of `search(fq, limit=j)`, `j ≥ 1`, exists for
    every schedule within the contract: its hit list is the top `j` of the ranking (C05.topk) — at most `j`
    hits — while its document set is every matched document. -/
theorem results_object_of_limited_search (cfg : Cfg) (final : Nat → Rat → Rat) (segs : List Seg) (sched : List Step)
    (hk : 1 ≤ cfg.limit) (hwf : (globalDocs segs).Pairwise (· < ·)) (hfresh : Fresh segs) :
    ∃ r, searchTopObj cfg final segs sched = .ok r ∧ r.topN = topK cfg.limit (allHits cfg final segs) ∧
      r.topN.length ≤ cfg.limit ∧ r.docs.1 = globalDocs segs := by
  have h := WM.C05.topk cfg final segs sched hk hwf hfresh
  refine ⟨topResultsObj (topK cfg.limit (allHits cfg final segs)) segs, ?_, rfl, ?_, rfl⟩
  · simp only [searchTopObj, h]
  · simp only [topResultsObj, topK]
    exact List.length_take_le _ _

/-- Non-vacuity: the filter query matches documents 0, 2, 3, 5; `search(fq, limit=1)` has one hit, yet as a
    filter it allows all four documents; the mask object (`limit=1` over documents 3, 4) removes both 3 and
    4. The main query matches documents 0…5 in two segments; `limit=2`: the two best of the documents
    0, 2, 5 that pass. -/
example :
    let fsegs : List Seg := [⟨0, true, [.mk' 0 1 true, .mk' 2 4 true, .mk' 3 2 true, .mk' 5 3 true]⟩]
    let msegs : List Seg := [⟨0, true, [.mk' 3 1 true, .mk' 4 2 true]⟩]
    let segs : List Seg := [⟨0, true, [.mk' 0 1 true, .mk' 1 9 true, .mk' 2 2 true]⟩,
                            ⟨3, true, [.mk' 0 5 true, .mk' 1 7 true, .mk' 2 3 true]⟩]
    ∃ fr mr all st tr, searchTopObj { limit := 1 } (fun _ s => s) fsegs [] = .ok fr ∧
      searchTopObj { limit := 1 } (fun _ s => s) msegs [] = .ok mr ∧
      fr.topN.length ≤ 1 ∧ fr.docs.1 = [0, 2, 3, 5] ∧ mr.docs.1 = [3, 4] ∧
      collectUnlimited 10 false (fun _ s => s) false segs [] = .ok all ∧
      searchFilterObjs { limit := 2 } (fun _ s => s) (.results fr) (.results mr) segs [] =
        .ok (.ok ((all.filter (fun h => decide (h.doc ∈ [0, 2, 3, 5]) && !decide (h.doc ∈ [3, 4]))).take 2, st, tr)) := by
  intro fsegs msegs segs
  obtain ⟨fr, hfr, -, hlen, hdocs⟩ := results_object_of_limited_search { limit := 1 } (fun _ s => s) fsegs []
    (by decide) (by decide) (by decide)
  obtain ⟨mr, hmr, -, -, hmdocs⟩ := results_object_of_limited_search { limit := 1 } (fun _ s => s) msegs []
    (by decide) (by decide) (by decide)
  obtain ⟨all, st, tr, hall, hres⟩ := search_filter_given_as_results { limit := 2 } (fun _ s => s) segs [] []
    (by decide) (by decide) (by decide) _ _ _ _ fsegs msegs [] [] fr mr hfr hmr
  exact ⟨fr, mr, all, st, tr, hfr, hmr, hlen, hdocs, hmdocs, hall, hres⟩

end WM.C14
