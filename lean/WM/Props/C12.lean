import WM.Lemmas.QualityTree
import WM.Lemmas.ScoringMono
import WM.Lemmas.ReplaceRest
import WM.Lemmas.CoordMono
import WM.Lemmas.KeepsWalk
/-!
# C12 — quality bounds are true upper bounds on scores

`WQ PB s m`: the tree `m` is well formed (C11), scores are non-negative, block/term statistics of the posting
lists are true aggregates, the leaf scorers are monotone, every boost satisfies `PB` and every part whose
quality is consulted supports block quality.  `W0 PB` is the same without the support requirement.
All statements are for every shape (MultiMatcher and ArrayUnionMatcher nodes included; for the latter the
invariant also asks for positive scores and a positive boost, without which the class drops documents), state and
threshold (also 0, negative, above the maximum).
-/
namespace WM.C12
open WM.Matcher

/-- the side condition on boosts used by the bound and skip theorems: positive -/
abbrev Pos : Rat → Prop := fun b => 0 < b

/-- `supports_block_quality()` holds on the states the theorems below talk about -/
theorem supports (s : Shape) (m : St s) (h : WQ Pos s m) : (ops s).supportsBQ m = true :=
  (tree_qfaithful Pos (fun _ h => h) s).sup m h

/-- `block_quality()` never raises and is at least the score of the current entry -/
theorem block (s : Shape) (m : St s) (h : WQ Pos s m) :
    ∃ q, (ops s).blockQuality m = .ok q ∧ ∀ x r L, den s m = (x, r) :: L → r ≤ q :=
  (tree_qfaithful Pos (fun _ h => h) s).block m h

/-- `max_quality()` never raises and is at least every remaining score (no support needed: `replace()`
    consults it on every tree) -/
theorem max (s : Shape) (m : St s) (h : W0 Pos s m) :
    ∃ q, (ops s).maxQuality m = .ok q ∧ ∀ e ∈ den s m, e.2 ≤ q :=
  (tree_qfaithful Pos (fun _ h => h) s).max m h

/-- for a posting list, `block_quality()` bounds **every** entry of the current block and `max_quality()`
    every entry of the list, whenever the scorer is monotone (`leaf_bound`) -/
theorem leaf_bound (m : LeafM) (h : LeafM.WF m) (d : LeafM.QData m) :
    (∀ p ∈ (m.blocks[m.b]'h.2.1).posts, m.sc p.weight p.length ≤ m.blockQualityV) ∧
    (∀ B ∈ m.blocks, ∀ p ∈ B.posts, m.sc p.weight p.length ≤ m.sc m.termMaxWeight m.termMinLength) := by
  refine ⟨fun p hp => ?_, fun B hB p hp => ?_⟩
  · rw [LeafM.blockQualityV_eq h.2.1]
    exact LeafM.entry_le_block d (List.getElem_mem _) hp
  · exact Rat.le_trans (LeafM.entry_le_block d hB hp) (LeafM.block_le_term d hB)

/-- `skip_to_quality(q)` never raises on an active matcher, preserves the invariant and passes over no entry
    scoring more than `q`: above `q` the remaining list is unchanged (nothing lost, invented or rescored), and
    what remains at or below `q` is dominated by the original list -/
theorem skip_keeps (s : Shape) (m : St s) (q : Rat) (h : WQ Pos s m) (ha : (ops s).isActive m = true) :
    ∃ m' k, (ops s).skipToQuality m q = .ok (m', k) ∧ WQ Pos s m' ∧
      hi q (den s m') = hi q (den s m) ∧ Dominated (den s m') (den s m) ∧ full s m' = full s m := by
  have Q := tree_qfaithful Pos (fun _ h => h) s
  obtain ⟨m', k, h1, h2, h3, -, -, h6⟩ := Q.skipQ m q h ((Q.curQ.active m h).1 ha)
  exact ⟨m', k, h1, h2, h3.hi_eq, h3.dom, h6⟩

/-- … in particular every entry scoring more than `q` survives with its score -/
theorem skip_keeps_mem (s : Shape) (m : St s) (q : Rat) (h : WQ Pos s m) (ha : (ops s).isActive m = true) :
    ∃ m' k, (ops s).skipToQuality m q = .ok (m', k) ∧ ∀ e ∈ den s m, q < e.2 → e ∈ den s m' := by
  obtain ⟨m', k, h1, -, h3, -, -⟩ := skip_keeps s m q h ha
  refine ⟨m', k, h1, fun e he hq => ?_⟩
  have : e ∈ hi q (den s m) := mem_hi.2 ⟨he, hq⟩
  rw [← h3] at this
  exact (mem_hi.1 this).1

/-- **the composition the top-N search relies on** (`collectors.py ScoredCollector.matches`: `while
    matcher.is_active(): [matcher.skip_to_quality(minscore)]; read id/score; matcher.next()`): for *every* schedule
    of `next()` and `skip_to_quality(q)` calls (issued while the matcher is active) whose thresholds never exceed `Q`,
    the walk never raises, keeps the invariant, and every entry of the original result list scoring more than `Q` is
    either **visited** (it was the current entry, with its true score, when a `next()` was issued) or still in the
    remaining list; conversely nothing above `Q` is invented or rescored, neither among the visited entries nor among
    the remaining ones. -/
theorem walk_keeps (s : Shape) (m : St s) (prog : List QOp) (Q : Rat) (h : WQ Pos s m)
    (hQ : ∀ q, QOp.skipq q ∈ prog → q ≤ Q) :
    ∃ m' v, runW s m prog = .ok (m', v) ∧ WQ Pos s m' ∧
      (∀ e ∈ den s m, Q < e.2 → e ∈ v ∨ e ∈ den s m') ∧
      (∀ e ∈ v, Q < e.2 → e ∈ den s m) ∧ (∀ e ∈ den s m', Q < e.2 → e ∈ den s m) ∧ full s m' = full s m :=
  runWith_keeps (tree_qfaithful Pos (fun _ h => h) s) Q prog m h hQ

/-! ## `replace(q)` -/

/-- the full statement: `replace(q)` removes no entry scoring more than `q`, whatever the (positive) boosts -/
def replace_keeps_full : Prop :=
  ∀ (s : Shape) (m : St s) (q : Rat), W0 Pos s m →
    ∃ c r, replace s m q = .ok (c, r) ∧ hi q r.den = hi q (den s m)

/-- **proved part**: for trees whose boosts lie in `(0, 1]`, `replace(q)` never raises, returns a well-formed
    tree and keeps every entry scoring above `q` unchanged (nothing lost, invented or rescored above `q`; what
    remains below is dominated by the original).  No block-quality support is needed (the collectors call
    `replace()` on every tree).  Missing for the full statement: boosts above 1 - there the code is wrong,
    see `replace_keeps_boost_counterexample`. -/
theorem replace_keeps_partial (s : Shape) (m : St s) (q : Rat) (h : W0 Unit01 s m) :
    ∃ c r, replace s m q = .ok (c, r) ∧ W0 Unit01 r.1 r.2 ∧ hi q r.den = hi q (den s m) ∧
      Dominated r.den (den s m) ∧ (q = 0 → r.den = den s m) := by
  obtain ⟨⟨c, r⟩, h1, h2⟩ := replace_spec s m q h
  exact ⟨c, r, h1, h2.w0, h2.keeps.hi_eq, h2.keeps.dom, h2.eq0⟩

/-- `WrappingMatcher(ListMatcher([6], [1.0]), boost=2.0)`: the only entry scores 2 … -/
def exBoost2 : St (.boost .list) := ⟨⟨[6], [1], 0, true⟩, 2⟩

/-- … and `replace(7/4)` drops it: `WrappingMatcher.replace` hands the threshold to the child unscaled
    (recorded finding; `tests/test_quality.py::test_replacements` pins the behaviour) -/
theorem replace_keeps_boost_counterexample :
    W0 Pos (.boost .list) exBoost2 ∧ den (.boost .list) exBoost2 = [(6, 2)] ∧
    ((replace (.boost .list) exBoost2 (7/4)).toOption.map fun out => hi (7/4) out.2.den) = some [] := by
  refine ⟨⟨⟨⟨by decide, rfl⟩, ?_⟩, by decide +kernel⟩, by decide +kernel, by decide +kernel⟩
  have : ∀ w ∈ ([1] : List Rat), 0 ≤ w := by decide +kernel
  exact this

example : ¬ replace_keeps_full := by
  intro h
  obtain ⟨c, r, h1, h2⟩ := h (.boost .list) exBoost2 (7/4) replace_keeps_boost_counterexample.1
  have h3 := replace_keeps_boost_counterexample.2.2
  rw [h1] at h3
  simp only [Except.toOption, Option.map_some, Option.some.injEq] at h3
  rw [h3, replace_keeps_boost_counterexample.2.1] at h2
  revert h2
  decide +kernel

/-- non-vacuity of `replace_keeps_partial`: a union of scored lists under a boost ≤ 1 is turned into an
    intersection, keeping exactly the entries above the threshold -/
def exUnionHalf : St (.boost (.union .list .list)) :=
  ⟨⟨⟨[1, 3], [1, 1], 0, true⟩, ⟨[3, 5], [1, 1], 0, true⟩⟩, 1/2⟩

/-- … it satisfies the hypothesis of `replace_keeps_partial` -/
example : W0 Unit01 _ exUnionHalf := by
  have nn : ∀ w ∈ ([1, 1] : List Rat), 0 ≤ w := by decide +kernel
  exact ⟨⟨⟨⟨by decide, rfl⟩, nn⟩, ⟨⟨by decide, rfl⟩, nn⟩⟩, by decide +kernel⟩

example : ((replace _ exUnionHalf (3/2)).toOption.map fun out => out.2.den) = some [(3, 1)] ∧
    den _ exUnionHalf = [(1, 1/2), (3, 1), (5, 1/2)] := by
  constructor <;> decide +kernel

/-! ## the shipped scorers that claim quality support are monotone (over `Rat`) -/

theorem bm25_mono {idf avgfl B K1 : Rat} (hidf : 0 ≤ idf) (havg : 0 < avgfl) (hB0 : 0 ≤ B) (hB1 : B ≤ 1)
    (hK : 0 ≤ K1) (tf tf' : Rat) (fl fl' : Nat) (h0 : 0 ≤ tf) (h1 : tf ≤ tf') (h2 : fl' ≤ fl) :
    bm25 idf avgfl B K1 tf fl ≤ bm25 idf avgfl B K1 tf' fl' :=
  WM.Matcher.bm25_mono hidf havg hB0 hB1 hK tf tf' fl fl' h0 h1 h2

theorem tfidf_mono {idf : Rat} (h : 0 ≤ idf) : Monotone2 (tfidfScore idf) := WM.Matcher.tfidf_mono h

theorem freq_mono : Monotone2 freqScore := WM.Matcher.freq_mono

/-- the composition: a posting list scored with BM25F (non-negative idf, positive average field length, `B` in
    [0, 1], non-negative `K1`) whose stored block/term statistics are true aggregates of non-negative weights
    satisfies `leaf_bound` - `block_quality()` bounds every entry of the block, `max_quality()` every entry of the list -/
theorem bm25_leaf_bound (m : LeafM) (h : LeafM.WF m) {idf avgfl B K1 : Rat} (hsc : m.sc = bm25 idf avgfl B K1)
    (hidf : 0 ≤ idf) (havg : 0 < avgfl) (hB0 : 0 ≤ B) (hB1 : B ≤ 1) (hK : 0 ≤ K1)
    (hblock : ∀ Bk ∈ m.blocks, ∀ p ∈ Bk.posts, p.weight ≤ Bk.maxWeight ∧ Bk.minLength ≤ p.length)
    (hterm : ∀ Bk ∈ m.blocks, Bk.maxWeight ≤ m.termMaxWeight ∧ m.termMinLength ≤ Bk.minLength)
    (hnn : ∀ Bk ∈ m.blocks, 0 ≤ Bk.maxWeight ∧ ∀ p ∈ Bk.posts, 0 ≤ p.weight) :
    (∀ p ∈ (m.blocks[m.b]'h.2.1).posts, m.sc p.weight p.length ≤ m.blockQualityV) ∧
    (∀ Bk ∈ m.blocks, ∀ p ∈ Bk.posts, m.sc p.weight p.length ≤ m.sc m.termMaxWeight m.termMinLength) := by
  refine leaf_bound m h ⟨hblock, hterm, hnn, ?_, ?_⟩
  · rw [hsc]
    intro w w' l l' h0 h1 h2
    exact WM.Matcher.bm25_mono hidf havg hB0 hB1 hK w w' l l' h0 h1 h2
  · intro Bk hBk p hp
    rw [hsc]
    exact WM.Matcher.bm25_nonneg hidf havg hB0 hB1 hK _ ((hnn Bk hBk).2 p hp)

/-! ## CoordMatcher (`Or(..., scale=c)`): the formulas only; the class itself is walked end-to-end -/

/-- `max_quality()`/`block_quality()` of `CoordMatcher` (`_sqr(child bound, termcount)`) bound the coordinated score
    `_sqr(child score, matching terms)`: the formula is monotone in both arguments (at least one term, `termcount ≠
    scale`) -/
theorem coord_bound {T c s S k : Rat} (hT : 1 ≤ T) (hc : T ≠ c) (hs : s ≤ S) (hk : k ≤ T) :
    coordSqr T c s k ≤ coordSqr T c S T :=
  coordSqr_mono hT hc hs hk

/-- the threshold handed to the child by the repaired `skip_to_quality`/`replace` (`_child_quality(q)`) is safe: a
    document whose child score is at or below it scores at most `q` here, however many terms match -/
theorem coord_threshold {T c q s k : Rat} (hT : 1 < T) (hc : T ≠ c) (hk : k ≤ T) (hs : s ≤ coordChild T c q) :
    coordSqr T c s k ≤ q :=
  WM.Matcher.coord_threshold hT hc hk hs

/-- … while the unconverted threshold (what the pinned tree hands down) is not: two terms, scale 1/2, threshold
    3/10 - a document with child score 3/10 (so passed over by the child) on which both terms match scores 67/180 -/
example : coordSqr 2 (1/2) (3/10) 2 = 67/180 ∧ ¬ coordSqr 2 (1/2) (3/10) 2 ≤ 3/10 := by decide +kernel

/-! ## non-vacuity -/

/-- `Intersection([1,3,5], [3,5,9])` of scored ListMatchers: the hypotheses hold … -/
def exInter : St (.inter .list .list) :=
  ⟨⟨[1, 3, 5], [1, 2, 1/2], 1, true⟩, ⟨[3, 5, 9], [1, 1, 4], 0, true⟩⟩

example : WQ Pos (.inter .list .list) exInter := by
  have nna : ∀ w ∈ ([1, 2, 1/2] : List Rat), 0 ≤ w := by decide +kernel
  have nnb : ∀ w ∈ ([1, 1, 4] : List Rat), 0 ≤ w := by decide +kernel
  refine ⟨⟨⟨⟨by decide, rfl⟩, nna⟩, rfl⟩, ⟨⟨⟨by decide, rfl⟩, nnb⟩, rfl⟩, ?_⟩
  intro x r La y s Lb h1 h2
  have e1 : exInter.a.den = [(3, 2), (5, 1/2)] := by decide +kernel
  have e2 : exInter.b.den = [(3, 1), (5, 1), (9, 4)] := by decide +kernel
  change exInter.a.den = _ at h1
  change exInter.b.den = _ at h2
  rw [e1] at h1; rw [e2] at h2
  cases h1; cases h2; rfl

/-- … and the quantities are the expected ones: list `[(3, 3), (5, 3/2)]`, block quality 2 + 4 -/
example : den (.inter .list .list) exInter = [(3, 3), (5, 3/2)] ∧
    ((ops (.inter .list .list)).blockQuality exInter).toOption = some 6 := by
  constructor <;> decide +kernel

/-- a posting list of five postings in three blocks (blocklimit 2), Frequency scoring, cursor on the second
    posting of the first block -/
def exLeaf : LeafM :=
  { blocks := [⟨[⟨2, 1, 3⟩, ⟨5, 4, 7⟩], 5, 4, 3⟩, ⟨[⟨9, 2, 1⟩, ⟨11, 1, 2⟩], 11, 2, 1⟩, ⟨[⟨20, 6, 9⟩], 20, 6, 9⟩],
    sc := freqScore, termMaxWeight := 6, termMinLength := 1, b := 0, i := 1, atend := false }

theorem exLeaf_wf : LeafM.WF exLeaf := by
  refine ⟨⟨by decide, by decide, by decide⟩, by decide, Or.inr (by decide)⟩

theorem exLeaf_qdata : LeafM.QData exLeaf :=
  ⟨by decide +kernel, by decide +kernel, by decide +kernel, freq_mono, by decide +kernel⟩

example : WQ Pos .leaf exLeaf := ⟨exLeaf_wf, exLeaf_qdata⟩

/-- … `skip_to_quality(4)` passes over the rest of block 0 and block 1 and lands on (20, 6) -/
example : ((LeafM.ops.skipToQuality exLeaf 4).toOption.map fun r => (r.1.den, r.2)) = some ([(20, 6)], 2) ∧
    exLeaf.den = [(5, 4), (9, 2), (11, 1), (20, 6)] := by
  constructor <;> decide +kernel

/-- … and the walk `next(); skip_to_quality(4); next()` (hypotheses of `walk_keeps` with `Q = 4`: `exLeaf_wf`,
    `exLeaf_qdata`) visits (5, 4), passes over (9, 2) and (11, 1), visits (20, 6) and ends exhausted: the only entry
    above 4 was visited -/
example : ((runW .leaf exLeaf [.next, .skipq 4, .next]).toOption.map fun r => (r.1.den, r.2)) =
    some ([], [(5, 4), (20, 6)]) := by decide +kernel

/-- a `MultiMatcher` over two segments: `max_quality()` is the maximum over the sub-matchers that are left,
    `block_quality()` the current sub-matcher's, `replace(5/2)` passes over the first segment (its maximum is 2)
    and `skip_to_quality(2)` steps off it -/
def exMulti : Any := mkMulti .list [(⟨[5, 9], [1, 2], 0, true⟩, 0), (⟨[2, 7], [3, 1], 0, true⟩, 30)]

example : exMulti.den = [(5, 1), (9, 2), (32, 3), (37, 1)] ∧ exMulti.maxQuality.toOption = some 3 ∧
    ((ops exMulti.1).blockQuality exMulti.2).toOption = some 2 ∧
    ((exMulti.replace (5/2)).toOption.map (·.den)) = some [(32, 3), (37, 1)] ∧
    (((ops exMulti.1).skipToQuality exMulti.2 2).toOption.map fun r => den exMulti.1 r.1) = some [(32, 3), (37, 1)] := by
  refine ⟨?_, ?_, ?_, ?_, ?_⟩ <;> decide +kernel

/-- an `ArrayUnionMatcher` (part size 4) over two lists: `block_quality()` is the best score of the buffered part,
    `max_quality()` also covers what the sub-matchers still hold, `skip_to_quality(3)` passes over the first part
    (best score 1) and lands on document 5 (score 4) -/
def exAUnion : R Any :=
  mkAUnion .list [⟨[1, 5, 9], [1, 2, 3], 0, true⟩, ⟨[2, 5, 30], [1, 2, 3], 0, true⟩] 40 1 4

example : (exAUnion.bind fun m => (ops m.1).blockQuality m.2).toOption = some 1 ∧
    (exAUnion.bind fun m => (ops m.1).maxQuality m.2).toOption = some 6 ∧
    (exAUnion.bind fun m => (ops m.1).skipToQuality m.2 3 |>.map fun r => den m.1 r.1).toOption =
      some [(5, 4), (9, 3), (30, 3)] := by
  refine ⟨?_, ?_, ?_⟩ <;> decide +kernel

/-- BM25F with the default parameters satisfies the hypotheses of `bm25_mono` -/
example : bm25 2 10 (3/4) (6/5) 1 20 ≤ bm25 2 10 (3/4) (6/5) 3 5 :=
  bm25_mono (by decide +kernel) (by decide +kernel) (by decide +kernel) (by decide +kernel) (by decide +kernel)
    1 3 20 5 (by decide +kernel) (by decide +kernel) (by decide)

end WM.C12
