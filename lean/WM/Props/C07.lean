import WM.Lemmas.IndexCount
import WM.Lemmas.IndexUnique
import WM.Lemmas.IndexPartition
/-!
# C07 — deletes, updates and cancel have exact, durable semantics

Model: `WM/Model/Index.lean` (SegmentWriter & co.), specification: `WM/Spec/Dict.lean` (an index is
a dictionary of live documents).  `lockstep` runs any number of successive writer sessions on both.
-/
namespace WM.C07
open WM.Dict WM.Index

/-- **Refinement.** For every history of writer sessions — any calls (`add_document`,
`update_document`, `delete_document`, `delete_by_term`, `delete_by_query`, `add_field`,
`remove_field`; failing calls included), each session ended by `commit` under any merge policy
that only re-arranges segments (NO_MERGE, MERGE_SMALL, OPTIMIZE, custom), by `commit(CLEAR)` or
by `cancel` — started from a well-formed index that holds the documents of a dictionary state:
no commit raises, the index stays well-formed, and it holds exactly the documents of the
dictionary (same schema, same visible documents as multisets; in particular deleted documents are
in no read function's output) and `doc_count()` is their number.
Side conditions (`HistOK`): each `update_document` is unambiguous (`Unambiguous`: at most one live
committed document per unique term — see `update_all_full`), added field names are fresh.
Un-delete (`delete_document(n, delete=False)`) is covered: it restores the document at `n`. -/
theorem refines_dict (t : Toc) (sp : State) (hwf : t.WF) (h : Rel t sp)
    (hist : List (List Op × Ending × SEnd)) (hok : HistOK t sp hist) :
    ∃ t' sp', lockstep t sp hist = .ok (t', sp') ∧
      t.history (hist.map (fun x => (x.1, x.2.1))) = .ok t' ∧
      t'.WF ∧ sp'.schema = t'.schema ∧ t'.content.Perm sp'.docs ∧ t'.docCount = sp'.docs.length := by
  obtain ⟨t', sp', h1, wf', rel'⟩ := history_sim t sp hwf h hist hok
  refine ⟨t', sp', h1, ?_, wf', rel'.schema, rel'.docs, ?_⟩
  · rw [← lockstep_fst t sp hist, h1]; rfl
  · rw [Toc.docCount_eq t' wf', rel'.docs.length_eq]

/-- The same for one call: whatever the client calls on an open writer, the pending state of the
    writer and of the dictionary session stay in correspondence. -/
theorem refines_dict_step (w : Writer) (ss : Sess) (h : SRel w ss) (hwf : w.WF) (op : Op) (hok : OpOK w ss op) :
    SRel (w.step op).1 (ss.step (w.specOp op)) ∧ (w.step op).1.WF :=
  step_sim w ss h hwf op hok

/-- what a query denotes -/
def denote : Query → DocRec → Bool
  | .pred p => p
  | .term f t => fun d => d.hasTerm f t

/-- **delete_by_term / delete_by_query are exact.** The call succeeds, returns the number of live
documents matching the query, removes exactly those from the live documents (in place: order
kept), and touches nothing else.  For a term query the count needs the (codec) invariant that a
document has at most one posting per term. -/
theorem delete_exact (w : Writer) (hwf : w.WF) (q : Query)
    (hone : ∀ f t, q = .term f t → ∀ x ∈ liveGlobal w.segs 0, termCount w.schema f t x.1 ≤ 1) :
    ∃ w', w.deleteByQuery q = .ok (w', ((contentOf w.schema w.segs).filter (denote q)).length) ∧
      contentOf w'.schema w'.segs = (contentOf w.schema w.segs).filter (fun d => !denote q d) ∧
      w'.schema = w.schema ∧ w'.ndocs = w.ndocs ∧ w'.pool = w.pool ∧
      w'.segs.map Seg.docs = w.segs.map Seg.docs ∧ w'.segs.map Seg.posts = w.segs.map Seg.posts := by
  cases q with
  | pred p =>
    obtain ⟨w', h1, f1, l1⟩ := Writer.deleteByQuery_pred w p
    refine ⟨w', h1, ?_, f1.schema, f1.ndocs, f1.pool, f1.docs, f1.posts⟩
    rw [contentOf_eq_liveGlobal _ _ 0, contentOf_eq_liveGlobal _ _ 0, l1, f1.schema, List.filter_map]
    rfl
  | term f t =>
    have hp : ∀ s ∈ w.segs, s.posts.Perm (allPostings s.docs) := fun s hs => (hwf.segs s hs).posts
    obtain ⟨w', h1, f1, l1⟩ := Writer.deleteMany_ok w (docsForQuery w.schema (.term f t) w.segs 0)
      (docsForQuery_term_lt w.schema f t w.segs hp)
    refine ⟨w', ?_, ?_, f1.schema, f1.ndocs, f1.pool, f1.docs, f1.posts⟩
    · simp only [Writer.deleteByQuery, h1, Except.map, denote]
      rw [docsForQuery_term_length w.schema f t w.segs hp (hone f t rfl)]
    · rw [contentOf_eq_liveGlobal _ _ 0, contentOf_eq_liveGlobal _ _ 0, l1, f1.schema, List.filter_map]
      congr 1
      apply List.filter_congr
      intro x hx
      rw [docsForQuery_term_contains w.schema f t w.segs hp x hx]
      rfl

/-- **delete_document(n)**: a valid number removes exactly the document at `n` (nothing when it
    was deleted already); an invalid one raises and changes nothing. -/
theorem delete_document_exact (w : Writer) (n : Nat) :
    (n < docCountAllSegs w.segs →
      ∃ w', w.deleteDocument n true = .ok w' ∧
        liveGlobal w'.segs 0 = (liveGlobal w.segs 0).filter (fun p => p.2 != n)) ∧
    (¬ n < docCountAllSegs w.segs → w.deleteDocument n true = .error .noSuchDoc) := by
  refine ⟨fun h => ?_, fun h => Writer.deleteDocument_err w n true h⟩
  obtain ⟨w', h1, _, l1⟩ := Writer.deleteDocument_ok w n h
  exact ⟨w', h1, l1⟩

/-- **un-delete.** For a valid number `delete_document(n, delete=False)` succeeds, touches only the
deleted sets, changes the liveness of no other document and makes the document at `n` live again;
when it was not deleted nothing changes at all. -/
theorem undelete (w : Writer) (hwf : w.WF) (n : Nat) (h : n < docCountAllSegs w.segs) :
    ∃ w', w.deleteDocument n false = .ok w' ∧ Frame w w' ∧
      (liveGlobal w'.segs 0).filter (fun p => p.2 != n) = (liveGlobal w.segs 0).filter (fun p => p.2 != n) ∧
      (∀ d, docAt w.segs n = some d → (d, n) ∈ liveGlobal w'.segs 0) ∧
      (isDeletedG w.segs n = false → w' = w) :=
  Writer.undelete_spec w hwf n h

/-- **cancel is the identity** — whatever the cancelled writer did (deletions included).
*Definitional*: the model's `Toc.session … .cancel` returns the TOC it started from by definition
(a writer's changes live in the `Writer` value, which a cancel discards), so this theorem only
records that modelling decision; that the real `cancel()` leaves TOC, segments and deleted sets
untouched is what the check compares (dump before/after every cancelled session). -/
theorem cancel_identity (t : Toc) (ops : List Op) : t.session ops .cancel = .ok t := rfl

/-- **unique_invariant.** An index maintained under the key discipline (`HistDisc`: keyed documents
are written with `update_document`, every key at most once per writer — cancelled writers
included —, `add_document` only for documents without key terms; `K` says which (field, term)
pairs are keys, every written document carries exactly its own unique terms as key terms) holds,
after every commit, at most one live document per key; every `update_document` of such a history
is unambiguous, so the history also satisfies `refines_dict` (`HistOK`) and the index holds exactly
the dictionary's documents.  Scope: `HistDisc` admits the *plain* calls only (add, update, delete
by number / by query); a history with an un-delete (can resurrect a second document of a key) or a
schema change is outside this theorem.  The conclusion is "at most one live document per key" —
a key whose document was deleted has none. -/
theorem unique_invariant (K : Nat → Nat → Bool) (t : Toc) (sp : State) (hwf : t.WF) (h : Rel t sp)
    (hinv : KeyInv K sp.docs) (hist : List (List Op × Ending × SEnd)) (hd : HistDisc K t sp hist) :
    HistOK t sp hist ∧ ∃ t' sp', lockstep t sp hist = .ok (t', sp') ∧ t'.WF ∧ t'.content.Perm sp'.docs ∧
      KeyInv K t'.content := by
  obtain ⟨hok, t', sp', h1, wf', rel', inv', _⟩ := history_unique K hist t sp hwf h hinv hd
  exact ⟨hok, t', sp', h1, wf', rel'.docs, inv'.perm rel'.docs.symm⟩

/-- **unique_keys.** The instance for the schema's own unique fields (`K f _ := sc.isUnique f`):
an index whose content satisfies the specification's `UniqueKeys` and which is maintained under the
key discipline satisfies `UniqueKeys` (for its unchanged schema) after every commit. -/
theorem unique_keys (t : Toc) (sp : State) (hwf : t.WF) (h : Rel t sp) (huk : UniqueKeys sp.schema sp.docs)
    (hist : List (List Op × Ending × SEnd)) (hd : HistDisc (fun f _ => sp.schema.isUnique f) t sp hist) :
    ∃ t' sp', lockstep t sp hist = .ok (t', sp') ∧ t'.WF ∧ t'.schema = t.schema ∧ t'.content.Perm sp'.docs ∧
      UniqueKeys t'.schema t'.content := by
  obtain ⟨_, t', sp', h1, wf', rel', inv', hs⟩ := history_unique _ hist t sp hwf h huk hd
  have hsc : t'.schema = sp.schema := by rw [← rel'.schema, hs]
  refine ⟨t', sp', h1, wf', by rw [hsc, h.schema], rel'.docs, ?_⟩
  rw [hsc]
  exact inv'.perm rel'.docs.symm

/-- **postings_exact.** The posting read path of a committed index: `reader.postings(f, t)` with
the deleted-documents filter (`Toc.postingDocs`, what `Term(f, t)` searches iterate) yields exactly
the global numbers of the live documents whose visible data carry the term — never a deleted
document, never a document of a removed field, and every live carrier. -/
theorem postings_exact (t : Toc) (hwf : t.WF) (f tm n : Nat) :
    n ∈ t.postingDocs f tm ↔ ∃ q ∈ liveGlobal t.segs 0, q.2 = n ∧ (restrict t.schema q.1).hasTerm f tm = true :=
  postingDocs_exact t hwf f tm n

/-- The full statement about `update_document` ("deletes *every* committed document with the
    same unique value"), i.e. `refines_dict_step` without the `Unambiguous` side condition. -/
def update_all_full : Prop :=
  ∀ (w : Writer) (ss : Sess) (d : DocRec), SRel w ss → w.WF →
    SRel (w.step (.update d)).1 (ss.step (w.specOp (.update d)))

/-! ### the witness against `update_all_full`, and non-vacuity of the theorems above -/

namespace Witness

def sc : Schema := { fields := [0, 1], uniques := [1] }
/-- a document whose unique field 1 carries key term 7 -/
def keyed (key st : Nat) : DocRec :=
  { key := key, fields := [{ fld := 1, stored := some st, toks := [⟨7, 1, 0⟩], len := 0, col := none, vec := none,
                             ukey := some 7 }] }
def plain (key t : Nat) : DocRec :=
  { key := key, fields := [{ fld := 0, stored := none, toks := [⟨t, 1, 0⟩, ⟨t + 1, 2, 0⟩], len := 3, col := none,
                             vec := none, ukey := none }] }

/-- two live committed documents with the same key (written by two `add_document` calls) -/
def seg : Seg := { docs := [keyed 0 10, keyed 1 11], posts := [⟨1, 7, 0, 1, 0⟩, ⟨1, 7, 1, 1, 0⟩], deleted := [] }
def w : Writer := { schema := sc, segs := [seg], gen := 1, ndocs := [], pool := [], added := false }
def ss : Sess := { schema := sc, committed := [keyed 0 10, keyed 1 11], fresh := [] }

theorem seg_wf : seg.WF := ⟨by decide, by decide, by decide, by decide⟩
theorem w_wf : w.WF := ⟨by intro s hs; simp only [w, List.mem_singleton] at hs; subst hs; exact seg_wf, by decide⟩
theorem w_srel : SRel w ss := ⟨rfl, by decide, rfl, by decide, fun _ => rfl⟩

end Witness

/-- `update_document` deletes only the *first* live posting of the key (`first_id`): with two live
    documents carrying the key, one survives, while the specification deletes both. -/
theorem update_all_full_false : ¬ update_all_full := by
  intro h
  have h1 := (h Witness.w Witness.ss (Witness.keyed 2 12) Witness.w_srel Witness.w_wf).committed
  revert h1
  decide

/-- non-vacuity of `refines_dict_step`: an unambiguous update (one live document with the key). -/
example : ∃ w ss d, SRel w ss ∧ w.WF ∧ OpOK w ss (.update d) ∧ (w.step (.update d)).1.ndocs = [d] ∧
    contentOf (w.step (.update d)).1.schema (w.step (.update d)).1.segs = [Witness.plain 5 3] :=
  ⟨{ Witness.w with segs := [{ docs := [Witness.keyed 0 10, Witness.plain 5 3],
                                posts := [⟨0, 3, 1, 1, 0⟩, ⟨0, 4, 1, 2, 0⟩, ⟨1, 7, 0, 1, 0⟩], deleted := [] }] },
   { Witness.ss with committed := [Witness.keyed 0 10, Witness.plain 5 3] }, Witness.keyed 2 12,
   ⟨rfl, by decide, rfl, by decide, fun _ => rfl⟩,
   ⟨by intro s hs; simp only [List.mem_singleton] at hs; subst hs; exact ⟨by decide, by decide, by decide, by decide⟩,
    by decide⟩,
   by show Unambiguous _ _; unfold Unambiguous; decide, by decide, by decide⟩

/-- non-vacuity of `refines_dict`: two successive writers on an empty index (add two documents and
    commit with MERGE_SMALL; delete by term, update, commit with OPTIMIZE) satisfy `HistOK`. -/
example : HistOK { schema := Witness.sc, segs := [], gen := 0 } { schema := Witness.sc, docs := [] }
    [([.update (Witness.keyed 0 10), .add (Witness.plain 5 3)], .commit planMergeSmall, .commit),
     ([.delBy (.term 0 4), .update (Witness.keyed 2 12)], .commit planOptimize, .commit)] := by
  refine ⟨EndRel.commit _ planMergeSmall_ok, ⟨by show Unambiguous _ _; unfold Unambiguous; decide, trivial, trivial⟩, ?_⟩
  intro t' _
  refine ⟨EndRel.commit _ planOptimize_ok, ⟨trivial, ?_, trivial⟩, fun _ _ => trivial⟩
  show Unambiguous _ _
  simp only [Writer.specOp]
  unfold Unambiguous
  decide

/-- a document whose unique field 1 carries key term `t` -/
def Witness.keyedT (key st t : Nat) : DocRec :=
  { key := key, fields := [{ fld := 1, stored := some st, toks := [⟨t, 1, 0⟩], len := 0, col := none, vec := none,
                             ukey := some t }] }

theorem Witness.keyedT_wf (key st t : Nat) : DocKeyWF (fun f _ => f == 1) Witness.sc (Witness.keyedT key st t) := by
  constructor
  · intro ft hft
    simp [uniqTerms, Witness.keyedT, Witness.sc, Schema.isUnique] at hft
    subst hft; rfl
  · intro f t' _ ht
    simp only [DocRec.hasTerm, Witness.keyedT, List.any_cons, List.any_nil, Bool.or_false, Bool.and_eq_true,
      beq_iff_eq] at ht
    obtain ⟨rfl, rfl⟩ := ht
    simp [uniqTerms, Witness.keyedT, Witness.sc, Schema.isUnique]

/-- non-vacuity of `unique_invariant`: one writer on the empty index updates key 7, adds a keyless
    document, deletes by term and updates key 8 — this satisfies the discipline for
    `K f t := f == 1` (field 1 is the unique field). -/
theorem Witness.hist_disc : HistDisc (fun f _ => f == 1) { schema := Witness.sc, segs := [], gen := 0 } { schema := Witness.sc, docs := [] }
    [([.update (Witness.keyedT 0 10 7), .add (Witness.plain 5 3), .delBy (.term 0 4), .update (Witness.keyedT 1 11 8)],
      .commit planMergeSmall, .commit)] := by
  refine ⟨EndRel.commit _ planMergeSmall_ok, by decide, ?_, ?_, fun _ _ => trivial⟩
  · intro d hd
    simp only [List.mem_cons, Op.update.injEq, reduceCtorEq, List.not_mem_nil, or_false, false_or] at hd
    rcases hd with rfl | rfl <;> decide
  · have e : ({ schema := Witness.sc, segs := [], gen := 0 } : Toc).writer.specOps
        [.update (Witness.keyedT 0 10 7), .add (Witness.plain 5 3), .delBy (.term 0 4), .update (Witness.keyedT 1 11 8)]
        = [.update (Witness.keyedT 0 10 7), .add (Witness.plain 5 3), .deleteWhere (fun d => d.hasTerm 0 4),
           .update (Witness.keyedT 1 11 8)] := by
      simp only [Writer.specOps, Writer.specOp]
      rfl
    rw [e]
    refine ⟨Witness.keyedT_wf 0 10 7, by simp, ⟨?_, ⟨Witness.keyedT_wf 1 11 8, ?_, trivial⟩⟩⟩
    · intro f t hk
      have hf : f = 1 := by simpa using hk
      subst hf
      simp [DocRec.hasTerm, Witness.plain]
    · intro ft hft
      simp [uniqTerms, Witness.keyedT, Witness.sc, Schema.isUnique] at hft ⊢
      subst hft
      simp

theorem Witness.isUnique_eq : (fun (f _ : Nat) => Witness.sc.isUnique f) = (fun f _ => f == 1) := by
  funext f _
  by_cases h : f = 1
  · subst h; rfl
  · simp [Witness.sc, Schema.isUnique, h]

/-- non-vacuity of `unique_keys`: the same history satisfies the discipline for the schema's own
    unique fields, and the empty content satisfies `UniqueKeys` -/
example : UniqueKeys Witness.sc [] ∧
    HistDisc (fun f _ => ({ schema := Witness.sc, docs := [] } : State).schema.isUnique f)
      { schema := Witness.sc, segs := [], gen := 0 } { schema := Witness.sc, docs := [] }
      [([.update (Witness.keyedT 0 10 7), .add (Witness.plain 5 3), .delBy (.term 0 4), .update (Witness.keyedT 1 11 8)],
        .commit planMergeSmall, .commit)] := by
  refine ⟨fun _ _ _ => Nat.zero_le _, ?_⟩
  show HistDisc (fun f _ => Witness.sc.isUnique f) _ _ _
  rw [Witness.isUnique_eq]
  exact Witness.hist_disc

/-- `postings_exact` on the witness index after deleting document 0: the term's postings yield
    document 1 only -/
example : (({ schema := Witness.sc, segs := [Witness.seg.deleteDocument 0 true], gen := 2 } : Toc).postingDocs 1 7) = [1] := by
  decide

/-- non-vacuity of `undelete`: deleting document 0 of the witness writer and un-deleting it gives
    the two live documents back -/
example : ((Witness.w.deleteDocument 0 true).bind (fun w => w.deleteDocument 0 false)).toOption.map
    (fun w => (liveGlobal w.segs 0).map (·.2)) = some [0, 1] := by decide

end WM.C07
