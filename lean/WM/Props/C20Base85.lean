import WM.Lemmas.Base85
/-! C20 (base 85): `from_base85(to_base85(x)) = x` on the 5/10-character range, fixed width. -/
set_option linter.unusedSimpArgs false
namespace WM.C20
open WM.Base85

/-- the alphabet is strictly ascending: encoded text sorts like the numbers do -/
theorem b85_chars_ascending : chars.Pairwise (· < ·) := by decide

/-- `to_base85` always yields `size` characters of the alphabet, and `from_base85` gives the number
    back when it is below `85^size` (5 characters: `< 85^5`, which covers 32 bits; 10: 64 bits). -/
theorem b85_roundtrip (x : Nat) (islong : Bool) (h : x < 85 ^ (if islong then 10 else 5)) :
    ∃ cs, toBase85 x islong = some cs ∧ cs.length = (if islong then 10 else 5) ∧ fromBase85 cs = some x := by
  unfold toBase85 fromBase85
  rcases fromBase85_chars (digits (if islong then 10 else 5) x []) 0
      (digits_lt _ x [] (by simp)) with ⟨cs, h1, h2, h3⟩
  refine ⟨cs, h1, by rw [h2, length_digits]; simp, ?_⟩
  rw [h3]
  have := value_digits (if islong then 10 else 5) x
  unfold value at this
  rw [this, Nat.mod_eq_of_lt h]

/-- 2^32 − 1 fits five characters, 2^64 − 1 ten. -/
example : (toBase85 4294967295 false).bind fromBase85 = some 4294967295
    ∧ toBase85 0 false = some [33, 33, 33, 33, 33] ∧ (4294967295 : Nat) < 85 ^ 5 ∧ (2 ^ 64 - 1 : Nat) < 85 ^ 10 := by
  decide

end WM.C20
