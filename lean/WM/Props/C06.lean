import WM.Lemmas.IndexStats
import WM.Lemmas.IndexGroup
import WM.Lemmas.IndexLayout
import WM.Lemmas.IndexBuild
import WM.Lemmas.IndexPartition
import WM.Lemmas.IndexReadd
/-!
# C06 — segment layout is invisible

The logical content of an index (the multiset of visible live documents, from which lexicon,
postings, lengths, vectors, columns and every query answer derive) depends only on the
document-level operations, not on how commits were split or which merge policy ran.
-/
namespace WM.C06
open WM.Dict WM.Index

/-- the empty index over a schema -/
def emptyToc (sc : Schema) : Toc := { schema := sc, segs := [], gen := 0 }

/-- the reference build: one writer adds the documents, one optimised commit -/
def buildOnce (sc : Schema) (docs : List DocRec) : Except Err Toc :=
  (emptyToc sc).session (docs.map .add) (.commit planOptimize)

/-- The single optimised build of a list of documents that fit the schema succeeds and holds
    exactly those documents. -/
theorem buildOnce_content (sc : Schema) (docs : List DocRec) (h : ∀ d ∈ docs, d.fits sc = true) :
    ∃ tref, buildOnce sc docs = .ok tref ∧ tref.WF ∧ tref.schema = sc ∧ tref.content.Perm docs := by
  have hrel : Rel (emptyToc sc) { schema := sc, docs := [] } := ⟨rfl, by simp [emptyToc, Toc.content, contentOf]⟩
  have hwf : (emptyToc sc).WF := by intro s hs; simp [emptyToc] at hs
  obtain ⟨hspec, hrun⟩ := specOps_adds (ss := ({ schema := sc, docs := [] } : State).open_) (emptyToc sc).writer docs h
  obtain ⟨t', h1, wf', rel'⟩ := session_sim (emptyToc sc) _ hwf hrel (docs.map .add) (.commit planOptimize) .commit
    (EndRel.commit _ planOptimize_ok) hrun
  rw [hspec, run_adds_spec] at rel'
  exact ⟨t', h1, wf', rel'.schema.symm, rel'.docs⟩

/-- **content.** Whatever the history — any partition of the calls into writer sessions, any merge
choice at each commit (NO_MERGE, MERGE_SMALL, OPTIMIZE, any custom policy that re-arranges, CLEAR),
cancelled sessions in between — the index holds, as a multiset of visible documents, exactly what
the single optimised build of the dictionary's final documents holds. -/
theorem content (t : Toc) (sp : State) (hwf : t.WF) (h : Rel t sp)
    (hist : List (List Op × Ending × SEnd)) (hok : HistOK t sp hist) :
    ∃ t' sp' tref, lockstep t sp hist = .ok (t', sp') ∧ buildOnce sp'.schema sp'.docs = .ok tref ∧
      t'.WF ∧ tref.WF ∧ t'.schema = tref.schema ∧ t'.content.Perm tref.content := by
  obtain ⟨t', sp', h1, wf', rel'⟩ := history_sim t sp hwf h hist hok
  obtain ⟨tref, h2, wfr, hs, hc⟩ := buildOnce_content sp'.schema sp'.docs (spec_docs_fit t' sp' rel')
  exact ⟨t', sp', tref, h1, h2, wf', wfr, by rw [hs, rel'.schema], rel'.docs.trans hc.symm⟩

/-- **postings_content.** The term index is determined by the content.  (1) `iter_postings()` of a
whole well-formed index (deleted documents filtered) is, as a multiset, exactly the postings of the
visible data of the live documents at their global numbers.  (2) Hence two well-formed indexes with
the same schema and the same content (any two layouts — e.g. `t'` and `tref` of `content`) hold
the same multiset of (field, term, weight, value) postings.  (3) The posting read path:
`reader.postings(f, t)` yields exactly the numbers of the live documents carrying the term. -/
theorem postings_content :
    (∀ (t : Toc), t.WF → (globalPosts t.schema t.segs 0).Perm
        ((liveGlobal t.segs 0).flatMap (fun q => docPostings (restrict t.schema q.1) q.2))) ∧
    (∀ (t1 t2 : Toc), t1.WF → t2.WF → t1.schema = t2.schema → t1.content.Perm t2.content →
      ((globalPosts t1.schema t1.segs 0).map (fun p => (p.fld, p.term, p.w, p.v))).Perm
        ((globalPosts t2.schema t2.segs 0).map (fun p => (p.fld, p.term, p.w, p.v)))) ∧
    (∀ (t : Toc), t.WF → ∀ f tm n, n ∈ t.postingDocs f tm ↔
      ∃ q ∈ liveGlobal t.segs 0, q.2 = n ∧ (restrict t.schema q.1).hasTerm f tm = true) :=
  ⟨fun t hwf => globalPosts_perm t.schema t.segs 0 (fun s hs => (hwf s hs).posts),
   fun t1 t2 h1 h2 _ hc => (globalPosts_content t1 h1).trans
     (((hc.flatMap_right _).map _).trans (globalPosts_content t2 h2).symm),
   fun t hwf f tm n => postingDocs_exact t hwf f tm n⟩

/-- **partition_invisible.** The partition of the additions into commits is invisible.
(1) At the level of the specification: any two ways of cutting the same list of added documents
into committed sessions reach the same dictionary state.  (2) For the index: the same, each session
committed under its own re-arranging merge policy — both histories succeed, stay well-formed and
hold the same documents.  (3) Within a history: after any calls `ops`, adding `adds` in the same
writer session or committing first and adding them through a second writer gives the same
content. -/
theorem partition_invisible :
    (∀ (sp : State) (p1 p2 : List (List DocRec)), p1.flatten = p2.flatten → sp.addSessions p1 = sp.addSessions p2) ∧
    (∀ (t : Toc) (sp : State), t.WF → Rel t sp → ∀ (p1 p2 : List (List DocRec × Plan)),
      (∀ x ∈ p1, PlanOK x.2) → (∀ x ∈ p2, PlanOK x.2) →
      (∀ x ∈ p1, ∀ d ∈ x.1, d.fits sp.schema = true) → (∀ x ∈ p2, ∀ d ∈ x.1, d.fits sp.schema = true) →
      (p1.map (·.1)).flatten = (p2.map (·.1)).flatten →
      ∃ ta tb, t.history (p1.map (fun x => (x.1.map Op.add, Ending.commit x.2))) = .ok ta ∧
        t.history (p2.map (fun x => (x.1.map Op.add, Ending.commit x.2))) = .ok tb ∧
        ta.WF ∧ tb.WF ∧ ta.schema = tb.schema ∧ ta.content.Perm tb.content) ∧
    (∀ (t : Toc) (sp : State), t.WF → Rel t sp → ∀ (ops : List Op) (adds : List DocRec) (p p1 p2 : Plan),
      PlanOK p → PlanOK p1 → PlanOK p2 → RunOK t.writer sp.open_ ops →
      ∃ ta tb, t.history [(ops ++ adds.map .add, .commit p)] = .ok ta ∧
        t.history [(ops, .commit p1), (adds.map .add, .commit p2)] = .ok tb ∧
        ta.WF ∧ tb.WF ∧ ta.schema = tb.schema ∧ ta.content.Perm tb.content) :=
  ⟨State.addSessions_partition,
   fun t sp hwf h p1 p2 h1 h2 hf1 hf2 hs => WM.Index.partition_invisible t sp hwf h p1 p2 h1 h2 hf1 hf2 hs,
   fun t sp hwf h ops adds p p1 p2 hp hp1 hp2 hok => session_split_adds t sp hwf h ops adds p p1 p2 hp hp1 hp2 hok⟩

/-- **postings_renumber.** `add_reader` of a well-formed segment never raises; the postings it
feeds to the pool are the segment's live postings of schema fields with each doc number `i`
replaced by `docmap[i]` (`newnum`: `base` + the rank of `i` among the live numbers), and they are
exactly the postings of the copied (restricted) documents under their new numbers. -/
theorem postings_renumber (sc : Schema) (s : Seg) (base : Nat) (hwf : s.WF) :
    (s.livePosts sc).mapM (renumber s base)
        = some ((s.livePosts sc).map (fun p => { p with doc := newnum s base p.doc })) ∧
    ((s.livePosts sc).map (fun p => { p with doc := newnum s base p.doc })).Perm
        (allPostings (s.liveDocs.map (restrict sc)) base) ∧
    (∀ q j, (q, j) ∈ s.liveIdx.zipIdx → newnum s base q.2 = base + j) := by
  obtain ⟨ps, h1, h2⟩ := livePosts_renumber sc s base hwf.posts
  have hall : ∀ p ∈ s.livePosts sc, renumber s base p = some { p with doc := newnum s base p.doc } := by
    intro p hp
    have hlive : (s.livePosts sc).Perm (s.liveIdx.flatMap (fun q => docPostings (restrict sc q.1) q.2)) := by
      rw [← allPostings_filter_live]; exact hwf.posts.filter _
    have hp' := hlive.mem_iff.mp hp
    simp only [List.mem_flatMap] at hp'
    obtain ⟨q, hq, hpq⟩ := hp'
    exact renumber_eq s base p q hq (docPostings_doc _ _ p hpq)
  have h3 := mapM_eq_map (s.livePosts sc) (renumber s base)
    (fun p : Posting => ({ p with doc := newnum s base p.doc } : Posting)) hall
  rw [h3] at h1
  simp only [Option.some.injEq] at h1
  exact ⟨h3, h1 ▸ h2, fun q j hq => newnum_eq s base q j hq⟩

/-- After any commit every segment's term index is *the* sorted posting list of its per-document
    data (so merged postings are the old ones, renumbered, in order). -/
theorem postings_canonical (s : Seg) (hwf : s.WF) : s.posts = (allPostings s.docs).mergeSort Posting.le :=
  sorted_perm_eq hwf.sorted (mergeSort_sorted _) (hwf.posts.trans (List.mergeSort_perm _ _).symm)

/-- **stats.** Without deleted documents, document frequency, total term weight, total field
length and document count (hence every score) are functions of the multiset of live documents:
two indexes with the same schema and the same content agree on them, whatever their layouts. -/
theorem stats (t1 t2 : Toc) (h1 : t1.WF) (h2 : t2.WF) (n1 : NoDeletions t1) (n2 : NoDeletions t2)
    (hs : t1.schema = t2.schema) (hc : t1.content.Perm t2.content) (f tm : Nat) (hf : t1.schema.has f = true) :
    t1.docFrequency f tm = t2.docFrequency f tm ∧ t1.termWeight f tm = t2.termWeight f tm ∧
    t1.fieldLength f = t2.fieldLength f ∧ t1.docCount = t2.docCount := by
  have hf2 : t2.schema.has f = true := hs ▸ hf
  refine ⟨?_, ?_, ?_, ?_⟩
  · rw [docFrequency_eq_sum t1 h1 n1 f tm hf, docFrequency_eq_sum t2 h2 n2 f tm hf2]
    exact (hc.map _).sum_nat
  · rw [termWeight_eq_sum t1 h1 n1 f tm hf, termWeight_eq_sum t2 h2 n2 f tm hf2]
    exact (hc.map _).sum_nat
  · rw [fieldLength_eq_sum t1 n1 f hf, fieldLength_eq_sum t2 n2 f hf2]
    exact (hc.map _).sum_nat
  · rw [Toc.docCount_eq t1 h1, Toc.docCount_eq t2 h2]
    exact hc.length_eq

/-- **optimize_purges.** After `commit(optimize=True)` there is at most one segment, it has no
deleted documents, and neither its per-document data nor its term index mention a field that is
not in the schema (removed fields are physically gone). -/
theorem optimize_purges (w : Writer) (hwf : w.WF) (hfits : ∀ d ∈ w.ndocs, d.fits w.schema = true) (t' : Toc)
    (h : w.commitPlan planOptimize = .ok t') :
    t'.segs.length ≤ 1 ∧ NoDeletions t' ∧
    (∀ s ∈ t'.segs, (∀ d ∈ s.docs, d.fits t'.schema = true) ∧ ∀ p ∈ s.posts, t'.schema.has p.fld = true) := by
  unfold Writer.commitPlan at h
  cases h1 : w.addReaders (planOptimize w.segs).1 with
  | error e => simp [h1, Except.map] at h
  | ok w1 =>
    simp only [h1, Except.map, Except.ok.injEq] at h
    obtain ⟨b1, _, _, _, b5⟩ := Writer.addReaders_fields w _ w1 h1
    obtain ⟨w1', h1', wf1⟩ := Writer.addReaders_ok w (planOptimize w.segs).1 hwf (fun s hs => hwf.segs s hs)
    rw [h1] at h1'; cases h1'
    subst h
    have hdocs : ∀ d ∈ w1.ndocs, d.fits w1.schema = true := by
      intro d hd
      rw [b5, List.mem_append] at hd
      rw [b1]
      rcases hd with hd | hd
      · exact hfits d hd
      · simp only [contentOf, List.mem_flatMap, List.mem_map] at hd
        obtain ⟨s, _, x, _, rfl⟩ := hd
        exact restrict_fits _ _
    refine ⟨?_, ?_, ?_⟩
    · simp only [planOptimize]; split <;> simp
    · intro s hs
      simp only [planOptimize, List.nil_append] at hs
      split at hs
      · simp only [List.mem_singleton] at hs; subst hs; rfl
      · simp at hs
    · intro s hs
      simp only [planOptimize, List.nil_append] at hs
      split at hs
      · simp only [List.mem_singleton] at hs
        subst hs
        refine ⟨hdocs, ?_⟩
        intro p hp
        have hp' : p ∈ allPostings w1.ndocs :=
          (wf1.pool.mem_iff).mp ((List.mergeSort_perm _ _).mem_iff.mp hp)
        simp only [allPostings, List.mem_flatMap] at hp'
        obtain ⟨q, hq, hpq⟩ := hp'
        have hq' : q.1 ∈ w1.ndocs := by
          have := List.mem_zipIdx (x := q.1) (i := q.2) hq
          rw [this.2.2]; exact List.getElem_mem _
        have hfit := hdocs q.1 hq'
        simp only [docPostings, List.mem_flatMap, List.mem_map] at hpq
        obtain ⟨fd, hfd, k, _, rfl⟩ := hpq
        simp only [DocRec.fits, List.all_eq_true] at hfit
        exact hfit fd hfd
      · simp at hs

/-- **layout_invisible.** Take two indexes that hold the same documents in different layouts
(both related to one dictionary state), run the same layout-free calls (everything except
deletion by doc number) on a writer of each, and end the two sessions under two *different* merge
policies: both commits succeed and the results are again two layouts of one and the same
dictionary state.  (Iterating this over sessions compares whole histories.) -/
theorem layout_invisible (t1 t2 : Toc) (sp : State) (h1 : t1.WF) (h2 : t2.WF) (r1 : Rel t1 sp) (r2 : Rel t2 sp)
    (ops : List Op) (hfree : ∀ op ∈ ops, op.layoutFree = true) (e1 e2 : Ending) (se : SEnd)
    (he1 : EndRel e1 se) (he2 : EndRel e2 se)
    (hok1 : RunOK t1.writer sp.open_ ops) (hok2 : RunOK t2.writer sp.open_ ops) :
    ∃ t1' t2' sp', t1.session ops e1 = .ok t1' ∧ t2.session ops e2 = .ok t2' ∧ t1'.WF ∧ t2'.WF ∧
      t1'.schema = t2'.schema ∧ t1'.content.Perm t2'.content ∧ Rel t1' sp' ∧ Rel t2' sp' := by
  obtain ⟨t1', t2', sp', s1, s2, w1, w2, rel1, rel2⟩ := layout_session t1 t2 sp h1 h2 r1 r2 ops hfree e1 e2 se he1 he2 hok1 hok2
  exact ⟨t1', t2', sp', s1, s2, w1, w2, by rw [← rel1.schema, ← rel2.schema], rel1.docs.trans rel2.docs.symm, rel1, rel2⟩

/-- **group_adjacent.** (1) Documents a writer adds consecutively (a `start_group`/`end_group`
block, for the plain writer any consecutive run) are adjacent and in order in the segment it
commits, under every merge policy; (2) documents adjacent among the live documents of a segment
are adjacent, in the same order, after the next commit of any writer — in that segment when the
policy leaves it alone, in the merged one when it goes through `add_reader`; (3) deleting
documents keeps the remaining members of an adjacent run adjacent. -/
theorem group_adjacent :
    (∀ (w : Writer) (plan : Plan) (t' : Toc), w.commitPlan plan = .ok t' → (w.added = false → w.ndocs = []) →
      ∀ pre g post : List DocRec, w.ndocs = pre ++ g ++ post → g ≠ [] → ∃ s ∈ t'.segs, g <:+: s.liveDocs) ∧
    (∀ (w : Writer) (plan : Plan) (t' : Toc), w.commitPlan plan = .ok t' →
      ∀ s, (s ∈ (plan w.segs).1 ∨ s ∈ (plan w.segs).2) → ∀ g : List DocRec, g <:+: s.liveDocs →
        ∃ s' ∈ t'.segs, g.map (restrict w.schema) <:+: s'.liveDocs.map (restrict w.schema)) ∧
    (∀ (s : Seg) (l : Nat) (G : List (DocRec × Nat)), G <:+: s.liveIdx →
      G.filter (fun p => p.2 != l) <:+: (s.deleteDocument l true).liveIdx) :=
  ⟨fun w plan t' h hna pre g post hg hne => group_commit w plan t' h hna pre g post hg hne,
   fun w plan t' h s hs g hg => group_merge w plan t' h s hs g hg,
   fun s l G hG => group_delete s l G hG⟩

/-- **group_history.** The composition of (1) and (2) over a history: a writer adds the block `g`
(between other documents) and commits; afterwards any number of writers add documents and commit,
each under its own re-arranging merge policy (NO_MERGE, MERGE_SMALL, OPTIMIZE, …) — through every
one of these merges the members of `g` stay adjacent and in order among the live documents of one
segment of the final index.  (Sessions that delete or change the schema after the group was
committed are covered by the single-step facts (2), (3) only.) -/
theorem group_history (t : Toc) (pre g post : List DocRec) (hne : g ≠ []) (plan : Plan) (t1 : Toc)
    (h1 : t.session ((pre ++ g ++ post).map .add) (.commit plan) = .ok t1)
    (hfit : ∀ d ∈ pre ++ g ++ post, d.fits t.schema = true)
    (later : List (List DocRec × Plan)) (hp : ∀ x ∈ later, PlanOK x.2) (t2 : Toc)
    (h2 : t1.history (later.map (fun x => (x.1.map Op.add, Ending.commit x.2))) = .ok t2) :
    t2.schema = t.schema ∧ ∃ s ∈ t2.segs, g.map (restrict t.schema) <:+: s.liveDocs.map (restrict t.schema) :=
  WM.Index.group_history t pre g post hne plan t1 h1 hfit later hp t2 h2

/-! ### non-vacuity -/

namespace Ex
def sc : Schema := { fields := [0, 1], uniques := [] }
def doc (key t : Nat) : DocRec :=
  { key := key, fields := [{ fld := 0, stored := some key, toks := [⟨t, 1, 0⟩, ⟨t + 1, 2, 0⟩], len := 3, col := none,
                             vec := none, ukey := none },
                           { fld := 2, stored := none, toks := [⟨9, 1, 0⟩], len := 1, col := none, vec := none,
                             ukey := none }] }
/-- a segment with a deleted document and a field (2) that is no longer in the schema -/
def seg : Seg :=
  { docs := [doc 0 3, doc 1 3, doc 2 5],
    posts := [⟨0, 3, 0, 1, 0⟩, ⟨0, 3, 1, 1, 0⟩, ⟨0, 4, 0, 2, 0⟩, ⟨0, 4, 1, 2, 0⟩, ⟨0, 5, 2, 1, 0⟩, ⟨0, 6, 2, 2, 0⟩,
              ⟨2, 9, 0, 1, 0⟩, ⟨2, 9, 1, 1, 0⟩, ⟨2, 9, 2, 1, 0⟩],
    deleted := [1] }
theorem seg_wf : seg.WF := ⟨by decide, by decide, by decide, by decide⟩
def segA : Seg := { docs := [restrict sc (doc 0 3)], posts := [⟨0, 3, 0, 1, 0⟩, ⟨0, 4, 0, 2, 0⟩], deleted := [] }
def segB : Seg := { docs := [restrict sc (doc 2 3)], posts := [⟨0, 3, 0, 1, 0⟩, ⟨0, 4, 0, 2, 0⟩], deleted := [] }
def segBA : Seg := { docs := [restrict sc (doc 2 3), restrict sc (doc 0 3)],
                     posts := [⟨0, 3, 0, 1, 0⟩, ⟨0, 3, 1, 1, 0⟩, ⟨0, 4, 0, 2, 0⟩, ⟨0, 4, 1, 2, 0⟩], deleted := [] }
end Ex

/-- `postings_renumber` on a segment with a deletion: old numbers 0, 2 become 10, 11; the removed
    field's postings are dropped. -/
example : (Ex.seg.livePosts Ex.sc).mapM (renumber Ex.seg 10)
    = some [⟨0, 3, 10, 1, 0⟩, ⟨0, 4, 10, 2, 0⟩, ⟨0, 5, 11, 1, 0⟩, ⟨0, 6, 11, 2, 0⟩] := by decide

/-- `stats`: two layouts of the same two documents (two segments / one merged segment). -/
example : ∃ t1 t2 : Toc, t1.WF ∧ t2.WF ∧ NoDeletions t1 ∧ NoDeletions t2 ∧ t1.schema = t2.schema ∧
    t1.content.Perm t2.content ∧ t1.segs.length ≠ t2.segs.length ∧ t1.docFrequency 0 3 = 2 :=
  ⟨{ schema := Ex.sc, segs := [Ex.segA, Ex.segB], gen := 2 }, { schema := Ex.sc, segs := [Ex.segBA], gen := 1 },
   by intro s hs; simp only [List.mem_cons, List.not_mem_nil, or_false] at hs
      rcases hs with rfl | rfl <;> exact ⟨by decide, by decide, by decide, by decide⟩,
   by intro s hs; simp only [List.mem_singleton] at hs; subst hs; exact ⟨by decide, by decide, by decide, by decide⟩,
   by intro s hs; simp only [List.mem_cons, List.not_mem_nil, or_false] at hs; rcases hs with rfl | rfl <;> rfl,
   by intro s hs; simp only [List.mem_singleton] at hs; subst hs; rfl,
   rfl, by decide, by decide, by decide⟩

/-- `optimize_purges` / `content`: a writer over the segment above (one deletion, one removed
    field) is well-formed; the history hypotheses are inhabited (see also `WM.C07`). -/
example : ({ schema := Ex.sc, segs := [Ex.seg], gen := 3 } : Toc).writer.WF ∧
    Rel { schema := Ex.sc, segs := [Ex.seg], gen := 3 } { schema := Ex.sc, docs := [restrict Ex.sc (Ex.doc 2 5), restrict Ex.sc (Ex.doc 0 3)] } ∧
    HistOK { schema := Ex.sc, segs := [Ex.seg], gen := 3 } { schema := Ex.sc, docs := [restrict Ex.sc (Ex.doc 2 5), restrict Ex.sc (Ex.doc 0 3)] }
      [([.delBy (.term 0 5), .add (restrict Ex.sc (Ex.doc 7 8))], .commit planOptimize, .commit)] :=
  ⟨Toc.writer_wf _ (by intro s hs; simp only [List.mem_singleton] at hs; subst hs; exact Ex.seg_wf),
   ⟨rfl, by decide⟩,
   ⟨EndRel.commit _ planOptimize_ok, ⟨trivial, trivial, trivial⟩, fun _ _ => trivial⟩⟩

namespace Ex
def tTwo : Toc := { schema := sc, segs := [segA, segB], gen := 2 }
def tOne : Toc := { schema := sc, segs := [segBA], gen := 1 }
def spTwo : State := { schema := sc, docs := [restrict sc (doc 0 3), restrict sc (doc 2 3)] }
def calls : List Op := [.add (restrict sc (doc 7 8)), .delBy (.pred (fun d => d.key == 0)), .add (restrict sc (doc 8 8))]
end Ex

/-- `layout_invisible` is not vacuous: the two layouts of the `stats` example are related to one
    dictionary state, the calls (add, delete by query, add) are layout-free and admissible on both;
    under OPTIMIZE on one and NO_MERGE on the other the layouts differ and the documents agree. -/
example : Ex.tTwo.WF ∧ Ex.tOne.WF ∧ Rel Ex.tTwo Ex.spTwo ∧ Rel Ex.tOne Ex.spTwo ∧
    (∀ op ∈ Ex.calls, op.layoutFree = true) ∧
    RunOK Ex.tTwo.writer Ex.spTwo.open_ Ex.calls ∧ RunOK Ex.tOne.writer Ex.spTwo.open_ Ex.calls ∧
    (Ex.tTwo.session Ex.calls (.commit planOptimize)).toOption.map (fun t => t.segs.map (fun s => s.liveDocs.map (·.key)))
      = some [[7, 8, 2]] ∧
    (Ex.tOne.session Ex.calls (.commit planNoMerge)).toOption.map (fun t => t.segs.map (fun s => s.liveDocs.map (·.key)))
      = some [[2], [7, 8]] :=
  ⟨by intro s hs; simp only [Ex.tTwo, List.mem_cons, List.not_mem_nil, or_false] at hs
      rcases hs with rfl | rfl <;> exact ⟨by decide, by decide, by decide, by decide⟩,
   by intro s hs; simp only [Ex.tOne, List.mem_singleton] at hs; subst hs; exact ⟨by decide, by decide, by decide, by decide⟩,
   ⟨rfl, by decide⟩, ⟨rfl, by decide⟩, by decide,
   ⟨trivial, trivial, trivial, trivial⟩, ⟨trivial, trivial, trivial, trivial⟩, by decide, by decide⟩

/-- `group_adjacent` (1)+(2) on a concrete writer: over the segment with a deletion, the writer adds
    the block 5, 6 between two other documents; after an optimising commit the block is adjacent,
    after the live documents 0, 2 of the old segment (which stay adjacent too). -/
example : let w : Writer := { schema := Ex.sc, segs := [Ex.seg], gen := 3,
                              ndocs := [restrict Ex.sc (Ex.doc 4 1), restrict Ex.sc (Ex.doc 5 1), restrict Ex.sc (Ex.doc 6 1),
                                        restrict Ex.sc (Ex.doc 7 1)],
                              pool := allPostings [restrict Ex.sc (Ex.doc 4 1), restrict Ex.sc (Ex.doc 5 1),
                                                   restrict Ex.sc (Ex.doc 6 1), restrict Ex.sc (Ex.doc 7 1)],
                              added := true }
    w.ndocs = [restrict Ex.sc (Ex.doc 4 1)] ++ [restrict Ex.sc (Ex.doc 5 1), restrict Ex.sc (Ex.doc 6 1)] ++ [restrict Ex.sc (Ex.doc 7 1)] ∧
    (w.commitPlan planOptimize).toOption.map (fun t => t.segs.map (fun s => s.liveDocs.map (·.key))) = some [[4, 5, 6, 7, 0, 2]] ∧
    (w.commitPlan planNoMerge).toOption.map (fun t => t.segs.map (fun s => s.liveDocs.map (·.key))) = some [[0, 2], [4, 5, 6, 7]] := by
  decide

/-- `partition_invisible` (2) is not vacuous: on the two-segment index above (well-formed and
    related to `Ex.spTwo`, see the previous example) three documents added in one commit, or as
    1 + 2 under different policies, satisfy the hypotheses. -/
example : let d7 := restrict Ex.sc (Ex.doc 7 8); let d8 := restrict Ex.sc (Ex.doc 8 8); let d9 := restrict Ex.sc (Ex.doc 9 1)
    let p1 : List (List DocRec × Plan) := [([d7, d8, d9], planMergeSmall)]
    let p2 : List (List DocRec × Plan) := [([d7], planNoMerge), ([d8, d9], planOptimize)]
    (∀ x ∈ p1, PlanOK x.2 ∧ ∀ d ∈ x.1, d.fits Ex.spTwo.schema = true) ∧
    (∀ x ∈ p2, PlanOK x.2 ∧ ∀ d ∈ x.1, d.fits Ex.spTwo.schema = true) ∧
    (p1.map (·.1)).flatten = (p2.map (·.1)).flatten := by
  refine ⟨?_, ?_, rfl⟩
  · intro x hx
    simp only [List.mem_singleton] at hx
    subst hx
    exact ⟨planMergeSmall_ok, by decide⟩
  · intro x hx
    simp only [List.mem_cons, List.not_mem_nil, or_false] at hx
    rcases hx with rfl | rfl
    · exact ⟨planNoMerge_ok, by decide⟩
    · exact ⟨planOptimize_ok, by decide⟩

/-- **readd_after_optimize.** After `commit(optimize=True)` a field name that is not in the schema
is *fresh* again: no live document of the committed index carries data of it, so the freshness
hypothesis `OpOK (.addField f _)` under which `WM.C07.refines_dict` covers `add_field` holds for
the next writer — `remove_field f`, an optimising commit, `add_field f` refines the dictionary
(the old documents do not get their old values of `f` back), whatever the layout was before. -/
theorem readd_after_optimize (w : Writer) (hwf : w.WF) (hfits : ∀ d ∈ w.ndocs, d.fits w.schema = true) (t' : Toc)
    (h : w.commitPlan planOptimize = .ok t') (ss : Sess) (f : Nat) (u : Bool) (hf : t'.schema.has f = false) :
    OpOK t'.writer ss (.addField f u) := by
  obtain ⟨_, _, hp⟩ := optimize_purges w hwf hfits t' h
  show ∀ q ∈ liveGlobal t'.segs 0, q.1.hasField f = false
  intro q hq
  obtain ⟨s, hs, hd⟩ := liveGlobal_mem_docs t'.segs 0 q hq
  exact fits_hasField_false _ _ _ ((hp s hs).1 q.1 hd) hf

/-- non-vacuity: the writer over `Ex.seg` (whose documents still carry the removed field 2) commits
    with OPTIMIZE, field 2 is not in the schema, and before that commit the hypothesis fails. -/
example : let w := ({ schema := Ex.sc, segs := [Ex.seg], gen := 3 } : Toc).writer
    (∃ t', w.commitPlan planOptimize = .ok t' ∧ t'.schema.has 2 = false) ∧
    ¬ OpOK w ({ schema := Ex.sc, docs := [] } : State).open_ (.addField 2 false) := by
  refine ⟨?_, ?_⟩
  · obtain ⟨t', ht', _⟩ := Writer.commitPlan_ok (({ schema := Ex.sc, segs := [Ex.seg], gen := 3 } : Toc).writer) planOptimize
      (Toc.writer_wf _ (by intro s hs; simp only [List.mem_singleton] at hs; subst hs; exact Ex.seg_wf))
      (by intro s hs; simpa [planOptimize] using hs)
    refine ⟨t', ht', ?_⟩
    rw [Writer.commitPlan_schema _ _ _ ht']; decide
  · intro h
    have := h (Ex.doc 0 3, 0) (by decide)
    revert this; decide

end WM.C06
