import WM.Props.C10
import WM.Lemmas.CodecBytes
/-!
# C10, byte level — the term info record read back from its bytes

`reader.term_info`, `reader.frequency` and `reader.doc_frequency` never see the `W3TermInfo` object
the writer built, only the bytes `to_bytes()` put into the terms table.  The theorem below ties the
byte layout (`struct "!BfIBBfII"`, then the extent `!q !i` or the inlined pickle) to
`TermInfo.throughBytes`, the lossy conversion `terminfo_through_bytes` is stated with.
-/
namespace WM.C10
open WM.Codec
open WM.Columns (be unbe slice be_length unbe_be)

/-- **`W3TermInfo.from_bytes ∘ to_bytes`, and the fixed-position readers.**  Whenever `to_bytes`
    succeeds (it does exactly when `df` and the ids fit an unsigned 32-bit and the extent a signed
    64/32-bit number — second part), parsing the bytes gives back the posting reference unchanged
    and the statistics `TermInfo.throughBytes` describes (weights through float32, lengths through
    the length byte, `None`/`0xffffffff` ids as the sentinel); `read_weight`, `read_doc_freq`,
    `read_min_and_max_length`, `read_max_weight` read the same numbers at their fixed offsets
    1, 5, 9/10 and 11 without unpacking the record. -/
theorem terminfo_bytes (packF : Rat → Bytes) (unpackF : Bytes → Rat) (f32 : Rat → Rat)
    (hlen : ∀ w, (packF w).length = 4) (hrt : ∀ w, unpackF (packF w) = f32 w)
    (t : TermInfo Int) (ref : PostRef) :
    (∀ bs, tiToBytes packF t ref = some bs →
      ∃ p tb, tiFromBytes unpackF bs = some (p, ref) ∧ TermInfo.throughBytes f32 t = .ok tb ∧
        p.weight = tb.weight ∧ p.df = tb.df ∧ p.minlength = tb.minlength ∧ p.maxlength = tb.maxlength ∧
        p.maxweight = tb.maxweight ∧ p.minid = tb.minid ∧ p.maxid = tb.maxid ∧
        tiReadWeight unpackF bs = tb.weight ∧ tiReadDocFreq bs = tb.df ∧
        tiReadMinMaxLength bs = (tb.minlength, some tb.maxlength) ∧ tiReadMaxWeight unpackF bs = tb.maxweight) ∧
    ((t.df < 4294967296 ∧ (∀ i, t.minid = some i → 0 ≤ i ∧ i < 4294967296) ∧
      (∀ i, t.maxid = some i → 0 ≤ i ∧ i < 4294967296) ∧
      (∀ o l, ref = .extent o l → -(2 : Int) ^ 63 ≤ o ∧ o < 2 ^ 63 ∧ -(2 : Int) ^ 31 ≤ l ∧ l < 2 ^ 31)) →
      ∃ bs, tiToBytes packF t ref = some bs) := by
  constructor
  · intro bs h
    unfold tiToBytes at h
    cases hdf : packU32 (t.df : Int) with
    | none => rw [hdf] at h; cases h
    | some df =>
    cases hmn : packU32 (idOrSentinel t.minid) with
    | none => rw [hdf, hmn] at h; cases h
    | some mn =>
    cases hmx : packU32 (idOrSentinel t.maxid) with
    | none => rw [hdf, hmn, hmx] at h; cases h
    | some mx =>
    cases hpost : ref.bytes with
    | none => rw [hdf, hmn, hmx, hpost] at h; cases h
    | some tail =>
    rw [hdf, hmn, hmx, hpost] at h
    have hbs : [ref.flag] ++ packF t.weight ++ df ++ [minLenByte t.minlength] ++ [lengthToByte (some t.maxlength)]
      ++ packF t.maxweight ++ mn ++ mx ++ tail = bs := Option.some.inj h
    obtain ⟨ldf, _, _, vdf⟩ := packU32_spec _ df hdf
    obtain ⟨lmn, _, _, vmn⟩ := packU32_spec _ mn hmn
    obtain ⟨lmx, _, _, vmx⟩ := packU32_spec _ mx hmx
    have href : (match ref with
          | .inlined q => tail = q
          | .extent o l => tail.length = 12 ∧ unpackSigned 8 (slice tail 0 8) = o ∧ unpackSigned 4 (slice tail 8 4) = l) := by
      cases ref with
      | inlined q =>
        exact (Option.some.inj hpost).symm
      | extent o l =>
        have hb : (packSigned 8 o).bind (fun o => (packSigned 4 l).map fun l => o ++ l) = some tail := hpost
        cases ho : packSigned 8 o with
        | none => rw [ho] at hb; cases hb
        | some ob =>
        cases hl : packSigned 4 l with
        | none => rw [ho, hl] at hb; cases hb
        | some lb =>
        rw [ho, hl] at hb
        have hpost : ob ++ lb = tail := Option.some.inj hb
        obtain ⟨lo, vo⟩ := packSigned_spec 8 (by decide) o ob ho
        obtain ⟨ll, vl⟩ := packSigned_spec 4 (by decide) l lb hl
        subst hpost
        refine ⟨by simp [lo, ll], ?_, ?_⟩
        · have := slice_mid [] ob lb 0 8 rfl lo
          simp only [List.nil_append] at this
          rw [this, vo]
        · have := slice_mid ob lb [] 8 4 lo ll
          simp only [List.append_nil] at this
          rw [this, vl]
    obtain ⟨s0, s1, s5, s9, s10, s11, s15, s19, hdrop, hlen23⟩ := head_slices
      [ref.flag] (packF t.weight) df [minLenByte t.minlength]
      [lengthToByte (some t.maxlength)] (packF t.maxweight) mn mx tail rfl (hlen _) ldf rfl rfl (hlen _) lmn lmx
    rw [hbs] at s0 s1 s5 s9 s10 s11 s15 s19 hdrop hlen23
    -- the length bytes decode
    obtain ⟨mxl, hmxl⟩ := byteToLength_lengthToByte (some t.maxlength)
    obtain ⟨mnl, hmnl⟩ : ∃ mnl, byteToLength (minLenByte t.minlength) = some mnl := by
      unfold minLenByte
      cases t.minlength with
      | none => exact byteToLength_lengthToByte none
      | some l => exact byteToLength_lengthToByte (some l)
    have hsent : ∀ (o : Option Int) (b : Bytes), (unbe b : Int) = idOrSentinel o →
        (if unbe b = 4294967295 then none else some (unbe b : Int)) = unNoId o := by
      intro o b hb
      cases o with
      | none =>
        simp only [idOrSentinel] at hb
        have : unbe b = 4294967295 := by omega
        simp [this, unNoId]
      | some i =>
        simp only [idOrSentinel] at hb
        by_cases hi : i = 4294967295
        · subst hi
          have : unbe b = 4294967295 := by omega
          simp [this, unNoId]
        · have : ¬ unbe b = 4294967295 := by omega
          rw [if_neg this, hb]
          unfold unNoId
          split
          · next heq => exact absurd (Option.some.inj heq) hi
          · rfl
    have hdfn : unbe df = t.df := by omega
    refine ⟨{ weight := f32 t.weight, df := t.df, minlength := some mnl, maxlength := mxl,
              maxweight := f32 t.maxweight, minid := unNoId t.minid, maxid := unNoId t.maxid },
            { t with weight := f32 t.weight, minlength := some mnl, maxlength := mxl,
                     maxweight := f32 t.maxweight, minid := unNoId t.minid, maxid := unNoId t.maxid }, ?h1, ?h2, ?h3⟩
    case h2 => simp only [TermInfo.throughBytes, hmnl, hmxl]
    case h1 =>
      simp only [tiFromBytes, s0, s1, s5, s9, s10, s11, s15, s19, unbe_single, hmnl, hmxl, hrt, hdfn,
        hsent t.minid mn vmn, hsent t.maxid mx vmx, show ¬ bs.length < 23 from by omega, if_false]
      cases ref with
      | inlined q =>
        simp only at href
        simp only [PostRef.flag, hdrop, href, ne_eq, not_false_eq_true, if_true, Nat.one_ne_zero]
      | extent o l =>
        obtain ⟨_, ho, hl⟩ := href
        have e1 : slice bs 23 8 = slice tail 0 8 := by
          unfold slice; rw [← hdrop, List.drop_drop]
        have e2 : slice bs 31 4 = slice tail 8 4 := by
          unfold slice; rw [← hdrop, List.drop_drop]
        simp only [PostRef.flag, ne_eq, not_true_eq_false, if_false, e1, e2, ho, hl]
    case h3 =>
      simp only [tiReadWeight, tiReadDocFreq, tiReadMinMaxLength, tiReadMaxWeight, s1, s5, s9, s10, s11,
        unbe_single, hmnl, hmxl, hrt, hdfn, and_self]
  · rintro ⟨hdf, hmn, hmx, hext⟩
    have h1 : ∃ b, packU32 (t.df : Int) = some b := ⟨_, if_pos ⟨by omega, by omega⟩⟩
    have h2 : ∀ o : Option Int, (∀ i, o = some i → 0 ≤ i ∧ i < 4294967296) →
        ∃ b, packU32 (idOrSentinel o) = some b := by
      intro o ho
      cases o with
      | none => exact ⟨_, if_pos ⟨by simp [idOrSentinel], by simp [idOrSentinel]⟩⟩
      | some i => exact ⟨_, if_pos (ho i rfl)⟩
    have h3 : ∃ b, ref.bytes = some b := by
      cases ref with
      | inlined q => exact ⟨_, rfl⟩
      | extent o l =>
        obtain ⟨a, b, c, d⟩ := hext o l rfl
        have e4 : ∃ x, packSigned 8 o = some x := ⟨_, if_pos ⟨by simpa using a, by simpa using b⟩⟩
        have e5 : ∃ x, packSigned 4 l = some x := ⟨_, if_pos ⟨by simpa using c, by simpa using d⟩⟩
        obtain ⟨x4, e4⟩ := e4
        obtain ⟨x5, e5⟩ := e5
        exact ⟨x4 ++ x5, by show (packSigned 8 o).bind _ = _; rw [e4, e5]; rfl⟩
    obtain ⟨b1, e1⟩ := h1
    obtain ⟨b2, e2⟩ := h2 t.minid hmn
    obtain ⟨b3, e3⟩ := h2 t.maxid hmx
    obtain ⟨b4, e4⟩ := h3
    unfold tiToBytes
    rw [e1, e2, e3, e4]
    exact ⟨_, rfl⟩

end WM.C10
