import WM.Model.Analysis
import WM.Lemmas.Analysis
import WM.Spec.CodecIndex
/-!
C17 — index- and query-time analysis agree: documents are findable by their own words.

Model: `WM/Model/Analysis.lean`.  The theorems cover the analyzers built from the shipped
regular-expression tokenizers (default pattern, space separated, comma separated), `IDTokenizer`,
`NgramTokenizer` and the filters Lowercase / Strip / Pass / Stop / Ngram / BiWord / text-rewriting /
Stem / Multi / DelimitedAttribute; every other
shipped analyzer is covered by the end-to-end relation test only (level `other`).
-/
namespace WM.C17
open WM.Analysis

/-- filters that keep "one token per match of the tokenizer" -/
def Filter.wordwise : Filter → Bool
  | .lowercase | .strip | .pass | .stop _ | .mapText _ => true
  | _ => false

/-- ... and, for the statement about positions, drop stopped tokens (`removestops=True`, the
    setting used for indexing and for query-time analysis) -/
def Filter.dropsStops : Filter → Bool
  | .lowercase | .strip | .pass | .mapText _ | .stem .. | .delimited _ => true
  | .stop c => c.removestops
  | .multi a b => Filter.dropsStops a && Filter.dropsStops b
  | _ => false

/-- what a filter does to the text of a token it lets through -/
def stepText (tb : Tables) : Filter → Str → Str
  | .lowercase => fun s => s.flatMap tb.lower
  | .strip => stripStr tb
  | .mapText fn => fn
  | _ => id

/-- the text transformation of a whole chain -/
def textFun (tb : Tables) (fs : List Filter) : Str → Str :=
  fs.foldl (fun g f => stepText tb f ∘ g) id

/-- the invariant carried through a word-wise chain -/
structure Inv (text : List CChar) (g : Str → Str) (ts : List Token) : Prop where
  spans : List.Pairwise (fun a b : Token => a.endchar ≤ b.startchar) ts
  tok : ∀ t ∈ ts, t.startchar < t.endchar ∧ t.endchar ≤ text.length ∧
          t.text = g ((slice text t.startchar t.endchar).map (·.code))

theorem inv_tokenizer (p : Pat) (text : List CChar) : Inv text id (regexTokenizer p text) := by
  have hs := scan_spans p text 0
  constructor
  · exact spansToTokens_spans text _ 0 hs.2
  · intro t ht
    obtain ⟨s, hsm, e1, e2, e3, _⟩ := mem_spansToTokens ht
    have := hs.1 s hsm
    rw [e1, e2, e3]
    exact ⟨this.2.1, by omega, rfl⟩

theorem inv_step (tb : Tables) (mode : Mode) (text : List CChar) (g : Str → Str) (f : Filter)
    (hf : Filter.wordwise f = true) (ts : List Token) (h : Inv text g ts) :
    Inv text (stepText tb f ∘ g) (runFilter tb mode f ts) := by
  cases f with
  | lowercase =>
    constructor
    · simp only [runFilter, lowercase]
      exact List.Pairwise.map _ (fun a b hab => hab) h.spans
    · intro t ht
      simp only [runFilter, lowercase, List.mem_map] at ht
      obtain ⟨t0, ht0, rfl⟩ := ht
      have := h.tok t0 ht0
      exact ⟨this.1, this.2.1, by simp [stepText, this.2.2]⟩
  | strip =>
    constructor
    · simp only [runFilter, strip]
      exact List.Pairwise.map _ (fun a b hab => hab) h.spans
    · intro t ht
      simp only [runFilter, strip, List.mem_map] at ht
      obtain ⟨t0, ht0, rfl⟩ := ht
      have := h.tok t0 ht0
      exact ⟨this.1, this.2.1, by simp [stepText, this.2.2]⟩
  | pass => exact ⟨h.spans, fun t ht => by simpa [stepText] using h.tok t ht⟩
  | stop c =>
    constructor
    · exact stopFilter_pairwise_span (fun _ e s _ => e ≤ s) c ts none h.spans
    · intro t ht
      obtain ⟨y, hy, e1, e2, e3, _⟩ := mem_stopFilter ht
      have := h.tok y hy
      rw [← e1, ← e2, ← e3]
      simpa [stepText] using this
  | ngram a b at_ => simp [Filter.wordwise] at hf
  | biword sep => simp [Filter.wordwise] at hf
  | mapText fn =>
    constructor
    · simp only [runFilter, mapText]
      exact List.Pairwise.map _ (fun a b hab => hab) h.spans
    · intro t ht
      simp only [runFilter, mapText, List.mem_map] at ht
      obtain ⟨t0, ht0, rfl⟩ := ht
      have := h.tok t0 ht0
      exact ⟨this.1, this.2.1, by simp [stepText, this.2.2]⟩
  | stem fn ig => simp [Filter.wordwise] at hf
  | multi a b => simp [Filter.wordwise] at hf
  | delimited d => simp [Filter.wordwise] at hf

theorem inv_chain (tb : Tables) (mode : Mode) (text : List CChar) (fs : List Filter)
    (hfs : ∀ f ∈ fs, Filter.wordwise f = true) (g : Str → Str) (ts : List Token) (h : Inv text g ts) :
    Inv text (fs.foldl (fun g f => stepText tb f ∘ g) g) (fs.foldl (fun ts f => runFilter tb mode f ts) ts) := by
  induction fs generalizing g ts with
  | nil => exact h
  | cons f fs ih =>
    simp only [List.foldl_cons]
    exact ih (fun f' hf' => hfs f' (by simp [hf'])) _ _ (inv_step tb mode text g f (hfs f (by simp)) ts h)

/-- `C17.offsets`: for an analyzer made of one of the regular-expression tokenizers and any
    sequence of Lowercase / Strip / Pass / Stop filters, every token's character offsets delimit
    its source (`text[startchar:endchar]`, transformed by the chain's text functions, is the
    token's text), `startchar < endchar ≤ len(text)`, and tokens do not overlap. -/
theorem offsets (tb : Tables) (p : Pat) (fs : List Filter) (mode : Mode) (text : List CChar)
    (hfs : ∀ f ∈ fs, Filter.wordwise f = true) :
    List.Pairwise (fun a b : Token => a.endchar ≤ b.startchar) (analyze tb (.regex p) fs mode text) ∧
    ∀ t ∈ analyze tb (.regex p) fs mode text,
      t.startchar < t.endchar ∧ t.endchar ≤ text.length ∧
      t.text = textFun tb fs ((slice text t.startchar t.endchar).map (·.code)) := by
  have := inv_chain tb mode text fs hfs id (regexTokenizer p text) (inv_tokenizer p text)
  exact ⟨this.spans, this.tok⟩

/-- `Inv` with `startchar ≤ endchar`: a `DelimitedAttributeFilter` may leave a token with an empty
    text and an empty character range (`"::x"`) -/
structure InvW (text : List CChar) (g : Str → Str) (ts : List Token) : Prop where
  spans : List.Pairwise (fun a b : Token => a.endchar ≤ b.startchar) ts
  tok : ∀ t ∈ ts, t.startchar ≤ t.endchar ∧ t.endchar ≤ text.length ∧
          t.text = g ((slice text t.startchar t.endchar).map (·.code))

theorem invw_step (tb : Tables) (mode : Mode) (text : List CChar) (g : Str → Str) (f : Filter)
    (hf : Filter.wordwise f = true) (ts : List Token) (h : InvW text g ts) :
    InvW text (stepText tb f ∘ g) (runFilter tb mode f ts) := by
  cases f with
  | lowercase =>
    constructor
    · simp only [runFilter, lowercase]
      exact List.Pairwise.map _ (fun a b hab => hab) h.spans
    · intro t ht
      simp only [runFilter, lowercase, List.mem_map] at ht
      obtain ⟨t0, ht0, rfl⟩ := ht
      have := h.tok t0 ht0
      exact ⟨this.1, this.2.1, by simp [stepText, this.2.2]⟩
  | strip =>
    constructor
    · simp only [runFilter, strip]
      exact List.Pairwise.map _ (fun a b hab => hab) h.spans
    · intro t ht
      simp only [runFilter, strip, List.mem_map] at ht
      obtain ⟨t0, ht0, rfl⟩ := ht
      have := h.tok t0 ht0
      exact ⟨this.1, this.2.1, by simp [stepText, this.2.2]⟩
  | pass => exact ⟨h.spans, fun t ht => by simpa [stepText] using h.tok t ht⟩
  | stop c =>
    constructor
    · exact stopFilter_pairwise_span (fun _ e s _ => e ≤ s) c ts none h.spans
    · intro t ht
      obtain ⟨y, hy, e1, e2, e3, _⟩ := mem_stopFilter ht
      have := h.tok y hy
      rw [← e1, ← e2, ← e3]
      simpa [stepText] using this
  | ngram a b at_ => simp [Filter.wordwise] at hf
  | biword sep => simp [Filter.wordwise] at hf
  | mapText fn =>
    constructor
    · simp only [runFilter, mapText]
      exact List.Pairwise.map _ (fun a b hab => hab) h.spans
    · intro t ht
      simp only [runFilter, mapText, List.mem_map] at ht
      obtain ⟨t0, ht0, rfl⟩ := ht
      have := h.tok t0 ht0
      exact ⟨this.1, this.2.1, by simp [stepText, this.2.2]⟩
  | stem fn ig => simp [Filter.wordwise] at hf
  | multi a b => simp [Filter.wordwise] at hf
  | delimited d => simp [Filter.wordwise] at hf

theorem invw_chain (tb : Tables) (mode : Mode) (text : List CChar) (fs : List Filter)
    (hfs : ∀ f ∈ fs, Filter.wordwise f = true) (g : Str → Str) (ts : List Token) (h : InvW text g ts) :
    InvW text (fs.foldl (fun g f => stepText tb f ∘ g) g) (fs.foldl (fun ts f => runFilter tb mode f ts) ts) := by
  induction fs generalizing g ts with
  | nil => exact h
  | cons f fs ih =>
    simp only [List.foldl_cons]
    exact ih (fun f' hf' => hfs f' (by simp [hf'])) _ _ (invw_step tb mode text g f (hfs f (by simp)) ts h)

/-- the step of `DelimitedAttributeFilter` right behind the tokenizer: the shortened text is the
    source text of the shortened character range -/
theorem invw_delimited (tb : Tables) (mode : Mode) (text : List CChar) (d : Str) (ts : List Token)
    (h : Inv text id ts) : InvW text id (runFilter tb mode (.delimited d) ts) := by
  constructor
  · simp only [runFilter, delimited]
    refine List.Pairwise.map _ (fun a b hab => ?_) h.spans
    split <;> split <;> first | omega | (dsimp only; omega)
  · intro t ht
    simp only [runFilter, delimited, List.mem_map] at ht
    obtain ⟨t0, ht0, rfl⟩ := ht
    obtain ⟨h1, h2, h3⟩ := h.tok t0 ht0
    split
    · rename_i p hp
      have hp' := findSub_le _ _ _ hp
      have hlen : t0.text.length = t0.endchar - t0.startchar := by
        rw [h3]; simp [slice]; omega
      have e : t0.endchar - (t0.text.length - p) = t0.startchar + p := by omega
      refine ⟨by simp only [e]; omega, by simp only [e]; omega, ?_⟩
      simp only [e, id]
      rw [h3]
      simp only [id, slice, ← List.map_take, List.take_take]
      congr 2
      omega
    · exact ⟨by omega, h2, h3⟩

/-- `C17.offsets_delimited`: for an analyzer made of one of the regular-expression tokenizers, a
    `DelimitedAttributeFilter` with a delimiter of *any* length directly behind it, and then any
    sequence of Lowercase / Strip / Pass / Stop / text-rewriting filters: every token's character
    offsets delimit its source (`text[startchar:endchar]`, transformed by the chain's text
    functions, is the token's text - the delimiter and the attribute are outside the range),
    `startchar ≤ endchar ≤ len(text)` (a token that begins with the delimiter is empty), and the
    tokens do not overlap. -/
theorem offsets_delimited (tb : Tables) (p : Pat) (d : Str) (fs : List Filter) (mode : Mode) (text : List CChar)
    (hfs : ∀ f ∈ fs, Filter.wordwise f = true) :
    List.Pairwise (fun a b : Token => a.endchar ≤ b.startchar)
      (analyze tb (.regex p) (.delimited d :: fs) mode text) ∧
    ∀ t ∈ analyze tb (.regex p) (.delimited d :: fs) mode text,
      t.startchar ≤ t.endchar ∧ t.endchar ≤ text.length ∧
      t.text = textFun tb fs ((slice text t.startchar t.endchar).map (·.code)) := by
  have h0 := invw_delimited tb mode text d (regexTokenizer p text) (inv_tokenizer p text)
  have := invw_chain tb mode text fs hfs id _ h0
  exact ⟨this.spans, this.tok⟩

/-- instance: `"fox::noun x"` through `RegexTokenizer(r"\S+") | DelimitedAttributeFilter("::") |
    LowercaseFilter()`: `fox` keeps the range 0..3 (not 0..4: the whole two-character delimiter is
    outside), `x` is untouched; and `"::x"` leaves an empty token with the empty range 0..0 -/
example :
    let tb : Tables := { lower := fun c => if 65 ≤ c ∧ c ≤ 90 then [c + 32] else [c], space := fun c => c = 32 }
    let ch (c : Nat) : CChar := ⟨c, (65 ≤ c ∧ c ≤ 90) ∨ (97 ≤ c ∧ c ≤ 122), c = 32, tb.lower c⟩
    analyze tb (.regex .nonspace) [.delimited [58, 58], .lowercase] .index
        ([70, 111, 120, 58, 58, 110, 111, 117, 110, 32, 120].map ch)
      = [{ text := [102, 111, 120], pos := 0, startchar := 0, endchar := 3 },
         { text := [120], pos := 1, startchar := 10, endchar := 11 }]
    ∧ analyze tb (.regex .nonspace) [.delimited [58, 58]] .index ([58, 58, 120].map ch)
      = [{ text := [], pos := 0, startchar := 0, endchar := 0 }] := by
  decide +kernel

theorem pos_step (tb : Tables) (mode : Mode) (f : Filter) (hf : Filter.dropsStops f = true) (ts : List Token)
    (h : List.Pairwise (fun a b : Token => a.pos < b.pos) ts) :
    List.Pairwise (fun a b : Token => a.pos < b.pos) (runFilter tb mode f ts) := by
  induction f generalizing ts with
  | lowercase => simp only [runFilter, lowercase]; exact List.Pairwise.map _ (fun a b hab => hab) h
  | strip => simp only [runFilter, strip]; exact List.Pairwise.map _ (fun a b hab => hab) h
  | pass => exact h
  | stop c => exact (stopFilter_pos c (by simpa [Filter.dropsStops] using hf) ts none h).1
  | ngram a b at_ => simp [Filter.dropsStops] at hf
  | biword sep => simp [Filter.dropsStops] at hf
  | mapText fn => simp only [runFilter, mapText]; exact List.Pairwise.map _ (fun a b hab => hab) h
  | stem fn ig =>
    simp only [runFilter, stemFilter]
    refine List.Pairwise.map _ (fun a b hab => ?_) h
    split <;> split <;> exact hab
  | delimited d =>
    simp only [runFilter, delimited]
    refine List.Pairwise.map _ (fun a b hab => ?_) h
    split <;> split <;> exact hab
  | multi a b iha ihb =>
    simp only [Filter.dropsStops, Bool.and_eq_true] at hf
    cases ts with
    | nil => simp [runFilter]
    | cons t rest =>
      cases mode
      · simpa [runFilter] using iha hf.1 _ h
      · simpa [runFilter] using ihb hf.2 _ h

/-- `C17.positions`: token positions strictly increase in order of appearance, and the
    `StopFilter` (renumbering or not, with `removestops`) keeps that. -/
theorem positions (tb : Tables) (p : Pat) (fs : List Filter) (mode : Mode) (text : List CChar)
    (hfs : ∀ f ∈ fs, Filter.dropsStops f = true) :
    List.Pairwise (fun a b : Token => a.pos < b.pos) (analyze tb (.regex p) fs mode text) := by
  unfold analyze
  have h0 : List.Pairwise (fun a b : Token => a.pos < b.pos) (runTokenizer (.regex p) mode text) :=
    spansToTokens_pos text _ 0
  generalize runTokenizer (.regex p) mode text = ts at h0
  induction fs generalizing ts with
  | nil => exact h0
  | cons f fs ih =>
    simp only [List.foldl_cons]
    exact ih (fun f' hf' => hfs f' (by simp [hf'])) _ (pos_step tb mode f (hfs f (by simp)) ts h0)

/-- instance: `"The a.b x"` through `StandardAnalyzer` (lowercase + stop, renumbering): one token
    `a.b` at position 1 with offsets 4..7; and the reason for the `removestops` hypothesis of
    `positions`: with `removestops=False` (the highlighter's setting) a renumbering stop filter
    hands out positions 0, 1, 2, 1 -/
example :
    let tb : Tables := { lower := fun c => if 65 ≤ c ∧ c ≤ 90 then [c + 32] else [c], space := fun c => c = 32 }
    let ch (c : Nat) : CChar := ⟨c, (65 ≤ c ∧ c ≤ 90) ∨ (97 ≤ c ∧ c ≤ 122), c = 32, tb.lower c⟩
    let stop (rs : Bool) : Filter := .stop ⟨[[116, 104, 101]], 2, none, true, rs⟩
    analyze tb (.regex .default) [.lowercase, stop true] .index ([84, 104, 101, 32, 97, 46, 98, 32, 120].map ch)
      = [{ text := [97, 46, 98], pos := 1, startchar := 4, endchar := 7 }]
    ∧ (analyze tb (.regex .default) [stop false] .index
          ([97, 98, 32, 120, 32, 121, 32, 99, 100].map ch)).map (·.pos) = [0, 1, 2, 1] := by
  decide +kernel

/-! ## Query-time analysis agrees with index-time analysis -/

/-- components whose output does not depend on the `mode` -/
def Filter.modeFree : Filter → Bool
  | .ngram .. => false
  | .multi .. => false
  | _ => true

def Tokenizer.modeFree : Tokenizer → Bool
  | .ngram .. => false
  | _ => true

/-- `C17.mode_agree` (mode-independent chains): the analyzer yields the very same tokens at index
    and at query time. -/
theorem mode_agree_chain (tb : Tables) (tk : Tokenizer) (fs : List Filter) (text : List CChar)
    (htk : Tokenizer.modeFree tk = true) (hfs : ∀ f ∈ fs, Filter.modeFree f = true) :
    analyze tb tk fs .query text = analyze tb tk fs .index text := by
  unfold analyze
  have h0 : runTokenizer tk .query text = runTokenizer tk .index text := by
    cases tk <;> simp_all [runTokenizer, Tokenizer.modeFree]
  rw [h0]
  generalize runTokenizer tk .index text = ts
  induction fs generalizing ts with
  | nil => rfl
  | cons f fs ih =>
    simp only [List.foldl_cons]
    have : runFilter tb .query f ts = runFilter tb .index f ts := by
      have := hfs f (by simp)
      cases f <;> simp_all [runFilter, Filter.modeFree]
    rw [this]
    exact ih (fun f' hf' => hfs f' (by simp [hf'])) _

/-- `C17.mode_agree` (n-grams): the grams `NgramFilter` cuts out of a token at query time (only the
    longest size) are among the grams it cuts at index time (all sizes), for every `at` mode; the
    same for `NgramTokenizer`. -/
theorem mode_agree_ngrams (min max : Nat) (hmin : 1 ≤ min) (hmm : min ≤ max) :
    (∀ (at_ : At) (ts : List Token) (g : Token), g ∈ ngramFilter min max at_ .query ts →
        ∃ g' ∈ ngramFilter min max at_ .index ts, g'.text = g.text) ∧
    (∀ (text : List CChar) (g : Token), g ∈ ngramTokenizer min max .query text →
        g ∈ ngramTokenizer min max .index text) := by
  constructor
  · intro at_ ts g hg
    simp only [ngramFilter, List.mem_flatMap] at hg ⊢
    obtain ⟨t, ht, hgt⟩ := hg
    obtain ⟨g', hg', he⟩ := ngramsOf_query_subset min max at_ hmin hmm t g hgt
    exact ⟨g', ⟨t, ht, hg'⟩, he⟩
  · exact ngramTokenizer_query_subset min max hmin hmm

/-! ## Findability (composition with the posting model of C10/C01) -/

/-- a term query matches the document iff the term has postings -/
def termMatches (ix : List Token) (w : Str) : Prop := positionsOf ix w ≠ []

/-- a phrase matches iff its words occur at consecutive positions -/
def phraseMatches (ix : List Token) (ws : List Str) : Prop :=
  ∃ p, ∀ i (h : i < ws.length), (p + i) ∈ positionsOf ix ws[i]

theorem mem_positionsOf {ix : List Token} {t : Token} (h : t ∈ ix) : t.pos ∈ positionsOf ix t.text := by
  simp only [positionsOf, List.mem_map, List.mem_filter]
  exact ⟨t, ⟨h, by simp⟩, rfl⟩

/-- `C17.findable`: with `ix` the tokens recorded for a document at index time,
    (1) the term query for each of them matches (and its recorded characters are the token's
        offsets);
    (2) if the query-time tokens of the same text are index-time tokens (`mode_agree_*`), the
        conjunction of their term queries matches;
    (3) the phrase made of tokens at consecutive positions matches. -/
theorem findable (ix : List Token) :
    (∀ t ∈ ix, termMatches ix t.text ∧ (t.pos, t.startchar, t.endchar) ∈ charactersOf ix t.text) ∧
    (∀ q : List Token, (∀ g ∈ q, ∃ g' ∈ ix, g'.text = g.text) → ∀ g ∈ q, termMatches ix g.text) ∧
    (∀ run : List Token, (∀ t ∈ run, t ∈ ix) →
        (∀ i (h : i < run.length), run[i].pos = (run.head?.map (·.pos)).getD 0 + i) →
        phraseMatches ix (run.map (·.text))) := by
  refine ⟨?_, ?_, ?_⟩
  · intro t ht
    refine ⟨?_, ?_⟩
    · intro h
      have := mem_positionsOf ht
      rw [h] at this; cases this
    · simp only [charactersOf, List.mem_map, List.mem_filter]
      exact ⟨t, ⟨ht, by simp⟩, rfl⟩
  · intro q hq g hg h
    obtain ⟨g', hg', he⟩ := hq g hg
    have := mem_positionsOf hg'
    rw [he, h] at this; cases this
  · intro run hin hpos
    refine ⟨(run.head?.map (·.pos)).getD 0, ?_⟩
    intro i hi
    simp only [List.length_map] at hi
    have hm := mem_positionsOf (hin run[i] (List.getElem_mem hi))
    rw [hpos i hi] at hm
    simpa using hm

theorem analyze_snoc (tb : Tables) (tk : Tokenizer) (fs : List Filter) (f : Filter) (mode : Mode) (text : List CChar) :
    analyze tb tk (fs ++ [f]) mode text = runFilter tb mode f (analyze tb tk fs mode text) := by
  simp [analyze, List.foldl_append]

/-- `C17.findable` for the shipped n-gram word analyzers (`NgramWordAnalyzer`, NGRAMWORDS fields):
    a mode-free chain followed by an `NgramFilter`.  Every token of the query-time analysis of a
    text is the text of an index-time token of the same text, so the term query of each — and
    hence their conjunction — matches the document. -/
theorem findable_ngramwords (tb : Tables) (tk : Tokenizer) (pre : List Filter) (min max : Nat) (at_ : At)
    (text : List CChar) (htk : Tokenizer.modeFree tk = true) (hpre : ∀ f ∈ pre, Filter.modeFree f = true)
    (hmin : 1 ≤ min) (hmm : min ≤ max) :
    ∀ g ∈ analyze tb tk (pre ++ [.ngram min max at_]) .query text,
      termMatches (analyze tb tk (pre ++ [.ngram min max at_]) .index text) g.text := by
  intro g hg
  rw [analyze_snoc] at hg ⊢
  rw [mode_agree_chain tb tk pre text htk hpre] at hg
  simp only [runFilter] at hg ⊢
  obtain ⟨g', hg', he⟩ := (mode_agree_ngrams min max hmin hmm).1 at_ _ g hg
  exact ((findable _).2.1 [g] (by intro x hx; simp at hx; subst hx; exact ⟨g', hg', he⟩)) g (by simp)

/-- `C17.findable` for mode-free chains (Standard/Simple/Keyword/ID/Regex analyzers …): the
    query-time tokens are the index-time tokens, so each of them, and their conjunction, matches. -/
theorem findable_chain (tb : Tables) (tk : Tokenizer) (fs : List Filter) (text : List CChar)
    (htk : Tokenizer.modeFree tk = true) (hfs : ∀ f ∈ fs, Filter.modeFree f = true) :
    ∀ g ∈ analyze tb tk fs .query text, termMatches (analyze tb tk fs .index text) g.text := by
  intro g hg
  rw [mode_agree_chain tb tk fs text htk hfs] at hg
  exact ((findable _).1 g hg).1

/-! ## Highlighting -/

/-- `C17.highlight`: for any fragment `[fstart, fend)` and any list of matches with
    `startchar ≤ endchar` (in any order, overlapping or not), the excerpt `format_fragment`
    produces, with the markup removed, is one contiguous slice of the text starting at the
    fragment's start, and every marked span is `text[startchar:endchar]` of one of the matches. -/
theorem highlight (text : Str) (ms : List (Nat × Nat)) (fstart fend : Nat)
    (h : ∀ m ∈ ms, m.1 ≤ m.2) :
    (∃ e, stripMarkup (formatFragment text ms fstart fend) = slice text fstart e) ∧
    (∀ s, Piece.marked s ∈ formatFragment text ms fstart fend → ∃ m ∈ ms, s = slice text m.1 m.2) := by
  obtain ⟨hle, hst⟩ := formatLoop_strip text ms fstart h
  constructor
  · refine ⟨max fend (formatLoop text ms fstart).2, ?_⟩
    simp only [formatFragment, stripMarkup_append, hst, stripMarkup, List.append_nil]
    by_cases hl : (formatLoop text ms fstart).2 ≤ fend
    · rw [slice_append_slice text hle hl, Nat.max_eq_left hl]
    · rw [slice_empty text (by omega : fend ≤ (formatLoop text ms fstart).2), List.append_nil,
          Nat.max_eq_right (by omega)]
  · intro s hs
    simp only [formatFragment, List.mem_append, List.mem_singleton] at hs
    rcases hs with hs | hs
    · exact formatLoop_marked text ms fstart s hs
    · cases hs

/-- instance: text "ab cd ef", matches cd and ef, fragment 1..8 -/
example : formatFragment [97, 98, 32, 99, 100, 32, 101, 102] [(3, 5), (6, 8)] 1 8
    = [.plain [98, 32], .marked [99, 100], .plain [32], .marked [101, 102], .plain []] := by decide

/-! ## Round 2: findability against the posting lists C10 specifies -/

/-- the token as the posting writer of C10 receives it (`enc`: the text as a Python string) -/
def toCodec (enc : Str → String) (boost : Rat) (t : Token) : WM.Codec.Token :=
  { text := enc t.text, pos := t.pos, startchar := t.startchar, endchar := t.endchar, boost := boost }

/-- `C17.findable` against the posting lists C10 specifies (`WM.Codec.specPostings`, which C10
    proves the codec stores and reads back): a document whose field was analysed into `ix` is in
    the posting list of every one of its tokens' texts, with that token's position and character
    range; so is every query-time token whose text is an index-time token's text; and the words
    of a run of tokens at consecutive positions have postings at consecutive positions (what a
    phrase query asks for). -/
theorem findable_postings (enc : Str → String) (fmt : WM.Codec.Fmt) (fb bo : Rat)
    (docs : List WM.Codec.DocIn) (d : WM.Codec.DocIn) (hd : d ∈ docs)
    (ix : List Token) (hix : d.toks = ix.map (toCodec enc bo)) :
    (∀ t ∈ ix, ∃ p, (d.docnum, p) ∈ WM.Codec.specPostings fmt fb docs (enc t.text) ∧
        (t.pos : Int) ∈ p.positions ∧
        ((t.pos : Int), (t.startchar : Int), (t.endchar : Int)) ∈ p.chars) ∧
    (∀ q : List Token, (∀ g ∈ q, ∃ g' ∈ ix, g'.text = g.text) →
        ∀ g ∈ q, ∃ p, (d.docnum, p) ∈ WM.Codec.specPostings fmt fb docs (enc g.text)) ∧
    (∀ run : List Token, (∀ t ∈ run, t ∈ ix) → ∀ p0 : Nat,
        (∀ i (h : i < run.length), run[i].pos = p0 + i) →
        ∀ i (h : i < run.length), ∃ p, (d.docnum, p) ∈ WM.Codec.specPostings fmt fb docs (enc run[i].text) ∧
          ((p0 + i : Nat) : Int) ∈ p.positions) := by
  have key : ∀ t ∈ ix, ∃ p, (d.docnum, p) ∈ WM.Codec.specPostings fmt fb docs (enc t.text) ∧
        (t.pos : Int) ∈ p.positions ∧
        ((t.pos : Int), (t.startchar : Int), (t.endchar : Int)) ∈ p.chars := by
    intro t ht
    have hocc : toCodec enc bo t ∈ WM.Codec.occ d.toks (enc t.text) := by
      simp only [WM.Codec.occ, List.mem_filter, hix, List.mem_map]
      exact ⟨⟨t, ht, rfl⟩, by simp [toCodec]⟩
    have hne : (WM.Codec.occ d.toks (enc t.text)).isEmpty = false := by
      cases h : WM.Codec.occ d.toks (enc t.text) with
      | nil => rw [h] at hocc; cases hocc
      | cons _ _ => rfl
    refine ⟨{ WM.Codec.postingSpec fmt fb (WM.Codec.occ d.toks (enc t.text)) with
        weight := (WM.Codec.postingSpec fmt fb (WM.Codec.occ d.toks (enc t.text))).weight * d.boost }, ?_, ?_, ?_⟩
    · simp only [WM.Codec.specPostings, List.mem_filterMap]
      exact ⟨d, hd, by rw [hne]; rfl⟩
    · simp only [WM.Codec.postingSpec, List.mem_map]
      exact ⟨_, hocc, rfl⟩
    · simp only [WM.Codec.postingSpec, List.mem_map]
      exact ⟨_, hocc, rfl⟩
  refine ⟨key, ?_, ?_⟩
  · intro q hq g hg
    obtain ⟨g', hg', he⟩ := hq g hg
    obtain ⟨p, hp, _⟩ := key g' hg'
    exact ⟨p, by rw [← he]; exact hp⟩
  · intro run hin p0 hpos i hi
    obtain ⟨p, hp, hpp, _⟩ := key run[i] (hin _ (List.getElem_mem hi))
    exact ⟨p, hp, by rw [← hpos i hi]; exact hpp⟩

/-- `findable_postings` composed with the analysis model, mode-free chains (Standard/Simple/
    Keyword/ID/Regex analyzers ...): every token of the query-time analysis of a text has the
    document indexed from that text in its posting list. -/
theorem findable_postings_chain (tb : Tables) (tk : Tokenizer) (fs : List Filter) (text : List CChar)
    (htk : Tokenizer.modeFree tk = true) (hfs : ∀ f ∈ fs, Filter.modeFree f = true)
    (enc : Str → String) (fmt : WM.Codec.Fmt) (fb bo : Rat)
    (docs : List WM.Codec.DocIn) (d : WM.Codec.DocIn) (hd : d ∈ docs)
    (hix : d.toks = (analyze tb tk fs .index text).map (toCodec enc bo)) :
    ∀ g ∈ analyze tb tk fs .query text,
      ∃ p, (d.docnum, p) ∈ WM.Codec.specPostings fmt fb docs (enc g.text) ∧ (g.pos : Int) ∈ p.positions := by
  intro g hg
  rw [mode_agree_chain tb tk fs text htk hfs] at hg
  obtain ⟨p, hp, hpp, _⟩ := (findable_postings enc fmt fb bo docs d hd _ hix).1 g hg
  exact ⟨p, hp, hpp⟩

/-- the same for the n-gram word analyzers (`NgramWordAnalyzer`, NGRAMWORDS fields) -/
theorem findable_postings_ngramwords (tb : Tables) (tk : Tokenizer) (pre : List Filter) (min max : Nat) (at_ : At)
    (text : List CChar) (htk : Tokenizer.modeFree tk = true) (hpre : ∀ f ∈ pre, Filter.modeFree f = true)
    (hmin : 1 ≤ min) (hmm : min ≤ max)
    (enc : Str → String) (fmt : WM.Codec.Fmt) (fb bo : Rat)
    (docs : List WM.Codec.DocIn) (d : WM.Codec.DocIn) (hd : d ∈ docs)
    (hix : d.toks = (analyze tb tk (pre ++ [.ngram min max at_]) .index text).map (toCodec enc bo)) :
    ∀ g ∈ analyze tb tk (pre ++ [.ngram min max at_]) .query text,
      ∃ p, (d.docnum, p) ∈ WM.Codec.specPostings fmt fb docs (enc g.text) := by
  intro g hg
  rw [analyze_snoc] at hg hix
  rw [mode_agree_chain tb tk pre text htk hpre] at hg
  simp only [runFilter] at hg hix
  obtain ⟨g', hg', he⟩ := (mode_agree_ngrams min max hmin hmm).1 at_ _ g hg
  exact (findable_postings enc fmt fb bo docs d hd _ hix).2.1 [g]
    (by intro x hx; simp at hx; subst hx; exact ⟨g', hg', he⟩) g (by simp)

/-! ## Round 3: a filter that really depends on the mode (`MultiFilter`) -/

/-- "every text of `A` is a text of `B`" -/
def TextsSub (A B : List Token) : Prop := ∀ a ∈ A, ∃ b ∈ B, b.text = a.text

/-- filters that preserve `TextsSub`: per-token text maps, and the stop filter (its verdict depends
    on the text alone) -/
def Filter.textwise : Filter → Bool
  | .lowercase | .strip | .pass | .mapText _ | .stop _ => true
  | _ => false

theorem textwise_mono (tb : Tables) (m1 m2 : Mode) (f : Filter) (hf : Filter.textwise f = true)
    (A B : List Token) (h : TextsSub A B) : TextsSub (runFilter tb m1 f A) (runFilter tb m2 f B) := by
  have mapcase : ∀ fn : Str → Str, TextsSub (A.map fun t => { t with text := fn t.text })
      (B.map fun t => { t with text := fn t.text }) := by
    intro fn a ha
    obtain ⟨a0, ha0, rfl⟩ := List.mem_map.1 ha
    obtain ⟨b0, hb0, he⟩ := h a0 ha0
    exact ⟨_, List.mem_map.2 ⟨b0, hb0, rfl⟩, by simp [he]⟩
  cases f with
  | lowercase => exact mapcase _
  | strip => exact mapcase _
  | pass => exact h
  | mapText fn => exact mapcase fn
  | stop c =>
    intro a ha
    obtain ⟨y, hy, hw, hk⟩ := (stopFilter_text_iff c A none a.text).1 ⟨a, ha, rfl⟩
    obtain ⟨b0, hb0, he⟩ := h y hy
    exact (stopFilter_text_iff c B none a.text).2 ⟨b0, hb0, by rw [he, hw], hk⟩
  | ngram a b at_ => simp [Filter.textwise] at hf
  | biword sep => simp [Filter.textwise] at hf
  | stem fn ig => simp [Filter.textwise] at hf
  | multi a b => simp [Filter.textwise] at hf
  | delimited d => simp [Filter.textwise] at hf

theorem analyze_append (tb : Tables) (tk : Tokenizer) (fs gs : List Filter) (mode : Mode) (text : List CChar) :
    analyze tb tk (fs ++ gs) mode text = gs.foldl (fun ts f => runFilter tb mode f ts) (analyze tb tk fs mode text) := by
  simp [analyze, List.foldl_append]

/-- `C17.mode_agree` for an analyzer with a `MultiFilter` (the one shipped component, besides the
    n-gram ones, whose output depends on `mode`): a mode-free chain, then
    `MultiFilter(index=fi, query=fq)`, then text-wise filters.  If the query branch only produces
    texts the index branch produces from the same tokens (`hbr`: what the two `IntraWordFilter`
    settings of the documentation are meant to satisfy), every query-time token text of a text is
    an index-time token text of it.  `runFilter` hands the *stream's* mode to the chosen branch. -/
theorem mode_agree_multi (tb : Tables) (tk : Tokenizer) (pre post : List Filter) (fi fq : Filter)
    (text : List CChar) (htk : Tokenizer.modeFree tk = true) (hpre : ∀ f ∈ pre, Filter.modeFree f = true)
    (hpost : ∀ f ∈ post, Filter.textwise f = true)
    (hbr : ∀ ts, TextsSub (runFilter tb .query fq ts) (runFilter tb .index fi ts)) :
    TextsSub (analyze tb tk (pre ++ .multi fi fq :: post) .query text)
             (analyze tb tk (pre ++ .multi fi fq :: post) .index text) := by
  rw [analyze_append, analyze_append, mode_agree_chain tb tk pre text htk hpre]
  generalize analyze tb tk pre .index text = T
  simp only [List.foldl_cons]
  have h0 : TextsSub (runFilter tb .query (.multi fi fq) T) (runFilter tb .index (.multi fi fq) T) := by
    cases T with
    | nil => intro a ha; simp [runFilter] at ha
    | cons t rest => simpa [runFilter] using hbr (t :: rest)
  generalize runFilter tb .query (.multi fi fq) T = A at h0
  generalize runFilter tb .index (.multi fi fq) T = B at h0
  induction post generalizing A B with
  | nil => exact h0
  | cons f fs ih =>
    simp only [List.foldl_cons]
    exact ih (fun f' hf' => hpost f' (by simp [hf'])) _ _
      (textwise_mono tb .query .index f (hpost f (by simp)) A B h0)

/-- `C17.findable` for such an analyzer: the term query of every query-time token matches the
    document indexed from the same text. -/
theorem findable_multi (tb : Tables) (tk : Tokenizer) (pre post : List Filter) (fi fq : Filter)
    (text : List CChar) (htk : Tokenizer.modeFree tk = true) (hpre : ∀ f ∈ pre, Filter.modeFree f = true)
    (hpost : ∀ f ∈ post, Filter.textwise f = true)
    (hbr : ∀ ts, TextsSub (runFilter tb .query fq ts) (runFilter tb .index fi ts)) :
    ∀ g ∈ analyze tb tk (pre ++ .multi fi fq :: post) .query text,
      termMatches (analyze tb tk (pre ++ .multi fi fq :: post) .index text) g.text := by
  intro g hg
  have hsub := mode_agree_multi tb tk pre post fi fq text htk hpre hpost hbr
  exact ((findable _).2.1 [g] (by intro x hx; rw [List.mem_singleton] at hx; rw [hx]; exact hsub g hg)) g (by simp)

/-- instance of `hbr`: both branches the same `NgramFilter` (it cuts fewer grams at query time) -/
example (tb : Tables) (min max : Nat) (hmin : 1 ≤ min) (hmm : min ≤ max) (at_ : At) :
    ∀ ts, TextsSub (runFilter tb .query (.ngram min max at_) ts) (runFilter tb .index (.ngram min max at_) ts) :=
  fun ts a ha => (mode_agree_ngrams min max hmin hmm).1 at_ ts a ha

/-- the mode is a real parameter of the model now: `MultiFilter(index=LowercaseFilter())` (query
    mode falls back to `PassFilter`) analyses `"Ab"` into `ab` at index time and `Ab` at query
    time - the query-time token does not find the document; and an empty stream stays empty -/
example :
    let tb : Tables := { lower := fun c => if 65 ≤ c ∧ c ≤ 90 then [c + 32] else [c], space := fun c => c = 32 }
    let ch (c : Nat) : CChar := ⟨c, (65 ≤ c ∧ c ≤ 90) ∨ (97 ≤ c ∧ c ≤ 122), c = 32, tb.lower c⟩
    (analyze tb (.regex .default) [.multi .lowercase .pass] .index ([65, 98].map ch)).map (·.text) = [[97, 98]] ∧
    (analyze tb (.regex .default) [.multi .lowercase .pass] .query ([65, 98].map ch)).map (·.text) = [[65, 98]] ∧
    analyze tb (.regex .default) [.multi .lowercase .pass] .index [] = [] := by
  decide +kernel

/-- `C17.positions`/`offsets` instance for the new text filters: `"Ab cd"` through
    `RegexTokenizer | ReverseTextFilter` (a `mapText`): offsets still delimit the source -/
example :
    let tb : Tables := { lower := fun c => [c], space := fun c => c = 32 }
    let ch (c : Nat) : CChar := ⟨c, c ≠ 32, c = 32, [c]⟩
    analyze tb (.regex .default) [.mapText List.reverse] .index ([65, 98, 32, 99, 100].map ch)
      = [{ text := [98, 65], pos := 0, startchar := 0, endchar := 2 },
         { text := [100, 99], pos := 1, startchar := 3, endchar := 5 }] := by
  decide +kernel

end WM.C17
