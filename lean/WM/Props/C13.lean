import WM.Model.Numeric
import WM.Spec.Numeric
import WM.Lemmas.NumericSplit
import WM.Lemmas.NumericField
import WM.Lemmas.NumericFloat
import WM.Lemmas.NumericUnguarded
import WM.Lemmas.NumericMembership
import WM.Lemmas.NumericDecimalRange
import WM.Lemmas.NumericEqualBounds
/-! C13 — numeric and date fields order and range-match exactly. -/
namespace WM.C13
open WM.Numeric WM.NumericSpec

/-! ### `split_ranges` -/

/-- **`split_ranges` is exact** (for the loop with the two wrap tests): for every width, precision
    step and `start ≤ end` inside the domain, a value passes the shifted comparison of some
    emitted range iff it lies in `[start, end]` — for *every* natural `v`, not only `v < 2^n`. -/
theorem split_exact (n step : Nat) (hstep : 0 < step) (s e v : Nat) (hse : s ≤ e) (he : e < 2 ^ n) :
    (∃ r ∈ splitRanges n step hstep s e, r.test v = true) ↔ (s ≤ v ∧ v ≤ e) := by
  have h := splitLoop_exact n step hstep v (n - 0) 0 s e rfl hse (by simpa using he)
  simpa [splitRanges] using h

example : splitRanges 8 4 (by decide) 17 200
    = [⟨17, 31, 0⟩, ⟨192, 200, 0⟩, ⟨32, 191, 4⟩] := by
  simp [splitRanges, splitLoop, notMask, pyAnd]; decide

/-- The loop of the pinned tree (no wrap tests) is **not** exact: `split_ranges(8, 4, 0, 3)` emits
    `(0, 511, 4)` next to `(0, 3, 0)`, so the value 100 passes although it is outside `[0, 3]`.
    This is the defect the `fix:` commit repairs; `split_exact` is about the repaired loop. -/
theorem split_unguarded_wrong :
    ¬ (∀ v, (∃ r ∈ splitLoopUnguarded 8 4 (by decide) 0 3 0, r.test v = true) ↔ (0 ≤ v ∧ v ≤ 3)) := by
  intro h
  have h100 := (h 100).1
  have : ∃ r ∈ splitLoopUnguarded 8 4 (by decide) 0 3 0, r.test 100 = true := by
    refine ⟨⟨0, 511, 4⟩, ?_, by decide⟩
    simp [splitLoopUnguarded, notMask, pyAnd]
    decide
  have := h100 this
  omega

/-- Every emitted range sits on an indexed precision level (`shift < n`, a multiple of `step`), its
    bounds are ordered and inside the `n`-bit domain, so the bytes of both bounds can be packed. -/
theorem split_shape (n step : Nat) (hstep : 0 < step) (hn : 0 < n) (s e : Nat) (hse : s ≤ e)
    (he : e < 2 ^ n) :
    ∀ r ∈ splitRanges n step hstep s e,
      r.shift % step = 0 ∧ r.shift < n ∧ r.lo ≤ r.hi ∧ r.hi < 2 ^ n := by
  intro r hr
  have h := splitLoop_shape n step hstep (n - 0) 0 s e rfl hn hse (by simpa using he) r
    (by simpa [splitRanges] using hr)
  have h2 : r.shift % step = 0 := by simpa using h.2.2.1
  exact ⟨h2, h.2.1, h.2.2.2⟩

example : ∀ r ∈ splitRanges 8 4 (by decide) 17 200,
    r.shift % 4 = 0 ∧ r.shift < 8 ∧ r.lo ≤ r.hi ∧ r.hi < 2 ^ 8 :=
  split_shape 8 4 (by decide) (by decide) 17 200 (by decide) (by decide)

/-! ### sortable encodings -/

/-- **Integer sortable encoding**, every width `n > 0`, both signednesses: the field's domain is
    the documented one, `to_sortable` maps it bijectively onto `[0, 2^n)` with inverse
    `from_sortable`, and preserves `<`. -/
theorem int_sortable (n : Nat) (hn : 0 < n) (signed : Bool) :
    (minMaxInt n signed =
      if signed then (-(2 : Int) ^ (n - 1), 2 ^ (n - 1) - 1) else (0, 2 ^ n - 1)) ∧
    (∀ x, inDomain n signed x →
      0 ≤ toSortableInt n signed x ∧ toSortableInt n signed x < 2 ^ n ∧
      fromSortableInt n signed (toSortableInt n signed x) = x) ∧
    (∀ s : Int, 0 ≤ s → s < 2 ^ n →
      inDomain n signed (fromSortableInt n signed s) ∧
      toSortableInt n signed (fromSortableInt n signed s) = s) ∧
    (∀ x y, toSortableInt n signed x < toSortableInt n signed y ↔ x < y) := by
  refine ⟨minMaxInt_eq n hn signed, ?_, ?_, toSortableInt_lt n signed⟩
  · intro x hx
    have := toSortableInt_range n hn signed x hx
    refine ⟨this.1, this.2, ?_⟩
    cases signed <;> simp [toSortableInt, fromSortableInt]
  · intro s h0 h1
    have h2 := two_pow_pred n hn
    unfold inDomain
    rw [minMaxInt_eq n hn]
    cases signed <;> simp only [toSortableInt, fromSortableInt, one_shiftLeft_cast] <;> simp <;> omega

example : inDomain 8 true (-128) ∧ toSortableInt 8 true (-128) = 0 ∧ toSortableInt 8 true 127 = 255 ∧
    ¬ inDomain 8 true 128 := by decide

/-- **Float sortable encoding** on 64-bit patterns (signed fields): a bijection of `[0, 2^64)` with
    inverse `sortable_long_to_float`, under which `<` on sortable values is the IEEE total order
    of the patterns (numeric order on non-NaN values, `-0.0 < +0.0`). -/
theorem float_sortable :
    (∀ b, b < 2 ^ 64 → ∃ s : Nat, floatToSortable b true = .ok (s : Int) ∧ s < 2 ^ 64 ∧
      sortableToFloat (s : Int) true = .ok b) ∧
    (∀ s : Nat, s < 2 ^ 64 → ∃ b, b < 2 ^ 64 ∧ sortableToFloat (s : Int) true = .ok b ∧
      floatToSortable b true = .ok (s : Int)) ∧
    (∀ a b (sa sb : Int), a < 2 ^ 64 → b < 2 ^ 64 → floatToSortable a true = .ok sa →
      floatToSortable b true = .ok sb → (totalLt a b = true ↔ sa < sb)) := by
  refine ⟨?_, ?_, ?_⟩
  · intro b hb
    by_cases h : b < 2 ^ 63
    · refine ⟨b + 2 ^ 63, ?_, by omega, ?_⟩
      · rw [floatToSortable_signed b hb, if_pos h]; simp
      · rw [sortableToFloat_signed _ (by omega)]
        have : 2 ^ 63 ≤ b + 2 ^ 63 := by omega
        rw [if_pos this]; exact congrArg _ (by omega)
    · refine ⟨2 ^ 64 - 1 - b, ?_, by omega, ?_⟩
      · rw [floatToSortable_signed b hb, if_neg h]; exact congrArg _ (by omega)
      · rw [sortableToFloat_signed _ (by omega)]
        have : ¬ (2 ^ 63 ≤ 2 ^ 64 - 1 - b) := by omega
        rw [if_neg this]; exact congrArg _ (by omega)
  · intro s hs
    by_cases h : 2 ^ 63 ≤ s
    · refine ⟨s - 2 ^ 63, by omega, ?_, ?_⟩
      · rw [sortableToFloat_signed s hs, if_pos h]
      · rw [floatToSortable_signed _ (by omega)]
        have : s - 2 ^ 63 < 2 ^ 63 := by omega
        rw [if_pos this]; exact congrArg _ (by omega)
    · refine ⟨2 ^ 64 - 1 - s, by omega, ?_, ?_⟩
      · rw [sortableToFloat_signed s hs, if_neg h]
      · rw [floatToSortable_signed _ (by omega)]
        have : ¬ (2 ^ 64 - 1 - s < 2 ^ 63) := by omega
        rw [if_neg this]; exact congrArg _ (by omega)
  · intro a b sa sb ha hb hsa hsb
    rw [floatToSortable_signed a ha] at hsa
    rw [floatToSortable_signed b hb] at hsb
    injection hsa with hsa
    injection hsb with hsb
    subst hsa hsb
    unfold totalLt
    by_cases h1 : a < 2 ^ 63 <;> by_cases h2 : b < 2 ^ 63 <;> simp only [h1, h2, if_true, if_false]
    · have e1 : a / 2 ^ 63 % 2 = 0 := by omega
      have e2 : b / 2 ^ 63 % 2 = 0 := by omega
      simp [e1, e2]; omega
    · have e1 : a / 2 ^ 63 % 2 = 0 := by omega
      have e2 : b / 2 ^ 63 % 2 = 1 := by omega
      simp [e1, e2]; omega
    · have e1 : a / 2 ^ 63 % 2 = 1 := by omega
      have e2 : b / 2 ^ 63 % 2 = 0 := by omega
      simp [e1, e2]; omega
    · have e1 : a / 2 ^ 63 % 2 = 1 := by omega
      have e2 : b / 2 ^ 63 % 2 = 1 := by omega
      simp [e1, e2]; omega

/-- -0.0 < +0.0 < smallest denormal, and -inf is the least non-NaN pattern's neighbour. -/
example : totalLt 0x8000000000000000 0 = true ∧ totalLt 0 1 = true ∧
    floatToSortable 0x8000000000000000 true = .ok 0x7fffffffffffffff ∧
    floatToSortable 0 true = .ok 0x8000000000000000 := by
  refine ⟨by decide, by decide, ?_, ?_⟩
  · rw [floatToSortable_signed _ (by decide)]; simp
  · rw [floatToSortable_signed _ (by decide)]; simp

/-- Unsigned float fields: the encoding is the identity on patterns with a clear sign bit (hence
    order preserving, by the signed case) and rejects every pattern with the sign bit set. -/
theorem float_sortable_unsigned :
    (∀ b, b < 2 ^ 63 → floatToSortable b false = .ok (b : Int) ∧ sortableToFloat (b : Int) false = .ok b) ∧
    (∀ b, 2 ^ 63 ≤ b → b < 2 ^ 64 → floatToSortable b false = .error .valueError) := by
  constructor
  · intro b hb
    rw [floatToSortable_unsigned b (by omega), sortableToFloat_unsigned, if_pos hb, if_pos hb]
    exact ⟨rfl, rfl⟩
  · intro b h1 h2
    rw [floatToSortable_unsigned b h2, if_neg (by omega)]

/-- 1.0 is encoded as itself, -0.0 is rejected. -/
example : floatToSortable 0x3ff0000000000000 false = .ok 0x3ff0000000000000 ∧
    floatToSortable 0x8000000000000000 false = .error .valueError :=
  ⟨(float_sortable_unsigned.1 _ (by decide)).1, float_sortable_unsigned.2 _ (by decide) (by decide)⟩

/-! ### term bytes -/

/-- **Term bytes order**: `[shift] ++ bigEndian(width, x)` compares lexicographically like the pair
    `(shift, x)`; equal bytes mean equal pairs; unpacking returns the number. -/
theorem bytes_order (w s t x y : Nat) (hx : x < 256 ^ w) (hy : y < 256 ^ w) :
    (bytesLe (s :: beBytes w x) (t :: beBytes w y) = true ↔ (s < t ∨ (s = t ∧ x ≤ y))) ∧
    ((s :: beBytes w x) = (t :: beBytes w y) ↔ (s = t ∧ x = y)) ∧
    beValue (beBytes w x) = x ∧ (beBytes w x).length = w ∧ (∀ b ∈ beBytes w x, b < 256) :=
  ⟨bytesLe_term w s t x y hx hy, term_eq_iff w s t x y hx hy,
   by rw [beValue_beBytes, Nat.mod_eq_of_lt hx], beBytes_length w x, beBytes_lt w x⟩

example : beBytes 2 0x1234 = [0x12, 0x34] ∧ bytesLe [4, 0, 255] [4, 1, 0] = true ∧
    bytesLe [4, 1, 0] [0, 255, 255] = false := by decide

/-! ### `tiered_ranges` -/

/-- **`tiered_ranges` on integer fields**: for every width, signedness, step (0 = untiered) and all
    sixteen combinations of open/closed × exclusive/inclusive ends — including empty intervals,
    `start > end` and ends at the domain limits — a value of the domain passes some emitted range
    iff it lies in the interval; every range sits on an indexed level inside the domain. -/
theorem tiered_int (n step : Nat) (hn : 0 < n) (signed : Bool) (start end_ : Option Int)
    (sx ex : Bool) (hs : ∀ a, start = some a → inDomain n signed a)
    (he : ∀ b, end_ = some b → inDomain n signed b) :
    (∀ x, inDomain n signed x →
      ((∃ r ∈ tieredInt n signed start end_ step sx ex,
          r.test (toSortableInt n signed x).toNat = true) ↔
        inInterval intLt start end_ sx ex x = true)) ∧
    (∀ r ∈ tieredInt n signed start end_ step sx ex,
      r.shift ∈ indexShifts n step ∧ r.lo ≤ r.hi ∧ r.hi < 2 ^ n) := by
  have hs' : ∀ a, start.map (toSortableInt n signed) = some a → 0 ≤ a ∧ a < 2 ^ n := by
    intro a ha
    cases start with
    | none => simp at ha
    | some a0 =>
      simp only [Option.map_some, Option.some.injEq] at ha
      subst ha; exact toSortableInt_range n hn signed a0 (hs a0 rfl)
  have he' : ∀ b, end_.map (toSortableInt n signed) = some b → 0 ≤ b ∧ b < 2 ^ n := by
    intro b hb
    cases end_ with
    | none => simp at hb
    | some b0 =>
      simp only [Option.map_some, Option.some.injEq] at hb
      subst hb; exact toSortableInt_range n hn signed b0 (he b0 rfl)
  constructor
  · intro x hx
    have hr := toSortableInt_range n hn signed x hx
    have hX : (toSortableInt n signed x).toNat < 2 ^ n := by
      have : ((toSortableInt n signed x).toNat : Int) < ((2 ^ n : Nat) : Int) := by
        rw [two_pow_cast]; omega
      exact Int.ofNat_lt.mp this
    unfold tieredInt
    rw [tieredSortable_exact n step _ _ sx ex _ hs' he' hX]
    have e : ((toSortableInt n signed x).toNat : Int) = toSortableInt n signed x := by omega
    rw [e, inInterval_map _ (toSortableInt_lt n signed)]
  · exact tieredSortable_shape n step hn _ _ sx ex hs' he'

/-- `[None TO 0}` on an unsigned byte field is empty; `{max TO None]` too; `[0 TO 3]` is one range. -/
example : tieredInt 8 false none (some 0) 4 false true = [] ∧
    tieredInt 8 false (some 255) none 4 true false = [] ∧
    tieredInt 8 false (some 0) (some 3) 4 false false = [⟨0, 3, 0⟩] := by
  refine ⟨by decide, by decide, ?_⟩
  simp [tieredInt, tieredSortable, toSortableInt, splitRanges, splitLoop, notMask, pyAnd]
  decide

/-- **`tiered_ranges` on (signed) float fields**: never raises on 64-bit patterns, and a pattern
    passes some emitted range iff it lies in the interval under the IEEE total order — for all
    combinations of open/closed and exclusive/inclusive ends. -/
theorem tiered_float (step : Nat) (start end_ : Option Nat) (sx ex : Bool)
    (hs : ∀ a, start = some a → a < 2 ^ 64) (he : ∀ b, end_ = some b → b < 2 ^ 64) :
    ∃ rs, tieredFloat true start end_ step sx ex = .ok rs ∧
      (∀ b, b < 2 ^ 64 → ∀ sb : Int, floatToSortable b true = .ok sb →
        ((∃ r ∈ rs, r.test sb.toNat = true) ↔ inInterval totalLt start end_ sx ex b = true)) ∧
      (∀ r ∈ rs, r.shift ∈ indexShifts 64 step ∧ r.lo ≤ r.hi ∧ r.hi < 2 ^ 64) := by
  have hfs : ∀ b, b < 2 ^ 64 → floatToSortable b true = .ok (fsort b) :=
    fun b hb => floatToSortable_signed b hb
  have hcomp : tieredFloat true start end_ step sx ex
      = .ok (tieredSortable 64 (start.map fsort) (end_.map fsort) step sx ex) := by
    unfold tieredFloat
    cases start with
    | none =>
      cases end_ with
      | none => rfl
      | some e => simp [hfs e (he e rfl), bind, Except.bind, pure, Except.pure, Except.map]
    | some a =>
      cases end_ with
      | none => simp [hfs a (hs a rfl), bind, Except.bind, pure, Except.pure, Except.map]
      | some e =>
        simp [hfs a (hs a rfl), hfs e (he e rfl), bind, Except.bind, pure, Except.pure, Except.map]
  have hs' : ∀ a, start.map fsort = some a → 0 ≤ a ∧ a < 2 ^ 64 := by
    intro a ha
    cases start with
    | none => simp at ha
    | some a0 =>
      simp only [Option.map_some, Option.some.injEq] at ha
      subst ha; exact fsort_range a0 (hs a0 rfl)
  have he' : ∀ b, end_.map fsort = some b → 0 ≤ b ∧ b < 2 ^ 64 := by
    intro b hb
    cases end_ with
    | none => simp at hb
    | some b0 =>
      simp only [Option.map_some, Option.some.injEq] at hb
      subst hb; exact fsort_range b0 (he b0 rfl)
  refine ⟨_, hcomp, ?_, tieredSortable_shape 64 step (by decide) _ _ sx ex hs' he'⟩
  intro b hb sb hsb
  rw [hfs b hb] at hsb
  injection hsb with hsb
  subst hsb
  have hr := fsort_range b hb
  have hX : (fsort b).toNat < 2 ^ 64 := by omega
  rw [tieredSortable_exact 64 step _ _ sx ex _ hs' he' hX]
  have e : ((fsort b).toNat : Int) = fsort b := by omega
  rw [e, inInterval_enc totalLt fsort (fun a => a < 2 ^ 64) totalLt_iff start end_ sx ex b hb hs he]

/-- Hypotheses are satisfiable: the interval `[-0.0, 1.0}` with the pattern of `+0.0` inside. -/
example : inInterval totalLt (some 0x8000000000000000) (some 0x3ff0000000000000) false true 0 = true ∧
    inInterval totalLt (some 0) (some 0x3ff0000000000000) false true 0x8000000000000000 = false := by decide

/-! ### indexed terms -/

/-- **`NUMERIC.index`**: a (prepared, sortable) value `X` of a `w`-byte field owns exactly one term
    per precision level `sh ∈ xrange(0, 8w, step)` (only level 0 when `step = 0`), namely
    `[sh] ++ bigEndian(X >> sh)` — exactly the levels the emitted ranges test. -/
theorem index_terms (w step X : Nat) (hw : 8 * w ≤ 256) (hX : X < 256 ^ w) :
    ∃ ts, indexTerms w step X = .ok ts ∧
      ∀ t, t ∈ ts ↔ ∃ sh, (if step = 0 then sh = 0 else sh < 8 * w ∧ sh % step = 0) ∧
        t = sh :: beBytes w (X >>> sh) := by
  refine ⟨_, indexTerms_ok w step X hw hX, ?_⟩
  intro t
  simp only [List.mem_map, mem_indexShifts, termOf]
  constructor
  · rintro ⟨sh, h1, rfl⟩; exact ⟨sh, h1, rfl⟩
  · rintro ⟨sh, h1, rfl⟩; exact ⟨sh, h1, rfl⟩

example : indexTerms 1 4 0xAB = .ok [[0, 0xAB], [4, 0x0A]] := by
  rw [indexTerms_ok 1 4 0xAB (by decide) (by decide)]
  simp [indexShifts, shiftsFrom, termOf, beBytes]

/-! ### the range query as a whole -/

/-- **`NumericRange` on an integer field** (`w ∈ {1,2,4,8}` bytes, any signedness and step): with
    bounds in the domain, `_compile_query` succeeds, and a document whose field value is `x` — i.e.
    which owns the terms `NUMERIC.index` produces for `x` — is matched by the compiled `Or` of
    `Term`/`TermRange` sub-queries iff `x` lies in the interval. -/
theorem range_query_int (w step : Nat) (hw : 0 < w) (hw' : 8 * w ≤ 256) (signed : Bool)
    (start end_ : Option Int) (sx ex : Bool) (x : Int)
    (hs : ∀ a, start = some a → inDomain (8 * w) signed a)
    (he : ∀ b, end_ = some b → inDomain (8 * w) signed b) (hx : inDomain (8 * w) signed x) :
    ∃ subs ts, compileInt w signed step start end_ sx ex = .ok subs ∧
      indexTerms w step (toSortableInt (8 * w) signed x).toNat = .ok ts ∧
      (matchesDoc subs ts = true ↔ inInterval intLt start end_ sx ex x = true) := by
  have hn : 0 < 8 * w := by omega
  have hprep : ∀ a, inDomain (8 * w) signed a → prepareInt (8 * w) signed a = .ok a := by
    intro a ha; rw [prepareInt_eq, if_pos ha]
  have hcomp : compileInt w signed step start end_ sx ex
      = compileRanges w (tieredInt (8 * w) signed start end_ step sx ex) := by
    unfold compileInt
    cases start with
    | none =>
      cases end_ with
      | none => rfl
      | some e => simp [hprep e (he e rfl), bind, Except.bind, pure, Except.pure, Except.map]
    | some a =>
      cases end_ with
      | none => simp [hprep a (hs a rfl), bind, Except.bind, pure, Except.pure, Except.map]
      | some e =>
        simp [hprep a (hs a rfl), hprep e (he e rfl), bind, Except.bind, Except.map]
  have hs' : ∀ a, start.map (toSortableInt (8 * w) signed) = some a → 0 ≤ a ∧ a < 2 ^ (8 * w) := by
    intro a ha
    cases start with
    | none => simp at ha
    | some a0 =>
      simp only [Option.map_some, Option.some.injEq] at ha
      subst ha; exact toSortableInt_range _ hn signed a0 (hs a0 rfl)
  have he' : ∀ b, end_.map (toSortableInt (8 * w) signed) = some b → 0 ≤ b ∧ b < 2 ^ (8 * w) := by
    intro b hb
    cases end_ with
    | none => simp at hb
    | some b0 =>
      simp only [Option.map_some, Option.some.injEq] at hb
      subst hb; exact toSortableInt_range _ hn signed b0 (he b0 rfl)
  have hr := toSortableInt_range _ hn signed x hx
  have hX : (toSortableInt (8 * w) signed x).toNat < 2 ^ (8 * w) := by
    have : ((toSortableInt (8 * w) signed x).toNat : Int) < ((2 ^ (8 * w) : Nat) : Int) := by
      rw [two_pow_cast]; omega
    exact Int.ofNat_lt.mp this
  obtain ⟨subs, ts, h1, h2, h3⟩ := compile_core w step hw hw' _ _ sx ex _ hs' he' hX
  refine ⟨subs, ts, by rw [hcomp]; exact h1, h2, ?_⟩
  have e : ((toSortableInt (8 * w) signed x).toNat : Int) = toSortableInt (8 * w) signed x := by omega
  rw [h3, e, inInterval_map _ (toSortableInt_lt (8 * w) signed)]

/-- Hypotheses are satisfiable (unsigned byte field, `[0 TO 3]`, value 2 inside, 200 outside). -/
example : inDomain (8 * 1) false 0 ∧ inDomain (8 * 1) false 3 ∧ inDomain (8 * 1) false 200 ∧
    inInterval intLt (some 0) (some 3) false false 2 = true ∧
    inInterval intLt (some 0) (some 3) false false 200 = false := by decide

example : ∃ subs ts, compileInt 1 false 4 (some 0) (some 3) false false = .ok subs ∧
    indexTerms 1 4 (toSortableInt (8 * 1) false 200).toNat = .ok ts ∧
    (matchesDoc subs ts = true ↔ inInterval intLt (some 0) (some 3) false false 200 = true) :=
  range_query_int 1 4 (by decide) (by decide) false (some 0) (some 3) false false 200
    (by intro a h; cases h; decide) (by intro a h; cases h; decide) (by decide)

/-- A multi-valued document (`NUMERIC.index` on a list, shared tier terms emitted once) matches
    iff at least one of its values lies in the interval. -/
theorem range_query_multi (w step : Nat) (hw : 0 < w) (hw' : 8 * w ≤ 256) (signed : Bool)
    (start end_ : Option Int) (sx ex : Bool) (xs : List Int)
    (hs : ∀ a, start = some a → inDomain (8 * w) signed a)
    (he : ∀ b, end_ = some b → inDomain (8 * w) signed b)
    (hxs : ∀ x ∈ xs, inDomain (8 * w) signed x) :
    ∃ subs ts, compileInt w signed step start end_ sx ex = .ok subs ∧
      indexTermsList w step (xs.map fun x => (toSortableInt (8 * w) signed x).toNat) = .ok ts ∧
      (matchesDoc subs ts = true ↔ ∃ x ∈ xs, inInterval intLt start end_ sx ex x = true) := by
  have hn : 0 < 8 * w := by omega
  -- the compiled query does not depend on the document: take it from the single-value theorem
  obtain ⟨subs, hsubs⟩ : ∃ subs, compileInt w signed step start end_ sx ex = .ok subs := by
    have hmin : inDomain (8 * w) signed (minMaxInt (8 * w) signed).1 := by
      unfold inDomain; rw [minMaxInt_eq _ hn]
      have := two_pow_pred (8 * w) hn
      have hp : (0 : Int) < 2 ^ (8 * w - 1) := Int.pow_pos (by decide)
      cases signed <;> simp <;> omega
    obtain ⟨subs, _, h, _⟩ := range_query_int w step hw hw' signed start end_ sx ex _ hs he hmin
    exact ⟨subs, h⟩
  have hX : ∀ X ∈ xs.map (fun x => (toSortableInt (8 * w) signed x).toNat), X < 256 ^ w := by
    intro X hXm
    simp only [List.mem_map] at hXm
    obtain ⟨x, hx, rfl⟩ := hXm
    have hr := toSortableInt_range _ hn signed x (hxs x hx)
    rw [pow256]
    have : ((toSortableInt (8 * w) signed x).toNat : Int) < ((2 ^ (8 * w) : Nat) : Int) := by
      rw [two_pow_cast]; omega
    exact Int.ofNat_lt.mp this
  obtain ⟨ts, hts, hiff⟩ := matchesDoc_list w step subs _ hw' hX
  refine ⟨subs, ts, hsubs, hts, ?_⟩
  rw [hiff]
  constructor
  · rintro ⟨X, hXm, hm⟩
    obtain ⟨x, hx, rfl⟩ := List.mem_map.mp hXm
    obtain ⟨subs', ts', h1, h2, h3⟩ :=
      range_query_int w step hw hw' signed start end_ sx ex x hs he (hxs x hx)
    rw [hsubs] at h1; injection h1 with h1; subst h1
    rw [indexTerms_ok w step _ hw' (hX _ hXm)] at h2
    injection h2 with h2; subst h2
    exact ⟨x, hx, h3.1 hm⟩
  · rintro ⟨x, hx, hm⟩
    have hXm : (toSortableInt (8 * w) signed x).toNat ∈
        xs.map (fun x => (toSortableInt (8 * w) signed x).toNat) := List.mem_map.mpr ⟨x, hx, rfl⟩
    obtain ⟨subs', ts', h1, h2, h3⟩ :=
      range_query_int w step hw hw' signed start end_ sx ex x hs he (hxs x hx)
    rw [hsubs] at h1; injection h1 with h1; subst h1
    rw [indexTerms_ok w step _ hw' (hX _ hXm)] at h2
    injection h2 with h2; subst h2
    exact ⟨_, hXm, h3.2 hm⟩

example : ∃ subs ts, compileInt 2 true 4 (some (-5)) none true false = .ok subs ∧
    indexTermsList 2 4 ([-5, 7, -32768].map fun x => (toSortableInt (8 * 2) true x).toNat) = .ok ts ∧
    (matchesDoc subs ts = true ↔ ∃ x ∈ [-5, 7, -32768], inInterval intLt (some (-5)) none true false x = true) :=
  range_query_multi 2 4 (by decide) (by decide) true (some (-5)) none true false [-5, 7, -32768]
    (by intro a h; cases h; decide) (by intro a h; cases h) (by decide)

/-- **`NumericRange` on a signed float field**: for all 64-bit patterns as bounds and value (NaNs
    included, ordered by the total order), compilation succeeds and the document matches iff its
    value lies in the interval. -/
theorem range_query_float (step : Nat) (start end_ : Option Nat) (sx ex : Bool) (b : Nat)
    (hs : ∀ a, start = some a → a < 2 ^ 64) (he : ∀ a, end_ = some a → a < 2 ^ 64)
    (hb : b < 2 ^ 64) :
    ∃ subs ts sb, compileFloat true step start end_ sx ex = .ok subs ∧
      floatToSortable b true = .ok sb ∧ indexTerms 8 step sb.toNat = .ok ts ∧
      (matchesDoc subs ts = true ↔ inInterval totalLt start end_ sx ex b = true) := by
  obtain ⟨subs, ts, h1, h2, h3⟩ := range_query_float_gen true fsort (fun a => a < 2 ^ 64)
    (fun b hb => floatToSortable_signed b hb) (fun b _ => prepareFloat_signed b) fsort_range
    totalLt_iff step start end_ sx ex b hs he hb
  exact ⟨subs, ts, fsort b, h1, floatToSortable_signed b hb, h2, h3⟩

example : ∃ subs ts sb, compileFloat true 4 (some 0x8000000000000000) none true false = .ok subs ∧
    floatToSortable 0 true = .ok sb ∧ indexTerms 8 4 sb.toNat = .ok ts ∧
    (matchesDoc subs ts = true ↔ inInterval totalLt (some 0x8000000000000000) none true false 0 = true) :=
  range_query_float 4 (some 0x8000000000000000) none true false 0
    (by intro a h; cases h; decide) (by intro a h; cases h) (by decide)

/-- The same on an unsigned float field, whose domain is the patterns with a clear sign bit. -/
theorem range_query_float_unsigned (step : Nat) (start end_ : Option Nat) (sx ex : Bool) (b : Nat)
    (hs : ∀ a, start = some a → a < 2 ^ 63) (he : ∀ a, end_ = some a → a < 2 ^ 63)
    (hb : b < 2 ^ 63) :
    ∃ subs ts, compileFloat false step start end_ sx ex = .ok subs ∧
      floatToSortable b false = .ok (b : Int) ∧ indexTerms 8 step b = .ok ts ∧
      (matchesDoc subs ts = true ↔ inInterval totalLt start end_ sx ex b = true) := by
  have hf : ∀ b, b < 2 ^ 63 → floatToSortable b false = .ok ((b : Nat) : Int) := by
    intro b hb; rw [floatToSortable_unsigned b (by omega), if_pos hb]
  obtain ⟨subs, ts, h1, h2, h3⟩ := range_query_float_gen false (fun b => (b : Int))
    (fun a => a < 2 ^ 63) hf prepareFloat_unsigned (fun b hb => by constructor <;> omega)
    totalLt_unsigned step start end_ sx ex b hs he hb
  exact ⟨subs, ts, h1, hf b hb, by simpa using h2, h3⟩

example : (0x3ff0000000000000 : Nat) < 2 ^ 63 ∧ (0x7ff0000000000000 : Nat) < 2 ^ 63 := by decide

/-! ### rejection of values outside the domain -/

/-- **Out-of-domain values are rejected, never wrapped**: `prepare_number` accepts an integer iff
    it lies in the field's domain (`ValueError` otherwise); `to_bytes` (indexing) yields the term of
    the sortable value for accepted numbers and `ValueError` otherwise — `struct.error` is
    unreachable; a `NumericRange` with a bound outside the domain raises `ValueError`. -/
theorem reject (w : Nat) (hw : 0 < w) (hw' : 8 * w ≤ 256) (signed : Bool) :
    (∀ x, prepareInt (8 * w) signed x =
      if inDomain (8 * w) signed x then .ok x else .error .valueError) ∧
    (∀ x sh, sh < 256 → toBytesInt w signed x sh =
      if inDomain (8 * w) signed x then
        .ok (sh :: beBytes w ((toSortableInt (8 * w) signed x).toNat >>> sh))
      else .error .valueError) ∧
    (∀ step start end_ sx ex,
      ((∃ a, start = some a ∧ ¬ inDomain (8 * w) signed a) ∨
       (∃ b, end_ = some b ∧ ¬ inDomain (8 * w) signed b)) →
      compileInt w signed step start end_ sx ex = .error .valueError) := by
  have hn : 0 < 8 * w := by omega
  refine ⟨prepareInt_eq (8 * w) signed, ?_, ?_⟩
  · intro x sh hsh
    unfold toBytesInt
    rw [prepareInt_eq]
    by_cases hx : inDomain (8 * w) signed x
    · have hr := toSortableInt_range _ hn signed x hx
      have hX : (toSortableInt (8 * w) signed x).toNat < 256 ^ w := by
        rw [pow256]
        have : ((toSortableInt (8 * w) signed x).toNat : Int) < ((2 ^ (8 * w) : Nat) : Int) := by
          rw [two_pow_cast]; omega
        exact Int.ofNat_lt.mp this
      simp only [hx, if_true, bind, Except.bind, sortableToBytes_ok w _ sh hsh hX, termOf]
    · simp only [hx, if_false, bind, Except.bind]
  · intro step start end_ sx ex h
    unfold compileInt
    rcases h with ⟨a, rfl, ha⟩ | ⟨b, rfl, hb⟩
    · simp [prepareInt_eq, ha, bind, Except.bind, Except.map]
    · cases start with
      | none => simp [prepareInt_eq, hb, bind, Except.bind, Except.map, pure, Except.pure]
      | some a =>
        by_cases ha : inDomain (8 * w) signed a
        · simp [prepareInt_eq, ha, hb, bind, Except.bind, Except.map]
        · simp [prepareInt_eq, ha, bind, Except.bind, Except.map]

example : prepareInt 8 false 256 = .error .valueError ∧ prepareInt 8 false 255 = .ok 255 ∧
    prepareInt 8 true (-129) = .error .valueError := ⟨rfl, rfl, rfl⟩

/-- Unsigned float fields reject every pattern with the sign bit set (negative numbers, `-0.0`,
    negative NaNs) with `ValueError` at indexing time. -/
theorem reject_float (b sh : Nat) (h1 : 2 ^ 63 ≤ b) (h2 : b < 2 ^ 64) :
    toBytesFloat false b sh = .error .valueError := by
  unfold toBytesFloat
  rcases prepareFloat_cases false b with h | h
  · rw [h]
    simp only [bind, Except.bind]
    rw [floatToSortable_unsigned b h2, if_neg (by omega)]
  · rw [h]; rfl

example : toBytesFloat false 0x8000000000000000 0 = .error .valueError :=
  reject_float _ 0 (by decide) (by decide)

/-! ### datetimes -/

/-- **`datetime_to_long` / `long_to_datetime`** on (days, seconds, microseconds) triples: mutually
    inverse, and the microsecond count orders datetimes like the triples (so DATETIME ranges are
    integer ranges). -/
theorem datetime :
    (∀ t : TD, t.normal → longToTD (tdToUsecs t) = t) ∧
    (∀ x : Int, tdToUsecs (longToTD x) = x ∧ (longToTD x).normal) ∧
    (∀ t u : TD, t.normal → u.normal →
      (tdToUsecs t < tdToUsecs u ↔
        (t.days < u.days ∨ (t.days = u.days ∧ (t.seconds < u.seconds ∨
          (t.seconds = u.seconds ∧ t.micros < u.micros)))))) := by
  refine ⟨?_, ?_, ?_⟩
  · rintro ⟨d, s, u⟩ ⟨h1, h2, h3, h4⟩
    simp only [longToTD, tdToUsecs] at *
    have e1 : (d * 86400000000 + s * 1000000 + u) / 86400000000 = d := by omega
    rw [e1]
    have e2 : (d * 86400000000 + s * 1000000 + u - d * 86400000000) / 1000000 = s := by omega
    rw [e2]
    congr 1
    omega
  · intro x
    simp only [longToTD, tdToUsecs, TD.normal]
    omega
  · rintro ⟨d, s, u⟩ ⟨d', s', u'⟩ ⟨h1, h2, h3, h4⟩ ⟨g1, g2, g3, g4⟩
    simp only [tdToUsecs] at *
    omega

example : longToTD 86400000001 = ⟨1, 0, 1⟩ ∧ tdToUsecs ⟨1, 0, 1⟩ = 86400000001 := by decide

/-! ### decimals -/

/-- **Decimal fields** (`decimal_places = dc`): every stored integer `m` decodes to `m / 10^dc`
    and encodes back to `m` (so `unprepare ∘ prepare = id` on decimals with at most `dc` places,
    which are exactly the values `m / 10^dc`), and decoding preserves order. -/
theorem decimal (dc : Nat) :
    (∀ m : Int, decimalToInt dc (unprepareDecimal dc m) = m) ∧
    (∀ a b : Int, unprepareDecimal dc a < unprepareDecimal dc b ↔ a < b) := by
  have hT : (0 : Rat) < (((10 : Int) ^ dc : Int) : Rat) :=
    Rat.intCast_pos.mpr (Int.pow_pos (by decide))
  have hT0 : (((10 : Int) ^ dc : Int) : Rat) ≠ 0 := fun h => by rw [h] at hT; exact absurd hT (by decide)
  constructor
  · intro m
    unfold decimalToInt unprepareDecimal
    simp only [Rat.div_mul_cancel hT0, Rat.num_intCast, Rat.den_intCast]
    exact Int.tdiv_one m
  · intro a b
    unfold unprepareDecimal
    rw [← Rat.mul_lt_mul_right hT, Rat.div_mul_cancel hT0, Rat.div_mul_cancel hT0]
    exact Rat.intCast_lt_intCast

example : decimalToInt 2 ((-5 : Rat) / 100) = -5 ∧ unprepareDecimal 2 (-5) = (-5 : Rat) / 100 := by
  constructor
  · have := (decimal 2).1 (-5)
    simpa [unprepareDecimal] using this
  · simp [unprepareDecimal]

/-! ### round 2: numeric membership of floats, Decimal bounds, DATETIME ranges -/

/-- The float range query against **numeric** membership (Python's `<`/`<=` on doubles), full
    statement: every pattern, every bound.  It is *false* (see `range_query_float_numeric_full_false`):
    the encoding orders patterns by the IEEE total order, so it tells `-0.0` from `+0.0` and gives
    NaNs a place. -/
def range_query_float_numeric_full : Prop :=
  ∀ (step : Nat) (start end_ : Option Nat) (sx ex : Bool) (b : Nat),
    (∀ a, start = some a → a < 2 ^ 64) → (∀ a, end_ = some a → a < 2 ^ 64) → b < 2 ^ 64 →
    ∀ subs ts sb, compileFloat true step start end_ sx ex = .ok subs →
      floatToSortable b true = .ok sb → indexTerms 8 step sb.toNat = .ok ts →
      (matchesDoc subs ts = true ↔ inIntervalNum start end_ sx ex b = true)

/-- **Float range query, numeric reading** (partial: the hypotheses exclude exactly the cases in
    which the total order and Python's comparison differ): if neither the document's value nor a
    bound is a NaN, and no bound is a zero of the opposite sign to a zero value, the document is
    matched iff `start <(=) value <(=) end` holds numerically. -/
theorem range_query_float_numeric_partial (step : Nat) (start end_ : Option Nat) (sx ex : Bool)
    (b : Nat) (hs : ∀ a, start = some a → a < 2 ^ 64) (he : ∀ a, end_ = some a → a < 2 ^ 64)
    (hb : b < 2 ^ 64) (hnan : isNaN b = false)
    (hs' : ∀ a, start = some a → isNaN a = false ∧ zeroClash a b = false)
    (he' : ∀ a, end_ = some a → isNaN a = false ∧ zeroClash a b = false) :
    ∃ subs ts sb, compileFloat true step start end_ sx ex = .ok subs ∧
      floatToSortable b true = .ok sb ∧ indexTerms 8 step sb.toNat = .ok ts ∧
      (matchesDoc subs ts = true ↔ inIntervalNum start end_ sx ex b = true) := by
  obtain ⟨subs, ts, sb, h1, h2, h3, h4⟩ := range_query_float step start end_ sx ex b hs he hb
  refine ⟨subs, ts, sb, h1, h2, h3, ?_⟩
  rw [h4, inInterval_total_eq_num start end_ sx ex b hnan hs' he']

/-- Hypotheses satisfiable: `[-1.5 TO 2.5}` with the value 1.0; and the excluded region is real:
    `-0.0` against the bound `+0.0` is a clash. -/
example : isNaN 0x3ff0000000000000 = false ∧ zeroClash 0xbff8000000000000 0x3ff0000000000000 = false ∧
    inIntervalNum (some 0xbff8000000000000) (some 0x4004000000000000) false true 0x3ff0000000000000 = true ∧
    zeroClash 0 0x8000000000000000 = true := by decide

/-- **The numeric reading fails on signed zeros and NaNs** (concrete, kernel-checked): a document
    holding `-0.0` is not matched by `[0.0 TO None]` although `-0.0 >= 0.0`; a document holding a
    (positive, quiet) NaN is matched by `[1.0 TO None]` although `nan >= 1.0` is false. -/
theorem range_query_float_numeric_full_false : ¬ range_query_float_numeric_full := by
  intro h
  -- the -0.0 document against [0.0 TO None]
  obtain ⟨subs, ts, sb, h1, h2, h3, h4⟩ :=
    range_query_float 4 (some 0) none false false 0x8000000000000000
      (by intro a ha; cases ha; decide) (by intro a ha; cases ha) (by decide)
  have hn := h 4 (some 0) none false false 0x8000000000000000
    (by intro a ha; cases ha; decide) (by intro a ha; cases ha) (by decide) subs ts sb h1 h2 h3
  have e1 : inInterval totalLt (some 0) none false false 0x8000000000000000 = false := by decide
  have e2 : inIntervalNum (some 0) none false false 0x8000000000000000 = true := by decide
  rw [e1] at h4
  rw [e2] at hn
  have := h4.1 (hn.2 rfl)
  exact absurd this (by decide)

/-- The NaN half of the same fact, stated on its own. -/
example : inInterval totalLt (some 0x3ff0000000000000) none false false 0x7ff8000000000000 = true ∧
    inIntervalNum (some 0x3ff0000000000000) none false false 0x7ff8000000000000 = false := by decide

/-- **`prepare_number` on Decimals is monotone** on arbitrary rationals (truncation towards zero
    never reverses the order of two values or bounds). -/
theorem decimal_monotone (dc : Nat) (p q : Rat) (h : p ≤ q) :
    decimalToInt dc p ≤ decimalToInt dc q := by
  rw [decimalToInt_eq, decimalToInt_eq]
  exact trunc_mono _ _ (Rat.mul_le_mul_of_nonneg_right h (Rat.le_of_lt (decScale_pos dc)))

/-- A range bound on a Decimal field is exact for every stored value, full statement: comparing
    the stored integers with the prepared (truncated) bound is the same as comparing the decoded
    Decimals with the bound itself.  False when the bound has more than `dc` places
    (see `decimal_bound_full_false`). -/
def decimal_bound_full : Prop :=
  ∀ (dc : Nat) (q : Rat) (x : Int),
    (decimalToInt dc q ≤ x ↔ q ≤ unprepareDecimal dc x) ∧
    (x ≤ decimalToInt dc q ↔ unprepareDecimal dc x ≤ q)

/-- **Decimal range bounds** (partial): for a bound `q` with *any* number of places, the truncated
    bound is exact as an **upper** bound when `q ≥ 0` and as a **lower** bound when `q ≤ 0`; and it
    is exact on both sides when `q` has at most `dc` places (`q = m / 10^dc`).  What is missing is a
    positive lower bound / negative upper bound with more than `dc` places: truncation towards zero
    moves it outwards. -/
theorem decimal_bound_partial (dc : Nat) (q : Rat) (x : Int) :
    (0 ≤ q → (x ≤ decimalToInt dc q ↔ unprepareDecimal dc x ≤ q)) ∧
    (q ≤ 0 → (decimalToInt dc q ≤ x ↔ q ≤ unprepareDecimal dc x)) ∧
    (∀ m : Int, q = unprepareDecimal dc m →
      (decimalToInt dc q ≤ x ↔ q ≤ unprepareDecimal dc x) ∧
      (x ≤ decimalToInt dc q ↔ unprepareDecimal dc x ≤ q)) := by
  refine ⟨?_, ?_, ?_⟩
  · intro h
    have h0 : 0 ≤ q * decScale dc := Rat.mul_nonneg h (Rat.le_of_lt (decScale_pos dc))
    rw [decimalToInt_eq, trunc_of_nonneg _ h0, Rat.le_floor_iff, unprep_le_iff]
  · intro h
    have h0 : q * decScale dc ≤ 0 := by
      have := Rat.mul_le_mul_of_nonneg_right h (Rat.le_of_lt (decScale_pos dc))
      rwa [Rat.zero_mul] at this
    rw [decimalToInt_eq, trunc_of_nonpos _ h0, Rat.ceil_le_iff, le_unprep_iff]
  · intro m hm
    subst hm
    rw [(decimal dc).1 m]
    constructor
    · rw [le_unprep_iff]
      show m ≤ x ↔ (m : Rat) / decScale dc * decScale dc ≤ x
      rw [Rat.div_mul_cancel (decScale_ne dc)]
      exact Rat.intCast_le_intCast.symm
    · rw [unprep_le_iff]
      show x ≤ m ↔ (x : Rat) ≤ (m : Rat) / decScale dc * decScale dc
      rw [Rat.div_mul_cancel (decScale_ne dc)]
      exact Rat.intCast_le_intCast.symm

/-- `[0.005 TO …]` on a field with two decimal places admits the stored value `0.00`. -/
theorem decimal_bound_full_false : ¬ decimal_bound_full := by
  intro h
  have h1 := (h 2 ((5 : Rat) / 1000) 0).1
  have e : decimalToInt 2 ((5 : Rat) / 1000) = 0 := by decide +kernel
  rw [e] at h1
  have h2 : (5 : Rat) / 1000 ≤ unprepareDecimal 2 0 := h1.1 (Int.le_refl 0)
  exact absurd h2 (by decide +kernel)

/-- **`DateRange` on a DATETIME field** (64-bit signed, `shift_step = 8`): the composition of
    `datetime` with `range_query_int`.  For datetimes given as normalised
    `(days, seconds, microseconds)` triples whose microsecond counts lie in the field's domain, the
    compiled query matches a document iff its datetime lies in the interval in the order of
    datetimes (lexicographic on the triple). -/
theorem range_query_datetime (start end_ : Option TD) (sx ex : Bool) (t : TD)
    (hs : ∀ a, start = some a → a.normal ∧ inDomain 64 true (tdToUsecs a))
    (he : ∀ a, end_ = some a → a.normal ∧ inDomain 64 true (tdToUsecs a))
    (ht : t.normal ∧ inDomain 64 true (tdToUsecs t)) :
    ∃ subs ts, compileInt 8 true 8 (start.map tdToUsecs) (end_.map tdToUsecs) sx ex = .ok subs ∧
      indexTerms 8 8 (toSortableInt 64 true (tdToUsecs t)).toNat = .ok ts ∧
      (matchesDoc subs ts = true ↔ inInterval tdLt start end_ sx ex t = true) := by
  have hs' : ∀ a, start.map tdToUsecs = some a → inDomain (8 * 8) true a := by
    intro a ha
    cases start with
    | none => simp at ha
    | some a0 =>
      simp only [Option.map_some, Option.some.injEq] at ha
      subst ha; exact (hs a0 rfl).2
  have he' : ∀ a, end_.map tdToUsecs = some a → inDomain (8 * 8) true a := by
    intro a ha
    cases end_ with
    | none => simp at ha
    | some a0 =>
      simp only [Option.map_some, Option.some.injEq] at ha
      subst ha; exact (he a0 rfl).2
  obtain ⟨subs, ts, h1, h2, h3⟩ :=
    range_query_int 8 8 (by decide) (by decide) true _ _ sx ex (tdToUsecs t) hs' he' ht.2
  refine ⟨subs, ts, h1, h2, ?_⟩
  rw [h3, inInterval_enc tdLt tdToUsecs TD.normal tdLt_iff start end_ sx ex t ht.1
    (fun a ha => (hs a ha).1) (fun a ha => (he a ha).1)]

/-- Hypotheses satisfiable: `datetime.min` and a day later, one microsecond in between. -/
example : (⟨0, 0, 0⟩ : TD).normal ∧ inDomain 64 true (tdToUsecs ⟨1, 0, 0⟩) ∧
    inInterval tdLt (some ⟨0, 0, 0⟩) (some ⟨1, 0, 0⟩) true true ⟨0, 0, 1⟩ = true ∧
    inInterval tdLt (some ⟨0, 0, 0⟩) (some ⟨1, 0, 0⟩) true true ⟨1, 0, 0⟩ = false := by
  refine ⟨by simp [TD.normal], by decide, by decide, by decide⟩

/-! ### round 4: the range query on Decimal fields as a whole -/

/-- **`NumericRange` on a Decimal field** (`decimal_places = dc`, `w ∈ {1,2,4,8}` bytes, any
    signedness and step): the composition of `decimal`, `prepare_number`'s truncation and
    `range_query_int`.  For *arbitrary* rational bounds whose prepared values lie in the domain,
    `_compile_query` succeeds and a document storing the scaled integer `x` (the Decimal
    `x / 10^dc`) is matched iff `x` lies between the *truncated* scaled bounds — the exact behaviour;
    and when every bound has at most `dc` places (`q = m / 10^dc`) this is membership of the
    document's Decimal value in the interval of the Decimal bounds themselves. -/
theorem range_query_decimal (w step dc : Nat) (hw : 0 < w) (hw' : 8 * w ≤ 256) (signed : Bool)
    (start end_ : Option Rat) (sx ex : Bool) (x : Int)
    (hs : ∀ q, start = some q → inDomain (8 * w) signed (decimalToInt dc q))
    (he : ∀ q, end_ = some q → inDomain (8 * w) signed (decimalToInt dc q))
    (hx : inDomain (8 * w) signed x) :
    ∃ subs ts, compileDecimal w signed step dc start end_ sx ex = .ok subs ∧
      indexTerms w step (toSortableInt (8 * w) signed x).toNat = .ok ts ∧
      (matchesDoc subs ts = true ↔
        inInterval intLt (start.map (decimalToInt dc)) (end_.map (decimalToInt dc)) sx ex x = true) ∧
      ((∀ q, start = some q → ∃ m : Int, q = unprepareDecimal dc m) →
       (∀ q, end_ = some q → ∃ m : Int, q = unprepareDecimal dc m) →
        (matchesDoc subs ts = true ↔
          inInterval ratLt start end_ sx ex (unprepareDecimal dc x) = true)) := by
  have hs' : ∀ a, start.map (decimalToInt dc) = some a → inDomain (8 * w) signed a := by
    intro a ha
    cases start with
    | none => simp at ha
    | some q =>
      simp only [Option.map_some, Option.some.injEq] at ha
      subst ha; exact hs q rfl
  have he' : ∀ a, end_.map (decimalToInt dc) = some a → inDomain (8 * w) signed a := by
    intro a ha
    cases end_ with
    | none => simp at ha
    | some q =>
      simp only [Option.map_some, Option.some.injEq] at ha
      subst ha; exact he q rfl
  obtain ⟨subs, ts, h1, h2, h3⟩ :=
    range_query_int w step hw hw' signed _ _ sx ex x hs' he' hx
  refine ⟨subs, ts, by rw [compileDecimal_eq]; exact h1, h2, h3, ?_⟩
  intro hS hE
  have back : ∀ o : Option Rat, (∀ q, o = some q → ∃ m : Int, q = unprepareDecimal dc m) →
      (o.map (decimalToInt dc)).map (unprepareDecimal dc) = o := by
    intro o ho
    cases o with
    | none => rfl
    | some q =>
      obtain ⟨m, rfl⟩ := ho q rfl
      simp only [Option.map_some, (decimal dc).1 m]
  rw [h3, ← inInterval_rat_of_int (unprepareDecimal dc) (decimal dc).2, back start hS, back end_ hE]

/-- Hypotheses satisfiable (two places, signed byte field, `{-0.05 TO 1.27]`): the stored `-5`
    (`-0.05`) is outside, `0` is inside; and a bound with three places (`0.005`) is truncated to the
    stored `0`, so `[0.005 TO …]` admits `0.00` — the recorded deviation, here in its exact form. -/
example : ∃ subs ts,
    compileDecimal 1 true 4 2 (some (unprepareDecimal 2 (-5))) (some (unprepareDecimal 2 127)) true false = .ok subs ∧
    indexTerms 1 4 (toSortableInt (8 * 1) true 0).toNat = .ok ts ∧
    (matchesDoc subs ts = true ↔
      inInterval ratLt (some (unprepareDecimal 2 (-5))) (some (unprepareDecimal 2 127)) true false
        (unprepareDecimal 2 0) = true) := by
  obtain ⟨subs, ts, h1, h2, _, h4⟩ := range_query_decimal 1 4 2 (by decide) (by decide) true
    (some (unprepareDecimal 2 (-5))) (some (unprepareDecimal 2 127)) true false 0
    (by intro q h; cases h; rw [(decimal 2).1]; decide)
    (by intro q h; cases h; rw [(decimal 2).1]; decide) (by decide)
  exact ⟨subs, ts, h1, h2, h4 (by intro q h; cases h; exact ⟨_, rfl⟩) (by intro q h; cases h; exact ⟨_, rfl⟩)⟩

example : inInterval intLt ((some ((5 : Rat) / 1000)).map (decimalToInt 2)) none false false 0 = true ∧
    inInterval ratLt (some ((5 : Rat) / 1000)) none false false (unprepareDecimal 2 0) = false := by
  decide +kernel

/-! ### round 4: bounds that are equal as numbers but not as encodings -/

/-- **Closed float range whose bounds are `==` in Python** (`start == end`, neither a NaN): by
    `pyEq_iff` the bounds are the same pattern or the two zeros, and the compiled query matches a
    document iff the encoded start is not above the encoded end and the document's value is one of
    the two bounds.  So `[x TO x]` is the point query for the pattern `x`, `[-0.0 TO 0.0]` matches
    exactly the documents holding `-0.0` **or** `+0.0`, and `[0.0 TO -0.0]` matches nothing: a single
    term lookup of `start` (numeric equality taken for encoding equality) is wrong on the zeros. -/
theorem range_query_float_equal_bounds (step a b v : Nat) (ha : a < 2 ^ 64) (hb : b < 2 ^ 64)
    (hv : v < 2 ^ 64) (heq : pyEq a b = true) :
    ∃ subs ts sb, compileFloat true step (some a) (some b) false false = .ok subs ∧
      floatToSortable v true = .ok sb ∧ indexTerms 8 step sb.toNat = .ok ts ∧
      (matchesDoc subs ts = true ↔ (totalLt b a = false ∧ (v = a ∨ v = b))) := by
  obtain ⟨subs, ts, sb, h1, h2, h3, h4⟩ := range_query_float step (some a) (some b) false false v
    (by intro x hx; cases hx; exact ha) (by intro x hx; cases hx; exact hb) hv
  exact ⟨subs, ts, sb, h1, h2, h3, by rw [h4, equal_bounds_total a b v ha hb hv heq]⟩

/-- Hypotheses satisfiable and both zero cases real: `-0.0 == 0.0`; `[-0.0 TO 0.0]` holds `+0.0`
    (which the term of `-0.0` alone does not select), `[0.0 TO -0.0]` does not hold `+0.0`. -/
example : pyEq 0x8000000000000000 0 = true ∧ pyEq 0 0x8000000000000000 = true ∧
    pyEq 0x3ff0000000000000 0x3ff0000000000000 = true ∧
    inInterval totalLt (some 0x8000000000000000) (some 0) false false 0 = true ∧
    inInterval totalLt (some 0x8000000000000000) (some 0x8000000000000000) false false 0 = false ∧
    inInterval totalLt (some 0) (some 0x8000000000000000) false false 0 = false := by decide

example : ∃ subs ts sb, compileFloat true 4 (some 0x8000000000000000) (some 0) false false = .ok subs ∧
    floatToSortable 0 true = .ok sb ∧ indexTerms 8 4 sb.toNat = .ok ts ∧
    (matchesDoc subs ts = true ↔
      (totalLt 0 0x8000000000000000 = false ∧ (0 = 0x8000000000000000 ∨ 0 = 0))) :=
  range_query_float_equal_bounds 4 0x8000000000000000 0 0 (by decide) (by decide) (by decide) (by decide)

/-! ### round 4: multi-valued float documents -/

/-- **A multi-valued document on a signed float field** (`NUMERIC(float).index` on a list: every
    value encoded by `float_to_sortable_long`, the tier terms of all values with shared terms
    emitted once) matches the compiled range query iff at least one of its values lies in the
    interval under the total order — for all patterns, steps, bounds and flags. -/
theorem range_query_float_multi (step : Nat) (start end_ : Option Nat) (sx ex : Bool) (bs : List Nat)
    (hs : ∀ a, start = some a → a < 2 ^ 64) (he : ∀ a, end_ = some a → a < 2 ^ 64)
    (hbs : ∀ b ∈ bs, b < 2 ^ 64) :
    ∃ subs sbs ts, compileFloat true step start end_ sx ex = .ok subs ∧
      bs.mapM (fun b => floatToSortable b true) = .ok sbs ∧
      indexTermsList 8 step (sbs.map Int.toNat) = .ok ts ∧
      (matchesDoc subs ts = true ↔ ∃ b ∈ bs, inInterval totalLt start end_ sx ex b = true) := by
  obtain ⟨subs, _, _, hsubs, _⟩ := range_query_float step start end_ sx ex 0 hs he (by decide)
  have hm : bs.mapM (fun b => floatToSortable b true) = .ok (bs.map fsort) :=
    mapM_ok _ _ bs (fun b hb => floatToSortable_signed b (hbs b hb))
  have hX : ∀ X ∈ (bs.map fsort).map Int.toNat, X < 256 ^ 8 := by
    intro X hXm
    simp only [List.mem_map] at hXm
    obtain ⟨_, ⟨b, hb, rfl⟩, rfl⟩ := hXm
    have hr := fsort_range b (hbs b hb)
    rw [pow256]; omega
  obtain ⟨ts, hts, hiff⟩ := matchesDoc_list 8 step subs _ (by decide) hX
  refine ⟨subs, _, ts, hsubs, hm, hts, ?_⟩
  rw [hiff]
  have key : ∀ b ∈ bs, (matchesDoc subs ((indexShifts (8 * 8) step).map (termOf 8 (fsort b).toNat)) = true ↔
      inInterval totalLt start end_ sx ex b = true) := by
    intro b hb
    obtain ⟨subs', ts', sb, h1, h2, h3, h4⟩ := range_query_float step start end_ sx ex b hs he (hbs b hb)
    rw [hsubs] at h1; injection h1 with h1; subst h1
    rw [floatToSortable_signed b (hbs b hb)] at h2; injection h2 with h2; subst h2
    have hXb : (fsort b).toNat < 256 ^ 8 := by
      have hr := fsort_range b (hbs b hb)
      rw [pow256]; omega
    rw [show (if b < 2 ^ 63 then (b : Int) + 2 ^ 63 else 2 ^ 64 - 1 - (b : Int)) = fsort b from rfl,
      indexTerms_ok 8 step _ (by decide) hXb] at h3
    injection h3 with h3; subst h3
    exact h4
  constructor
  · rintro ⟨X, hXm, hmm⟩
    simp only [List.mem_map] at hXm
    obtain ⟨_, ⟨b, hb, rfl⟩, rfl⟩ := hXm
    exact ⟨b, hb, (key b hb).1 hmm⟩
  · rintro ⟨b, hb, hmm⟩
    exact ⟨(fsort b).toNat, List.mem_map.mpr ⟨_, List.mem_map.mpr ⟨b, hb, rfl⟩, rfl⟩, (key b hb).2 hmm⟩

example : ∃ subs sbs ts, compileFloat true 4 (some 0x8000000000000000) (some 0) false true = .ok subs ∧
    [0x3ff0000000000000, 0x8000000000000000, 0].mapM (fun b => floatToSortable b true) = .ok sbs ∧
    indexTermsList 8 4 (sbs.map Int.toNat) = .ok ts ∧
    (matchesDoc subs ts = true ↔ ∃ b ∈ [0x3ff0000000000000, 0x8000000000000000, 0],
      inInterval totalLt (some 0x8000000000000000) (some 0) false true b = true) :=
  range_query_float_multi 4 (some 0x8000000000000000) (some 0) false true
    [0x3ff0000000000000, 0x8000000000000000, 0]
    (by intro a h; cases h; decide) (by intro a h; cases h; decide) (by decide)

end WM.C13
