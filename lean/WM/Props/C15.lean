import WM.Lemmas.NormalizeMain
import WM.Lemmas.NormalizeOps
import WM.Lemmas.NormalizeEstimate
import WM.Lemmas.NormalizeIdem5
import WM.Lemmas.NormalizeWitness
import WM.Lemmas.NormalizeExc
import WM.Lemmas.NormalizeDedupe
import WM.Lemmas.NormalizeNested
/-!
C15 — query rewriting never changes what a query means.

Model: `WM.Normalize` (lean/WM/Model/Normalize.lean, NormalizeReader.lean) mirrors the rewrite
methods of `whoosh.query`; specification: `WM.Sat.sat` (lean/WM/Spec/Sat.lean).  Every theorem
holds for every environment `env` (index contents, multi-term expansions, glob bracket semantics,
positional part of sequences).

The pinned tree has rewrite rules that are *not* meaning preserving and that its test-suite pins
(findings/C15.json): the main theorem is therefore `normalize_sat_partial`, under the decidable
hypothesis `WM.Clean.clean q` that excludes exactly those rules, `Doc.BelowMax` (no term at or above
`u"￿"`) and `EOk env q`: the tree has no `TermRange` with an exclusive open/empty start where a
rewrite touches it (`WM.Clean.emptyOk`), *or* no document holds the empty term.  (`WM.Sat.sat` reads
the multi-term leaves as the repaired `MultiTerm.matcher` does: the empty term counts.)  The full
statement is kept as `normalize_sat_full` and refuted below on a concrete witness per recorded defect.
-/
namespace WM.C15
open WM.Normalize WM.Sat WM.Clean

/-! ### normalize -/

/-- `normalize()` keeps the set of matching documents, on every index of plain documents, for every
    tree that does not run into one of the recorded defects. -/
theorem normalize_sat_partial (env : Env) (q : Q) (hq : clean q = true) (he : EOk env q)
    (hidx : ∀ d ∈ env.index, d.BelowMax) (d : Doc) (hd : d ∈ env.index) :
    sat env (normalize q) d = sat env q d :=
  normalize_sat_aux env hidx q hq he d hd

/-- Consequence for whole answers. -/
theorem normalize_answer_partial (env : Env) (q : Q) (hq : clean q = true) (he : EOk env q)
    (hidx : ∀ d ∈ env.index, d.BelowMax) : answer env (normalize q) = answer env q := by
  unfold answer
  congr 1
  apply List.filter_congr
  exact fun d hd => normalize_sat_partial env q hq he hidx d hd

/-- The form of round 1/2: on an index of plain documents (no empty term, nothing at or above `u"￿"`)
    every clean tree keeps its meaning, exclusive open starts included. -/
theorem normalize_sat_plain (env : Env) (q : Q) (hq : clean q = true)
    (hidx : ∀ d ∈ env.index, d.Plain) (d : Doc) (hd : d ∈ env.index) :
    sat env (normalize q) d = sat env q d :=
  normalize_sat_aux env (fun d hd => (hidx d hd).belowMax) q hq (Or.inr fun d hd => (hidx d hd).noEmpty) d hd

/-- On an index that holds the empty term: ranges with inclusive or non-empty starts are merged, turned
    into `Every(f)`/`Term` and de-duplicated without changing the answer (document 0 has the empty
    term in field 0, document 1 the term `b`). -/
example :
    let envE : Env := { env0 with index := [doc 0 [[]], doc 1 [[98]]] }
    let q : Q := .comp .or [.range 0 none (some [97]) false false 1 true, .range 0 (some []) none false false 2 true,
      .wild 0 [] 1 true, .range 0 (some [97]) (some [99]) true false 1 true] 1
    clean q = true ∧ emptyOk q = true ∧ normalize q = .every (some 0) 2
      ∧ answer envE q = [0, 1] ∧ answer envE (normalize q) = [0, 1]
      ∧ answer envE (.wild 0 [] 1 true) = [0] ∧ answer envE (.pre 0 [] 1 true) = [0, 1] := by
  refine ⟨by decide +kernel, by decide +kernel, by decide +kernel, by decide +kernel, by decide +kernel,
    by decide +kernel, by decide +kernel⟩

/-- The statement of the property, at full strength.  It is false for the pinned tree. -/
def normalize_sat_full : Prop :=
  ∀ (env : Env) (q : Q) (d : Doc), d ∈ env.index → sat env (normalize q) d = sat env q d

/-- Non-vacuity: a clean tree that exercises flattening, de-duplication, range merging under `Or`,
    `Every` absorption under `Or` and single-clause unwrapping, on an index of plain documents. -/
example :
    let q : Q := .comp .or [.comp .or [.term 0 [97] 1, .range 0 (some [97]) (some [99]) false false 1 true] 2,
      .term 0 [97] 2, .range 0 (some [98]) none false false 1 true, .comp .and [.every none 1, .term 0 [112] 1] 1] 1
    clean q = true ∧ normalize q = .comp .or [.term 0 [97] 2, .range 0 (some [97]) none false false 2 true,
      .term 0 [112] 1] 1 ∧ answer env0 q = [0, 1] ∧ answer env0 (normalize q) = [0, 1] := by
  refine ⟨by decide +kernel, by decide +kernel, by decide +kernel, by decide +kernel⟩

/-! Recorded defects: each one refutes `normalize_sat_full` (and lies outside `clean`). -/

/-- `And([x, NullQuery])` -> `x`. -/
theorem defect_and_null :
    let q : Q := .comp .and [.term 0 [97] 1, .null] 1
    clean q = false ∧ normalize q = .term 0 [97] 1 ∧ answer env0 q = [] ∧ answer env0 (normalize q) = [0] := by
  refine ⟨by decide +kernel, by decide +kernel, by decide +kernel, by decide +kernel⟩

/-- `Not(NullQuery)` -> `NullQuery`. -/
theorem defect_not_null :
    let q : Q := .comp .or [.term 0 [97] 1, .not .null 1] 1
    clean q = false ∧ normalize q = .term 0 [97] 1 ∧ answer env0 q = [0, 1]
      ∧ answer env0 (normalize q) = [0] := by
  refine ⟨by decide +kernel, by decide +kernel, by decide +kernel, by decide +kernel⟩

/-- `And([Every(f), Term(f, a)])` -> `Every(f)`. -/
theorem defect_and_every_field :
    let q : Q := .comp .and [.every (some 0) 1, .term 0 [97] 1] 1
    clean q = false ∧ normalize q = .every (some 0) 1 ∧ answer env0 q = [0]
      ∧ answer env0 (normalize q) = [0, 1] := by
  refine ⟨by decide +kernel, by decide +kernel, by decide +kernel, by decide +kernel⟩

/-- `And([[a TO m], [f TO q]])` -> `[f TO m]` although document 1 has `b` and `p`. -/
theorem defect_and_range_multivalued :
    let q : Q := .comp .and [.range 0 (some [97]) (some [109]) false false 1 true,
      .range 0 (some [102]) (some [113]) false false 1 true] 1
    clean q = false ∧ normalize q = .range 0 (some [102]) (some [109]) false false 1 true
      ∧ answer env0 q = [1] ∧ answer env0 (normalize q) = [] := by
  refine ⟨by decide +kernel, by decide +kernel, by decide +kernel, by decide +kernel⟩

/-- `And([[a TO z], [b TO b']])` with nested ranges -> the *outer* range. -/
theorem defect_and_range_nested :
    let q : Q := .comp .and [.range 0 (some [97]) (some [122]) false false 1 true,
      .range 0 (some [99]) (some [100]) false false 1 true] 1
    clean q = false ∧ normalize q = .range 0 (some [97]) (some [122]) false false 1 true
      ∧ answer env0 q = [] ∧ answer env0 (normalize q) = [0, 1] := by
  refine ⟨by decide +kernel, by decide +kernel, by decide +kernel, by decide +kernel⟩

theorem not_normalize_sat_full : ¬ normalize_sat_full := by
  intro h
  have := h env0 (.comp .and [.term 0 [97] 1, .null] 1) (doc 0 [[97], [98]]) (by simp [env0])
  revert this
  decide +kernel

/-- What is still false about odd terms.  (1) A `TermRange` with an *exclusive* open start leaves the
    empty term out (`TermRange._btexts` skips a first term equal to the start `b""`), `TermRange.normalize`
    turns it into `Every(f)`, which does not: `emptyOk` cannot be dropped on an index that holds the empty
    term.  The same range with an inclusive start is fine.  (2) A term at or above `u"￿"` is outside
    `[... TO u"￿"]` but inside the `Every(f)` that `normalize` makes of it: `Doc.BelowMax` cannot be
    dropped. -/
theorem defect_open_excl_start :
    let envE : Env := { env0 with index := [doc 0 [[]], doc 1 [[98]]] }
    let q1 : Q := .range 0 none none true false 1 true
    let q1' : Q := .range 0 (some []) (some maxText) true false 1 true
    clean q1 = true ∧ emptyOk q1 = false ∧ emptyOk q1' = false
      ∧ normalize q1 = .every (some 0) 1 ∧ answer envE q1 = [1] ∧ answer envE (normalize q1) = [0, 1]
      ∧ normalize q1' = .every (some 0) 1 ∧ answer envE q1' = [1]
      ∧ emptyOk (.range 0 none none false false 1 true) = true
      ∧ answer envE (.range 0 none none false false 1 true) = [0, 1] := by
  refine ⟨by decide +kernel, by decide +kernel, by decide +kernel, by decide +kernel, by decide +kernel,
    by decide +kernel, by decide +kernel, by decide +kernel, by decide +kernel, by decide +kernel⟩

/-- The merging loop has the same blind spot: the comparable of an open start is `(Lowest, 0)` whether
    exclusive or not, so `Or([{ TO a], [b TO c]])`-like unions forget the exclusion. -/
example :
    let envE : Env := { env0 with index := [doc 0 [[]], doc 1 [[98]]] }
    let q : Q := .comp .or [.range 0 none (some [98]) true false 1 true, .range 0 (some [97]) (some [99]) false false 1 true] 1
    clean q = true ∧ emptyOk q = false ∧ normalize q = .range 0 none (some [99]) false false 1 true
      ∧ answer envE q = [1] ∧ answer envE (normalize q) = [0, 1] := by
  refine ⟨by decide +kernel, by decide +kernel, by decide +kernel, by decide +kernel, by decide +kernel⟩

theorem defect_odd_terms :
    let envA : Env := { env0 with index := [doc 0 [[0x1F600]]] }
    let q2 : Q := .range 0 none (some maxText) false false 1 true
    emptyOk q2 = true ∧ normalize q2 = .every (some 0) 1 ∧ answer envA q2 = []
      ∧ answer envA (normalize q2) = [0] := by
  refine ⟨by decide +kernel, by decide +kernel, by decide +kernel, by decide +kernel⟩

/-- `normalize` is total (a structurally / well-founded recursive function, no fuel) and its results
    have the shape the rewrite promises: a compound has at least two clauses and its `TermRange`
    clauses are fixed points of `TermRange.normalize`. -/
theorem total (q : Q) : ∃ r, normalize q = r ∧ NF r = true := ⟨_, rfl, normalize_NF q⟩

example : NF (normalize (.comp .and [.comp .and [] 1, .comp .or [.null] 2] 1)) = true
    ∧ normalize (.comp .and [.comp .and [] 1, .comp .or [.null] 2] 1) = .null := by
  refine ⟨by decide +kernel, by decide +kernel⟩

/-- `normalize()` never raises.  `normalizeE` (lean/WM/Model/NormalizeExc.lean) mirrors the same code in
    the exception monad with the one statement on its path that can raise kept as a raising site
    (`assert self.fieldname == other.fieldname` in `RangeMixin.merge`); it returns a query for every
    tree, the query is `normalize q`, and it has the promised shape. -/
theorem never_raises (q : Q) : ∃ r, normalizeE q = .ok r ∧ r = normalize q ∧ NF r = true :=
  ⟨normalize q, normalizeE_eq q, rfl, normalize_NF q⟩

/-- The operators `&`, `|`, `-` never raise either. -/
theorem ops_never_raise (a b : Q) :
    opAndE a b = .ok (opAnd a b) ∧ opOrE a b = .ok (opOr a b) ∧ opSubE a b = .ok (opSub a b) :=
  ⟨normalizeE_eq _, normalizeE_eq _, normalizeE_eq _⟩

/-- The raising site is a real one: `merge` of two ranges on different fields trips the `assert` (what
    keeps `normalize` from reaching it is `overlaps`, which compares the field names first); and a tree
    whose ranges sit on two fields and overlap as intervals goes through. -/
example :
    let a : Rng := ⟨0, some [97], some [99], false, false, 1, true⟩
    let b : Rng := ⟨1, some [98], some [100], false, false, 1, true⟩
    a.mergeE b false = .error .assertion ∧ a.overlaps b = false
      ∧ normalizeE (.comp .or [a.toQ, b.toQ, (Rng.mk 0 (some [98]) none false false 2 true).toQ] 1)
        = .ok (.comp .or [.range 0 (some [97]) none false false 2 true, b.toQ] 1) := by
  refine ⟨by simp [Rng.mergeE], by decide +kernel, ?_⟩
  rw [normalizeE_eq]
  exact congrArg Except.ok (by decide +kernel)

/-- `normalize` is idempotent: for every tree (no hypothesis).  Proved through the normal forms
    `WM.Normalize.Normal`: `normalize` produces them and leaves them alone.  (True of the tree with
    the `fix:` "restart the scan after every merge"; the pinned tree was not idempotent.) -/
theorem idempotent (q : Q) : normalize (normalize q) = normalize q := normalize_idempotent q

/-- The input on which the pinned tree was not idempotent: three ranges, the last one bridging the
    first two. -/
example :
    let q : Q := .comp .or [.range 0 (some [97]) (some [98]) false false 1 true,
      .range 0 (some [101]) (some [102]) false false 1 true, .range 0 (some [98]) (some [101]) false false 1 true] 1
    normalize q = .range 0 (some [97]) (some [102]) false false 1 true
      ∧ Normal (normalize q) = true ∧ Normal q = false := by
  refine ⟨by decide +kernel, by decide +kernel, by decide +kernel⟩

/-- Span queries (`query/spans.py`) are opaque leaves of every rewrite: `normalize` leaves them alone,
    de-duplicates equal ones, and lets `Every(f)` absorb only those that report the field `f`
    (`SpanFirst` of a query on `f`), never an unfielded one. -/
example :
    let sp : Q := .opq none [40, 115, 112, 97, 110]
    let sf : Q := .opq (some 0) [40, 115, 102]
    normalize (.comp .or [sp, .every (some 0) 1, sf, sp] 2) = .comp .or [sp, .every (some 0) 1] 2
      ∧ clean (.comp .and [sp, .term 0 [97] 1] 1) = true
      ∧ acceptId (.not sp 3) = .not sp 1 ∧ replace 0 [113] [97] sp = sp ∧ sp.withBoost 4 = sp := by
  refine ⟨by decide +kernel, by decide +kernel, by decide +kernel, by decide +kernel, by decide +kernel⟩

/-! ### `RangeMixin.merge` -/

/-- Under `Or`: the merge of two overlapping ranges holds exactly the terms of their union. -/
theorem range_merge_union (a b : Rng) (h : a.overlaps b = true) (x : Text) :
    (a.merge b false).mem x ↔ a.mem x ∨ b.mem x := Rng.merge_union a b h x

/-- Under `And`, when neither range contains the other, the merge holds exactly the terms of the
    intersection. -/
theorem range_merge_inter_partial (a b : Rng) (x : Text)
    (hn1 : ¬ (cmpStart b.lo b.lox ≤ cmpStart a.lo a.lox ∧ cmpEnd a.hi a.hix ≤ cmpEnd b.hi b.hix))
    (hn2 : ¬ (cmpStart a.lo a.lox ≤ cmpStart b.lo b.lox ∧ cmpEnd b.hi b.hix ≤ cmpEnd a.hi a.hix)) :
    (a.merge b true).mem x ↔ a.mem x ∧ b.mem x := Rng.merge_inter a b x hn1 hn2

/-- Full statement for `intersect=True`; false for nested ranges (`merge` returns the outer one). -/
def range_merge_inter_full : Prop :=
  ∀ (a b : Rng) (x : Text), a.overlaps b = true → ((a.merge b true).mem x ↔ a.mem x ∧ b.mem x)

example :
    let a : Rng := ⟨0, some [97], some [122], false, false, 1, true⟩
    let b : Rng := ⟨0, some [99], some [100], false, false, 1, true⟩
    a.overlaps b = true ∧ (a.merge b true).mem [98] ∧ ¬ b.mem [98] := by
  refine ⟨by decide +kernel, by decide +kernel, by decide +kernel⟩

example :
    let a : Rng := ⟨0, some [97], some [109], false, true, 1, true⟩
    let b : Rng := ⟨0, some [102], none, true, false, 2, false⟩
    a.overlaps b = true ∧ a.merge b false = ⟨0, some [97], none, false, false, 2, true⟩
      ∧ a.merge b true = ⟨0, some [102], some [109], true, true, 2, true⟩ := by
  refine ⟨by decide +kernel, by decide +kernel, by decide +kernel⟩

/-! ### `with_boost` -/

/-- `with_boost` never changes the matching documents (any tree, any index, any boost). -/
theorem with_boost_sat (env : Env) (q : Q) (b : Rat) (d : Doc) : sat env (q.withBoost b) d = sat env q d := by
  rw [withBoost_sat]

example : (Q.bin .andnot (.comp .or [.term 0 [97] 1] 2) (.term 0 [98] 1)).withBoost 4
    = .bin .andnot (.comp .or [.term 0 [97] 1] 4) (.term 0 [98] 1) := by decide +kernel


/-! ### The operators `&`, `|`, `-` -/

/-- `a & b` means conjunction (when the `And` it normalizes is clean). -/
theorem ops_and_partial (env : Env) (a b : Q) (h : clean (.comp .and [a, b] 1) = true)
    (he : EOk env (.comp .and [a, b] 1)) (hidx : ∀ d ∈ env.index, d.BelowMax) (d : Doc) (hd : d ∈ env.index) :
    sat env (opAnd a b) d = (sat env a d && sat env b d) := by
  unfold opAnd
  rw [normalize_sat_aux env hidx _ h he d hd]
  simp [sat, satAll]

/-- `a | b` means disjunction (when `a` and `b` are clean). -/
theorem ops_or_partial (env : Env) (a b : Q) (h : clean (.comp .or [a, b] 1) = true)
    (he : EOk env (.comp .or [a, b] 1)) (hidx : ∀ d ∈ env.index, d.BelowMax) (d : Doc) (hd : d ∈ env.index) :
    sat env (opOr a b) d = (sat env a d || sat env b d) := by
  unfold opOr
  rw [normalize_sat_aux env hidx _ h he d hd]
  simp [sat, satAny]

/-- `a - b` means `a` and not `b` (when the `And([a, Not(b)])` it normalizes is clean). -/
theorem ops_sub_partial (env : Env) (a b : Q) (h : clean (.comp .and [a, .not b 1] 1) = true)
    (he : EOk env (.comp .and [a, .not b 1] 1)) (hidx : ∀ d ∈ env.index, d.BelowMax) (d : Doc) (hd : d ∈ env.index) :
    sat env (opSub a b) d = (sat env a d && !sat env b d) := by
  unfold opSub
  rw [normalize_sat_aux env hidx _ h he d hd]
  simp [sat, satAll]

def ops_full : Prop :=
  ∀ (env : Env) (a b : Q) (d : Doc), d ∈ env.index →
    sat env (opAnd a b) d = (sat env a d && sat env b d) ∧
    sat env (opOr a b) d = (sat env a d || sat env b d) ∧
    sat env (opSub a b) d = (sat env a d && !sat env b d)

/-- Non-vacuity, and the repaired unfielded-`Every` case: `Every() & t`, `t & Every()`, `Every() - t`. -/
example :
    let t : Q := .term 0 [97] 1
    clean (.comp .and [.every none 1, t] 1) = true ∧ opAnd (.every none 1) t = t ∧ opAnd t (.every none 1) = t
      ∧ opSub (.every none 1) t = .not t 1 ∧ opOr t (.every none 1) = .every none 1
      ∧ opOr t (.term 0 [98] 2) = .comp .or [t, .term 0 [98] 2] 1 := by
  refine ⟨by decide +kernel, by decide +kernel, by decide +kernel, by decide +kernel, by decide +kernel,
    by decide +kernel⟩

/-- `NullQuery - t` is `Not(t)` (the `And` drops the Null clause): refutes `ops_full`. -/
example : opSub .null (.term 0 [97] 1) = .not (.term 0 [97] 1) 1
    ∧ answer env0 (opSub .null (.term 0 [97] 1)) = [1] := by
  refine ⟨by decide +kernel, by decide +kernel⟩

/-! ### `accept` with the identity, `replace` of an absent term -/

/-- `q.accept(lambda q: q)` rebuilds the tree; it means the same (no `Not` below a `Sequence`, see
    `WM.Clean.seqNotFree`). -/
theorem apply_id_sat (env : Env) (q : Q) (h : seqNotFree q = true) (d : Doc) :
    sat env (acceptId q) d = sat env q d := by
  rw [acceptId_sat env q h]

/-- Replacing a term that does not occur is exactly the identity rebuild ... -/
theorem replace_absent (fld : Field) (old new : Text) (q : Q) (h : absent fld old q = true) :
    replace fld old new q = acceptId q := replace_absent_eq fld old new q h

/-- ... and therefore means the same. -/
theorem replace_absent_sat (env : Env) (fld : Field) (old new : Text) (q : Q)
    (h : absent fld old q = true) (hs : seqNotFree q = true) (d : Doc) :
    sat env (replace fld old new q) d = sat env q d := by
  rw [replace_absent fld old new q h, acceptId_sat env q hs]

example :
    let q : Q := .comp .and [.seq false [.term 0 [97] 1, .term 0 [98] 1] 3 false 2, .not (.phrase 0 [[97], [99]] 2 1) 4] 2
    seqNotFree q = true ∧ absent 0 [113] q = true
      ∧ replace 0 [113] [97] q
        = .comp .and [.seq false [.term 0 [97] 1, .term 0 [98] 1] 3 false 2, .not (.phrase 0 [[97], [99]] 2 1) 1] 2
      ∧ replace 0 [97] [113] q
        = .comp .and [.seq false [.term 0 [113] 1, .term 0 [98] 1] 3 false 2, .not (.phrase 0 [[113], [99]] 2 1) 1] 2 := by
  refine ⟨by decide +kernel, by decide +kernel, by decide +kernel, by decide +kernel⟩


/-! ### `__eq__` / `__hash__` (what `s in seenqs` of the de-duplication decides)

The model's equality `Q.beq` compares the class and every attribute that takes part in `__eq__` or
`__hash__` of the real classes.  (`Not.boost` is ignored by `Not.__eq__` but read by `Not.__hash__`: two
clauses that differ in the boost of one `Not` are kept apart by the Python set as by the model; trees
that differ in the boosts of several `Not`s can collide in the xor of hashes — the model keeps those
apart, the meaning is the same either way.)  Tied to the real `q2 in {q1}` on generated near-duplicate
pairs by the check. -/

/-- Queries the de-duplication treats as equal are the same tree ... -/
theorem eq_iff (a b : Q) : (a == b) = true ↔ a = b := beq_iff_eq

/-- ... hence match the same documents on every index, before and after every rewrite. -/
theorem eq_same_meaning (env : Env) (a b : Q) (h : (a == b) = true) :
    answer env a = answer env b ∧ answer env (normalize a) = answer env (normalize b)
      ∧ (∀ d, sat env a d = sat env b d) ∧ (normalize a == normalize b) = true := by
  have e : a = b := eq_of_beq h
  subst e
  exact ⟨rfl, rfl, fun _ => rfl, beq_self_eq_true _⟩

/-- "Eliminate duplicate queries" (with no `Every` field recorded) keeps the meaning of the clause
    list under `Or` and under `And`: a clause is only dropped when an equal one was kept. -/
theorem dedupe_sat (env : Env) (l : List Q) (d : Doc) :
    satAny env (dedupe [] [] l) d = satAny env l d ∧ satAll env (dedupe [] [] l) d = satAll env l d := by
  have h1 := dedupe_or env d [] l [] (by simp)
  have h2 := dedupe_and env d [] l [] (by simp)
  simp only [satAny, satAll, Bool.false_or, Bool.true_and] at h1 h2
  exact ⟨h1, h2⟩

/-- Near-duplicates are kept apart: two `Term`s that differ in the boost only, two ranges that differ
    in one exclusion flag, two `Not`s that differ in the boost; exact duplicates are dropped. -/
example :
    let t : Q := .term 0 [97] 1
    let r : Q := .range 0 (some [97]) (some [99]) false false 1 true
    dedupe [] [] [t, .term 0 [97] 2, t, r, .range 0 (some [97]) (some [99]) false true 1 true, r, .not t 1, .not t 2]
      = [t, .term 0 [97] 2, r, .range 0 (some [97]) (some [99]) false true 1 true, .not t 1, .not t 2]
      ∧ ((Q.not t 1) == (Q.not t 2)) = false ∧ (t == Q.term 0 [97] 1) = true := by
  refine ⟨by decide +kernel, by decide +kernel, by decide +kernel⟩

/-! ### The duplicate elimination for an arbitrary clause class and equality

`NestedParent`/`NestedChildren` (and any class outside the model) go through the same "Eliminate
duplicate queries" loop with their own `__eq__`/`__hash__`.  `m c d` is any reading "clause `c`
matches document `d`". -/

/-- The duplicate elimination keeps the meaning of the clause list under `Or` (some clause matches) and
    under `And` (every clause matches) for every clause class whose equality is sound for the document:
    clauses that compare equal match it alike. -/
theorem dedupe_by_sound {α : Type} (eqv : α → α → Bool) (m : α → Doc → Bool) (d : Doc)
    (h : ∀ a b, eqv a b = true → m a d = m b d) (l : List α) :
    (WM.NormalizeDedupe.dedupeBy eqv [] l).any (fun c => m c d) = l.any (fun c => m c d)
      ∧ (WM.NormalizeDedupe.dedupeBy eqv [] l).all (fun c => m c d) = l.all (fun c => m c d) := by
  have h1 := WM.NormalizeDedupe.dedupeBy_any eqv (fun c => m c d) h l []
  have h2 := WM.NormalizeDedupe.dedupeBy_all eqv (fun c => m c d) h l []
  simpa using And.intro h1 h2

/-- In particular an equality that only identifies a clause with itself (object identity, what
    `WrappingQuery` subclasses without `__eq__` have; structural equality of all attributes) is sound
    for every reading. -/
theorem dedupe_by_sound_of_eq {α : Type} (eqv : α → α → Bool) (heq : ∀ a b, eqv a b = true → a = b)
    (m : α → Doc → Bool) (d : Doc) (l : List α) :
    (WM.NormalizeDedupe.dedupeBy eqv [] l).any (fun c => m c d) = l.any (fun c => m c d)
      ∧ (WM.NormalizeDedupe.dedupeBy eqv [] l).all (fun c => m c d) = l.all (fun c => m c d) :=
  dedupe_by_sound eqv m d (fun a b e => by rw [heq a b e]) l

/-- The hypothesis is necessary: an equality that identifies two clauses of which only the second
    matches `d` makes `Or([a, b]).normalize()` lose `d`, and one that identifies two clauses of which
    only the first matches makes `And([a, b]).normalize()` gain it. -/
theorem dedupe_by_unsound {α : Type} (eqv : α → α → Bool) (m : α → Doc → Bool) (d : Doc) (a b : α)
    (e : eqv b a = true) :
    (m a d = false → m b d = true →
        (WM.NormalizeDedupe.dedupeBy eqv [] [a, b]).any (fun c => m c d) = false
          ∧ [a, b].any (fun c => m c d) = true)
      ∧ (m a d = true → m b d = false →
        (WM.NormalizeDedupe.dedupeBy eqv [] [a, b]).all (fun c => m c d) = true
          ∧ [a, b].all (fun c => m c d) = false) := by
  constructor <;> intro ha hb <;>
    simp [WM.NormalizeDedupe.dedupeBy, WM.NormalizeDedupe.seenBy, e, ha, hb]

/-- The loop of the modelled classes (`WM.Normalize.dedupe` with no `Every` field recorded) is the
    generic loop with structural equality `Q.beq`. -/
theorem dedupe_is_dedupe_by (l : List Q) :
    dedupe [] [] l = WM.NormalizeDedupe.dedupeBy (fun a b => a == b) [] l :=
  WM.NormalizeDedupe.dedupe_eq_dedupeBy l []

/-- Clauses numbered 0..3 with "same wrapped query" as equality (0 ~ 1, 2 ~ 3) and the reading
    "matches document `d` iff the clause number is odd": the loop keeps 0 and 2, the `Or` loses the
    document; with identity as equality nothing is dropped. -/
example :
    let eqv : Nat → Nat → Bool := fun i j => i / 2 == j / 2
    let m : Nat → Doc → Bool := fun i _ => i % 2 == 1
    WM.NormalizeDedupe.dedupeBy eqv [] [0, 1, 2, 3] = [0, 2]
      ∧ (WM.NormalizeDedupe.dedupeBy eqv [] [0, 1, 2, 3]).any (fun c => m c (doc 0 [])) = false
      ∧ [0, 1, 2, 3].any (fun c => m c (doc 0 [])) = true
      ∧ WM.NormalizeDedupe.dedupeBy (fun i j : Nat => i == j) [] [0, 1, 0, 3, 1] = [0, 1, 3]
      ∧ WM.NormalizeDedupe.dedupeBy (WM.NormalizeDedupe.tableEqv [(1, 0), (3, 2)]) [] [0, 1, 2, 3] = [0, 2] := by
  refine ⟨by decide, by decide, by decide, by decide, by decide⟩

/-! ### `simplify(ixreader)` and `estimate_size(ixreader)` -/

/-- `simplify(reader)` means the same as the query on the index the reader describes (when none of
    the trees it hands to `normalize()` runs into a recorded defect: `WM.Clean.cleanS`). -/
theorem simplify_sat_partial (env : Env) (rd : Reader) (q : Q) (hrd : ReaderOk env rd)
    (hq : cleanS env.multi env.bracket rd q = true) (he : EOkS env rd q)
    (hidx : ∀ d ∈ env.index, d.BelowMax) (d : Doc) (hd : d ∈ env.index) :
    sat env (simplify env.multi env.bracket rd q) d = sat env q d :=
  simplify_sat_aux env rd hrd hidx q hq he d hd

def simplify_sat_full : Prop :=
  ∀ (env : Env) (rd : Reader) (q : Q), ReaderOk env rd → ∀ d ∈ env.index,
    sat env (simplify env.multi env.bracket rd q) d = sat env q d

example :
    let q : Q := .comp .and [.pre 0 [] 2 true, .bin .andnot (.wild 0 [63] 1 true) (.range 0 (some [99]) none false false 1 true)] 1
    cleanS env0.multi env0.bracket rd0 q = true
      ∧ simplify env0.multi env0.bracket rd0 q
        = .comp .and [.comp .or [.term 0 [97] 2, .term 0 [98] 2, .term 0 [112] 2] 1,
            .bin .andnot (.comp .or [.term 0 [97] 1, .term 0 [98] 1, .term 0 [112] 1] 1) (.term 0 [112] 1)] 1
      ∧ answer env0 q = [0] := by
  refine ⟨by decide +kernel, by decide +kernel, by decide +kernel⟩

/-- A prefix without expansions becomes `NullQuery`, which the enclosing `And` then drops:
    refutes `simplify_sat_full`. -/
example :
    let q : Q := .comp .and [.pre 0 [122] 1 true, .term 0 [97] 1] 1
    cleanS env0.multi env0.bracket rd0 q = false ∧ simplify env0.multi env0.bracket rd0 q = .term 0 [97] 1
      ∧ answer env0 q = [] ∧ answer env0 (simplify env0.multi env0.bracket rd0 q) = [0] := by
  refine ⟨by decide +kernel, by decide +kernel, by decide +kernel, by decide +kernel⟩

/-- `estimate_size` is never below the number of matching (live) documents, on every index with or
    without deleted documents: `rd.docs` are the live documents (= the index of `env`), `rd.dead` —
    arbitrary — the deleted ones that `doc_frequency` still counts while `doc_count()` does not. -/
theorem estimate_ge (env : Env) (rd : Reader) (q : Q) (hdocs : rd.docs = env.index) (hrd : ReaderOk env rd)
    (n : Nat) (h : estimate env.multi env.bracket rd q = some n) : (answer env q).length ≤ n := by
  have := estimate_ge_aux env rd hdocs hrd q n h
  simpa [answer, cnt] using this

/-- `estimate_size` never raises: the one partial operation (`min()` of no subqueries in
    `And.estimate_size`, reached also from `Phrase`/`Sequence`) is guarded, for every tree without a
    span query (whose `estimate_size` is not modelled), every reader. -/
theorem estimate_total (env : Env) (rd : Reader) (q : Q) (h : q.spanFree = true) :
    ∃ n, estimate env.multi env.bracket rd q = some n :=
  estimate_total_aux env.multi env.bracket rd q h

/-- Both together: an estimate exists and bounds the answer. -/
theorem estimate_total_ge (env : Env) (rd : Reader) (q : Q) (hdocs : rd.docs = env.index)
    (hrd : ReaderOk env rd) (h : q.spanFree = true) :
    ∃ n, estimate env.multi env.bracket rd q = some n ∧ (answer env q).length ≤ n := by
  obtain ⟨n, hn⟩ := estimate_total env rd q h
  exact ⟨n, hn, estimate_ge env rd q hdocs hrd n hn⟩

example :
    estimate env0.multi env0.bracket rd0 (.comp .or [.term 0 [98] 1, .pre 0 [] 1 true] 1) = some 2
      ∧ estimate env0.multi env0.bracket rd0 (.comp .and [.term 0 [98] 1, .pre 0 [] 1 true] 1) = some 2
      ∧ estimate env0.multi env0.bracket rd0 (.phrase 0 [[97], [98]] 1 1) = some 1
      ∧ estimate env0.multi env0.bracket rd0 (.comp .and [] 1) = some 0
      ∧ (answer env0 (.comp .or [.term 0 [98] 1, .pre 0 [] 1 true] 1)).length = 2 := by
  refine ⟨by decide +kernel, by decide +kernel, by decide +kernel, by decide +kernel, by decide +kernel⟩

/-- With a deleted document `"a b"` still in its segment: `doc_frequency("b")` is 3 although only two
    live documents hold it; `Every` and `Not` estimate the live count; nested empty compounds and an
    empty phrase do not raise. -/
example :
    let rd : Reader := { rd0 with dead := [doc 2 [[97], [98]]] }
    rd.docs = env0.index ∧ rd.df 0 [98] = 3 ∧ rd.docCount = 2
      ∧ estimate env0.multi env0.bracket rd (.term 0 [98] 1) = some 3
      ∧ estimate env0.multi env0.bracket rd (.comp .or [.term 0 [98] 1, .term 0 [97] 1] 1) = some 2
      ∧ estimate env0.multi env0.bracket rd (.not (.term 0 [98] 1) 1) = some 2
      ∧ estimate env0.multi env0.bracket rd (.seq false [.comp .and [] 1, .phrase 0 [] 1 1] 1 true 1) = some 0
      ∧ (answer env0 (.term 0 [98] 1)).length = 2
      ∧ (Q.seq false [.comp .and [] 1, .phrase 0 [] 1 1] 1 true 1).spanFree = true := by
  refine ⟨rfl, by decide +kernel, by decide +kernel, by decide +kernel, by decide +kernel, by decide +kernel,
    by decide +kernel, by decide +kernel, by decide +kernel⟩

/-! ### `NestedParent` / `NestedChildren` as structured nodes -/

open WM.NormalizeNested in
/-- `NestedParent.normalize()` returns the same parent documents on every segmented index, when
    neither sub-query runs into a recorded defect of `normalize()` (the hypotheses of
    `normalize_sat_partial` for `parents` and for the wrapped query); `NullQuery` as the result means
    the query matched nothing. -/
theorem nested_parent_normalize_answer_partial (env : Env) (segs : List (List Doc)) (n : NParent)
    (hp : clean n.parents = true) (hc : clean n.child = true) (hep : EOk env n.parents)
    (hec : EOk env n.child) (hidx : ∀ d ∈ env.index, d.BelowMax)
    (hsegs : ∀ seg ∈ segs, ∀ d ∈ seg, d ∈ env.index) :
    parentAnswerOpt env segs n.normalize = parentAnswer env segs n := by
  have sp : ∀ seg ∈ segs, ∀ d ∈ seg, sat env (normalize n.parents) d = sat env n.parents d :=
    fun seg hs d hd => normalize_sat_partial env n.parents hp hep hidx d (hsegs seg hs d hd)
  have sc : ∀ seg ∈ segs, ∀ d ∈ seg, sat env (normalize n.child) d = sat env n.child d :=
    fun seg hs d hd => normalize_sat_partial env n.child hc hec hidx d (hsegs seg hs d hd)
  unfold NParent.normalize
  by_cases h1 : (normalize n.parents).isNull = true
  · simp only [h1, Bool.true_or, if_true, parentAnswerOpt]
    symm
    apply parentAnswer_no_parents
    intro seg hs d hd
    rw [← sp seg hs d hd, isNull_eq h1]
    simp [sat]
  · by_cases h2 : (normalize n.child).isNull = true
    · simp only [h2, Bool.or_true, if_true, parentAnswerOpt]
      symm
      apply parentAnswer_no_children
      intro seg hs d hd
      rw [← sc seg hs d hd, isNull_eq h2]
      simp [sat]
    · simp only [h1, h2, Bool.or_self, Bool.false_eq_true, if_false, parentAnswerOpt]
      exact parentAnswer_congr env segs n _ sp sc

open WM.NormalizeNested in
/-- `NestedParent.normalize()` is idempotent and keeps `per_parent_limit` and `score_fn`. -/
theorem nested_parent_normalize_idempotent (n : NParent) :
    n.normalize.bind NParent.normalize = n.normalize
      ∧ ∀ m, n.normalize = some m → m.limit = n.limit ∧ m.fn = n.fn := by
  unfold NParent.normalize
  by_cases h : ((normalize n.parents).isNull || (normalize n.child).isNull) = true
  · simp [h]
  · simp only [h, Bool.false_eq_true, if_false, Option.bind_some, idempotent]
    constructor
    · first | rfl | trivial
    · intro m hm
      cases hm
      exact ⟨rfl, rfl⟩

open WM.NormalizeNested in
/-- `with_boost()` of a `NestedParent` (the boost goes to the wrapped query) and `normalize()` of a
    `NestedChildren` (inherited from `Query`: the query itself) return the same documents, for every
    tree. -/
theorem nested_boost_answer (env : Env) (segs : List (List Doc)) (n : NParent) (b : Rat) (c : NChildren) :
    parentAnswer env segs (n.withBoost b) = parentAnswer env segs n ∧ c.normalize = c :=
  ⟨parentAnswer_congr env segs n _ (fun _ _ _ _ => rfl) (fun _ _ d _ => with_boost_sat env n.child b d), rfl⟩

/-- Two segments `p a p | b a p b` (one token per document, field 0): the parents of the documents
    with `a` are 0 and 2 in the first segment; in the second segment `b` comes before every parent, so
    `NestedParent(p, a|b)` stops there (`comb.before` is `None`), `NestedParent(p, a)` still finds nothing
    above 4 because 4 has no parent before it either, and `NestedParent(p, b)` returns 5 (document 6).
    `normalize()` rewrites the duplicate `Or` to its clause and turns an empty sub-query into `NullQuery`. -/
example :
    let s1 := [doc 0 [[112]], doc 1 [[97]], doc 2 [[112]]]
    let s2 := [doc 3 [[98]], doc 4 [[97]], doc 5 [[112]], doc 6 [[98]]]
    let env : Env := { env0 with index := s1 ++ s2 }
    let p : Q := .term 0 [112] 1
    let n : WM.NormalizeNested.NParent := ⟨p, .comp .or [.term 0 [97] 1, .term 0 [97] 1] 1, some 1, 0⟩
    n.normalize.map (fun m => (m.parents, m.child, m.limit, m.fn)) = some (p, .term 0 [97] 1, some 1, 0)
      ∧ WM.NormalizeNested.parentAnswer env [s1, s2] n = [0]
      ∧ WM.NormalizeNested.parentAnswerOpt env [s1, s2] n.normalize = [0]
      ∧ WM.NormalizeNested.parentAnswer env [s1 ++ s2] n = [0, 2]
      ∧ WM.NormalizeNested.parentAnswer env [s1, s2] ⟨p, .term 0 [98] 1, none, 0⟩ = []
      ∧ WM.NormalizeNested.parentAnswer env [s1 ++ s2] ⟨p, .term 0 [98] 1, none, 0⟩ = [2, 5]
      ∧ WM.NormalizeNested.parentAnswer env [s1, s2] ⟨p, .comp .or [.term 0 [97] 1, .term 0 [112] 1] 1, none, 1⟩ = [0, 2]
      ∧ (WM.NormalizeNested.NParent.normalize ⟨p, .comp .or [] 1, none, 0⟩).isNone = true
      ∧ clean n.child = true ∧ clean p = true := by
  refine ⟨by decide +kernel, by decide +kernel, by decide +kernel, by decide +kernel, by decide +kernel,
    by decide +kernel, by decide +kernel, by decide +kernel, by decide +kernel, by decide +kernel⟩

end WM.C15
