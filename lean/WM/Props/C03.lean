import WM.Model.FSReader
import WM.Lemmas.FSReader
import WM.Lemmas.FSInterleave
import WM.Lemmas.FSRefreshRace
import WM.Lemmas.FSEager
import WM.Props.C02
/-!
C03 — readers are snapshots; new readers and `refresh()` see exactly the last commit.

Writer activity is any sequence of storage events that never re-binds a name (`freshNames`, which
every trace accepted by the commit-protocol predicates of C02 satisfies: `safe_freshNames`).
-/
namespace WM.C03
open WM.FS

/-- Traces accepted by the commit / cancel protocol never re-bind a name. -/
theorem safe_freshNames (ix : Name) (old new : Toc) (tmp : Option Name) (c : Chk) (tr : List Event)
    (h : (chkRun ix old new tmp c tr).isSome = true) : freshNames c.fs tr = true := by
  induction tr generalizing c with
  | nil => rfl
  | cons e es ih =>
    simp only [chkRun] at h
    cases hs : chkStep ix old new tmp c e with
    | none => rw [hs] at h; cases h
    | some c1 =>
      rw [hs] at h
      have hfs : c1.fs = step c.fs e := by
        unfold chkStep at hs
        cases ho : okEvent ix old new tmp c e with
        | none => rw [ho] at hs; cases hs
        | some ph => rw [ho] at hs; cases hs; rfl
      have := ih c1 h
      rw [hfs] at this
      simp only [freshNames, Bool.and_eq_true]
      refine ⟨?_, this⟩
      unfold chkStep at hs
      cases ho : okEvent ix old new tmp c e with
      | none => rw [ho] at hs; cases hs
      | some ph =>
        cases e with
        | create n =>
          simp only [okEvent] at ho
          split at ho
          · cases ho
          · next hc =>
            simp only [Bool.or_eq_true, decide_eq_true_eq, not_or] at hc
            simp [newName, hc.1.1]
        | rename a b =>
          simp only [okEvent] at ho
          split at ho
          · next hc =>
            simp only [Bool.and_eq_true, Bool.not_eq_true', decide_eq_false_iff_not] at hc
            simp [newName, hc.2]
          · cases ho
        | write n k => rfl
        | setToc n t => rfl
        | close n => rfl
        | delete n => rfl
        | other => rfl

/-- **C03.snapshot (partial: readers whose files are all opened at construction).**
    Whatever storage events writers issue afterwards — commits, merges, optimisations, clean-ups,
    a writer dying mid-way — a reader that pinned all its files keeps showing exactly what it
    showed. -/
theorem snapshot_partial (fs : FS) (r : Reader) (tr : List Event) (τ : Nat → Nat)
    (he : EagerHandles r = true) (hok : ReaderOK fs r) (hfr : freshCreates fs tr = true) :
    probe (run fs tr) r = probe fs r ∧ probe (crash (run fs tr) τ) r = probe fs r := by
  have hstable : ∀ sr ∈ r.leaves, ∀ p ∈ sr.handles, (run fs tr).data p.2 = fs.data p.2 := by
    intro sr hsr p hp
    obtain ⟨h1, h2⟩ := hok sr hsr p hp
    exact run_data_stable fs tr p.2 h1 h2 hfr
  refine ⟨probe_congr fs _ r he hstable, ?_⟩
  apply probe_congr fs _ r he
  intro sr hsr p hp
  have h2 := (hok sr hsr p hp).2
  rw [crash_data_of_not_writing _ τ p.2 (by rw [hstable sr hsr p hp]; exact h2)]
  exact hstable sr hsr p hp

/-- **C03.snapshot.**  The reader `ix.reader()` returns — its constructor opens every file of every
    segment of the TOC (`allFiles`: the compound file of a compound segment; `.trm`, `.pst`, every
    column file and the vector file of a loose one, after `fix: a reader of a loose segment opens its
    column and vector files when it is built`) — keeps showing exactly what it showed when it was
    opened, whatever storage events writers issue afterwards (commits, merges, clean-ups, a writer
    dying mid-way with arbitrary truncation of its open files).  No `EagerHandles` hypothesis: it is
    a consequence of how the reader is built (`FS.eagerHandles_fresh`). -/
theorem snapshot (ix : Name) (fs : FS) (t : Toc) (tr : List Event) (τ : Nat → Nat)
    (hwf : WF fs) (ht : readToc ix fs = .ok t) (hr : readable fs t = true)
    (hfr : freshCreates fs tr = true) :
    ∃ r, openReader allFiles ix fs = .ok r ∧ r.segs = t.segs ∧
      probe (run fs tr) r = probe fs r ∧ probe (crash (run fs tr) τ) r = probe fs r := by
  refine ⟨freshReader allFiles fs t, openReader_fresh allFiles ix fs t ht hr, ?_,
    snapshot_partial fs _ tr τ (eagerHandles_fresh fs t hr) (readerOK_fresh hwf t hr) hfr⟩
  unfold Reader.segs
  rw [freshReader_leaves, List.map_map]
  conv => rhs; rw [← List.map_id t.segs]
  apply List.map_congr_left
  intro s _
  rfl

/-- The full statement (no hypothesis on how the reader opens its files) … -/
def snapshot_full : Prop :=
  ∀ (fs : FS) (r : Reader) (tr : List Event), ReaderOK fs r → freshCreates fs tr = true →
    probe (run fs tr) r = probe fs r

namespace Witness
def colFile : Name := ['M', '_', 'a', '.', 'n', '.', 'c', 'o', 'l']
def trmFile : Name := ['M', '_', 'a', '.', 't', 'r', 'm']
def fsW : FS :=
  { names := [trmFile, colFile]
    dir := fun n => if n = trmFile then some 0 else if n = colFile then some 1 else none
    data := fun _ => ⟨7, .complete, none⟩
    next := 2 }
/-- a reader of a loose segment: `.trm` opened at construction, the column file lazily -/
def lazyReader : Reader :=
  .single ⟨⟨['M', '_', 'a'], [trmFile, colFile], []⟩, some 1, 0, [(trmFile, 0)]⟩
end Witness

/-- … is false for the code as it stands: a reader that opens a column file lazily (loose
    segments, `W3PerDocReader._get_column_file`) loses it when a merging commit cleans up. -/
theorem snapshot_full_false : ¬ snapshot_full := by
  intro h
  have := h Witness.fsW Witness.lazyReader [.delete Witness.colFile]
    (by
      intro sr hsr p hp
      simp only [Reader.leaves, Witness.lazyReader, List.mem_singleton] at hsr
      subst hsr
      simp only [List.mem_singleton] at hp
      subst hp
      exact ⟨by decide, by decide⟩)
    (by decide)
  have hne : probe (run Witness.fsW [.delete Witness.colFile]) Witness.lazyReader
      ≠ probe Witness.fsW Witness.lazyReader := by
    intro h
    have := congrArg (fun p => p.2.map (fun q => q.2.2.map Option.isSome)) h
    revert this
    decide
  exact hne this

/-- **C03.fresh.**  A reader opened at *any* moment of a protocol-following commit — also after the
    writer died there — is exactly the fresh reader of the old TOC (before the rename) or of the
    new one (after it), with every file it needs opened; after a completed commit it is the
    reader of `new`. -/
theorem fresh (eager : Name → Bool) (ix : Name) (old new : Toc) (tmp : Name) (fs0 : FS)
    (tr : List Event) (hc : Consistent ix old fs0)
    (hs : SafeCommitTrace ix old new tmp fs0 tr = true) (k : Nat) (τ : Nat → Nat) :
    let fs' := crash (run fs0 (tr.take k)) τ
    openReader eager ix fs' = .ok (freshReader eager fs' (C02.stateAt old new tr k)) ∧
    (CompleteCommit ix old new tmp fs0 tr = true →
      openReader eager ix (run fs0 tr) = .ok (freshReader eager (run fs0 tr) new)) := by
  intro fs'
  have h := C02.consistent_at hc hs k τ
  refine ⟨openReader_fresh eager ix fs' _ h.toc h.readable, ?_⟩
  intro hcc
  obtain ⟨r1, r2, _⟩ := C02.commit ix old new tmp fs0 tr hc hcc
  exact openReader_fresh eager ix _ new r1 r2

/-- no-crash version of `C02.consistent_at`: the committed state at every prefix of a commit -/
theorem holds_at {ix : Name} {old new : Toc} {tmp : Name} {fs0 : FS} {tr : List Event}
    (hc : Consistent ix old fs0) (hs : SafeCommitTrace ix old new tmp fs0 tr = true) (k : Nat) :
    WF (run fs0 (tr.take k)) ∧ Holds ix (run fs0 (tr.take k)) (C02.stateAt old new tr k) := by
  unfold SafeCommitTrace at hs
  cases hr : chkRun ix old new (some tmp) ⟨fs0, .pre⟩ tr with
  | none => rw [hr] at hs; cases hs
  | some c' =>
    obtain ⟨ck, h1, h2, h3⟩ := chkRun_take (inv_init hc) hr k
    have hph := chkRun_phase h1
    simp only at h2
    rw [← h2]
    refine ⟨h3.wf, ?_⟩
    unfold C02.stateAt
    by_cases hren : renamed (tr.take k) = true
    · rw [if_pos hren]; exact h3.post (hph.2 (Or.inr hren))
    · rw [if_neg hren]
      apply h3.pre
      intro hp
      rcases hph.1 hp with h | h
      · cases h
      · exact hren h

/-- **C03.snapshot_after_commit.**  `snapshot` composed with `C02.commit`: the reader opened after a
    completed protocol-following commit is on exactly the new TOC's segments and stays a snapshot
    under everything later writers do (the next commits, their clean-up passes, a crash). -/
theorem snapshot_after_commit (ix : Name) (old new : Toc) (tmp : Name) (fs0 : FS)
    (tr : List Event) (hc : Consistent ix old fs0)
    (hcc : CompleteCommit ix old new tmp fs0 tr = true)
    (tr2 : List Event) (τ : Nat → Nat) (hfr : freshCreates (run fs0 tr) tr2 = true) :
    ∃ r, openReader allFiles ix (run fs0 tr) = .ok r ∧ r.segs = new.segs ∧
      probe (run (run fs0 tr) tr2) r = probe (run fs0 tr) r ∧
      probe (crash (run (run fs0 tr) tr2) τ) r = probe (run fs0 tr) r := by
  obtain ⟨r1, r2, _⟩ := C02.commit ix old new tmp fs0 tr hc hcc
  have hs : SafeCommitTrace ix old new tmp fs0 tr = true := by
    unfold CompleteCommit at hcc
    unfold SafeCommitTrace
    cases h : chkRun ix old new (some tmp) ⟨fs0, .pre⟩ tr with
    | none => rw [h] at hcc; cases hcc
    | some c => rfl
  have hwf := (holds_at hc hs tr.length).1
  rw [List.take_length] at hwf
  exact snapshot ix (run fs0 tr) new tr2 τ hwf r1 r2 hfr

/-- **C03.fresh_interleaved.**  One writer performs a protocol-following commit; the steps of a
    concurrent `ix.reader()` call (TOC read, one file open at a time, retry on a missing file) are
    interleaved with the writer's storage events in an arbitrary way.  If the call completes, the
    reader is on `old` or on `new`, and holds exactly the files an atomic open would have taken
    at the moment it (last) read the TOC: never a mixture. -/
theorem fresh_interleaved (eager : Name → Bool) (ix : Name) (old new : Toc) (tmp : Name) (fs0 : FS)
    (n : Nat) (ms : List MStep) (hc : Consistent ix old fs0)
    (hs : SafeCommitTrace ix old new tmp fs0 (wevents ms) = true)
    (t : Toc) (got : List (Name × Nat))
    (hdone : (mrun eager ix (fs0, .start n) ms).2 = .done t got) :
    (t = old ∨ t = new) ∧
    ∃ k, k ≤ ms.length ∧ readToc ix (fsAt fs0 ms k) = .ok t ∧ readable (fsAt fs0 ms k) t = true ∧
      got = (freshReader eager (fsAt fs0 ms k) t).leaves.flatMap (·.handles) := by
  have hwf : WF fs0 := ⟨hc.support, hc.range, hc.inj⟩
  have hfr : freshNames fs0 (wevents ms) = true :=
    safe_freshNames ix old new (some tmp) ⟨fs0, .pre⟩ (wevents ms) hs
  have hstate : ∀ k, ∃ j, fsAt fs0 ms k = run fs0 ((wevents ms).take j) := by
    intro k
    obtain ⟨j, hj⟩ := wevents_take_prefix ms k
    exact ⟨j, by unfold fsAt; rw [hj]⟩
  have hlr : ∀ k, k ≤ ms.length → LatestReadable ix (fsAt fs0 ms k) := by
    intro k _ t' ht'
    obtain ⟨j, hj⟩ := hstate k
    obtain ⟨hw, hh⟩ := holds_at hc hs j
    rw [hj] at ht' ⊢
    obtain ⟨r1, r2⟩ := holds_readToc hw hh
    rw [r1] at ht'
    cases ht'
    exact r2
  obtain ⟨k, hk, h1, h2, h3⟩ := open_linearizable eager ix fs0 n ms hwf hfr hlr t got hdone
  refine ⟨?_, k, hk, h1, h2, ?_⟩
  · obtain ⟨j, hj⟩ := hstate k
    obtain ⟨hw, hh⟩ := holds_at hc hs j
    rw [hj] at h1
    rw [(holds_readToc hw hh).1] at h1
    cases h1
    unfold C02.stateAt
    split
    · exact Or.inr rfl
    · exact Or.inl rfl
  · rw [h3, pinned_eq]
    unfold freshReader
    cases t.segs with
    | nil => rfl
    | cons a l =>
      cases l with
      | nil => simp [assemble, Reader.leaves]
      | cons b l' => simp [assemble, Reader.leaves, List.flatMap_map]

/-- **C03.refresh_interleaved.**  The same race for `Searcher.refresh()`: `old` (a reader of the TOC
    `old`) is recycled by `ix.reader(reuse=old)`, whose steps — TOC read, per segment either taking
    over the recycled sub-reader or opening the files one at a time, retry on a missing file with
    the recycled reader intact — are interleaved arbitrarily with one protocol-following commit.
    If the call completes, the result is exactly the fresh reader of `old` or of `new` at the
    moment the TOC was read: no stale deletions, no stale handles, no mixture. -/
theorem refresh_interleaved (eager : Name → Bool) (ix : Name) (old new : Toc) (tmp : Name) (fs0 : FS)
    (n : Nat) (ms : List MStep) (hc : Consistent ix old fs0)
    (hs : SafeCommitTrace ix old new tmp fs0 (wevents ms) = true)
    (hst : Stable old old ∧ Stable old new)
    (t : Toc) (r : Reader)
    (hdone : (xmrun eager ix (freshReader eager fs0 old) (fs0, .start n) ms).2 = .done t r) :
    (t = old ∨ t = new) ∧
    ∃ k, k ≤ ms.length ∧ readToc ix (fsAt fs0 ms k) = .ok t ∧ readable (fsAt fs0 ms k) t = true ∧
      r = freshReader eager (fsAt fs0 ms k) t := by
  have hwf : WF fs0 := ⟨hc.support, hc.range, hc.inj⟩
  have hfr : freshNames fs0 (wevents ms) = true :=
    safe_freshNames ix old new (some tmp) ⟨fs0, .pre⟩ (wevents ms) hs
  have hstate : ∀ k, ∃ j, fsAt fs0 ms k = run fs0 ((wevents ms).take j) := by
    intro k
    obtain ⟨j, hj⟩ := wevents_take_prefix ms k
    exact ⟨j, by unfold fsAt; rw [hj]⟩
  have hread : ∀ k t', readToc ix (fsAt fs0 ms k) = .ok t' →
      (t' = old ∨ t' = new) ∧ readable (fsAt fs0 ms k) t' = true := by
    intro k t' ht'
    obtain ⟨j, hj⟩ := hstate k
    obtain ⟨hw, hh⟩ := holds_at hc hs j
    rw [hj] at ht' ⊢
    obtain ⟨r1, r2⟩ := holds_readToc hw hh
    rw [r1] at ht'
    cases ht'
    refine ⟨?_, r2⟩
    unfold C02.stateAt
    split
    · exact Or.inr rfl
    · exact Or.inl rfl
  obtain ⟨k, hk, h1, h2, h3⟩ := refresh_linearizable eager ix fs0 old n ms hwf hc.readable hfr
    (fun k _ t' ht' => (hread k t' ht').2)
    (fun k _ t' ht' => by
      rcases (hread k t' ht').1 with h | h
      · rw [h]; exact hst.1
      · rw [h]; exact hst.2)
    t r hdone
  exact ⟨(hread k t h1).1, k, hk, h1, h2, h3⟩

/-- **C03.refresh_eq_fresh.**  `r` was opened on `fs0` (newest TOC `t0`); writers then issued any
    events that never re-bind a name, leaving `t` as the newest TOC, readable.  Then
    `Searcher.refresh()` (that is, `ix.reader(reuse=r)` unless `r` is up to date) yields exactly
    the reader a fresh `ix.reader()` yields.  `hfiles`: a segment id names one set of files;
    `hcanon`: deletion sets are written in canonical order; `hgen`: a generation number names one TOC. -/
theorem refresh_eq_fresh (eager : Name → Bool) (ix : Name) (fs0 : FS) (t0 t : Toc)
    (tr : List Event) (hwf : WF fs0)
    (h0 : readable fs0 t0 = true)
    (hfr : freshNames fs0 tr = true)
    (ht : readToc ix (run fs0 tr) = .ok t) (hr : readable (run fs0 tr) t = true)
    (hfiles : ∀ s0 ∈ t0.segs, ∀ s ∈ t.segs, s.sid = s0.sid → s0.files = s.files)
    (hcanon : ∀ s0 ∈ t0.segs, ∀ s ∈ t.segs, s.sid = s0.sid →
      sameSet s0.deleted s.deleted = true → s0.deleted = s.deleted)
    (hgen : t.gen = t0.gen → t = t0) :
    refresh eager ix (run fs0 tr) (freshReader eager fs0 t0) = openReader eager ix (run fs0 tr) := by
  rw [openReader_fresh eager ix _ t ht hr]
  have hb0 : ∀ s ∈ t0.segs, ∀ f ∈ s.files, (fs0.dir f).isSome := fun s hs f hf =>
    bound_of_isComplete ((readable_iff fs0 t0).1 h0 f (mem_toc_files hs hf))
  have hb1 : ∀ s ∈ t.segs, ∀ f ∈ s.files, ((run fs0 tr).dir f).isSome := fun s hs f hf =>
    bound_of_isComplete ((readable_iff _ t).1 hr f (mem_toc_files hs hf))
  -- leaves of the old reader
  have hleaves : ∀ sr ∈ (freshReader eager fs0 t0).leaves,
      ∃ s0 ∈ t0.segs, sr = freshSeg eager fs0 t0.schema t0.gen s0 := by
    intro sr hsr
    unfold freshReader at hsr
    have : (assemble t0.schema t0.gen (t0.segs.map (freshSeg eager fs0 t0.schema t0.gen))).leaves
        = t0.segs.map (freshSeg eager fs0 t0.schema t0.gen) := by
      cases t0.segs with
      | nil => rfl
      | cons a l => cases l <;> rfl
    rw [this] at hsr
    obtain ⟨s0, hs0, rfl⟩ := List.mem_map.1 hsr
    exact ⟨s0, hs0, rfl⟩
  unfold refresh
  by_cases hup : upToDate ix (run fs0 tr) (freshReader eager fs0 t0) = true
  · -- up to date: the same reader is returned; it is the fresh one because `t = t0`
    rw [if_pos hup]
    have hlg : latestGen ix (run fs0 tr) = some t.gen := by
      unfold readToc at ht
      cases hl : latestGen ix (run fs0 tr) with
      | none => rw [hl] at ht; cases ht
      | some g =>
        rw [hl] at ht
        simp only at ht
        cases hd : (run fs0 tr).dir (tocName ix g) with
        | none => rw [hd] at ht; cases ht
        | some i =>
          rw [hd] at ht
          simp only at ht
          split at ht
          · split at ht
            · split at ht
              · next hg => cases ht; rw [hg]
              · cases ht
            · cases ht
          · cases ht
    have hge : t.gen = t0.gen := by
      unfold upToDate at hup
      rw [hlg] at hup
      unfold freshReader at hup
      cases hsegs : t0.segs with
      | nil => rw [hsegs] at hup; simp [assemble, Reader.generation, genEq] at hup
      | cons a l =>
        rw [hsegs] at hup
        cases l with
        | nil => simpa [assemble, Reader.generation, genEq, freshSeg] using hup
        | cons b l' => simpa [assemble, Reader.generation, genEq] using hup
    have htt := hgen hge
    subst htt
    congr 1
    unfold freshReader
    congr 1
    apply List.map_congr_left
    intro s hs
    unfold freshSeg
    congr 1
    exact handles_stable hwf tr hfr _ (fun f hf => hb0 s hs f (List.mem_filter.1 hf).1)
      (fun f hf => hb1 s hs f (List.mem_filter.1 hf).1)
  · rw [if_neg hup]
    have hco : Coherent eager (run fs0 tr) t (freshReader eager fs0 t0) := by
      refine ⟨?_, ?_, ?_, ?_⟩
      · intro sr hsr
        obtain ⟨s0, _, rfl⟩ := hleaves sr hsr
        rfl
      · intro sr hsr seg hseg hsid
        obtain ⟨s0, hs0, rfl⟩ := hleaves sr hsr
        exact hfiles s0 hs0 seg hseg hsid
      · intro sr hsr seg hseg hsid
        obtain ⟨s0, hs0, rfl⟩ := hleaves sr hsr
        have hf := hfiles s0 hs0 seg hseg hsid
        simp only [freshSeg]
        rw [hf]
        exact handles_stable hwf tr hfr _
          (fun f hf' => by
            have := (List.mem_filter.1 hf').1
            rw [← hf] at this
            exact hb0 s0 hs0 f this)
          (fun f hf' => hb1 seg hseg f (List.mem_filter.1 hf').1)
      · intro sr hsr seg hseg hsid hsame
        obtain ⟨s0, hs0, rfl⟩ := hleaves sr hsr
        exact hcanon s0 hs0 seg hseg hsid hsame
    obtain ⟨closed, hcl⟩ := indexReader_reuse eager ix _ t _ ht hr hco
    rw [hcl]

/-- **C03.same_is_fresh.**  The "return self" outcome of `Searcher.refresh()` (see
    `FS.searcher_refresh_linearizable` for when it is taken under interleaving): a searcher that is
    up to date *is* the freshly opened one. -/
theorem same_is_fresh (eager : Name → Bool) (ix : Name) (fs0 : FS) (t0 t : Toc)
    (tr : List Event) (hwf : WF fs0) (h0 : readable fs0 t0 = true) (hfr : freshNames fs0 tr = true)
    (ht : readToc ix (run fs0 tr) = .ok t) (hr : readable (run fs0 tr) t = true)
    (hfiles : ∀ s0 ∈ t0.segs, ∀ s ∈ t.segs, s.sid = s0.sid → s0.files = s.files)
    (hcanon : ∀ s0 ∈ t0.segs, ∀ s ∈ t.segs, s.sid = s0.sid →
      sameSet s0.deleted s.deleted = true → s0.deleted = s.deleted)
    (hgen : t.gen = t0.gen → t = t0)
    (hup : upToDate ix (run fs0 tr) (freshReader eager fs0 t0) = true) :
    freshReader eager fs0 t0 = freshReader eager (run fs0 tr) t := by
  have h := refresh_eq_fresh eager ix fs0 t0 t tr hwf h0 hfr ht hr hfiles hcanon hgen
  rw [openReader_fresh eager ix _ t ht hr] at h
  unfold refresh at h
  rw [if_pos hup] at h
  exact Except.ok.inj h

/-- **C03.up_to_date (partial: indexes with at least one segment).**  For the reader opened on
    TOC `t0`, `up_to_date()` is true exactly when the newest generation in the directory is still
    `t0.gen`. -/
theorem up_to_date_partial (eager : Name → Bool) (ix : Name) (fs0 fs : FS) (t0 : Toc)
    (hne : t0.segs ≠ []) :
    upToDate ix fs (freshReader eager fs0 t0) = true ↔ latestGen ix fs = some t0.gen := by
  have hg : (freshReader eager fs0 t0).generation = some t0.gen := by
    unfold freshReader
    cases hsegs : t0.segs with
    | nil => exact absurd hsegs hne
    | cons a l => cases l <;> rfl
  unfold upToDate
  rw [hg]
  cases latestGen ix fs with
  | none => simp [genEq]
  | some g => simp [genEq]

/-- the full statement … -/
def up_to_date_full : Prop :=
  ∀ (eager : Name → Bool) (ix : Name) (fs0 fs : FS) (t0 : Toc),
    upToDate ix fs (freshReader eager fs0 t0) = true ↔ latestGen ix fs = some t0.gen

/-- … is false for an index without segments: `EmptyReader.generation()` is `None`, so
    `up_to_date()` is false although no newer generation exists. -/
theorem up_to_date_full_false : ¬ up_to_date_full := by
  intro h
  have := (h (fun _ => true) C02.Example.ix C02.Example.fs0 C02.Example.fs0 C02.Example.tocOld).2
    (by decide)
  revert this
  decide

/-! ### non-vacuity: a reader held across the example commit of C02 -/
namespace Example
open C02.Example

/-- the reader opened on the committed example index and an optimising commit that replaces
    its segment -/
def fs1 : FS := run fs0 tr
def held : Reader := freshReader (fun _ => true) fs1 tocNew
def seg2 : Name := ['M', '_', 'b', '.', 's', 'e', 'g']
def tmp2 : Name := ['_', 'M', '_', '2', '.', 't', 'o', 'c', '.', '7']
def toc2n : Name := ['_', 'M', '_', '2', '.', 't', 'o', 'c']
def toc2 : Toc := ⟨2, 0, [⟨['M', '_', 'b'], [seg2], []⟩]⟩
def tr2 : List Event :=
  [.create seg2, .write seg2 200, .close seg2, .create tmp2, .setToc tmp2 toc2, .write tmp2 60,
   .close tmp2, .rename tmp2 toc2n, .delete toc1, .delete segFile]

example : EagerHandles held = true := by decide
/-- `snapshot` instantiated: the reader opened on generation 1 is unchanged by the optimising
    commit `tr2` that unlinks its segment file -/
example : ∃ r, openReader allFiles ix fs1 = .ok r ∧ r.segs = tocNew.segs ∧
    probe (run fs1 tr2) r = probe fs1 r ∧ probe (crash (run fs1 tr2) fun _ => 0) r = probe fs1 r :=
  snapshot_after_commit ix tocOld tocNew tmpN fs0 tr consistent0 (by decide) tr2 _ (by decide)
example : freshNames fs1 tr2 = true := by decide
example : freshCreates fs1 tr2 = true := by decide
/-- the held reader still shows generation 1 after its segment file was unlinked … -/
example : probe (run fs1 tr2) held = probe fs1 held := by rfl
/-- … is no longer up to date, and refreshing it gives the reader of generation 2 -/
example : upToDate ix (run fs1 tr2) held = false := by decide
example : refresh (fun _ => true) ix (run fs1 tr2) held
    = .ok (freshReader (fun _ => true) (run fs1 tr2) toc2) := by rfl

/-- an `ix.reader()` call racing with that commit: it reads TOC 1, the writer then publishes
    TOC 2 and unlinks the old segment before the reader got to open it, the open fails, the
    reader re-reads the TOC and ends up on generation 2 with the new segment file pinned -/
def race : List MStep :=
  [.r] ++ tr2.map .w ++ [.r, .r, .r, .r]

def doneOn : ROpen → Option (Nat × List Name)
  | .done t got => some (t.gen, got.map (·.1))
  | _ => none

example : SafeCommitTrace ix tocNew toc2 tmp2 fs1 (wevents race) = true := by decide
example : doneOn (mrun (fun _ => true) ix (fs1, .start 10) race).2 = some (2, [seg2]) := by decide
/-- `held.refresh()` racing the same commit: it reads TOC 1 (nothing to do: its own segment is
    recycled) when scheduled first, and ends on the fresh reader of generation 2 when the commit
    lands before its TOC read -/
def doneReader : RRefresh → Option (Nat × Reader)
  | .done t r => some (t.gen, r)
  | _ => none

example : doneReader (xmrun (fun _ => true) ix held (fs1, .start 10)
    ([.r, .r] ++ tr2.map .w ++ [.r])).2 = some (1, held) := by decide
example : doneReader (xmrun (fun _ => true) ix held (fs1, .start 10)
    (tr2.map .w ++ [.r, .r, .r, .r, .r])).2
    = some (2, freshReader (fun _ => true) (run fs1 tr2) toc2) := by decide

/-- the same reader scheduled before the clean-up stays on generation 1 -/
example : doneOn (mrun (fun _ => true) ix (fs1, .start 10)
    ([.r, .r] ++ tr2.map .w ++ [.r])).2 = some (1, [segFile]) := by decide

end Example

end WM.C03
