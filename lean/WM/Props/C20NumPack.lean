import WM.Lemmas.NumPack
import WM.Lemmas.NumPackS16
/-! C20 (packed number lists): `GInts` and `Simple16` of `whoosh/util/numlists.py` decode to what
was encoded. -/
set_option linter.unusedSimpArgs false
namespace WM.C20
open WM.NumLists WM.NumPack

/-- `GInts.read_nums(write_nums(xs))`: every list of numbers below 2^32 (`GInts.maxint`), any
    length (full groups of four and a shorter last group), any unread suffix: the numbers come
    back and the suffix is left unread. -/
theorem gints_roundtrip (xs rest : List Nat) (h : ∀ x ∈ xs, x < 2 ^ 32) :
    ∃ bs, gWrite xs = some bs ∧ gRead xs.length (bs ++ rest) = some (xs, rest) := by
  have h' : ∀ x ∈ xs, x < 4294967296 := h
  refine ⟨gLayout xs, ?_, gReadLoop_layout xs rest 0 h'⟩
  unfold gWrite
  rw [gWriteLoop_layout xs [] h']
  simp

/-- … and the file is the documented layout: per group of (up to) four numbers one key byte with
    the four 2-bit byte counts, then each number in 1–4 little-endian bytes. -/
theorem gints_layout (xs : List Nat) (h : ∀ x ∈ xs, x < 2 ^ 32) : gWrite xs = some (gLayout xs) := by
  have h' : ∀ x ∈ xs, x < 4294967296 := h
  unfold gWrite
  rw [gWriteLoop_layout xs [] h']
  simp

/-- A number above `maxint` anywhere in the list makes `write_nums` raise (`struct.error`): nothing
    is ever silently truncated. -/
theorem gints_rejects (xs : List Nat) (h : ∃ x ∈ xs, 2 ^ 32 ≤ x) : gWrite xs = none := by
  rcases h with ⟨x, hx, hle⟩
  exact gWriteLoop_none xs [] [] 0 0 ⟨x, hx, by omega⟩

example : gWrite [1, 256, 65536, 16777216, 4294967295]
      = some [0xE4, 1, 0, 1, 0, 0, 1, 0, 0, 0, 1, 3, 255, 255, 255, 255]
    ∧ gRead 5 [0xE4, 1, 0, 1, 0, 0, 1, 0, 0, 0, 1, 3, 255, 255, 255, 255, 9]
      = some ([1, 256, 65536, 16777216, 4294967295], [9])
    ∧ gWrite [1, 4294967296] = none
    ∧ gRead 2 [0, 7] = none := by decide

/-! ### Simple16 -/

/-- One Simple16 word: whatever layout `_compress` picks for the remaining numbers, it takes at
    least one of them, the word fits 32 bits, and `_decompress` of the word (with the same
    remaining count) yields exactly the numbers taken. -/
theorem simple16_word (xs : List Nat) (value num : Nat) (hne : xs ≠ [])
    (h : s16compress xs = some (value, num)) :
    s16decompress value xs.length = xs.take num ∧ 0 < num ∧ num ≤ xs.length ∧ value < 2 ^ 32 :=
  s16_word xs value num hne h

/-- `Simple16.read_nums(write_nums(xs))`: every list of numbers below 2^28 (`Simple16.maxint`)
    is written (some layout always takes the next number), and reading `len(xs)` numbers returns
    them and leaves any suffix unread — for every length, in particular a last word that is only
    partly filled. -/
theorem simple16_roundtrip (xs rest : List Nat) (h : ∀ x ∈ xs, x < 2 ^ 28) :
    ∃ bs, s16write xs = some bs ∧ s16read xs.length (bs ++ rest) = some (xs, rest) :=
  s16read_write xs.length xs rest rfl h

/-- A number of 2^28 or more anywhere in the list makes `write_nums` raise (the bare `Exception`
    of `_compress`): nothing is silently truncated. -/
theorem simple16_rejects (xs : List Nat) (h : ∃ x ∈ xs, 2 ^ 28 ≤ x) : s16write xs = none :=
  s16write_none xs.length xs rfl h

/-- `Simple16.get(f, pos, i)` (as repaired) is the `i`-th number of the list written at `pos`:
    whole words are skipped by their layout's count, the number is cut out of its word; for every
    index, in particular the first number of the 2nd, 3rd, … word and a partly filled last word. -/
theorem simple16_get (pre xs rest : List Nat) (h : ∀ x ∈ xs, x < 2 ^ 28) (i : Nat) (hi : i < xs.length) :
    ∃ bs, s16write xs = some bs ∧ s16get ((pre ++ bs ++ rest).drop pre.length) i = some xs[i] := by
  obtain ⟨bs, hw, hg⟩ := s16get_write xs.length xs rest i rfl h hi
  refine ⟨bs, hw, ?_⟩
  rw [List.append_assoc, List.drop_left]
  exact hg

example : s16bits.map List.length = s16num ∧ s16bits.length = 16 := by decide

example : s16compress [1, 0, 1] = some (5, 3) ∧ s16decompress 5 3 = [1, 0, 1]
    ∧ s16compress [3, 1] = some (1 * 2 ^ 28 + 3 + 4, 2)
    ∧ s16compress [268435455, 1] = some (15 * 2 ^ 28 + 268435455, 1)
    ∧ s16compress [268435456] = none := by decide

/-! ### delta variants: `read_deltas(write_deltas(xs))` -/

/-- **Delta lists, every codec at once.**  For any codec whose `read_nums ∘ write_nums` round-trips
    on numbers in its range `P`, `read_deltas(write_deltas(xs)) = xs` (suffix left unread) for every
    ascending list (equal neighbours allowed) whose gaps — first element included — are in range:
    the composition of `delta_roundtrip` with the codec's own round trip. -/
theorem deltas_roundtrip (P : Nat → Prop) (write : List Nat → Option (List Nat))
    (read : Nat → List Nat → Option (List Nat × List Nat))
    (hrt : ∀ ds rest, (∀ d ∈ ds, P d) → ∃ bs, write ds = some bs ∧ read ds.length (bs ++ rest) = some (ds, rest))
    (xs rest : List Nat) (hasc : xs.Pairwise (· ≤ ·)) (hP : ∀ d ∈ natDeltas 0 xs, P d) :
    ∃ bs, writeDeltasWith write xs = some bs ∧ readDeltasWith read xs.length (bs ++ rest) = some (xs, rest) :=
  deltas_roundtrip_with P write read hrt xs rest (ascFrom_of_pairwise 0 xs (fun _ _ => Nat.zero_le _) hasc) hP

/-- `GInts`: ascending doc-id lists with gaps below 2^32 (the ids themselves may be larger). -/
theorem gints_deltas_roundtrip (xs rest : List Nat) (hasc : xs.Pairwise (· ≤ ·))
    (hP : ∀ d ∈ natDeltas 0 xs, d < 2 ^ 32) :
    ∃ bs, writeDeltasWith gWrite xs = some bs ∧ readDeltasWith gRead xs.length (bs ++ rest) = some (xs, rest) :=
  deltas_roundtrip (· < 2 ^ 32) gWrite gRead (fun ds r h => gints_roundtrip ds r h) xs rest hasc hP

/-- `Simple16`: gaps below 2^28. -/
theorem simple16_deltas_roundtrip (xs rest : List Nat) (hasc : xs.Pairwise (· ≤ ·))
    (hP : ∀ d ∈ natDeltas 0 xs, d < 2 ^ 28) :
    ∃ bs, writeDeltasWith s16write xs = some bs ∧ readDeltasWith s16read xs.length (bs ++ rest) = some (xs, rest) :=
  deltas_roundtrip (· < 2 ^ 28) s16write s16read (fun ds r h => simple16_roundtrip ds r h) xs rest hasc hP

/-- `Varints`: every ascending list. -/
theorem varints_deltas_roundtrip (xs rest : List Nat) (hasc : xs.Pairwise (· ≤ ·)) :
    ∃ bs, writeDeltasWith (fun l => some (writeVarints l)) xs = some bs
      ∧ readDeltasWith readVarints xs.length (bs ++ rest) = some (xs, rest) :=
  deltas_roundtrip (fun _ => True) (fun l => some (writeVarints l)) readVarints
    (fun ds r _ => ⟨_, rfl, readVarints_write ds r⟩) xs rest hasc (fun _ _ => trivial)

/-- `ByteEncoding`/`UShortEncoding`/`UIntEncoding` (any width): gaps inside the width. -/
theorem fixed_deltas_roundtrip (size : Nat) (xs rest : List Nat) (hasc : xs.Pairwise (· ≤ ·))
    (hP : ∀ d ∈ natDeltas 0 xs, d < 256 ^ size) :
    ∃ bs, writeDeltasWith (writeFixed size) xs = some bs
      ∧ readDeltasWith (readFixed size) xs.length (bs ++ rest) = some (xs, rest) :=
  deltas_roundtrip (· < 256 ^ size) (writeFixed size) (readFixed size)
    (fun ds r h => by
      obtain ⟨bs, hw, _, hr⟩ := readFixed_write size ds r h
      exact ⟨bs, hw, hr⟩) xs rest hasc hP

example : natDeltas 0 [3, 10, 10, 70000] = [3, 7, 0, 69990]
    ∧ writeDeltasWith gWrite [3, 10, 10, 70000] = some [0x80, 3, 7, 0, 0x66, 0x11, 0x01]
    ∧ readDeltasWith gRead 4 [0x80, 3, 7, 0, 0x66, 0x11, 0x01, 9] = some ([3, 10, 10, 70000], [9])
    ∧ writeDeltasWith gWrite [5, 4] = none := by decide

end WM.C20
