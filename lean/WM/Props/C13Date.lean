import WM.Lemmas.NumericDate
import WM.Props.C13
/-! C13, round 3 — DATETIME end to end: the calendar, partial dates (`adatetime` floor/ceil),
    `DATETIME.parse_range` / `parse_query`, and column values of sortable fields. -/
namespace WM.C13
open WM.Numeric WM.NumericSpec WM.NumericDate

/-! ### datetimes as microsecond counts, from the calendar up -/

/-- **`datetime_to_long` orders datetimes** — from `(year, month, day, hour, minute, second,
    microsecond)` through `toordinal` (proleptic Gregorian calendar, leap years) to microseconds:
    for all valid datetimes of years 1..9999 the count is strictly monotone in the order of
    datetimes, is a normalised timedelta, and lies in the DATETIME field's domain. -/
theorem civil_order (a b : Civil) (ha : a.valid) (hb : b.valid) :
    (civilToLong a < civilToLong b ↔ civilLt a b = true) ∧
    (civilToTD a).normal ∧ inDomain 64 true (civilToLong a) ∧
    (0 ≤ civilToLong a ∧ civilToLong a < 2 ^ 63) :=
  ⟨civilToLong_lt_iff a b ha hb, civilToTD_normal a ha, civilToLong_inDomain a ha,
   by have := civilToLong_range a ha; omega⟩

/-- Feb 29th 2000 exists, is followed by March 1st, and `datetime.min` maps to 0. -/
example : (⟨2000, 2, 29, 23, 59, 59, 999999⟩ : Civil).valid ∧ ¬ (⟨1900, 2, 29, 0, 0, 0, 0⟩ : Civil).valid ∧
    civilToLong ⟨2000, 3, 1, 0, 0, 0, 0⟩ = civilToLong ⟨2000, 2, 29, 23, 59, 59, 999999⟩ + 1 ∧
    civilToLong ⟨1, 1, 1, 0, 0, 0, 0⟩ = 0 ∧ ordinal 9999 12 31 = 3652059 := by decide

/-- **`DateRange`/`NumericRange` on a DATETIME field, bounds and value as datetimes**: composition
    of `civil_order` with `range_query_int` (64 bits, signed, `shift_step = 8`). -/
theorem range_query_civil (lo hi : Option Civil) (sx ex : Bool) (t : Civil)
    (hlo : ∀ c, lo = some c → c.valid) (hhi : ∀ c, hi = some c → c.valid) (ht : t.valid) :
    ∃ subs ts, compileInt 8 true 8 (lo.map civilToLong) (hi.map civilToLong) sx ex = .ok subs ∧
      indexTerms 8 8 (toSortableInt 64 true (civilToLong t)).toNat = .ok ts ∧
      (matchesDoc subs ts = true ↔ inInterval civilLt lo hi sx ex t = true) := by
  have hs' : ∀ a, lo.map civilToLong = some a → inDomain (8 * 8) true a := by
    intro a ha
    cases lo with
    | none => simp at ha
    | some c =>
      simp only [Option.map_some, Option.some.injEq] at ha
      subst ha; exact civilToLong_inDomain c (hlo c rfl)
  have he' : ∀ a, hi.map civilToLong = some a → inDomain (8 * 8) true a := by
    intro a ha
    cases hi with
    | none => simp at ha
    | some c =>
      simp only [Option.map_some, Option.some.injEq] at ha
      subst ha; exact civilToLong_inDomain c (hhi c rfl)
  obtain ⟨subs, ts, h1, h2, h3⟩ :=
    range_query_int 8 8 (by decide) (by decide) true _ _ sx ex (civilToLong t) hs' he'
      (civilToLong_inDomain t ht)
  refine ⟨subs, ts, h1, h2, ?_⟩
  rw [h3, inInterval_enc civilLt civilToLong Civil.valid
    (fun a b pa pb => (civilToLong_lt_iff a b pa pb).symm) lo hi sx ex t ht hlo hhi]

example : inInterval civilLt (some ⟨2000, 2, 29, 0, 0, 0, 0⟩) (some ⟨2000, 3, 1, 0, 0, 0, 0⟩) false true
    ⟨2000, 2, 29, 12, 0, 0, 0⟩ = true ∧
    inInterval civilLt (some ⟨2000, 2, 29, 0, 0, 0, 0⟩) (some ⟨2000, 3, 1, 0, 0, 0, 0⟩) false true
    ⟨2000, 3, 1, 0, 0, 0, 0⟩ = false := by decide

/-! ### partial dates -/

/-- **A partial date stands for a period**: whatever `DATETIME._parse_datestring` accepts (year 0000
    is rejected since the `fix:` commit) is prefix-shaped and in range; `floor` and `ceil` succeed, are valid datetimes, and a
    valid datetime lies in `[floor, ceil]` iff it agrees with the parsed date on every specified
    attribute (month lengths and leap years included). -/
theorem partial_date_period (cs : List Nat) (p : ADT) (hp : parseDatestring cs = .ok p) :
    p.prefixShaped ∧
    ∃ f cl, p.floor = .ok f ∧ p.ceil = .ok cl ∧ f.valid ∧ cl.valid ∧ p.agrees f ∧ p.agrees cl ∧
      ∀ c : Civil, c.valid → ((civilLt c f = false ∧ civilLt cl c = false) ↔ p.agrees c) :=
  ⟨(parseDatestring_wf cs p hp).1, floor_ceil p (parseDatestring_wf cs p hp)⟩

/-- "200002" is February 2000: 1st 00:00:00.000000 … 29th 23:59:59.999999. -/
example : parseDatestring [2, 0, 0, 0, 0, 2] = .ok ⟨some 2000, some 2, none, none, none, none, none⟩ ∧
    (⟨some 2000, some 2, none, none, none, none, none⟩ : ADT).floor = .ok ⟨2000, 2, 1, 0, 0, 0, 0⟩ ∧
    (⟨some 2000, some 2, none, none, none, none, none⟩ : ADT).ceil = .ok ⟨2000, 2, 29, 23, 59, 59, 999999⟩ ∧
    parseDatestring [2, 0, 0, 1, 0, 2, 3, 0] = .error .valueError ∧
    parseDatestring [2, 0, 0] = .error .valueError := by decide

/-- **One bound of `DATETIME.parse_range`**: it succeeds with the microsecond count of a valid
    datetime `c` of the period, chosen so that the comparison `NumericRange` then makes reads as
    a statement about the whole period: an exclusive start leaves every instant of the period out
    (`t` is later than all of them), an inclusive start takes the period in (`t` is not before all
    of them); symmetrically for the end. -/
theorem range_bound_period (cs : List Nat) (p : ADT) (hp : parseDatestring cs = .ok p)
    (lowerSide excl : Bool) :
    ∃ c : Civil, c.valid ∧ p.agrees c ∧ rangeBound cs lowerSide excl = .ok (civilToLong c) ∧
      ∀ t : Civil, t.valid →
        (inInterval civilLt (if lowerSide then some c else none) (if lowerSide then none else some c)
            excl excl t = true ↔
          (if lowerSide then
            (if excl then ∀ c', c'.valid → p.agrees c' → civilLt c' t = true
             else ∃ c', c'.valid ∧ p.agrees c' ∧ civilLt t c' = false)
           else
            (if excl then ∀ c', c'.valid → p.agrees c' → civilLt t c' = true
             else ∃ c', c'.valid ∧ p.agrees c' ∧ civilLt c' t = false))) := by
  obtain ⟨f, cl, hf, hcl, vf, vcl, af, acl, hper⟩ := floor_ceil p (parseDatestring_wf cs p hp)
  have rb : ∀ (c : Civil), (if (lowerSide != excl) = true then p.floor else p.ceil) = .ok c →
      rangeBound cs lowerSide excl = .ok (civilToLong c) := by
    intro c hc
    unfold rangeBound
    rw [hp]
    simp only [bind, Except.bind, pure, Except.pure]
    split at hc <;> rename_i hb <;> simp [hb, hc]
  cases lowerSide <;> cases excl
  · -- inclusive end: ceil
    refine ⟨cl, vcl, acl, rb cl (by simpa using hcl), ?_⟩
    intro t ht
    simp only [inInterval, Bool.false_eq_true, if_false, Bool.true_and]
    constructor
    · intro h; exact ⟨cl, vcl, acl, by simpa using h⟩
    · rintro ⟨c', v', a', h'⟩
      have := ((hper c' v').2 a').2
      simpa using civilLt_false_trans t c' cl ht v' vcl h' this
  · -- exclusive end: floor
    refine ⟨f, vf, af, rb f (by simpa using hf), ?_⟩
    intro t ht
    simp only [inInterval, Bool.false_eq_true, if_false, if_true, Bool.true_and]
    constructor
    · intro h c' v' a'
      have := ((hper c' v').2 a').1
      exact civilLt_trans_le' t f c' ht vf v' h this
    · intro h; exact h f vf af
  · -- inclusive start: floor
    refine ⟨f, vf, af, rb f (by simpa using hf), ?_⟩
    intro t ht
    simp only [inInterval, Bool.false_eq_true, if_false, if_true, Bool.and_true]
    constructor
    · intro h; exact ⟨f, vf, af, by simpa using h⟩
    · rintro ⟨c', v', a', h'⟩
      have := ((hper c' v').2 a').1
      simpa using civilLt_false_trans f c' t vf v' ht this h'
  · -- exclusive start: ceil
    refine ⟨cl, vcl, acl, rb cl (by simpa using hcl), ?_⟩
    intro t ht
    simp only [inInterval, if_true, Bool.and_true]
    constructor
    · intro h c' v' a'
      have := ((hper c' v').2 a').2
      exact civilLt_trans_le c' cl t v' vcl ht this h
    · intro h; exact h cl vcl acl

/-- `{2000 TO …`: the exclusive start "2000" is the last microsecond of the year 2000. -/
example : rangeBound [2, 0, 0, 0] true true = .ok (civilToLong ⟨2000, 12, 31, 23, 59, 59, 999999⟩) ∧
    rangeBound [2, 0, 0, 0] true false = .ok (civilToLong ⟨2000, 1, 1, 0, 0, 0, 0⟩) := by decide

/-- **`DATETIME.parse_range` as a whole**: with both bound strings parseable the result
    is `NumericRange(a, b, startexcl, endexcl)` whose compiled query matches a document holding the
    datetime `t` iff `t` lies in the interval of datetimes `lo … hi`, where `lo`/`hi` are the
    period ends `range_bound_period` describes; two absent bounds give `Every`. -/
theorem parse_range_datetime (start end_ : Option (List Nat)) (sx ex : Bool) (t : Civil) (ht : t.valid)
    (hs : ∀ cs, start = some cs → ∃ p, parseDatestring cs = .ok p)
    (he : ∀ cs, end_ = some cs → ∃ p, parseDatestring cs = .ok p) :
    (start = none ∧ end_ = none ∧ parseRange start end_ sx ex = .ok none) ∨
    ∃ (lo hi : Option Civil) (subs : List Sub) (ts : List (List Nat)),
      (∀ c, lo = some c → c.valid) ∧ (∀ c, hi = some c → c.valid) ∧
      (lo.isSome = start.isSome) ∧ (hi.isSome = end_.isSome) ∧
      (∀ cs c, start = some cs → lo = some c → rangeBound cs true sx = .ok (civilToLong c)) ∧
      (∀ cs c, end_ = some cs → hi = some c → rangeBound cs false ex = .ok (civilToLong c)) ∧
      parseRange start end_ sx ex = .ok (some (lo.map civilToLong, hi.map civilToLong)) ∧
      compileInt 8 true 8 (lo.map civilToLong) (hi.map civilToLong) sx ex = .ok subs ∧
      indexTerms 8 8 (toSortableInt 64 true (civilToLong t)).toNat = .ok ts ∧
      (matchesDoc subs ts = true ↔ inInterval civilLt lo hi sx ex t = true) := by
  -- the datetime each present bound stands for
  have bound : ∀ (o : Option (List Nat)) (lower excl : Bool),
      (∀ cs, o = some cs → ∃ p, parseDatestring cs = .ok p) →
      ∃ b : Option Civil, (∀ c, b = some c → c.valid) ∧ b.isSome = o.isSome ∧
        (∀ cs c, o = some cs → b = some c → rangeBound cs lower excl = .ok (civilToLong c)) := by
    intro o lower excl ho
    cases o with
    | none =>
      refine ⟨none, ?_, rfl, ?_⟩
      · intro c hc; cases hc
      · intro cs c hcs; cases hcs
    | some cs =>
      obtain ⟨p, hp⟩ := ho cs rfl
      obtain ⟨c, vc, _, hrb, _⟩ := range_bound_period cs p hp lower excl
      refine ⟨some c, ?_, rfl, ?_⟩
      · intro c' hc'; injection hc' with hc'; subst hc'; exact vc
      · intro cs' c' hcs' hc'
        injection hcs' with hcs'; injection hc' with hc'; subst hcs' hc'; exact hrb
  obtain ⟨lo, vlo, ilo, rlo⟩ := bound start true sx hs
  obtain ⟨hi, vhi, ihi, rhi⟩ := bound end_ false ex he
  by_cases hnone : start = none ∧ end_ = none
  · left
    obtain ⟨rfl, rfl⟩ := hnone
    exact ⟨rfl, rfl, rfl⟩
  · right
    obtain ⟨subs, ts, h1, h2, h3⟩ := range_query_civil lo hi sx ex t vlo vhi ht
    refine ⟨lo, hi, subs, ts, vlo, vhi, ilo, ihi, rlo, rhi, ?_, h1, h2, h3⟩
    cases start with
    | none =>
      cases end_ with
      | none => exact absurd ⟨rfl, rfl⟩ hnone
      | some ce =>
        cases lo with
        | some _ => simp at ilo
        | none =>
          cases hi with
          | none => simp at ihi
          | some ch =>
            simp [parseRange, rhi ce ch rfl rfl, bind, Except.bind, pure, Except.pure, Except.map]
    | some cstart =>
      cases lo with
      | none => simp at ilo
      | some cl =>
        cases end_ with
        | none =>
          cases hi with
          | some _ => simp at ihi
          | none =>
            simp [parseRange, rlo cstart cl rfl rfl, bind, Except.bind, pure, Except.pure, Except.map]
        | some ce =>
          cases hi with
          | none => simp at ihi
          | some ch =>
            simp [parseRange, rlo cstart cl rfl rfl, rhi ce ch rfl rfl, bind, Except.bind, pure,
              Except.pure, Except.map]

/-- Hypotheses satisfiable: `[200002 TO 2001}`. -/
example : (∃ p, parseDatestring [2, 0, 0, 0, 0, 2] = .ok p) ∧
    parseRange (some [2, 0, 0, 0, 0, 2]) (some [2, 0, 0, 1]) false true =
      .ok (some (some (civilToLong ⟨2000, 2, 1, 0, 0, 0, 0⟩), some (civilToLong ⟨2001, 1, 1, 0, 0, 0, 0⟩))) := by
  exact ⟨⟨⟨some 2000, some 2, none, none, none, none, none⟩, by decide⟩, by decide⟩

/-- **`DATETIME.parse_query` of a partial date**: the query is the inclusive range
    `[floor, ceil]`, which matches exactly the documents whose datetime agrees with the partial
    date on every specified attribute. -/
theorem parse_query_datetime (cs : List Nat) (p : ADT) (hp : parseDatestring cs = .ok p)
    (hamb : p.ambiguous = true) (t : Civil) (ht : t.valid) :
    ∃ f cl subs ts, parseQuery cs = .ok (.range (civilToLong f) (civilToLong cl)) ∧
      compileInt 8 true 8 (some (civilToLong f)) (some (civilToLong cl)) false false = .ok subs ∧
      indexTerms 8 8 (toSortableInt 64 true (civilToLong t)).toNat = .ok ts ∧
      (matchesDoc subs ts = true ↔ p.agrees t) := by
  obtain ⟨f, cl, hf, hcl, vf, vcl, af, acl, hper⟩ := floor_ceil p (parseDatestring_wf cs p hp)
  obtain ⟨subs, ts, h1', h2, h3⟩ := range_query_civil (some f) (some cl) false false t
    (by intro c hc; injection hc with hc; subst hc; exact vf)
    (by intro c hc; injection hc with hc; subst hc; exact vcl) ht
  refine ⟨f, cl, subs, ts, ?_, h1', h2, ?_⟩
  · unfold parseQuery
    simp only [hp, hamb, if_true, hf, hcl, bind, Except.bind, pure, Except.pure]
  · rw [h3, ← hper t ht]
    simp [inInterval]

example : parseQuery [2, 0, 0, 0, 0, 2] =
    .ok (.range (civilToLong ⟨2000, 2, 1, 0, 0, 0, 0⟩) (civilToLong ⟨2000, 2, 29, 23, 59, 59, 999999⟩)) ∧
    parseQuery [2, 0, 0, 1, 0, 2, 2, 9] = .ok .error := by decide

/-- **`DATETIME.parse_query` never raises** (after the `fix:` commit that makes `_parse_datestring`
    reject year 0000): an unparseable string gives the error query, a partial date the range
    `[floor, ceil]`, a full timestamp the term of that instant — `floor()`/`ceil()`, which are
    called outside the `try`, cannot fail on a parsed date. -/
theorem parse_query_total (cs : List Nat) : ∃ q, parseQuery cs = .ok q := by
  unfold parseQuery
  cases hp : parseDatestring cs with
  | error e => exact ⟨.error, rfl⟩
  | ok p =>
    obtain ⟨f, cl, hf, hcl, _⟩ := floor_ceil p (parseDatestring_wf cs p hp)
    simp only
    by_cases hamb : p.ambiguous = true
    · exact ⟨.range (civilToLong f) (civilToLong cl),
        by simp only [hamb, if_true, hf, hcl, bind, Except.bind, pure, Except.pure]⟩
    · exact ⟨.term (civilToLong f), by simp [hamb, hf, bind, Except.bind, pure, Except.pure]⟩

/-- Year 0000 is now an unparseable date, not an exception out of `parse_query`. -/
example : parseQuery [0, 0, 0, 0] = .ok .error ∧ parseDatestring [0, 0, 0, 0, 0, 1] = .error .valueError := by
  decide

/-! ### `long_to_datetime` -/

/-- **`long_to_datetime ∘ datetime_to_long = id`** on every valid datetime, through the inverse
    calendar (`_ord2ymd`: 400/100/4/1-year cycles and the month estimate) — no longer trusted. -/
theorem datetime_roundtrip (c : Civil) (hc : c.valid) : longToCivil (civilToLong c) = some c := by
  have hn := civilToTD_normal c hc
  have e : longToTD (civilToLong c) = civilToTD c := datetime.1 _ hn
  have hb := ord_bounds c hc
  have hm := ord_le_max c hc
  have hy := ord2ymd_ordinal c hc
  obtain ⟨_, _, _, _, _, _, a7, a8, a9, a10⟩ := hc
  unfold longToCivil
  rw [e]
  simp only [civilToTD]
  have hcond : (0 : Int) ≤ (ordinal c.year c.month c.day : Int) - 1 ∧
      (ordinal c.year c.month c.day : Int) - 1 ≤ 3652058 := by constructor <;> omega
  refine (if_pos hcond).trans ?_
  · have e1 : ((ordinal c.year c.month c.day : Int) - 1).toNat + 1 = ordinal c.year c.month c.day := by omega
    rw [e1, hy]
    simp only [Int.toNat_natCast]
    have f1 : (c.hour * 3600 + c.minute * 60 + c.second) / 3600 = c.hour := by omega
    have f2 : (c.hour * 3600 + c.minute * 60 + c.second) / 60 % 60 = c.minute := by omega
    have f3 : (c.hour * 3600 + c.minute * 60 + c.second) % 60 = c.second := by omega
    rw [f1, f2, f3]

example : longToCivil (civilToLong ⟨2000, 2, 29, 23, 59, 59, 999999⟩) = some ⟨2000, 2, 29, 23, 59, 59, 999999⟩ ∧
    ord2ymd 730179 = (2000, 2, 29) ∧ ord2ymd 3652059 = (9999, 12, 31) ∧ ord2ymd 1 = (1, 1, 1) ∧
    longToCivil (-1) = none := by decide

/-! ### BOOLEAN -/

/-- **BOOLEAN fields match exactly** (after the `fix:` commit): a document indexed with the value
    `v` owns one term; the query `parse_query(q)` (`q ≠ "*"`) matches it iff `v` and `q` have the same
    truth value under the one reading `_obj_to_bool` — for bools, objects, the true/false words and
    every other string; `"*"` matches every document that has the field. -/
theorem boolean_match (v q : BIn) :
    (boolIndex v).length = 1 ∧
    (q ≠ .star → (boolParseQuery q).matchesTerms (boolIndex v) = (objToBool v == objToBool q)) ∧
    (boolParseQuery .star).matchesTerms (boolIndex v) = true := by
  refine ⟨rfl, ?_, rfl⟩
  intro hq
  cases v <;> cases q <;> first | exact absurd rfl hq | (rename_i a b; cases a <;> cases b <;> decide) |
    (rename_i a; cases a <;> decide) | decide

/-- **The pinned tree disagreed with itself**: a string outside the word lists ("garbage") was
    indexed under `f` but queried as `t` — the document never matched its own value. -/
theorem boolean_old_disagrees :
    (boolParseQuery (.strOther true)).matchesTerms [boolToBytesOld (.strOther true)] = false ∧
    (boolParseQuery (.strOther true)).matchesTerms (boolIndex (.strOther true)) = true := by decide

example : boolToBytes .strTrue = [116] ∧ boolToBytes (.strOther false) = [102] ∧
    boolParseQuery .star = .every ∧ boolParseQuery .strFalse = .term false := by decide

/-! ### column values of `sortable=True` fields -/

/-- **Column order is value order** (feeds C14's sorting by a numeric field): on an integer field
    `to_column_value` accepts exactly the domain, lands in `[0, 2^bits)` (the column's unsigned
    typecode), is strictly monotone and inverted by `from_column_value`; on a DATETIME field the
    column holds the microsecond count itself — in `[0, 2^63)`, strictly monotone in the order of
    datetimes, and `from_column_value` returns the same instant. -/
theorem column_order (n : Nat) (hn : 0 < n) (signed : Bool) :
    (∀ x, toColumnInt n signed x =
      if inDomain n signed x then .ok (toSortableInt n signed x) else .error .valueError) ∧
    (∀ x, inDomain n signed x → 0 ≤ toSortableInt n signed x ∧ toSortableInt n signed x < 2 ^ n ∧
      fromColumnInt n signed (toSortableInt n signed x) = x) ∧
    (∀ x y, toSortableInt n signed x < toSortableInt n signed y ↔ x < y) ∧
    (∀ a b : Civil, a.valid → b.valid →
      (toColumnDatetime a < toColumnDatetime b ↔ civilLt a b = true) ∧
      0 ≤ toColumnDatetime a ∧ toColumnDatetime a < 2 ^ 63 ∧
      fromColumnDatetime (toColumnDatetime a) = civilToTD a) := by
  refine ⟨?_, ?_, toSortableInt_lt n signed, ?_⟩
  · intro x
    unfold toColumnInt
    rw [prepareInt_eq]
    by_cases hx : inDomain n signed x <;> simp [hx, bind, Except.bind, pure, Except.pure]
  · intro x hx
    have := (int_sortable n hn signed).2.1 x hx
    exact ⟨this.1, this.2.1, this.2.2⟩
  · intro a b ha hb
    have h := civil_order a b ha hb
    refine ⟨h.1, h.2.2.2.1, h.2.2.2.2, ?_⟩
    exact (datetime.1 (civilToTD a) h.2.1)

example : toColumnInt 8 true (-128) = .ok 0 ∧ toColumnInt 8 true 127 = .ok 255 ∧
    toColumnInt 8 true 128 = .error .valueError ∧ fromColumnInt 8 true 255 = 127 := by decide

end WM.C13
