import WM.Props.C01
import WM.Props.C01Cursor
import WM.Props.C01Multi
import WM.Lemmas.SearchTopK
import WM.Lemmas.LengthByte
import WM.Lemmas.SearchLayout
import WM.Lemmas.SearchModels
/-!
C09 — scores are the documented composition of the weighting model's term scores (list level).

`scoreOf ls q d` composes the leaf scores `ls` (any weighting model: a function of the document,
the field and the term): sum over the matching clauses × boost for And/Or, maximum over the
matching clauses for DisjunctionMax, first operand for Require/AndNot, first plus second when the
second matches for AndMaybe, the constant for constant-score queries (`ConstantScoreQuery`,
`constantscore=True` multi-term queries and ranges, `Every`), 1 for `Not`.
-/
namespace WM.C09
open WM.Search WM.Compile

/-- In every scored context the list compiled for a segment is *exactly* the specified one: the
    live documents satisfying the query, each with the score `scoreOf ls q d` — for every binary
    tree shape over the clauses and every `Or` strategy. -/
theorem scores (ls : LeafScore) (so : ShapeOracle) (s : Segment) (hso : ValidOracle so)
    (hleaf : PosLeaf ls s) (q : Query) (hq : PosQ q) (ctx : Ctx)
    (hsc : ctx.scored = true) :
    compile ls so s ctx q = segHits ls q s :=
  compile_eq_segHits ls so s hso hleaf q hq ctx hsc

/-- entry-wise reading of `scores` -/
theorem score_of_entry (ls : LeafScore) (so : ShapeOracle) (s : Segment) (hso : ValidOracle so)
    (hleaf : PosLeaf ls s) (q : Query) (hq : PosQ q) (ctx : Ctx)
    (hsc : ctx.scored = true) :
    ∀ e ∈ compile ls so s ctx q, e.score = scoreOf ls q (s.doc e.id) ∧ e.id ∈ s.live ∧ sat q (s.doc e.id) = true := by
  rw [scores ls so s hso hleaf q hq ctx hsc]
  intro e he
  unfold segHits at he
  obtain ⟨i, hi, rfl⟩ := List.mem_map.mp he
  have := List.mem_filter.mp hi
  exact ⟨rfl, this.1, this.2⟩

/-- The score of a document does not depend on whether the collector needs the current match: a
    run whose context has `needs_current` set (`terms=True`: the matcher tree is stepped, unions are
    binary trees, constant scores are wrappers) and a run without it (plain `search`: array unions,
    pre-read constant-score lists), with whatever tree shapes, give the same `(doc, score)` list — the
    specified `hits`; hence a document's score is a function of the query and that document alone
    (not of the other documents in the result), and the ranked result is a permutation of it.
    (Top-N collectors, `limit` and quality skipping are C05's; sorting and filtering collectors C14's.) -/
theorem collector_independent (ls : LeafScore) (so so' : ShapeOracle) (hso : ValidOracle so)
    (hso' : ValidOracle so') (idx : Index) (hok : IndexOK ls idx) (q : Query) (hq : PosQ q)
    (nc nc' : Bool) :
    run ls so ⟨nc, true⟩ q idx = run ls so' ⟨nc', true⟩ q idx ∧
    run ls so ⟨nc, true⟩ q idx = hits ls q idx ∧
    (rankAll ls q idx).Perm (run ls so ⟨nc, true⟩ q idx) := by
  have h1 := runFrom_eq ls so hso q hq ⟨nc, true⟩ rfl idx 0 hok
  have h2 := runFrom_eq ls so' hso' q hq ⟨nc', true⟩ rfl idx 0 hok
  refine ⟨h1.trans h2.symm, h1, ?_⟩
  show (rankAll ls q idx).Perm (runFrom ls so ⟨nc, true⟩ q 0 idx)
  rw [h1]
  exact rankAll_perm ls q idx

/-- **Scores through the top searcher.**  `Term.matcher(top searcher)` - the `MultiMatcher` that
    `Searcher.postings` builds over the segments' posting readers, each with its own per-segment scorer, under
    the boost wrapper (`WM.Compile.topTerm`) - is a well-formed cursor whose `(id, score)` list is exactly the
    specified `hits`: every live document of the whole index containing the term, in global document
    numbers, with `scoreOf` of that document (leaf score x query boost) - the same list the
    segment-by-segment collectors produce (`collector_independent`), whatever the segment layout.
    (Composition of `WM.C01.term_top` with `collector_independent`.) -/
theorem term_top_scores (ls : LeafScore) (so : ShapeOracle) (hso : ValidOracle so) (idx : Index)
    (hok : IndexOK ls idx) (f : String) (t : Term) (b : Rat) (hq : PosQ (.term f t b)) :
    WM.Matcher.WF (topTerm ls idx f t b).1 (topTerm ls idx f t b).2 ∧
    toPL (topTerm ls idx f t b).den = hits ls (.term f t b) idx := by
  obtain ⟨h1, h2, -⟩ := WM.C01.term_top ls so hso idx hok f t b hq ⟨false, true⟩
  exact ⟨h1, h2.trans (collector_independent ls so so hso hso idx hok (.term f t b) hq false false).2.1⟩

example : toPL (topTerm freqLeaf WM.C01.exIdx "t" [97] 2).den = [⟨1, 4⟩, ⟨3, 2⟩] ∧
    hits freqLeaf (.term "t" [97] 2) WM.C01.exIdx = [⟨1, 4⟩, ⟨3, 2⟩] ∧ PosQ (.term "t" [97] 2) :=
  ⟨by decide +kernel, by decide +kernel, posQ_of_posQuery _ (by decide)⟩

/-! a concrete instance (shared with C01): scores under `Frequency` -/

example : IndexOK freqLeaf WM.C01.exIdx ∧ PosQ WM.C01.exQ ∧
    hits freqLeaf WM.C01.exQ WM.C01.exIdx = [⟨1, 5⟩, ⟨4, 1⟩] :=
  ⟨WM.C01.exIdx_ok, WM.C01.exQ_pos, by decide +kernel⟩

/-! ### the score bridge to the cursor model (C11) -/

/-- the specified `(doc, score)` list of a segment in the matcher family's vocabulary -/
def specDen (ls : LeafScore) (q : Query) (s : Segment) : WM.Matcher.Den :=
  (s.live.filter (fun i => sat q (s.doc i))).map (fun i => (i, scoreOf ls q (s.doc i)))

theorem runSpecR_suffix : ∀ (prog : List WM.Matcher.CmdR) (L0 L : WM.Matcher.Den),
    WM.Matcher.runSpecR prog L0 = some L → L <:+ L0
  | [], L0, L, h => by simp only [WM.Matcher.runSpecR, Option.some.injEq] at h; subst h; exact List.suffix_refl _
  | c :: cs, L0, L, h => by
    simp only [WM.Matcher.runSpecR] at h
    cases hc : c.spec L0 with
    | none => rw [hc] at h; cases h
    | some L1 =>
      rw [hc] at h
      have h1 := runSpecR_suffix cs L1 L h
      have h2 : L1 <:+ L0 := by
        cases c with
        | next =>
          cases L0 with
          | nil => cases hc
          | cons p L' => simp only [WM.Matcher.CmdR.spec, Option.some.injEq] at hc; subst hc; exact List.suffix_cons _ _
        | skipTo t =>
          cases L0 with
          | nil => cases hc
          | cons p L' =>
            simp only [WM.Matcher.CmdR.spec, Option.some.injEq] at hc; subst hc
            exact List.dropWhile_suffix _
        | replace0 => simp only [WM.Matcher.CmdR.spec, Option.some.injEq] at hc; subst hc; exact List.suffix_refl _
      exact h1.trans h2

/-- **C09 over cursors.**  For every query of the cursor fragment (`CursorOK`: term / null / Every leaves,
    multi-term expansions, the boolean constructors, union trees and the scored array union) in a scored
    context, the cursor tree `Query.matcher` builds (`build`) is constructed without error and stands on
    exactly the specified list `(doc, scoreOf ls q doc)` of the live satisfying documents; and whatever
    program of `next()` / `skip_to(t)` / `replace()` calls the specification list allows runs on the tree
    without error and leaves it well formed on the list `L` the list model predicts — so that, wherever
    the cursor then stands, `id()` is a live document satisfying the query and `score()` **is**
    `scoreOf ls q` of that document (composition of `WM.C01.cursor_den`, `scores` and
    `WM.C11.program_replace` / `refine_next`). -/
theorem cursor_scores (ls : LeafScore) (so : ShapeOracle) (s : Segment) (hso : ValidOracle so)
    (hleaf : PosLeaf ls s) (q : Query) (hq : PosQ q) (ctx : Ctx) (hsc : ctx.scored = true)
    (h : CursorOK ls s ctx q) :
    ∃ m, build ls so s ctx q = .ok m ∧ WM.Matcher.WF m.1 m.2 ∧ m.den = specDen ls q s ∧
      ∀ (prog : List WM.Matcher.CmdR) (L : WM.Matcher.Den),
        WM.Matcher.runSpecR prog (specDen ls q s) = some L →
        ∃ m', WM.Matcher.runR prog m = .ok m' ∧ WM.Matcher.WF m'.1 m'.2 ∧ m'.den = L ∧
          ∀ d r rest, L = (d, r) :: rest →
            (WM.Matcher.ops m'.1).id m'.2 = .ok d ∧ (WM.Matcher.ops m'.1).score m'.2 = .ok r ∧
            r = scoreOf ls q (s.doc d) ∧ d ∈ s.live ∧ sat q (s.doc d) = true := by
  obtain ⟨m, h1, h2, h3⟩ := WM.C01.cursor_den ls so s q ctx h
  have hden : m.den = specDen ls q s := by
    have h4 : toPL m.den = segHits ls q s := by rw [h3]; exact scores ls so s hso hleaf q hq ctx hsc
    have : m.den = (toPL m.den).map (fun e => (e.id, e.score)) := by
      simp [toPL, List.map_map, Function.comp_def]
    rw [this, h4]
    simp [specDen, segHits, List.map_map, Function.comp_def]
  refine ⟨m, h1, h2, hden, fun prog L hs => ?_⟩
  obtain ⟨m', g1, g2, g3⟩ := WM.C11.program_replace prog m h2 L (by rw [hden]; exact hs)
  refine ⟨m', g1, g2, g3, fun d r rest hL => ?_⟩
  have hact : (WM.Matcher.ops m'.1).isActive m'.2 = true :=
    (WM.C11.active_iff m'.1 m'.2 g2).2 (by show m'.den ≠ []; rw [g3, hL]; simp)
  obtain ⟨x, r', L', m'', e1, e2, e3, -⟩ := WM.C11.refine_next m'.1 m'.2 g2 hact
  have e1' : m'.den = (x, r') :: L' := e1
  rw [g3, hL] at e1'
  simp only [List.cons.injEq, Prod.mk.injEq] at e1'
  obtain ⟨⟨rfl, rfl⟩, -⟩ := e1'
  have hmem : (d, r) ∈ specDen ls q s := (runSpecR_suffix prog _ L hs).subset (by rw [hL]; simp)
  unfold specDen at hmem
  obtain ⟨i, hi, hir⟩ := List.mem_map.mp hmem
  simp only [Prod.mk.injEq] at hir
  obtain ⟨rfl, rfl⟩ := hir
  have := List.mem_filter.mp hi
  exact ⟨e2, e3, rfl, this.1, this.2⟩

/-- the hypotheses are satisfiable (the array-union / Every / multi-term example of C01Cursor): after
    `skip_to(1)` — document 1 is deleted — the cursor stands on document 2 with score 16 -/
example : CursorOK freqLeaf WM.C01.mSeg ⟨false, true⟩ WM.C01.mQ ∧ PosQ WM.C01.mQ ∧ wfSegment WM.C01.mSeg = true ∧
    specDen freqLeaf WM.C01.mQ WM.C01.mSeg = [(0, 8), (2, 16), (3, 1)] ∧
    WM.Matcher.runSpecR [.skipTo 1, .replace0] (specDen freqLeaf WM.C01.mQ WM.C01.mSeg) = some [(2, 16), (3, 1)] :=
  ⟨WM.C01.mQ_ok, posQ_of_posQuery _ (by decide +kernel), by decide +kernel, by decide +kernel, by decide +kernel⟩

/-! ### composition with C05: `search(q, limit=k)` returns the `k` best by `scoreOf` -/

/-- **C09 ∘ C05.**  Feed the collector family's `TopCollector` model (`WM.Collect.collectTop`: heap admission,
    periodic `replace(minscore)`, `skip_to_quality(minscore)` on block changes — driven by an arbitrary
    schedule of drops / score-lowerings within the C12 contract, arbitrary "new block" flags and
    `supports_block_quality()` answers) with what the per-segment matchers of the query enumerate
    (`compile`, one per segment with its offset): for every `limit ≥ 1`, `replace` period, `usequality`
    setting and `final()` hook the result is the first `limit` entries of the ranking (score descending,
    document number ascending on ties: `WM.Rank.topK`) of the **specified** hits — the live documents that
    satisfy the query, each scored `scoreOf ls q` (then `final`).  And the unlimited search returns that
    whole ranking, of which the limited result is the prefix. -/
theorem search_limit (ls : LeafScore) (so : ShapeOracle) (hso : ValidOracle so) (idx : Index)
    (hok : IndexOK ls idx) (q : Query) (hq : PosQ q) (nc : Bool)
    (cfg : WM.Collect.Cfg) (final : Nat → Rat → Rat) (flags : Nat → Nat → Bool) (sup : Nat → Bool)
    (sched sched' : List WM.Collect.Step) (hk : 1 ≤ cfg.limit) :
    WM.Collect.collectTop cfg final (collectorSegs ls so ⟨nc, true⟩ q flags sup 0 0 idx) sched =
      .ok (WM.Rank.topK cfg.limit ((hits ls q idx).map (toRank cfg.useFinal final))) ∧
    WM.Collect.collectUnlimited cfg.replace cfg.useFinal final false
        (collectorSegs ls so ⟨nc, true⟩ q flags sup 0 0 idx) sched' =
      .ok (WM.Rank.rankAll ((hits ls q idx).map (toRank cfg.useFinal final))) := by
  have hrun : runFrom ls so ⟨nc, true⟩ q 0 idx = hitsFrom ls q 0 idx := runFrom_eq ls so hso q hq ⟨nc, true⟩ rfl idx 0 hok
  have hwf : (WM.Collect.globalDocs (collectorSegs ls so ⟨nc, true⟩ q flags sup 0 0 idx)).Pairwise (· < ·) := by
    rw [collectorSegs_docs, hrun]; exact (hitsFrom_asc ls q idx 0).1
  have hfresh := collectorSegs_fresh ls so ⟨nc, true⟩ q flags sup idx 0 0
  refine ⟨?_, ?_⟩
  · rw [WM.C05.topk cfg final _ sched hk hwf hfresh, collectorSegs_hits, hrun]; rfl
  · rw [WM.C05.unlimited]
    simp only [Bool.false_eq_true, if_false]
    rw [collectorSegs_hits, hrun]; rfl

/-- non-vacuity on the two-segment example index of C01 (one deletion): the collector's input is two
    segments with offsets 0 and 3 holding the hits `(1, 5)` and `(4, 1)`; with `limit = 1` the theorem
    says that every schedule returns the top 1 of them -/
example : IndexOK freqLeaf WM.C01.exIdx ∧ PosQ WM.C01.exQ ∧ ValidOracle balancedOracle ∧
    (hits freqLeaf WM.C01.exQ WM.C01.exIdx).map (toRank false (fun _ x => x)) = [⟨1, 5⟩, ⟨4, 1⟩] ∧
    (collectorSegs freqLeaf balancedOracle ⟨false, true⟩ WM.C01.exQ (fun _ _ => true) (fun _ => true) 0 0
      WM.C01.exIdx).map (fun sg => (sg.off, sg.postings.map (·.doc))) = [(0, [1]), (3, [1])] :=
  ⟨WM.C01.exIdx_ok, WM.C01.exQ_pos, balancedOracle_valid, by decide +kernel, by decide +kernel⟩

/-! ### the shipped rational weighting models -/

/-- **Frequency, TF_IDF and BM25F (per-field `B`, unscorable fields scored by weight) as leaf
    scorers.**  Each is a function of the statistics of the *whole* index (`termStats idx`: whoosh
    builds one scorer per segment, and each asks the parent searcher), the stored weight and the
    approximated field length.  On an index whose token and field boosts are positive, with a positive
    idf, `K1 ≥ 0` and `0 ≤ B ≤ 1`, they satisfy `PosLeaf` on every segment; therefore, for every
    segment `s` of the index, in every scored context the compiled list carries exactly
    `scoreOf (model idx) q d` — the documented formula on global statistics — and the whole run is
    `hits`. -/
theorem models (idf : Idf) (p : Bm25) (hidf : ∀ n df, 0 < idf n df) (hp : Bm25Ok p) (idx : Index)
    (hwf : ∀ s ∈ idx, wfSegment s = true) (so : ShapeOracle) (hso : ValidOracle so) (q : Query) (hq : PosQ q)
    (ctx : Ctx) (hsc : ctx.scored = true) :
    (∀ s ∈ idx, compile freqLeaf so s ctx q = segHits freqLeaf q s ∧
                compile (tfidfLeaf idf idx) so s ctx q = segHits (tfidfLeaf idf idx) q s ∧
                compile (bm25fLeaf p idx) so s ctx q = segHits (bm25fLeaf p idx) q s) ∧
    run (tfidfLeaf idf idx) so ctx q idx = hits (tfidfLeaf idf idx) q idx ∧
    run (bm25fLeaf p idx) so ctx q idx = hits (bm25fLeaf p idx) q idx := by
  refine ⟨fun s hs => ?_, ?_, ?_⟩
  · have h := hwf s hs
    exact ⟨scores _ so s hso (posLeaf_freq_of_wf h) q hq ctx hsc,
           scores _ so s hso (posLeaf_tfidf hidf idx h) q hq ctx hsc,
           scores _ so s hso (posLeaf_bm25f hp idx h) q hq ctx hsc⟩
  · exact runFrom_eq _ so hso q hq ctx hsc idx 0
      (fun s hs => posLeaf_tfidf hidf idx (hwf s hs))
  · exact runFrom_eq _ so hso q hq ctx hsc idx 0
      (fun s hs => posLeaf_bm25f hp idx (hwf s hs))

/-- BM25F (B = 3/4, K1 = 6/5, idf ≡ 2) on the example index: DisjunctionMax over an AndMaybe and a
    Require — maximum over the matching clauses, first operand plus the optional second, first operand
    only.  Document 1 = `aa bb` (field boost 2) of the first segment, document 3 = `aa . . cc` of the
    second one; both scored with the statistics of the whole five-document index. -/
def exBm : Bm25 := ⟨fun _ _ => 2, 6/5, fun _ => 3/4, fun _ => true⟩
def exQ2 : Query :=
  .dismax [.andMaybe (.term "t" [97] 1) (.term "t" [99] 2), .require (.term "t" [98] 4) (.term "t" [97] 1)] (1/2)

example : Bm25Ok exBm ∧ (∀ s ∈ WM.C01.exIdx, wfSegment s = true) ∧ PosQ exQ2 ∧
    (hits (bm25fLeaf exBm WM.C01.exIdx) exQ2 WM.C01.exIdx).map (·.id) = [1, 3] ∧
    hits freqLeaf exQ2 WM.C01.exIdx = [⟨1, 4⟩, ⟨3, 3/2⟩] := by
  refine ⟨⟨fun _ _ => by show (0 : Rat) < 2; decide +kernel, by show (0 : Rat) ≤ 6 / 5; decide +kernel,
      fun _ => by show (0 : Rat) ≤ 3 / 4; decide +kernel, fun _ => by show (3 / 4 : Rat) ≤ 1; decide +kernel⟩, ?_,
    posQ_of_posQuery exQ2 (by decide +kernel), by decide +kernel, by decide +kernel⟩
  intro s hs
  simp only [WM.C01.exIdx, List.mem_cons, List.not_mem_nil, or_false] at hs
  rcases hs with rfl | rfl <;> decide

/-! ### layout independence -/

/-- **C09.layout.** Two indexes without deletions that hold the same documents (as a multiset: any
    partition into segments, any order — what different commit / merge histories of the same
    additions produce) have the same collection statistics for every term (document count, document
    frequency, collection frequency, total approximated field length: each is whoosh's sum over
    the segments).  Hence every weighting model — any function of these statistics, the stored
    term weight and the length-byte approximation of the document's field length — induces the same
    leaf scores, and every query scores every document the same in both layouts. -/
theorem layout (w : Weighting) (idx idx' : Index) (hd : NoDeletions idx) (hd' : NoDeletions idx')
    (hperm : (liveDocs idx).Perm (liveDocs idx')) :
    (∀ f t, termStats idx f t = termStats idx' f t) ∧
    statLeaf w idx = statLeaf w idx' ∧
    ∀ q d, scoreOf (statLeaf w idx) q d = scoreOf (statLeaf w idx') q d := by
  rw [liveDocs_eq_allDocs hd, liveDocs_eq_allDocs hd'] at hperm
  have hst : ∀ f t, termStats idx f t = termStats idx' f t := fun f t => termStats_perm hperm f t
  have hleaf : statLeaf w idx = statLeaf w idx' := by
    funext d f t
    simp only [statLeaf, hst f t]
  exact ⟨hst, hleaf, fun q d => by rw [hleaf]⟩

/-- … in particular for TF_IDF and BM25F: the same leaf scorer in both layouts. -/
theorem layout_models (idf : Idf) (p : Bm25) (idx idx' : Index) (hd : NoDeletions idx) (hd' : NoDeletions idx')
    (hperm : (liveDocs idx).Perm (liveDocs idx')) :
    tfidfLeaf idf idx = tfidfLeaf idf idx' ∧ bm25fLeaf p idx = bm25fLeaf p idx' := by
  rw [liveDocs_eq_allDocs hd, liveDocs_eq_allDocs hd'] at hperm
  exact ⟨tfidfLeaf_perm idf hperm, bm25fLeaf_perm p hperm⟩

/-- three documents in one segment, or split 1 + 2 in another order: same statistics; and the
    hypothesis matters — a layout that still carries a deleted document counts it -/
def la : Doc := ⟨[⟨"t", 1, [WM.C01.tok 97 0, WM.C01.tok 98 1], []⟩]⟩
def lb : Doc := ⟨[⟨"t", 2, [WM.C01.tok 97 0], []⟩]⟩
def lc : Doc := ⟨[⟨"t", 1, [WM.C01.tok 99 0, WM.C01.tok 97 1, WM.C01.tok 97 2], []⟩]⟩

example : NoDeletions [⟨[la, lb, lc], []⟩] ∧ NoDeletions [⟨[lc], []⟩, ⟨[la, lb], []⟩] ∧
    (liveDocs [⟨[la, lb, lc], []⟩]).Perm (liveDocs [⟨[lc], []⟩, ⟨[la, lb], []⟩]) ∧
    termStats [⟨[lc], []⟩, ⟨[la, lb], []⟩] "t" [97] = ⟨3, 3, 5, 6⟩ ∧
    termStats [⟨[la, lb, lc], []⟩] "t" [97] = ⟨3, 3, 5, 6⟩ ∧
    -- with a deleted document still in the segment the statistics (and so idf, avgfl) differ
    (liveDocs [⟨[la, lb, lc], [1]⟩]).Perm (liveDocs [⟨[la, lc], []⟩]) ∧
    termStats [⟨[la, lb, lc], [1]⟩] "t" [97] ≠ termStats [⟨[la, lc], []⟩] "t" [97] := by
  refine ⟨?_, ?_, ?_, by decide +kernel, by decide +kernel, ?_, by decide +kernel⟩
  · intro s hs; simp at hs; subst hs; rfl
  · intro s hs; simp at hs; rcases hs with rfl | rfl <;> rfl
  · have h1 : liveDocs [⟨[la, lb, lc], []⟩] = [la, lb, lc] := by rfl
    have h2 : liveDocs [⟨[lc], []⟩, ⟨[la, lb], []⟩] = [lc, la, lb] := by rfl
    rw [h1, h2]
    exact (List.perm_append_comm (l₁ := [la, lb]) (l₂ := [lc]))
  · have h1 : liveDocs [⟨[la, lb, lc], [1]⟩] = [la, lc] := by rfl
    have h2 : liveDocs [⟨[la, lc], []⟩] = [la, lc] := by rfl
    rw [h1, h2]

/-! ### the length byte -/

open WM.LengthByte

/-- `byte_to_length(length_to_byte(n))` is defined for every `n`, never smaller than `n` below
    the table's end, idempotent and monotone. -/
theorem lengthbyte (n : Nat) :
    byteToLength (lengthToByte n) = some (approx n) ∧
    approx n ∈ table ∧
    (n < 106374 → n ≤ approx n) ∧
    approx (approx n) = approx n ∧
    ∀ m, m ≤ n → approx m ≤ approx n := by
  -- every n has a defined image in the table
  have hdef : ∀ k, ∃ a, byteToLength (lengthToByte k) = some a ∧ a ∈ table ∧ (k < 106374 → k ≤ a) ∧
      (106374 ≤ k → a = 106374) := by
    intro k
    rw [approx_spec]
    by_cases hk : 106374 ≤ k
    · simp only [hk, if_true]
      exact ⟨_, rfl, last_mem, fun h => by omega, fun _ => rfl⟩
    · simp only [hk, if_false]
      obtain ⟨a, ha⟩ := find_exists (n := k) last_mem (by omega)
      refine ⟨a, ha, List.mem_of_find?_eq_some ha, fun _ => ?_, fun h => h.elim⟩
      have := List.find?_some ha
      simpa using this
  have happ : ∀ k a, byteToLength (lengthToByte k) = some a → approx k = a := by
    intro k a h; unfold approx; rw [h]; rfl
  obtain ⟨a, ha, hmem, hge, _⟩ := hdef n
  have hn := happ n a ha
  refine ⟨by rw [hn]; exact ha, by rw [hn]; exact hmem, fun h => by rw [hn]; exact hge h, ?_, ?_⟩
  · -- idempotent: an element of the table is its own image
    rw [hn]
    apply happ
    rw [approx_spec]
    by_cases hk : 106374 ≤ a
    · have := table_le_last a hmem
      have : a = 106374 := by omega
      simp [this]
    · simp only [hk, if_false]
      exact find_self table_ascending hmem
  · intro m hm
    obtain ⟨b, hb, hbmem, _, hbtop⟩ := hdef m
    rw [hn, happ m b hb]
    rw [approx_spec] at ha hb
    by_cases hk : 106374 ≤ n
    · simp only [hk, if_true, Option.some.injEq] at ha
      rw [← ha]; exact table_le_last b hbmem
    · have hkm : ¬ 106374 ≤ m := by omega
      simp only [hk, if_false] at ha
      simp only [hkm, if_false] at hb
      exact find_mono table_ascending hm hb ha

example : lengthToByte 11 = 11 ∧ approx 11 = 12 ∧ approx 12 = 12 ∧ approx 200000 = 106374 := by decide +kernel

end WM.C09
