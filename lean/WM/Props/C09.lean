import WM.Props.C01
import WM.Lemmas.LengthByte
/-!
C09 — scores are the documented composition of the weighting model's term scores (list level).

`scoreOf ls q d` composes the leaf scores `ls` (any weighting model: a function of the document,
the field and the term): sum over the matching clauses × boost for And/Or, maximum over the
matching clauses for DisjunctionMax, first operand for Require/AndNot, first plus second when the
second matches for AndMaybe, the constant for constant-score queries (`ConstantScoreQuery`,
`constantscore=True` multi-term queries and ranges, `Every`), 1 for `Not`.
-/
namespace WM.C09
open WM.Search WM.Compile

/-- In every scored context the list compiled for a segment is *exactly* the specified one: the
    live documents satisfying the query, each with the score `scoreOf ls q d` — for every binary
    tree shape over the clauses and every `Or` strategy. -/
theorem scores (ls : LeafScore) (so : ShapeOracle) (s : Segment) (hso : ValidOracle so)
    (hleaf : PosLeaf ls s) (hne : NoEmptyTerm s) (q : Query) (hq : PosQ q) (ctx : Ctx)
    (hsc : ctx.scored = true) :
    compile ls so s ctx q = segHits ls q s :=
  compile_eq_segHits ls so s hso hleaf hne q hq ctx hsc

/-- entry-wise reading of `scores` -/
theorem score_of_entry (ls : LeafScore) (so : ShapeOracle) (s : Segment) (hso : ValidOracle so)
    (hleaf : PosLeaf ls s) (hne : NoEmptyTerm s) (q : Query) (hq : PosQ q) (ctx : Ctx)
    (hsc : ctx.scored = true) :
    ∀ e ∈ compile ls so s ctx q, e.score = scoreOf ls q (s.doc e.id) ∧ e.id ∈ s.live ∧ sat q (s.doc e.id) = true := by
  rw [scores ls so s hso hleaf hne q hq ctx hsc]
  intro e he
  unfold segHits at he
  obtain ⟨i, hi, rfl⟩ := List.mem_map.mp he
  have := List.mem_filter.mp hi
  exact ⟨rfl, this.1, this.2⟩

/-- The score of a document does not depend on the collector: a run that steps the matcher
    (`needs_current`, e.g. `terms=True`) and a run that does not (plain `search`), with whatever tree
    shapes, give the same `(doc, score)` list — the specified `hits`; hence a document's score is a
    function of the query and that document alone (not of the other documents in the result), and
    the ranked result is a permutation of it. -/
theorem collector_independent (ls : LeafScore) (so so' : ShapeOracle) (hso : ValidOracle so)
    (hso' : ValidOracle so') (idx : Index) (hok : IndexOK ls idx) (q : Query) (hq : PosQ q)
    (nc nc' : Bool) :
    run ls so ⟨nc, true⟩ q idx = run ls so' ⟨nc', true⟩ q idx ∧
    run ls so ⟨nc, true⟩ q idx = hits ls q idx ∧
    (rankAll ls q idx).Perm (run ls so ⟨nc, true⟩ q idx) := by
  have h1 := runFrom_eq ls so hso q hq ⟨nc, true⟩ rfl idx 0 hok
  have h2 := runFrom_eq ls so' hso' q hq ⟨nc', true⟩ rfl idx 0 hok
  refine ⟨h1.trans h2.symm, h1, ?_⟩
  show (rankAll ls q idx).Perm (runFrom ls so ⟨nc, true⟩ q 0 idx)
  rw [h1]
  exact rankAll_perm ls q idx

/-! a concrete instance (shared with C01): scores under `Frequency` -/

example : IndexOK freqLeaf WM.C01.exIdx ∧ PosQ WM.C01.exQ ∧
    hits freqLeaf WM.C01.exQ WM.C01.exIdx = [⟨1, 5⟩, ⟨4, 1⟩] :=
  ⟨WM.C01.exIdx_ok, WM.C01.exQ_pos, by decide +kernel⟩

/-! ### the length byte -/

open WM.LengthByte

/-- `byte_to_length(length_to_byte(n))` is defined for every `n`, never smaller than `n` below
    the table's end, idempotent and monotone. -/
theorem lengthbyte (n : Nat) :
    byteToLength (lengthToByte n) = some (approx n) ∧
    approx n ∈ table ∧
    (n < 106374 → n ≤ approx n) ∧
    approx (approx n) = approx n ∧
    ∀ m, m ≤ n → approx m ≤ approx n := by
  -- every n has a defined image in the table
  have hdef : ∀ k, ∃ a, byteToLength (lengthToByte k) = some a ∧ a ∈ table ∧ (k < 106374 → k ≤ a) ∧
      (106374 ≤ k → a = 106374) := by
    intro k
    rw [approx_spec]
    by_cases hk : 106374 ≤ k
    · simp only [hk, if_true]
      exact ⟨_, rfl, last_mem, fun h => by omega, fun _ => rfl⟩
    · simp only [hk, if_false]
      obtain ⟨a, ha⟩ := find_exists (n := k) last_mem (by omega)
      refine ⟨a, ha, List.mem_of_find?_eq_some ha, fun _ => ?_, fun h => h.elim⟩
      have := List.find?_some ha
      simpa using this
  have happ : ∀ k a, byteToLength (lengthToByte k) = some a → approx k = a := by
    intro k a h; unfold approx; rw [h]; rfl
  obtain ⟨a, ha, hmem, hge, _⟩ := hdef n
  have hn := happ n a ha
  refine ⟨by rw [hn]; exact ha, by rw [hn]; exact hmem, fun h => by rw [hn]; exact hge h, ?_, ?_⟩
  · -- idempotent: an element of the table is its own image
    rw [hn]
    apply happ
    rw [approx_spec]
    by_cases hk : 106374 ≤ a
    · have := table_le_last a hmem
      have : a = 106374 := by omega
      simp [this]
    · simp only [hk, if_false]
      exact find_self table_ascending hmem
  · intro m hm
    obtain ⟨b, hb, hbmem, _, hbtop⟩ := hdef m
    rw [hn, happ m b hb]
    rw [approx_spec] at ha hb
    by_cases hk : 106374 ≤ n
    · simp only [hk, if_true, Option.some.injEq] at ha
      rw [← ha]; exact table_le_last b hbmem
    · have hkm : ¬ 106374 ≤ m := by omega
      simp only [hk, if_false] at ha
      simp only [hkm, if_false] at hb
      exact find_mono table_ascending hm hb ha

example : lengthToByte 11 = 11 ∧ approx 11 = 12 ∧ approx 12 = 12 ∧ approx 200000 = 106374 := by decide +kernel

end WM.C09
