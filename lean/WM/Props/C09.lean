import WM.Props.C01
import WM.Lemmas.LengthByte
import WM.Lemmas.SearchLayout
import WM.Lemmas.SearchModels
/-!
C09 — scores are the documented composition of the weighting model's term scores (list level).

`scoreOf ls q d` composes the leaf scores `ls` (any weighting model: a function of the document,
the field and the term): sum over the matching clauses × boost for And/Or, maximum over the
matching clauses for DisjunctionMax, first operand for Require/AndNot, first plus second when the
second matches for AndMaybe, the constant for constant-score queries (`ConstantScoreQuery`,
`constantscore=True` multi-term queries and ranges, `Every`), 1 for `Not`.
-/
namespace WM.C09
open WM.Search WM.Compile

/-- In every scored context the list compiled for a segment is *exactly* the specified one: the
    live documents satisfying the query, each with the score `scoreOf ls q d` — for every binary
    tree shape over the clauses and every `Or` strategy. -/
theorem scores (ls : LeafScore) (so : ShapeOracle) (s : Segment) (hso : ValidOracle so)
    (hleaf : PosLeaf ls s) (q : Query) (hq : PosQ q) (ctx : Ctx)
    (hsc : ctx.scored = true) :
    compile ls so s ctx q = segHits ls q s :=
  compile_eq_segHits ls so s hso hleaf q hq ctx hsc

/-- entry-wise reading of `scores` -/
theorem score_of_entry (ls : LeafScore) (so : ShapeOracle) (s : Segment) (hso : ValidOracle so)
    (hleaf : PosLeaf ls s) (q : Query) (hq : PosQ q) (ctx : Ctx)
    (hsc : ctx.scored = true) :
    ∀ e ∈ compile ls so s ctx q, e.score = scoreOf ls q (s.doc e.id) ∧ e.id ∈ s.live ∧ sat q (s.doc e.id) = true := by
  rw [scores ls so s hso hleaf q hq ctx hsc]
  intro e he
  unfold segHits at he
  obtain ⟨i, hi, rfl⟩ := List.mem_map.mp he
  have := List.mem_filter.mp hi
  exact ⟨rfl, this.1, this.2⟩

/-- The score of a document does not depend on whether the collector needs the current match: a
    run whose context has `needs_current` set (`terms=True`: the matcher tree is stepped, unions are
    binary trees, constant scores are wrappers) and a run without it (plain `search`: array unions,
    pre-read constant-score lists), with whatever tree shapes, give the same `(doc, score)` list — the
    specified `hits`; hence a document's score is a function of the query and that document alone
    (not of the other documents in the result), and the ranked result is a permutation of it.
    (Top-N collectors, `limit` and quality skipping are C05's; sorting and filtering collectors C14's.) -/
theorem collector_independent (ls : LeafScore) (so so' : ShapeOracle) (hso : ValidOracle so)
    (hso' : ValidOracle so') (idx : Index) (hok : IndexOK ls idx) (q : Query) (hq : PosQ q)
    (nc nc' : Bool) :
    run ls so ⟨nc, true⟩ q idx = run ls so' ⟨nc', true⟩ q idx ∧
    run ls so ⟨nc, true⟩ q idx = hits ls q idx ∧
    (rankAll ls q idx).Perm (run ls so ⟨nc, true⟩ q idx) := by
  have h1 := runFrom_eq ls so hso q hq ⟨nc, true⟩ rfl idx 0 hok
  have h2 := runFrom_eq ls so' hso' q hq ⟨nc', true⟩ rfl idx 0 hok
  refine ⟨h1.trans h2.symm, h1, ?_⟩
  show (rankAll ls q idx).Perm (runFrom ls so ⟨nc, true⟩ q 0 idx)
  rw [h1]
  exact rankAll_perm ls q idx

/-! a concrete instance (shared with C01): scores under `Frequency` -/

example : IndexOK freqLeaf WM.C01.exIdx ∧ PosQ WM.C01.exQ ∧
    hits freqLeaf WM.C01.exQ WM.C01.exIdx = [⟨1, 5⟩, ⟨4, 1⟩] :=
  ⟨WM.C01.exIdx_ok, WM.C01.exQ_pos, by decide +kernel⟩

/-! ### the shipped rational weighting models -/

/-- **Frequency, TF_IDF and BM25F (per-field `B`, unscorable fields scored by weight) as leaf
    scorers.**  Each is a function of the statistics of the *whole* index (`termStats idx`: whoosh
    builds one scorer per segment, and each asks the parent searcher), the stored weight and the
    approximated field length.  On an index whose token and field boosts are positive, with a positive
    idf, `K1 ≥ 0` and `0 ≤ B ≤ 1`, they satisfy `PosLeaf` on every segment; therefore, for every
    segment `s` of the index, in every scored context the compiled list carries exactly
    `scoreOf (model idx) q d` — the documented formula on global statistics — and the whole run is
    `hits`. -/
theorem models (idf : Idf) (p : Bm25) (hidf : ∀ n df, 0 < idf n df) (hp : Bm25Ok p) (idx : Index)
    (hwf : ∀ s ∈ idx, wfSegment s = true) (so : ShapeOracle) (hso : ValidOracle so) (q : Query) (hq : PosQ q)
    (ctx : Ctx) (hsc : ctx.scored = true) :
    (∀ s ∈ idx, compile freqLeaf so s ctx q = segHits freqLeaf q s ∧
                compile (tfidfLeaf idf idx) so s ctx q = segHits (tfidfLeaf idf idx) q s ∧
                compile (bm25fLeaf p idx) so s ctx q = segHits (bm25fLeaf p idx) q s) ∧
    run (tfidfLeaf idf idx) so ctx q idx = hits (tfidfLeaf idf idx) q idx ∧
    run (bm25fLeaf p idx) so ctx q idx = hits (bm25fLeaf p idx) q idx := by
  refine ⟨fun s hs => ?_, ?_, ?_⟩
  · have h := hwf s hs
    exact ⟨scores _ so s hso (posLeaf_freq_of_wf h) q hq ctx hsc,
           scores _ so s hso (posLeaf_tfidf hidf idx h) q hq ctx hsc,
           scores _ so s hso (posLeaf_bm25f hp idx h) q hq ctx hsc⟩
  · exact runFrom_eq _ so hso q hq ctx hsc idx 0
      (fun s hs => posLeaf_tfidf hidf idx (hwf s hs))
  · exact runFrom_eq _ so hso q hq ctx hsc idx 0
      (fun s hs => posLeaf_bm25f hp idx (hwf s hs))

/-- BM25F (B = 3/4, K1 = 6/5, idf ≡ 2) on the example index: DisjunctionMax over an AndMaybe and a
    Require — maximum over the matching clauses, first operand plus the optional second, first operand
    only.  Document 1 = `aa bb` (field boost 2) of the first segment, document 3 = `aa . . cc` of the
    second one; both scored with the statistics of the whole five-document index. -/
def exBm : Bm25 := ⟨fun _ _ => 2, 6/5, fun _ => 3/4, fun _ => true⟩
def exQ2 : Query :=
  .dismax [.andMaybe (.term "t" [97] 1) (.term "t" [99] 2), .require (.term "t" [98] 4) (.term "t" [97] 1)] (1/2)

example : Bm25Ok exBm ∧ (∀ s ∈ WM.C01.exIdx, wfSegment s = true) ∧ PosQ exQ2 ∧
    (hits (bm25fLeaf exBm WM.C01.exIdx) exQ2 WM.C01.exIdx).map (·.id) = [1, 3] ∧
    hits freqLeaf exQ2 WM.C01.exIdx = [⟨1, 4⟩, ⟨3, 3/2⟩] := by
  refine ⟨⟨fun _ _ => by show (0 : Rat) < 2; decide +kernel, by show (0 : Rat) ≤ 6 / 5; decide +kernel,
      fun _ => by show (0 : Rat) ≤ 3 / 4; decide +kernel, fun _ => by show (3 / 4 : Rat) ≤ 1; decide +kernel⟩, ?_,
    posQ_of_posQuery exQ2 (by decide +kernel), by decide +kernel, by decide +kernel⟩
  intro s hs
  simp only [WM.C01.exIdx, List.mem_cons, List.not_mem_nil, or_false] at hs
  rcases hs with rfl | rfl <;> decide

/-! ### layout independence -/

/-- **C09.layout.** Two indexes without deletions that hold the same documents (as a multiset: any
    partition into segments, any order — what different commit / merge histories of the same
    additions produce) have the same collection statistics for every term (document count, document
    frequency, collection frequency, total approximated field length: each is whoosh's sum over
    the segments).  Hence every weighting model — any function of these statistics, the stored
    term weight and the length-byte approximation of the document's field length — induces the same
    leaf scores, and every query scores every document the same in both layouts. -/
theorem layout (w : Weighting) (idx idx' : Index) (hd : NoDeletions idx) (hd' : NoDeletions idx')
    (hperm : (liveDocs idx).Perm (liveDocs idx')) :
    (∀ f t, termStats idx f t = termStats idx' f t) ∧
    statLeaf w idx = statLeaf w idx' ∧
    ∀ q d, scoreOf (statLeaf w idx) q d = scoreOf (statLeaf w idx') q d := by
  rw [liveDocs_eq_allDocs hd, liveDocs_eq_allDocs hd'] at hperm
  have hst : ∀ f t, termStats idx f t = termStats idx' f t := fun f t => termStats_perm hperm f t
  have hleaf : statLeaf w idx = statLeaf w idx' := by
    funext d f t
    simp only [statLeaf, hst f t]
  exact ⟨hst, hleaf, fun q d => by rw [hleaf]⟩

/-- … in particular for TF_IDF and BM25F: the same leaf scorer in both layouts. -/
theorem layout_models (idf : Idf) (p : Bm25) (idx idx' : Index) (hd : NoDeletions idx) (hd' : NoDeletions idx')
    (hperm : (liveDocs idx).Perm (liveDocs idx')) :
    tfidfLeaf idf idx = tfidfLeaf idf idx' ∧ bm25fLeaf p idx = bm25fLeaf p idx' := by
  rw [liveDocs_eq_allDocs hd, liveDocs_eq_allDocs hd'] at hperm
  exact ⟨tfidfLeaf_perm idf hperm, bm25fLeaf_perm p hperm⟩

/-- three documents in one segment, or split 1 + 2 in another order: same statistics; and the
    hypothesis matters — a layout that still carries a deleted document counts it -/
def la : Doc := ⟨[⟨"t", 1, [WM.C01.tok 97 0, WM.C01.tok 98 1], []⟩]⟩
def lb : Doc := ⟨[⟨"t", 2, [WM.C01.tok 97 0], []⟩]⟩
def lc : Doc := ⟨[⟨"t", 1, [WM.C01.tok 99 0, WM.C01.tok 97 1, WM.C01.tok 97 2], []⟩]⟩

example : NoDeletions [⟨[la, lb, lc], []⟩] ∧ NoDeletions [⟨[lc], []⟩, ⟨[la, lb], []⟩] ∧
    (liveDocs [⟨[la, lb, lc], []⟩]).Perm (liveDocs [⟨[lc], []⟩, ⟨[la, lb], []⟩]) ∧
    termStats [⟨[lc], []⟩, ⟨[la, lb], []⟩] "t" [97] = ⟨3, 3, 5, 6⟩ ∧
    termStats [⟨[la, lb, lc], []⟩] "t" [97] = ⟨3, 3, 5, 6⟩ ∧
    -- with a deleted document still in the segment the statistics (and so idf, avgfl) differ
    (liveDocs [⟨[la, lb, lc], [1]⟩]).Perm (liveDocs [⟨[la, lc], []⟩]) ∧
    termStats [⟨[la, lb, lc], [1]⟩] "t" [97] ≠ termStats [⟨[la, lc], []⟩] "t" [97] := by
  refine ⟨?_, ?_, ?_, by decide +kernel, by decide +kernel, ?_, by decide +kernel⟩
  · intro s hs; simp at hs; subst hs; rfl
  · intro s hs; simp at hs; rcases hs with rfl | rfl <;> rfl
  · have h1 : liveDocs [⟨[la, lb, lc], []⟩] = [la, lb, lc] := by rfl
    have h2 : liveDocs [⟨[lc], []⟩, ⟨[la, lb], []⟩] = [lc, la, lb] := by rfl
    rw [h1, h2]
    exact (List.perm_append_comm (l₁ := [la, lb]) (l₂ := [lc]))
  · have h1 : liveDocs [⟨[la, lb, lc], [1]⟩] = [la, lc] := by rfl
    have h2 : liveDocs [⟨[la, lc], []⟩] = [la, lc] := by rfl
    rw [h1, h2]

/-! ### the length byte -/

open WM.LengthByte

/-- `byte_to_length(length_to_byte(n))` is defined for every `n`, never smaller than `n` below
    the table's end, idempotent and monotone. -/
theorem lengthbyte (n : Nat) :
    byteToLength (lengthToByte n) = some (approx n) ∧
    approx n ∈ table ∧
    (n < 106374 → n ≤ approx n) ∧
    approx (approx n) = approx n ∧
    ∀ m, m ≤ n → approx m ≤ approx n := by
  -- every n has a defined image in the table
  have hdef : ∀ k, ∃ a, byteToLength (lengthToByte k) = some a ∧ a ∈ table ∧ (k < 106374 → k ≤ a) ∧
      (106374 ≤ k → a = 106374) := by
    intro k
    rw [approx_spec]
    by_cases hk : 106374 ≤ k
    · simp only [hk, if_true]
      exact ⟨_, rfl, last_mem, fun h => by omega, fun _ => rfl⟩
    · simp only [hk, if_false]
      obtain ⟨a, ha⟩ := find_exists (n := k) last_mem (by omega)
      refine ⟨a, ha, List.mem_of_find?_eq_some ha, fun _ => ?_, fun h => h.elim⟩
      have := List.find?_some ha
      simpa using this
  have happ : ∀ k a, byteToLength (lengthToByte k) = some a → approx k = a := by
    intro k a h; unfold approx; rw [h]; rfl
  obtain ⟨a, ha, hmem, hge, _⟩ := hdef n
  have hn := happ n a ha
  refine ⟨by rw [hn]; exact ha, by rw [hn]; exact hmem, fun h => by rw [hn]; exact hge h, ?_, ?_⟩
  · -- idempotent: an element of the table is its own image
    rw [hn]
    apply happ
    rw [approx_spec]
    by_cases hk : 106374 ≤ a
    · have := table_le_last a hmem
      have : a = 106374 := by omega
      simp [this]
    · simp only [hk, if_false]
      exact find_self table_ascending hmem
  · intro m hm
    obtain ⟨b, hb, hbmem, _, hbtop⟩ := hdef m
    rw [hn, happ m b hb]
    rw [approx_spec] at ha hb
    by_cases hk : 106374 ≤ n
    · simp only [hk, if_true, Option.some.injEq] at ha
      rw [← ha]; exact table_le_last b hbmem
    · have hkm : ¬ 106374 ≤ m := by omega
      simp only [hk, if_false] at ha
      simp only [hkm, if_false] at hb
      exact find_mono table_ascending hm hb ha

example : lengthToByte 11 = 11 ∧ approx 11 = 12 ∧ approx 12 = 12 ∧ approx 200000 = 106374 := by decide +kernel

end WM.C09
