import WM.Model.Varint
/-! C20 (number codecs): variable-length integers decode to what was encoded. -/
namespace WM.C20
open WM.Varint

theorem encode_bytes (n : Nat) : ∀ b ∈ encode n, b < 256 := by
  induction n using Nat.strongRecOn with
  | _ n ih =>
    intro b hb
    unfold encode at hb
    split at hb
    · simp at hb; omega
    · simp at hb
      rcases hb with rfl | hb
      · omega
      · exact ih (n / 128) (by omega) b hb

theorem decodeAux_encode (n acc mul : Nat) (rest : List Nat) :
    decodeAux (encode n ++ rest) acc mul = some (acc + n * mul, rest) := by
  induction n using Nat.strongRecOn generalizing acc mul with
  | _ n ih =>
    unfold encode
    split
    · next h =>
      simp only [List.cons_append, List.nil_append, decodeAux]
      have h1 : n / 128 % 2 = 0 := by omega
      have h2 : n % 128 = n := by omega
      simp [h1, h2]
    · next h =>
      simp only [List.cons_append, decodeAux]
      have h1 : (n % 128 + 128) / 128 % 2 = 1 := by omega
      have h2 : (n % 128 + 128) % 128 = n % 128 := by omega
      simp only [h1, h2, if_true]
      rw [ih (n / 128) (by omega)]
      congr 2
      have : n = n % 128 + 128 * (n / 128) := by omega
      calc acc + n % 128 * mul + n / 128 * (mul * 128)
          = acc + (n % 128 + 128 * (n / 128)) * mul := by
            rw [Nat.add_mul, Nat.add_assoc]; congr 1; congr 1
            rw [Nat.mul_comm mul 128, ← Nat.mul_assoc, Nat.mul_comm (n / 128) 128]
        _ = acc + n * mul := by rw [← this]

/-- Varint round-trip with an arbitrary unread suffix (so lists of varints decode one by one). -/
theorem varint_roundtrip (n : Nat) (rest : List Nat) :
    decode (encode n ++ rest) = some (n, rest) := by
  simp [decode, decodeAux_encode]

theorem zigzag_roundtrip (i : Int) : unzigzag (zigzag i) = i := by
  unfold zigzag unzigzag
  split <;> split <;> omega

theorem signed_varint_roundtrip (i : Int) (rest : List Nat) :
    decodeSigned (encodeSigned i ++ rest) = some (i, rest) := by
  simp [decodeSigned, encodeSigned, varint_roundtrip, zigzag_roundtrip]

/-- The encoding is minimal in length: one byte below 128 (non-vacuity of the recursion). -/
example : encode 300 = [172, 2] ∧ decode [172, 2, 9] = some (300, [9]) := by
  constructor
  · rw [encode]; simp; rw [encode]; simp
  · decide

end WM.C20
