import WM.Props.C05
import WM.Props.C14
import WM.Props.C14Page
import WM.Lemmas.CollectCompose
/-!
C14 — the views composed: what `search(q, sortedby=…, reverse=…, limit=…, filter=…, mask=…,
collapse=…)`, `search(q, limit=k, filter=…, mask=…)` and `search_page(…)` return, as single statements
about the collector stacks `Searcher.collector` builds (`searchSorted`, `collectStack`,
`searchPageSorted`), obtained by composing `sorted`, `filter_mask`, `filter_commutes_*`, `collapse`,
`page_slice` and C05's `with_wrappers_partial` / `unlimited`.
-/
namespace WM.C14
open WM.Rank WM.Collect

/-- The filter of `search(filter=allow, mask=restrict)` as a predicate on document numbers. -/
def passesSets (allow restrict : Option (List Nat)) (d : Nat) : Bool := !refuses allow restrict d

/-- The direction of `search(reverse=…)`: the whole list is reversed. -/
def dir {α : Type} (reverse : Bool) (l : List α) : List α := if reverse then l.reverse else l

theorem sortingResults_eq (key : Nat → Key) (limit : Option Nat) (reverse : Bool) (docs : List Nat) :
    sortingResults key limit reverse docs = truncate limit (dir reverse (ascending key docs)) := by
  have := (sorted key limit reverse docs).1
  rw [this]; cases reverse <;> rfl

/-- **C14.search_filter_mask_sorted** — one statement about `search(q, sortedby=key, reverse=…, limit=…,
    filter=allow, mask=restrict)` (the stack `FilterCollector(SortingCollector)`): the hits are the
    **unfiltered** sorted result list (all matched documents by key, document number on ties; reversed as a
    whole with `reverse=True`) restricted — without reordering — to the documents in the allow set (if
    there is one) and not in the mask, cut to `limit`; `len(results)` is the number of matched documents
    that pass, whatever the limit, and `filtered_count` counts the others. -/
theorem search_filter_mask_sorted (key : Nat → Key) (limit : Option Nat) (reverse : Bool)
    (allow restrict : Option (List Nat)) (docs : List Nat) :
    ∃ r, searchSorted { key := key, limit := limit, reverse := reverse, allow := allow, restrict := restrict } docs
        = .ok r ∧
      r.items = truncate limit ((dir reverse (ascending key docs)).filter (fun x => passesSets allow restrict x.2)) ∧
      (∀ x, x ∈ (dir reverse (ascending key docs)).filter (fun x => passesSets allow restrict x.2) ↔
        x.1 = key x.2 ∧ x.2 ∈ docs ∧ (∀ a, allow = some a → x.2 ∈ a) ∧ (∀ m, restrict = some m → x.2 ∉ m)) ∧
      r.len = (docs.filter (passesSets allow restrict)).length ∧
      r.len + r.filtered = docs.length := by
  refine ⟨_, rfl, ?_, ?_, rfl, ?_⟩
  · show sortingResults key limit reverse (filterDocs allow restrict docs).1 = _
    rw [sortingResults_eq]
    congr 1
    have hc := filter_commutes_sorting key (passesSets allow restrict) docs
    have hf : (filterDocs allow restrict docs).1 = docs.filter (passesSets allow restrict) := rfl
    rw [hf, hc]
    cases reverse
    · rfl
    · simp only [dir, if_true, List.filter_reverse]
  · intro x
    have hmem : x ∈ dir reverse (ascending key docs) ↔ x.1 = key x.2 ∧ x.2 ∈ docs := by
      have : x ∈ dir reverse (ascending key docs) ↔ x ∈ ascending key docs := by
        cases reverse <;> simp [dir]
      rw [this, (ascending_perm key docs).mem_iff, List.mem_map]
      constructor
      · rintro ⟨d, hd, rfl⟩; exact ⟨rfl, hd⟩
      · rintro ⟨h1, h2⟩; exact ⟨x.2, h2, by rw [← h1]⟩
    rw [List.mem_filter, hmem]
    have hp : passesSets allow restrict x.2 = true ↔
        (∀ a, allow = some a → x.2 ∈ a) ∧ (∀ m, restrict = some m → x.2 ∉ m) := by
      simp only [passesSets, refuses]
      cases allow <;> cases restrict <;> simp
    rw [hp]
    constructor
    · rintro ⟨⟨h1, h2⟩, h3, h4⟩; exact ⟨h1, h2, h3, h4⟩
    · rintro ⟨h1, h2, h3, h4⟩; exact ⟨⟨h1, h2⟩, h3, h4⟩
  · exact (filter_mask allow restrict docs).2.2

/-- Non-vacuity: five matched documents, keys with a tie, `reverse=True`, an allow set that refuses
    document 3 and a mask that removes document 0, `limit = 2`: hits 1, 4 (`len = 3`, 2 filtered). -/
example : ∃ r, searchSorted { key := fun d => [((d % 2 : Nat) : Rat)], limit := some 2, reverse := true,
                              allow := some [0, 1, 2, 4], restrict := some [0] } [0, 1, 2, 3, 4] = .ok r ∧
    r.items.map (·.2) = [1, 4] ∧ r.len = 3 ∧ r.filtered = 2 := by
  obtain ⟨r, hr, hitems, -, hlen, hsum⟩ := search_filter_mask_sorted (fun d => [((d % 2 : Nat) : Rat)]) (some 2) true
    (some [0, 1, 2, 4]) (some [0]) [0, 1, 2, 3, 4]
  have hl : r.len = 3 := by rw [hlen]; decide
  refine ⟨r, hr, ?_, hl, ?_⟩
  · rw [hitems, ascending_eq_of _ _ [([0], 0), ([0], 2), ([0], 4), ([1], 1), ([1], 3)] (by decide) (by decide)]
    decide
  · have : ([0, 1, 2, 3, 4] : List Nat).length = 5 := rfl
    omega

/-- **C14.search_filter_mask_scored** — the same for a limited *scored* search: for every `limit ≥ 1`,
    every schedule of matcher drops within the C12 contract on the limited side and any schedule on the
    exhaustive side, `search(q, limit=k, filter=allow, mask=restrict)` (the stack
    `FilterCollector(TopCollector)`) returns the first `k` entries of the **unfiltered exhaustive
    ranking** `search(q, limit=None)` restricted to the documents that pass — composition of
    `C05.with_wrappers_partial`, `C05.unlimited` and `filter_commutes_ranking`. -/
theorem search_filter_mask_scored (cfg : Cfg) (final : Nat → Rat → Rat) (allow restrict : Option (List Nat))
    (segs : List Seg) (sched sched' : List Step) (hk : 1 ≤ cfg.limit)
    (hwf : (globalDocs segs).Pairwise (· < ·)) (hfresh : Fresh segs) :
    ∃ all st tr, collectUnlimited cfg.replace cfg.useFinal final false segs sched' = .ok all ∧
      collectStack cfg final { allow := allow, restrict := restrict } segs sched
        = .ok (((all.filter (fun h => passesSets allow restrict h.doc)).take cfg.limit), st, tr) := by
  obtain ⟨st, tr, h⟩ := WM.C05.with_wrappers_partial cfg final allow restrict segs sched hk hwf hfresh
  refine ⟨_, st, tr, WM.C05.unlimited cfg.replace cfg.useFinal final false segs sched', ?_⟩
  rw [h]
  simp only [Bool.false_eq_true, if_false, topK]
  rw [filter_commutes_ranking]
  rw [WM.C05.allHits_cfg cfg { limit := 0, replace := cfg.replace, usequality := false, useFinal := cfg.useFinal }
    final segs rfl]
  rfl

/-- **C14.search_collapse_sorted** — `search(q, sortedby=key, reverse=…, limit=…, filter=…, mask=…,
    collapse=ckey, collapse_limit=n, collapse_order=order)` (the stack
    `FilterCollector(CollapseCollector(SortingCollector))`) over an ascending run of matched documents:
    with `pass` = the matched documents that pass the filter and `skey` = the `collapse_order` key (or the
    sort key when there is none), the hits are the sorted list (reversed as a whole with `reverse=True`)
    of exactly the documents of `pass` that have no collapse key or are among the best `n` of their key in
    `(skey, docnum)` order, cut to `limit`; `len(results)` is the number of those documents whatever the
    limit; `collapsed_counts[c]` is the number of discarded documents of key `c`. (With `reverse=True` and
    no `collapse_order` the documents kept are still those with the **smallest** sort keys, which the
    reversed list shows *last* — see the example below.) -/
theorem search_collapse_sorted (v : View) (ckey : Nat → Option Int) (n : Nat) (order : Option (Nat → Key))
    (hv : v.collapse = some (ckey, n, order)) (hn : 1 ≤ n) (docs : List Nat) (hasc : docs.Pairwise (· < ·)) :
    ∃ r, searchSorted v docs = .ok r ∧
      r.items = truncate v.limit (dir v.reverse (ascending v.key
        ((docs.filter (passesSets v.allow v.restrict)).filter
          (keepsB ckey (order.getD v.key) n (docs.filter (passesSets v.allow v.restrict)))))) ∧
      r.len = ((docs.filter (passesSets v.allow v.restrict)).filter
          (keepsB ckey (order.getD v.key) n (docs.filter (passesSets v.allow v.restrict)))).length ∧
      (∀ c, dictGet c 0 r.counts =
        (keyDocs ckey c (docs.filter (passesSets v.allow v.restrict))).length -
          min n (keyDocs ckey c (docs.filter (passesSets v.allow v.restrict))).length) ∧
      r.filtered + (docs.filter (passesSets v.allow v.restrict)).length = docs.length := by
  have hf : (filterDocs v.allow v.restrict docs).1 = docs.filter (passesSets v.allow v.restrict) := rfl
  generalize hpass : docs.filter (passesSets v.allow v.restrict) = pass at *
  have hpasc : pass.Pairwise (· < ·) := by rw [← hpass]; exact hasc.filter _
  obtain ⟨st, hrun, _, hkept, hcounts⟩ := collapse ckey (order.getD v.key) n hn pass hpasc
  have hpnd : pass.Nodup := hpasc.imp (fun h => Nat.ne_of_lt h)
  have hnd := (collapseRun_kept_nodup ckey (order.getD v.key) n pass [] {} st List.nodup_nil (by simp)
    (by simpa using hpnd) hrun).1
  have hperm : st.kept.Perm (pass.filter (keepsB ckey (order.getD v.key) n pass)) := by
    rw [List.perm_ext_iff_of_nodup hnd (hpnd.filter _)]
    intro d
    rw [hkept, List.mem_filter, keepsB_iff]
  refine ⟨{ items := sortingResults v.key v.limit v.reverse st.kept, len := st.kept.length,
            filtered := (filterDocs v.allow v.restrict docs).2, counts := st.counts }, ?_, ?_, ?_, hcounts, ?_⟩
  · simp only [searchSorted, hv, hf, hrun]
  · show sortingResults v.key v.limit v.reverse st.kept = _
    rw [sortingResults_eq, ascending_congr v.key hperm]
  · exact hperm.length_eq
  · have := (filter_mask v.allow v.restrict docs).2.2
    rw [hf] at this
    show (filterDocs v.allow v.restrict docs).2 + pass.length = docs.length
    omega

/-- Non-vacuity of `search_collapse_sorted`, and the behaviour under `reverse=True`: documents 0…5 with
    sort keys 5, 1, 4, 2, 3, 0 and collapse keys a, a, b, b, none, a; `collapse_limit = 1`. The collapser
    keeps documents 3 (key 2, group b), 4 (keyless) and 5 (key 0, group a) and discards two documents of
    group a and one of b. Ascending they are listed 5, 3, 4; with `reverse=True` the *same* documents are
    listed 4, 3, 5 — the collapser kept the documents with the smallest keys, not the ones a descending
    list would show first (documents 0 and 2). -/
example :
    let key : Nat → Key := fun d => [([5, 1, 4, 2, 3, 0].getD d 0 : Rat)]
    let ckey : Nat → Option Int := fun d => if d = 4 then none else if d = 2 ∨ d = 3 then some 1 else some 0
    ([0, 1, 2, 3, 4, 5] : List Nat).Pairwise (· < ·) ∧
    (collapseRun ckey key 1 [0, 1, 2, 3, 4, 5] {}).toOption.map (fun st => (st.kept, st.counts))
      = some ([3, 4, 5], [(0, 2), (1, 1)]) ∧
    (sortingResults key none false [3, 4, 5]).map (·.2) = [5, 3, 4] ∧
    (sortingResults key none true [3, 4, 5]).map (·.2) = [4, 3, 5] := by
  intro key ckey
  refine ⟨by decide, by decide, ?_, ?_⟩
  · rw [sortingResults_eq, ascending_eq_of _ _ [([0], 5), ([2], 3), ([3], 4)] (by decide) (by decide)]; decide
  · rw [sortingResults_eq, ascending_eq_of _ _ [([0], 5), ([2], 3), ([3], 4)] (by decide) (by decide)]; decide

/-- A limited sorted search has the same counters as the unlimited one and a prefix of its hits. -/
theorem searchSorted_limit (v : View) (docs : List Nat) (k : Nat) (hk : 1 ≤ k) (r : ViewResult)
    (hr : searchSorted { v with limit := none } docs = .ok r) :
    searchSorted { v with limit := some k } docs = .ok { r with items := r.items.take k } ∧
    r.items.length = r.len := by
  obtain ⟨k', rfl⟩ : ∃ k', k = k' + 1 := ⟨k - 1, by omega⟩
  unfold searchSorted at hr ⊢
  dsimp only at hr ⊢
  split at hr
  · cases hr
    refine ⟨rfl, ?_⟩
    exact len_sorted v.key v.reverse _
  · split at hr
    · cases hr
    · cases hr
      refine ⟨rfl, ?_⟩
      exact len_sorted v.key v.reverse _

/-- **C14.page_of_view** — `search_page(q, pagenum, pagelen, sortedby=…, reverse=…, filter=…, mask=…,
    collapse=…)` on sorted, filtered and collapsed results: for every view, `pagenum ≥ 1`, `pagelen ≥ 1`,
    if the *unlimited* search returns `r`, then the page object is `ResultsPage` arithmetic on
    `len(results) = r.len` (`page_fields`: `total`, `pagecount = ⌈total/pagelen⌉`, clamped `pagenum`,
    `offset`) and its hits are exactly the slice `r.items[offset : offset + pagelen]` of the unlimited
    result list — although the search behind the page ran with `limit = pagenum·pagelen`. Together with
    `search_filter_mask_sorted` / `search_collapse_sorted` this says which documents are on the page. -/
theorem page_of_view (v : View) (docs : List Nat) (pagenum pagelen : Nat) (hl : 1 ≤ pagelen) (hn : 1 ≤ pagenum)
    (r : ViewResult) (hr : searchSorted { v with limit := none } docs = .ok r) :
    ∃ p, mkPage r.len pagenum pagelen = .ok p ∧
      p.offset = (min ((r.len + pagelen - 1) / pagelen) pagenum - 1) * pagelen ∧
      searchPageSorted v docs pagenum pagelen = .ok (p, (r.items.drop p.offset).take pagelen) := by
  have hk : 1 ≤ pagenum * pagelen := Nat.mul_le_mul hn hl
  obtain ⟨hlim, hlen⟩ := searchSorted_limit v docs (pagenum * pagelen) hk r hr
  obtain ⟨p, hp, hoff, hhits⟩ := page_slice r.items pagenum pagelen hl hn
  rw [hlen] at hp hoff
  refine ⟨p, hp, hoff, ?_⟩
  have h1 : ¬ pagenum < 1 := by omega
  have h2 : ¬ pagenum * pagelen < 1 := by omega
  simp only [searchPageSorted, h1, h2, if_false, hlim, hp]
  simp only [pageHits, hlen, hp] at hhits
  injection hhits with hhits
  rw [hhits]

/-- `page_of_view` on a concrete filtered view: 8 matched documents sorted descending by document number,
    document 7 masked (`total = 7`), pages of 3: page 2 holds documents 3, 2, 1; page 9 is clamped to the short
    last page 3; `pagenum = 0` and `pagelen = 0` are rejected. -/
example :
    let v : View := { key := fun d => [((7 - d : Nat) : Rat)], restrict := some [7] }
    (∃ p hits, searchPageSorted v [0, 1, 2, 3, 4, 5, 6, 7] 2 3 = .ok (p, hits) ∧ p = ⟨7, 3, 2, 3, 3⟩ ∧
      hits.map (·.2) = [3, 2, 1]) ∧
    (∃ p hits, searchPageSorted v [0, 1, 2, 3, 4, 5, 6, 7] 9 3 = .ok (p, hits) ∧ p = ⟨7, 3, 3, 6, 1⟩ ∧
      hits.map (·.2) = [0]) ∧
    searchPageSorted v [0, 1, 2, 3, 4, 5, 6, 7] 0 4 = .error (.page .valueError) ∧
    searchPageSorted v [0, 1, 2, 3, 4, 5, 6, 7] 1 0 = .error .limit := by
  intro v
  obtain ⟨r, hr, hitems, -, hlen, -⟩ := search_filter_mask_sorted v.key none false none (some [7]) [0, 1, 2, 3, 4, 5, 6, 7]
  have hl : r.len = 7 := by rw [hlen]; decide
  have hi : r.items.map (·.2) = [6, 5, 4, 3, 2, 1, 0] := by
    rw [hitems, ascending_eq_of _ _ [([0], 7), ([1], 6), ([2], 5), ([3], 4), ([4], 3), ([5], 2), ([6], 1), ([7], 0)]
      (by decide) (by decide)]
    decide
  refine ⟨?_, ?_, by decide, by decide⟩
  · obtain ⟨p, hp, -, hpage⟩ := page_of_view v [0, 1, 2, 3, 4, 5, 6, 7] 2 3 (by decide) (by decide) r hr
    rw [hl] at hp
    have : p = ⟨7, 3, 2, 3, 3⟩ := by
      have h2 : mkPage 7 2 3 = .ok ⟨7, 3, 2, 3, 3⟩ := by decide
      rw [h2] at hp; injection hp with hp; exact hp.symm
    subst this
    refine ⟨_, _, hpage, rfl, ?_⟩
    simp only [List.map_take, List.map_drop, hi]
    decide
  · obtain ⟨p, hp, -, hpage⟩ := page_of_view v [0, 1, 2, 3, 4, 5, 6, 7] 9 3 (by decide) (by decide) r hr
    rw [hl] at hp
    have : p = ⟨7, 3, 3, 6, 1⟩ := by
      have h2 : mkPage 7 9 3 = .ok ⟨7, 3, 3, 6, 1⟩ := by decide
      rw [h2] at hp; injection hp with hp; exact hp.symm
    subst this
    refine ⟨_, _, hpage, rfl, ?_⟩
    simp only [List.map_take, List.map_drop, hi]
    decide

end WM.C14
