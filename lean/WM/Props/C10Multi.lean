import WM.Lemmas.CodecMulti
/-! C10 — term statistics asked through a reader over several segments (`MultiReader.term_info` →
`reading.combine_terminfos`) are the true aggregates of the term's whole posting list. -/
namespace WM.C10
open WM.Codec

/-- **Term statistics over several segments.**  Give `combine_terminfos` the statistics of the term in
    each segment that contains it (each the aggregates of that segment's non-empty posting list, with
    segment-relative document numbers) together with the segment's document offset: the result is the
    aggregates — document frequency, total weight, min/max length, max weight, smallest/largest id — of
    the concatenated posting list in the numbering of the reader over all segments.  For every number
    of segments (one segment takes the in-place branch) and any offsets. -/
theorem multi_terminfo (segs : List (List MP × Int)) (hne : segs ≠ []) (hseg : ∀ s ∈ segs, s.1 ≠ []) :
    combineTerminfos (segs.map fun s => (aggStats s.1, s.2)) = some (aggStats (segs.flatMap shiftSeg)) := by
  rw [combineTerminfos_eq _ (by simpa using hne)]
  have hw : ∀ s : List MP × Int, (shiftSeg s).map (·.weight) = s.1.map (·.weight) := by
    intro s; simp [shiftSeg, List.map_map, Function.comp_def]
  have hl : ∀ s : List MP × Int, (shiftSeg s).map (·.length) = s.1.map (·.length) := by
    intro s; simp [shiftSeg, List.map_map, Function.comp_def]
  have hid : ∀ s : List MP × Int, (shiftSeg s).map (·.id) = (s.1.map (·.id)).map (· + s.2) := by
    intro s; simp [shiftSeg, List.map_map, Function.comp_def]
  have hlen : ∀ s : List MP × Int, (shiftSeg s).length = s.1.length := by
    intro s; simp [shiftSeg]
  have hnw : ∀ s ∈ segs, s.1.map (·.weight) ≠ [] := fun s hs => by simpa using hseg s hs
  have hnl : ∀ s ∈ segs, s.1.map (·.length) ≠ [] := fun s hs => by simpa using hseg s hs
  congr 1
  unfold combineGen aggStats
  simp only [List.map_map, Function.comp_def, List.map_flatMap, hw, hl, hid, TiStats.mk.injEq]
  refine ⟨?_, ?_, ?_, ?_, ?_, ?_, ?_⟩
  · exact foldl_add_flatMap (fun s => s.1.map (·.weight)) segs
  · rw [← foldl_len_flatMap]; simp only [hlen]
  · exact fold1_flatMap min (fun a b c => by omega) 0 (fun s => s.1.map (·.length)) segs hne hnl
  · exact fold1_flatMap max (fun a b c => by omega) 0 (fun s => s.1.map (·.length)) segs hne hnl
  · exact fold1_flatMap wStep wStep_assoc 0 (fun s => s.1.map (·.weight)) segs hne hnw
  · have key := fold1_flatMap min (fun a b c => by omega) 0
      (fun s : List MP × Int => s.1.map (fun x => x.id + s.2)) segs hne (fun s hs => by simpa using hseg s hs)
    rw [← key]
    congr 1
    apply List.map_congr_left
    intro s hs
    have := fold1_min_shift s.2 (s.1.map (·.id)) (by simpa using hseg s hs)
    simp only [List.map_map, Function.comp_def] at this
    exact this.symm
  · have key := fold1_flatMap max (fun a b c => by omega) 0
      (fun s : List MP × Int => s.1.map (fun x => x.id + s.2)) segs hne (fun s hs => by simpa using hseg s hs)
    rw [← key]
    congr 1
    apply List.map_congr_left
    intro s hs
    have := fold1_max_shift s.2 (s.1.map (·.id)) (by simpa using hseg s hs)
    simp only [List.map_map, Function.comp_def] at this
    exact this.symm

/-- Two segments (the second at document offset 3) and a term that occurs in the second segment only
    (the one-element branch, offset 4): hypotheses satisfiable, ids shifted exactly once. -/
example : combineTerminfos [(aggStats [⟨0, 1, 3⟩, ⟨2, 2, 5⟩], 0), (aggStats [⟨1, (1 : Rat) / 2, 2⟩], 3)]
    = some { weight := (7 : Rat) / 2, df := 3, minlength := 2, maxlength := 5, maxweight := 2, minid := 0, maxid := 4 } ∧
    combineTerminfos [(aggStats [⟨1, 1, 2⟩, ⟨2, 3, 7⟩], 4)]
    = some { weight := 4, df := 2, minlength := 2, maxlength := 7, maxweight := 3, minid := 5, maxid := 6 } := by
  decide +kernel

end WM.C10
