import WM.Model.Collect
/-! C14 — paging: `ResultsPage` arithmetic. -/
namespace WM.C14
open WM.Collect

theorem pred_mul (a b : Nat) : (a - 1) * b = a * b - b := by
  rw [Nat.sub_mul, Nat.one_mul]

/-- `pc = ⌈total / pagelen⌉`. -/
theorem pagecount_facts (total pagelen : Nat) (hl : 1 ≤ pagelen) :
    total ≤ (total + pagelen - 1) / pagelen * pagelen ∧
    (total + pagelen - 1) / pagelen * pagelen < total + pagelen ∧
    (total = 0 → (total + pagelen - 1) / pagelen = 0) := by
  have hlt := Nat.lt_div_mul_add (a := total + pagelen - 1) (b := pagelen) (by omega)
  have hdiv := Nat.div_mul_le_self (total + pagelen - 1) pagelen
  refine ⟨by omega, by omega, ?_⟩
  intro h0; subst h0
  exact Nat.div_eq_of_lt (by omega)

/-- **C14.page (fields).** For every `total`, `pagelen ≥ 1`, `pagenum ≥ 1` the page object has
    `pagecount = ⌈total / pagelen⌉` (i.e. `total ≤ pagecount·pagelen < total + pagelen`), `pagenum`
    clamped to the last page, `offset = (pagenum-1)·pagelen`, a length that is `pagelen` except on
    the last page, and the slice lies inside `[0, total)`. -/
theorem page_fields (total pagenum pagelen : Nat) (hl : 1 ≤ pagelen) (hn : 1 ≤ pagenum) :
    ∃ p, mkPage total pagenum pagelen = .ok p ∧
      p.total = total ∧
      total ≤ p.pagecount * pagelen ∧ p.pagecount * pagelen < total + pagelen ∧
      p.pagenum = min p.pagecount pagenum ∧
      p.offset = (p.pagenum - 1) * pagelen ∧
      p.offset + p.pagelen ≤ total ∧
      p.pagelen = min pagelen (total - p.offset) := by
  have h1 : ¬ pagenum < 1 := by omega
  have h2 : ¬ pagelen = 0 := by omega
  obtain ⟨f1, f2, f3⟩ := pagecount_facts total pagelen hl
  refine ⟨_, by simp only [mkPage, h1, h2, if_false]; rfl, rfl, f1, f2, rfl, rfl, ?_, ?_⟩
  all_goals simp only []
  all_goals generalize hpc : (total + pagelen - 1) / pagelen = pc at *
  all_goals
    have hpn : min pc pagenum ≤ pc := Nat.min_le_left _ _
    have hpos : total = 0 ∨ 1 ≤ min pc pagenum := by
      rcases Nat.eq_zero_or_pos total with h | h
      · exact Or.inl h
      · right
        have : 1 ≤ pc := by
          rcases Nat.eq_zero_or_pos pc with h' | h'
          · subst h'; omega
          · exact h'
        omega
    have hz : total = 0 → min pc pagenum = 0 := by
      intro h0
      rw [f3 h0, Nat.zero_min]
    generalize min pc pagenum = pn at *
    have hm := Nat.mul_le_mul_right pagelen hpn
    rw [pred_mul]
    have hge : total = 0 ∨ pagelen ≤ pn * pagelen := by
      rcases hpos with h | h
      · exact Or.inl h
      · right
        calc pagelen = 1 * pagelen := (Nat.one_mul _).symm
          _ ≤ pn * pagelen := Nat.mul_le_mul_right _ h
    have hz' : total = 0 → pn * pagelen = 0 := by
      intro h0; rw [hz h0, Nat.zero_mul]
    try rw [Nat.min_def]
    repeat' split
    all_goals omega

/-- **C14.page (tiling).** The pages `1 … pagecount` tile `[0, total)`: page `p` covers
    `[(p-1)·pagelen, min(p·pagelen, total))`, so consecutive pages are adjacent, the first starts at 0
    and the last ends at `total`; a request beyond the last page yields the last page. -/
theorem page_tiling (total pagelen : Nat) (hl : 1 ≤ pagelen) :
    (∀ p, 1 ≤ p → p ≤ (total + pagelen - 1) / pagelen →
      ∃ pg, mkPage total p pagelen = .ok pg ∧ pg.pagenum = p ∧ pg.offset = (p - 1) * pagelen ∧
        pg.offset + pg.pagelen = min (p * pagelen) total) ∧
    (∀ p, (total + pagelen - 1) / pagelen < p → 1 ≤ (total + pagelen - 1) / pagelen →
      mkPage total p pagelen = mkPage total ((total + pagelen - 1) / pagelen) pagelen) := by
  obtain ⟨f1, f2, f3⟩ := pagecount_facts total pagelen hl
  have h2 : ¬ pagelen = 0 := by omega
  constructor
  · intro p hp1 hp2
    have h1 : ¬ p < 1 := by omega
    refine ⟨_, by simp only [mkPage, h1, h2, if_false]; rfl, ?_, ?_, ?_⟩
    all_goals simp only []
    all_goals generalize hpc : (total + pagelen - 1) / pagelen = pc at *
    all_goals have hmin : min pc p = p := Nat.min_eq_right hp2
    · exact hmin
    · rw [hmin]
    · rw [hmin, pred_mul]
      have hm := Nat.mul_le_mul_right pagelen hp2
      have hge : pagelen ≤ p * pagelen := by
        calc pagelen = 1 * pagelen := (Nat.one_mul _).symm
          _ ≤ p * pagelen := Nat.mul_le_mul_right _ hp1
      by_cases hlast : p = pc
      · subst hlast; split <;> omega
      · have hle : p + 1 ≤ pc := by omega
        have := Nat.mul_le_mul_right pagelen hle
        rw [Nat.succ_mul] at this
        split <;> omega
  · intro p hp hpc1
    have h1 : ¬ p < 1 := by omega
    have h1' : ¬ (total + pagelen - 1) / pagelen < 1 := by omega
    simp only [mkPage, h1, h1', h2, if_false]
    rw [Nat.min_eq_left (Nat.le_of_lt hp), Nat.min_self]

deriving instance DecidableEq for Except

/-- Non-vacuity: 23 hits in pages of 5 — page 5 is the short last page, page 9 is clamped to it;
    an empty result has one empty page; `pagenum = 0` and `pagelen = 0` are rejected. -/
example : mkPage 23 5 5 = .ok ⟨23, 5, 5, 20, 3⟩ ∧ mkPage 23 9 5 = .ok ⟨23, 5, 5, 20, 3⟩ ∧
    mkPage 23 2 5 = .ok ⟨23, 5, 2, 5, 5⟩ ∧ mkPage 0 1 10 = .ok ⟨0, 0, 0, 0, 0⟩ ∧
    mkPage 7 0 5 = .error .valueError ∧ mkPage 7 1 0 = .error .zeroDivisionError := by decide


/-- **C14.page (slice).** "A page is the corresponding slice of the ranking": for every exhaustive
    ranking, `search_page(q, pagenum, pagelen)` — the first `pagenum·pagelen` hits (what the limited
    search returns, C05), cut to `[offset, offset + page.pagelen)` — is the ranking from `offset` on,
    at most `pagelen` long, with `offset = (min(pagecount, pagenum) - 1)·pagelen`. -/
theorem page_slice {α : Type} (ranking : List α) (pagenum pagelen : Nat) (hl : 1 ≤ pagelen) (hn : 1 ≤ pagenum) :
    ∃ p, mkPage ranking.length pagenum pagelen = .ok p ∧
      p.offset = (min ((ranking.length + pagelen - 1) / pagelen) pagenum - 1) * pagelen ∧
      pageHits ranking pagenum pagelen = .ok ((ranking.drop p.offset).take pagelen) := by
  obtain ⟨p, hp, h1, h2, h3, h4, h5, h6, h7⟩ := page_fields ranking.length pagenum pagelen hl hn
  have hpc : p.pagecount = (ranking.length + pagelen - 1) / pagelen := by
    have h1' : ¬ pagenum < 1 := by omega
    have h2' : ¬ pagelen = 0 := by omega
    simp only [mkPage, h1', h2', if_false] at hp
    cases hp; rfl
  refine ⟨p, hp, by rw [h5, h4, hpc], ?_⟩
  simp only [pageHits, hp]
  congr 1
  rw [List.drop_take, List.take_take, List.take_eq_take_iff, List.length_drop]
  -- arithmetic on the products, as atoms
  have hle : p.pagenum * pagelen ≤ pagenum * pagelen :=
    Nat.mul_le_mul_right _ (by rw [h4]; exact Nat.min_le_right _ _)
  have hsucc : 1 ≤ p.pagenum → (p.pagenum - 1) * pagelen + pagelen = p.pagenum * pagelen := by
    intro h
    rw [pred_mul]
    have : pagelen ≤ p.pagenum * pagelen := by
      calc pagelen = 1 * pagelen := (Nat.one_mul _).symm
        _ ≤ p.pagenum * pagelen := Nat.mul_le_mul_right _ h
    omega
  have hzero : p.pagenum = 0 → ranking.length = 0 := by
    intro h
    have : p.pagecount = 0 := by
      rw [h4] at h
      rcases Nat.le_total p.pagecount pagenum with h' | h'
      · rw [Nat.min_eq_left h'] at h; exact h
      · rw [Nat.min_eq_right h'] at h; omega
    rw [this, Nat.zero_mul] at h2
    omega
  rw [h5] at h6 h7 ⊢
  generalize (p.pagenum - 1) * pagelen = A at *
  generalize p.pagenum * pagelen = B at *
  generalize pagenum * pagelen = C at *
  rcases Nat.eq_zero_or_pos p.pagenum with h0 | h0
  · have := hzero h0
    simp only [Nat.min_def]
    repeat' split
    all_goals omega
  · have := hsucc h0
    simp only [Nat.min_def]
    repeat' split
    all_goals omega

/-- `page_slice` on a concrete ranking of 7 hits: page 2 of 3-hit pages, and a request beyond the
    last page (clamped to the last page, which is shorter). -/
example : pageHits [10, 11, 12, 13, 14, 15, 16] 2 3 = .ok [13, 14, 15] ∧
    pageHits [10, 11, 12, 13, 14, 15, 16] 9 3 = .ok [16] := by decide

end WM.C14
