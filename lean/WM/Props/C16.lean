import WM.Model.Parser
import WM.Spec.Parser
import WM.Lemmas.ParserTotal
import WM.Lemmas.ParserOps
import WM.Lemmas.ParserPrec
import WM.Lemmas.ParserGroups
import WM.Lemmas.ParserEval
import WM.Lemmas.ParserFields
import WM.Lemmas.ParserClean
import WM.Lemmas.ParserIdentity
import WM.Lemmas.ParserTag
/-!
C16 — the query parser accepts any input and honours the documented language.

Model: `WM/Model/Parser.lean` (the filter pipeline on the tagged node list, `query()` of the group
nodes), spec: `WM/Spec/Parser.lean` (expression trees, their token lists, their meaning).
-/
namespace WM.C16
open WM.Parser

/-! ## Totality of the filter pipeline -/

/-- `C16.total` (filters): for *every* parser configuration (any set and order of the thirteen
    modelled filters, any operator table, schema, multi-field/copy-field/alias maps) and *every*
    node list — flat or not, well-formed or not — `filterize` returns a syntax tree.  Since the
    model performs every Python index expression through `pyGet/pySet/pyDel` (which answer
    `IndexError` out of range, with Python's negative-index rule), this says that no index access
    in the mirrored filters can be out of bounds and no loop can fail. -/
theorem total_filterize (c : Cfg) (ns : List Node) : ∃ t, filterize c ns = .ok t :=
  applyFilters_ok c (priorized c.filters) (.group c.group ns 1)

/-- non-vacuity / the defect that was repaired: with the original guard `if i < lasti:` the model of
    `do_gtlt` answers `IndexError` on a comparison sign at the start of a group (`>"`); with the
    repaired guard it returns the list without the dangling sign. -/
example : gtltStep [.gtlt .gt, .text (.phrase 1) [] none 1] 0 [] = .ok (0, []) := by
  simp [gtltStep, pyGet, pyIdx]

/-! ## Precedence -/

/-- the parser configuration reduced to the filters that decide the shape of the tree:
    `do_groups` (priority 0), `remove_whitespace` (500), `do_operators` (600) with the default
    operator taggers; `gk` is the parser's `group` (AndGroup or OrGroup) -/
def coreCfg (gk : GK) : Cfg :=
  { group := gk, defField := none, schema := none, removeUnknown := true, ops := defaultOps,
    mfFields := [], mfGroup := .or, copyMap := [], copyGroup := none, aliases := [],
    filters := [(.rmws, 100 + 400), (.groups, 0), (.operators, 600)] }

theorem coreCfg_priorized (gk : GK) : priorized (coreCfg gk).filters = [.groups, .rmws, .operators] := by
  simp [coreCfg, priorized, insertByPrio]

theorem stripParen_wf (items : List Expr) (h : ∀ e ∈ items, e.wf = true) : ∀ e ∈ stripParen items, e.wf = true := by
  unfold stripParen
  split
  · next inner =>
    have := h (.paren inner) (by simp)
    rw [wf_paren] at this
    exact this.2
  · exact h

/-- `C16.precedence`, structural form: for every sequence of well-formed expressions of the
    documented language (NOT tightest, then AND, OR, ANDNOT, ANDMAYBE, REQUIRE, then juxtaposition;
    parentheses), written down as the tagger would deliver it (`toksSeq`), the filter pipeline
    builds exactly the intended tree `outSeq`. -/
theorem precedence (gk : GK) (items : List Expr) (hwf : ∀ e ∈ items, e.wf = true) :
    filterize (coreCfg gk) (toksSeq items) = .ok (outSeq gk items) := by
  unfold filterize
  rw [coreCfg_priorized]
  have hs := stripParen_wf items hwf
  simp only [applyFilters, applyFilter]
  have h1 : doGroups (coreCfg gk).group (toksSeq items) = .group gk (nestSeq gk (stripParen items)) 1 :=
    doGroups_seq gk items hwf
  rw [h1]
  have h2 : rmWs (.group gk (nestSeq gk (stripParen items)) 1) = .group gk (flatSeq gk (stripParen items)) 1 := by
    rw [rmWs_group]
    have := rmWsL_nestSeq gk (stripParen items) hs
    unfold rmWsL at this
    rw [this]
  rw [h2]
  have h3 := doOperators_seq gk gk 1 (stripParen items) hs (fun e he => doOperators_mid gk e (hs e he)) [] (by simp)
  simp only [List.append_nil, List.map_nil] at h3
  have h4 : (coreCfg gk).ops = defaultOps := rfl
  simp only [h4, h3]
  rfl

theorem evalSeq_stripParen (gk : GK) (v : Node → Bool) (items : List Expr) :
    evalSeq gk v (stripParen items) = evalSeq gk v items := by
  unfold stripParen
  split
  · next inner =>
    simp only [evalSeq, List.map_cons, List.map_nil, Expr.eval_paren]
    split <;> simp
  · rfl

/-- `C16.precedence`, meaning: the tree built for a well-formed query selects, for every
    assignment of matching documents to the leaves, exactly the documents its reading selects
    (composition with C01/C15 gives the statement about the index). -/
theorem precedence_meaning (gk : GK) (hgk : gk = .and ∨ gk = .or) (items : List Expr)
    (hwf : ∀ e ∈ items, e.wf = true) (v : Node → Bool) :
    Node.eval v (outSeq gk items) = evalSeq gk v items := by
  rw [← evalSeq_stripParen]
  have hs := stripParen_wf items hwf
  unfold outSeq evalSeq
  have hm : ((stripParen items).map (Expr.out gk)).map (Node.eval v)
      = (stripParen items).map (fun e => e.eval gk v) := by
    rw [List.map_map]
    exact List.map_congr_left (fun c hc => out_eval gk hgk v c (hs c hc))
  rcases hgk with h | h <;> subst h
  · rw [eval_group_and, hm]; simp
  · rw [eval_group_or, hm]; simp

/-- a concrete non-trivial instance: `a OR b AND NOT c d` under an AND-group parser is
    `And([Or([a, And([b, Not(c)])]), d])` -/
example :
    let a := Node.text .word [97] none 1
    let b := Node.text .word [98] none 1
    let c := Node.text .word [99] none 1
    let d := Node.text .word [100] none 1
    let q := [Expr.op .or [.atom a, .op .and [.atom b, .not (.atom c)]], .atom d]
    (∀ e ∈ q, e.wf = true) ∧
    outSeq .and q = .group .and [.group .or [a, .group .and [b, .group .not [c] 1] 1] 1, d] 1 := by
  refine ⟨?_, ?_⟩
  · intro e he
    simp only [List.mem_cons, List.not_mem_nil, or_false] at he
    rcases he with rfl | rfl
    · simp [wf_op, wf_not, wf_atom, GK.lvl, Expr.level, Node.isLeaf]
    · simp [wf_atom, Node.isLeaf]
  · simp [outSeq, stripParen, out_op_cons, out_atom, out_not, combineL, GK.merging, Node.groupOf?]

/-! ## Field prefixes -/

/-- `C16.fields`: in `do_fieldnames`, a field prefix `name:` (a field of the schema when the parser
    has a schema and removes unknown names; any name for a schema-less parser or with
    `remove_unknown=False`, where the first loop of `do_fieldnames` does not run) directly
    followed by a node `x` that is neither whitespace nor another prefix gives its name to exactly
    that node — to all of it (`setFieldname` descends into a group and sets every descendant that
    has no field of its own, `override=False`) and to nothing else: the nodes before the prefix and
    the nodes after `x` come out exactly as they do when the pair is not there. -/
theorem fields (c : Cfg) (k : GK) (b : Rat) (pre post : List Node) (name orig : Str) (x : Node)
    (hw : x.isWs = false) (hf : x.isFname = false)
    (hknown : c.removeUnknown = true → c.schemaTruthy = true →
      knownNames c (pre ++ .fname name orig :: x :: post)) :
    ∃ P x' Q,
      doFieldnames c (.group k pre b) = .ok (.group k P b) ∧
      doFieldnames c x = .ok x' ∧
      doFieldnames c (.group k post b) = .ok (.group k Q b) ∧
      doFieldnames c (.group k (pre ++ .fname name orig :: x :: post) b)
        = .ok (.group k (P ++ setFieldname name false x' :: Q) b) := by
  have stage1_id' : ∀ l, (c.removeUnknown = true → c.schemaTruthy = true → knownNames c l) →
      stage1 c (l.map (fieldsOut c)) = l.map (fieldsOut c) := by
    intro l h
    unfold stage1
    split
    · next hc => exact fnStage1_id c _ (knownNames_map c l (h hc.1 hc.2))
    · rfl
  have hkpre : c.removeUnknown = true → c.schemaTruthy = true → knownNames c pre :=
    fun h1 h2 n hn => hknown h1 h2 n (by simp [hn])
  have hkpost : c.removeUnknown = true → c.schemaTruthy = true → knownNames c post :=
    fun h1 h2 n hn => hknown h1 h2 n (by simp [hn])
  refine ⟨fieldsScan (pre.map (fieldsOut c)), fieldsOut c x, fieldsScan (post.map (fieldsOut c)), ?_, ?_, ?_, ?_⟩
  · rw [doFieldnames_group, stage1_id' pre hkpre]
  · exact doFieldnames_eq_fieldsOut c x
  · rw [doFieldnames_group, stage1_id' post hkpost]
  · rw [doFieldnames_group, stage1_id' _ hknown]
    have hx := fieldsOut_props c x hw hf
    simp only [List.map_append, List.map_cons]
    rw [fieldsOut_nongroup c (n := .fname name orig) rfl, fieldsScan_scope _ _ _ _ _ hx.1 hx.2]

/-- `fields` applies to a schema-less parser (`QueryParser(name, None)`) with no condition on the names -/
example (c : Cfg) (hs : c.schemaTruthy = false) (k : GK) (b : Rat) (pre post : List Node) (name orig : Str)
    (x : Node) (hw : x.isWs = false) (hf : x.isFname = false) :
    ∃ P x' Q, doFieldnames c (.group k pre b) = .ok (.group k P b) ∧ doFieldnames c x = .ok x' ∧
      doFieldnames c (.group k post b) = .ok (.group k Q b) ∧
      doFieldnames c (.group k (pre ++ .fname name orig :: x :: post) b)
        = .ok (.group k (P ++ setFieldname name false x' :: Q) b) :=
  fields c k b pre post name orig x hw hf (fun _ h => by rw [hs] at h; cases h)

/-- instance (the scan behind `fields`): `a t:b d` — only `b` gets the field; a prefix followed
    by whitespace becomes a word again -/
example :
    fieldsScan [.text .word [97] none 1, .ws, .fname [116] [116, 58], .text .word [98] none 1, .ws,
                .fname [107] [107, 58], .ws, .text .word [100] none 1]
      = [.text .word [97] none 1, .ws, .text .word [98] (some [116]) 1, .ws,
         .text .word [107, 58] none 1, .ws, .text .word [100] none 1] := by
  simp [fieldsScan, fnRev, fnToWord, toWord, setFieldname, Node.isWs]

/-! ## Totality of the query stage -/

/-- outcome of the query stage that the property allows: a query (or None) or QueryParserError -/
def allowed (r : Except Err (Option Q)) : Prop := (∃ q, r = .ok q) ∨ r = .error .qpe

/-- the leaves' own `query()` raises at most `QueryParserError` (this is what the `fix:` commits in
    `RangeNode.query`, `PhraseNode.query`, `term_query` establish for the shipped field types; the
    end-to-end run checks it) -/
def leavesOk (o : Node → LeafRes) : Prop := ∀ n e, o n = .err e → e = .qpe

theorem mapM_allowed {l : List Node} {o : Node → LeafRes}
    (h : ∀ x ∈ l, allowed (query o x)) : (∃ qs, l.mapM (query o) = .ok qs) ∨ l.mapM (query o) = .error .qpe := by
  induction l with
  | nil => exact Or.inl ⟨[], rfl⟩
  | cons a t ih =>
    rcases h a (by simp) with ⟨q, hq⟩ | hq
    · rcases ih (fun x hx => h x (by simp [hx])) with ⟨qs, hqs⟩ | hqs
      · exact Or.inl ⟨q :: qs, by simp [List.mapM_cons, hq, hqs, bind, Except.bind, pure, Except.pure]⟩
      · exact Or.inr (by simp [List.mapM_cons, hq, hqs, bind, Except.bind])
    · exact Or.inr (by simp [List.mapM_cons, hq, bind, Except.bind])

/-- `C16.total` (query stage), partial: on a clean tree the `query()` methods of the group nodes
    (`GroupNode.query`, `BinaryGroup.query` with its `assert len(nodes) <= 2`, `Wrapper.query`)
    produce a query or propagate a leaf's `QueryParserError`; `IndexError`, `AssertionError` and
    `NotImplementedError` are impossible. -/
theorem total_query_partial (o : Node → LeafRes) (ho : leavesOk o) (t : Node) :
    clean t = true → allowed (query o t) := by
  induction hsz : t.size using Nat.strongRecOn generalizing t with
  | _ sz ih =>
    intro hc
    have leaf : ∀ n, (query o n = match o n with
        | .none => .ok none | .q id tr => .ok (some (.leaf id tr)) | .err e => .error e) → allowed (query o n) := by
      intro n hn
      rw [hn]
      cases hr : o n with
      | none => exact Or.inl ⟨_, rfl⟩
      | q id tr => exact Or.inl ⟨_, rfl⟩
      | err e => rw [ho n e hr]; exact Or.inr rfl
    cases t with
    | text k t f b => exact leaf _ (by rw [query]; cases o (.text k t f b) <;> rfl)
    | range s e sx ex f => exact leaf _ (by rw [query]; cases o (.range s e sx ex f) <;> rfl)
    | every => exact leaf _ (by rw [query]; cases o .every <;> rfl)
    | group k ns b =>
      have hcl : (ns.map clean).all id = true := by
        rw [clean] at hc
        simp only [Bool.and_eq_true] at hc
        exact hc.2
      have hch : ∀ x ∈ ns, allowed (query o x) := by
        intro x hx
        have := size_mem hx
        have hcx : clean x = true := by
          simp only [List.all_eq_true, List.mem_map, id] at hcl
          exact hcl _ ⟨x, hx, rfl⟩
        exact ih x.size (by subst hsz; simp only [Node.size]; omega) x rfl hcx
      have bin : ∀ (_ : k = .andnot ∨ k = .andmaybe ∨ k = .require), ns.length ≤ 2 → allowed (query o (.group k ns b)) := by
        intro hk hlen
        match ns, hlen, hch with
        | [], _, _ => rcases hk with h | h | h <;> subst h <;> (rw [query]; exact Or.inl ⟨_, rfl⟩)
        | [a], _, hch =>
          have ha := hch a (by simp)
          rcases hk with h | h | h <;> subst h <;> rw [query] <;>
            (rcases ha with ⟨q, hq⟩ | hq
             · rw [hq]; cases q <;> exact Or.inl ⟨_, rfl⟩
             · rw [hq]; exact Or.inr rfl)
        | [a, c], _, hch =>
          have ha := hch a (by simp)
          have hcc := hch c (by simp)
          rcases hk with h | h | h <;> subst h <;> rw [query] <;>
            (rcases ha with ⟨q, hq⟩ | hq
             · rcases hcc with ⟨q2, hq2⟩ | hq2
               · rw [hq, hq2]; cases q <;> cases q2 <;> exact Or.inl ⟨_, rfl⟩
               · rw [hq, hq2]; exact Or.inr rfl
             · rw [hq]; exact Or.inr rfl)
        | _ :: _ :: _ :: _, hlen, _ => simp at hlen
      have comp : (query o (.group k ns b) = (ns.mapM (query o)).bind fun qs => pure (some (.compound k (qs.filterMap id) b)))
          → allowed (query o (.group k ns b)) := by
        intro he
        rw [he]
        rcases mapM_allowed hch with ⟨qs, hqs⟩ | hqs
        · rw [hqs]; exact Or.inl ⟨_, rfl⟩
        · rw [hqs]; exact Or.inr rfl
      have hlen : (k = .andnot ∨ k = .andmaybe ∨ k = .require) → ns.length ≤ 2 := by
        intro hk
        rw [clean] at hc
        simp only [Bool.and_eq_true] at hc
        rcases hk with h | h | h <;> subst h <;> simpa [GK.hasBoost] using hc.1
      cases k with
      | andnot => exact bin (Or.inl rfl) (hlen (Or.inl rfl))
      | andmaybe => exact bin (Or.inr (Or.inl rfl)) (hlen (Or.inr (Or.inl rfl)))
      | require => exact bin (Or.inr (Or.inr rfl)) (hlen (Or.inr (Or.inr rfl)))
      | not =>
        cases ns with
        | nil => rw [query]; exact Or.inl ⟨_, rfl⟩
        | cons n0 rest =>
          rw [query]
          rcases hch n0 (by simp) with ⟨q, hq⟩ | hq
          · simp only [hq, bind, Except.bind]
            cases q with
            | none => exact Or.inl ⟨_, rfl⟩
            | some q => by_cases hq' : q.truthy = true <;> simp [hq', pure, Except.pure] <;> exact Or.inl ⟨_, rfl⟩
          · simp only [hq, bind, Except.bind]; exact Or.inr rfl
      | and => exact comp (by rw [query] <;> first | rfl | (intro h; cases h))
      | or => exact comp (by rw [query] <;> first | rfl | (intro h; cases h))
      | dismax => exact comp (by rw [query] <;> first | rfl | (intro h; cases h))
      | ordered => exact comp (by rw [query] <;> first | rfl | (intro h; cases h))
      | seq => exact comp (by rw [query] <;> first | rfl | (intro h; cases h))
    | _ => rw [clean] at hc <;> first | cases hc | (intros; simp_all)

/-- the filter sequence of `QueryParser(...)` with the default plug-in set (WhitespacePlugin is
    added twice by the constructor) -/
def defaultPipeline : List FilterId :=
  [.groups, .cleanBoost, .wildcards, .fieldnames, .rmws, .rmws, .boost, .operators]

/-- what the default taggers can produce: a flat list of words, wildcards, phrases, ranges,
    whitespace, field prefixes, brackets, the six default operators, boosts, `*:*` -/
def defaultTagged (n : Node) : Bool :=
  match n with
  | .text .word .. | .text .wild .. | .text (.phrase _) .. | .range .. | .ws | .fname .. | .opn | .cls
  | .bst .. | .every => true
  | .op t g la _ => la && defaultOps.any (fun o => o.t == t && o.g == g)
  | _ => false

/-- every node the default pipeline may meet before `do_operators`: a default operator or no
    operator, none of the marker kinds of optional plug-ins, no group of a binary class, no bracket -/
def stageOK : Node → Bool := fun x => (baseOK x && noBin x) && !x.isBracket

theorem stable_stageOK : Stable stageOK := stable_and (stable_and stable_baseOK stable_noBin) stable_notBracket

theorem applyFilters_append (c : Cfg) (a b : List FilterId) (n : Node) :
    applyFilters c (a ++ b) n = (match applyFilters c a n with
      | .error e => .error e
      | .ok n' => applyFilters c b n') := by
  induction a generalizing n with
  | nil => rfl
  | cons f fs ih =>
    simp only [List.cons_append, applyFilters]
    split
    · rfl
    · exact ih _

/-- first half of the default pipeline: brackets and field prefixes are gone -/
theorem front (c : Cfg) (hgrp : c.group.hasBoost = true) (ns : List Node)
    (hns : ∀ n ∈ ns, defaultTagged n = true) :
    ∃ t, applyFilters c [.groups, .cleanBoost, .wildcards, .fieldnames] (.group c.group ns 1) = .ok t ∧
      t.isGroup = true ∧ t.allNodes (andNotFname stageOK) = true := by
  have h1 : (doGroups c.group ns).allNodes stageOK = true := by
    apply doGroups_pres stable_stageOK c.group (by simp [stageOK, baseOK, opOK, noBin, hgrp, Node.isBracket])
    intro n hn
    have ht := hns n hn
    cases n <;> simp_all [defaultTagged, Node.isBracket, Node.allNodes, stageOK, baseOK, opOK, noBin]
  have h2 := cleanBoost_pres stable_stageOK _ h1
  obtain ⟨t3, e3⟩ := doWildcards_ok (cleanBoost (doGroups c.group ns))
  have h3 := doWildcards_pres stable_stageOK _ t3 e3 h2
  have g3 : t3.isGroup = true := by
    have hd : (doGroups c.group ns).isGroup = true := by
      unfold doGroups; simp only; split <;> rfl
    have hc : (cleanBoost (doGroups c.group ns)).isGroup = true := by
      cases hh : doGroups c.group ns <;> simp_all [cleanBoost, Node.isGroup]
    cases hh : cleanBoost (doGroups c.group ns) <;> simp_all [Node.isGroup]
    rw [doWildcards] at e3
    simp only [bind, Except.bind] at e3
    split at e3
    · cases e3
    · split at e3
      · cases e3
      · simp only [pure, Except.pure, Except.ok.injEq] at e3; subst e3; rfl
  have e4 := doFieldnames_eq_fieldsOut c t3
  have h4 : (fieldsOut c t3).allNodes (andNotFname stageOK) = true := by
    rcases fieldsOut_pres stable_stageOK c t3 h3 with h | h
    · cases t3 <;> simp_all [Node.isGroup, Node.isFname]
    · exact h
  have g4 : (fieldsOut c t3).isGroup = true := by
    cases t3 <;> simp [Node.isGroup] at g3
    exact fieldsOut_group_isGroup c _ _ _
  refine ⟨fieldsOut c t3, ?_, g4, h4⟩
  simp only [applyFilters, applyFilter, e3, e4]

/-- second half: whitespace, boosts and operators are gone, binary groups have two operands -/
theorem back (c : Cfg) (hops : c.ops = defaultOps) (t : Node) (g4 : t.isGroup = true)
    (h4 : t.allNodes (andNotFname stageOK) = true) :
    ∃ r, applyFilters c [.rmws, .rmws, .boost, .operators] t = .ok r ∧ clean r = true := by
  have hS := stable_andNotFname stable_stageOK
  have g5 : ∀ n : Node, n.isGroup = true → (rmWs n).isGroup = true := by
    intro n hn; cases n <;> simp [Node.isGroup] at hn; rw [rmWs_group']; rfl
  have notws : ∀ n : Node, n.isGroup = true → n.isWs = false := by
    intro n hn; cases n <;> simp_all [Node.isGroup, Node.isWs]
  have h5 := rmWs_pres hS _ (rmWs_pres hS _ h4)
  have w5 := rmWs_elim (rmWs t) (notws _ (g5 _ g4))
  have g6 := g5 _ (g5 _ g4)
  have notbst : ∀ n : Node, n.isGroup = true → n.isBst = false := by
    intro n hn; cases n <;> simp_all [Node.isGroup, Node.isBst]
  have h6 := doBoost_pres hS _ h5
  have w6 := doBoost_pres stable_notWs _ w5
  have b6 := doBoost_elim _ (notbst _ g6)
  let t7 := doBoost (rmWs (rmWs t))
  let q7 : Node → Bool := fun x => ((baseOK x && !x.isBracket) && !x.isFname) && (!x.isWs && !x.isBst)
  have hq7 : Stable q7 :=
    stable_and (stable_and (stable_and stable_baseOK stable_notBracket) stable_notFname)
      (stable_and stable_notWs stable_notBst)
  have a7 : t7.allNodes q7 = true := by
    have hx : t7.allNodes (fun x => (andNotFname stageOK x && !x.isWs) && !x.isBst) = true := by
      rw [allNodes_and, allNodes_and, h6, w6, b6]; rfl
    refine allNodes_mono ?_ t7 hx
    intro x hx
    simp only [andNotFname, stageOK, Bool.and_eq_true] at hx
    simp only [q7, Bool.and_eq_true]
    exact ⟨⟨⟨hx.1.1.1.1.1, hx.1.1.1.2⟩, hx.1.1.2⟩, hx.1.2, hx.2⟩
  have o7 : t7.allNodes opOK = true := by
    refine allNodes_mono ?_ t7 a7
    intro x hx
    simp only [q7, Bool.and_eq_true] at hx
    have := hx.1.1.1
    cases x <;> simp_all [baseOK]
  have n7 : t7.allNodes binOK = true := by
    refine allNodes_mono ?_ t7 h6
    intro x hx
    simp only [andNotFname, stageOK, Bool.and_eq_true] at hx
    have := hx.1.1.2
    cases x <;> simp_all [noBin, binOK]
  have g7 : t7.isOp = false := by
    have : t7.isGroup = true := by
      show (doBoost _).isGroup = true
      cases hh : rmWs (rmWs t) <;> simp_all [Node.isGroup]
      rw [doBoost]
    cases hh : t7 <;> simp_all [Node.isGroup, Node.isOp]
  have h7 := opsOut_clean hq7 (by intro k; rfl) t7 a7 o7 n7 g7
  have e7 := doOperators_eq_opsOut defaultOps t7
  have hclean : clean (opsOut defaultOps t7) = true := by
    rw [clean_eq_allNodes, allNodes_and, h7.2, Bool.and_true]
    refine allNodes_mono ?_ _ h7.1
    intro x hx
    simp only [andNotOp, q7, Bool.and_eq_true] at hx
    cases x <;> simp_all [Node.hasQuery, baseOK, Node.isBracket, Node.isFname, Node.isWs, Node.isBst, Node.isOp]
  refine ⟨opsOut defaultOps t7, ?_, hclean⟩
  simp only [applyFilters, applyFilter, hops]
  rw [show doOperators defaultOps (doBoost (rmWs (rmWs t))) = Except.ok (opsOut defaultOps t7) from e7]

/-- `C16.total` for the default configuration (any schema, default field, AND- or OR-group or
    any other non-binary group class): for every flat list of nodes the default taggers can
    produce — in any order, balanced or not — `filterize` returns a tree in which every node has
    a `query()` and every binary group has at most two operands, so `query()` returns a query or
    raises the parser's own `QueryParserError` (coming from a leaf); `IndexError`, `AssertionError`
    and `NotImplementedError` are impossible in the modelled pipeline. -/
theorem total (c : Cfg) (hp : priorized c.filters = defaultPipeline) (hops : c.ops = defaultOps)
    (hgrp : c.group.hasBoost = true)
    (ns : List Node) (hns : ∀ n ∈ ns, defaultTagged n = true)
    (o : Node → LeafRes) (ho : leavesOk o) :
    ∃ t, filterize c ns = .ok t ∧ clean t = true ∧ allowed (query o t) := by
  obtain ⟨t4, e4, g4, h4⟩ := front c hgrp ns hns
  obtain ⟨r, er, hr⟩ := back c hops t4 g4 h4
  refine ⟨r, ?_, hr, total_query_partial o ho r hr⟩
  unfold filterize
  rw [hp, show defaultPipeline = [.groups, .cleanBoost, .wildcards, .fieldnames] ++ [.rmws, .rmws, .boost, .operators] from rfl,
      applyFilters_append, e4]
  exact er

/-- the filter sequence of `MultifieldParser(...)` -/
def multifieldPipeline : List FilterId :=
  [.groups, .cleanBoost, .wildcards, .fieldnames, .multifield, .rmws, .rmws, .boost, .operators]

/-- `C16.total` for `MultifieldParser` (the group class of the per-field copies must not be a
    binary one; it is `OrGroup` by default). -/
theorem total_multifield (c : Cfg) (hp : priorized c.filters = multifieldPipeline) (hops : c.ops = defaultOps)
    (hgrp : c.group.hasBoost = true) (hmf : c.mfGroup.hasBoost = true)
    (ns : List Node) (hns : ∀ n ∈ ns, defaultTagged n = true)
    (o : Node → LeafRes) (ho : leavesOk o) :
    ∃ t, filterize c ns = .ok t ∧ clean t = true ∧ allowed (query o t) := by
  obtain ⟨t4, e4, g4, h4⟩ := front c hgrp ns hns
  have hS := stable_andNotFname stable_stageOK
  have h5 := doMultifield_pres hS c (by simp [andNotFname, stageOK, baseOK, opOK, noBin, hmf, Node.isBracket, Node.isFname]) t4 h4
  have g5 : (doMultifield c t4).isGroup = true := by
    cases t4 <;> simp [Node.isGroup] at g4
    rw [doMultifield_group]; rfl
  obtain ⟨r, er, hr⟩ := back c hops _ g5 h5
  refine ⟨r, ?_, hr, total_query_partial o ho r hr⟩
  unfold filterize
  rw [hp, show multifieldPipeline = [.groups, .cleanBoost, .wildcards, .fieldnames] ++
        ([.multifield] ++ [.rmws, .rmws, .boost, .operators]) from rfl,
      applyFilters_append, e4]
  simp only [applyFilters_append, applyFilters, applyFilter]
  exact er

/-- what the taggers of `SimpleParser` / `DisMaxParser` can produce: words, phrases, whitespace,
    plus and minus -/
def simpleTagged (n : Node) : Bool :=
  match n with
  | .text .word .. | .text (.phrase _) .. | .ws | .plus | .minus => true
  | _ => false

/-- `C16.total` for `SimpleParser` (filters: remove_whitespace twice, do_plusminus) and
    `DisMaxParser` (do_multifield first), with the repaired recursive `do_plusminus`. -/
theorem total_simple (c : Cfg) (multi : Bool)
    (hp : priorized c.filters = (if multi then [.multifield] else []) ++ [.rmws, .rmws, .plusminus])
    (hgrp : c.group.hasBoost = true) (hmf : c.mfGroup.hasBoost = true)
    (ns : List Node) (hns : ∀ n ∈ ns, simpleTagged n = true)
    (o : Node → LeafRes) (ho : leavesOk o) :
    ∃ t, filterize c ns = .ok t ∧ clean t = true ∧ allowed (query o t) := by
  -- the property carried: only text nodes, whitespace, plus/minus; no binary group
  let q0 : Node → Bool := fun x => (x.hasQuery || x.isWs || x.isPM) && noBin x
  have hq0 : Stable q0 := ⟨by intros; rfl, by intros; rfl, by intros; rfl⟩
  have h0 : (Node.group c.group ns 1).allNodes q0 = true := by
    rw [allNodes_group hq0, Bool.and_eq_true]
    refine ⟨by simp [q0, Node.hasQuery, noBin, hgrp], ?_⟩
    rw [allNodesL_iff]
    intro n hn
    have := hns n hn
    cases n <;> simp_all [simpleTagged, Node.allNodes, q0, Node.hasQuery, Node.isWs, Node.isPM, noBin]
  -- optional do_multifield
  obtain ⟨t1, e1, g1, h1⟩ : ∃ t1, applyFilters c (if multi then [.multifield] else []) (.group c.group ns 1) = .ok t1 ∧
      t1.isGroup = true ∧ t1.allNodes q0 = true := by
    cases multi
    · exact ⟨_, rfl, rfl, h0⟩
    · refine ⟨doMultifield c (.group c.group ns 1), rfl, by rw [doMultifield_group]; rfl, ?_⟩
      exact doMultifield_pres hq0 c (by simp [q0, Node.hasQuery, noBin, hmf]) _ h0
  -- remove_whitespace twice
  have h2 := rmWs_pres hq0 _ (rmWs_pres hq0 _ h1)
  have g5 : ∀ n : Node, n.isGroup = true → (rmWs n).isGroup = true := by
    intro n hn; cases n <;> simp [Node.isGroup] at hn; rw [rmWs_group']; rfl
  have notws : ∀ n : Node, n.isGroup = true → n.isWs = false := by
    intro n hn; cases n <;> simp_all [Node.isGroup, Node.isWs]
  have w2 := rmWs_elim (rmWs t1) (notws _ (g5 _ g1))
  -- do_plusminus
  let q1 : Node → Bool := fun x => x.hasQuery || x.isPM
  have hq1 : Stable q1 := ⟨by intros; rfl, by intros; rfl, by intros; rfl⟩
  have a2 : (rmWs (rmWs t1)).allNodes q1 = true ∧ (rmWs (rmWs t1)).allNodes noBin = true := by
    have hx : (rmWs (rmWs t1)).allNodes (fun x => q0 x && !x.isWs) = true := by
      rw [allNodes_and, h2, w2]; rfl
    constructor
    · refine allNodes_mono ?_ _ hx
      intro x hx
      simp only [q0, Bool.and_eq_true, Bool.or_eq_true] at hx
      simp only [q1, Bool.or_eq_true]
      rcases hx.1.1 with (h | h) | h
      · exact Or.inl h
      · simp [h] at hx
      · exact Or.inr h
    · refine allNodes_mono ?_ _ h2
      intro x hx
      simp only [q0, Bool.and_eq_true] at hx
      exact hx.2
  have h3 := doPlusMinus_pres hq1 (by intro k; rfl) (rmWs (rmWs t1)) (Or.inr a2)
  have h3' : (doPlusMinus (rmWs (rmWs t1))).allNodes (fun x => q1 x && !x.isPM) = true ∧
      (doPlusMinus (rmWs (rmWs t1))).allNodes binOK = true := by
    rcases h3 with h | h
    · have := g5 _ (g5 _ g1)
      cases hh : rmWs (rmWs t1) <;> simp_all [Node.isGroup, Node.isPM]
    · exact h
  have hclean : clean (doPlusMinus (rmWs (rmWs t1))) = true := by
    rw [clean_eq_allNodes, allNodes_and, h3'.2, Bool.and_true]
    refine allNodes_mono ?_ _ h3'.1
    intro x hx
    simp only [q1, Bool.and_eq_true, Bool.or_eq_true] at hx
    rcases hx.1 with h | h
    · exact h
    · simp [h] at hx
  refine ⟨_, ?_, hclean, total_query_partial o ho _ hclean⟩
  unfold filterize
  rw [hp, applyFilters_append, e1]
  rfl

/-- instance of the hypotheses: the default configuration's filter list sorts into
    `defaultPipeline` -/
example : priorized [(FilterId.rmws, 500), (.rmws, 500), (.fieldnames, 100), (.wildcards, 50), (.groups, 0),
    (.operators, 600), (.cleanBoost, 0), (.boost, 510)] = defaultPipeline := by decide

/-- instances: the filter lists of `SimpleParser` and `DisMaxParser` sort into the pipelines of
    `total_simple`, that of `MultifieldParser` into `multifieldPipeline` -/
example : priorized [(FilterId.rmws, 500), (.rmws, 500), (.plusminus, 510)] = [] ++ [.rmws, .rmws, .plusminus] ∧
    priorized [(FilterId.rmws, 500), (.rmws, 500), (.plusminus, 510), (.multifield, 110)]
      = [.multifield] ++ [.rmws, .rmws, .plusminus] ∧
    priorized [(FilterId.rmws, 500), (.rmws, 500), (.fieldnames, 100), (.wildcards, 50), (.groups, 0),
      (.operators, 600), (.cleanBoost, 0), (.boost, 510), (.multifield, 110)] = multifieldPipeline := by decide

theorem stripParen_atoms (p : Node → Bool) (items : List Expr) (h : ∀ e ∈ items, e.allAtoms p = true) :
    ∀ e ∈ stripParen items, e.allAtoms p = true := by
  unfold stripParen
  split
  · next inner =>
    have := h (.paren inner) (by simp)
    rw [Expr.allAtoms, all_map_id] at this
    exact this
  · exact h

/-- `C16.precedence` for the *default* plug-in set: the other filters of the default pipeline
    (clean_boost, do_wildcards, do_fieldnames, the second remove_whitespace, do_boost) leave the
    tree of a well-formed expression without wildcard atoms alone, so the whole default pipeline
    builds the intended tree. -/
theorem precedence_default (c : Cfg) (hp : priorized c.filters = defaultPipeline) (hops : c.ops = defaultOps)
    (items : List Expr) (hwf : ∀ e ∈ items, e.wf = true)
    (hplain : ∀ e ∈ items, e.allAtoms (fun x => !x.isWild) = true) :
    filterize c (toksSeq items) = .ok (outSeq c.group items) := by
  have hs := stripParen_wf items hwf
  have hsp := stripParen_atoms _ items hplain
  have hq : allNodesL quiet (nestSeq c.group (stripParen items)) = true := by
    unfold nestSeq
    apply allNodesL_joinWith _ _ (by simp [allNodesL, Node.allNodes, quiet, Node.isBst, Node.isFname, Node.isWild])
    intro l hl
    simp only [List.mem_map] at hl
    obtain ⟨e, he, rfl⟩ := hl
    exact nest_quiet c.group e (hs e he) (hsp e he)
  let t1 : Node := .group c.group (nestSeq c.group (stripParen items)) 1
  have hq1 : t1.allNodes quiet = true := by
    simp only [t1, Node.allNodes, quiet, Node.isBst, Node.isFname, Node.isWild, Bool.not_false, Bool.true_and]
    exact hq
  have hbst : t1.allNodes (fun x => !x.isBst) = true :=
    allNodes_mono (by intro x hx; simp only [quiet, Bool.and_eq_true] at hx; exact hx.1.1) t1 hq1
  have hfn : t1.allNodes (fun x => !x.isFname) = true :=
    allNodes_mono (by intro x hx; simp only [quiet, Bool.and_eq_true] at hx; exact hx.1.2) t1 hq1
  have hwd : t1.allNodes (fun x => !x.isWild) = true :=
    allNodes_mono (by intro x hx; simp only [quiet, Bool.and_eq_true] at hx; exact hx.2) t1 hq1
  have e1 : doGroups c.group (toksSeq items) = t1 := doGroups_seq c.group items hwf
  have e2 : cleanBoost t1 = t1 :=
    cleanBoost_id _ _ _ (fun n hn => by
      have := allNodes_self ((allNodesL_iff.1 (allNodes_group_children hbst)) n hn); simpa using this)
  have e3 := doWildcards_id t1 hwd
  have e4 := doFieldnames_id c t1 hfn
  let t5 : Node := .group c.group (flatSeq c.group (stripParen items)) 1
  have e5 : rmWs t1 = t5 := by
    show rmWs (.group c.group (nestSeq c.group (stripParen items)) 1) = _
    rw [rmWs_group']
    have := rmWsL_nestSeq c.group (stripParen items) hs
    unfold rmWsL at this
    rw [this]
  have hws5 : t5.allNodes (fun x => !x.isWs) = true := by
    rw [← e5]; exact rmWs_elim t1 rfl
  have e6 : rmWs t5 = t5 := rmWs_id t5 hws5
  have hbst5 : t5.allNodes (fun x => !x.isBst) = true := by
    rw [← e5]; exact rmWs_pres stable_notBst t1 hbst
  have e7 : doBoost t5 = t5 := doBoost_id t5 hbst5
  have e8 := doOperators_seq c.group c.group 1 (stripParen items) hs
    (fun e he => doOperators_mid c.group e (hs e he)) [] (by simp)
  simp only [List.append_nil, List.map_nil] at e8
  unfold filterize
  rw [hp]
  simp only [defaultPipeline, applyFilters, applyFilter, e1, e2, e3, e4, e5, e6, e7, hops]
  rw [show doOperators defaultOps t5 = _ from e8]
  rfl


/-! ## Comparison signs (GtLtPlugin) and wildcard-to-prefix conversion -/

/-- `C16.gtlt`: the range node `make_range` builds for `field:<rel>text` selects exactly the
    values the comparison reads as (`num` interprets the end-point texts; `=<` is `<=`, `=>` is
    `>=`). -/
theorem gtlt_meaning (num : Str → Int) (t : Str) (rel : Rel) (x : Int) :
    (match makeRange t rel with
     | .range s e sx ex _ => inRange (s.map num) (e.map num) sx ex x
     | _ => false) = Rel.holds rel x (num t) := by
  cases rel <;> simp [makeRange, inRange, Rel.holds]

theorem globMatch_star (s : List Nat) : globMatch [42] s = true := by
  induction s with
  | nil => rw [globMatch]; simp [globMatch]
  | cons c s ih => rw [globMatch]; simp [ih]

theorem globMatch_prefix (p : List Nat) (hp : ∀ c ∈ p, c ≠ 42 ∧ c ≠ 63) (s : List Nat) :
    globMatch (p ++ [42]) s = p.isPrefixOf s := by
  induction p generalizing s with
  | nil => simp [globMatch_star]
  | cons c p ih =>
    have hc := hp c (by simp)
    have ihp := ih (fun x hx => hp x (by simp [hx]))
    cases s with
    | nil => rw [List.cons_append, globMatch]; simp [hc.1]
    | cons d s =>
      rw [List.cons_append, globMatch]
      simp only [hc.1, if_false, hc.2, decide_false, Bool.false_or, ihp, List.isPrefixOf]
      by_cases h : c = d <;> simp [h]

/-- `C16.wildcards`: whenever `do_wildcards` turns a wildcard node into a prefix node
    (`toPrefix`), the prefix selects exactly the terms the glob selects. -/
theorem wildcard_prefix_sound (t p : Str) (f f' : Option Str) (b b' : Rat)
    (h : toPrefix (.text .wild t f b) = .text .prefix p f' b') (s : List Nat) :
    globMatch t s = p.isPrefixOf s := by
  simp only [toPrefix] at h
  split at h
  · next hcond =>
    split at h
    · next hidx =>
      injection h with _ hp _ _
      subst hp
      obtain ⟨hlen, hq⟩ := hcond
      -- t = dropLast ++ [42], with no star or question mark before the end
      have hne : t ≠ [] := by intro he; subst he; simp at hlen
      have hmem : 42 ∈ t := by
        have : t.idxOf 42 < t.length := by omega
        exact List.idxOf_lt_length_iff.1 this
      have hlast : t = t.dropLast ++ [42] := by
        have hd := List.dropLast_concat_getLast hne
        have : t.getLast hne = 42 := by
          have h1 : t[t.idxOf 42]'(List.idxOf_lt_length_iff.2 hmem) = 42 := List.getElem_idxOf _
          rw [List.getLast_eq_getElem]
          simp only [hidx] at h1
          exact h1
        rw [this] at hd; exact hd.symm
      have hfree : ∀ c ∈ t.dropLast, c ≠ 42 ∧ c ≠ 63 := by
        intro c hc
        constructor
        · intro he; subst he
          have h1 : (t.dropLast ++ [42]).idxOf 42 < t.dropLast.length := by
            rw [List.idxOf_append, if_pos hc]; exact List.idxOf_lt_length_iff.2 hc
          rw [← hlast, hidx, List.length_dropLast] at h1
          omega
        · intro he; subst he
          have h63 : 63 ∈ t := mem_dropLast hc
          have : (qmarks.any fun q => t.contains q) = true := by
            simp only [qmarks, List.any_cons, Bool.or_eq_true]
            exact Or.inl (by simpa using h63)
          rw [this] at hq
          cases hq
      rw [hlast, List.dropLast_concat]
      exact globMatch_prefix _ hfree s
    · injection h with hk; cases hk
  · injection h with hk; cases hk


/-- instances: `n:=<5` reads `n ≤ 5`; `al*` is a prefix, `b*a*` stays a wildcard -/
example : makeRange [53] .el = .range none (some [53]) false false none ∧
    toPrefix (.text .wild [97, 108, 42] none 1) = .text .prefix [97, 108] none 1 ∧
    toPrefix (.text .wild [98, 42, 97, 42] none 1) = .text .wild [98, 42, 97, 42] none 1 := by
  refine ⟨rfl, ?_, ?_⟩ <;> simp [toPrefix, qmarks] <;> decide

/-! ## Round 2: from the tree to the query object -/

theorem outSeq_full (gk : GK) (hgk : gk = .and ∨ gk = .or) (items : List Expr) (hne : items ≠ [])
    (hwf : ∀ e ∈ items, e.wf = true) : (outSeq gk items).full = true := by
  have hs := stripParen_wf items hwf
  have hne' : stripParen items ≠ [] := by
    unfold stripParen
    split
    · next inner =>
      have := hwf (.paren inner) (by simp)
      rw [wf_paren] at this
      exact this.1
    · exact hne
  unfold outSeq
  apply full_of_all
  · rcases hgk with h1 | h1 <;> subst h1 <;> simpa using hne'
  · intro x hx
    obtain ⟨e, he, rfl⟩ := List.mem_map.1 hx
    exact out_full gk hgk e (hs e he)

/-- `C16.precedence`, end to end in the model: for a well-formed query all of whose leaves yield a
    query, `query()` on the tree the pipeline builds returns a query object, `parse` keeps it
    (`finish`), and it selects exactly the documents the reading of the expression selects. -/
theorem precedence_query (gk : GK) (hgk : gk = .and ∨ gk = .or) (items : List Expr) (hne : items ≠ [])
    (hwf : ∀ e ∈ items, e.wf = true) (o : Node → LeafRes) (v : Node → Bool) (w : Nat → Bool)
    (ho : ∀ n, n.isLeaf = true → ∃ id, o n = .q id true ∧ w id = v n) :
    ∃ q, query o (outSeq gk items) = .ok (some q) ∧ finish (some q) = q ∧
      Q.eval w q = evalSeq gk v items := by
  obtain ⟨q, hq, ht, he⟩ := WM.Parser.query_meaning o v w ho _ (outSeq_full gk hgk items hne hwf)
  exact ⟨q, hq, by simp [finish, ht], by rw [he, precedence_meaning gk hgk items hwf v]⟩

/-- `C16.precedence`, query stage (`WM.Parser.query_meaning` with its conclusion spelt out): on a
    tree whose groups have the operands their class needs and whose leaves all yield a query,
    `GroupNode.query` / `BinaryGroup.query` / `Wrapper.query` return a truthy query object that
    selects exactly the documents the tree's reading (`Node.eval`) selects. -/
theorem query_meaning (o : Node → LeafRes) (v : Node → Bool) (w : Nat → Bool)
    (ho : ∀ n, n.isLeaf = true → ∃ id, o n = .q id true ∧ w id = v n) (t : Node) (hf : t.full = true) :
    ∃ q, query o t = .ok (some q) ∧ q.truthy = true ∧ Q.eval w q = Node.eval v t :=
  WM.Parser.query_meaning o v w ho t hf

/-! The `None` cases of the group nodes' `query()` (a leaf yields `None` when the analyzer removes
    all of its text, e.g. a stop word): they are where the tree's reading and the query part. -/

/-- `NOT <nothing>` is nothing (not "everything") -/
theorem query_not_none (o : Node → LeafRes) (n0 : Node) (rest : List Node) (b : Rat)
    (h : query o n0 = .ok none) : query o (.group .not (n0 :: rest) b) = .ok none := by
  rw [query]; simp [h, bind, Except.bind, pure, Except.pure]

/-- a binary group with one operand that yields nothing is the other operand: `a ANDNOT <nothing>`
    is `a`, and `<nothing> ANDNOT b` is `b` (not "nothing") -/
theorem query_binary_none (o : Node → LeafRes) (k : GK) (hk : k = .andnot ∨ k = .andmaybe ∨ k = .require)
    (a c : Node) (b : Rat) (q : Q) :
    (query o a = .ok (some q) → query o c = .ok none → query o (.group k [a, c] b) = .ok (some q)) ∧
    (query o a = .ok none → query o c = .ok (some q) → query o (.group k [a, c] b) = .ok (some q)) ∧
    (query o a = .ok none → query o c = .ok none → query o (.group k [a, c] b) = .ok (some .null)) := by
  rcases hk with h | h | h <;> subst h <;> refine ⟨?_, ?_, ?_⟩ <;> intro h1 h2 <;>
    (rw [query]; simp [h1, h2, bind, Except.bind, pure, Except.pure])

/-- And/Or/DisMax drop the members that yield nothing -/
theorem query_compound_none (o : Node → LeafRes) (k : GK) (hk : k = .and ∨ k = .or ∨ k = .dismax)
    (ns : List Node) (b : Rat) (rs : List (Option Q)) (h : ns.mapM (query o) = .ok rs) :
    query o (.group k ns b) = .ok (some (.compound k (rs.filterMap id) b)) := by
  rcases hk with h1 | h1 | h1 <;> subst h1 <;> rw [query] <;>
    first | simp [h, bind, Except.bind, pure, Except.pure] | (intro h'; cases h')

/-! ## Round 3: from the query string to the node list (`QueryParser.tag`) -/

/-- `C16.total` (tagging), exceptions: `tag()` returns a node list for every string and every
    list of taggers whose matches are non-empty; the brackets, white space and operator taggers of
    the shipped plug-ins are modelled and satisfy this outright (`Tagger.Forward` is `True` for
    them, `lit ≠ []` for an operator), for the other taggers (real regular expressions) it is the
    hypothesis that their match is not the empty string.  Whatever the taggers do, the only
    exception the loop can raise is its own "did not move cursor forward" `Exception`. -/
theorem tag_total (tgs : List Tagger) (text : List QChar) :
    ((∀ t ∈ tgs, t.Forward) → ∃ out, tag tgs text = .ok out) ∧
    (∀ e, tag tgs text = .error e → e = .other) :=
  ⟨fun hf => tagLoop_total tgs text hf 0 0 [], fun e h => tagLoop_err tgs text 0 0 [] e h⟩

/-- `C16.total` (tagging), losslessness: the character ranges of the returned nodes tile the string
    (consecutive, non-empty, from 0 to `len(text)`; so the nodes' source texts concatenate to the
    input), and every node is either the `WordNode` of the text between two matches or the answer of
    the first tagger (in priority order) that matches at the place where the node starts. -/
theorem tag_lossless (tgs : List Tagger) (text : List QChar) (hb : ∀ t ∈ tgs, t.Bounded text)
    (out : List Tagged) (h : tag tgs text = .ok out) :
    Tiles 0 out text.length ∧ sourceOf text out = text ∧ ∀ x ∈ out, FromTag tgs text x := by
  obtain ⟨h1, h2⟩ := tagLoop_spec tgs text hb 0 0 [] out 0 rfl (Nat.le_refl _) (Nat.zero_le _)
    (fun x hx => by cases hx) h
  refine ⟨h1, ?_, h2⟩
  have := (Tiles_source text 0 text.length out h1 (Nat.le_refl _)).2
  simpa using this

/-- every node of the tagged list satisfies `P` as soon as words do and every tagger's answers do -/
theorem tag_kinds (P : Node → Bool) (hword : ∀ t, P (.text .word t none 1) = true)
    (tgs : List Tagger) (text : List QChar) (hb : ∀ t ∈ tgs, t.Bounded text)
    (hP : ∀ t ∈ tgs, ∀ p h, t.matchAt text p = some h → P h.node = true)
    (out : List Tagged) (h : tag tgs text = .ok out) : ∀ n ∈ out.map (·.node), P n = true := by
  intro n hn
  obtain ⟨x, hx, rfl⟩ := List.mem_map.1 hn
  rcases (tag_lossless tgs text hb out h).2.2 x hx with he | ⟨hit, hfh, he⟩
  · rw [he]; exact hword _
  · obtain ⟨t, ht, hm⟩ := firstHit_mem hfh
    rw [he]; exact hP t ht _ _ hm

/-- what the tag loop needs to know about the taggers of the default plug-in set: brackets, white
    space, left-associative operators of the six default (class, group) pairs; any other tagger
    answers with one of the node kinds of `defaultTagged` -/
def defaultTagger : Tagger → Prop
  | .opn | .cls | .ws => True
  | .op _ _ _ t g la => la = true ∧ defaultOps.any (fun o => o.t == t && o.g == g) = true
  | .ext f => ∀ p h, f p = some h → defaultTagged h.node = true

theorem defaultTagger_hits {t : Tagger} (ht : defaultTagger t) (text : List QChar) (p : Nat) (h : TagHit)
    (hm : t.matchAt text p = some h) : defaultTagged h.node = true := by
  cases t with
  | opn => simp only [Tagger.matchAt] at hm; split at hm <;> first | (injection hm with hm; subst hm; rfl) | cases hm
  | cls => simp only [Tagger.matchAt] at hm; split at hm <;> first | (injection hm with hm; subst hm; rfl) | cases hm
  | ws => simp only [Tagger.matchAt] at hm; split at hm <;> first | (injection hm with hm; subst hm; rfl) | cases hm
  | op lit a b t g la =>
    simp only [Tagger.matchAt] at hm
    split at hm
    · injection hm with hm; subst hm
      simp only [defaultTagger] at ht
      simp only [defaultTagged, ht.1, Bool.true_and]
      exact ht.2
    · cases hm
  | ext f => exact ht p h hm

/-- `C16.total` from the query *string* for the default plug-in set: the hypothesis `hns` of
    `total` ("the taggers emit a flat list of the default node kinds") is discharged by the model
    of `tag()`; what remains assumed is, per tagger that is not modelled (a real regular
    expression), that its match is non-empty, ends inside the string and creates a node of its
    own kind. -/
theorem total_text (c : Cfg) (hp : priorized c.filters = defaultPipeline) (hops : c.ops = defaultOps)
    (hgrp : c.group.hasBoost = true) (tgs : List Tagger) (text : List QChar)
    (hfw : ∀ t ∈ tgs, t.Forward) (hb : ∀ t ∈ tgs, t.Bounded text) (hk : ∀ t ∈ tgs, defaultTagger t)
    (o : Node → LeafRes) (ho : leavesOk o) :
    ∃ out, tag tgs text = .ok out ∧ Tiles 0 out text.length ∧
      ∃ t, filterize c (out.map (·.node)) = .ok t ∧ clean t = true ∧ allowed (query o t) := by
  obtain ⟨out, hout⟩ := (tag_total tgs text).1 hfw
  have hns := tag_kinds defaultTagged (fun _ => rfl) tgs text hb
    (fun t ht p h hm => defaultTagger_hits (hk t ht) text p h hm) out hout
  exact ⟨out, hout, (tag_lossless tgs text hb out hout).1, total c hp hops hgrp _ hns o ho⟩

/-- the same for `SimpleParser` / `DisMaxParser` (taggers: white space, and the not-modelled plus /
    minus and phrase taggers) -/
theorem total_text_simple (c : Cfg) (multi : Bool)
    (hp : priorized c.filters = (if multi then [.multifield] else []) ++ [.rmws, .rmws, .plusminus])
    (hgrp : c.group.hasBoost = true) (hmf : c.mfGroup.hasBoost = true)
    (fs : List (Nat → Option TagHit)) (text : List QChar)
    (hfw : ∀ f ∈ fs, (Tagger.ext f).Forward) (hb : ∀ f ∈ fs, (Tagger.ext f).Bounded text)
    (hk : ∀ f ∈ fs, ∀ p h, f p = some h → simpleTagged h.node = true)
    (pre post : List (Nat → Option TagHit)) (hfs : fs = pre ++ post)
    (o : Node → LeafRes) (ho : leavesOk o) :
    ∃ out, tag (pre.map .ext ++ .ws :: post.map .ext) text = .ok out ∧ Tiles 0 out text.length ∧
      ∃ t, filterize c (out.map (·.node)) = .ok t ∧ clean t = true ∧ allowed (query o t) := by
  subst hfs
  have hmem : ∀ t ∈ pre.map Tagger.ext ++ Tagger.ws :: post.map Tagger.ext, t = .ws ∨ ∃ f ∈ pre ++ post, t = .ext f := by
    intro t ht
    simp only [List.mem_append, List.mem_cons, List.mem_map] at ht
    rcases ht with ⟨f, hf, rfl⟩ | rfl | ⟨f, hf, rfl⟩
    · exact Or.inr ⟨f, by simp [hf], rfl⟩
    · exact Or.inl rfl
    · exact Or.inr ⟨f, by simp [hf], rfl⟩
  have hfw' : ∀ t ∈ pre.map Tagger.ext ++ Tagger.ws :: post.map Tagger.ext, t.Forward := by
    intro t ht
    rcases hmem t ht with rfl | ⟨f, hf, rfl⟩
    · trivial
    · exact hfw f hf
  have hb' : ∀ t ∈ pre.map Tagger.ext ++ Tagger.ws :: post.map Tagger.ext, t.Bounded text := by
    intro t ht
    rcases hmem t ht with rfl | ⟨f, hf, rfl⟩
    · trivial
    · exact hb f hf
  obtain ⟨out, hout⟩ := (tag_total _ text).1 hfw'
  have hns := tag_kinds simpleTagged (fun _ => rfl) _ text hb'
    (fun t ht p h hm => by
      rcases hmem t ht with rfl | ⟨f, hf, rfl⟩
      · simp only [Tagger.matchAt] at hm
        split at hm <;> first | (injection hm with hm; subst hm; rfl) | cases hm
      · exact hk f hf p h hm) out hout
  exact ⟨out, hout, (tag_lossless _ text hb' out hout).1, total_simple c multi hp hgrp hmf _ hns o ho⟩

/-- instance: `a AND (b)` through the modelled taggers alone (no tagger for words: the text between
    matches becomes `WordNode`s): seven nodes that tile the nine characters -/
example :
    let ch (c : Nat) : QChar := ⟨c, c = 32⟩
    let tgs : List Tagger := [.ws, .opn, .cls, .op [65, 78, 68] false false .inf .and true]
    (∀ t ∈ tgs, t.Forward) ∧ (∀ t ∈ tgs, defaultTagger t) ∧
    tag tgs ([97, 32, 65, 78, 68, 32, 40, 98, 41].map ch)
      = .ok [⟨.text .word [97] none 1, 0, 1⟩, ⟨.ws, 1, 2⟩, ⟨.op .inf .and true [65, 78, 68], 2, 5⟩, ⟨.ws, 5, 6⟩,
             ⟨.opn, 6, 7⟩, ⟨.text .word [98] none 1, 7, 8⟩, ⟨.cls, 8, 9⟩] := by
  refine ⟨?_, ?_, ?_⟩
  · intro t ht
    simp only [List.mem_cons, List.not_mem_nil, or_false] at ht
    rcases ht with rfl | rfl | rfl | rfl <;> simp [Tagger.Forward]
  · intro t ht
    simp only [List.mem_cons, List.not_mem_nil, or_false] at ht
    rcases ht with rfl | rfl | rfl | rfl <;> simp [defaultTagger, defaultOps]
  · simp [tag, tagLoop, firstHit, Tagger.matchAt, codeAt, spaceAt, spaceRun, litAt, opBefore, inter]

/-- the exception of the loop is reachable: a tagger that matches the empty string -/
example : tag [.ext fun p => some ⟨.ws, p, true⟩] [⟨97, false⟩] = .error .other := by
  simp [tag, tagLoop, firstHit, Tagger.matchAt]

end WM.C16
