import WM.Lemmas.NumLists
/-! C20 (number codecs): delta, growable array, fixed-width and varint number lists decode to what
was encoded. -/
set_option linter.unusedSimpArgs false
namespace WM.C20
open WM.NumLists

/-- `delta_decode(delta_encode(x)) == x` for every integer list (sorted or not). -/
theorem delta_roundtrip (l : List Int) : deltaDecode (deltaEncode l) = l :=
  deltaDecodeFrom_encodeFrom 0 l

/-- … and the other way round (the two generators are mutually inverse). -/
theorem delta_roundtrip_inv (l : List Int) : deltaEncode (deltaDecode l) = l :=
  deltaEncodeFrom_decodeFrom 0 l

example : deltaEncode [3, 10, 10, 4] = [3, 7, 0, -6] ∧ deltaDecode [3, 7, 0, -6] = [3, 10, 10, 4] := by
  decide

/-- Fixed-width little-endian lists (`ByteEncoding`/`UShortEncoding`/`UIntEncoding`, any width):
    numbers inside the width are written, and `read_nums` returns them and leaves the rest. -/
theorem fixed_roundtrip (size : Nat) (xs rest : List Nat) (h : ∀ x ∈ xs, x < 256 ^ size) :
    ∃ bs, writeFixed size xs = some bs ∧ bs.length = size * xs.length ∧
      readFixed size xs.length (bs ++ rest) = some (xs, rest) := readFixed_write size xs rest h

/-- `FixedEncoding.get(f, pos, i)` is the `i`-th number written at `pos`. -/
theorem fixed_get (size : Nat) (pre xs rest : List Nat) (h : ∀ x ∈ xs, x < 256 ^ size) (i : Nat)
    (hi : i < xs.length) :
    ∃ bs, writeFixed size xs = some bs ∧ getFixed size (pre ++ bs ++ rest) pre.length i = some xs[i] := by
  refine ⟨_, writeFixed_eq_flatMap size xs h, ?_⟩
  unfold getFixed
  simp only
  have hd : (pre ++ xs.flatMap (encodeLE size) ++ rest).drop (pre.length + i * size)
      = (xs.flatMap (encodeLE size) ++ rest).drop (i * size) := by
    rw [List.append_assoc, ← List.drop_drop, List.drop_left]
  have hlen : i * size + size ≤ (xs.flatMap (encodeLE size)).length := by
    have : (xs.flatMap (encodeLE size)).length = size * xs.length := by
      rcases readFixed_write size xs [] h with ⟨bs, hw, hl, _⟩
      rw [writeFixed_eq_flatMap size xs h] at hw
      injection hw with hw; rw [hw]; exact hl
    rw [this]
    calc i * size + size = size * (i + 1) := by rw [Nat.mul_comm, Nat.mul_add]; omega
      _ ≤ size * xs.length := Nat.mul_le_mul_left _ hi
  have hch : ((xs.flatMap (encodeLE size) ++ rest).drop (i * size)).take size = encodeLE size xs[i] := by
    rw [List.drop_append_of_le_length (by omega), List.take_append_of_le_length (by
      rw [List.length_drop]; omega)]
    have := drop_take_flatMap (encodeLE size) size (length_encodeLE size) xs i
    rw [this, List.getElem?_eq_getElem hi]
  rw [hd, hch, length_encodeLE]
  simp [decodeLE_encodeLE size _ (h _ (List.getElem_mem hi))]

/-- `Varints.read_nums(write_nums(xs))`: every list of naturals, any unread suffix. -/
theorem varints_roundtrip (xs rest : List Nat) :
    readVarints xs.length (writeVarints xs ++ rest) = some (xs, rest) := readVarints_write xs rest

example : writeFixed 2 [1, 65535] = some [1, 0, 255, 255]
    ∧ readFixed 2 2 [1, 0, 255, 255, 9] = some ([1, 65535], [9]) := by decide

/-! ### GrowableArray -/

/-- Contents are preserved by every append (with or without a retype); a failed append adds nothing. -/
theorem growable_contents (g : GA) (n : Int) :
    (g.append n).1.items = if (g.append n).2 then g.items else g.items ++ [n] := by
  unfold GA.append
  split
  · rfl
  · split
    · rfl
    · split
      · split <;> rfl
      · rfl

/-- The typecode always fits every stored item. -/
theorem growable_fits (g : GA) (n : Int) (h : ∀ x ∈ g.items, g.tc.fits x = true) :
    ∀ x ∈ (g.append n).1.items, (g.append n).1.tc.fits x = true := by
  unfold GA.append
  split
  · next hfit =>
    intro x hx
    simp only [List.mem_append, List.mem_singleton] at hx
    rcases hx with hx | rfl
    · exact h x hx
    · exact hfit
  · split
    · exact h
    · next tc' _ =>
      split
      · next hall =>
        rw [List.all_eq_true] at hall
        split
        · next hfit =>
          intro x hx
          simp only [List.mem_append, List.mem_singleton] at hx
          rcases hx with hx | rfl
          · exact hall x hx
          · exact hfit
        · exact hall
      · exact h

/-- `extend` without an error stores exactly the given numbers after the old ones. -/
theorem growable_extend (g : GA) (ns : List Int) (h : (g.extend ns).2 = false) :
    (g.extend ns).1.items = g.items ++ ns := by
  induction ns generalizing g with
  | nil => simp [GA.extend]
  | cons n t ih =>
    unfold GA.extend at h ⊢
    have hc := growable_contents g n
    cases ha : g.append n with
    | mk g' e =>
      rw [ha] at hc h
      cases e with
      | true => simp at h
      | false =>
        simp only at h hc ⊢
        rw [ih g' h]
        simp only [Bool.false_eq_true, ↓reduceIte] at hc
        rw [hc]; simp

/-- Retyping thresholds B/H → H → i → I → q: the typecode chosen for a number that does not fit. -/
theorem growable_thresholds (allowLongs : Bool) (n : Int) :
    retypeCode allowLongs n =
      if n < 65536 then some .H
      else if n < 2147483648 then some .i
      else if n < 4294967296 then some .I
      else if allowLongs then some .q else none := by
  unfold retypeCode; rfl

/-- Appending naturals below 2^63 to an array of naturals never fails (with `allow_longs`), and
    below 2^32 never fails at all: the position index of a hash file always grows. -/
theorem growable_nat_never_fails (g : GA) (n : Int) (h : ∀ x ∈ g.items, 0 ≤ x ∧ g.tc.fits x = true)
    (hn : 0 ≤ n) (hlim : n < 2 ^ 63) (hl : g.allowLongs = true ∨ n < 2 ^ 32) :
    (g.append n).2 = false := by
  unfold GA.append
  split
  · rfl
  · next hnf =>
    have hcapn : cap g.tc ≤ n := cap_le_of_not_fits g.tc n hn hnf
    have key : ∀ tc' : TC, cap tc' > n → (g.items.all tc'.fits = true ∧ tc'.fits n = true) := by
      intro tc' hc
      refine ⟨?_, fits_of_nat tc' n hn hc⟩
      rw [List.all_eq_true]
      intro x hx
      have h1 := (h x hx).1
      have h2 := lt_cap_of_fits _ _ (h x hx).2
      exact fits_of_nat tc' x h1 (by omega)
    unfold retypeCode
    by_cases h1 : n < 2 ^ 16
    · have := key .H (by rw [cap_H]; omega)
      simp only [h1, ↓reduceIte, this.1, this.2]
    · by_cases h2 : n < 2 ^ 31
      · have := key .i (by rw [cap_i]; omega)
        simp only [h1, h2, ↓reduceIte, this.1, this.2]
      · by_cases h3 : n < 2 ^ 32
        · have := key .I (by rw [cap_I]; omega)
          simp only [h1, h2, h3, ↓reduceIte, this.1, this.2]
        · have hal : g.allowLongs = true := by
            rcases hl with hl | hl
            · exact hl
            · exact absurd hl h3
          have := key .q (by rw [cap_q]; omega)
          simp only [h1, h2, h3, hal, ↓reduceIte, this.1, this.2]

/-- Reading item `k` back from the bytes `to_file` wrote (what `OrderedHashReader._get_pos` does)
    yields the stored number, for every typecode. -/
theorem growable_readback (g : GA) (h : ∀ x ∈ g.items, g.tc.fits x = true) (k : Nat) (hk : k < g.items.length) :
    readItem g.tc g.toBytes k = some g.items[k] := by
  unfold readItem GA.toBytes
  simp only
  have := drop_take_flatMap (fun x => encodeBE g.tc.size (toUnsigned g.tc.size x)) g.tc.size
    (fun a => length_encodeBE _ _) g.items k
  rw [this, List.getElem?_eq_getElem hk]
  simp only [length_encodeBE, ↓reduceIte]
  rw [decodeBE_encodeBE _ _ (toUnsigned_lt g.tc _)]
  congr 1
  exact value_roundtrip g.tc _ (h _ (List.getElem_mem hk))

example : ((GA.mk .H [] true).extend [1, 65535, 65536, 4294967295, 4294967296]).1.tc = .q
    ∧ ((GA.mk .H [] true).extend [1, 65535, 65536]).1.tc = .i
    ∧ ((GA.mk .H [] false).extend [1, 4294967296]) = (GA.mk .H [1] false, true) := by decide

end WM.C20
