import WM.Lemmas.CollectTop
/-!
C05 — limiting a search to the top N never changes which hits win or their scores.

`collectTop` is `Searcher.search_with_collector(q, TopCollector(limit, usequality, replace=…))`
followed by `results()`, over any number of segments, with the three optimisations of
`ScoredCollector.matches` (periodic `replace(minscore)`, `skip_to_quality(minscore)` on block change,
heap admission) driven by an **arbitrary schedule** `sched` of drop wishes that the model honours only
within the C12 contract (a dropped posting scores `≤` the threshold the collector passed).
-/
namespace WM.C05
open WM.Rank WM.Collect

/-- **C05.topk.** For every configuration (`limit ≥ 1`, any `replace` period, quality on/off,
    `final()` hook or not), every segment layout with globally ascending document numbers, every
    schedule of drops and every assignment of "entered a new block" flags: the limited search
    returns exactly the first `limit` entries of the exhaustive ranking (score descending, document
    ascending on ties) — provided every posting scores `> 0`. The guard is real (`minscore` starts
    at 0, so a posting scoring `≤ 0` may legally be dropped before the heap is full), see
    `positivity_guard_needed` below. -/
theorem topk (cfg : Cfg) (final : Nat → Rat → Rat) (segs : List Seg) (sched : List Step)
    (hk : 1 ≤ cfg.limit)
    (hwf : (globalDocs segs).Pairwise (· < ·))
    (hpos : ∀ s ∈ segs, ∀ p ∈ s.postings, 0 < p.score) :
    collectTop cfg final segs sched = .ok (topK cfg.limit (allHits cfg final segs)) := by
  have hfc : FilterCollects cfg final (fun st : TopState => st) (topConsume cfg final) (fun _ => true) :=
    ⟨fun c off p t' _ h => ⟨t', h, rfl⟩, fun c off p h => by simp at h⟩
  obtain ⟨st', sched', tr', losers', hrun, hinv', hperm'⟩ :=
    runSegs_gen cfg final (fun st : TopState => st) (topConsume cfg final) (fun _ => true) hfc hk
      segs sched {} {} [] (inv_init _ _) (Or.inl rfl) hpos hwf
  unfold collectTop
  simp only [hrun]
  congr 1
  apply results_eq_topK hinv'
  have hall : keptHits cfg final (fun _ => true) segs = allHits cfg final segs := by
    simp only [keptHits, allHits, keptMap]
    congr 1
    funext s
    congr 1
    exact List.filter_eq_self.mpr (fun _ _ => rfl)
  rw [hall] at hperm'
  simpa using hperm'

/-- The filter of a `Wrap` as a predicate on global document numbers
    (`FilterCollector`: allowed and not restricted). -/
def passes (w : Wrap) (g : Nat) : Bool := !refuses w.allow w.restrict g

/-- Full statement of **C05.with_wrappers**: with any combination of filter, mask and collapsing
    (terms recording changes nothing the collectors see) the limited search returns the first
    `limit` entries of the exhaustive ranking *of the wrapped search*: the hits that pass the filter,
    collapsed to the best `climit` per key. Proved below for filter/mask (`with_wrappers_partial`);
    open for collapsing without an order facet; **false** for collapsing with an order facet
    (`collapse_order_counterexample`): a document the heap has forgotten cannot come back when the
    order facet evicts a higher-scoring document of its key. -/
def with_wrappers_full : Prop :=
  ∀ (cfg : Cfg) (final : Nat → Rat → Rat) (w : Wrap) (segs : List Seg) (sched : List Step),
    1 ≤ cfg.limit → (globalDocs segs).Pairwise (· < ·) → (∀ s ∈ segs, ∀ p ∈ s.postings, 0 < p.score) →
    (∀ ck cl o, w.collapse = some (ck, cl, o) → 1 ≤ cl) →
    ∃ hs st tr, collectStack cfg final w segs sched = .ok (hs, st, tr) ∧
      ∃ hsAll stAll trAll,
        collectStack { cfg with limit := (allHits cfg final segs).length + 1 } final w segs [] = .ok (hsAll, stAll, trAll) ∧
        hs = hsAll.take cfg.limit

/-- **C05.with_wrappers (filter, mask, terms).** Under a `FilterCollector` with any allow and
    restrict sets (query, `Results` or id set — they reach the collector as id sets) wrapped around
    the `TopCollector`, for every schedule of drops the limited search returns the first `limit`
    entries of the ranking of the hits that pass the filter, and `filtered_count` plus the number
    of documents seen by the `TopCollector` never exceeds the number of hits. -/
theorem with_wrappers_partial (cfg : Cfg) (final : Nat → Rat → Rat) (allow restrict : Option (List Nat))
    (segs : List Seg) (sched : List Step)
    (hk : 1 ≤ cfg.limit)
    (hwf : (globalDocs segs).Pairwise (· < ·))
    (hpos : ∀ s ∈ segs, ∀ p ∈ s.postings, 0 < p.score) :
    ∃ st tr, collectStack cfg final { allow := allow, restrict := restrict } segs sched
        = .ok (topK cfg.limit ((allHits cfg final segs).filter
            (fun h => passes { allow := allow, restrict := restrict } h.doc)), st, tr) := by
  let w : Wrap := { allow := allow, restrict := restrict }
  have hfc : FilterCollects cfg final (fun st : StackSt => st.top) (stackConsume cfg final w) (passes w) := by
    constructor
    · intro c off p t' hkeep hc
      have hr : refuses w.allow w.restrict (off + p.doc) = false := by
        simpa [passes] using hkeep
      refine ⟨{ c with top := t' }, ?_, rfl⟩
      simp only [stackConsume, hr]
      simp [w, hc]
    · intro c off p hkeep
      have hr : refuses w.allow w.restrict (off + p.doc) = true := by
        simpa [passes] using hkeep
      refine ⟨{ c with filtered := c.filtered + 1 }, ?_, rfl⟩
      simp only [stackConsume, hr]
      simp
  obtain ⟨st', sched', tr', losers', hrun, hinv', hperm'⟩ :=
    runSegs_gen cfg final (fun st : StackSt => st.top) (stackConsume cfg final w) (passes w) hfc hk
      segs sched {} {} [] (inv_init _ _) (Or.inl rfl) hpos hwf
  refine ⟨st', tr', ?_⟩
  have hrun' : runSegs cfg (stackConsume cfg final { allow := allow, restrict := restrict })
      (fun st => st.top.minscore) segs sched {} {} = .ok (st', sched', tr') := hrun
  unfold collectStack
  rw [hrun']
  dsimp only
  congr 2
  apply results_eq_topK hinv'
  have hall : keptHits cfg final (passes w) segs =
      (allHits cfg final segs).filter (fun h => passes w h.doc) := by
    simp only [keptHits, allHits, keptMap, List.filter_flatMap]
    congr 1
    funext s
    rw [List.filter_map]
    congr 1
  rw [hall] at hperm'
  simpa using hperm'

/-- Non-vacuity of `with_wrappers_partial`: a filter that really refuses (doc 1 not allowed, doc 12
    masked) on two segments with a dropping schedule. -/
example :
    let segs : List Seg := [⟨0, true, [⟨0, 1, true⟩, ⟨1, 3, false⟩, ⟨2, 2, true⟩]⟩, ⟨10, true, [⟨0, 5, true⟩, ⟨2, 1, true⟩]⟩]
    let w : Wrap := { allow := some [0, 2, 10, 12], restrict := some [12] }
    (globalDocs segs).Pairwise (· < ·) ∧ (∀ s ∈ segs, ∀ p ∈ s.postings, 0 < p.score) ∧
      ((allHits { limit := 2 } (fun _ s => s) segs).filter (fun h => passes w h.doc)).map (·.doc) = [0, 2, 10] := by
  decide

private def ckeyX : Nat → Option Int :=
  fun g => if g = 0 then some 1 else if g = 1 then some 2 else if g = 2 then some 3 else if g = 3 then some 2 else none
private def ordX : Nat → Key := fun g => if g = 0 then [5] else if g = 1 then [9] else if g = 2 then [5] else [1]
private def segsX : List Seg := [⟨0, true, [⟨0, 5, true⟩, ⟨1, 4, true⟩, ⟨2, 3, true⟩, ⟨3, 1, true⟩]⟩]
private def wX : Wrap := { collapse := some (ckeyX, 1, some ordX) }

local macro "step_loop" : tactic => `(tactic| (rw [matchesLoop]; simp +decide [replacePhase, skipPhase,
  dropMasked, skipDrop, useBlockQuality, Step.none, nextFlag, stackConsume, refuses, toHit,
  TopState.collect, TopState.remove, heapPush, heapLe, dictGet, dictUpdate, insortKD, kdLe, keyLe, ckeyX, ordX]))

/-- **The full statement is false for `collapse_order`** (recorded finding
    `CollapseCollector+TopCollector:collapse_order-evicts-a-higher-score`): four documents scoring
    5, 4, 3, 1 with collapse keys x, y, z, y and order values 5, 9, 5, 1; `limit = 2`,
    `collapse_limit = 1`. Exhaustively the collapsed ranking is docs 0, 2, 3 (doc 3 replaces doc 1
    under the order facet); the limited search has forgotten doc 2 (score 3 ≤ heap minimum 4) when
    doc 3 evicts doc 1, and returns docs 0, 3. No schedule of drops is involved. -/
theorem collapse_order_counterexample : ¬ with_wrappers_full := by
  intro h
  have hlim : ∃ st tr, collectStack { limit := 2 } (fun _ s => s) wX segsX [] = .ok ([⟨0, 5⟩, ⟨3, 1⟩], st, tr) := by
    simp only [collectStack, segsX, runSegs, wX]
    step_loop
    step_loop
    step_loop
    step_loop
    step_loop
  have hall : ∃ st tr, collectStack { limit := 5 } (fun _ s => s) wX segsX [] = .ok ([⟨0, 5⟩, ⟨2, 3⟩, ⟨3, 1⟩], st, tr) := by
    simp only [collectStack, segsX, runSegs, wX]
    step_loop
    step_loop
    step_loop
    step_loop
    step_loop
  obtain ⟨hs, st, tr, h1, hsAll, stAll, trAll, h2, h3⟩ :=
    h { limit := 2 } (fun _ s => s) wX segsX [] (by decide) (by decide) (by decide)
      (by intro ck cl o hw; simp [wX] at hw; omega)
  obtain ⟨st1, tr1, e1⟩ := hlim
  obtain ⟨st2, tr2, e2⟩ := hall
  have hlen : (allHits { limit := 2 } (fun _ s => s) segsX).length + 1 = 5 := by decide
  simp only [hlen] at h2
  rw [e1] at h1
  rw [e2] at h2
  simp only [Except.ok.injEq, Prod.mk.injEq] at h1 h2
  rw [← h1.1, ← h2.1] at h3
  simp at h3

/-- The hypotheses of `topk` are satisfiable on a non-trivial instance: two segments, block flags,
    ties, a schedule that really drops (`replace` mask and `skip` count), `limit = 2 <` number of hits. -/
example :
    let segs : List Seg := [⟨0, true, [⟨0, 1, true⟩, ⟨1, 3, false⟩, ⟨2, 2, true⟩, ⟨3, 2, false⟩]⟩,
                            ⟨10, true, [⟨0, 5, true⟩, ⟨2, 1, true⟩]⟩]
    (1 ≤ ({ limit := 2, replace := 1 } : Cfg).limit) ∧ (globalDocs segs).Pairwise (· < ·) ∧
      (∀ s ∈ segs, ∀ p ∈ s.postings, 0 < p.score) ∧ (allHits { limit := 2 } (fun _ s => s) segs).length = 6 := by
  decide

/-- The guard `0 < score` of `topk` cannot be removed: with a posting scoring 0 a legal schedule
    (drop it under the initial threshold `minscore = 0`, before the heap is full) makes the limited
    search lose a document that the exhaustive ranking has. (On the real code this is what
    zero-boost clauses do; the E2E stream of the check runs that region on the implementation.) -/
theorem positivity_guard_needed :
    ∃ (cfg : Cfg) (segs : List Seg) (sched : List Step),
      1 ≤ cfg.limit ∧ (globalDocs segs).Pairwise (· < ·) ∧
      collectTop cfg (fun _ s => s) segs sched ≠ .ok (topK cfg.limit (allHits cfg (fun _ s => s) segs)) := by
  refine ⟨{ limit := 2, replace := 1 }, [⟨0, true, [⟨0, 0, true⟩, ⟨1, 1, true⟩]⟩],
    [⟨[true], true, 1⟩], by decide, by decide, ?_⟩
  have h1 : collectTop { limit := 2, replace := 1 } (fun _ s => s)
      [⟨0, true, [⟨0, 0, true⟩, ⟨1, 1, true⟩]⟩] [⟨[true], true, 1⟩] = .ok [⟨1, 1⟩] := by
    simp only [collectTop, runSegs]
    rw [matchesLoop]
    simp +decide [replacePhase, skipPhase, dropMasked, skipDrop, useBlockQuality, Step.none, nextFlag,
      topConsume, toHit, TopState.collect, heapPush]
    rw [matchesLoop]
    simp +decide [TopState.results]
  have h2 : topK 2 (allHits { limit := 2, replace := 1 } (fun _ s => s)
      [⟨0, true, [⟨0, 0, true⟩, ⟨1, 1, true⟩]⟩]) = [⟨1, 1⟩, ⟨0, 0⟩] := by
    apply topK_of_split 2 _ _ []
    · simp only [allHits, toHit, List.flatMap_cons, List.flatMap_nil, List.map_cons, List.map_nil,
        List.append_nil]
      exact List.Perm.swap _ _ _
    · simp +decide
    · simp
    · intro l hl; simp at hl
  rw [h1, h2]
  simp

end WM.C05
