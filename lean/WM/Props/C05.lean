import WM.Lemmas.CollectTop
import WM.Lemmas.CollectUnlimited
import WM.Lemmas.CollectKeeps
/-!
C05 — limiting a search to the top N never changes which hits win or their scores.

`collectTop` is `Searcher.search_with_collector(q, TopCollector(limit, usequality, replace=…))`
followed by `results()`, over any number of segments, with the three optimisations of
`ScoredCollector.matches` (periodic `replace(minscore)`, `skip_to_quality(minscore)` on block change,
heap admission) driven by an **arbitrary schedule** `sched` of wishes — drop this pending posting, or
*lower its score* — that the model honours only within the C12 contract (`WM.Matcher.Keeps`: only a
posting scoring `≤` the threshold the collector passed may be dropped or lowered, a score is never
raised, and a threshold of 0 — "no threshold" — changes nothing). `contract_covered` proves that
these schedules produce every outcome `Keeps` allows. The exhaustive ranking is taken at the scores
the postings had when the search started (`Fresh`: the ghost field `orig` equals `score` on input).
-/
namespace WM.C05
open WM.Rank WM.Collect

/-- **C05.topk.** For every configuration (`limit ≥ 1`, any `replace` period, quality on/off,
    `final()` hook or not), every segment layout with globally ascending document numbers, every
    schedule of drops and score-lowerings and every assignment of "entered a new block" flags: the
    limited search returns exactly the first `limit` entries of the exhaustive ranking (score
    descending, document ascending on ties) — with their exhaustive scores: a posting whose score
    the matcher lowered never gets onto the heap. `hfresh` says that the input postings carry their
    own score as the original score. No assumption on the scores: zero and negative scores are covered. (Round 1
    needed the guard `0 < score`, because the collector called `skip_to_quality(0)` while the heap
    was not full; that call was a defect — zero-scoring documents were skipped — and is repaired by
    `fix: ScoredCollector.matches does not call skip_to_quality() while there is no minimum score`.) -/
theorem topk (cfg : Cfg) (final : Nat → Rat → Rat) (segs : List Seg) (sched : List Step)
    (hk : 1 ≤ cfg.limit)
    (hwf : (globalDocs segs).Pairwise (· < ·)) (hfresh : Fresh segs) :
    collectTop cfg final segs sched = .ok (topK cfg.limit (allHits cfg final segs)) := by
  have hfc : FilterCollects cfg final (fun st : TopState => st) (topConsume cfg final) (fun _ => true) :=
    ⟨fun c off p t' _ h => ⟨t', h, rfl⟩, fun c off p h => by simp at h⟩
  obtain ⟨st', sched', tr', losers', hrun, hinv', hperm'⟩ :=
    runSegs_gen cfg final (fun st : TopState => st) (topConsume cfg final) (fun _ => true) hfc hk
      segs sched {} {} [] (inv_init _ _) (Or.inl rfl) hwf hfresh
  unfold collectTop
  simp only [hrun]
  congr 1
  apply results_eq_topK hinv'
  have hall : keptHits cfg final (fun _ => true) segs = allHits cfg final segs := by
    simp only [keptHits, allHits, keptMap]
    congr 1
    funext s
    congr 1
    exact List.filter_eq_self.mpr (fun _ _ => rfl)
  rw [hall] at hperm'
  simpa using hperm'

theorem allHits_cfg (cfg cfg' : Cfg) (final : Nat → Rat → Rat) (segs : List Seg) (h : cfg.useFinal = cfg'.useFinal) :
    allHits cfg final segs = allHits cfg' final segs := by
  have : toHit cfg final = toHit cfg' final := by
    funext off p; simp only [toHit, h]
  simp only [allHits, this]

/-- **C05.unlimited.** The exhaustive side of the property: `search(q, limit=None)` — the same
    generator with `_use_block_quality() = False` and `minscore` constantly 0 feeding an
    `UnlimitedCollector` — returns, for every schedule, exactly the ranking of all hits (reversed
    as a whole with `reverse=True`). -/
theorem unlimited (replace : Nat) (useFinal : Bool) (final : Nat → Rat → Rat) (reverse : Bool)
    (segs : List Seg) (sched : List Step) :
    collectUnlimited replace useFinal final reverse segs sched =
      .ok (if reverse then
             (rankAll (allHits { limit := 0, replace := replace, usequality := false, useFinal := useFinal } final segs)).reverse
           else rankAll (allHits { limit := 0, replace := replace, usequality := false, useFinal := useFinal } final segs)) := by
  obtain ⟨sched', tr', h⟩ := runSegs_unl
    { limit := 0, replace := replace, usequality := false, useFinal := useFinal } final rfl segs sched [] {}
  unfold collectUnlimited
  simp only [h, List.nil_append]
  rfl

/-- **C05.limited_eq_prefix_of_unlimited** — the property as it is worded: for every `limit ≥ 1`
    the limited search (any schedule of drops within the contract) returns the first `limit` hits of
    what the exhaustive search (any schedule) returns. -/
theorem limited_eq_prefix_of_unlimited (cfg : Cfg) (final : Nat → Rat → Rat) (segs : List Seg)
    (sched sched' : List Step) (hk : 1 ≤ cfg.limit) (hwf : (globalDocs segs).Pairwise (· < ·))
    (hfresh : Fresh segs) :
    ∃ all, collectUnlimited cfg.replace cfg.useFinal final false segs sched' = .ok all ∧
      collectTop cfg final segs sched = .ok (all.take cfg.limit) := by
  refine ⟨_, unlimited cfg.replace cfg.useFinal final false segs sched', ?_⟩
  rw [topk cfg final segs sched hk hwf hfresh]
  simp only [Bool.false_eq_true, if_false, topK]
  rw [allHits_cfg cfg { limit := 0, replace := cfg.replace, usequality := false, useFinal := cfg.useFinal } final segs rfl]

/-- The filter of a `Wrap` as a predicate on global document numbers
    (`FilterCollector`: allowed and not restricted). -/
def passes (w : Wrap) (g : Nat) : Bool := !refuses w.allow w.restrict g

/-- Full statement of **C05.with_wrappers**: with any combination of filter, mask and collapsing
    (terms recording changes nothing the collectors see) the limited search returns the first
    `limit` entries of the exhaustive ranking *of the wrapped search*: the hits that pass the filter,
    collapsed to the best `climit` per key. Proved below for filter/mask (`with_wrappers_partial`);
    open for collapsing without an order facet; **false** for collapsing with an order facet
    (`collapse_order_counterexample`): a document the heap has forgotten cannot come back when the
    order facet evicts a higher-scoring document of its key. -/
def with_wrappers_full : Prop :=
  ∀ (cfg : Cfg) (final : Nat → Rat → Rat) (w : Wrap) (segs : List Seg) (sched : List Step),
    1 ≤ cfg.limit → (globalDocs segs).Pairwise (· < ·) → Fresh segs →
    (∀ ck cl o, w.collapse = some (ck, cl, o) → 1 ≤ cl) →
    ∃ hs st tr, collectStack cfg final w segs sched = .ok (hs, st, tr) ∧
      ∃ hsAll stAll trAll,
        collectStack { cfg with limit := (allHits cfg final segs).length + 1 } final w segs [] = .ok (hsAll, stAll, trAll) ∧
        hs = hsAll.take cfg.limit

/-- **C05.with_wrappers (filter, mask, terms).** Under a `FilterCollector` with any allow and
    restrict sets (query, `Results` or id set — they reach the collector as id sets) wrapped around
    the `TopCollector`, for every schedule of drops the limited search returns the first `limit`
    entries of the ranking of the hits that pass the filter. -/
theorem with_wrappers_partial (cfg : Cfg) (final : Nat → Rat → Rat) (allow restrict : Option (List Nat))
    (segs : List Seg) (sched : List Step)
    (hk : 1 ≤ cfg.limit)
    (hwf : (globalDocs segs).Pairwise (· < ·)) (hfresh : Fresh segs) :
    ∃ st tr, collectStack cfg final { allow := allow, restrict := restrict } segs sched
        = .ok (topK cfg.limit ((allHits cfg final segs).filter
            (fun h => passes { allow := allow, restrict := restrict } h.doc)), st, tr) := by
  let w : Wrap := { allow := allow, restrict := restrict }
  have hfc : FilterCollects cfg final (fun st : StackSt => st.top) (stackConsume cfg final w) (passes w) := by
    constructor
    · intro c off p t' hkeep hc
      have hr : refuses w.allow w.restrict (off + p.doc) = false := by
        simpa [passes] using hkeep
      refine ⟨{ c with top := t' }, ?_, rfl⟩
      simp only [stackConsume, hr]
      simp [w, hc]
    · intro c off p hkeep
      have hr : refuses w.allow w.restrict (off + p.doc) = true := by
        simpa [passes] using hkeep
      refine ⟨{ c with filtered := c.filtered + 1 }, ?_, rfl⟩
      simp only [stackConsume, hr]
      simp
  obtain ⟨st', sched', tr', losers', hrun, hinv', hperm'⟩ :=
    runSegs_gen cfg final (fun st : StackSt => st.top) (stackConsume cfg final w) (passes w) hfc hk
      segs sched {} {} [] (inv_init _ _) (Or.inl rfl) hwf hfresh
  refine ⟨st', tr', ?_⟩
  have hrun' : runSegs cfg (stackConsume cfg final { allow := allow, restrict := restrict })
      (fun st => st.top.minscore) segs sched {} {} = .ok (st', sched', tr') := hrun
  unfold collectStack
  rw [hrun']
  dsimp only
  congr 2
  apply results_eq_topK hinv'
  have hall : keptHits cfg final (passes w) segs =
      (allHits cfg final segs).filter (fun h => passes w h.doc) := by
    simp only [keptHits, allHits, keptMap, List.filter_flatMap]
    congr 1
    funext s
    rw [List.filter_map]
    congr 1
  rw [hall] at hperm'
  simpa using hperm'

/-- Non-vacuity of `with_wrappers_partial`: a filter that really refuses (doc 1 not allowed, doc 12
    masked) on two segments with a dropping schedule. -/
example :
    let segs : List Seg := [⟨0, true, [(.mk' 0 1 true), (.mk' 1 3 false), (.mk' 2 2 true)]⟩, ⟨10, true, [(.mk' 0 5 true), (.mk' 2 1 true)]⟩]
    let w : Wrap := { allow := some [0, 2, 10, 12], restrict := some [12] }
    (globalDocs segs).Pairwise (· < ·) ∧
      ((allHits { limit := 2 } (fun _ s => s) segs).filter (fun h => passes w h.doc)).map (·.doc) = [0, 2, 10] := by
  decide

private def ckeyX : Nat → Option Int :=
  fun g => if g = 0 then some 1 else if g = 1 then some 2 else if g = 2 then some 3 else if g = 3 then some 2 else none
private def ordX : Nat → Key := fun g => if g = 0 then [5] else if g = 1 then [9] else if g = 2 then [5] else [1]
private def segsX : List Seg := [⟨0, true, [(.mk' 0 5 true), (.mk' 1 4 true), (.mk' 2 3 true), (.mk' 3 1 true)]⟩]
private def wX : Wrap := { collapse := some (ckeyX, 1, some ordX) }

local macro "step_loop" : tactic => `(tactic| (rw [matchesLoop]; simp +decide [replacePhase, skipPhase,
  dropMasked, skipDrop, useBlockQuality, Step.none, nextFlag, stackConsume, refuses, toHit,
  TopState.collect, TopState.remove, heapPush, heapLe, dictGet, dictUpdate, insortKD, kdLe, keyLe, ckeyX, ordX]))

/-- **The full statement is false for `collapse_order`** (recorded finding
    `CollapseCollector+TopCollector:collapse_order-evicts-a-higher-score`): four documents scoring
    5, 4, 3, 1 with collapse keys x, y, z, y and order values 5, 9, 5, 1; `limit = 2`,
    `collapse_limit = 1`. Exhaustively the collapsed ranking is docs 0, 2, 3 (doc 3 replaces doc 1
    under the order facet); the limited search has forgotten doc 2 (score 3 ≤ heap minimum 4) when
    doc 3 evicts doc 1, and returns docs 0, 3. No schedule of drops is involved. -/
theorem collapse_order_counterexample : ¬ with_wrappers_full := by
  intro h
  have hlim : ∃ st tr, collectStack { limit := 2 } (fun _ s => s) wX segsX [] = .ok ([⟨0, 5⟩, ⟨3, 1⟩], st, tr) := by
    simp only [collectStack, segsX, runSegs, wX]
    step_loop
    step_loop
    step_loop
    step_loop
    step_loop
  have hall : ∃ st tr, collectStack { limit := 5 } (fun _ s => s) wX segsX [] = .ok ([⟨0, 5⟩, ⟨2, 3⟩, ⟨3, 1⟩], st, tr) := by
    simp only [collectStack, segsX, runSegs, wX]
    step_loop
    step_loop
    step_loop
    step_loop
    step_loop
  obtain ⟨hs, st, tr, h1, hsAll, stAll, trAll, h2, h3⟩ :=
    h { limit := 2 } (fun _ s => s) wX segsX [] (by decide) (by decide) (by decide)
      (by intro ck cl o hw; simp [wX] at hw; omega)
  obtain ⟨st1, tr1, e1⟩ := hlim
  obtain ⟨st2, tr2, e2⟩ := hall
  have hlen : (allHits { limit := 2 } (fun _ s => s) segsX).length + 1 = 5 := by decide
  simp only [hlen] at h2
  rw [e1] at h1
  rw [e2] at h2
  simp only [Except.ok.injEq, Prod.mk.injEq] at h1 h2
  rw [← h1.1, ← h2.1] at h3
  simp at h3

/-- The hypotheses of `topk` are satisfiable on a non-trivial instance: two segments, block flags,
    ties, a zero and a negative score, `limit = 2 <` number of hits. -/
example :
    let segs : List Seg := [⟨0, true, [(.mk' 0 1 true), (.mk' 1 3 false), (.mk' 2 0 true), (.mk' 3 2 false)]⟩,
                            ⟨10, true, [(.mk' 0 5 true), (.mk' 2 (-1) true)]⟩]
    (1 ≤ ({ limit := 2, replace := 1 } : Cfg).limit) ∧ (globalDocs segs).Pairwise (· < ·) ∧
      (allHits { limit := 2 } (fun _ s => s) segs).length = 6 := by
  decide

/-- A zero-scoring posting survives a schedule that wants to drop it while there is no threshold
    (the instance that refuted the unguarded statement in round 1). -/
example : collectTop { limit := 2, replace := 1 } (fun _ s => s)
    [⟨0, true, [(.mk' 0 0 true), (.mk' 1 1 true)]⟩] [{ mask := [.drop], supports := true, skip := 1 }] = .ok [⟨1, 1⟩, ⟨0, 0⟩] := by
  simp only [collectTop, runSegs]
  rw [matchesLoop]
  simp +decide [replacePhase, replaceThreshold, skipPhase, dropMasked, skipDrop, useBlockQuality, Step.none, nextFlag,
    topConsume, toHit, TopState.collect, heapPush, heapLe]
  rw [matchesLoop]
  simp +decide [replacePhase, replaceThreshold, skipPhase, dropMasked, skipDrop, useBlockQuality, Step.none, nextFlag,
    topConsume, toHit, TopState.collect, heapPush, heapLe]
  rw [matchesLoop]
  simp +decide [TopState.results]

/-- A run in which the optimisations really fire, evaluated through `runSegs`: `limit = 1`,
    `replace = 1`, scores 3, 5, 1, 2, 4, 7. After document 1 (score 5) replaced document 0 on the heap
    the threshold is 5: `skip_to_quality(5)` skips document 2 (`skipped = 1`) and leaves document 3
    with its score *lowered* from 2 to 1 (a union that moved one sub-matcher past it), the next
    `replace(5)` drops document 4; documents 3 and 5 reach `_collect` (`total = 4` of 6 matches).
    The result is document 5 (score 7), the top 1 of the exhaustive ranking, as `topk` says. -/
example :
    let cfg : Cfg := { limit := 1, replace := 1 }
    let segs : List Seg := [⟨0, true, [.mk' 0 3 true, .mk' 1 5 true, .mk' 2 1 true, .mk' 3 2 false, .mk' 4 4 true, .mk' 5 7 true]⟩]
    let sched : List Step := [Step.none, Step.none,
      { mask := [], supports := true, skip := 1, skipMask := [.lower 1, .keep, .drop] },
      { mask := [.drop], supports := true, skip := 0 }]
    ∃ st sched' tr, runSegs cfg (topConsume cfg (fun _ s => s)) (fun st => st.minscore) segs sched {} {}
        = .ok (st, sched', tr) ∧
      st.results = [⟨5, 7⟩] ∧ st.total = 4 ∧ tr.skipped = 1 ∧ tr.replaced = 4 ∧ tr.mayHaveDropped = true := by
  intro cfg segs sched
  simp only [cfg, segs, sched, runSegs]
  iterate 5
    rw [matchesLoop]
    simp +decide [replacePhase, replaceThreshold, skipPhase, dropMasked, skipDrop, useBlockQuality, Step.none,
      nextFlag, topConsume, toHit, TopState.collect, heapPush, heapLe, Posting.mk']
  refine ⟨_, _, _, ⟨rfl, rfl, rfl⟩, ?_⟩
  decide

/-- **C05.contract_covered.** The schedules `topk` quantifies over cover the C12 contract: whatever
    `replace(q)` / `skip_to_quality(q)` (`q ≠ 0`) may turn the remaining result list of the matcher
    into under `WM.Matcher.Keeps` — entries above `q` untouched, entries at or below `q` dropped,
    kept, or kept with a lower score — is the outcome of some list of wishes of a `Step`. (`q = 0`
    is "no threshold": every `replace()` of whoosh tests `if minquality and …`, and the collector
    no longer calls `skip_to_quality(0)`.) -/
theorem contract_covered (q : Rat) (hq : q ≠ 0) (m : List Posting) (L' : WM.Matcher.Den)
    (hasc : WM.Matcher.Asc (denOf m)) (hasc' : WM.Matcher.Asc L') (hk : WM.Matcher.Keeps q L' (denOf m)) :
    ∃ mask : List Wish, denOf (dropMasked q mask m) = L' :=
  keeps_is_wishes q hq m L' hasc hasc' hk

private def segA : Seg := ⟨0, true, [.mk' 0 1 true]⟩
private def segB : Seg := ⟨1, true, [.mk' 0 1 true, .mk' 1 1 true]⟩

local macro "top_loop" : tactic => `(tactic| (rw [matchesLoop]; simp +decide [replacePhase, replaceThreshold, skipPhase,
  dropMasked, skipDrop, useBlockQuality, Step.none, nextFlag, topConsume, toHit, TopState.collect, heapPush, heapLe]))

/-- **C05.segment_order_matters** — the hypothesis of `topk` that documents arrive in ascending global
    document order (`Collector.run` visits the leaf searchers in index order) cannot be dropped: segment A
    (offset 0) holds document 0, segment B (offset 1) documents 1 and 2, all scoring 1, `limit = 1`. In index
    order the search returns document 0, the first of the exhaustive ranking. Visiting the bigger segment B
    first — the same hits, so the same exhaustive ranking — the heap is full with document 1 when document 0
    arrives, `score > items[0][0]` refuses the tie, and the search returns document 1: the "ascending document
    number on ties" half of the property is lost although the heap keys carry global document numbers. -/
theorem segment_order_matters :
    collectTop { limit := 1 } (fun _ s => s) [segA, segB] [] = .ok [⟨0, 1⟩] ∧
    topK 1 (allHits { limit := 1 } (fun _ s => s) [segA, segB]) = [⟨0, 1⟩] ∧
    (allHits { limit := 1 } (fun _ s => s) [segB, segA]).Perm (allHits { limit := 1 } (fun _ s => s) [segA, segB]) ∧
    topK 1 (allHits { limit := 1 } (fun _ s => s) [segB, segA]) = [⟨0, 1⟩] ∧
    collectTop { limit := 1 } (fun _ s => s) [segB, segA] [] = .ok [⟨1, 1⟩] ∧
    ¬ (globalDocs [segB, segA]).Pairwise (· < ·) := by
  have ht : topK 1 (allHits { limit := 1 } (fun _ s => s) [segA, segB]) = [⟨0, 1⟩] :=
    topK_of_split 1 _ [⟨0, 1⟩] [⟨1, 1⟩, ⟨2, 1⟩] (by decide) (by decide) (by decide) (by decide)
  have ht' : topK 1 (allHits { limit := 1 } (fun _ s => s) [segB, segA]) = [⟨0, 1⟩] :=
    topK_of_split 1 _ [⟨0, 1⟩] [⟨1, 1⟩, ⟨2, 1⟩] (by decide) (by decide) (by decide) (by decide)
  refine ⟨?_, ht, by decide, ht', ?_, by decide⟩
  · rw [topk _ _ _ _ (by decide) (by decide) (by decide), ht]
  · simp only [collectTop, runSegs, segA, segB]
    top_loop
    top_loop
    top_loop
    top_loop
    top_loop

end WM.C05
