import WM.Lemmas.HashBytes
import WM.Props.C20Hash
import WM.Props.C20Varint
/-!
C20 (hash files, byte level): the `struct` formats `StructFile` and the hash file are built from
(`!B !H !i !I !q`, the two-field structs `!ii` / `!Iq` / `!qi`) round-trip, and `HashReader` — reading
the **bytes** `HashWriter` wrote: magic, hash-type byte, the trailing extras length, the 256-entry
directory, the 12-byte slots of the open-addressed tables, the `!ii`-prefixed records — returns
under every key the values written under it, in insertion order, and iterates the pairs in
insertion order.  `parse ∘ write = id` is `hash_file_open`; `hash_lookup_bytes` composes it with the
record-level theorem `hash_lookup`.
-/
namespace WM.C20
open WM.StructFile WM.HashBytes WM.HashFile
open WM.NumLists (TC encodeBE)
open WM.IdSets (Err)

/-- `unpack ∘ pack = id` for every format `StructFile.write_byte/ushort/int/uint/long` uses … -/
theorem struct_roundtrip (tc : TC) (n : Int) (bs : Bytes) (h : pack tc n = .ok bs) :
    bs.length = tc.size ∧ unpack tc bs = .ok n := ⟨length_pack h, unpack_pack h⟩
/-- … and a number outside the format is `struct.error`, never a silently truncated value. -/
theorem struct_rejects (tc : TC) (n : Int) (h : tc.fits n = false) : pack tc n = .error .struct :=
  pack_error h

/-- the two-field structs `_lengths = "!ii"`, `_pointer = "!Iq"`, `_dir_entry = "!qi"` -/
theorem struct2_roundtrip (t1 t2 : TC) (a b : Int) (bs : Bytes) (h : pack2 t1 t2 a b = .ok bs) :
    unpack2 t1 t2 bs = .ok (a, b) := unpack2_pack2 h

/-- `write_xxx(n)` then `read_xxx()` (sequential) and `get_xxx(pos)` (positional), whatever is
    written before and after. -/
theorem structfile_read_write (tc : TC) (n : Int) (bs pre post : Bytes) (h : writeNum tc n = .ok bs) :
    readNum tc (bs ++ post) = .ok (n, post) ∧ getNum tc (pre ++ bs ++ post) pre.length = .ok n := by
  have hl := length_pack h
  constructor
  · unfold readNum
    rw [← hl, List.take_left', List.drop_left', unpack_pack h] <;> rfl
  · unfold getNum
    rw [← hl, get_mid, unpack_pack h]

/-- `write_varint/read_varint` and `write_string/read_string` -/
theorem structfile_string_roundtrip (s rest : Bytes) :
    readVarint (writeVarint s.length ++ rest) = some (s.length, rest) ∧
      readString (writeString s ++ rest) = some (s, rest) := by
  have hv : readVarint (writeVarint s.length ++ rest) = some (s.length, rest) := varint_roundtrip _ _
  refine ⟨hv, ?_⟩
  unfold readString writeString
  rw [List.append_assoc]
  have : readVarint (writeVarint s.length ++ (s ++ rest)) = some (s.length, s ++ rest) := varint_roundtrip _ _
  rw [this]
  simp

example : pack .i (-2) = .ok [255, 255, 255, 254] ∧ pack .H 65536 = .error .struct
    ∧ pack2 .I .q 258 3 = .ok [0, 0, 1, 2, 0, 0, 0, 0, 0, 0, 0, 3] := by
  refine ⟨?_, ?_, ?_⟩
  · rw [pack, if_pos (by decide)]; exact congrArg _ (by decide +kernel)
  · exact struct_rejects .H 65536 (by decide)
  · exact (pack2_nat .I .q 258 3 (by decide) (by decide)).trans (congrArg _ (by decide +kernel))
example : readString (writeString [7, 8, 9] ++ [1]) = some ([7, 8, 9], [1]) :=
  (structfile_string_roundtrip [7, 8, 9] [1]).2

/-- Inside the formats the bytes of the model are the bytes `struct.pack` produces for every
    record header. -/
theorem hash_record_bytes (hash : Key → Nat) (so : Nat) (kvs : List (Key × Bytes)) (f : File Bytes)
    (hf : buildE hash List.length so kvs = .ok f) :
    ∀ r ∈ f.recs, pack2 .i .i r.key.length r.val.length = .ok (enc2 .i .i r.key.length r.val.length) := by
  intro r hr
  have := (written_of_buildE hf).recs r hr
  exact pack2_nat .i .i _ _ (fitsNat _ _ (by rw [WM.NumLists.cap_i]; omega))
    (fitsNat _ _ (by rw [WM.NumLists.cap_i]; omega))

/-- `parse ∘ write = id`: `HashReader.__init__` on the bytes of a written file (any bytes before
    `startoffset`, any extras blob below 2^31 bytes, the default `length`) recovers the hash type,
    the start and end of the data and the directory of the 256 tables. -/
theorem hash_file_open (hash : Key → Nat) (so : Nat) (kvs : List (Key × Bytes)) (f : File Bytes)
    (hf : buildE hash List.length so kvs = .ok f) (magic extras pre : Bytes) (hashtype : Nat)
    (hm : magic.length = 4) (hh : hashtype < 256) (he : extras.length < 2 ^ 31) (hp : pre.length = so) :
    openReader magic (fileBytes magic hashtype extras pre f) so
        ((fileBytes magic hashtype extras pre f).length - so) = .ok
      { file := fileBytes magic hashtype extras pre f, startoffset := so, hashtype := hashtype,
        startofdata := so + 13, endofdata := f.endofdata, tables := directory f,
        expos := tablePos f 256 + directorySize, exlen := extras.length } :=
  open_written (written_of_buildE hf) magic extras pre hashtype hm hh he hp

/-- `hash_lookup` over file bytes: open the bytes the writer produced, and `list(reader.all(k))` —
    every probe, length comparison and key comparison reading the bytes — are the values written
    under `k`, in insertion order; absent keys give `[]`. -/
theorem hash_lookup_bytes (hash : Key → Nat) (so : Nat) (kvs : List (Key × Bytes)) (f : File Bytes)
    (hf : buildE hash List.length so kvs = .ok f) (magic extras pre : Bytes) (hashtype : Nat)
    (hm : magic.length = 4) (hh : hashtype < 256) (he : extras.length < 2 ^ 31) (hp : pre.length = so) :
    ∃ r, openReader magic (fileBytes magic hashtype extras pre f) so
        ((fileBytes magic hashtype extras pre f).length - so) = .ok r ∧
      ∀ key, allBytes hash r key = .ok (kvs.filterMap (fun kv => if kv.1 = key then some kv.2 else none)) := by
  refine ⟨_, hash_file_open hash so kvs f hf magic extras pre hashtype hm hh he hp, ?_⟩
  intro key
  rw [all_written (written_of_buildE hf) magic extras pre hashtype hm hp _ rfl rfl key,
    hash_lookup hash List.length so kvs f hf key]

/-- iterating the bytes (`items()`, `keys()`, `__iter__`) yields the pairs in insertion order -/
theorem hash_items_bytes (hash : Key → Nat) (so : Nat) (kvs : List (Key × Bytes)) (f : File Bytes)
    (hf : buildE hash List.length so kvs = .ok f) (magic extras pre : Bytes) (hashtype : Nat)
    (hm : magic.length = 4) (hh : hashtype < 256) (he : extras.length < 2 ^ 31) (hp : pre.length = so) :
    ∃ r, openReader magic (fileBytes magic hashtype extras pre f) so
        ((fileBytes magic hashtype extras pre f).length - so) = .ok r ∧ HashBytes.items r = .ok kvs := by
  refine ⟨_, hash_file_open hash so kvs f hf magic extras pre hashtype hm hh he hp, ?_⟩
  exact items_written (written_of_buildE hf) magic extras pre hashtype hm hp _ rfl rfl rfl

/-- Non-vacuity: a two-key file (colliding hashes) preceded by 3 foreign bytes opens and answers. -/
example : ∃ f, buildE (fun _ => 7) List.length 3 [([1], [10, 11]), ([2], []), ([1], [30])] = .ok f ∧
    ∃ r, openReader [72, 83, 72, 51] (fileBytes [72, 83, 72, 51] 2 [9, 9] [0, 0, 0] f) 3
        ((fileBytes [72, 83, 72, 51] 2 [9, 9] [0, 0, 0] f).length - 3) = .ok r ∧
      allBytes (fun _ => 7) r [1] = .ok [[10, 11], [30]] ∧ allBytes (fun _ => 7) r [5] = .ok [] := by
  have hd : (buildE (fun _ => 7) List.length 3 [([1], [10, 11]), ([2], []), ([1], [30])]).toBool = true := by
    decide +kernel
  cases hf : buildE (fun _ => 7) List.length 3 [([1], [10, 11]), ([2], []), ([1], [30])] with
  | error e => rw [hf] at hd; cases hd
  | ok f =>
    rcases hash_lookup_bytes _ _ _ f hf [72, 83, 72, 51] [9, 9] [0, 0, 0] 2 rfl (by omega) (by simp) rfl
      with ⟨r, hr, hall⟩
    exact ⟨f, rfl, r, hr, by rw [hall]; exact congrArg _ (by decide), by rw [hall]; exact congrArg _ (by decide)⟩

end WM.C20
