import WM.Lemmas.SearchNumeric
/-!
C01 ∘ C13 — a `NumericRange` on an integer NUMERIC field answers the documents holding a value in the
interval: the value-level reading `Query.numRange` of `WM/Spec/Search.lean` (which `compile` takes verbatim)
is what the *compiled* query — `Or` of `Term`/`TermRange` sub-queries over the tier terms, under
`ConstantScoreQuery` (`NumericRange._compile_query`, C13's `compileInt`) — answers through the term-level
part of the model (term postings, TermRange expansion against the lexicon, union, constant score).
-/
namespace WM.C01
open WM.Search WM.Compile

/-- **NumericRange, composed with C13.**  For an integer NUMERIC field (`w ∈ 1..32` bytes, any signedness and
    shift step) and bounds in the field's domain, `_compile_query` succeeds; on every document that indexes
    the field faithfully (`IntFieldDoc`: its terms are the tier terms `NUMERIC.index` writes for its values —
    C13 `indexTermsList`), the compiled query is satisfied iff one of the document's values lies in the
    interval, i.e. iff the value-level `numRange` is; hence on a segment of such documents the matcher lists
    of the compiled query and of `numRange` have the same documents: the live documents with a value in the
    interval (`matcher_den` for the compiled query, through term postings, the TermRange expansion, the union
    and the constant-score wrapper). -/
theorem numeric_range_compiled (w step : Nat) (hw : 0 < w) (hw' : 8 * w ≤ 256) (signed : Bool) (f : String)
    (start end_ : Option Int) (sx ex : Bool) (b : Rat) (hb : 0 < b)
    (hs : ∀ a, start = some a → WM.Numeric.inDomain (8 * w) signed a)
    (he : ∀ a, end_ = some a → WM.Numeric.inDomain (8 * w) signed a) :
    ∃ subs, WM.Numeric.compileInt w signed step start end_ sx ex = .ok subs ∧
      (∀ d, IntFieldDoc w step signed f d →
        sat (compiledRange f subs b) d =
          sat (.numRange f (start.map (fun a : Int => (a : Rat))) (end_.map (fun a : Int => (a : Rat))) sx ex b) d) ∧
      ∀ (ls : LeafScore) (so : ShapeOracle) (s : Segment) (ctx : Ctx), ValidOracle so → PosLeaf ls s →
        (∀ i ∈ s.live, IntFieldDoc w step signed f (s.doc i)) →
        (compile ls so s ctx (compiledRange f subs b)).map (·.id) =
          s.live.filter (fun i => ((s.doc i).nums f).any
            (inRange (start.map (fun a : Int => (a : Rat))) (end_.map (fun a : Int => (a : Rat))) sx ex)) ∧
        (compile ls so s ctx (compiledRange f subs b)).map (·.id) =
          (compile ls so s ctx
            (.numRange f (start.map (fun a : Int => (a : Rat))) (end_.map (fun a : Int => (a : Rat))) sx ex b)).map (·.id) := by
  obtain ⟨subs, -, hsubs, -, -⟩ := WM.C13.range_query_multi w step hw hw' signed start end_ sx ex [] hs he
    (by intro x hx; cases hx)
  have hsat : ∀ d, IntFieldDoc w step signed f d →
      sat (compiledRange f subs b) d =
        sat (.numRange f (start.map (fun a : Int => (a : Rat))) (end_.map (fun a : Int => (a : Rat))) sx ex b) d := by
    intro d ⟨xs, ts, hdom, hnums, hts, hmem⟩
    obtain ⟨subs', ts', h1, h2, h3⟩ := WM.C13.range_query_multi w step hw hw' signed start end_ sx ex xs hs he hdom
    rw [hsubs] at h1; cases h1
    rw [hts] at h2; cases h2
    rw [sat_compiledRange, matchesDoc_congr subs hmem]
    simp only [sat, hnums, List.any_map]
    rw [Bool.eq_iff_iff, h3, List.any_eq_true]
    constructor
    · rintro ⟨x, hx, hin⟩; exact ⟨x, hx, by simp only [Function.comp]; rw [inRange_int]; exact hin⟩
    · rintro ⟨x, hx, hin⟩; exact ⟨x, hx, by simp only [Function.comp] at hin; rw [inRange_int] at hin; exact hin⟩
  refine ⟨subs, hsubs, hsat, fun ls so s ctx hso hleaf hdocs => ?_⟩
  have h1 := matcher_den ls so s hso hleaf (compiledRange f subs b) (posQ_compiledRange f subs hb) ctx
  have hfil : s.live.filter (fun i => sat (compiledRange f subs b) (s.doc i)) =
      s.live.filter (fun i => ((s.doc i).nums f).any
        (inRange (start.map (fun a : Int => (a : Rat))) (end_.map (fun a : Int => (a : Rat))) sx ex)) :=
    List.filter_congr (fun i hi => by rw [hsat _ (hdocs i hi)]; rfl)
  refine ⟨by rw [h1, hfil], ?_⟩
  rw [h1, hfil]
  simp [compile, List.map_map, Function.comp_def]

/-- non-vacuity: an unsigned 8-bit field with shift step 4; a document holding the value 200 (tier terms
    `[0, 0xC8]` and `[4, 0x0C]`), the range `[100 TO 250]` compiles to three sub-queries -/
example : WM.Numeric.inDomain (8 * 1) false 200 ∧
    WM.Numeric.indexTermsList 1 4 ([200].map fun x => (WM.Numeric.toSortableInt (8 * 1) false x).toNat) =
      .ok [[0, 200], [4, 12]] ∧
    IntFieldDoc 1 4 false "n" ⟨[⟨"n", 1, [⟨[0, 200], 0, 1⟩, ⟨[4, 12], 0, 1⟩], [200]⟩]⟩ ∧
    (WM.Numeric.compileInt 1 false 4 (some 100) (some 250) false false).toOption.map List.length = some 3 := by
  have h1 : WM.Numeric.inDomain (8 * 1) false 200 := by decide
  have h2 : WM.Numeric.indexTermsList 1 4 ([200].map fun x => (WM.Numeric.toSortableInt (8 * 1) false x).toNat) =
      .ok [[0, 200], [4, 12]] := ok_of_toOption (by decide +kernel)
  refine ⟨h1, h2, ⟨[200], [[0, 200], [4, 12]], ?_, by decide +kernel, h2, fun _ => Iff.rfl⟩, by decide +kernel⟩
  intro x hx
  simp only [List.mem_singleton] at hx
  subst hx; exact h1

end WM.C01
