import WM.Props.C08Field
/-!
# C08 — iteration, and sort keys, agree with indexed reads

`list(reader)` is what sorting/faceting code and `load()` use instead of `reader[d]`; for the
readers whose `__iter__` is a different algorithm from `__getitem__` (VarBytes: running position
instead of the offsets array; Multi: concatenation instead of bisection; Fixed/Numeric: the
`i < count` test) the theorems below state that iteration yields exactly the rows.
-/
namespace WM.C08
open WM.Columns WM.Numeric

theorem varIterFrom_flatten (pre : Bytes) (rows : List Bytes) (tail : Bytes) :
    varIterFrom (pre ++ rows.flatten ++ tail) pre.length (rows.map List.length) = rows := by
  induction rows generalizing pre with
  | nil => rfl
  | cons r rs ih =>
    simp only [List.map_cons, varIterFrom, List.flatten_cons]
    congr 1
    · simp [slice, List.append_assoc]
    · have := ih (pre ++ r)
      simp only [List.length_append, List.append_assoc] at this ⊢
      exact this

/-- **VarBytesColumn, iteration**: `list(reader)` is the list of rows — the supplied value for each
    document that has one, `b''` elsewhere — for every offsets cutoff (the iterator recomputes the
    positions from the lengths and never reads the stored offsets). -/
theorem varbytes_iter (allow : Bool) (cutoff : Nat) (adds : List (Nat × Bytes)) (doccount : Nat)
    (hinc : Increasing adds) (hwithin : Within adds doccount) (hsize : totalBytes adds < 4294967296) :
    ∃ file, varWrite allow cutoff adds doccount = .ok file ∧
      varIter file doccount = .ok (rowsOf [] adds doccount) := by
  obtain ⟨w1, ha, hi1, hc1⟩ := VarW.addAll_inv adds {} [] VarW.inv_init rfl hinc
    (fun p _ => Nat.zero_le _) (by simpa using hsize)
  obtain ⟨hrows, hle⟩ := extendRows_final ([] : Bytes) adds doccount hinc hwithin
  have hflat := extendRows_flatten_length [] adds
  obtain ⟨w2, hf, hi2, _⟩ := w1.fill_inv _ doccount hi1 hc1 (by rw [hc1]; exact hle)
    (by rw [hflat]; simpa using hsize)
  rw [hrows] at hi2
  let rows := rowsOf ([] : Bytes) adds doccount
  let wo := allow && decide (doccount > cutoff)
  have hfile : varWrite allow cutoff adds doccount = .ok
      (rows.flatten ++ packArr w2.lengths.tc.size (rows.map List.length)
        ++ (if wo then packArr w2.offsets.tc.size (deriveOffsets 0 (rows.map List.length)) else [])
        ++ [w2.lengths.tc.code] ++ (if wo then [w2.offsets.tc.code, 88] else [])) := by
    simp only [varWrite, ha, VarW.finish, hf, hi2.out, hi2.lens, hi2.offs]
    rfl
  refine ⟨_, hfile, ?_⟩
  have hlenL : (rows.map List.length).length = doccount := by simp [rows, rowsOf_length]
  obtain ⟨r, hopen, hdata, hlens, _, _⟩ := VarR.open_layout rows.flatten w2.lengths.tc w2.offsets.tc
    (rows.map List.length) (deriveOffsets 0 (rows.map List.length)) wo doccount hlenL
    (by rw [deriveOffsets_length]; exact hlenL)
    (by rw [← hi2.lens]; exact hi2.wfl) (by rw [← hi2.offs]; exact hi2.wfo) rfl
  simp only [varIter, hopen, VarR.iter, hdata, hlens]
  have := varIterFrom_flatten [] rows
    (packArr w2.lengths.tc.size (rows.map List.length)
      ++ (if wo then packArr w2.offsets.tc.size (deriveOffsets 0 (rows.map List.length)) else [])
      ++ [w2.lengths.tc.code] ++ (if wo then [w2.offsets.tc.code, 88] else []))
  simp only [List.nil_append, List.length_nil, List.append_assoc] at this ⊢
  rw [this]

example : varIterFrom [1, 2, 9, 9, 9] 0 [2, 0, 1] = [[1, 2], [], [9]] := by decide

/-- **MultiColumnReader, iteration**: `list(reader)` is, row for row, what `reader[d]` returns for
    `d = 0 … total-1` (segments without the column contribute their `doc_count_all` defaults). -/
theorem multi_iter {α : Type} (default : α) (segs : List (SegCol α)) :
    (multiIter default segs).length = (segs.map SegCol.len).sum ∧
    ∀ d, d < (segs.map SegCol.len).sum →
      ∃ v, multiGet default segs d = .ok v ∧ (multiIter default segs)[d]? = some v := by
  have hexp : ∀ s : SegCol α, s.iter default = s.expand default := by
    intro s; cases s <;> rfl
  have hiter : multiIter default segs = (segs.map (SegCol.expand default)).flatten := by
    unfold multiIter
    rw [List.map_congr_left (fun s _ => hexp s)]
  refine ⟨?_, fun d hd => ?_⟩
  · rw [hiter, List.length_flatten, List.map_map]
    congr 1
    apply List.map_congr_left
    intro s _
    simp [expand_length]
  · rw [hiter]
    exact multi_value default segs d hd

example : multiIter (0 : Nat) [.rows [5, 6], .empty 2, .rows [7]] = [5, 6, 0, 0, 7] := rfl

/-- **Fixed-width readers, iteration** (`FixedBytesColumn`, `NumericColumn`): the `i < count`
    shortcut of `__iter__` yields the default exactly where `__getitem__` synthesises it. -/
theorem fixed_iter (k : Nat) (default : Bytes) (data : Bytes) (doccount : Nat) :
    fixIter k default (fixGet k default data) data doccount = (List.range doccount).map (fixGet k default data) := by
  unfold fixIter
  apply List.map_congr_left
  intro i _
  by_cases h : i < data.length / k
  · simp [h]
  · simp only [h, if_false, fixGet]
    rw [if_pos (by omega)]

/-- The same for `NumericColumn.Reader` (`self[i]` unpacks, the shortcut yields the number
    `self._default`): equal whenever the default is packable. -/
theorem numeric_iter (c : NumCode) (default : Int) (hdr : c.lo ≤ default ∧ default ≤ c.hi) (data : Bytes)
    (doccount : Nat) :
    (fixIter c.size (.ok default) (numGet c default data) data doccount)
      = (List.range doccount).map (numGet c default data) := by
  obtain ⟨db, hdb⟩ : ∃ db, c.pack default = .ok db := ⟨_, if_pos hdr⟩
  unfold fixIter
  apply List.map_congr_left
  intro i _
  by_cases h : i < data.length / c.size
  · simp [h]
  · simp only [h, if_false, numGet, hdb, fixGet]
    rw [if_pos (by omega), c.unpack_pack default db hdb]

/-- **Sort keys of an integer field order documents by value**: `TranslatingColumnReader.sort_key`
    hands out the raw `NumericColumn.sort_key`, i.e. the *sortable* number (negated under
    `reverse`); for two documents holding in-range values `x`, `y` the keys compare like `x`, `y`
    (reversed under `reverse`).  Feeds C14 (`sortedby` a NUMERIC field). -/
theorem int_sort_key_order (bits : Nat) (signed reverse : Bool) (x y : Int) :
    let kx := (if reverse then 0 - toSortableInt bits signed x else toSortableInt bits signed x)
    let ky := (if reverse then 0 - toSortableInt bits signed y else toSortableInt bits signed y)
    (kx < ky ↔ if reverse then y < x else x < y) := by
  have h := toSortableInt_lt bits signed
  cases reverse
  · simp only [Bool.false_eq_true, if_false]; exact h x y
  · simp only [if_true]
    rw [← h y x]; omega

example : numSortKey .B 255 true [5, 9] 1 = .ok (-9) ∧ numSortKey .B 255 false [5, 9] 3 = .ok 255 := ⟨rfl, rfl⟩

end WM.C08
