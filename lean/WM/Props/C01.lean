import WM.Lemmas.SearchWF
/-!
C01 — search returns exactly the documents that satisfy the query (list level).

`compile` is the list each per-segment matcher tree enumerates (`WM/Model/Compile.lean`), `sat` the
documented meaning, `answer` what a search must return (`WM/Spec/Search.lean`).  Hypotheses:

* `ValidOracle so` — whatever binary tree the implementation builds over the clauses of a compound
  (`make_binary_tree`, `make_weighted_tree`: any shape, any order), its leaves are the clauses;
* `PosQ q`, `PosLeaf ls s` — boosts and leaf scores are positive (the array union decides
  membership by `score > 0`, `ListMatcher(all_weights=0)` scores 1: see the negative examples).

The empty term is a term like any other (an ID field whose value is "" indexes it): since the
repair of `MultiTerm.matcher` the expansion of a multi-term query no longer skips it, so no
hypothesis about it is needed.
-/
namespace WM.C01
open WM.Search WM.Compile

/-- The ids of the list compiled for a segment are exactly the live documents of the segment that
    satisfy the query — in every search context (scored or not, `needs_current` or not), for every
    binary tree shape over the clauses, and for each `Or` strategy the implementation may pick. -/
theorem matcher_den (ls : LeafScore) (so : ShapeOracle) (s : Segment) (hso : ValidOracle so)
    (hleaf : PosLeaf ls s) (q : Query) (hq : PosQ q) (ctx : Ctx) :
    (compile ls so s ctx q).map (·.id) = s.live.filter (fun i => sat q (s.doc i)) :=
  compile_ids ls so s hso hleaf q hq ctx

/-- Running one matcher per segment and shifting by the segment offsets (`Collector.run`,
    `Searcher.docs_for_query`) yields exactly `answer`: the live documents of the whole index that
    satisfy the query, in ascending global doc-number order. -/
theorem segments (ls : LeafScore) (so : ShapeOracle) (hso : ValidOracle so) (idx : Index)
    (hok : IndexOK ls idx) (q : Query) (hq : PosQ q) (ctx : Ctx) :
    (run ls so ctx q idx).map (·.id) = answer q idx :=
  runFrom_ids ls freqLeaf so hso q hq ctx idx 0 hok

/-- The matched set does not depend on the search context or on the tree shapes: two runs with
    arbitrary contexts `(needs_current, scored)` — the ones behind scored stepping, `terms=True`,
    unscored collection and `docs_for_query`'s boolean context — and arbitrary valid shape oracles
    return the same id list, namely `answer` (first conjunct; the second, its length, is a corollary
    of `segments`).  The third conjunct is a fact about the specification only: `rankAll` (the order a
    scored search must return) is a permutation of `answer`.  `limit`, `sortedby`, filters and the
    `Query.docs` overrides (`Require.docs`, `AndMaybe.docs`) are not parameters of this statement: they
    are compared on the real code by the end-to-end run (and are C05/C14's theorems). -/
theorem paths_agree (ls : LeafScore) (so so' : ShapeOracle) (hso : ValidOracle so) (hso' : ValidOracle so')
    (idx : Index) (hok : IndexOK ls idx) (q : Query) (hq : PosQ q) (ctx ctx' : Ctx) :
    (run ls so ctx q idx).map (·.id) = (run ls so' ctx' q idx).map (·.id) ∧
    (run ls so ctx q idx).length = (answer q idx).length ∧
    ((rankAll ls q idx).map (·.id)).Perm (answer q idx) := by
  have h1 := segments ls so hso idx hok q hq ctx
  have h2 := segments ls so' hso' idx hok q hq ctx'
  refine ⟨h1.trans h2.symm, ?_, ?_⟩
  · rw [← h1, List.length_map]
  · have hp := (rankAll_perm ls q idx).map (·.id)
    have : (hits ls q idx).map (·.id) = answer q idx := by
      have := runFrom_ids ls freqLeaf so hso q hq ctx idx 0 hok
      have h3 := runFrom_ids ls ls so hso q hq ctx idx 0 hok
      exact h3.symm.trans this
    rw [this] at hp
    exact hp

/-- **`Query.docs` overrides.**  `Require.docs` evaluates `And([a, b])`, `AndMaybe.docs` evaluates its first
    operand (recursively through that operand's own `docs`), all other classes their own matcher in the
    boolean context: the query actually evaluated (`docsForm q`) has the same answer as `q`, and running
    its per-segment matchers in the boolean context yields exactly `answer q idx`.  (The real method runs
    one matcher on the top-level searcher; for a multi-segment reader that is a `MultiMatcher` over the
    per-segment postings — the matcher family's `multi` node, C11 `multi_constructor_wf` — here the run is
    segment by segment.) -/
theorem docs_overrides (ls : LeafScore) (so : ShapeOracle) (hso : ValidOracle so) (idx : Index)
    (hok : IndexOK ls idx) (q : Query) (hq : PosQ q) :
    answer (docsForm q) idx = answer q idx ∧
    (run ls so boolCtx (docsForm q) idx).map (·.id) = answer q idx := by
  have hsat : ∀ (q : Query) (d : Doc), sat (docsForm q) d = sat q d := by
    intro q
    induction q using docsForm.induct with
    | case1 a b => intro d; simp [docsForm, sat, satAll]
    | case2 a b ih => intro d; simp only [docsForm, sat]; exact ih d
    | case3 q h1 h2 => intro d; rw [docsForm]; exact h1; exact h2
  have hpos : ∀ q : Query, PosQ q → PosQ (docsForm q) := by
    intro q
    induction q using docsForm.induct with
    | case1 a b => intro h; simp only [PosQ] at h; simp only [docsForm, PosQ, PosQs]; exact ⟨by decide +kernel, h.1, h.2, trivial⟩
    | case2 a b ih => intro h; simp only [PosQ] at h; simp only [docsForm]; exact ih h.1
    | case3 q h1 h2 => intro h; rw [docsForm]; exact h; exact h1; exact h2
  have hans : answer (docsForm q) idx = answer q idx := by
    unfold answer hits
    generalize 0 = off
    induction idx generalizing off with
    | nil => rfl
    | cons s rest ih =>
      simp only [hitsFrom, List.map_append]
      rw [ih (fun s hs => hok s (List.mem_cons_of_mem _ hs))]
      congr 1
      simp only [shift, segHits, List.map_map]
      have : s.live.filter (fun i => sat (docsForm q) (s.doc i)) = s.live.filter (fun i => sat q (s.doc i)) :=
        List.filter_congr (fun i _ => hsat q (s.doc i))
      rw [this]
      rfl
  exact ⟨hans, by rw [segments ls so hso idx hok (docsForm q) (hpos q hq) boolCtx, hans]⟩

/-! ### the hypotheses are satisfiable: a two-segment index with a deletion -/

def tok (t : Nat) (p : Nat) : Token := ⟨[t], p, 1⟩
def exSeg1 : Segment := ⟨[⟨[⟨"t", 1, [tok 98 0, tok 99 1], []⟩]⟩, ⟨[⟨"t", 2, [tok 97 0, tok 98 1], []⟩]⟩,
                          ⟨[⟨"t", 1, [tok 97 0], []⟩]⟩], [2]⟩
def exSeg2 : Segment := ⟨[⟨[⟨"t", 1, [tok 97 0, tok 99 3], []⟩]⟩, ⟨[⟨"t", 1, [tok 98 0], []⟩]⟩], []⟩
def exIdx : Index := [exSeg1, exSeg2]
def exQ : Query := .andNot (.or [.term "t" [97] 2, .phrase "t" [[97], [99]] 3 1, .multi "t" (.pfx [98]) 1 true] 1)
                     (.term "t" [99] 1)

theorem exIdx_ok : IndexOK freqLeaf exIdx := by
  intro s hs
  have hwf : wfSegment s = true := by
    simp only [exIdx, List.mem_cons, List.not_mem_nil, or_false] at hs
    rcases hs with rfl | rfl <;> decide
  exact posLeaf_freq_of_wf hwf

theorem exQ_pos : PosQ exQ := posQ_of_posQuery exQ (by decide)

example : IndexOK freqLeaf exIdx ∧ PosQ exQ ∧ ValidOracle balancedOracle ∧
    answer exQ exIdx = [1, 4] ∧
    (run freqLeaf balancedOracle ⟨false, true⟩ exQ exIdx).map (·.id) = [1, 4] :=
  ⟨exIdx_ok, exQ_pos, balancedOracle_valid, by decide,
   by rw [segments freqLeaf balancedOracle balancedOracle_valid exIdx exIdx_ok exQ exQ_pos]; decide⟩

/-- `docs_overrides` on a query where the overrides matter: `(aa ANDMAYBE cc) REQUIRE bb` is evaluated as
    `And([aa ANDMAYBE cc, bb])` -/
example : docsForm (.andMaybe (.require (.term "t" [97] 1) (.term "t" [98] 1)) (.term "t" [99] 1)) =
      .and [.term "t" [97] 1, .term "t" [98] 1] 1 ∧
    answer (.andMaybe (.require (.term "t" [97] 1) (.term "t" [98] 1)) (.term "t" [99] 1)) exIdx = [1] := by
  refine ⟨rfl, by decide⟩

/-! ### the positivity hypothesis is needed: a zero boost makes the array union drop documents
(`ArrayUnionMatcher` keeps a document only if its accumulated score is positive — except the first
of each part): three clauses in a scored, `needs_current=False` context -/

def zq : Query := .or [.term "t" [99] 0, .term "t" [120] 1, .term "t" [121] 1] 1
def zSeg : Segment := ⟨[⟨[⟨"t", 1, [tok 99 0], []⟩]⟩, ⟨[⟨"t", 1, [tok 99 0], []⟩]⟩], []⟩

example : (compile freqLeaf balancedOracle zSeg ⟨false, true⟩ zq).map (·.id) = [0] ∧
    zSeg.live.filter (fun i => sat zq (zSeg.doc i)) = [0, 1] ∧ ¬ PosQ zq := by
  refine ⟨?_, by decide, ?_⟩
  · simp [zq, zSeg, tok, compile, compileList, compoundL, orMany, unionAll, unionL, mergeWith, arrayParts, boostL,
      postings, Segment.live, Segment.size, Segment.doc, Doc.hasTerm, Doc.terms, Doc.tokens, Doc.field?,
      freqLeaf, Doc.weight, Doc.fboost, List.range, List.range.loop]
  · simp [zq, PosQ, PosQs]

end WM.C01
