import WM.Lemmas.CompoundWriter
import WM.Lemmas.CompoundSubFile
import WM.Lemmas.CompoundBytes
/-! C20 (compound files): a compound file exposes byte-identical member files; the sub-streams of a
`CompoundWriter` give back what was written to them for every buffer size and interleaving. -/
set_option linter.unusedSimpArgs false
namespace WM.C20
open WM.Compound

/-- `CompoundStorage.open_file(name).read()` returns exactly the bytes of the member file that was
    assembled in, for any members with distinct names, any bytes before the compound data
    (`basepos`) and whatever follows the members (the pickled directory). -/
theorem compound_member_bytes (before : Bytes) (files : List (String × Bytes)) (after : Bytes)
    (hnd : (files.map (·.1)).Nodup) (name : String) (data : Bytes) (hmem : (name, data) ∈ files) :
    openFile ((assemble before files).1 ++ after) (assemble before files).2.1 name = some data := by
  unfold assemble openFile
  simp only
  have hnames := copyFiles_names files (before.length + headerSize)
  have hin : name ∈ ((copyFiles (before.length + headerSize) files).2).map (·.name) := by
    rw [hnames]; exact List.mem_map.mpr ⟨(name, data), hmem, rfl⟩
  rcases lookup_isSome hin with ⟨e, he⟩
  rw [he]
  simp only [Option.map_some]
  rcases lookup_mem he with ⟨hedir, hename⟩
  rcases copyFiles_slice files (before.length + headerSize) (before ++ List.replicate headerSize 0) after
      (by simp) e hedir with ⟨d, hd, hslice⟩
  rw [hslice]
  -- distinct names: the data found is the data asked for
  congr 1
  rw [hename] at hd
  have : ∀ (l : List (String × Bytes)), (l.map (·.1)).Nodup → (name, d) ∈ l → (name, data) ∈ l → d = data := by
    intro l
    induction l with
    | nil => intro _ h; simp at h
    | cons a t ih =>
      intro hn h1 h2
      simp only [List.map_cons, List.nodup_cons] at hn
      simp only [List.mem_cons] at h1 h2
      rcases h1 with h1 | h1 <;> rcases h2 with h2 | h2
      · rw [← h1] at h2; exact ((Prod.mk.inj h2).2).symm
      · exfalso; apply hn.1; rw [← h1]; exact List.mem_map.mpr ⟨(name, data), h2, rfl⟩
      · exfalso; apply hn.1; rw [← h2]; exact List.mem_map.mpr ⟨(name, d), h1, rfl⟩
      · exact ih hn.2 h1 h2
  exact this files hnd hd hmem

/-- The directory lists exactly the member names, and the directory position is where the members end. -/
theorem compound_directory (before : Bytes) (files : List (String × Bytes)) :
    (assemble before files).2.1.map (·.name) = files.map (·.1)
      ∧ (assemble before files).2.2 = (assemble before files).1.length := by
  unfold assemble
  simp only
  refine ⟨copyFiles_names files _, ?_⟩
  simp [headerSize]; omega

example : openFile ((assemble [9, 9] [("a", [1, 2, 3]), ("b", []), ("c", [7])]).1 ++ [0xAA])
    (assemble [9, 9] [("a", [1, 2, 3]), ("b", []), ("c", [7])]).2.1 "c" = some [7] := by decide

/-- **The finished compound file, as bytes.**  `assemble` + `write_dir` (12 placeholder bytes at
    `basepos`, the members, the pickles, then the back-patch of `!q dirpos` / `!i length`) produce
    a file in which: the bytes before `basepos` are untouched; `CompoundStorage.__init__` reads
    back exactly the directory position and length and is positioned on exactly the pickled bytes;
    and every member (distinct names) is still byte-identical — the back-patch touches nothing but
    the header.  The pickles are an opaque blob (`pickle` is trusted to invert itself). -/
theorem compound_file_bytes (before : Bytes) (files : List (String × Bytes)) (pickled : Bytes)
    (hpos : ((assemble before files).2.2 : Int) < 2 ^ 63) (hlen : (pickled.length : Int) < 2 ^ 31)
    (hnd : (files.map (·.1)).Nodup) :
    ∃ file, assembleFile before files pickled = .ok file
      ∧ file.take before.length = before
      ∧ openDir file before.length = .ok ((assemble before files).2.2, pickled.length, pickled)
      ∧ ∀ name data, (name, data) ∈ files → openFile file (assemble before files).2.1 name = some data := by
  refine ⟨_, assembleFile_eq before files pickled hpos hlen, ?_, ?_, ?_⟩
  · simp only [List.append_assoc]
    exact List.take_left' rfl
  · have hd : (assemble before files).2.2
        = (before ++ WM.NumLists.encodeBE 8 (assemble before files).2.2 ++ WM.NumLists.encodeBE 4 pickled.length
            ++ (copyFiles (before.length + headerSize) files).1).length := by
      simp only [List.length_append, WM.NumLists.length_encodeBE]
      unfold assemble; simp only [headerSize]
    unfold openDir
    rw [WM.HashBytes.getNat_enc .q before.length (assemble before files).2.2
        (WM.StructFile.get_mid' before (WM.NumLists.encodeBE 8 (assemble before files).2.2)
          (WM.NumLists.encodeBE 4 pickled.length ++ (copyFiles (before.length + headerSize) files).1 ++ pickled)
          (by simp only [List.append_assoc]) rfl (WM.NumLists.length_encodeBE 8 _).symm)
        (by rw [WM.NumLists.cap_q]; exact hpos)]
    rw [WM.HashBytes.getNat_enc .i (before.length + 8) pickled.length
        (WM.StructFile.get_mid' (before ++ WM.NumLists.encodeBE 8 (assemble before files).2.2)
          (WM.NumLists.encodeBE 4 pickled.length) ((copyFiles (before.length + headerSize) files).1 ++ pickled)
          (by simp only [List.append_assoc]) (by simp [WM.NumLists.length_encodeBE])
          (WM.NumLists.length_encodeBE 4 _).symm)
        (by rw [WM.NumLists.cap_i]; exact hlen)]
    simp only [bind, Except.bind]
    rw [List.drop_left' hd.symm]
  · intro name data hmem
    have hpre : (before ++ WM.NumLists.encodeBE 8 (assemble before files).2.2
        ++ WM.NumLists.encodeBE 4 pickled.length).length = before.length + headerSize := by
      simp only [List.length_append, WM.NumLists.length_encodeBE, headerSize]
    have := openFile_layout before files _ pickled hpre hnd name data hmem
    unfold assemble
    exact this

example : assembleFile [9] [("a", [1, 2]), ("b", [3])] [0x80, 0x4E]
      = .ok [9, 0, 0, 0, 0, 0, 0, 0, 16, 0, 0, 0, 2, 1, 2, 3, 0x80, 0x4E] :=
  (assembleFile_eq [9] [("a", [1, 2]), ("b", [3])] [0x80, 0x4E] (by decide) (by decide)).trans
    (congrArg _ (by decide +kernel))

/-! ### CompoundWriter -/

/-- **Sub-streams are transparent**: after any sequence of `create_file` / `write` calls, with any
    buffer size (also 0 or negative), `_readback()` yields for every stream exactly the bytes
    written to it, streams in creation order — however the writes were interleaved in the shared
    temporary file. -/
theorem compound_writer_streams (buffersize : Int) (ops : List Op) :
    (ops.foldl step ⟨buffersize, [], []⟩).readback = ops.foldl specStep [] := by
  have key : ∀ (ops : List Op) (w : Writer) (s : List (String × Bytes)),
      Forall2 (Rel w.temp) w.streams s → (w.streams.map (·.1)).Nodup →
      Forall2 (Rel (ops.foldl step w).temp) (ops.foldl step w).streams (ops.foldl specStep s) := by
    intro ops
    induction ops with
    | nil => intro w s h _; exact h
    | cons op t ih =>
      intro w s h hn
      rcases step_rel w s op h hn with ⟨h1, h2⟩
      exact ih (step w op) (specStep s op) h1 h2
  have hfin := key ops ⟨buffersize, [], []⟩ [] .nil (by simp)
  have hread : ∀ (temp : Bytes) (st : List (String × SubStream)) (s : List (String × Bytes)),
      Forall2 (Rel temp) st s → (st.map fun (name, ss) => (name, readBlocks temp ss.close)) = s := by
    intro temp st s h
    induction h with
    | nil => rfl
    | cons h _ ih =>
      simp only [List.map_cons]
      rw [ih, readBlocks_close _ _ h.2.1, h.2.2]
      congr 1
      exact Prod.ext h.1 rfl
  exact hread _ _ _ hfin

/-- Non-vacuity: two interleaved streams, buffer size 4 (flushes in the middle of both). -/
example : (([Op.create "a", .create "b", .write "a" [1, 2], .write "b" [10, 11, 12, 13, 14],
      .write "a" [3, 4, 5], .write "a" [6], .write "b" [15]].foldl step ⟨4, [], []⟩).readback)
    = [("a", [1, 2, 3, 4, 5, 6]), ("b", [10, 11, 12, 13, 14, 15])] := by
  rw [compound_writer_streams]; decide


/-! ### `SubFile`: the member view of a compound file that is not memory-mapped -/

/-- `read(n)` at a non-negative position returns the next at most `n` bytes **of the member**
    (never of a neighbouring member) and advances by their number — what an in-memory file over
    the member bytes does. -/
theorem subfile_read (parent : Bytes) (s : SubFile) (p : Nat) (hp : s.pos = p) (n : Nat) :
    ∃ s', s.read parent (some (n : Int)) = some (((s.member parent).drop p).take n, s') ∧
      s'.offset = s.offset ∧ s'.length = s.length ∧ s'.pos = ((p + min n (s.length - p) : Nat) : Int) :=
  SubFile.read_spec parent s p hp n

/-- `read()` returns the rest of the member. -/
theorem subfile_read_all (parent : Bytes) (s : SubFile) (p : Nat) (hp : s.pos = p) :
    ∃ s', s.read parent none = some ((s.member parent).drop p, s') ∧
      s'.offset = s.offset ∧ s'.length = s.length ∧ s'.pos = ((max p s.length : Nat) : Int) :=
  SubFile.read_all_spec parent s p hp

/-- Chunked reading (`while chunk := f.read(n)`), for every chunk size `n > 0`: the concatenation of
    the chunks is the rest of the member; from position 0, the member itself. -/
theorem subfile_read_chunks (parent : Bytes) (s : SubFile) (p : Nat) (hp : s.pos = p) (n : Nat) (hn : 0 < n)
    (hfit : s.offset + s.length ≤ parent.length) :
    ∃ s', SubFile.readChunks parent (n : Int) s (s.length + 1) = some ((s.member parent).drop p, s') ∧
      s'.pos = ((max p s.length : Nat) : Int) := by
  rcases SubFile.readChunks_spec parent n hn (s.length + 1) s p hp hfit (by omega) with ⟨s', h1, _, _, h4⟩
  exact ⟨s', h1, h4⟩

/-- … composed with `compound_member_bytes`' slices: a `SubFile` on the range the directory gives
    reads the member that was assembled in. -/
example : ∃ s', SubFile.readChunks [9, 9, 1, 2, 3, 4, 5, 7, 7] 2 ⟨2, 5, 0⟩ 6 = some ([1, 2, 3, 4, 5], s') ∧ s'.pos = 5 := by
  rcases subfile_read_chunks [9, 9, 1, 2, 3, 4, 5, 7, 7] ⟨2, 5, 0⟩ 0 rfl 2 (by omega) (by decide) with ⟨s', h1, h2⟩
  exact ⟨s', h1, h2⟩
example : (SubFile.mk 2 5 3).read [9, 9, 1, 2, 3, 4, 5, 7, 7] (some 10) = some ([4, 5], ⟨2, 5, 5⟩) := by decide

end WM.C20
