import WM.Lemmas.FaithfulTree
import WM.Lemmas.AllIds
/-!
# C11 — every matcher is a faithful forward cursor over its result list

`den s m` (Layer S, `WM/Spec/Den.lean` + `WM/Model/MatcherTree.lean`) is the remaining result list
of the matcher tree `m` of shape `s`; `WF s m` is the invariant of DESIGN Appendix E; `ops s` are
the operations mirrored from whoosh.  All statements are for every shape (every tree of ListMatcher,
W3 block leaf, Null, Union, DisjunctionMax, Intersection, AndNot, AndMaybe, Require, boost, Filter,
Inverse, ConstantScore nodes), every state and every argument.
-/
namespace WM.C11
open WM.Matcher

/-- ids strictly increase -/
theorem sorted (s : Shape) (m : St s) (h : WF s m) : Asc (den s m) :=
  (tree_faithful s).asc m h

/-- `is_active()` says exactly whether something is left -/
theorem active_iff (s : Shape) (m : St s) (h : WF s m) : (ops s).isActive m = true ↔ den s m ≠ [] :=
  (tree_faithful s).active m h

/-- `id()` and `score()` read the head of the remaining list; `next()` drops exactly the head,
    never raises on an active matcher and preserves the invariant and the complete list -/
theorem refine_next (s : Shape) (m : St s) (h : WF s m) (ha : (ops s).isActive m = true) :
    ∃ x r L m', den s m = (x, r) :: L ∧ (ops s).id m = .ok x ∧ (ops s).score m = .ok r ∧
      (ops s).next m = .ok m' ∧ WF s m' ∧ den s m' = L ∧ full s m' = full s m := by
  have hne := (active_iff s m h).1 ha
  obtain ⟨x, r, L, hd⟩ := exists_cons_of_ne_nil hne
  obtain ⟨m', h1, h2, h3, -, h5⟩ := (tree_faithful s).next m x r L h hd
  exact ⟨x, r, L, m', hd, (tree_faithful s).id m x r L h hd, (tree_faithful s).score m x r L h hd, h1, h2, h3, h5⟩

/-- `skip_to(t)` lands on the first entry with id ≥ t -/
theorem refine_skipTo (s : Shape) (m : St s) (t : Nat) (h : WF s m) (ha : (ops s).isActive m = true) :
    ∃ m', (ops s).skipTo m t = .ok m' ∧ WF s m' ∧ den s m' = dropBelow t (den s m) ∧
      full s m' = full s m := by
  obtain ⟨m', h1, h2, h3, -, -, h6⟩ := (tree_faithful s).skipTo m t h ((active_iff s m h).1 ha)
  exact ⟨m', h1, h2, h3, h6⟩

/-- … and does not move when `t` is not beyond the current id -/
theorem skipTo_noop (s : Shape) (m : St s) (t x : Nat) (h : WF s m) (ha : (ops s).isActive m = true)
    (hid : (ops s).id m = .ok x) (ht : t ≤ x) :
    ∃ m', (ops s).skipTo m t = .ok m' ∧ den s m' = den s m := by
  obtain ⟨m', h1, -, h3, -⟩ := refine_skipTo s m t h ha
  obtain ⟨x', r, L, hd⟩ := exists_cons_of_ne_nil ((active_iff s m h).1 ha)
  have := (tree_faithful s).id m x' r L h hd
  rw [hid] at this; cases this
  exact ⟨m', h1, by rw [h3, hd]; exact dropBelow_of_le_head ht⟩

/-- `reset()` returns to the complete list -/
theorem reset (s : Shape) (m : St s) (h : WF s m) :
    ∃ m', (ops s).reset m = .ok m' ∧ WF s m' ∧ den s m' = full s m ∧ full s m' = full s m :=
  (tree_faithful s).reset m h

/-- every operation preserves the invariant (collected from the statements above) -/
theorem wf_preserved (s : Shape) (m : St s) (h : WF s m) :
    (∀ m', (ops s).isActive m = true → (ops s).next m = .ok m' → WF s m') ∧
    (∀ t m', (ops s).isActive m = true → (ops s).skipTo m t = .ok m' → WF s m') ∧
    (∀ m', (ops s).reset m = .ok m' → WF s m') := by
  refine ⟨fun m' ha hn => ?_, fun t m' ha hs => ?_, fun m' hr => ?_⟩
  · obtain ⟨_, _, _, m'', _, _, _, h1, h2, _⟩ := refine_next s m h ha
    rw [hn] at h1; cases h1; exact h2
  · obtain ⟨m'', h1, h2, _⟩ := refine_skipTo s m t h ha
    rw [hs] at h1; cases h1; exact h2
  · obtain ⟨m'', h1, h2, _⟩ := reset s m h
    rw [hr] at h1; cases h1; exact h2

/-! ## the constructors establish the invariant (`__init__` of the aligning classes) -/

/-- `IntersectionMatcher(a, b)`, `AndNotMatcher(a, b)`, `AndMaybeMatcher(a, b)`, `RequireMatcher(a, b)`,
    `FilterMatcher(c, ids, exclude, boost)`, `InverseMatcher(c, limit, missing, weight, id)` built from
    well-formed sub-matchers in **any** relative position never raise, are well formed and mean what
    Layer S says (`UnionMatcher`, `DisjunctionMaxMatcher`, boost and constant-score wrappers do not
    move their sub-matchers: their `WF` is the conjunction of the sub-matchers' by definition). -/
theorem constructors_wf (a b : Any) (ha : WF a.1 a.2) (hb : WF b.1 b.2) :
    (∃ m, mkInter a b = .ok m ∧ WF m.1 m.2 ∧ m.den = interWith (· + ·) a.den b.den) ∧
    (∃ m, mkAndNot a b = .ok m ∧ WF m.1 m.2 ∧ m.den = diff a.den b.den) ∧
    (∃ m, mkAndMaybe a b = .ok m ∧ WF m.1 m.2 ∧ m.den = leftJoin a.den b.den) ∧
    (∃ m, mkRequire a b = .ok m ∧ WF m.1 m.2 ∧ m.den = interWith (fun s _ => s) a.den b.den) ∧
    (∀ ids excl boost, ∃ m, mkFilter a ids excl boost = .ok m ∧ WF m.1 m.2 ∧
        m.den = scale boost (keepIds ids excl a.den)) ∧
    (∀ limit missing w i, ∃ m, mkInverse a limit missing w i = .ok m ∧ WF m.1 m.2 ∧
        m.den = complement i limit missing a.den w) := by
  obtain ⟨sa, a⟩ := a
  obtain ⟨sb, b⟩ := b
  have FA := tree_faithful sa
  have FB := tree_faithful sb
  refine ⟨?_, ?_, ?_, ?_, ?_, ?_⟩
  · obtain ⟨m', h1, h2, h3, -⟩ := Inter.init_spec (· + ·) FA FB a b ha hb
    exact ⟨⟨.inter sa sb, m'⟩, by simp [mkInter, h1, bind, Except.bind]; rfl, h2, h3⟩
  · obtain ⟨m', h1, h2, h3, -⟩ := AndNot.init_spec FA FB a b ha hb
    exact ⟨⟨.andNot sa sb, m'⟩, by simp [mkAndNot, h1, bind, Except.bind]; rfl, h2, h3⟩
  · obtain ⟨m', h1, h2, h3, -⟩ := AndMaybe.init_spec FA FB a b ha hb
    exact ⟨⟨.andMaybe sa sb, m'⟩, by simp [mkAndMaybe, h1, bind, Except.bind]; rfl, h2, h3⟩
  · obtain ⟨m', h1, h2, h3, -⟩ := Inter.init_spec (fun s _ => s) FA FB a b ha hb
    exact ⟨⟨.require sa sb, m'⟩, by simp [mkRequire, h1, bind, Except.bind]; rfl, h2, h3⟩
  · intro ids excl boost
    obtain ⟨m', h1, h2, h3, -⟩ := Filter.init_spec FA a ids excl boost ha
    exact ⟨⟨.filter sa, m'⟩, by simp [mkFilter, h1, bind, Except.bind]; rfl, h2, h3⟩
  · intro limit missing w i
    obtain ⟨m', h1, h2, h3, -⟩ := Inverse.init_spec FA a limit missing w i ha
    exact ⟨⟨.inverse sa, m'⟩, by simp [mkInverse, h1, bind, Except.bind]; rfl, h2, h3⟩

/-! ## `replace()` without a threshold, `all_ids()` -/

/-- `replace()` with no quality threshold never raises, returns a well-formed tree (possibly of another
    shape: exhausted sub-matchers are shed) and preserves the remaining list - for every well-formed tree,
    whatever its scores and boosts -/
theorem replace0 (s : Shape) (m : St s) (h : WF s m) :
    ∃ c r, replace s m 0 = .ok (c, r) ∧ WF r.1 r.2 ∧ r.den = den s m ∧ (c = false → r = ⟨s, m⟩) := by
  obtain ⟨⟨c, r⟩, h1, h2⟩ := replace0_spec s m h
  exact ⟨c, r, h1, h2.wf, h2.eq, h2.same⟩

/-- the base-class `all_ids()` generator (step; `replace()` every tenth step) yields exactly the ids of
    the remaining list, i.e. equals stepping.  (The overrides - `ListMatcher`, `IntersectionMatcher`,
    `FilterMatcher`, `WrappingMatcher.all_ids` - are compared with stepping on the real code only.) -/
theorem all_ids_partial (m : Any) (h : WF m.1 m.2) : allIds m = .ok (m.den.map (·.1)) :=
  allIds_spec m h

/-! ## path independence -/

/-- Whatever program of `next`/`skip_to`/`reset` calls is allowed on the list model runs without
    error on the matcher and leaves it well formed on exactly the list the model predicts: the state
    reached - hence everything read there (`id`, `score`, `is_active`) - depends only on the list
    position, not on the calls used to reach it. -/
theorem program (s : Shape) (prog : List Cmd) (m : St s) (h : WF s m) (F L : Den)
    (hs : runSpec prog (full s m, den s m) = some (F, L)) :
    ∃ m', run s prog m = .ok m' ∧ WF s m' ∧ den s m' = L ∧ full s m' = F := by
  induction prog generalizing m with
  | nil =>
    simp only [runSpec, Option.some.injEq, Prod.mk.injEq] at hs
    exact ⟨m, rfl, h, hs.2, hs.1⟩
  | cons c cs ih =>
    simp only [runSpec] at hs
    cases c with
    | next =>
      cases hd : den s m with
      | nil => rw [hd] at hs; simp [Cmd.spec] at hs
      | cons p L' =>
        obtain ⟨x, r⟩ := p
        rw [hd] at hs
        simp only [Cmd.spec, Option.bind_some] at hs
        obtain ⟨m1, h1, h2, h3, -, h5⟩ := (tree_faithful s).next m x r L' h hd
        obtain ⟨m', g1, g2⟩ := ih m1 h2 (by rw [h3, h5]; exact hs)
        exact ⟨m', by simp [run, Cmd.run, h1, g1, Except.bind], g2⟩
    | skipTo t =>
      cases hd : den s m with
      | nil => rw [hd] at hs; simp [Cmd.spec] at hs
      | cons p L' =>
        rw [hd] at hs
        simp only [Cmd.spec, Option.bind_some] at hs
        obtain ⟨m1, h1, h2, h3, -, -, h6⟩ := (tree_faithful s).skipTo m t h (by rw [hd]; simp)
        obtain ⟨m', g1, g2⟩ := ih m1 h2 (by rw [h3, h6, hd]; exact hs)
        exact ⟨m', by simp [run, Cmd.run, h1, g1, Except.bind], g2⟩
    | reset =>
      simp only [Cmd.spec, Option.bind_some] at hs
      obtain ⟨m1, h1, h2, h3, h4⟩ := (tree_faithful s).reset m h
      obtain ⟨m', g1, g2⟩ := ih m1 h2 (by rw [h3, h4]; exact hs)
      exact ⟨m', by simp [run, Cmd.run, h1, g1, Except.bind], g2⟩

/-! ## non-vacuity: a concrete well-formed tree on which every hypothesis above holds -/

/-- `AndNot([5, 9], [3, 5])` - the example from DESIGN §6.3 on which the pinned tree leaks document 5 -/
def exAndNot : R Any :=
  mkAndNot ⟨.list, ⟨[5, 9], [1, 1], 0, true⟩⟩ ⟨.list, ⟨[3, 5], [1, 1], 0, true⟩⟩

example : denOf exAndNot = some ([(9, 1)], true) := by decide +kernel

example : WF .list (⟨[5, 9], [1, 1], 0, true⟩ : ListM) := by
  show ListM.WF _
  exact ⟨by decide, rfl⟩

/-- the base `all_ids()` loop on that tree -/
example : (exAndNot.bind allIds).toOption = some [9] := by decide +kernel

end WM.C11
