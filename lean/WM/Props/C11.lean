import WM.Lemmas.FaithfulTree
import WM.Lemmas.AllIds
import WM.Lemmas.AllIdsOver
import WM.Lemmas.FaithfulReads
/-!
# C11 — every matcher is a faithful forward cursor over its result list

`den s m` (Layer S, `WM/Spec/Den.lean` + `WM/Model/MatcherTree.lean`) is the remaining result list
of the matcher tree `m` of shape `s`; `WF s m` is the invariant of DESIGN Appendix E; `ops s` are
the operations mirrored from whoosh.  All statements are for every shape (every tree of ListMatcher,
W3 block leaf, Null, Union, DisjunctionMax, Intersection, AndNot, AndMaybe, Require, boost, Filter,
Inverse, ConstantScore, MultiMatcher and ArrayUnionMatcher nodes), every state and every argument.
-/
namespace WM.C11
open WM.Matcher

/-- ids strictly increase -/
theorem sorted (s : Shape) (m : St s) (h : WF s m) : Asc (den s m) :=
  (tree_faithful s).asc m h

/-- `is_active()` says exactly whether something is left -/
theorem active_iff (s : Shape) (m : St s) (h : WF s m) : (ops s).isActive m = true ↔ den s m ≠ [] :=
  (tree_faithful s).active m h

/-- `id()` and `score()` read the head of the remaining list; `next()` drops exactly the head,
    never raises on an active matcher and preserves the invariant and the complete list -/
theorem refine_next (s : Shape) (m : St s) (h : WF s m) (ha : (ops s).isActive m = true) :
    ∃ x r L m', den s m = (x, r) :: L ∧ (ops s).id m = .ok x ∧ (ops s).score m = .ok r ∧
      (ops s).next m = .ok m' ∧ WF s m' ∧ den s m' = L ∧ full s m' = full s m := by
  have hne := (active_iff s m h).1 ha
  obtain ⟨x, r, L, hd⟩ := exists_cons_of_ne_nil hne
  obtain ⟨m', h1, h2, h3, -, h5⟩ := (tree_faithful s).next m x r L h hd
  exact ⟨x, r, L, m', hd, (tree_faithful s).id m x r L h hd, (tree_faithful s).score m x r L h hd, h1, h2, h3, h5⟩

/-- `skip_to(t)` lands on the first entry with id ≥ t -/
theorem refine_skipTo (s : Shape) (m : St s) (t : Nat) (h : WF s m) (ha : (ops s).isActive m = true) :
    ∃ m', (ops s).skipTo m t = .ok m' ∧ WF s m' ∧ den s m' = dropBelow t (den s m) ∧
      full s m' = full s m := by
  obtain ⟨m', h1, h2, h3, -, -, h6⟩ := (tree_faithful s).skipTo m t h ((active_iff s m h).1 ha)
  exact ⟨m', h1, h2, h3, h6⟩

/-- … and does not move when `t` is not beyond the current id -/
theorem skipTo_noop (s : Shape) (m : St s) (t x : Nat) (h : WF s m) (ha : (ops s).isActive m = true)
    (hid : (ops s).id m = .ok x) (ht : t ≤ x) :
    ∃ m', (ops s).skipTo m t = .ok m' ∧ den s m' = den s m := by
  obtain ⟨m', h1, -, h3, -⟩ := refine_skipTo s m t h ha
  obtain ⟨x', r, L, hd⟩ := exists_cons_of_ne_nil ((active_iff s m h).1 ha)
  have := (tree_faithful s).id m x' r L h hd
  rw [hid] at this; cases this
  exact ⟨m', h1, by rw [h3, hd]; exact dropBelow_of_le_head ht⟩

/-- `reset()` returns to the complete list -/
theorem reset (s : Shape) (m : St s) (h : WF s m) :
    ∃ m', (ops s).reset m = .ok m' ∧ WF s m' ∧ den s m' = full s m ∧ full s m' = full s m :=
  (tree_faithful s).reset m h

/-- every operation preserves the invariant (collected from the statements above) -/
theorem wf_preserved (s : Shape) (m : St s) (h : WF s m) :
    (∀ m', (ops s).isActive m = true → (ops s).next m = .ok m' → WF s m') ∧
    (∀ t m', (ops s).isActive m = true → (ops s).skipTo m t = .ok m' → WF s m') ∧
    (∀ m', (ops s).reset m = .ok m' → WF s m') := by
  refine ⟨fun m' ha hn => ?_, fun t m' ha hs => ?_, fun m' hr => ?_⟩
  · obtain ⟨_, _, _, m'', _, _, _, h1, h2, _⟩ := refine_next s m h ha
    rw [hn] at h1; cases h1; exact h2
  · obtain ⟨m'', h1, h2, _⟩ := refine_skipTo s m t h ha
    rw [hs] at h1; cases h1; exact h2
  · obtain ⟨m'', h1, h2, _⟩ := reset s m h
    rw [hr] at h1; cases h1; exact h2

/-! ## the constructors establish the invariant (`__init__` of the aligning classes) -/

/-- `IntersectionMatcher(a, b)`, `AndNotMatcher(a, b)`, `AndMaybeMatcher(a, b)`, `RequireMatcher(a, b)`,
    `FilterMatcher(c, ids, exclude, boost)`, `InverseMatcher(c, limit, missing, weight, id)` built from
    well-formed sub-matchers in **any** relative position never raise, are well formed and mean what
    Layer S says (`UnionMatcher`, `DisjunctionMaxMatcher`, boost and constant-score wrappers do not
    move their sub-matchers: their `WF` is the conjunction of the sub-matchers' by definition). -/
theorem constructors_wf (a b : Any) (ha : WF a.1 a.2) (hb : WF b.1 b.2) :
    (∃ m, mkInter a b = .ok m ∧ WF m.1 m.2 ∧ m.den = interWith (· + ·) a.den b.den) ∧
    (∃ m, mkAndNot a b = .ok m ∧ WF m.1 m.2 ∧ m.den = diff a.den b.den) ∧
    (∃ m, mkAndMaybe a b = .ok m ∧ WF m.1 m.2 ∧ m.den = leftJoin a.den b.den) ∧
    (∃ m, mkRequire a b = .ok m ∧ WF m.1 m.2 ∧ m.den = interWith (fun s _ => s) a.den b.den) ∧
    (∀ ids excl boost, ∃ m, mkFilter a ids excl boost = .ok m ∧ WF m.1 m.2 ∧
        m.den = scale boost (keepIds ids excl a.den)) ∧
    (∀ limit missing w i, ∃ m, mkInverse a limit missing w i = .ok m ∧ WF m.1 m.2 ∧
        m.den = complement i limit missing a.den w) := by
  obtain ⟨sa, a⟩ := a
  obtain ⟨sb, b⟩ := b
  have FA := tree_faithful sa
  have FB := tree_faithful sb
  refine ⟨?_, ?_, ?_, ?_, ?_, ?_⟩
  · obtain ⟨m', h1, h2, h3, -⟩ := Inter.init_spec (· + ·) FA FB a b ha hb
    exact ⟨⟨.inter sa sb, m'⟩, by simp [mkInter, h1, bind, Except.bind]; rfl, h2, h3⟩
  · obtain ⟨m', h1, h2, h3, -⟩ := AndNot.init_spec FA FB a b ha hb
    exact ⟨⟨.andNot sa sb, m'⟩, by simp [mkAndNot, h1, bind, Except.bind]; rfl, h2, h3⟩
  · obtain ⟨m', h1, h2, h3, -⟩ := AndMaybe.init_spec FA FB a b ha hb
    exact ⟨⟨.andMaybe sa sb, m'⟩, by simp [mkAndMaybe, h1, bind, Except.bind]; rfl, h2, h3⟩
  · obtain ⟨m', h1, h2, h3, -⟩ := Inter.init_spec (fun s _ => s) FA FB a b ha hb
    exact ⟨⟨.require sa sb, m'⟩, by simp [mkRequire, h1, bind, Except.bind]; rfl, h2, h3⟩
  · intro ids excl boost
    obtain ⟨m', h1, h2, h3, -⟩ := Filter.init_spec FA a ids excl boost ha
    exact ⟨⟨.filter sa, m'⟩, by simp [mkFilter, h1, bind, Except.bind]; rfl, h2, h3⟩
  · intro limit missing w i
    obtain ⟨m', h1, h2, h3, -⟩ := Inverse.init_spec FA a limit missing w i ha
    exact ⟨⟨.inverse sa, m'⟩, by simp [mkInverse, h1, bind, Except.bind]; rfl, h2, h3⟩

/-- `MultiMatcher(matchers, idoffsets)` over well-formed sub-matchers of one class whose complete lists, each
    shifted by its offset, ascend through the segments (and whose remaining lists are parts of the complete
    ones - any state the sub-matchers were stepped to): well formed, and it means the concatenation of the
    shifted remaining lists (Layer S `shift`, `++`). -/
theorem multi_constructor_wf (c : Shape) (segs : List (St c × Nat)) (hw : ∀ s ∈ segs, WF c s.1)
    (hsub : ∀ s ∈ segs, IdSub (den c s.1) (full c s.1)) (hasc : Asc (Multi.denOf (full c) segs)) :
    WF (.multi c) (mkMulti c segs).2 ∧ (mkMulti c segs).den = Multi.denOf (den c) segs := by
  obtain ⟨g1, g2, -, g4, -, -⟩ := Multi.nextMatcher_spec (tree_faithful c) (m := ⟨segs, 0⟩) hw
  refine ⟨?_, ?_⟩
  · show Multi.WF (ops c) (den c) (full c) (WF c) (Multi.nextMatcher (ops c) ⟨segs, 0⟩)
    exact ⟨by rw [g4]; exact hw, by rw [g4]; exact hsub, by rw [g4]; exact hasc, g2⟩
  · show Multi.den (den c) (Multi.nextMatcher (ops c) ⟨segs, 0⟩) = _
    rw [g1]; rfl

/-- `ArrayUnionMatcher(submatchers, doccount, boost, partsize)` over well-formed sub-matchers of one class with
    positive scores (the class tells documents from empty buffer cells by `a[i] > 0`), a positive boost and a
    positive part size: never raises, is well formed and means the boosted union of the sub-matchers' lists
    below `doccount` (Layer S `sumDens`, `scale`, `below`). -/
theorem aunion_constructor_wf (c : Shape) (subs : List (St c)) (dc : Nat) (boost : Rat) (ps : Nat)
    (hw : ∀ s ∈ subs, WF c s) (hb : 0 < boost) (hps : 0 < ps)
    (hdp : ∀ s ∈ subs, ∀ p ∈ den c s, 0 < p.2) (hfp : ∀ s ∈ subs, ∀ p ∈ full c s, 0 < p.2) :
    ∃ m, mkAUnion c subs dc boost ps = .ok m ∧ WF m.1 m.2 ∧
      m.den = below dc (sumDens (subs.map fun s => scale boost (den c s))) := by
  have FA := tree_faithful c
  obtain ⟨x, x1, x2, x3⟩ := AUnion.minId_spec FA subs dc hw
  have hne : (ps == 0) = false := by simp; omega
  obtain ⟨m', r1, r2, r3, r4, r5, -, -, r8, -, r10⟩ :=
    AUnion.readPart_spec FA (⟨subs, dc, boost, ps, List.replicate ps 0, x, 0, 0⟩ : AUnion (St c)) hps hb hw hdp hfp x2
  refine ⟨⟨.aunion c, m'⟩, ?_, ?_, r8⟩
  · simp only [mkAUnion, AUnion.init, hne, x1, bind, Except.bind]
    simp only [Bool.false_eq_true, ↓reduceIte, r1]
    rfl
  · show AUnion.WF (den c) (full c) (WF c) m'
    refine ⟨r2, ?_⟩
    intro hl
    rw [r3, r5] at hl
    rcases x3 with hx | ⟨hx, -⟩
    · have := r10 hx hl
      rw [r3, r4]; exact this
    · exact absurd hl (by show ¬ x < dc; omega)

/-! ## `replace()` without a threshold, `all_ids()` -/

/-- `replace()` with no quality threshold never raises, returns a well-formed tree (possibly of another
    shape: exhausted sub-matchers are shed) and preserves the remaining list - for every well-formed tree,
    whatever its scores and boosts -/
theorem replace0 (s : Shape) (m : St s) (h : WF s m) :
    ∃ c r, replace s m 0 = .ok (c, r) ∧ WF r.1 r.2 ∧ r.den = den s m ∧ (c = false → r = ⟨s, m⟩) := by
  obtain ⟨⟨c, r⟩, h1, h2⟩ := replace0_spec s m h
  exact ⟨c, r, h1, h2.wf, h2.eq, h2.same⟩

/-- the base-class `all_ids()` generator (step; `replace()` every tenth step) yields exactly the ids of
    the remaining list, i.e. equals stepping - in every state of every tree -/
theorem all_ids_base (m : Any) (h : WF m.1 m.2) : allIds m = .ok (m.den.map (·.1)) :=
  allIds_spec m h

/-- `all_ids()` as each class defines it (`allIdsO`: the overrides of `ListMatcher`, `IntersectionMatcher`
    (also behind `RequireMatcher`), `WrappingMatcher`/`ConstantScoreWrapperMatcher`, `FilterMatcher`,
    `MultiMatcher`, `ArrayUnionMatcher`, `NullMatcher`; the base generator elsewhere) never raises and yields a strictly ascending
    list that contains every id still to come and only ids of the complete list - in any state.  Hypothesis
    `AllIdsPre`: at the sub-matchers whose `all_ids()` yields the remaining ids (the base generator,
    `ArrayUnionMatcher`) the remaining list is part of the complete list; that is so in every state reached by cursor operations (`all_ids_pre_preserved`). -/
theorem all_ids (s : Shape) (m : St s) (h : WF s m) (hp : AllIdsPre s m) :
    ∃ L, allIdsO s m = .ok L ∧ L.Pairwise (· < ·) ∧ (∀ p ∈ den s m, p.1 ∈ L) ∧
      (∀ x ∈ L, ∃ r, (x, r) ∈ full s m) := by
  obtain ⟨L, h1, h2⟩ := allIdsO_spec s m h hp
  exact ⟨L, h1, h2.asc, h2.lower, h2.upper⟩

/-- … hence on a matcher at its start (nothing consumed: remaining list = complete list) every class's own
    `all_ids()` equals stepping -/
theorem all_ids_fresh (s : Shape) (m : St s) (h : WF s m) (hp : AllIdsPre s m) (hf : den s m = full s m) :
    allIdsO s m = .ok ((den s m).map (·.1)) :=
  allIdsO_fresh s m h hp hf

/-- "the remaining list is part of the complete list" survives `next`, `skip_to` and `reset` (any shape) -/
theorem all_ids_pre_preserved (s : Shape) (m : St s) (h : WF s m) (hs : IdSub (den s m) (full s m)) :
    (∀ m', den s m ≠ [] → (ops s).next m = .ok m' → IdSub (den s m') (full s m')) ∧
    (∀ t m', den s m ≠ [] → (ops s).skipTo m t = .ok m' → IdSub (den s m') (full s m')) ∧
    (∀ m', (ops s).reset m = .ok m' → IdSub (den s m') (full s m')) :=
  ⟨fun m' hne hn => idSub_next s m m' h hs hne hn, fun t m' hne hn => idSub_skipTo s m m' t h hs hne hn,
    fun m' hn => idSub_reset s m m' h hn⟩

/-! ## path independence -/

/-- Whatever program of `next`/`skip_to`/`reset` calls is allowed on the list model runs without
    error on the matcher and leaves it well formed on exactly the list the model predicts: the state
    reached - hence everything read there (`id`, `score`, `is_active`) - depends only on the list
    position, not on the calls used to reach it. -/
theorem program (s : Shape) (prog : List Cmd) (m : St s) (h : WF s m) (F L : Den)
    (hs : runSpec prog (full s m, den s m) = some (F, L)) :
    ∃ m', run s prog m = .ok m' ∧ WF s m' ∧ den s m' = L ∧ full s m' = F := by
  induction prog generalizing m with
  | nil =>
    simp only [runSpec, Option.some.injEq, Prod.mk.injEq] at hs
    exact ⟨m, rfl, h, hs.2, hs.1⟩
  | cons c cs ih =>
    simp only [runSpec] at hs
    cases c with
    | next =>
      cases hd : den s m with
      | nil => rw [hd] at hs; simp [Cmd.spec] at hs
      | cons p L' =>
        obtain ⟨x, r⟩ := p
        rw [hd] at hs
        simp only [Cmd.spec, Option.bind_some] at hs
        obtain ⟨m1, h1, h2, h3, -, h5⟩ := (tree_faithful s).next m x r L' h hd
        obtain ⟨m', g1, g2⟩ := ih m1 h2 (by rw [h3, h5]; exact hs)
        exact ⟨m', by simp [run, Cmd.run, h1, g1, Except.bind], g2⟩
    | skipTo t =>
      cases hd : den s m with
      | nil => rw [hd] at hs; simp [Cmd.spec] at hs
      | cons p L' =>
        rw [hd] at hs
        simp only [Cmd.spec, Option.bind_some] at hs
        obtain ⟨m1, h1, h2, h3, -, -, h6⟩ := (tree_faithful s).skipTo m t h (by rw [hd]; simp)
        obtain ⟨m', g1, g2⟩ := ih m1 h2 (by rw [h3, h6, hd]; exact hs)
        exact ⟨m', by simp [run, Cmd.run, h1, g1, Except.bind], g2⟩
    | reset =>
      simp only [Cmd.spec, Option.bind_some] at hs
      obtain ⟨m1, h1, h2, h3, h4⟩ := (tree_faithful s).reset m h
      obtain ⟨m', g1, g2⟩ := ih m1 h2 (by rw [h3, h4]; exact hs)
      exact ⟨m', by simp [run, Cmd.run, h1, g1, Except.bind], g2⟩

/-- … the same with `replace()` (no threshold) anywhere in the program: the replacement may be a tree of another
    shape, the list it stands on is still the one the list model predicts.  (`copy()` is the identity on model
    values; `skip_to_quality`/`replace(q)` are not path-independent by design - their contract is C12
    `skip_keeps`/`replace_keeps_partial`.) -/
theorem program_replace (prog : List CmdR) (m : Any) (h : WF m.1 m.2) (L : Den)
    (hs : runSpecR prog m.den = some L) : ∃ m', runR prog m = .ok m' ∧ WF m'.1 m'.2 ∧ m'.den = L := by
  induction prog generalizing m with
  | nil =>
    simp only [runSpecR, Option.some.injEq] at hs
    exact ⟨m, rfl, h, hs⟩
  | cons c cs ih =>
    obtain ⟨s, m⟩ := m
    simp only [runSpecR] at hs
    cases c with
    | next =>
      cases hd : den s m with
      | nil => simp only [Any.den] at hs; rw [hd] at hs; simp [CmdR.spec] at hs
      | cons p L' =>
        obtain ⟨x, r⟩ := p
        simp only [Any.den] at hs
        rw [hd] at hs
        simp only [CmdR.spec, Option.bind_some] at hs
        obtain ⟨m1, h1, h2, h3, -, -⟩ := (tree_faithful s).next m x r L' h hd
        obtain ⟨m', g1, g2⟩ := ih ⟨s, m1⟩ h2 (by show runSpecR cs (den s m1) = _; rw [h3]; exact hs)
        exact ⟨m', by simp only [runR, CmdR.run, h1, bind, Except.bind]; exact g1, g2⟩
    | skipTo t =>
      cases hd : den s m with
      | nil => simp only [Any.den] at hs; rw [hd] at hs; simp [CmdR.spec] at hs
      | cons p L' =>
        simp only [Any.den] at hs
        rw [hd] at hs
        simp only [CmdR.spec, Option.bind_some] at hs
        obtain ⟨m1, h1, h2, h3, -, -, -⟩ := (tree_faithful s).skipTo m t h (by rw [hd]; simp)
        obtain ⟨m', g1, g2⟩ := ih ⟨s, m1⟩ h2 (by show runSpecR cs (den s m1) = _; rw [h3, hd]; exact hs)
        exact ⟨m', by simp only [runR, CmdR.run, h1, bind, Except.bind]; exact g1, g2⟩
    | replace0 =>
      simp only [CmdR.spec, Option.bind_some] at hs
      obtain ⟨c, r, h1, h2, h3, -⟩ := replace0 s m h
      obtain ⟨m', g1, g2⟩ := ih r h2 (by rw [h3]; exact hs)
      exact ⟨m', by simp only [runR, CmdR.run, Any.replace, h1, bind, Except.bind]; exact g1, g2⟩

/-! ## the other reads of an entry: `weight()` and the number of `matching_terms()`

`opsR k s` is the operation table of the tree with `score` replaced by the read `k`, `denR k s m` the remaining list
of `(id, read)` entries (Layer S list algebra, `WM/Model/MatcherReads.lean`), `WFR k s` the invariant `WF` with the
reads' lists in the alignment conditions. -/

/-- the reads do not influence the cursor: the table of a read has the cursor operations of the tree itself -/
theorem reads_move_alike (k : Rd) (s : Shape) :
    (opsR k s).isActive = (ops s).isActive ∧ (opsR k s).id = (ops s).id ∧ (opsR k s).next = (ops s).next ∧
      (opsR k s).skipTo = (ops s).skipTo ∧ (opsR k s).reset = (ops s).reset :=
  let ⟨h1, h2, h3, h4, h5, _⟩ := tree_moveEq k s
  ⟨h1, h2, h3, h4, h5⟩

/-- a well-formed tree without MultiMatcher/ArrayUnionMatcher nodes is well formed for both reads, and a tree well
    formed in both senses stands on the same document in `den` and in `denR` -/
theorem reads_wf (k : Rd) (s : Shape) (m : St s) (hp : plain s = true) (h : WF s m) :
    WFR k s m ∧ (∀ x r L, den s m = (x, r) :: L → ∃ w L', denR k s m = (x, w) :: L') ∧
      (∀ x w L', denR k s m = (x, w) :: L' → ∃ r L, den s m = (x, r) :: L) :=
  have hr := wfr_of_wf k s m hp h
  ⟨hr, fun _ _ _ hd => read_of_head k s m h hr hd, fun _ _ _ hd => head_of_read k s m h hr hd⟩

/-- on an active matcher the read returns the value of the head entry, and `next()` (of the tree) drops exactly
    that entry from the reads' list too -/
theorem read_next (k : Rd) (s : Shape) (m : St s) (h : WFR k s m) (ha : (ops s).isActive m = true) :
    ∃ x w L m', denR k s m = (x, w) :: L ∧ (ops s).id m = .ok x ∧ read k s m = .ok w ∧
      (ops s).next m = .ok m' ∧ WFR k s m' ∧ denR k s m' = L ∧ fullR k s m' = fullR k s m := by
  have FR := tree_faithfulR k s
  obtain ⟨e1, e2, e3, -⟩ := tree_moveEq k s
  rw [← e1] at ha
  obtain ⟨x, w, L, hd⟩ := exists_cons_of_ne_nil ((FR.active m h).1 ha)
  obtain ⟨m', h1, h2, h3, -, h5⟩ := FR.next m x w L h hd
  exact ⟨x, w, L, m', hd, by rw [← e2]; exact FR.id m x w L h hd, FR.score m x w L h hd, by rw [← e3]; exact h1,
    h2, h3, h5⟩

/-- `skip_to(t)` lands on the first entry with id ≥ t of the reads' list too -/
theorem read_skipTo (k : Rd) (s : Shape) (m : St s) (t : Nat) (h : WFR k s m) (ha : (ops s).isActive m = true) :
    ∃ m', (ops s).skipTo m t = .ok m' ∧ WFR k s m' ∧ denR k s m' = dropBelow t (denR k s m) ∧
      fullR k s m' = fullR k s m := by
  have FR := tree_faithfulR k s
  obtain ⟨e1, -, -, e4, -⟩ := tree_moveEq k s
  rw [← e1] at ha
  obtain ⟨m', h1, h2, h3, -, -, h6⟩ := FR.skipTo m t h ((FR.active m h).1 ha)
  exact ⟨m', by rw [← e4]; exact h1, h2, h3, h6⟩

/-- path independence of the reads: whatever program of `next`/`skip_to`/`reset` calls is allowed on the list
    model runs without error on the matcher (the same run as in `program`) and leaves it on exactly the list of
    `(id, read)` entries the model predicts - so `weight()` and the number of `matching_terms()` read there are
    those of the head entry, whatever calls led to it. -/
theorem program_reads (k : Rd) (s : Shape) (prog : List Cmd) (m : St s) (h : WFR k s m) (F L : Den)
    (hs : runSpec prog (fullR k s m, denR k s m) = some (F, L)) :
    ∃ m', run s prog m = .ok m' ∧ WFR k s m' ∧ denR k s m' = L ∧ fullR k s m' = F ∧
      ∀ x w L', L = (x, w) :: L' → (ops s).id m' = .ok x ∧ read k s m' = .ok w := by
  have FR := tree_faithfulR k s
  obtain ⟨-, e2, e3, e4, e5, -⟩ := tree_moveEq k s
  induction prog generalizing m with
  | nil =>
    simp only [runSpec, Option.some.injEq, Prod.mk.injEq] at hs
    refine ⟨m, rfl, h, hs.2, hs.1, fun x w L' hL => ?_⟩
    have hd : denR k s m = (x, w) :: L' := by rw [hs.2, hL]
    exact ⟨by rw [← e2]; exact FR.id m x w L' h hd, FR.score m x w L' h hd⟩
  | cons c cs ih =>
    simp only [runSpec] at hs
    cases c with
    | next =>
      cases hd : denR k s m with
      | nil => rw [hd] at hs; simp [Cmd.spec] at hs
      | cons p L' =>
        obtain ⟨x, r⟩ := p
        rw [hd] at hs
        simp only [Cmd.spec, Option.bind_some] at hs
        obtain ⟨m1, h1, h2, h3, -, h5⟩ := FR.next m x r L' h hd
        obtain ⟨m', g1, g2⟩ := ih m1 h2 (by rw [h3, h5]; exact hs)
        rw [e3] at h1
        exact ⟨m', by simp [run, Cmd.run, h1, g1, Except.bind], g2⟩
    | skipTo t =>
      cases hd : denR k s m with
      | nil => rw [hd] at hs; simp [Cmd.spec] at hs
      | cons p L' =>
        rw [hd] at hs
        simp only [Cmd.spec, Option.bind_some] at hs
        obtain ⟨m1, h1, h2, h3, -, -, h6⟩ := FR.skipTo m t h (by rw [hd]; simp)
        obtain ⟨m', g1, g2⟩ := ih m1 h2 (by rw [h3, h6, hd]; exact hs)
        rw [e4] at h1
        exact ⟨m', by simp [run, Cmd.run, h1, g1, Except.bind], g2⟩
    | reset =>
      simp only [Cmd.spec, Option.bind_some] at hs
      obtain ⟨m1, h1, h2, h3, h4⟩ := FR.reset m h
      obtain ⟨m', g1, g2⟩ := ih m1 h2 (by rw [h3, h4]; exact hs)
      rw [e5] at h1
      exact ⟨m', by simp [run, Cmd.run, h1, g1, Except.bind], g2⟩

/-- `AndMaybe([1, 5, 9] weights 1 2 3, [1, 5] weights 1 1)` under a boost of 2: the lists of weights and of
    matching-term counts; after `next, next` the matcher stands on document 9, beyond the optional side's last
    posting - where the pinned `AndMaybeMatcher.weight()` raised IndexError (repaired) -/
def exReads : St (.boost (.andMaybe .list .list)) :=
  ⟨⟨⟨[1, 5, 9], [1, 2, 3], 0, true⟩, ⟨[1, 5], [1, 1], 0, true⟩⟩, 2⟩

example : plain (.boost (.andMaybe .list .list)) = true ∧ WF _ exReads := by
  refine ⟨rfl, ⟨by decide, rfl⟩, ⟨by decide, rfl⟩, ?_⟩
  intro x r La y s Lb h1 h2
  have e1 : ListM.den exReads.child.a = [(1, 1), (5, 2), (9, 3)] := by decide +kernel
  have e2 : ListM.den exReads.child.b = [(1, 1), (5, 1)] := by decide +kernel
  change ListM.den exReads.child.a = _ at h1
  change ListM.den exReads.child.b = _ at h2
  rw [e1] at h1; rw [e2] at h2
  cases h1; cases h2; exact Nat.le_refl _

example : denR .weight _ exReads = [(1, 4), (5, 6), (9, 6)] ∧ denR .terms _ exReads = [(1, 2), (5, 2), (9, 1)] ∧
    ((run _ [.next, .next] exReads).bind (read .weight _)).toOption = some 6 ∧
    ((run _ [.skipTo 7] exReads).bind (read .terms _)).toOption = some 1 ∧
    runSpec [.next, .next] ([(1, 4), (5, 6), (9, 6)], [(1, 4), (5, 6), (9, 6)]) =
      some ([(1, 4), (5, 6), (9, 6)], [(9, 6)]) := by
  refine ⟨?_, ?_, ?_, ?_, ?_⟩ <;> decide +kernel

/-! ## non-vacuity: a concrete well-formed tree on which every hypothesis above holds -/

/-- `AndNot([5, 9], [3, 5])` - the example from DESIGN §6.3 on which the pinned tree leaks document 5 -/
def exAndNot : R Any :=
  mkAndNot ⟨.list, ⟨[5, 9], [1, 1], 0, true⟩⟩ ⟨.list, ⟨[3, 5], [1, 1], 0, true⟩⟩

example : denOf exAndNot = some ([(9, 1)], true) := by decide +kernel

example : WF .list (⟨[5, 9], [1, 1], 0, true⟩ : ListM) := by
  show ListM.WF _
  exact ⟨by decide, rfl⟩

/-- the base `all_ids()` loop on that tree -/
example : (exAndNot.bind allIds).toOption = some [9] := by decide +kernel

/-- an `ArrayUnionMatcher` (part size 4, 40 documents) over two lists: stepping, `skip_to(9)`, `reset()` -/
def exAUnion : R Any :=
  mkAUnion .list [⟨[1, 5, 9], [1, 2, 3], 0, true⟩, ⟨[2, 5, 30], [1, 2, 3], 0, true⟩] 40 1 4

example : denOf exAUnion = some ([(1, 1), (2, 1), (5, 4), (9, 3), (30, 3)], true) := by decide +kernel

example : (exAUnion.bind fun m => (ops m.1).skipTo m.2 9 |>.map (den m.1)).toOption = some [(9, 3), (30, 3)] := by
  decide +kernel

/-- a `MultiMatcher` over two segments (offsets 0 and 30), inside an intersection -/
def exMulti : R Any :=
  mkInter (mkMulti .list [(⟨[5, 9], [1, 2], 0, true⟩, 0), (⟨[2, 7], [3, 1], 0, true⟩, 30)])
    ⟨.list, ⟨[9, 32, 40], [1, 1, 1], 0, true⟩⟩

example : denOf exMulti = some ([(9, 3), (32, 4)], true) := by decide +kernel

/-- a program on that composite: `next`, `reset`, `skip_to(10)`, `replace()` ends on the list the model predicts -/
example : (exMulti.bind (runR [.next, .skipTo 10, .replace0])).toOption.map (·.den) = some [(32, 4)] ∧
    runSpecR [.next, .skipTo 10, .replace0] [(9, 3), (32, 4)] = some [(32, 4)] := by
  constructor <;> decide +kernel

example : (exMulti.bind fun m => (run m.1 [.next, .reset, .skipTo 10] m.2).map (den m.1)).toOption = some [(32, 4)] ∧
    runSpec [.next, .reset, .skipTo 10] ([(9, 3), (32, 4)], [(9, 3), (32, 4)]) = some ([(9, 3), (32, 4)], [(32, 4)]) := by
  constructor <;> decide +kernel

/-- `IntersectionMatcher.all_ids` over `MultiMatcher.all_ids` and `ListMatcher.all_ids` on it -/
example : (exMulti.bind fun m => allIdsO m.1 m.2).toOption = some [9, 32] := by decide +kernel

end WM.C11
