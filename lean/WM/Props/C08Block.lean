import WM.Lemmas.ColumnsBlock
/-! C08 — `CompressedBlockColumn`: random access finds the block of a document. -/
namespace WM.C08
open WM.Columns

/-- **`_find_block` on an ordered block table.**  If every block spans `first ≤ last` and later blocks
    start after earlier ones end, the scan returns a block exactly when that block's document range
    contains the document (so: the first, the last and every inner document of the 1st, 2nd, … block
    are found in *their* block, and a document between two blocks in none). -/
theorem cblock_find (bs : List CBlock) (h : CbOrdered bs) (d : Nat) (b : CBlock) :
    cbFind d bs = some b ↔ b ∈ bs ∧ b.first ≤ d ∧ d ≤ b.last :=
  cbFind_spec bs h d b

/-- **Writer and reader composed.**  For strictly increasing document numbers and every block size, the
    table `Writer.add/_emit/finish` writes is ordered and disjoint, hence `reader._find_block(d)` is the
    block written for the range containing `d`, and `None` (the column default `b''`) exactly when no
    written block's range contains `d`. -/
theorem cblock_writer_find (blocksize : Nat) (adds : List (Nat × Bytes))
    (hs : adds.Pairwise (fun x y => x.1 < y.1)) (d : Nat) :
    (∀ b, cbFind d (cbWrite blocksize adds) = some b ↔
      b ∈ cbWrite blocksize adds ∧ b.first ≤ d ∧ d ≤ b.last) ∧
    (cbFind d (cbWrite blocksize adds) = none ↔
      ∀ b ∈ cbWrite blocksize adds, ¬ (b.first ≤ d ∧ d ≤ b.last)) := by
  have ho := cbWrite_ordered blocksize adds hs
  refine ⟨fun b => cbFind_spec _ ho d b, ?_⟩
  constructor
  · intro hn b hb hr
    have := (cbFind_spec _ ho d b).mpr ⟨hb, hr⟩
    rw [hn] at this; cases this
  · intro hall
    cases hf : cbFind d (cbWrite blocksize adds) with
    | none => rfl
    | some b =>
      have := (cbFind_spec _ ho d b).mp hf
      exact absurd this.2 (hall b this.1)

/-- Three blocks of 2 bytes; document 4 starts the second block and is read from it, document 3 lies
    between two blocks (default), document 6 has no value inside the third block (`KeyError`, the
    recorded defect). -/
example :
    (cbWrite 2 [(0, [1]), (2, [2]), (4, [3, 4]), (5, [5]), (7, [6])]).length = 3 ∧
    cbGet (cbWrite 2 [(0, [1]), (2, [2]), (4, [3, 4]), (5, [5]), (7, [6])]) 4 = .value [3, 4] ∧
    cbGet (cbWrite 2 [(0, [1]), (2, [2]), (4, [3, 4]), (5, [5]), (7, [6])]) 3 = .value [] ∧
    cbGet (cbWrite 2 [(0, [1]), (2, [2]), (4, [3, 4]), (5, [5]), (7, [6])]) 7 = .value [6] ∧
    cbGet (cbWrite 2 [(0, [1]), (2, [2]), (4, [3, 4]), (5, [5]), (7, [6])]) 6 = .keyError := by
  decide

end WM.C08
