import WM.Lemmas.SearchCursorMain
import WM.Props.C01
/-!
C01 (cursor tie) — the list-level model `WM.Compile.compile` is what the matcher family's cursor
trees denote.

`WM.Compile.build` mirrors `Query.matcher(subsearcher, context)` in the cursor vocabulary of
`WM/Model/MatcherTree.lean` (ListMatcher leaves over the term postings, `mkInter`, `mkUnion`,
`mkDisMax`, `mkAndNot`, `mkAndMaybe`, `mkRequire`, `mkInverse`, `mkConst`, `mkBoost`, the same tree
shapes).  `TreeOnly s ctx q` says that `q` consists of term / null leaves and boolean constructors
and that no `Or` of three or more clauses is built in a context that turns it into an array union
(which the cursor vocabulary has no node for).
-/
namespace WM.C01
open WM.Search WM.Compile

/-- For every such query, context, segment, leaf scorer and tree-shape oracle the construction
    succeeds (no constructor raises), the tree satisfies the matcher family's invariant `WF`, and
    its remaining result list `den` is exactly the compiled list. -/
theorem cursor_den (ls : LeafScore) (so : ShapeOracle) (s : Segment) (q : Query) (ctx : Ctx)
    (h : TreeOnly s ctx q) :
    ∃ m, build ls so s ctx q = .ok m ∧ WM.Matcher.WF m.1 m.2 ∧ toPL m.den = compile ls so s ctx q := by
  obtain ⟨m, h1, h2, h3⟩ := build_denotes ls so s q ctx h
  exact ⟨m, h1, h2, h3⟩

/-- Composition with `matcher_den` and C11: the cursor tree built for the query is a faithful
    forward cursor (`WM.C11.refine_next`, `refine_skipTo`, `program` apply to it, being `WF`) over a
    list whose ids are exactly the live documents satisfying the query. -/
theorem cursor_answers (ls : LeafScore) (so : ShapeOracle) (s : Segment) (hso : ValidOracle so)
    (hleaf : PosLeaf ls s) (q : Query) (hq : PosQ q) (ctx : Ctx)
    (h : TreeOnly s ctx q) :
    ∃ m, build ls so s ctx q = .ok m ∧ WM.Matcher.WF m.1 m.2 ∧
      m.den.map (·.1) = s.live.filter (fun i => sat q (s.doc i)) := by
  obtain ⟨m, h1, h2, h3⟩ := cursor_den ls so s q ctx h
  refine ⟨m, h1, h2, ?_⟩
  have := matcher_den ls so s hso hleaf q hq ctx
  rw [← h3] at this
  simpa [toPL, List.map_map, Function.comp_def] using this

/-- the hypotheses are satisfiable: `(aa OR bb) ANDNOT cc`, scored context that needs the current
    match, on the first example segment -/
def curQ : Query := .andNot (.or [.term "t" [97] 2, .term "t" [98] 1] 1) (.not (.term "t" [99] 1))

example : TreeOnly exSeg1 ⟨true, true⟩ curQ := by
  simp [curQ, TreeOnly, TreeOnlyL]

example : (build freqLeaf balancedOracle exSeg1 ⟨true, true⟩ curQ).toOption.map (fun m => m.den) =
    some [(0, 1)] := by decide +kernel

end WM.C01
