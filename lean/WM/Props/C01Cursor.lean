import WM.Lemmas.SearchCursorMain
import WM.Props.C01
/-!
C01 (cursor tie) — the list-level model `WM.Compile.compile` is what the matcher family's cursor
trees denote.

`WM.Compile.build` mirrors `Query.matcher(subsearcher, context)` in the cursor vocabulary of
`WM/Model/MatcherTree.lean` (ListMatcher leaves over the term postings and for `Every`, `mkInter`,
`mkUnion`, `mkDisMax`, `mkAndNot`, `mkAndMaybe`, `mkRequire`, `mkInverse`, `mkConst`, `mkBoost`,
`mkAUnion`, the same tree shapes, the expansion of multi-term queries against the segment lexicon).
`CursorOK ls s ctx q` says that `q` consists of term / null / Every leaves, multi-term queries and
boolean constructors and that every array union built for it (an `Or` of three or more clauses, or a
multi-term query expanding to three or more terms, in a context that does not need the current
match, on a segment of at most 5000 documents) is a *scored* one with a positive boost over plain
term matchers with positive leaf scores — the array union the matcher family models.  Phrase
(spans), numeric ranges (C13) and the unscored array union (`scored=False`) are outside.
-/
namespace WM.C01
open WM.Search WM.Compile

/-- For every such query, context, segment, leaf scorer and tree-shape oracle the construction
    succeeds (no constructor raises), the tree satisfies the matcher family's invariant `WF`, and
    its remaining result list `den` is exactly the compiled list. -/
theorem cursor_den (ls : LeafScore) (so : ShapeOracle) (s : Segment) (q : Query) (ctx : Ctx)
    (h : CursorOK ls s ctx q) :
    ∃ m, build ls so s ctx q = .ok m ∧ WM.Matcher.WF m.1 m.2 ∧ toPL m.den = compile ls so s ctx q := by
  obtain ⟨m, h1, h2, h3⟩ := build_denotes ls so s q ctx h
  exact ⟨m, h1, h2, h3⟩

/-- Composition with `matcher_den` and C11: the cursor tree built for the query is a faithful
    forward cursor (`WM.C11.refine_next`, `refine_skipTo`, `program` apply to it, being `WF`) over a
    list whose ids are exactly the live documents satisfying the query. -/
theorem cursor_answers (ls : LeafScore) (so : ShapeOracle) (s : Segment) (hso : ValidOracle so)
    (hleaf : PosLeaf ls s) (q : Query) (hq : PosQ q) (ctx : Ctx)
    (h : CursorOK ls s ctx q) :
    ∃ m, build ls so s ctx q = .ok m ∧ WM.Matcher.WF m.1 m.2 ∧
      m.den.map (·.1) = s.live.filter (fun i => sat q (s.doc i)) := by
  obtain ⟨m, h1, h2, h3⟩ := cursor_den ls so s q ctx h
  refine ⟨m, h1, h2, ?_⟩
  have := matcher_den ls so s hso hleaf q hq ctx
  rw [← h3] at this
  simpa [toPL, List.map_map, Function.comp_def] using this

/-- the hypotheses are satisfiable: `(aa OR bb) ANDNOT cc`, scored context that needs the current
    match, on the first example segment -/
def curQ : Query := .andNot (.or [.term "t" [97] 2, .term "t" [98] 1] 1) (.not (.term "t" [99] 1))

example : CursorOK freqLeaf exSeg1 ⟨true, true⟩ curQ := by
  simp [curQ, CursorOK, CursorOKL, UnionOK]

example : (build freqLeaf balancedOracle exSeg1 ⟨true, true⟩ curQ).toOption.map (fun m => m.den) =
    some [(0, 1)] := by decide +kernel

/-- … and beyond round 2's fragment: a segment of four documents `a b`, `b c`, `a c c`, `d`; an open
    term range that expands to the three terms of the field (not constant-score, boost 2: a *scored array union* over the three
    term matchers in a plain `search()` context), an `Every` over the field and over all documents, a
    constant-score prefix under `Not` (boolean context: two terms, a union, pre-read through `all_ids()`). -/
def mSeg : Segment := ⟨[⟨[⟨"t", 1, [tok 97 0, tok 98 1], []⟩]⟩, ⟨[⟨"t", 1, [tok 98 0, tok 99 1], []⟩]⟩,
                        ⟨[⟨"t", 2, [tok 97 0, tok 99 1, tok 99 2], []⟩]⟩, ⟨[⟨"u", 1, [tok 100 0], []⟩]⟩], [1]⟩
def mQ : Query := .andMaybe (.or [.multi "t" (.range none none false false) 2 false, .every none 1] 1)
                    (.andNot (.every (some "t") 3) (.not (.multi "t" (.pfx [97]) 1 true)))

theorem mQ_ok : CursorOK freqLeaf mSeg ⟨false, true⟩ mQ := by
  have hpos : ∀ t ∈ ([[97], [98], [99]] : List Term), ∀ e ∈ postings freqLeaf mSeg "t" t, 0 < e.score := by decide +kernel
  have hlex : (lexicon mSeg "t").filter (TermPred.range none none false false).test = [[98], [97], [99]] := by decide +kernel
  simp only [mQ, CursorOK, CursorOKL, and_true, true_and]
  refine ⟨⟨.inr ?_, .inl (by decide)⟩, .inr (.inl (by decide +kernel))⟩
  rw [hlex]
  refine .inr (.inr ⟨rfl, by decide +kernel, ?_⟩)
  intro q hq
  simp only [List.map_cons, List.map_nil, List.mem_cons, List.not_mem_nil, or_false] at hq
  rcases hq with rfl | rfl | rfl
  · exact ⟨"t", [98], rfl, hpos _ (by simp)⟩
  · exact ⟨"t", [97], rfl, hpos _ (by simp)⟩
  · exact ⟨"t", [99], rfl, hpos _ (by simp)⟩

example : (build freqLeaf balancedOracle mSeg ⟨false, true⟩ mQ).toOption.map (fun m => (m.1, m.den)) =
    some (.andMaybe (.union (.aunion .list) .list) (.andNot .list (.inverse .list)),
          [(0, 8), (2, 16), (3, 1)]) := by decide +kernel

end WM.C01
