import WM.Model.Results
/-! C14 — combining result objects (`Results.extend / filter / upgrade / upgrade_and_extend`). -/
namespace WM.C14
open WM.Results

/-- A result object is well formed if its hits are matched documents, no document is hit or listed
    twice, and `len(results)` is the number of matched documents. -/
structure ResWF (r : Res) : Prop where
  hits : ∀ it ∈ r.topN, it.2 ∈ r.docs
  nodupHits : (r.topN.map (·.2)).Nodup
  nodupDocs : r.docs.Nodup
  len : r.total = r.docs.length

theorem mem_union (a b : List Nat) (d : Nat) : d ∈ union a b ↔ d ∈ a ∨ d ∈ b := by
  simp only [union, List.mem_append, List.mem_filter, Bool.not_eq_true', List.contains_eq_mem,
    decide_eq_false_iff_not]
  constructor
  · rintro (h | ⟨h, _⟩)
    · exact Or.inl h
    · exact Or.inr h
  · rintro (h | h)
    · exact Or.inl h
    · by_cases ha : d ∈ a
      · exact Or.inl ha
      · exact Or.inr ⟨h, ha⟩

theorem nodup_union (a b : List Nat) (ha : a.Nodup) (hb : b.Nodup) : (union a b).Nodup := by
  simp only [union]
  rw [List.nodup_append]
  refine ⟨ha, hb.sublist List.filter_sublist, ?_⟩
  intro x hx y hy hxy
  subst hxy
  simp only [List.mem_filter, Bool.not_eq_true', List.contains_eq_mem, decide_eq_false_iff_not] at hy
  exact hy.2 hx

/-- **extend**: the matched set becomes the union, `len` its size, the old hits keep their places
    and the new ones (never a document `self` already matched) follow; well-formedness is kept. -/
theorem extend_spec (a b : Res) (ha : ResWF a) (hb : ResWF b) :
    ResWF (extend a b) ∧ (∀ d, d ∈ (extend a b).docs ↔ d ∈ a.docs ∨ d ∈ b.docs) ∧
    (extend a b).topN.take a.topN.length = a.topN ∧
    (∀ it, it ∈ (extend a b).topN ↔ it ∈ a.topN ∨ (it ∈ b.topN ∧ it.2 ∉ a.docs)) := by
  refine ⟨⟨?_, ?_, ?_, rfl⟩, fun d => mem_union _ _ d, ?_, ?_⟩
  · intro it hit
    simp only [extend, List.mem_append, List.mem_filter] at hit
    show it.2 ∈ union a.docs b.docs
    rw [mem_union]
    rcases hit with h | ⟨h, _⟩
    · exact Or.inl (ha.hits it h)
    · exact Or.inr (hb.hits it h)
  · simp only [extend, List.map_append]
    rw [List.nodup_append]
    refine ⟨ha.nodupHits, ?_, ?_⟩
    · exact hb.nodupHits.sublist (List.Sublist.map _ List.filter_sublist)
    · intro x hx y hy hxy
      subst hxy
      obtain ⟨it, hit, rfl⟩ := List.mem_map.mp hx
      obtain ⟨it', hit', he⟩ := List.mem_map.mp hy
      simp only [List.mem_filter, Bool.not_eq_true', List.contains_eq_mem, decide_eq_false_iff_not] at hit'
      exact hit'.2 (he ▸ ha.hits it hit)
  · exact nodup_union _ _ ha.nodupDocs hb.nodupDocs
  · simp [extend]
  · intro it
    simp [extend, List.mem_filter]

/-- **filter**: exactly the hits whose document `other` matched, in their old order; the matched set
    becomes the intersection and `len` its size. -/
theorem filter_spec (a b : Res) (ha : ResWF a) :
    ResWF (filter a b) ∧ (filter a b).topN.Sublist a.topN ∧
    (∀ it, it ∈ (filter a b).topN ↔ it ∈ a.topN ∧ it.2 ∈ b.docs) ∧
    (∀ d, d ∈ (filter a b).docs ↔ d ∈ a.docs ∧ d ∈ b.docs) := by
  refine ⟨⟨?_, ?_, ha.nodupDocs.sublist List.filter_sublist, rfl⟩, List.filter_sublist, ?_, ?_⟩
  · intro it hit
    simp only [filter, List.mem_filter, List.contains_eq_mem, decide_eq_true_eq] at hit ⊢
    exact ⟨ha.hits it hit.1, hit.2⟩
  · exact ha.nodupHits.sublist (List.Sublist.map _ List.filter_sublist)
  · intro it; simp [filter, List.mem_filter]
  · intro d; simp [filter, List.mem_filter]

/-- **upgrade**: a permutation of the hits — those `other` matched first (last when reversed), both
    parts in their old order; nothing else changes. -/
theorem upgrade_spec (a b : Res) (reverse : Bool) :
    (upgrade a b reverse).topN.Perm a.topN ∧ (upgrade a b reverse).docs = a.docs ∧
    (upgrade a b reverse).total = a.total ∧
    (b.total ≠ 0 → (upgrade a b reverse).topN =
      (if reverse then a.topN.filter (fun it => !b.docs.contains it.2) ++ a.topN.filter (fun it => b.docs.contains it.2)
       else a.topN.filter (fun it => b.docs.contains it.2) ++ a.topN.filter (fun it => !b.docs.contains it.2))) := by
  unfold upgrade
  by_cases h : b.total = 0
  · simp [h]
  · rw [if_neg h]
    refine ⟨?_, rfl, rfl, fun _ => rfl⟩
    dsimp only
    cases reverse
    · simp only [Bool.false_eq_true, if_false]
      exact List.filter_append_perm _ _
    · simp only [if_true]
      exact List.perm_append_comm.trans (List.filter_append_perm _ _)

/-- **upgrade_and_extend** is `upgrade` followed by `extend`: the hits `other` matched first, the
    other old hits next, then the hits of `other` that `self` did not match; the matched set is the
    union and `len` its size. (With an empty `other` nothing changes.) -/
theorem upgrade_and_extend_spec (a b : Res) (ha : ResWF a) (hb : ResWF b) :
    upgradeAndExtend a b = extend (upgrade a b false) b := by
  unfold upgradeAndExtend upgrade
  by_cases h : b.total = 0
  · rw [if_pos h, if_pos h]
    have hd : b.docs = [] := by
      have := hb.len; rw [h] at this; exact List.length_eq_zero_iff.mp this.symm
    have ht : b.topN = [] := by
      cases hbt : b.topN with
      | nil => rfl
      | cons it rest =>
        have := hb.hits it (by rw [hbt]; simp)
        rw [hd] at this; simp at this
    cases a with
    | mk topN docs total =>
      have hl : total = docs.length := ha.len
      simp [extend, union, hd, ht, hl]
  · rw [if_neg h, if_neg h]
    rfl

/-- Non-vacuity / concrete behaviour: two overlapping result objects. -/
example :
    let a : Res := ⟨[(3, 1), (2, 4), (1, 7)], [1, 4, 7, 9], 4⟩
    let b : Res := ⟨[(5, 4), (4, 8)], [4, 8], 2⟩
    (extend a b).topN = [(3, 1), (2, 4), (1, 7), (4, 8)] ∧ (extend a b).total = 5 ∧
    (filter a b).topN = [(2, 4)] ∧ (filter a b).total = 1 ∧
    (upgrade a b false).topN = [(2, 4), (3, 1), (1, 7)] ∧
    (upgradeAndExtend a b).topN = [(2, 4), (3, 1), (1, 7), (4, 8)] ∧
    (filter a ⟨[], [], 0⟩).topN = [] := by decide

end WM.C14
