import WM.Lemmas.CollectViews
import WM.Lemmas.CollectCollapse
import WM.Lemmas.CollectPosting
import WM.Lemmas.CollectCount
/-!
C14 — sorting, grouping, collapsing, filtering are exact views of the results (key level).
Paging is in `C14Page.lean`.
-/
namespace WM.C14
open WM.Rank WM.Collect

/-- What `(key, docnum)` order means: smaller key first, lower document number on equal keys. -/
theorem kdLe_iff (a b : Key × Nat) :
    kdLe a b = true ↔ (keyLe a.1 b.1 = true ∧ keyLe b.1 a.1 = false) ∨ (a.1 = b.1 ∧ a.2 ≤ b.2) := by
  constructor
  · intro h
    simp only [kdLe, Bool.or_eq_true, Bool.and_eq_true, Bool.not_eq_true', decide_eq_true_eq] at h
    rcases h with h | ⟨⟨h1, h2⟩, h3⟩
    · exact Or.inl h
    · exact Or.inr ⟨keyLe_antisymm _ _ h1 h2, h3⟩
  · intro h
    simp only [kdLe, Bool.or_eq_true, Bool.and_eq_true, Bool.not_eq_true', decide_eq_true_eq]
    rcases h with h | ⟨h1, h2⟩
    · exact Or.inl h
    · right; rw [h1]; exact ⟨⟨keyLe_refl _, keyLe_refl _⟩, h2⟩

/-- `items[:limit]` of `SortingCollector.results` (`limit` 0/None keeps everything). -/
def truncate {α : Type} (limit : Option Nat) (l : List α) : List α :=
  match limit with
  | none => l
  | some 0 => l
  | some n => l.take n

/-- **C14.sorted.** For every key function, every list of matched documents (any segment layout:
    only the collection order matters, and it does not), every `limit` and both directions:
    `SortingCollector` returns the first `limit` entries of the list of all matched documents
    ordered by (key ascending, document number ascending on equal keys) — a permutation of the
    matched documents that is pairwise in that order — and `search(reverse=True)` returns the first
    `limit` entries of exactly the reversed list, which is pairwise in the *opposite* order: key
    descending and, **on equal keys, document number descending** (`items.sort(reverse=True)` on
    `(key, docnum)` pairs; see `sorted_reverse_ties`). A reversed *facet*
    (`FieldFacet(reverse=True)`, a negated key) keeps document order on ties. -/
theorem sorted (key : Nat → Key) (limit : Option Nat) (reverse : Bool) (docs : List Nat) :
    sortingResults key limit reverse docs
      = truncate limit (if reverse then (ascending key docs).reverse else ascending key docs) ∧
    (ascending key docs).Perm (docs.map fun d => (key d, d)) ∧
    (ascending key docs).Pairwise (fun a b => kdLe a b = true) ∧
    (ascending key docs).reverse.Pairwise (fun a b => kdLe b a = true) := by
  refine ⟨?_, ascending_perm key docs, ascending_sorted key docs,
    List.pairwise_reverse.mpr (ascending_sorted key docs)⟩
  unfold sortingResults truncate ascending
  cases reverse
  · simp only [Bool.false_eq_true, if_false]; rfl
  · simp only [if_true, mergeSort_flip]; rfl

/-- **The tie order under `search(reverse=True)`, made explicit.** Two matched documents
    `d1 < d2` with equal sort keys come out as `d1, d2` normally and as `d2, d1` with
    `reverse=True`: the whole list is reversed, ties included. The property's "document order on
    ties" therefore holds for per-key reversal only; for `search(reverse=True)` the harness records
    the known finding `sortedby+reverse=True:ties-in-descending-document-order`. -/
theorem sorted_reverse_ties (key : Nat → Key) (docs : List Nat) (d1 d2 : Nat)
    (h1 : d1 ∈ docs) (h2 : d2 ∈ docs) (hlt : d1 < d2) (hk : key d1 = key d2) :
    [(key d1, d1), (key d2, d2)].Sublist (sortingResults key none false docs) ∧
    [(key d2, d2), (key d1, d1)].Sublist (sortingResults key none true docs) := by
  have hs := sorted key none
  have hasc := ascending_sorted key docs
  have hm1 : (key d1, d1) ∈ ascending key docs :=
    (ascending_perm key docs).mem_iff.mpr (List.mem_map.mpr ⟨d1, h1, rfl⟩)
  have hm2 : (key d2, d2) ∈ ascending key docs :=
    (ascending_perm key docs).mem_iff.mpr (List.mem_map.mpr ⟨d2, h2, rfl⟩)
  have hne : (key d1, d1) ≠ (key d2, d2) := by
    intro h; have := (Prod.mk.inj h).2; omega
  have hsub : [(key d1, d1), (key d2, d2)].Sublist (ascending key docs) := by
    rcases pair_sublist_of_mem hm1 hm2 hne with h | h
    · exact h
    · have := List.pairwise_iff_forall_sublist.mp hasc h
      rw [kdLe_iff] at this
      rcases this with ⟨_, h⟩ | ⟨_, h⟩
      · simp only [hk, keyLe_refl] at h; cases h
      · simp only at h; omega
  constructor
  · rw [(hs false docs).1]; simpa [truncate] using hsub
  · rw [(hs true docs).1]
    have := hsub.reverse
    simpa [truncate] using this

/-- `sorted` has no hypotheses; the order it talks about on concrete keys: a tie on the key falls
    back to the document number, a multi-part key compares lexicographically, a proper prefix is
    smaller. -/
example : kdLe ([1], 7) ([1], 9) = true ∧ kdLe ([1], 9) ([1], 7) = false ∧
    kdLe ([0, 5], 9) ([1, -3], 2) = true ∧ kdLe ([2], 1) ([2, 0], 0) = true ∧ kdLe ([2, 0], 0) ([2], 1) = false := by
  decide

/-- **C14.filter_mask (which documents).** `FilterCollector` passes on exactly the matched documents
    that are in the allow set (if there is one — an *empty* allow set allows nothing) and not in
    the restrict set, in their original order, and `filtered_count` counts the others. -/
theorem filter_mask (allow restrict : Option (List Nat)) (docs : List Nat) :
    (filterDocs allow restrict docs).1.Sublist docs ∧
    (∀ d, d ∈ (filterDocs allow restrict docs).1 ↔
      d ∈ docs ∧ (∀ a, allow = some a → d ∈ a) ∧ (∀ r, restrict = some r → d ∉ r)) ∧
    (filterDocs allow restrict docs).1.length + (filterDocs allow restrict docs).2 = docs.length := by
  refine ⟨List.filter_sublist, ?_, ?_⟩
  · intro d
    simp only [filterDocs, List.mem_filter, refuses]
    cases allow <;> cases restrict <;> simp
  · simp only [filterDocs]
    induction docs with
    | nil => rfl
    | cons d ds ih =>
      simp only [List.filter_cons]
      cases refuses allow restrict d <;> simp at ih ⊢ <;> omega

/-- **C14.filter_mask (no reordering), scored results.** The ranking of the filtered hits is the
    unfiltered ranking restricted to the hits that pass — filtering commutes with ranking. -/
theorem filter_commutes_ranking (p : Hit → Bool) (hits : List Hit) :
    rankAll (hits.filter p) = (rankAll hits).filter p := by
  unfold rankAll
  apply List.Perm.eq_of_pairwise (le := fun a b => rankLe a b = true)
  · intro a b _ _ h1 h2; exact rankLe_antisymm a b h1 h2
  · exact List.pairwise_mergeSort rankLe_trans rankLe_total _
  · exact (List.pairwise_mergeSort rankLe_trans rankLe_total hits).filter p
  · exact (List.mergeSort_perm _ _).trans ((List.mergeSort_perm hits rankLe).filter p).symm

/-- **C14.filter_mask (no reordering), sorted results.** -/
theorem filter_commutes_sorting (key : Nat → Key) (p : Nat → Bool) (docs : List Nat) :
    ascending key (docs.filter p) = (ascending key docs).filter (fun x => p x.2) := by
  unfold ascending
  apply List.Perm.eq_of_pairwise (le := fun a b => kdLe a b = true)
  · intro a b _ _ h1 h2; exact kdLe_antisymm a b h1 h2
  · exact List.pairwise_mergeSort kdLe_trans kdLe_total _
  · exact (List.pairwise_mergeSort kdLe_trans kdLe_total _).filter _
  · refine (List.mergeSort_perm _ _).trans ?_
    refine List.Perm.trans ?_ ((List.mergeSort_perm _ kdLe).filter _).symm
    rw [List.filter_map]
    exact List.Perm.refl _

/-- Non-vacuity: an empty allow set allows nothing; `None` allows everything. -/
example : filterDocs (some []) none [1, 2, 3] = ([], 3) ∧ filterDocs none (some [2]) [1, 2, 3] = ([1, 3], 1) ∧
    filterDocs (some [3, 1, 9]) (some [1]) [1, 2, 3] = ([3], 2) := by decide

/-- **C14.len (sorted and filtered searches).** `len(results)` of a sorted search is the number of
    matched documents whatever the `limit`. -/
theorem len_sorted (key : Nat → Key) (reverse : Bool) (docs : List Nat) :
    (sortingResults key none reverse docs).length = docs.length := by
  have h := (sorted key none reverse docs).1
  rw [h]
  simp only [truncate]
  cases reverse
  · simpa using (ascending_perm key docs).length_eq
  · simpa using (ascending_perm key docs).length_eq

/-- **C14.facets_partition.** With any facet (ordinary: one name per document; overlapping:
    several), for every group name `v` and document `d`: `d` is in group `v` of
    `results.groups()` iff `d` is a matched document and `v` is one of its names. Hence for an
    ordinary facet the groups partition the matched documents. -/
theorem facets_partition (names : Nat → List Int) (docs : List Nat) (v : Int) (d : Nat) :
    d ∈ dictGet v [] (facetUnordered names docs) ↔ d ∈ docs ∧ v ∈ names d := by
  unfold facetUnordered
  rw [mem_facetUnordered_aux]
  simp [dictGet_nil]

/-- `maptype=Count`: the count of a group is the size of the group. -/
theorem facets_count (names : Nat → List Int) (docs : List Nat) (v : Int) :
    dictGet v 0 (facetCount names docs) = (dictGet v [] (facetUnordered names docs)).length := by
  unfold facetCount facetUnordered
  exact facetCount_aux names docs [] [] (fun _ => rfl) v

/-- **C14.facets_ordered.** `maptype=OrderedList` (the default of `groups()`): group `v` lists its
    members — the documents of the unordered group, characterised by `facets_partition` — in
    (sort key, document number) order, `skey d` being the key the child collector computed for `d`
    (the negated score for a scored search). -/
theorem facets_ordered (names : Nat → List Int) (skey : Nat → Key) (docs : List Nat) (v : Int) :
    dictGet v [] (facetOrdered names skey docs)
      = (ascending skey (dictGet v [] (facetUnordered names docs))).map (·.2) := by
  unfold facetOrdered orderedAsDict facetUnordered ascending
  have h := facetOrdered_aux names skey docs [] [] (fun _ => rfl) v
  have hm := dictGet_map (fun items : List (Key × Nat) => (items.mergeSort kdLe).map (·.2)) v []
    (docs.foldl (fun m d => facetAddOrdered (names d) (skey d) d m) [])
  simp only [List.mergeSort_nil, List.map_nil] at hm
  rw [← h]
  exact hm

/-- **C14.facets_best.** `maptype=Best`: a group exists iff it has members, and its value is the
    *first* member (in collection order = document order) with a minimal sort key: every earlier
    member of the group has a strictly greater key, every later one a key at least as great. -/
theorem facets_best (names : Nat → List Int) (skey : Nat → Key) (docs : List Nat) (v : Int) (dflt : Key × Nat) :
    (dictGet v [] (facetUnordered names docs) = [] → dictGet v dflt (facetBest names skey docs) = dflt) ∧
    (dictGet v [] (facetUnordered names docs) ≠ [] →
      FirstMin skey (dictGet v [] (facetUnordered names docs)) (dictGet v dflt (facetBest names skey docs))) := by
  have h := facetBest_aux names skey docs [] []
    (fun _ => ⟨fun _ => rfl, fun _ hm => by simp [dictFind] at hm⟩) v
  unfold facetBest facetUnordered
  rw [dictGet_eq_find, dictGet_eq_find]
  generalize (docs.foldl (fun m d => (names d).foldl (fun m n => dictUpdate n [] (fun l => l ++ [d]) m) m) []) = mu at *
  generalize (docs.foldl (fun m d => (names d).foldl (fun m n =>
        dictUpdate n (skey d, d) (fun cur => if keyLe (skey d) cur.1 && !keyLe cur.1 (skey d) then (skey d, d) else cur) m) m) []) = mb at *
  cases hfu : dictFind v mu with
  | none =>
    rw [h.1 hfu]
    exact ⟨fun _ => rfl, fun hne => absurd rfl hne⟩
  | some ms =>
    obtain ⟨hne, b, hb, hfm⟩ := h.2 ms hfu
    rw [hb]
    exact ⟨fun he => absurd he hne, fun _ => hfm⟩

/-- Non-vacuity of `facets_best`: keys 5, 3, 3, 4 in one group — the first of the two documents
    with key 3 is the best. -/
example : facetBest (fun _ => [0]) (fun d => if d = 0 then [5] else if d = 3 then [4] else [3]) [0, 1, 2, 3]
    = [(0, ([3], 1))] := by decide

/-- Non-vacuity: an overlapping facet puts document 2 into two groups. -/
example : facetUnordered (fun d => if d = 2 then [1, 2] else [((d % 2 : Nat) : Int) + 1]) [0, 1, 2, 3]
    = [(1, [0, 2]), (2, [1, 2, 3])] := by decide

/-- **C14.collapse.** For every collapse facet (`ckey d = none`: no key, never collapsed), every
    sort-key function (the result order `0 - score`, the `sortedby` key, or the `collapse_order`
    facet), every `collapse_limit ≥ 1` and every run of matched documents in ascending document order
    (any segment layout), `CollapseCollector` ends with
    * per key `c` exactly the best `collapse_limit` documents of that key in `(sortkey, docnum)` order,
    * in the child collector exactly the documents without key plus those best documents
      (so the results are the child's ordering of exactly these), and
    * `collapsed_counts[c]` = the number of documents of key `c` that were discarded. -/
theorem collapse (ckey : Nat → Option Int) (skey : Nat → Key) (n : Nat) (hn : 1 ≤ n) (docs : List Nat)
    (hasc : docs.Pairwise (· < ·)) :
    ∃ st, collapseRun ckey skey n docs {} = .ok st ∧
      (∀ c, dictGet c [] st.lists = bestOf ckey skey n docs c) ∧
      (∀ d, d ∈ st.kept ↔
        d ∈ docs ∧ (ckey d = none ∨ ∃ c, ckey d = some c ∧ (skey d, d) ∈ bestOf ckey skey n docs c)) ∧
      (∀ c, dictGet c 0 st.counts =
        (keyDocs ckey c docs).length - min n (keyDocs ckey c docs).length) := by
  have h0 : CInv ckey skey n [] ({} : CollapseSt) :=
    ⟨fun c => by simp [bestOf, keyDocs, pairsOf, dictGet_nil],
     fun d => by simp,
     fun c => by simp [bestOf, keyDocs, pairsOf, dictGet_nil]⟩
  obtain ⟨st, hrun, hinv⟩ := collapseRun_inv ckey skey n hn docs [] {} h0 (by simpa using hasc)
  simp only [List.nil_append] at hinv
  refine ⟨st, hrun, hinv.lists, hinv.kept, ?_⟩
  intro c
  have h := hinv.counts c
  have hlen : (bestOf ckey skey n docs c).length = min n (keyDocs ckey c docs).length := by
    unfold bestOf
    rw [List.length_take, (List.mergeSort_perm _ kdLe).length_eq]
    simp [pairsOf]
  omega

/-- Non-vacuity of `collapse`: hypotheses hold for a run with two keys, a keyless document and ties. -/
example : ([0, 1, 2, 5, 7] : List Nat).Pairwise (· < ·) ∧ (1 : Nat) ≤ 1 ∧
    keyDocs (fun d => if d = 2 then none else some ((d % 2 : Nat) : Int)) 1 [0, 1, 2, 5, 7] = [1, 5, 7] := by
  decide

/-- `ckey d = none` is a document without a collapse key (`None`, or the empty string/bytes of a
    field the document lacks): it is never collapsed. The number 0 is a key like any other (round 1
    mapped it to `none`, because `if not ckey` treated every falsy key as "no key"; repaired by
    `fix: CollapseCollector collapses documents whose key is 0`). -/
example : (collapseRun (fun _ => none) (fun _ => []) 1 [0, 1, 2] {}).toOption.map (·.kept) = some [0, 1, 2] := by
  decide

/-- **C14.rank_iso.** The rank array that `PostingCategorizer` builds from the postings of the sorted
    terms is order-isomorphic to the value order: if (the last term of) document `d1` is the `i`-th
    and of `d2` the `j`-th sortable term, then the sort key of `d1` is `≤` that of `d2` iff `i ≤ j`,
    and with `reverse=True` iff `j ≤ i`; `key_to_name` gives back `i`. A document without a term gets
    the marker `dc + 1`, which sorts after every rank `< dc + 1` (and before them when reversed), and
    `key_to_name` maps it to "no value" (`none`) in both directions whenever there are at most
    `dc + 1` terms (always the case for single-valued fields). -/
theorem rank_iso (dc : Nat) (terms : List (List Nat)) (reverse : Bool)
    (d1 d2 i j : Nat) (h1 : d1 < dc) (h2 : d2 < dc)
    (hi : lastIdx d1 terms = some i) (hj : lastIdx d2 terms = some j) :
    (postingArray dc terms)[d1]? = some i ∧ (postingArray dc terms)[d2]? = some j ∧
    (postingKey terms.length false i ≤ postingKey terms.length false j ↔ i ≤ j) ∧
    (postingKey terms.length true i ≤ postingKey terms.length true j ↔ j ≤ i) ∧
    (i < terms.length → postingKeyToName terms.length reverse (postingKey terms.length reverse i) = .ok (some i)) := by
  refine ⟨by rw [postingArray_get dc terms d1 h1, hi], by rw [postingArray_get dc terms d2 h2, hj], ?_, ?_, ?_⟩
  · simp [postingKey]
  · simp only [postingKey, if_true]; omega
  · intro hlt
    cases reverse
    · simp only [postingKeyToName, postingKey, Bool.false_eq_true, if_false]
      have h1 : ¬ ((i : Int) ≥ (terms.length : Int)) := by omega
      have h2 : (0 : Int) ≤ (i : Int) := by omega
      simp [h1, h2]
    · simp only [postingKeyToName, postingKey, if_true]
      have e : (terms.length : Int) - ((terms.length : Int) - (i : Int)) = (i : Int) := by omega
      rw [e]
      have h1 : ¬ ((i : Int) ≥ (terms.length : Int)) := by omega
      have h2 : (0 : Int) ≤ (i : Int) := by omega
      simp [h1, h2]

/-- Documents without a value. -/
theorem rank_missing (dc : Nat) (terms : List (List Nat)) (reverse : Bool) (d : Nat) (hd : d < dc)
    (hnone : ∀ ps ∈ terms, d ∉ ps) (hn : terms.length ≤ dc + 1) :
    (postingArray dc terms)[d]? = some (dc + 1) ∧
    (∀ i, i < dc + 1 → postingKey terms.length false i < postingKey terms.length false (dc + 1)) ∧
    (∀ i, i < dc + 1 → postingKey terms.length true (dc + 1) < postingKey terms.length true i) ∧
    postingKeyToName terms.length reverse (postingKey terms.length reverse (dc + 1)) = .ok none := by
  have hl : lastIdx d terms = none := (lastIdx_none d terms).mpr hnone
  refine ⟨by rw [postingArray_get dc terms d hd, hl], ?_, ?_, ?_⟩
  · intro i hi; simp only [postingKey, Bool.false_eq_true, if_false]; omega
  · intro i hi; simp only [postingKey, if_true]; omega
  · cases reverse
    · simp only [postingKeyToName, postingKey, Bool.false_eq_true, if_false]
      have h1 : ((dc + 1 : Nat) : Int) ≥ (terms.length : Int) := by omega
      rw [if_pos h1]
    · simp only [postingKeyToName, postingKey, if_true]
      have e : (terms.length : Int) - ((terms.length : Int) - ((dc + 1 : Nat) : Int)) = ((dc + 1 : Nat) : Int) := by omega
      rw [e]
      have h1 : ((dc + 1 : Nat) : Int) ≥ (terms.length : Int) := by omega
      rw [if_pos h1]

/-- Non-vacuity: three documents, two values; document 1 has no value. -/
example : lastIdx 0 [[2], [0]] = some 1 ∧ lastIdx 2 [[2], [0]] = some 0 ∧ (∀ ps ∈ [[2], [0]], 1 ∉ ps) ∧
    postingArray 3 [[2], [0]] = [1, 4, 0] := by decide

/-- **C14.len (limited scored search).** After any run of a `TopCollector` (every limit, schedule,
    segment layout, `final()` hook, any scores), `len(results)` — `TopCollector.count()`
    after `fix: TopCollector.count is only exact when…` — is the number of matching documents:
    either an optimisation may have dropped documents (or block quality is in use) and the count is
    taken from `docs_for_query`, or nothing was dropped and `self.total` counted every posting.
    **Scope:** `topCount` is given the number of matching documents for its fallback branch (the
    model of `docs_for_query` is "all postings"), so only the branch `may_have_dropped = false ∧
    ¬ block quality` has content — it says that `self.total` can be trusted exactly when the collector
    says so. `len()` of a limited *collapsed* search is not covered here (declared in `PARTIAL`). -/
theorem len_top (cfg : Cfg) (final : Nat → Rat → Rat) (segs : List Seg) (sched : List Step)
    (st' : TopState) (sched' : List Step) (tr' : Trace)
    (hrun : runSegs cfg (topConsume cfg final) (fun st => st.minscore) segs sched {} {} = .ok (st', sched', tr')) :
    topCount cfg st' tr' (allHits cfg final segs).length = ((allHits cfg final segs).length : Int) := by
  unfold topCount
  by_cases h : (!(tr'.mayHaveDropped || useBlockQuality cfg tr'.supports)) = true
  · rw [if_pos h]
    have hf : tr'.mayHaveDropped = false := by
      simp only [Bool.not_eq_true', Bool.or_eq_false_iff] at h; exact h.1
    have := (runSegs_total cfg final segs sched {} {} st' sched' tr' hrun hf).2
    rw [this]; simp
  · rw [if_neg h]

/-- An `hrun` for the branch of `len_top` that has content: block quality off, nothing dropped,
    `limit = 1` of 3 matches — `self.total = 3` although the heap holds one hit. -/
example :
    let cfg : Cfg := { limit := 1, replace := 0, usequality := false }
    let segs : List Seg := [⟨0, true, [.mk' 0 3 true, .mk' 1 5 true, .mk' 2 1 true]⟩]
    ∃ st' sched' tr', runSegs cfg (topConsume cfg (fun _ s => s)) (fun st => st.minscore) segs [] {} {}
        = .ok (st', sched', tr') ∧
      tr'.mayHaveDropped = false ∧ useBlockQuality cfg tr'.supports = false ∧ st'.total = 3 ∧
      st'.results = [⟨1, 5⟩] := by
  intro cfg segs
  simp only [cfg, segs, runSegs]
  iterate 4
    rw [matchesLoop]
    simp +decide [replacePhase, replaceThreshold, skipPhase, dropMasked, skipDrop, useBlockQuality, Step.none,
      nextFlag, topConsume, toHit, TopState.collect, heapPush, heapLe, Posting.mk']
  refine ⟨_, _, _, ⟨rfl, rfl, rfl⟩, ?_⟩
  decide

end WM.C14
