import WM.Model.Codec
/-
Layer S for C10: what a posting list *means*, independently of blocks.

* `Entry` — what a reader must present for one posting; `expected` — the entry a written posting
  must come back as (weight to float32 precision, value `None` for formats without values).
* `decodeBlocks` / `den` — the plain list of entries a block list (a cursor) denotes.
* aggregates `minLen/maxLen/maxW/sumW` of a posting list — the "true" statistics.
* `split` — the block structure: consecutive chunks of `blocklimit` postings.
-/
namespace WM.Codec

variable {ι μ : Type}

/-- What `id() / weight() / value()` of a reader show for one posting. -/
structure Entry (ι : Type) where
  id : ι
  weight : Rat
  value : Option Bytes
  deriving Repr, DecidableEq

/-- The entry a written posting has to be read back as. -/
def expected (c : Cfg ι μ) (p : Posting ι) : Entry ι :=
  { id := p.id, weight := c.f32 p.weight
    value := match c.fixedsize with
      | some 0 => none
      | _ => some p.value }

/-- `zip` of three lists. -/
def zip3 : List ι → List Rat → List (Option Bytes) → List (Entry ι)
  | i :: is, w :: ws, v :: vs => ⟨i, w, v⟩ :: zip3 is ws vs
  | _, _, _ => []

/-- The entries of one block as the reader decodes them. -/
def blockEntries (k : IdKind ι μ) (fixedsize : Option Nat) (b : DiskBlock ι μ) :
    Except Err (List (Entry ι)) :=
  match readValues fixedsize b with
  | .error e => .error e
  | .ok vs => .ok (zip3 (readIds k b) (readWeights b) vs)

/-- The entries of a block list. -/
def decodeBlocks (k : IdKind ι μ) (fixedsize : Option Nat) :
    List (DiskBlock ι μ) → Except Err (List (Entry ι))
  | [] => .ok []
  | b :: bs =>
    match blockEntries k fixedsize b, decodeBlocks k fixedsize bs with
    | .ok es, .ok rest => .ok (es ++ rest)
    | .error e, _ => .error e
    | _, .error e => .error e

/-- What remains to be read from a cursor: the rest of the current block, then the later blocks. -/
def den (k : IdKind ι μ) (fixedsize : Option Nat) (m : Leaf ι μ) : Except Err (List (Entry ι)) :=
  if m.atend then .ok [] else
  match blockEntries k fixedsize m.cur, decodeBlocks k fixedsize (m.blocks.drop (m.pos + 1)) with
  | .ok es, .ok rest => .ok (es.drop m.i ++ rest)
  | .error e, _ => .error e
  | _, .error e => .error e

/-! ### True aggregates of a posting list -/

/-- Smallest truthy `length` (`None` when there is none). -/
def minLen (ps : List (Posting ι)) : Option Nat := ps.foldl (fun acc p => minStep acc p.length) none

/-- Largest `length` (0 when there is none). -/
def maxLen (ps : List (Posting ι)) : Nat := ps.foldl (fun acc p => maxStep acc p.length) 0

/-- Largest stored (float32) weight, starting from 0. -/
def maxW (f32 : Rat → Rat) (ps : List (Posting ι)) : Rat :=
  ps.foldl (fun acc p => wStep acc (f32 p.weight)) 0

/-- Sum of the stored (float32) weights. -/
def sumW (f32 : Rat → Rat) (ps : List (Posting ι)) : Rat :=
  (ps.map fun p => f32 p.weight).foldl (· + ·) 0

/-- The true term statistics of a posting list: document frequency, total (stored) weight,
    min/max field length, max weight, first and last id. -/
def tiOf (c : Cfg ι μ) (ps : List (Posting ι)) : TermInfo ι :=
  { weight := sumW c.f32 ps
    df := ps.length
    minlength := minLen ps
    maxlength := maxLen ps
    maxweight := maxW c.f32 ps
    minid := ps.head?.map (·.id)
    maxid := ps.getLast?.map (·.id) }

/-! ### Block structure -/

/-- The writer's splitting rule: a buffered chunk `r` is closed when a further posting arrives
    and `r` already holds `bl` postings.  Returns the closed chunks and the open remainder. -/
def splitAux {α : Type} (bl : Nat) (r : List α) : List α → List (List α) × List α
  | [] => ([], r)
  | q :: qs =>
    if r.length ≥ bl then
      let (cs, rem) := splitAux bl [q] qs
      (r :: cs, rem)
    else splitAux bl (r ++ [q]) qs

/-- Chunks of a posting list: all closed chunks, then the last (flagged) one. -/
def split {α : Type} (bl : Nat) (ps : List α) : List (List α) × List α := splitAux bl [] ps

/-- The value list a block stores: empty values are not appended (`if vbytes:`). -/
def storedValues (ch : List (Posting ι)) : List Bytes :=
  (ch.map (·.value)).filter (fun v => !v.isEmpty)

/-- Closed form of the buffer after `add_posting` of every posting of `ch`. -/
def bufOf (c : Cfg ι μ) (ch : List (Posting ι)) : Buf ι :=
  { ids := ch.map (·.id)
    weights := ch.map (fun p => c.f32 p.weight)
    values := storedValues ch
    minlength := minLen ch
    maxlength := maxLen ch
    maxweight := maxW c.f32 ch }

/-- The block record that the chunk `ch` (whose last id is `lastId`) is written as. -/
def encodeBlock (c : Cfg ι μ) (last : Bool) (ch : List (Posting ι)) (lastId : ι) : DiskBlock ι μ :=
  { last := last
    info := { count := ch.length, lastId := lastId, maxWeight := maxW c.f32 ch, comp := c.compression
              minLenByte := lengthToByte (minLen ch)
              maxLenByte := lengthToByte (some (maxLen ch)) }
    mids := c.ids.mini (ch.map (·.id))
    mw := miniWeights (ch.map fun p => c.f32 p.weight)
    mv := miniValues c.fixedsize (storedValues ch) }

/-- `b` is the record of chunk `ch`. -/
def BlockOf (c : Cfg ι μ) (last : Bool) (ch : List (Posting ι)) (b : DiskBlock ι μ) : Prop :=
  ∃ lp, ch.getLast? = some lp ∧ b = encodeBlock c last ch lp.id

/-- Admissible values for a format of the given fixed size: variable-size values are never empty
    (an empty one is silently dropped from the block), fixed-size values have that size. -/
def ValuesOk (fixedsize : Option Nat) (ps : List (Posting ι)) : Prop :=
  match fixedsize with
  | none => ∀ p ∈ ps, p.value ≠ []
  | some 0 => True
  | some (k + 1) => ∀ p ∈ ps, p.value.length = k + 1

/-- Either every posting carries a truthy length or none does (a scorable field gives every
    posting a length ≥ 1, a non-scorable field and vectors give none). -/
def LengthsUniform (ps : List (Posting ι)) : Prop :=
  (∀ p ∈ ps, truthy p.length = true) ∨ (∀ p ∈ ps, truthy p.length = false)

end WM.Codec
