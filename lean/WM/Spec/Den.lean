/-
Layer S for the matcher family (C11, C12, matcher half of C05).

The *denotation* of a matcher is the list of `(document id, score)` entries it has still to
deliver, ids strictly ascending.  This file defines that type and the handful of list operations
in which the meaning of every matcher node is expressed (what a union, an intersection, a
difference, … of two result lists *is*), with no algorithmic content: no cursors, no blocks, no
skipping.  A reader can check these definitions against properties.jsonl C11/C12 in minutes.
-/
namespace WM.Matcher

/-- Remaining result list: `(id, score)`, ids strictly ascending (see `Asc`). -/
abbrev Den := List (Nat × Rat)

/-- The score of document `d` in the list, if it is there. -/
def lookup : Den → Nat → Option Rat
  | [], _ => none
  | (x, s) :: L, d => if x = d then some s else lookup L d

/-- Ids strictly ascend. -/
def Asc (L : Den) : Prop := L.Pairwise (fun p q => p.1 < q.1)

/-- `skip_to(t)` on a list: forget every entry whose id is below `t`. -/
def dropBelow (t : Nat) (L : Den) : Den := L.dropWhile (fun p => decide (p.1 < t))

/-- The entries a top-N search with threshold `q` still cares about: score strictly above `q`. -/
def hi (q : Rat) (L : Den) : Den := L.filter (fun p => decide (q < p.2))

/-- Union of two lists; an id present in both gets `f` of the two scores (`+` for OR, `max` for
    DisjunctionMax). -/
def unionWith (f : Rat → Rat → Rat) : Den → Den → Den
  | [], B => B
  | A, [] => A
  | (x, s) :: A, (y, t) :: B =>
    if x < y then (x, s) :: unionWith f A ((y, t) :: B)
    else if y < x then (y, t) :: unionWith f ((x, s) :: A) B
    else (x, f s t) :: unionWith f A B
termination_by A B => A.length + B.length

/-- Ids present in both lists, scores combined with `f` (`+` for AND, `fun s _ => s` for Require). -/
def interWith (f : Rat → Rat → Rat) (A B : Den) : Den :=
  A.filterMap fun p => (lookup B p.1).map fun t => (p.1, f p.2 t)

/-- Entries of `A` whose id is not in `B` (AND NOT). -/
def diff (A B : Den) : Den := A.filter fun p => (lookup B p.1).isNone

/-- Entries of `A`; where `B` has the same id its score is added (AND MAYBE). -/
def leftJoin (A B : Den) : Den :=
  A.map fun p => (p.1, match lookup B p.1 with | some t => p.2 + t | none => p.2)

/-- Scores multiplied by a boost. -/
def scale (w : Rat) (A : Den) : Den := A.map fun p => (p.1, p.2 * w)

/-- Every entry scores `c` (ConstantScore). -/
def constScore (c : Rat) (A : Den) : Den := A.map fun p => (p.1, c)

/-- Filter by membership of the id in `S` (`excl = false`: keep ids in `S`; `true`: keep ids not in `S`). -/
def keepIds (S : List Nat) (excl : Bool) (A : Den) : Den :=
  A.filter fun p => (S.contains p.1) != excl

/-- Ids of `[lo, limit)` that are neither `missing` nor in `C`, each scoring `w` (Inverse / NOT). -/
def complement (lo limit : Nat) (missing : List Nat) (C : Den) (w : Rat) : Den :=
  ((List.range' lo (limit - lo)).filter fun i => !missing.contains i && (lookup C i).isNone).map
    fun i => (i, w)

/-- Ids shifted by a segment offset (MultiMatcher). -/
def shift (off : Nat) (A : Den) : Den := A.map fun p => (p.1 + off, p.2)

/-- Union of several lists; the scores of an id present in several are added (Or over many clauses). -/
def sumDens : List Den → Den
  | [] => []
  | D :: Ds => unionWith (· + ·) D (sumDens Ds)

/-- Entries whose id is below `n` (`doccount`: ids at or beyond it are not documents of the reader). -/
def below (n : Nat) (L : Den) : Den := L.filter fun p => decide (p.1 < n)

/-- All scores are non-negative. -/
def NonNegDen (L : Den) : Prop := ∀ p ∈ L, 0 ≤ p.2

/-- `q` bounds every score of the list. -/
def BoundedBy (q : Rat) (L : Den) : Prop := ∀ p ∈ L, p.2 ≤ q

/-- Every entry of `L'` is an entry of `L` with a score that did not grow (what a quality skip may
    leave behind below the threshold). -/
def Dominated (L' L : Den) : Prop := ∀ p ∈ L', ∃ r, (p.1, r) ∈ L ∧ p.2 ≤ r

/-- The contract of `skip_to_quality(q)` / `replace(q)` on result lists: above `q` nothing is lost,
    nothing is invented and no score changes; what remains below is dominated by the original. -/
structure Keeps (q : Rat) (L' L : Den) : Prop where
  hi_eq : hi q L' = hi q L
  dom : Dominated L' L

/-! ### programs over the cursor protocol (C11 path independence) -/

/-- cursor commands of the matcher protocol -/
inductive Cmd where
  | next | skipTo (t : Nat) | reset

/-- their meaning on `(complete list, remaining list)`; `none` = the call is not allowed (whoosh
    raises `ReadTooFar`/`IndexError` on an exhausted matcher) -/
def Cmd.spec : Cmd → Den × Den → Option (Den × Den)
  | .next, (F, _ :: L) => some (F, L)
  | .next, (_, []) => none
  | .skipTo t, (F, p :: L) => some (F, dropBelow t (p :: L))
  | .skipTo _, (_, []) => none
  | .reset, (F, _) => some (F, F)

def runSpec : List Cmd → Den × Den → Option (Den × Den)
  | [], st => some st
  | c :: cs, st => (c.spec st).bind (runSpec cs)

/-- … and with `replace()` (no threshold) in place of `reset` (a replacement may have shed exhausted sub-matchers,
    so `reset()` after `replace()` is undefined): the meaning on the remaining list alone -/
inductive CmdR where
  | next | skipTo (t : Nat) | replace0

def CmdR.spec : CmdR → Den → Option Den
  | .next, _ :: L => some L
  | .next, [] => none
  | .skipTo t, p :: L => some (dropBelow t (p :: L))
  | .skipTo _, [] => none
  | .replace0, L => some L

def runSpecR : List CmdR → Den → Option Den
  | [], L => some L
  | c :: cs, L => (c.spec L).bind (runSpecR cs)

end WM.Matcher
