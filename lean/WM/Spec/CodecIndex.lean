import WM.Model.CodecIndex
/-
Layer S for C10, document level: what "the postings / the vector that analysis of the document
produced" means, with no encoding in it.

* `occ toks w` — the tokens of the stream whose text is `w`, in order; everything a posting says
  about `(w, doc)` is a projection of this list.
* `PostingSpec` — frequency, weight, positions, character ranges, per-position boosts.
* `specPostings docs w` — the posting list of `w`: the documents that contain it, in the order
  given (ascending document numbers), each with its `PostingSpec`.
* `specVector doc` — the term vector of a document: its distinct terms, ascending, each with its
  `PostingSpec`.
-/
namespace WM.Codec

/-- Tokens with text `w`, in stream order. -/
def occ (toks : List Token) (w : String) : List Token := toks.filter (fun t => t.text == w)

/-- `l` with `x` appended unless already present. -/
def insertNew (l : List String) (x : String) : List String := if x ∈ l then l else l ++ [x]

/-- The distinct token texts in order of first occurrence. -/
def distinctTexts (toks : List Token) : List String := toks.foldl (fun l t => insertNew l t.text) []

/-- What analysis produced for one (term, document) pair. -/
structure PostingSpec where
  freq : Nat
  weight : Rat
  positions : List Int
  chars : List (Int × Int × Int)
  boosts : List Rat
  deriving Repr, DecidableEq

/-- The posting of a term given its occurrences: weight = (Σ token boosts) × field boost, except
    that `Existence` stores no frequency information (freq 1, weight = field boost). -/
def postingSpec (fmt : Fmt) (fb : Rat) (os : List Token) : PostingSpec :=
  { freq := if fmt = .existence then 1 else os.length
    weight := if fmt = .existence then fb else sumR (os.map (·.boost)) * fb
    positions := os.map (·.pos)
    chars := os.map fun t => (t.pos, t.startchar, t.endchar)
    boosts := os.map (·.boost) }

/-- The posting list of term `w`: documents containing it, in the given order; the document-level
    boost multiplies the weight (`weight *= fieldboost` in `SegmentWriter.add_document`). -/
def specPostings (fmt : Fmt) (fb : Rat) (docs : List DocIn) (w : String) : List (Int × PostingSpec) :=
  docs.filterMap fun d =>
    if (occ d.toks w).isEmpty then none
    else
      let p := postingSpec fmt fb (occ d.toks w)
      some (d.docnum, { p with weight := p.weight * d.boost })

/-- The term vector of a document (vector format `vfmt`): distinct terms ascending, each with its
    posting.  The document-level boost does not enter (`add_document` does not apply it). -/
def specVector (vfmt : Fmt) (fb : Rat) (toks : List Token) : List (String × PostingSpec) :=
  ((distinctTexts toks).mergeSort (fun a b => decide (a ≤ b))).map fun w =>
    (w, postingSpec vfmt fb (occ toks w))

/-- What a decoded value of format `fmt` has to show, as far as the format stores it. -/
def valueAgrees (fmt : Fmt) (v : FValue) (p : PostingSpec) : Prop :=
  decodeFrequency v = some p.freq ∧
  match fmt with
  | .existence | .frequency => True
  | .positions => decodePositions v = some p.positions
  | .characters => decodePositions v = some p.positions ∧ decodeCharacters v = some p.chars
  | .positionBoosts =>
    decodePositions v = some p.positions ∧ decodePositionBoosts v = some (p.positions.zip p.boosts)
  | .characterBoosts =>
    decodePositions v = some p.positions ∧ decodeCharacters v = some p.chars ∧
    decodePositionBoosts v = some (p.positions.zip p.boosts) ∧
    decodeCharacterBoosts v = some ((p.chars.zip p.boosts).map fun ((a, b, c), x) => (a, b, c, x))

end WM.Codec
