import WM.Model.Normalize
/-
The trees on which `normalize` is meaning-preserving (hypothesis of `WM.C15.normalize_sat_partial`).

`clean q` excludes exactly the rewrite rules of `CompoundQuery.normalize` / `Not.normalize` that are
recorded as genuine defects of the tree (findings/C15.json) because the test-suite pins them:

* `and-null`        an `And` with some, but not all, clauses normalizing to `NullQuery`
                    (the Null clauses are dropped although `x AND <nothing>` matches nothing);
* `not-null`        `Not(q)` with `q` normalizing to `NullQuery` becomes `NullQuery`
                    (it matches every document);
* `and-every-field` an `And` with an `Every(f)` clause next to another clause on field `f`
                    (the other clause is dropped, `Every(f)` survives);
* `and-range-overlap` an `And` with two overlapping `TermRange`s (merged by `RangeMixin.merge`,
                    which returns the *outer* range for nested ranges and intersects term ranges
                    although a multi-valued field can satisfy both with different terms);
* `seq-child`       a `Sequence`/`Ordered` whose subqueries are changed by `normalize` (the spec
                    does not model spans, so nothing is claimed).

`defects q` lists the tags of the clauses `q` violates (used by the check to classify failing
inputs); `clean q` is their conjunction.
-/
namespace WM.Clean
open WM.Normalize

/-- (N) either every clause is Null or none is. -/
def nullMixOk (subs : List Q) : Bool := subs.all Q.isNull || subs.all (fun s => !s.isNull)

/-- (E) no fielded `Every` next to a different clause with the same field. -/
def everyFieldOk (subs : List Q) : Bool :=
  subs.all fun s =>
    match s with
    | .every (some f) _ => subs.all fun s' => s'.field != some f || s'.isEvery
    | _ => true

/-- (R) no `TermRange` overlaps a later one. -/
def rangesApart : List Q → Bool
  | [] => true
  | s :: rest =>
    (match s.asRange with
      | some r => rest.all fun s' =>
          match s'.asRange with
          | some r' => !r.overlaps r'
          | none => true
      | none => true) && rangesApart rest

mutual
def clean : Q → Bool
  | .comp k qs _ =>
    cleanList qs &&
      (k != .and ||
        (let subs := flatten k (normalizeList qs)
         nullMixOk subs && everyFieldOk subs && rangesApart subs))
  | .seq _ qs _ _ _ => normalizeList qs == qs
  | .not q _ => clean q && !(normalize q).isNull
  | .bin _ a b => clean a && clean b
  | _ => true
def cleanList : List Q → Bool
  | [] => true
  | q :: qs => clean q && cleanList qs
end

/-! ### The empty term

On an index that holds the empty term (an `ID` field with value `""`) one more rewrite is not meaning
preserving: an *exclusive* start that is open (`None`) or the empty string leaves the empty term out
of a `TermRange`, but `TermRange.normalize` turns `{ TO ...]` into `Every(f)` and the comparables of
`RangeMixin.overlaps/merge` forget the exclusion of an open start.  `emptyOk q` says that no such
range is a leaf that `normalize` rewrites or a clause of a merging loop (on an index without the empty
term nothing is demanded: hypothesis `emptyOk q = true ∨ no document holds the empty term`). -/

/-- The clause is not a `TermRange` with an exclusive open/empty start. -/
def rangeOk (s : Q) : Bool :=
  match s.asRange with
  | some r => !(r.lox && (r.lo == none || r.lo == some []))
  | none => true

mutual
def emptyOk : Q → Bool
  | .range _ lo _ lx _ _ _ => !(lx && (lo == none || lo == some []))
  | .comp k qs _ => emptyOkList qs && (flatten k (normalizeList qs)).all rangeOk
  | .not q _ => emptyOk q
  | .bin _ a b => emptyOk a && emptyOk b
  | _ => true
def emptyOkList : List Q → Bool
  | [] => true
  | q :: qs => emptyOk q && emptyOkList qs
end

mutual
def defects : Q → List String
  | .comp k qs _ =>
    defectsList qs ++
      (if k == .and then
        let subs := flatten k (normalizeList qs)
        (if nullMixOk subs then [] else ["and-null"])
          ++ (if everyFieldOk subs then [] else ["and-every-field"])
          ++ (if rangesApart subs then [] else ["and-range-overlap"])
      else [])
  | .seq _ qs _ _ _ => if normalizeList qs == qs then [] else ["seq-child"]
  | .not q _ => defects q ++ (if (normalize q).isNull then ["not-null"] else [])
  | .bin _ a b => defects a ++ defects b
  | _ => []
def defectsList : List Q → List String
  | [] => []
  | q :: qs => defects q ++ defectsList qs
end


/-! ### Hypotheses of the `accept`/`replace` theorems -/

mutual
/-- No `Not` node anywhere in the tree. -/
def notFree : Q → Bool
  | .comp _ qs _ => notFreeList qs
  | .seq _ qs _ _ _ => notFreeList qs
  | .not _ _ => false
  | .bin _ a b => notFree a && notFree b
  | .const q _ => notFree q
  | _ => true
def notFreeList : List Q → Bool
  | [] => true
  | q :: qs => notFree q && notFreeList qs
end

mutual
/-- No `Not` node below a `Sequence`/`Ordered` node.  (`Not.apply` forgets the boost of the `Not`;
    the positional part of a sequence is a function of the syntactic subqueries, so a rebuilt
    sequence is only guaranteed to mean the same if its subqueries are rebuilt identically.) -/
def seqNotFree : Q → Bool
  | .comp _ qs _ => seqNotFreeList qs
  | .seq _ qs _ _ _ => notFreeList qs
  | .not q _ => seqNotFree q
  | .bin _ a b => seqNotFree a && seqNotFree b
  | .const q _ => seqNotFree q
  | _ => true
def seqNotFreeList : List Q → Bool
  | [] => true
  | q :: qs => seqNotFree q && seqNotFreeList qs
end

mutual
/-- The term `(fld, old)` does not occur in the tree (in a `Term`, `FuzzyTerm`, `Variations` or
    `Phrase`: the classes whose `replace` looks at the text). -/
def absent (fld : Field) (old : Text) : Q → Bool
  | .term f t _ => !(f == fld && t == old)
  | .multi k f t _ _ => !((k == 0 || k == 1) && f == fld && t == old)
  | .phrase f ws _ _ => !(f == fld && ws.contains old)
  | .comp _ qs _ => absentList fld old qs
  | .seq _ qs _ _ _ => absentList fld old qs
  | .not q _ => absent fld old q
  | .bin _ a b => absent fld old a && absent fld old b
  | .const q _ => absent fld old q
  | _ => true
def absentList (fld : Field) (old : Text) : List Q → Bool
  | [] => true
  | q :: qs => absent fld old q && absentList fld old qs
end

end WM.Clean
