import WM.Model.Compound
/-
Layer S for `CompoundWriter`: a program of `create_file` / `write` calls, its execution on the model
(`step`) and what each stream has been given when buffering and the shared temp file are forgotten
(`specStep`).
-/
namespace WM.C20
open WM.Compound

inductive Op where
  | create (name : String)
  | write (name : String) (data : Bytes)

def step (w : Writer) : Op → Writer
  | .create name => w.createFile name
  | .write name data => w.write name data

/-- what each stream has been given, in creation order (no buffering, no temp file) -/
def specStep (s : List (String × Bytes)) : Op → List (String × Bytes)
  | .create name =>
    if s.any (·.1 == name) then s.map fun p => if p.1 == name then (name, []) else p
    else s ++ [(name, [])]
  | .write name data => s.map fun p => if p.1 == name then (p.1, p.2 ++ data) else p

end WM.C20
