/-
Layer S for C05/C14 (collect family): what "the ranking" and "the top k" mean.

A hit is a global document number with a score.  The exhaustive ranking orders hits by
descending score and, on equal scores, by ascending document number (properties.jsonl C05).
Nothing algorithmic lives here: the ranking is "sort the hits", the top k is "take k of it".
-/
namespace WM.Rank

structure Hit where
  doc : Nat
  score : Rat
deriving DecidableEq, Repr, Inhabited

/-- `a` is ranked no later than `b`: higher score first, lower document number on ties. -/
def rankLe (a b : Hit) : Bool :=
  decide (b.score < a.score) || (a.score == b.score && decide (a.doc ≤ b.doc))

/-- The exhaustive ranking of a bag of hits (`search(q, limit=None)`). -/
def rankAll (hs : List Hit) : List Hit := hs.mergeSort rankLe

/-- What `search(q, limit=k)` must return. -/
def topK (k : Nat) (hs : List Hit) : List Hit := (rankAll hs).take k

end WM.Rank
