import WM.Model.Columns
/-
Layer S for C08: a column is a total function from document numbers to values — the value that
was supplied for the document, the column default otherwise.
-/
namespace WM.Columns

/-- The value supplied for document `d`, if any (`adds` as given to the writer). -/
def lookup {α : Type} (adds : List (Nat × α)) (d : Nat) : Option α :=
  (adds.find? (fun p => p.1 == d)).map (·.2)

/-- What reading document `d` of a column must give. -/
def cell {α : Type} (default : α) (adds : List (Nat × α)) (d : Nat) : α :=
  (lookup adds d).getD default

/-- All rows `0 … doccount-1`. -/
def rowsOf {α : Type} (default : α) (adds : List (Nat × α)) (doccount : Nat) : List α :=
  (List.range doccount).map (cell default adds)

/-- Distinct values in order of first appearance, starting with the default (`RefBytesColumn`'s
    table of uniques). -/
def uniquesOf {α : Type} [BEq α] [LawfulBEq α] (default : α) (adds : List (Nat × α)) : List α :=
  adds.foldl (fun us p => if p.2 ∈ us then us else us ++ [p.2]) [default]

/-- `RefBytesColumn` cell given the table of uniques. -/
def refCellWith {α : Type} [BEq α] [LawfulBEq α] (us : List α) (default : α) (adds : List (Nat × α)) (d : Nat) : α :=
  match lookup adds d with
  | none => default
  | some v => if us.idxOf v > 65535 then default else v

/-- `RefBytesColumn` cell: as `cell`, except that — as documented — unique values beyond the
    65 536th (table position > 65 535) are converted to the default. -/
def refCell {α : Type} [BEq α] [LawfulBEq α] (default : α) (adds : List (Nat × α)) (d : Nat) : α :=
  refCellWith (uniquesOf default adds) default adds d

def refRowsOf {α : Type} [BEq α] [LawfulBEq α] (default : α) (adds : List (Nat × α)) (doccount : Nat) : List α :=
  let us := uniquesOf default adds
  (List.range doccount).map (refCellWith us default adds)

/-- Document numbers strictly increase (one `add` per document, in order). -/
def Increasing {α : Type} (adds : List (Nat × α)) : Prop :=
  adds.Pairwise (fun a b => a.1 < b.1)

/-- `doccount` lies beyond every added document. -/
def Within {α : Type} (adds : List (Nat × α)) (doccount : Nat) : Prop :=
  ∀ p ∈ adds, p.1 < doccount

/-- `SegmentWriter.write_per_doc` (merge): every live document of the old segment, in order,
    becomes the next document of the new segment and its column value is copied. -/
def mergedAdds {α : Type} (default : α) (adds : List (Nat × α)) (live : List Nat) : List (Nat × α) :=
  (live.zipIdx).map fun p => (p.2, cell default adds p.1)

/-- The rows a segment shows: its own, or `count` defaults when it has no column. -/
def SegCol.expand {α : Type} (default : α) : SegCol α → List α
  | .rows r => r
  | .empty n => List.replicate n default

/-- What a document stores for one of its fields: the value supplied for a stored field — the
    `_stored_<name>` override when one was passed — and nothing for a field that is not stored,
    not supplied, or overridden with `None`. -/
def specField {α : Type} (f : FieldIn α) : Option α :=
  if f.stored && f.value.isSome then
    (match f.override with
     | none => f.value
     | some o => o)
  else none

/-- What `stored_fields(doc)[name]` must be (absent when the document has no such field). -/
def specStored {α : Type} (fields : List (FieldIn α)) (name : String) : Option α :=
  (fields.find? (fun f => f.name == name)).bind specField

end WM.Columns
