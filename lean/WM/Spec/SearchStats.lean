import WM.Spec.Search
import WM.Model.LengthByte
import WM.Model.MatcherScoring
/-!
Layer S for C09 (layout): the collection statistics a weighting model reads, as whoosh derives
them from the segments (`reading.MultiReader`: sums of the per-segment values; deleted documents
stay in the statistics until a merge drops them), and leaf scorers that are functions of these
statistics, the stored term weight and the length-byte approximation of the field length
(`scoring.WeightLengthScorer`, `BM25FScorer`, `TF_IDFScorer`, `PL2Scorer`, `DFreeScorer`).
-/
namespace WM.Search

/-- number of tokens of the field (the field length stored for a scorable field) -/
def Doc.length (d : Doc) (f : String) : Nat := (d.tokens f).length

/-- what a scorer may read about a term of a field from the top-level searcher -/
structure TermStats where
  /-- `doc_count_all()` -/
  docCount : Nat
  /-- `doc_frequency(field, term)` -/
  docFreq : Nat
  /-- `frequency(field, term)`: the sum of the stored weights -/
  collFreq : Rat
  /-- `field_length(field)`: the sum of the (approximated) field lengths -/
  fieldLength : Nat
  deriving DecidableEq, Repr

namespace Segment
def docFreq (s : Segment) (f : String) (t : Term) : Nat := (s.docs.filter (fun d => d.hasTerm f t)).length
def collFreq (s : Segment) (f : String) (t : Term) : Rat := (s.docs.map (fun d => d.weight f t)).sum
def fieldLength (s : Segment) (f : String) : Nat := (s.docs.map (fun d => WM.LengthByte.approx (d.length f))).sum
end Segment

/-- `MultiReader`: every statistic is the sum of the segments' statistics -/
def termStats (idx : Index) (f : String) (t : Term) : TermStats :=
  { docCount := (idx.map (·.size)).sum
    docFreq := (idx.map (fun s => s.docFreq f t)).sum
    collFreq := (idx.map (fun s => s.collFreq f t)).sum
    fieldLength := (idx.map (fun s => s.fieldLength f)).sum }

/-- a weighting model: score of a posting from the term's collection statistics, the stored weight
    and the approximated field length of the document -/
abbrev Weighting := TermStats → Rat → Nat → Rat

/-- the leaf scorer a weighting model induces on an index -/
def statLeaf (w : Weighting) (idx : Index) : LeafScore := fun d f t =>
  w (termStats idx f t) (d.weight f t) (WM.LengthByte.approx (d.length f))

/-- all documents of an index in global doc-number order (deleted ones included) -/
def allDocs (idx : Index) : List Doc := idx.flatMap (·.docs)

/-- the live documents of an index in global doc-number order -/
def liveDocs (idx : Index) : List Doc := idx.flatMap (fun s => s.live.map s.doc)

def NoDeletions (idx : Index) : Prop := ∀ s ∈ idx, s.deleted = []

/-! ### the shipped weighting models that are rational functions of the statistics

`scoring.Frequency`, `scoring.TF_IDF`, `scoring.BM25F` (the formulas are the matcher family's
`WM.Matcher.freqScore / tfidfScore / bm25`, mirrors of `scoring.py`).  The inverse document frequency
`log(dc / (n + 1)) + 1` is not rational: it enters as an arbitrary function of the two statistics it
is computed from.  Each scorer reads the statistics of the **whole index** (`termStats idx`: the
scorer is built per segment but asks `searcher.get_parent()`), the stored weight of the posting and
the approximated length of the document's field. -/

/-- `WeightingModel.idf(searcher, fieldname, text)` as a function of `doc_count_all()` and
    `doc_frequency()` of the parent searcher -/
abbrev Idf := Nat → Nat → Rat

/-- `Searcher.avg_field_length(f) or 1` with `avg = field_length / (doc_count_all or 1)` -/
def avgFieldLength (st : TermStats) : Rat :=
  let a := (st.fieldLength : Rat) / (if st.docCount = 0 then 1 else (st.docCount : Rat))
  if a = 0 then 1 else a

/-- `scoring.TF_IDF` -/
def tfidfLeaf (idf : Idf) (idx : Index) : LeafScore := fun d f t =>
  let st := termStats idx f t
  WM.Matcher.tfidfScore (idf st.docCount st.docFreq) (d.weight f t) (WM.LengthByte.approx (d.length f))

/-- parameters of `scoring.BM25F(B, K1, <field>_B=...)` and which fields are scorable (a field
    that stores no lengths is scored by `WeightScorer`: the weight) -/
structure Bm25 where
  idf : Idf
  K1 : Rat
  B : String → Rat
  scorable : String → Bool

/-- `scoring.BM25F` -/
def bm25fLeaf (p : Bm25) (idx : Index) : LeafScore := fun d f t =>
  let st := termStats idx f t
  if p.scorable f then
    WM.Matcher.bm25 (p.idf st.docCount st.docFreq) (avgFieldLength st) (p.B f) p.K1 (d.weight f t)
      (WM.LengthByte.approx (d.length f))
  else d.weight f t

end WM.Search
