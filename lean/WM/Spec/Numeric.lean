/-
C13, layer S: what "a value lies in the interval" and "sorted by the field" mean.  No algorithmic
content: a strict order `lt` on the value type, the four inclusivity combinations, open ends.
For integers, Decimals (as their scaled integers) and datetimes (as microsecond counts) the order is
`<` on `Int`; for floats it is the IEEE-754 *totalOrder* on 64-bit patterns, which on non-NaN values
is the numeric order refined by `-0.0 < +0.0` — this is what the sortable encoding implements.
The *numeric* reading (`inIntervalNum`: Python's `<`/`<=`, `-0.0 == 0.0`, NaN never inside a bounded
side) is given as well; the two agree except for a zero value facing a zero bound of the other sign
and for NaNs (`WM.C13.range_query_float_numeric_partial` / `_full_false`).
-/
namespace WM.NumericSpec

/-- `v` lies in the interval from `start` to `end_` (`none` = unbounded) with exclusive flags. -/
def inInterval {α} (lt : α → α → Bool) (start end_ : Option α) (startexcl endexcl : Bool) (v : α) :
    Bool :=
  (match start with
    | none => true
    | some s => if startexcl then lt s v else !(lt v s)) &&
  (match end_ with
    | none => true
    | some e => if endexcl then lt v e else !(lt e v))

def intLt (a b : Int) : Bool := a < b

/-- IEEE-754 totalOrder on binary64 patterns (sign-magnitude): negative patterns are ordered by
    descending magnitude and lie below all non-negative ones, `-0.0 < +0.0`. -/
def totalLt (a b : Nat) : Bool :=
  let sa := a / 2 ^ 63 % 2
  let sb := b / 2 ^ 63 % 2
  let ma := a % 2 ^ 63
  let mb := b % 2 ^ 63
  if sa = 1 then (if sb = 1 then mb < ma else true)
  else (if sb = 1 then false else ma < mb)

/-! Numeric (Python / IEEE-754 comparison) membership of a double, for comparison with the total
    order: `-0.0 == 0.0`, and a NaN is neither below nor above anything. -/

def isNaN (b : Nat) : Bool := b % 2 ^ 63 > 0x7ff0000000000000
def isZero (b : Nat) : Bool := b % 2 ^ 63 == 0

/-- Python's `a < b` on doubles. -/
def ieeeLt (a b : Nat) : Bool :=
  !isNaN a && !isNaN b && !(isZero a && isZero b) && totalLt a b

/-- Python's `a <= b` on doubles. -/
def ieeeLe (a b : Nat) : Bool :=
  !isNaN a && !isNaN b && ((isZero a && isZero b) || !totalLt b a)

/-- `start <(=) v <(=) end` with Python's comparisons: what "the value lies in the interval" means
    numerically.  A bounded side is never satisfied by a NaN. -/
def inIntervalNum (start end_ : Option Nat) (startexcl endexcl : Bool) (v : Nat) : Bool :=
  (match start with
    | none => true
    | some s => if startexcl then ieeeLt s v else ieeeLe s v) &&
  (match end_ with
    | none => true
    | some e => if endexcl then ieeeLt v e else ieeeLe v e)

/-- Lexicographic order of `(days, seconds, microseconds)` triples: the order of datetimes. -/
def tripleLt (a b : Int × Int × Int) : Bool :=
  decide (a.1 < b.1 ∨ (a.1 = b.1 ∧ (a.2.1 < b.2.1 ∨ (a.2.1 = b.2.1 ∧ a.2.2 < b.2.2))))

def ratLt (a b : Rat) : Bool := a < b

/-- The documents (by position) having at least one value numerically in the interval (floats). -/
def filterIdxNum (docs : List (List Nat)) (start end_ : Option Nat) (startexcl endexcl : Bool) :
    List Nat :=
  (docs.zipIdx.filter fun (vs, _) => vs.any (inIntervalNum start end_ startexcl endexcl)).map (·.2)

/-- The documents (by position) having at least one value in the interval. -/
def filterIdx {α} (lt : α → α → Bool) (docs : List (List α)) (start end_ : Option α)
    (startexcl endexcl : Bool) : List Nat :=
  (docs.zipIdx.filter fun (vs, _) => vs.any (inInterval lt start end_ startexcl endexcl)).map (·.2)

/-- Document positions in ascending order of their (single) value, ties in document order. -/
def sortIdx {α} (lt : α → α → Bool) (vals : List α) : List Nat :=
  (vals.zipIdx.mergeSort fun a b => !(lt b.1 a.1)).map (·.2)

end WM.NumericSpec
