/-
Layer S for the doc-id sets of C20: a finite set of non-negative integers is a strictly
ascending `List Nat`; the operations are the textbook ones, written with `filter`/ordered insert
so that they can be read in a minute.  Nothing here knows about bytes, arrays or bisecting.
-/
namespace WM.Spec.IdSet

/-- Canonical form: strictly ascending (hence duplicate free). -/
def Sorted (l : List Nat) : Prop := l.Pairwise (· < ·)

/-- Ordered insert without duplicates. -/
def insert (i : Nat) : List Nat → List Nat
  | [] => [i]
  | x :: xs => if i < x then i :: x :: xs else if i = x then x :: xs else x :: insert i xs

/-- The set of the members of an arbitrary list (order and repetitions forgotten). -/
def ofList (l : List Nat) : List Nat := l.foldr insert []

def mem (s : List Nat) (i : Nat) : Bool := s.contains i
def erase (i : Nat) (s : List Nat) : List Nat := s.filter (· != i)
/-- `a ∪ b`; `b` may be any list. -/
def union (a b : List Nat) : List Nat := b.foldr insert a
/-- `a ∩ b`; `b` may be any list. -/
def inter (a b : List Nat) : List Nat := a.filter (b.contains ·)
/-- `a \ b`; `b` may be any list. -/
def diff (a b : List Nat) : List Nat := a.filter (fun x => !b.contains x)
/-- Complement inside `[0, n)`. -/
def invert (n : Nat) (a : List Nat) : List Nat := (List.range n).filter (fun x => !a.contains x)
def first (a : List Nat) : Option Nat := a.head?
def last (a : List Nat) : Option Nat := a.getLast?
/-- Greatest member strictly below `i` (`i` may be negative or past the end). -/
def before (a : List Nat) (i : Int) : Option Nat := (a.filter (fun (x : Nat) => decide ((x : Int) < i))).getLast?
/-- Least member strictly above `i`. -/
def after (a : List Nat) (i : Int) : Option Nat := a.find? (fun (x : Nat) => decide ((x : Int) > i))

end WM.Spec.IdSet
