/-
Layer S for the index family (C07 / C06 / C18): an index is a *dictionary of documents*.

A document (`DocRec`) is what one `add_document(**fields)` call contributes: an identity (`key`,
the harness stores a serial number in a stored field), and per field the stored value, the
postings `(term, weight, value)` the field's `index()` produced, the field length, the column
value, the vector and — for unique fields — the term `update_document` looks up
(`field.to_bytes(value)`).  Values the index never inspects (stored value, posting value bytes,
column value, vector) are opaque identifiers.

The specification knows nothing about segments, doc numbers, deletion sets, merge policies or
writers' front-ends: a state is a schema and a list of live documents, read up to permutation.
-/
namespace WM.Dict

/-- One posting a field contributes for a document: term id (ids are assigned in byte order of
    the term), weight (numerator of the dyadic float weight) and the id of the value bytes. -/
structure Tok where
  term : Nat
  w : Nat
  v : Nat
deriving DecidableEq, Repr, Inhabited

structure FieldData where
  fld : Nat
  stored : Option Nat
  toks : List Tok
  len : Nat
  col : Option Nat
  vec : Option Nat
  /-- for a unique field: the term id of `field.to_bytes(value)`. -/
  ukey : Option Nat
deriving DecidableEq, Repr, Inhabited

structure DocRec where
  key : Nat
  fields : List FieldData
deriving DecidableEq, Repr, Inhabited

/-- field ids present in the schema, and which of them are `unique=True`. -/
structure Schema where
  fields : List Nat
  uniques : List Nat
deriving DecidableEq, Repr, Inhabited

def Schema.has (s : Schema) (f : Nat) : Bool := s.fields.contains f
def Schema.isUnique (s : Schema) (f : Nat) : Bool := s.fields.contains f && s.uniques.contains f

/-- What is visible of a document under a schema: the data of fields the schema still has. -/
def restrict (s : Schema) (d : DocRec) : DocRec :=
  { d with fields := d.fields.filter (fun fd => s.has fd.fld) }

def DocRec.hasField (d : DocRec) (f : Nat) : Bool := d.fields.any (fun fd => fd.fld == f)

/-- the document has a posting for term `t` in field `f`. -/
def DocRec.hasTerm (d : DocRec) (f t : Nat) : Bool :=
  d.fields.any (fun fd => fd.fld == f && fd.toks.any (fun k => k.term == t))

/-- `(field, term)` pairs `update_document` looks up for `d`: one per unique field of the schema
    that `d` supplies. -/
def uniqTerms (s : Schema) (d : DocRec) : List (Nat × Nat) :=
  d.fields.filterMap (fun fd => if s.isUnique fd.fld then fd.ukey.map (fun t => (fd.fld, t)) else none)

/-- `c` carries one of the unique terms `us`. -/
def sharesUnique (us : List (Nat × Nat)) (c : DocRec) : Bool :=
  us.any (fun ft => c.hasTerm ft.1 ft.2)

/-- the length of field `f` in the document (0 when absent). -/
def DocRec.fieldLen (d : DocRec) (f : Nat) : Nat := ((d.fields.filter (fun fd => fd.fld == f)).map (·.len)).sum

/-- Every field of the document is a schema field (`add_document` raises `UnknownFieldError`
    otherwise). -/
def DocRec.fits (s : Schema) (d : DocRec) : Bool := d.fields.all (fun fd => s.has fd.fld)

/-- A small query language for the driver; the theorems quantify over arbitrary predicates. -/
inductive QExpr where
  | term (f t : Nat)
  | keyEq (k : Nat)
  | every
  | and (a b : QExpr)
  | or (a b : QExpr)
  | not (a : QExpr)
deriving Repr, Inhabited

def QExpr.sat : QExpr → DocRec → Bool
  | .term f t, d => d.hasTerm f t
  | .keyEq k, d => d.key == k
  | .every, _ => true
  | .and a b, d => a.sat d && b.sat d
  | .or a b, d => a.sat d || b.sat d
  | .not a, d => !a.sat d

/-- The committed state of an index. -/
structure State where
  schema : Schema
  docs : List DocRec
deriving Repr, Inhabited

/-- A writer session in the specification: the committed documents it may delete and the
    documents it has added (not yet visible, not deletable by this writer). -/
structure Sess where
  schema : Schema
  committed : List DocRec
  fresh : List DocRec
deriving Repr, Inhabited

def State.open_ (s : State) : Sess := { schema := s.schema, committed := s.docs, fresh := [] }

def Sess.add (s : Sess) (d : DocRec) : Sess := { s with fresh := s.fresh ++ [d] }

/-- delete-by-query / delete-by-term / delete by number: only committed documents. -/
def Sess.deleteWhere (s : Sess) (p : DocRec → Bool) : Sess :=
  { s with committed := s.committed.filter (fun d => !p d) }

/-- remove one occurrence of a document (what deleting a doc number means for a multiset). -/
def Sess.erase (s : Sess) (d : DocRec) : Sess := { s with committed := s.committed.erase d }

/-- `update_document`: delete every live committed document sharing a unique-field value, add. -/
def Sess.update (s : Sess) (d : DocRec) : Sess :=
  (s.deleteWhere (sharesUnique (uniqTerms s.schema d))).add d

def Schema.remove (s : Schema) (f : Nat) : Schema :=
  { fields := s.fields.filter (· != f), uniques := s.uniques.filter (· != f) }

def Schema.add (s : Schema) (f : Nat) (uniq : Bool) : Schema :=
  { fields := s.fields ++ [f], uniques := if uniq then s.uniques ++ [f] else s.uniques }

def Sess.removeField (s : Sess) (f : Nat) : Sess :=
  let sc := s.schema.remove f
  { schema := sc, committed := s.committed.map (restrict sc), fresh := s.fresh.map (restrict sc) }

def Sess.addField (s : Sess) (f : Nat) (uniq : Bool) : Sess :=
  { s with schema := s.schema.add f uniq }

def Sess.commit (s : Sess) : State := { schema := s.schema, docs := s.committed ++ s.fresh }

/-- CLEAR merge policy: the committed documents are dropped, only the new ones remain. -/
def Sess.commitClear (s : Sess) : State := { schema := s.schema, docs := s.fresh }

/-- `cancel()` (or an exception inside `with`): the state the session was opened on. -/
def Sess.cancel (_ : Sess) (s0 : State) : State := s0

/-- The operations of a session, as the specification sees them. -/
inductive SOp where
  | add (d : DocRec)
  | erase (d : DocRec)
  | restore (d : DocRec)
  | deleteWhere (p : DocRec → Bool)
  | update (d : DocRec)
  | addField (f : Nat) (uniq : Bool)
  | removeField (f : Nat)
  | skip

/-- un-delete: the document is live again. -/
def Sess.restore (s : Sess) (d : DocRec) : Sess := { s with committed := s.committed ++ [d] }

def Sess.step (s : Sess) : SOp → Sess
  | .add d => s.add d
  | .erase d => s.erase d
  | .restore d => s.restore d
  | .deleteWhere p => s.deleteWhere p
  | .update d => s.update d
  | .addField f u => s.addField f u
  | .removeField f => s.removeField f
  | .skip => s

def Sess.run (s : Sess) (ops : List SOp) : Sess := ops.foldl Sess.step s

/-- How a session ends, as the specification sees it. -/
inductive SEnd where
  | commit | commitClear | cancel
deriving DecidableEq, Repr, Inhabited

/-- One writer session on the dictionary. -/
def State.session (s : State) (ops : List SOp) : SEnd → State
  | .commit => (s.open_.run ops).commit
  | .commitClear => (s.open_.run ops).commitClear
  | .cancel => (s.open_.run ops).cancel s

/-- at most one live document per key: for every unique field `f` of the schema and every term `t`
    at most one document of the list carries `t` in `f`. -/
def UniqueKeys (s : Schema) (docs : List DocRec) : Prop :=
  ∀ f t, s.isUnique f = true → (docs.filter (fun d => d.hasTerm f t)).length ≤ 1

/-! ### add-only calls and partitions of additions into sessions (used by `WM.C06.partition_invisible`) -/

/-- calls that only add documents (or do nothing) -/
def SOp.addOnly : SOp → Bool
  | .add _ | .skip => true
  | _ => false

/-- the documents an add-only call adds -/
def SOp.added : SOp → List DocRec
  | .add d => [d]
  | _ => []

/-- one committed session of `add_document` calls per part: any way of cutting a list of
    additions into commits -/
def State.addSessions (sp : State) : List (List DocRec) → State
  | [] => sp
  | ds :: r => State.addSessions (sp.session (ds.map .add) .commit) r

end WM.Dict
