import WM.Model.Parser
/-!
Specification side of C16: the documented query language as a tree type, how such a tree is
written down as the flat node list that `QueryParser.tag()` produces (`toks`), what it means
(`Expr.eval`: which documents it selects, given which documents each leaf selects) and the syntax
tree the parser is expected to build for it (`Expr.out`).

Binding strength, tightest first: `NOT`, `AND`, `OR`, `ANDNOT`, `ANDMAYBE`, `REQUIRE` (the three
binary operators associate to the left), then juxtaposition (the parser's implicit AND- or
OR-group).  Parentheses make a group of the parser's default kind.
-/
namespace WM.Parser

inductive Expr
  /-- a leaf syntax node: word, phrase, range, wildcard, prefix, regex, every -/
  | atom (n : Node)
  /-- `( e₁ e₂ … )` -/
  | paren (items : List Expr)
  /-- `NOT e` -/
  | not (e : Expr)
  /-- `e₁ OP e₂ OP … eₙ` for one of the infix operators AND, OR, ANDNOT, ANDMAYBE, REQUIRE (named by
      the group class they build); the binary ones associate to the left -/
  | op (g : GK) (es : List Expr)
  deriving Repr, Inhabited

mutual
  def Expr.size : Expr → Nat
    | .atom _ => 1
    | .paren items => 1 + Expr.sizeL items
    | .not e => 1 + e.size
    | .op _ es => 1 + Expr.sizeL es
  def Expr.sizeL : List Expr → Nat
    | [] => 0
    | e :: es => e.size + Expr.sizeL es
end

theorem Expr.size_mem {e : Expr} {l : List Expr} (h : e ∈ l) : e.size ≤ Expr.sizeL l := by
  induction l with
  | nil => cases h
  | cons a t ih =>
    simp only [Expr.sizeL]
    cases h with
    | head => omega
    | tail _ h => have := ih h; omega

/-- binding level of an infix operator; 0 for the group kinds that are not infix operators -/
def GK.lvl : GK → Nat
  | .and => 2
  | .or => 3
  | .andnot => 4
  | .andmaybe => 5
  | .require => 6
  | _ => 0

/-- binding level of the outermost construct (0 = atom or parenthesised group, 1 = NOT) -/
def Expr.level : Expr → Nat
  | .atom _ | .paren _ => 0
  | .not _ => 1
  | .op g _ => g.lvl

/-- the leaf node kinds (the nodes that have a `query()` of their own) -/
def Node.isLeaf : Node → Bool
  | .text .. | .range .. | .every => true
  | _ => false

/-- Well-formed expressions: an operator has at least two operands and every operand binds
    strictly tighter than the operator (otherwise it would have to be parenthesised; a chain of
    the same operator is one node). -/
def Expr.wf : Expr → Bool
  | .atom n => n.isLeaf
  | .paren items => !items.isEmpty && (items.map (fun e => e.wf)).all id
  | .not e => e.level == 0 && e.wf
  | .op g es => decide (2 ≤ g.lvl) && decide (2 ≤ es.length) &&
      (es.map (fun e => decide (e.level < g.lvl) && e.wf)).all id
termination_by e => e.size
decreasing_by
  all_goals simp_wf
  all_goals simp only [Expr.size]
  all_goals first
    | omega
    | (rename_i h; have := Expr.size_mem h; omega)

/-! ### Writing an expression down -/

/-- the operator nodes the default `OperatorsPlugin` taggers create (the text is immaterial) -/
def opNot : Node := .op .pre .not true [78, 79, 84]
def opNode (g : GK) : Node := .op .inf g true []

/-- `OperatorsPlugin().ops`: the default taggers in the order they are tried -/
def defaultOps : List OpCfg :=
  [⟨.pre, .not, true⟩, ⟨.inf, .and, true⟩, ⟨.inf, .or, true⟩, ⟨.inf, .andnot, true⟩,
   ⟨.inf, .andmaybe, true⟩, ⟨.inf, .require, true⟩]

/-- `sep`-separated concatenation -/
def joinWith (sep : List Node) : List (List Node) → List Node
  | [] => []
  | [x] => x
  | x :: y :: rest => x ++ sep ++ joinWith sep (y :: rest)

/-- The tagged node list of the expression as typed by a user: operators surrounded by
    whitespace, brackets hugging their contents. -/
def Expr.toks : Expr → List Node
  | .atom n => [n]
  | .paren items => [.opn] ++ joinWith [.ws] (items.map (fun e => e.toks)) ++ [.cls]
  | .not e => [opNot, .ws] ++ e.toks
  | .op g es => joinWith [.ws, opNode g, .ws] (es.map (fun e => e.toks))
termination_by e => e.size
decreasing_by
  all_goals simp_wf
  all_goals simp only [Expr.size]
  all_goals first
    | omega
    | (rename_i h; have := Expr.size_mem h; omega)

/-- a whole query: expressions separated by whitespace -/
def toksSeq (items : List Expr) : List Node := joinWith [.ws] (items.map Expr.toks)

/-! ### Meaning -/

/-- how an infix operator combines the verdicts of its left part and its next operand -/
def binEval (g : GK) (a b : Bool) : Bool :=
  match g with
  | .and | .require => a && b
  | .or => a || b
  | .andnot => a && !b
  | _ => a   -- ANDMAYBE: the right operand only contributes to the score

/-- Which documents an expression selects: `v` says, for one fixed document, whether a leaf
    matches it.  `gk` is the parser's implicit grouping. -/
def Expr.eval (gk : GK) (v : Node → Bool) : Expr → Bool
  | .atom n => v n
  | .paren items =>
    if gk = .or then (items.map (fun e => e.eval gk v)).any id else (items.map (fun e => e.eval gk v)).all id
  | .not e => !e.eval gk v
  | .op g es =>
    match es.map (fun e => e.eval gk v) with
    | [] => false
    | b :: bs => bs.foldl (binEval g) b
termination_by e => e.size
decreasing_by
  all_goals simp_wf
  all_goals simp only [Expr.size]
  all_goals first
    | omega
    | (rename_i h; have := Expr.size_mem h; omega)

def evalSeq (gk : GK) (v : Node → Bool) (items : List Expr) : Bool :=
  if gk = .or then (items.map (fun e => e.eval gk v)).any id else (items.map (fun e => e.eval gk v)).all id

/-- The same reading for a syntax tree (what the group nodes' `query()` classes select):
    And = all, Or/DisMax = any, Not = complement, AndNot = a ∧ ¬b, AndMaybe = a, Require = a ∧ b. -/
def Node.eval (v : Node → Bool) : Node → Bool
  | .group k ns _ =>
    match k with
    | .and | .ordered | .seq => (ns.map (fun n => n.eval v)).all id
    | .or | .dismax => (ns.map (fun n => n.eval v)).any id
    | .not => match ns with
      | n :: _ => !n.eval v
      | [] => false
    | .andnot => match ns with
      | [a, b] => a.eval v && !b.eval v
      | _ => false
    | .andmaybe => match ns with
      | [a, _] => a.eval v
      | _ => false
    | .require => match ns with
      | [a, b] => a.eval v && b.eval v
      | _ => false
  | n => v n
termination_by n => n.size
decreasing_by
  all_goals simp_wf
  all_goals simp only [Node.size, sizeL]
  all_goals first
    | omega
    | (rename_i h; have := size_mem h; omega)

/-! ### The tree the parser is expected to build -/

/-- what `InfixOperator.replace_self` (left-associative) puts in place of `left OP right`: a new
    group, unless the operator's group class is a merging one and `left` already is a group of
    that class, which then simply receives `right` as one more member -/
def combineL (g : GK) (left right : Node) : Node :=
  match (if g.merging then left.groupOf? g else none) with
  | some (ns, b) => .group g (ns ++ [right]) b
  | none => .group g [left, right] 1

/-- The syntax node for an expression.  Note the consequence of `combineL` for `AND` in an
    AND-group parser (`OR` in an OR-group parser) directly after a parenthesised group: the group
    absorbs the other operands.  That selects the same documents (`WM.C16.out_eval`). -/
def Expr.out (gk : GK) : Expr → Node
  | .atom n => n
  | .paren items => .group gk (items.map (fun e => e.out gk)) 1
  | .not e => .group .not [e.out gk] 1
  | .op g es =>
    match es.map (fun e => e.out gk) with
    | [] => .group g [] 1
    | n :: ns => ns.foldl (combineL g) n
termination_by e => e.size
decreasing_by
  all_goals simp_wf
  all_goals simp only [Expr.size]
  all_goals first
    | omega
    | (rename_i h; have := Expr.size_mem h; omega)

/-- a query that is exactly one parenthesised group *is* that group (`do_groups`: "if len(top)
    == 1 and isinstance(top[0], GroupNode)") -/
def stripParen : List Expr → List Expr
  | [.paren inner] => inner
  | items => items

/-- the whole query: the top-level group -/
def outSeq (gk : GK) (items : List Expr) : Node :=
  .group gk ((stripParen items).map (Expr.out gk)) 1

/-- a syntax tree in which every node has a `query()`: no marker node (whitespace, bracket,
    operator, field prefix, boost, plus/minus, fuzziness, comparison sign) is left, and a binary
    group has at most two operands (`hasBoost` is False exactly for the `BinaryGroup` classes) -/
def clean : Node → Bool
  | .group k ns _ => (k.hasBoost || decide (ns.length ≤ 2)) && (ns.map clean).all id
  | .text .. | .range .. | .every => true
  | _ => false
termination_by n => n.size
decreasing_by
  all_goals simp_wf
  rename_i h; have := size_mem h; simp only [Node.size]; omega


/-! ### Comparison signs and wildcards -/

/-- what a range node `[s TO e]` / `{s TO e}` with numeric end points selects -/
def inRange (lo hi : Option Int) (loExcl hiExcl : Bool) (x : Int) : Bool :=
  (match lo with
   | none => true
   | some a => if loExcl then decide (a < x) else decide (a ≤ x)) &&
  (match hi with
   | none => true
   | some b => if hiExcl then decide (x < b) else decide (x ≤ b))

/-- the reading of the six comparison spellings of `GtLtPlugin` -/
def Rel.holds : Rel → Int → Int → Bool
  | .lt, x, v => decide (x < v)
  | .gt, x, v => decide (x > v)
  | .le, x, v | .el, x, v => decide (x ≤ v)
  | .ge, x, v | .eg, x, v => decide (x ≥ v)

/-- glob matching: `*` (42) any run, `?` (63) one character -/
def globMatch : List Nat → List Nat → Bool
  | [], [] => true
  | [], _ :: _ => false
  | p :: ps, s =>
    if p = 42 then
      globMatch ps s || (match s with
        | [] => false
        | _ :: s' => globMatch (p :: ps) s')
    else match s with
      | [] => false
      | c :: s' => (p = 63 || p = c) && globMatch ps s'
termination_by p s => p.length + s.length


/-! ### What a query object selects -/

/-- Which documents a query object selects, `w` saying for one fixed document which leaf queries
    match it: the classical reading of the query classes (C01's denotation).  An intersection or
    union without members matches nothing. -/
def Q.eval (w : Nat → Bool) : Q → Bool
  | .leaf id _ => w id
  | .null => false
  | .compound k subs _ =>
    match k with
    | .and | .ordered | .seq => !subs.isEmpty && (subs.map (fun q => q.eval w)).all id
    | .or | .dismax => (subs.map (fun q => q.eval w)).any id
    | _ => false
  | .not q => !q.eval w
  | .binary k a b =>
    match k with
    | .andnot => a.eval w && !b.eval w
    | .andmaybe => a.eval w
    | .require => a.eval w && b.eval w
    | _ => false

/-- a tree in which every group has the operands its class needs (one for NOT, two for the binary
    classes, at least one otherwise) and every leaf is a word/phrase/wildcard, a range or `*:*` -/
def Node.full : Node → Bool
  | .group k ns _ =>
    (match k with
     | .not => decide (ns.length = 1)
     | .andnot | .andmaybe | .require => decide (ns.length = 2)
     | _ => !ns.isEmpty) && (ns.map Node.full).all id
  | .text .. | .range .. | .every => true
  | _ => false
termination_by n => n.size
decreasing_by
  all_goals simp_wf
  rename_i h; have := size_mem h; simp only [Node.size]; omega

end WM.Parser
