/-
Specification layer of C19: what "edit distance" and "the terms within distance d of a word with
a required common prefix of length p" mean.  Characters are code points (`Nat`), words are lists
of characters, a lexicon is a list of words.

Two distances are specified by the textbook recursion on the first characters:
* `lev`  - Levenshtein distance (insert, delete, substitute), and
* `osa`  - optimal string alignment ("restricted Damerau-Levenshtein": additionally a swap of two
  adjacent characters costs one edit and a swapped pair is not edited again).  This is the
  distance that whoosh documents for fuzzy terms and suggestions (docs/source/parsing.rst:
  "insertions, deletions, and/or transpositions"; `IndexReader.terms_within` docstring) and that
  `whoosh.support.levenshtein.distance = damerau_levenshtein` computes.

Both are instances of one definition `ed tr` (the flag switches the transposition rule on) so
that the theory is developed once; `lev_cons_cons` / `osa_cons_cons` in `WM/Lemmas/Edit.lean`
restate the recursion for each of them separately.

Independently of the recursion, `Script tr a b n` says "there is an edit script of cost `n` turning
`a` into `b`"; `WM.Edit.ed_le_iff` (Lemmas) proves `ed tr a b ≤ n ↔ ∃ m ≤ n, Script tr a b m`, i.e. the
recursion computes the minimum script cost.
-/
namespace WM.Edit

/-- Cost of aligning character `x` with `y`. -/
def neq (x y : Nat) : Nat := if x = y then 0 else 1

/-- Edit distance by recursion on the first characters; `tr = true` adds the adjacent
    transposition rule (optimal string alignment). -/
def ed (tr : Bool) : List Nat → List Nat → Nat
  | [], b => b.length
  | _ :: a, [] => a.length + 1
  | x :: a, y :: b =>
    let base := min (ed tr a (y :: b) + 1) (min (ed tr (x :: a) b + 1) (ed tr a b + neq x y))
    match a, b with
    | x' :: a', y' :: b' =>
      if tr = true ∧ x = y' ∧ x' = y then min base (ed tr a' b' + 1) else base
    | _, _ => base
termination_by a b => a.length + b.length

/-- Levenshtein distance. -/
def lev (a b : List Nat) : Nat := ed false a b

/-- Optimal-string-alignment distance (the documented "Damerau-Levenshtein" of whoosh). -/
def osa (a b : List Nat) : Nat := ed true a b

/-- Edit scripts: `Script tr a b n` - `a` can be turned into `b` at cost `n`.  With `tr` an
    adjacent pair may be swapped at cost 1 (and is then not touched again). -/
inductive Script (tr : Bool) : List Nat → List Nat → Nat → Prop
  | nil : Script tr [] [] 0
  | del {a b n} (x : Nat) : Script tr a b n → Script tr (x :: a) b (n + 1)
  | ins {a b n} (y : Nat) : Script tr a b n → Script tr a (y :: b) (n + 1)
  | sub {a b n} (x y : Nat) : Script tr a b n → Script tr (x :: a) (y :: b) (n + neq x y)
  | swap {a b n} (x y : Nat) : tr = true → Script tr a b n → Script tr (x :: y :: a) (y :: x :: b) (n + 1)

/-- `t` and `w` share the required prefix: the first `p` characters of the query word `w` (all of
    `w` when it is shorter than `p`) start `t`.  This is the reading of
    `expand_prefix(fieldname, text[:prefix])` in `IndexReader.terms_within`. -/
def sharePrefix (p : Nat) (t w : List Nat) : Bool := (w.take p).isPrefixOf t

/-- The terms of a lexicon within distance `d` of `w` that share a prefix of length `p` with it,
    in lexicon order. -/
def within (dist : List Nat → List Nat → Nat) (lex : List (List Nat)) (w : List Nat) (d p : Nat) :
    List (List Nat) :=
  lex.filter fun t => sharePrefix p t w && decide (dist t w ≤ d)

end WM.Edit
