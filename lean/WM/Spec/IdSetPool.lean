import WM.Model.IdSets
/-!
Specification of pool programs (`WM.IdSets.PoolOp`): every register is a finite set of naturals in
canonical form (strictly ascending list) and every operation is the set operation of
`WM.Spec.IdSet`.  Only the *syntax* of programs is shared with the model.
-/
namespace WM.Spec.IdSet
open WM.IdSets (PoolOp BinOp Inner)

def binop : BinOp → List Nat → List Nat → List Nat
  | .union => union
  | .inter => inter
  | .diff => diff

abbrev SPool := List (List Nat)

def SPool.assign (p : SPool) (dst : Nat) (x : List Nat) : Option SPool :=
  if dst < p.length then some (p.set dst x) else none

/-- one step; `none` = the program names a register that does not exist. -/
def SPool.step (p : SPool) : PoolOp → Option SPool
  | .bin op dst a b => do p.assign dst (binop op (← p[a]?) (← p[b]?))
  | .upd op a b => do p.assign a (binop op (← p[a]?) (← p[b]?))
  | .add a i => do p.assign a (insert i (← p[a]?))
  | .discard a i => do p.assign a (erase i (← p[a]?))
  | .clear a => do let _ ← p[a]?; p.assign a []
  | .invert dst a size => do p.assign dst (invert size (← p[a]?))
  | .invupd a size => do p.assign a (invert size (← p[a]?))
  | .copy dst a => do p.assign dst (← p[a]?)
  | .load dst x => p.assign dst (ofList x.iter)

def SPool.run (p : SPool) : List PoolOp → Option SPool
  | [] => some p
  | op :: ops => match p.step op with
    | none => none
    | some p' => SPool.run p' ops

end WM.Spec.IdSet
