import WM.Model.NormalizeReader
import WM.Spec.Clean
/-
`simplify(ixreader)` ends every inner node with a `normalize()` of the rebuilt node, so it inherits
the recorded defects of `normalize` (WM.Clean).  `cleanS rd q` says that none of the trees that
`simplify` hands to `normalize` is affected; it is the hypothesis of `WM.C15.simplify_sat_partial`.
-/
namespace WM.Clean
open WM.Normalize WM.Sat

mutual
def cleanS (multi : Nat → Field → Text → Nat → Text → Bool)
    (bracket : Text → Option ((Nat → Bool) × Nat)) (rd : Reader) : Q → Bool
  | .comp k qs b =>
    cleanSList multi bracket rd qs &&
      (qs.isEmpty || clean (.comp k (simplifyList multi bracket rd qs) b))
  | .seq _ qs _ _ _ => qs.isEmpty || (simplifyList multi bracket rd qs == qs && normalizeList qs == qs)
  | .bin k a b =>
    cleanS multi bracket rd a && cleanS multi bracket rd b &&
      clean (.bin k (simplify multi bracket rd a) (simplify multi bracket rd b))
  | _ => true
def cleanSList (multi : Nat → Field → Text → Nat → Text → Bool)
    (bracket : Text → Option ((Nat → Bool) × Nat)) (rd : Reader) : List Q → Bool
  | [] => true
  | q :: qs => cleanS multi bracket rd q && cleanSList multi bracket rd qs
end

mutual
/-- `emptyOk` of every tree that `simplify` hands to `normalize` (cf. `cleanS`). -/
def emptyOkS (multi : Nat → Field → Text → Nat → Text → Bool)
    (bracket : Text → Option ((Nat → Bool) × Nat)) (rd : Reader) : Q → Bool
  | .comp k qs b =>
    emptyOkSList multi bracket rd qs &&
      (qs.isEmpty || emptyOk (.comp k (simplifyList multi bracket rd qs) b))
  | .bin k a b =>
    emptyOkS multi bracket rd a && emptyOkS multi bracket rd b &&
      emptyOk (.bin k (simplify multi bracket rd a) (simplify multi bracket rd b))
  | _ => true
def emptyOkSList (multi : Nat → Field → Text → Nat → Text → Bool)
    (bracket : Text → Option ((Nat → Bool) × Nat)) (rd : Reader) : List Q → Bool
  | [] => true
  | q :: qs => emptyOkS multi bracket rd q && emptyOkSList multi bracket rd qs
end

mutual
def defectsS (multi : Nat → Field → Text → Nat → Text → Bool)
    (bracket : Text → Option ((Nat → Bool) × Nat)) (rd : Reader) : Q → List String
  | .comp k qs b =>
    defectsSList multi bracket rd qs ++
      (if qs.isEmpty then [] else defects (.comp k (simplifyList multi bracket rd qs) b))
  | .seq _ qs _ _ _ =>
    if qs.isEmpty || (simplifyList multi bracket rd qs == qs && normalizeList qs == qs) then []
    else ["seq-child"]
  | .bin k a b =>
    defectsS multi bracket rd a ++ defectsS multi bracket rd b ++
      defects (.bin k (simplify multi bracket rd a) (simplify multi bracket rd b))
  | _ => []
def defectsSList (multi : Nat → Field → Text → Nat → Text → Bool)
    (bracket : Text → Option ((Nat → Bool) × Nat)) (rd : Reader) : List Q → List String
  | [] => []
  | q :: qs => defectsS multi bracket rd q ++ defectsSList multi bracket rd qs
end

end WM.Clean
