import WM.Model.Normalize
/-
Layer S for C15: what a query *means*.

`sat env q d` says whether document `d` satisfies query `q`, by structural recursion on the tree.
It is the per-document reading of what `Query.matcher()` enumerates (checked end-to-end against
`Searcher.docs_for_query` on every run, never against `normalize`).

A document is a function from field ids to the list of its tokens in position order.  Everything
that depends on more than the document is a parameter (`Env`), and every theorem of C15 holds for
*every* `Env`:

* `multi`   which terms a `FuzzyTerm` / `Variations` / `Regex` / `NumericRange` leaf expands to
            (an arbitrary predicate on terms: the index's lexicon is not fixed),
* `bracket` how a `[...]` character class in a glob is read (`fnmatch`),
* `seqPos`  the positional part of `Sequence` / `Ordered` (a sequence matches only documents that
            match all its subqueries; which of those, depends on spans, which are not modelled),
* `index`   the documents of the index (`Otherwise(a, b)` looks at whether `a` matches anything).
-/
namespace WM.Sat
open WM.Normalize

structure Doc where
  /-- document number (only used to look a document up in tabulated `Env` components) -/
  id : Nat := 0
  toks : Field → List Text

/-- Token of a compiled glob. -/
inductive GTok where
  | lit (c : Nat) | any | star | cls (p : Nat → Bool)

structure Env where
  multi : Nat → Field → Text → Nat → Text → Bool
  /-- Given the pattern text after a `[`: `none` if the bracket is literal, else the class and the
      number of pattern characters it consumes. -/
  bracket : Text → Option ((Nat → Bool) × Nat)
  seqPos : Bool → Nat → Bool → List Q → Doc → Bool
  /-- which documents a span query (an opaque leaf, identified by its canonical text) matches -/
  opq : List Nat → Doc → Bool
  index : List Doc

/-- Any term in the field (`Every(fieldname)`: union of all postings of the field). -/
def hasField (d : Doc) (f : Field) : Bool := !(d.toks f).isEmpty

/-- `fnmatch.translate`: `*`, `?`, `[`, literal. -/
def parseGlob (br : Text → Option ((Nat → Bool) × Nat)) : Text → List GTok
  | [] => []
  | c :: rest =>
    if c = starC then .star :: parseGlob br rest
    else if c = qmarkC then .any :: parseGlob br rest
    else if c = lbrC then
      match br rest with
      | none => .lit c :: parseGlob br rest
      | some (p, n) => .cls p :: parseGlob br (rest.drop n)
    else .lit c :: parseGlob br rest
termination_by t => t.length
decreasing_by
  all_goals simp only [List.length_cons, List.length_drop]
  all_goals omega

/-- Whole-string glob match (`re.match` of the translated pattern, which ends in `\Z`). -/
def gmatch : List GTok → Text → Bool
  | [], t => t.isEmpty
  | .star :: ps, t => (List.range (t.length + 1)).any fun k => gmatch ps (t.drop k)
  | .any :: ps, t => match t with
    | [] => false
    | _ :: t' => gmatch ps t'
  | .lit c :: ps, t => match t with
    | [] => false
    | x :: t' => x == c && gmatch ps t'
  | .cls p :: ps, t => match t with
    | [] => false
    | x :: t' => p x && gmatch ps t'

/-- Term `x` lies in the range: `start <= x <= end` on the comparables of `RangeMixin`. -/
def inRange (lo hi : Option Text) (lox hix : Bool) (x : Text) : Bool :=
  Cmp.le (cmpStart lo lox) ⟨.val x, 0⟩ && Cmp.le ⟨.val x, 0⟩ (cmpEnd hi hix)

/-- Term `x` is one of the terms `TermRange._btexts` yields: in the range, and not the empty term when
    the start is open (`None`) and exclusive. -/
def inRangeQ (lo hi : Option Text) (lox hix : Bool) (x : Text) : Bool :=
  inRange lo hi lox hix x && !(lo == none && lox && x == [])

/-- The words `ws` follow position `p`, each 1..slop positions after the previous one
    (`Phrase` = `SpanNear2(ordered=True, mindist=1)`). -/
def chainFrom (toks : List Text) (slop : Nat) : Nat → List Text → Bool
  | _, [] => true
  | p, w :: ws => (List.range slop).any fun k =>
      toks[p + 1 + k]? == some w && chainFrom toks slop (p + 1 + k) ws

def phraseMatch (toks : List Text) (slop : Nat) : List Text → Bool
  | [] => false
  | w :: ws => (List.range toks.length).any fun p => toks[p]? == some w && chainFrom toks slop p ws

mutual
def sat (env : Env) : Q → Doc → Bool
  | .null, _ => false
  | .every none _, _ => true
  | .every (some f) _, d => hasField d f
  | .term f t _, d => (d.toks f).contains t
  -- multi-term queries look at every term their `_btexts` yields, the empty term included
  -- (`MultiTerm.matcher` with the `fix:` "no longer skips the empty term");
  -- `Prefix("")` and `Wildcard("*")` are compiled as `Every(fieldname)`
  | .pre f t _ _, d => if t = [] then hasField d f else (d.toks f).any fun x => t.isPrefixOf x
  | .wild f t _ _, d =>
    if t = [starC] then hasField d f
    else (d.toks f).any fun x => gmatch (parseGlob env.bracket t) x
  | .multi k f t key _, d => (d.toks f).any fun x => env.multi k f t key x
  -- `TermRange._btexts` starts its scan at `b""` when `start is None` and skips a first term equal to
  -- the start when `startexcl` is set: an exclusive open start leaves the empty term out
  | .range f lo hi lx hx _ _, d => (d.toks f).any fun x => inRangeQ lo hi lx hx x
  | .phrase f ws slop _, d => phraseMatch (d.toks f) slop ws
  | .comp .and qs _, d => !qs.isEmpty && satAll env qs d
  | .comp .or qs _, d => satAny env qs d
  | .comp .dismax qs _, d => satAny env qs d
  | .seq c qs slop o _, d => !qs.isEmpty && satAll env qs d && env.seqPos c slop o qs d
  | .not q _, d => !sat env q d
  | .bin .andnot a b, d => sat env a d && !sat env b d
  | .bin .andmaybe a _, d => sat env a d
  | .bin .require a b, d => sat env a d && sat env b d
  | .bin .otherwise a b, d => if env.index.any (sat env a) then sat env a d else sat env b d
  | .const q _, d => sat env q d
  -- a span query that reports a field only matches documents that have a term in it
  | .opq none c, d => env.opq c d
  | .opq (some f) c, d => hasField d f && env.opq c d
def satAll (env : Env) : List Q → Doc → Bool
  | [], _ => true
  | q :: qs, d => sat env q d && satAll env qs d
def satAny (env : Env) : List Q → Doc → Bool
  | [], _ => false
  | q :: qs, d => sat env q d || satAny env qs d
end

/-- The answer of a query on the index of `env`: the ids of the satisfying documents. -/
def answer (env : Env) (q : Q) : List Nat := (env.index.filter (sat env q)).map (·.id)

/-- A document without the empty term. -/
def Doc.NoEmpty (d : Doc) : Prop := ∀ f, ∀ x ∈ d.toks f, x ≠ []

/-- A document with all terms below `u"￿"` (what the shortcut `end == u"￿"` of
    `TermRange.normalize` silently assumes). -/
def Doc.BelowMax (d : Doc) : Prop := ∀ f, ∀ x ∈ d.toks f, x < maxText

/-- A document without the empty term and with all terms below `u"￿"`. -/
def Doc.Plain (d : Doc) : Prop := ∀ f, ∀ x ∈ d.toks f, x ≠ [] ∧ x < maxText

theorem Doc.Plain.noEmpty {d : Doc} (h : d.Plain) : d.NoEmpty := fun f x hx => (h f x hx).1
theorem Doc.Plain.belowMax {d : Doc} (h : d.Plain) : d.BelowMax := fun f x hx => (h f x hx).2

/-- A range with an exclusive start that is open (`None`) or the empty string: the one kind of leaf on
    which the empty term still matters (`TermRange.normalize` turns `{ TO ...]` into `Every(f)`, and the
    comparables of `overlaps/merge` forget the exclusion of an open start). -/
def _root_.WM.Normalize.Rng.openExcl (r : Rng) : Bool := r.lox && (r.lo == none || r.lo == some [])

/-- The empty term is harmless for range `r` on document `d`. -/
def ROk (d : Doc) (r : Rng) : Prop := r.openExcl = false ∨ d.NoEmpty

end WM.Sat
