/-
Layer S for C01 / C09: what a query *means* on a corpus, with no algorithmic content.

* a document is a list of field values; a field value is the analysed token list of that field
  (term bytes, position, token boost), the field's boost (format `field_boost` × the
  `_<field>_boost` / `_boost` keyword given to `add_document`) and, for NUMERIC/DATETIME fields,
  the numeric values;
* an index is a list of segments, a segment is its documents in local doc-number order plus the
  set of deleted local doc numbers; global doc numbers are local numbers shifted by the total
  size of the earlier segments (`reading.MultiReader` offsets);
* `sat q d` — does document `d` satisfy `q` (documented meaning of every public query type);
* `scoreOf ls q d` — the documented composition of leaf (term) scores `ls`;
* `answer`, `rankAll` — what a search returns.

Mathlib-free (the driver links this file).
-/
namespace WM.Search

/-- A term is the byte string stored in the term dictionary (`field.to_bytes(text)`). -/
abbrev Term := List Nat

structure Token where
  term : Term
  pos : Nat
  boost : Rat
  deriving Repr

/-- One indexed field of one document. -/
structure FieldVal where
  name : String
  /-- format `field_boost` × (`_<name>_boost` if given, else `_boost`, else 1). -/
  boost : Rat
  tokens : List Token
  /-- values of a NUMERIC / DATETIME field (as exact rationals); empty for other fields. -/
  nums : List Rat
  deriving Repr

structure Doc where
  fields : List FieldVal
  deriving Repr

namespace Doc

def field? (d : Doc) (f : String) : Option FieldVal := d.fields.find? (fun fv => fv.name == f)

def tokens (d : Doc) (f : String) : List Token :=
  match d.field? f with
  | some fv => fv.tokens
  | none => []

def fboost (d : Doc) (f : String) : Rat :=
  match d.field? f with
  | some fv => fv.boost
  | none => 1

def nums (d : Doc) (f : String) : List Rat :=
  match d.field? f with
  | some fv => fv.nums
  | none => []

/-- terms of field `f` in order of appearance (with repetitions). -/
def terms (d : Doc) (f : String) : List Term := (d.tokens f).map (·.term)

def hasTerm (d : Doc) (f : String) (t : Term) : Bool := (d.terms f).contains t

/-- positions at which `t` occurs in field `f`. -/
def positions (d : Doc) (f : String) (t : Term) : List Nat :=
  ((d.tokens f).filter (fun k => k.term == t)).map (·.pos)

/-- Stored term weight: sum of the token boosts × field boost (`formats.*.word_values`,
    `writing.SegmentWriter.add_document`). -/
def weight (d : Doc) (f : String) (t : Term) : Rat :=
  (((d.tokens f).filter (fun k => k.term == t)).map (·.boost)).sum * d.fboost f

end Doc

/-- Remove repetitions, keeping first occurrences. -/
def dedup : List Term → List Term
  | [] => []
  | t :: ts => if (dedup ts).contains t then dedup ts else t :: dedup ts

/-! ### Multi-term predicates (prefix, range, wildcard, fuzzy, explicit sets) -/

/-- `fnmatch` pattern items: literal character (code point), `?`, `*`, `[seq]` / `[!seq]`. -/
inductive Glob where
  | lit (c : Nat)
  | any
  | star
  | cls (neg : Bool) (cs : List Nat)
  deriving Repr, BEq

/-- Whole-string glob match (`re.match(fnmatch.translate(pat), text)`). -/
def globMatch : List Glob → List Nat → Bool
  | [], t => t.isEmpty
  | .lit c :: p, x :: t => c == x && globMatch p t
  | .lit _ :: _, [] => false
  | .any :: p, _ :: t => globMatch p t
  | .any :: _, [] => false
  | .cls neg cs :: p, x :: t => (cs.contains x != neg) && globMatch p t
  | .cls _ _ :: _, [] => false
  | .star :: p, [] => globMatch p []
  | .star :: p, x :: t => globMatch p (x :: t) || globMatch (.star :: p) t
termination_by p t => (p.length, t.length)

/-- Levenshtein distance (insert, delete, substitute; unit costs). -/
def lev : List Nat → List Nat → Nat
  | [], t => t.length
  | s, [] => s.length
  | a :: s, b :: t =>
    if a == b then lev s t
    else 1 + min (lev s t) (min (lev (a :: s) t) (lev s (b :: t)))
termination_by s t => s.length + t.length

/-- UTF-8 decoder state machine: `pending` continuation bytes are still expected for the code
    point accumulated in `acc`. -/
def utf8Go : Nat → Nat → List Nat → List Nat
  | _, _, [] => []
  | 0, _, b :: rest =>
    if b < 192 then b :: utf8Go 0 0 rest
    else if b < 224 then utf8Go 1 (b % 32) rest
    else if b < 240 then utf8Go 2 (b % 16) rest
    else utf8Go 3 (b % 8) rest
  | n + 1, acc, b :: rest =>
    if n = 0 then (acc * 64 + b % 64) :: utf8Go 0 0 rest
    else utf8Go n (acc * 64 + b % 64) rest

/-- The code points of a term (terms of text fields are valid UTF-8).  Wildcards (`?`, `[..]`)
    and edit distance count characters, not bytes: whoosh matches them on
    `field.from_bytes(term)`. -/
def utf8Decode (t : List Nat) : List Nat := utf8Go 0 0 t

/-- byte-lexicographic `a < b`. -/
def bytesLt : List Nat → List Nat → Bool
  | _, [] => false
  | [], _ :: _ => true
  | a :: as, b :: bs => a < b || (a == b && bytesLt as bs)

def bytesLe (a b : List Nat) : Bool := !bytesLt b a

inductive TermPred where
  /-- `Prefix(f, p)` -/
  | pfx (p : Term)
  /-- `TermRange(f, lo, hi, loExcl, hiExcl)`; `none` = open end. -/
  | range (lo hi : Option Term) (loExcl hiExcl : Bool)
  /-- `Wildcard(f, pat)` -/
  | glob (pat : List Glob)
  /-- `FuzzyTerm(f, w, maxdist, prefixlength)` -/
  | fuzzy (w : Term) (maxd pre : Nat)
  /-- an explicit set of terms (regular expressions: computed by Python's `re`, trusted). -/
  | oneOf (ts : List Term)
  /-- a pattern that matches every term (`Regex ".*"`). -/
  | all
  deriving Repr

def TermPred.test : TermPred → Term → Bool
  | .pfx p, t => p.isPrefixOf t
  | .range lo hi le he, t =>
    (match lo with
      | none => true
      | some l => if le then bytesLt l t else bytesLe l t) &&
    (match hi with
      | none => true
      | some h => if he then bytesLt t h else bytesLe t h)
  | .glob pat, t => globMatch pat (utf8Decode t)
  | .fuzzy w k p, t =>
    ((utf8Decode t).take p == (utf8Decode w).take p) &&
      decide (lev ((utf8Decode t).drop p) ((utf8Decode w).drop p) ≤ k)
  | .oneOf ts, t => ts.contains t
  | .all, _ => true

/-- patterns that match every term: `Prefix(f, "")`, `Wildcard(f, "*")`, `Regex(f, ".*")`.
    Such a query *is* the query `Every(f)` (`Prefix.matcher`, `Wildcard.matcher`, `Regex.matcher`). -/
def isAllPred : TermPred → Bool
  | .pfx [] => true
  | .glob [.star] => true
  | .all => true
  | _ => false

/-! ### Queries -/

inductive Query where
  | term (f : String) (t : Term) (boost : Rat)
  /-- Prefix / Wildcard / Regex / TermRange / FuzzyTerm. `cs` = the `constantscore` flag. -/
  | multi (f : String) (p : TermPred) (boost : Rat) (cs : Bool)
  | phrase (f : String) (ws : List Term) (slop : Nat) (boost : Rat)
  /-- NumericRange / DateRange with `constantscore=True`. -/
  | numRange (f : String) (lo hi : Option Rat) (loExcl hiExcl : Bool) (boost : Rat)
  | every (f : Option String) (boost : Rat)
  | null
  | and (qs : List Query) (boost : Rat)
  | or (qs : List Query) (boost : Rat)
  | dismax (qs : List Query) (boost : Rat)
  | not (q : Query)
  | andNot (a b : Query)
  | andMaybe (a b : Query)
  | require (a b : Query)
  | constScore (q : Query) (score : Rat)
  deriving Repr

/-- Phrase: after a word at position `prev`, the remaining words occur at increasing positions,
    each at distance between 1 and `slop` from its predecessor. -/
def chainFrom (slop : Nat) (prev : Nat) : List (List Nat) → Bool
  | [] => true
  | ps :: more => ps.any (fun p => decide (prev < p) && decide (p - prev ≤ slop) && chainFrom slop p more)

def phraseSat (slop : Nat) : List (List Nat) → Bool
  | [] => false
  | ps :: more => ps.any (fun p => chainFrom slop p more)

def inRange (lo hi : Option Rat) (le he : Bool) (v : Rat) : Bool :=
  (match lo with
    | none => true
    | some l => if le then decide (l < v) else decide (l ≤ v)) &&
  (match hi with
    | none => true
    | some h => if he then decide (v < h) else decide (v ≤ h))

mutual
/-- Does document `d` satisfy `q`?  (`Not` is relative to the live documents: `answer` only ever
    asks about live documents.) -/
def sat : Query → Doc → Bool
  | .term f t _, d => d.hasTerm f t
  | .multi f p _ _, d => (d.terms f).any p.test
  | .phrase f ws slop _, d => phraseSat slop (ws.map (d.positions f))
  | .numRange f lo hi le he _, d => (d.nums f).any (inRange lo hi le he)
  | .every none _, _ => true
  | .every (some f) _, d => !(d.terms f).isEmpty
  | .null, _ => false
  | .and qs _, d => !qs.isEmpty && satAll qs d
  | .or qs _, d => satAny qs d
  | .dismax qs _, d => satAny qs d
  | .not q, d => !sat q d
  | .andNot a b, d => sat a d && !sat b d
  | .andMaybe a _, d => sat a d
  | .require a b, d => sat a d && sat b d
  | .constScore q _, d => sat q d
def satAll : List Query → Doc → Bool
  | [], _ => true
  | q :: qs, d => sat q d && satAll qs d
def satAny : List Query → Doc → Bool
  | [], _ => false
  | q :: qs, d => sat q d || satAny qs d
end

/-- A leaf scorer: the weighting model's score of term `t` of field `f` in document `d`
    (a function of the stored weight, the field length byte and collection statistics). -/
abbrev LeafScore := Doc → String → Term → Rat

/-- `scoring.Frequency`: the stored weight. -/
def freqLeaf : LeafScore := fun d f t => d.weight f t

def optMax : Option Rat → Rat → Option Rat
  | none, x => some x
  | some m, x => some (if m < x then x else m)

mutual
/-- The documented composition of scores (C09). Only meaningful when `sat q d`. -/
def scoreOf (ls : LeafScore) : Query → Doc → Rat
  | .term f t b, d => ls d f t * b
  | .multi f p b cs, d =>
    if cs || isAllPred p then b
    else ((((dedup (d.terms f)).filter p.test).map (ls d f)).sum) * b
  | .phrase f ws _ b, d => ((ws.map (ls d f)).sum) * b
  | .numRange _ _ _ _ _ b, _ => b
  | .every _ b, _ => b
  | .null, _ => 0
  | .and qs b, d => sumAll ls qs d * b
  | .or qs b, d => sumSat ls qs d * b
  | .dismax qs b, d => (maxSat ls qs d).getD 0 * b
  | .not _, _ => 1
  | .andNot a _, d => scoreOf ls a d
  | .andMaybe a b, d => scoreOf ls a d + (if sat b d then scoreOf ls b d else 0)
  | .require a _, d => scoreOf ls a d
  | .constScore _ s, _ => s
/-- sum over all clauses (And: every clause matches). -/
def sumAll (ls : LeafScore) : List Query → Doc → Rat
  | [], _ => 0
  | q :: qs, d => scoreOf ls q d + sumAll ls qs d
/-- sum over the clauses that match (Or). -/
def sumSat (ls : LeafScore) : List Query → Doc → Rat
  | [], _ => 0
  | q :: qs, d => (if sat q d then scoreOf ls q d else 0) + sumSat ls qs d
/-- maximum over the clauses that match (DisjunctionMax). -/
def maxSat (ls : LeafScore) : List Query → Doc → Option Rat
  | [], _ => none
  | q :: qs, d =>
    match maxSat ls qs d with
    | none => if sat q d then some (scoreOf ls q d) else none
    | some m => if sat q d then some (if m < scoreOf ls q d then scoreOf ls q d else m) else some m
end

/-! ### Corpus, segments, answers -/

structure Segment where
  /-- documents in local doc-number order (deleted ones included). -/
  docs : List Doc
  /-- deleted local doc numbers. -/
  deleted : List Nat
  deriving Repr

namespace Segment
def size (s : Segment) : Nat := s.docs.length
/-- live local doc numbers, ascending. -/
def live (s : Segment) : List Nat := (List.range s.size).filter (fun i => !s.deleted.contains i)
def doc (s : Segment) (i : Nat) : Doc := s.docs.getD i ⟨[]⟩
end Segment

abbrev Index := List Segment

structure Hit where
  id : Nat
  score : Rat
  deriving Repr, BEq, DecidableEq

/-- hits of one segment in local doc numbers. -/
def segHits (ls : LeafScore) (q : Query) (s : Segment) : List Hit :=
  (s.live.filter (fun i => sat q (s.doc i))).map (fun i => ⟨i, scoreOf ls q (s.doc i)⟩)

def shift (off : Nat) (hs : List Hit) : List Hit := hs.map (fun h => ⟨h.id + off, h.score⟩)

/-- all hits in ascending global doc-number order (offsets as in `MultiReader`). -/
def hitsFrom (ls : LeafScore) (q : Query) : Nat → Index → List Hit
  | _, [] => []
  | off, s :: rest => shift off (segHits ls q s) ++ hitsFrom ls q (off + s.size) rest

def hits (ls : LeafScore) (q : Query) (idx : Index) : List Hit := hitsFrom ls q 0 idx

/-- C01: the documents a search returns (ascending global doc numbers). -/
def answer (q : Query) (idx : Index) : List Nat := (hits freqLeaf q idx).map (·.id)

/-- ranking order: score descending, then doc number ascending. -/
def rankBefore (a b : Hit) : Bool := b.score < a.score || (a.score == b.score && a.id ≤ b.id)

def insertRanked (h : Hit) : List Hit → List Hit
  | [] => [h]
  | x :: xs => if rankBefore h x then h :: x :: xs else x :: insertRanked h xs

/-- C05/C09: the exhaustive ranking. -/
def rankAll (ls : LeafScore) (q : Query) (idx : Index) : List Hit :=
  (hits ls q idx).foldr insertRanked []

end WM.Search
